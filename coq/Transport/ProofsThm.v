(* Theorems about coq/Transport/Model.v behind coq/Props/C14.v. *)
From Coq Require Import ZArith NArith List Bool Lia.
From PSO Require Import Transport.Model Transport.Proofs Transport.ProofsInv.
Import ListNotations.
Open Scope Z_scope.

(* ================= C14_one_dialer ================= *)
Lemma one_dialer : forall a b : Z, a <> b ->
  xorb (should_connect (Some a) b) (should_connect (Some b) a) = true.
Proof.
  intros a b H; simpl. destruct (b <? a) eqn:E1; destruct (a <? b) eqn:E2; simpl; try reflexivity.
  - apply Z.ltb_lt in E1; apply Z.ltb_lt in E2; lia.
  - apply Z.ltb_ge in E1; apply Z.ltb_ge in E2; lia.
Qed.

Lemma readonly_always_dials : forall b, should_connect None b = true.
Proof. reflexivity. Qed.

Example one_dialer_example : should_connect (Some 3) 1 = true /\ should_connect (Some 1) 3 = false.
Proof. split; reflexivity. Qed.

(* ---------- kinds of outputs the helpers can produce ---------- *)
Definition quiet_kind (o : output) : Prop :=
  match o with
  | ODial _ _ _ | ORaise _ | ONodeDisconnected _ | ORODisconnected _ | ODisconnect _ => True
  | _ => False
  end.

Lemma qout_kind : forall st l o, qout st l o -> quiet_kind o.
Proof. intros st l o; destruct o; simpl; tauto. Qed.
Lemma dout_kind : forall st c o, dout st c o -> quiet_kind o.
Proof. intros st c o; destruct o; simpl; tauto. Qed.

Lemma reject_out : forall st now refuse c o, In o (snd (reject st now refuse c)) ->
  o = ODisconnect c \/ dout st c o.
Proof.
  intros st now refuse c o; unfold reject.
  pose proof (conn_disconnect_out st now refuse c o) as H.
  destruct (conn_disconnect st now refuse c) as [st1 o1]; simpl in *.
  intros [E|E]; [left; congruence | right; apply H; exact E].
Qed.

Lemma pre_register_kind : forall st now refuse c n o, In o (snd (pre_register st now refuse c n)) -> quiet_kind o.
Proof.
  intros st now refuse c n o; unfold pre_register.
  set (st0 := set_unknown st (nremove c (unknown st))).
  destruct (registered st0 n) as [old|]; simpl; [|tauto].
  destruct (N.eqb old c); simpl; [tauto|].
  pose proof (conn_disconnect_out (unreg st0 n) now refuse old o) as H.
  destruct (conn_disconnect (unreg st0 n) now refuse old) as [st2 o2]; simpl in *.
  intros [E|E]; [subst o; exact I | eapply dout_kind; apply H; exact E].
Qed.

Lemma register_kind : forall st now refuse c n o, In o (snd (register st now refuse c n)) -> quiet_kind o.
Proof. intros st now refuse c n o; rewrite register_eq; simpl; apply pre_register_kind. Qed.

(* dial attempts of one step: only towards addresses this node has to dial, on the object registered for them *)
Definition dial_ok (st : tstate) (o : output) : Prop :=
  match o with
  | ODial c a _ => should_connect (self_addr st) a = true /\ exists st', self_addr st' = self_addr st /\ registered st' (Member a) = Some c
  | _ => True
  end.

Lemma qout_dial_ok : forall st st0 l o, self_addr st = self_addr st0 -> qout st l o -> dial_ok st0 o.
Proof.
  intros st st0 l o HS; destruct o; simpl; try tauto.
  intros (H1 & H2 & _); rewrite <- HS; split; [exact H2 | exists st; auto].
Qed.
Lemma dout_dial_ok : forall st st0 c o, self_addr st = self_addr st0 -> dout st c o -> dial_ok st0 o.
Proof.
  intros st st0 c o HS; destruct o; simpl; try tauto.
  intros (H0 & H1 & H2); subst; rewrite <- HS; split; [exact H2 | exists st; auto].
Qed.

Lemma pre_register_dial_ok : forall st now refuse c n o, In o (snd (pre_register st now refuse c n)) -> dial_ok st o.
Proof.
  intros st now refuse c n o; unfold pre_register.
  set (st0 := set_unknown st (nremove c (unknown st))).
  destruct (registered st0 n) as [old|]; simpl; [|tauto].
  destruct (N.eqb old c); simpl; [tauto|].
  pose proof (conn_disconnect_out (unreg st0 n) now refuse old o) as H.
  destruct (conn_disconnect (unreg st0 n) now refuse old) as [st2 o2]; simpl in *.
  intros [E|E]; [subst o; exact I | eapply dout_dial_ok; [|apply H; exact E]; reflexivity].
Qed.

Lemma first_message_dial_ok : forall st now refuse c m u o,
  In o (snd (first_message st now refuse c m u)) -> dial_ok st o.
Proof.
  intros st now refuse c m u o; destruct m as [a| |cmd| |k|k]; simpl.
  - destruct (zmem a (nodes st)).
    + pose proof (pre_register_dial_ok st now refuse c (Member a) o) as H.
      rewrite register_eq; simpl. intro HI; apply in_app_or in HI; destruct HI as [HI|[HI|[]]].
      * apply H; exact HI.
      * subst o; exact I.
    + intro HI; apply reject_out in HI; destruct HI as [HI|HI]; [subst o; exact I|].
      eapply dout_dial_ok; [|exact HI]; reflexivity.
  - set (st1 := set_ro_counter _ _).
    pose proof (pre_register_dial_ok st1 now refuse c (RO (ro_counter st)) o) as H.
    rewrite register_eq; simpl. intro HI; apply in_app_or in HI; destruct HI as [HI|[HI|[]]].
    * apply H; exact HI.
    * subst o; exact I.
  - destruct (nmem cmd (utils st)); simpl.
    + destruct u; simpl; intro E; repeat (destruct E as [E|E]); try contradiction; subst o; exact I.
    + intros [E|[]]; subst o; exact I.
  - intros [E|[]]; subst o; exact I.
  - intros [E|[]]; subst o; exact I.
  - intro HI; apply reject_out in HI; destruct HI as [HI|HI]; [subst o; exact I|].
    eapply dout_dial_ok; [|exact HI]; reflexivity.
Qed.

Lemma step_dial_ok : forall st e o, In o (snd (step st e)) -> dial_ok st o.
Proof.
  intros st [now refuse act] o; destruct act as [|c| |c m u|c|a|n|n m f|c]; unfold step; simpl.
  - intro H; apply connect_all_out in H. eapply qout_dial_ok; [|exact H]; reflexivity.
  - destruct (get_conn st c) as [r|]; simpl; [|tauto].
    destruct (cst r); simpl; try tauto.
    destruct (c_out r); simpl; [|tauto]. intros [E|[E|[]]]; subst o; exact I.
  - tauto.
  - destruct (get_conn st c) as [r|]; simpl; [|tauto].
    destruct (cst r); simpl; try tauto.
    destruct (c_bind r); simpl; [intros [E|[]]; subst o; exact I|].
    apply first_message_dial_ok.
  - intro H; apply conn_disconnect_out in H. eapply dout_dial_ok; [|exact H]; reflexivity.
  - destruct (should_connect (self_addr st) a); simpl; tauto.
  - destruct (registered st n) as [c|]; simpl; [|tauto].
    pose proof (conn_disconnect_out (unreg st n) now refuse c o) as H.
    fold (unreg st n).
    destruct (conn_disconnect (unreg st n) now refuse c) as [st2 o2]; simpl in *.
    intros [E|E]; [subst o; exact I | eapply dout_dial_ok; [|apply H; exact E]; reflexivity].
  - destruct (registered st n) as [c|]; simpl; [|intros [E|[]]; subst o; exact I].
    destruct (is_connected (conn_state st c)); simpl; [|intros [E|[]]; subst o; exact I].
    destruct f.
    + pose proof (conn_disconnect_out st now refuse c o) as H.
      destruct (conn_disconnect st now refuse c) as [st1 o1]; simpl in *.
      intros [E|E]; [subst o; exact I|]. apply in_app_or in E; destruct E as [E|[E|[]]].
      * eapply dout_dial_ok; [|apply H; exact E]; reflexivity.
      * subst o; exact I.
    + simpl. intros [E|[E|[]]]; subst o; exact I.
  - destruct (get_conn st c); simpl; [intros [E|[]]; subst o; exact I | tauto].
Qed.

(* every dial of every step is towards an address the dial rule selects *)
Lemma dial_only_if_should : forall st e c a ok,
  In (ODial c a ok) (snd (step st e)) -> should_connect (self_addr st) a = true.
Proof. intros st e c a ok H; apply step_dial_ok in H; simpl in H; tauto. Qed.

(* ---------- classification of the outputs of one step ---------- *)
Inductive step_out (st : tstate) (e : event) : output -> Prop :=
| so_quiet : forall o, quiet_kind o -> step_out st e o
| so_outconn : forall c r o, ev_act e = OutConnected c -> get_conn st c = Some r -> cst r = Connecting ->
    c_out r = true -> (o = OSend c (PSelf (self_addr st)) \/ o = ONodeConnected (conn_to_node st c)) ->
    step_out st e o
| so_message : forall c m u r X, ev_act e = Message c m u -> get_conn st c = Some r -> cst r = Connected ->
    c_bind r = Some X -> step_out st e (OMessage c X m)
| so_first : forall c m u r o, ev_act e = Message c m u -> get_conn st c = Some r -> cst r = Connected ->
    c_bind r = None ->
    ((exists a, m = MAddr a /\ zmem a (nodes st) = true /\ o = ONodeConnected (Some (Member a))) \/
     (m = MReadonly /\ o = OROConnected (RO (ro_counter st))) \/
     (exists cmd, m = MList cmd /\ nmem cmd (utils st) = true /\ (o = OUtility c cmd \/ o = OSend c PUtilErr))) ->
    step_out st e o
| so_send : forall n m f c o, ev_act e = Send n m f -> registered st n = Some c -> conn_state st c = Connected ->
    (o = OSend c (PMsg m) \/ exists b, o = OSendResult b) -> step_out st e o
| so_send_fail : forall n m f, ev_act e = Send n m f ->
    (registered st n = None \/ exists c, registered st n = Some c /\ conn_state st c <> Connected) ->
    step_out st e (OSendResult false)
| so_util : forall c, ev_act e = UtilReply c -> step_out st e (OSend c PUtilReply).

Lemma first_message_out : forall st now refuse c m u o,
  In o (snd (first_message st now refuse c m u)) ->
  quiet_kind o \/
  (exists a, m = MAddr a /\ zmem a (nodes st) = true /\ o = ONodeConnected (Some (Member a))) \/
  (m = MReadonly /\ o = OROConnected (RO (ro_counter st))) \/
  (exists cmd, m = MList cmd /\ nmem cmd (utils st) = true /\ (o = OUtility c cmd \/ o = OSend c PUtilErr)).
Proof.
  intros st now refuse c m u o; destruct m as [a| |cmd| |k|k]; simpl.
  - destruct (zmem a (nodes st)) eqn:M.
    + pose proof (register_kind st now refuse c (Member a) o) as H.
      destruct (register st now refuse c (Member a)) as [st1 o1]; simpl in *.
      intro HI; apply in_app_or in HI; destruct HI as [HI|[HI|[]]].
      * left; apply H; exact HI.
      * right; left; exists a; auto.
    + intro HI; left. apply reject_out in HI; destruct HI as [HI|HI]; [subst o; exact I | eapply dout_kind; exact HI].
  - set (st1 := set_ro_counter _ _).
    pose proof (register_kind st1 now refuse c (RO (ro_counter st)) o) as H.
    destruct (register st1 now refuse c (RO (ro_counter st))) as [st2 o2]; simpl in *.
    intro HI; apply in_app_or in HI; destruct HI as [HI|[HI|[]]].
    * left; apply H; exact HI.
    * right; right; left; auto.
  - destruct (nmem cmd (utils st)) eqn:U; simpl.
    + intro E; right; right; right; exists cmd.
      destruct u; simpl in E; repeat (destruct E as [E|E]); try contradiction; subst o; auto.
    + intros [E|[]]; subst o; left; exact I.
  - intros [E|[]]; subst o; left; exact I.
  - intros [E|[]]; subst o; left; exact I.
  - intro HI; left. apply reject_out in HI; destruct HI as [HI|HI]; [subst o; exact I | eapply dout_kind; exact HI].
Qed.

Lemma step_out_spec : forall st e o, In o (snd (step st e)) -> step_out st e o.
Proof.
  intros st [now refuse act] o; destruct act as [|c| |c m u|c|a|n|n m f|c]; unfold step; simpl.
  - intro H; apply connect_all_out in H. apply so_quiet. eapply qout_kind; exact H.
  - destruct (get_conn st c) as [r|] eqn:G; simpl; [|tauto].
    destruct (cst r) eqn:C; simpl; try tauto.
    destruct (c_out r) eqn:O; simpl; [|tauto].
    intro H; eapply so_outconn; try eassumption; try reflexivity.
    destruct H as [E|[E|[]]]; subst o; auto.
  - tauto.
  - destruct (get_conn st c) as [r|] eqn:G; simpl; [|tauto].
    destruct (cst r) eqn:C; simpl; try tauto.
    destruct (c_bind r) eqn:B; simpl.
    + intros [E|[]]; subst o. eapply so_message; try eassumption; reflexivity.
    + intro H; apply first_message_out in H. destruct H as [H|H]; [apply so_quiet; exact H|].
      eapply so_first; try eassumption; reflexivity.
  - intro H; apply conn_disconnect_out in H. apply so_quiet; eapply dout_kind; exact H.
  - destruct (should_connect (self_addr st) a); simpl; tauto.
  - destruct (registered st n) as [c|]; simpl; [|tauto].
    pose proof (conn_disconnect_out (unreg st n) now refuse c o) as H.
    fold (unreg st n).
    destruct (conn_disconnect (unreg st n) now refuse c) as [st2 o2]; simpl in *.
    intros [E|E]; apply so_quiet; [subst o; exact I | eapply dout_kind; apply H; exact E].
  - destruct (registered st n) as [c|] eqn:R; simpl.
    2:{ intros [E|[]]; subst o. eapply so_send_fail; [reflexivity | left; exact R]. }
    destruct (is_connected (conn_state st c)) eqn:C; simpl.
    2:{ intros [E|[]]; subst o. eapply so_send_fail; [reflexivity | right; exists c; split; [exact R|]].
        intro X; rewrite X in C; discriminate. }
    apply is_connected_true in C.
    destruct f.
    + pose proof (conn_disconnect_out st now refuse c o) as H.
      destruct (conn_disconnect st now refuse c) as [st1 o1]; simpl in *.
      intros [E|E].
      * subst o; eapply so_send; try eassumption; [reflexivity | left; reflexivity].
      * apply in_app_or in E; destruct E as [E|[E|[]]].
        -- apply so_quiet; eapply dout_kind; apply H; exact E.
        -- subst o; eapply so_send; try eassumption; [reflexivity | right; eexists; reflexivity].
    + simpl. intros [E|[E|[]]]; subst o; (eapply so_send; try eassumption; [reflexivity|]);
        [left; reflexivity | right; eexists; reflexivity].
  - destruct (get_conn st c); simpl; [|tauto]. intros [E|[]]; subst o. apply so_util; reflexivity.
Qed.

(* ================= the assert of _connectIfNecessarySingle never fires ================= *)
Lemma no_internal_assert : forall st e, reachable st -> ~ In (ORaise 3) (snd (step st e)).
Proof.
  intros st [now refuse act] R HIn. destruct (reachable_inv _ R) as [I0 ID].
  assert (HC : forall l, (forall a, In a l -> zmem a (nodes st) = true) ->
                         ~ qout st l (ORaise 3)).
  { intros l Hl (a & Ha & Hr & Hs). apply (ID a); auto. }
  assert (HD : forall st' c, ~ dout st' c (ORaise 3)) by (intros st' c H; exact H).
  destruct act as [|c| |c m u|c|a|n|n m f|c]; unfold step in HIn; simpl in HIn.
  - apply connect_all_out in HIn. revert HIn; apply HC. intros a Ha; apply zmem_In; exact Ha.
  - destruct (get_conn st c) as [r|]; simpl in HIn; [|tauto].
    destruct (cst r); simpl in HIn; try tauto.
    destruct (c_out r); simpl in HIn; [|tauto]. destruct HIn as [E|[E|[]]]; discriminate.
  - tauto.
  - destruct (get_conn st c) as [r|]; simpl in HIn; [|tauto].
    destruct (cst r); simpl in HIn; try tauto.
    destruct (c_bind r); simpl in HIn; [destruct HIn as [E|[]]; discriminate|].
    destruct m as [a| |cmd| |k|k]; simpl in HIn.
    + destruct (zmem a (nodes st)).
      * rewrite register_eq in HIn; simpl in HIn. apply in_app_or in HIn; destruct HIn as [HIn|[E|[]]]; [|discriminate].
        unfold pre_register in HIn. set (st0 := set_unknown st (nremove c (unknown st))) in HIn.
        destruct (registered st0 (Member a)) as [old|]; simpl in HIn; [|tauto].
        destruct (N.eqb old c); simpl in HIn; [tauto|].
        pose proof (conn_disconnect_out (unreg st0 (Member a)) now refuse old (ORaise 3)) as H.
        destruct (conn_disconnect (unreg st0 (Member a)) now refuse old) as [st2 o2]; simpl in *.
        destruct HIn as [E|E]; [discriminate | exact (H E)].
      * apply reject_out in HIn; destruct HIn as [E|E]; [discriminate | exact E].
    + set (st1 := set_ro_counter _ _) in HIn.
      rewrite register_eq in HIn; simpl in HIn. apply in_app_or in HIn; destruct HIn as [HIn|[E|[]]]; [|discriminate].
      unfold pre_register in HIn. set (st0 := set_unknown st1 (nremove c (unknown st1))) in HIn.
      destruct (registered st0 (RO (ro_counter st))) as [old|]; simpl in HIn; [|tauto].
      destruct (N.eqb old c); simpl in HIn; [tauto|].
      pose proof (conn_disconnect_out (unreg st0 (RO (ro_counter st))) now refuse old (ORaise 3)) as H.
      destruct (conn_disconnect (unreg st0 (RO (ro_counter st))) now refuse old) as [st2 o2]; simpl in *.
      destruct HIn as [E|E]; [discriminate | exact (H E)].
    + destruct (nmem cmd (utils st)); simpl in HIn.
      * destruct u; simpl in HIn; repeat (destruct HIn as [HIn|HIn]); try contradiction; discriminate.
      * destruct HIn as [E|[]]; discriminate.
    + destruct HIn as [E|[]]; discriminate.
    + destruct HIn as [E|[]]; discriminate.
    + apply reject_out in HIn; destruct HIn as [E|E]; [discriminate | exact E].
  - apply conn_disconnect_out in HIn; exact HIn.
  - destruct (should_connect (self_addr st) a); simpl in HIn; tauto.
  - destruct (registered st n) as [c|]; simpl in HIn; [|tauto].
    pose proof (conn_disconnect_out (unreg st n) now refuse c (ORaise 3)) as H.
    fold (unreg st n) in HIn.
    destruct (conn_disconnect (unreg st n) now refuse c) as [st2 o2]; simpl in *.
    destruct HIn as [E|E]; [discriminate | exact (H E)].
  - destruct (registered st n) as [c|]; simpl in HIn; [|destruct HIn as [E|[]]; discriminate].
    destruct (is_connected (conn_state st c)); simpl in HIn; [|destruct HIn as [E|[]]; discriminate].
    destruct f.
    + pose proof (conn_disconnect_out st now refuse c (ORaise 3)) as H.
      destruct (conn_disconnect st now refuse c) as [st1 o1]; simpl in *.
      destruct HIn as [E|E]; [discriminate|]. apply in_app_or in E; destruct E as [E|[E|[]]]; [exact (H E) | discriminate].
    + simpl in HIn. destruct HIn as [E|[E|[]]]; discriminate.
  - destruct (get_conn st c); simpl in HIn; [destruct HIn as [E|[]]; discriminate | tauto].
Qed.

(* ================= C14_attribution ================= *)
(* the three ways a connection object gets bound to a node *)
Definition registers (pre : tstate) (e : event) (c : N) (X : node) : Prop :=
  (exists a, ev_act e = AddNode a /\ X = Member a /\ should_connect (self_addr pre) a = true /\
             c = next_conn pre) \/
  (exists a u, ev_act e = Message c (MAddr a) u /\ X = Member a /\ zmem a (nodes pre) = true /\
               conn_state pre c = Connected /\ bind_of pre c = None) \/
  (exists u, ev_act e = Message c MReadonly u /\ X = RO (ro_counter pre) /\
             conn_state pre c = Connected /\ bind_of pre c = None).

Lemma quiet_bind_step : forall st st' c X, quiet_frame st st' -> bind_of st' c = Some X -> bind_of st c = Some X.
Proof. intros st st' c X Q H; rewrite <- (qf_bind _ _ Q); exact H. Qed.

Lemma bind_step : forall st e c X, Inv st ->
  bind_of (fst (step st e)) c = Some X -> bind_of st c = Some X \/ registers st e c X.
Proof.
  intros st [now refuse act] c X [I0 ID]; destruct act as [|c0| |c0 m u|c0|a|n|n m f|c0]; unfold step; simpl.
  - intro H; left; eapply quiet_bind_step; [apply connect_all_quiet | exact H].
  - destruct (get_conn st c0) as [r|]; simpl; [|auto].
    destruct (cst r); simpl; auto. rewrite bind_of_set_cstate; auto.
  - unfold bind_of, get_conn; simpl. destruct (N.eqb c (next_conn st)); [discriminate | auto].
  - destruct (get_conn st c0) as [r|] eqn:G; simpl; [|auto].
    destruct (cst r) eqn:C; simpl; auto.
    destruct (c_bind r) eqn:B; simpl; [auto|].
    assert (A : allocated st c0) by (unfold allocated; congruence).
    assert (B' : bind_of st c0 = None) by (unfold bind_of; rewrite G; exact B).
    assert (CS : conn_state st c0 = Connected) by (unfold conn_state; rewrite G; exact C).
    destruct m as [a| |cmd| |k|k]; simpl.
    + destruct (zmem a (nodes st)) eqn:M.
      * pose proof (register_bind st now refuse c0 (Member a) c (inv_unbound_unregistered _ _ I0 B' _) A) as RB.
        destruct (register st now refuse c0 (Member a)) as [st1 o1]; simpl in *.
        rewrite RB. destruct (N.eqb c c0) eqn:E; [|auto].
        apply N.eqb_eq in E; subst c0. intro H; inversion H; subst.
        right; right; left. exists a, u; auto.
      * intro H; left; eapply quiet_bind_step; [apply reject_quiet | exact H].
    + set (st1 := set_ro_counter _ _).
      assert (NR : registered st1 (RO (ro_counter st)) <> Some c0) by (apply (inv_unbound_unregistered _ _ I0 B')).
      pose proof (register_bind st1 now refuse c0 (RO (ro_counter st)) c NR A) as RB.
      destruct (register st1 now refuse c0 (RO (ro_counter st))) as [st2 o2]; simpl in *.
      rewrite RB. destruct (N.eqb c c0) eqn:E; [|auto].
      apply N.eqb_eq in E; subst c0. intro H; inversion H; subst.
      right; right; right. exists u; auto.
    + destruct (nmem cmd (utils st)); auto.
    + auto.
    + auto.
    + intro H; left; eapply quiet_bind_step; [apply reject_quiet | exact H].
  - intro H; left; eapply quiet_bind_step; [apply conn_disconnect_quiet | exact H].
  - destruct (should_connect (self_addr st) a) eqn:S; simpl; [|auto].
    unfold bind_of, get_conn; simpl. destruct (N.eqb c (next_conn st)) eqn:E; [|auto].
    apply N.eqb_eq in E; intro H; inversion H; subst. right; left. exists a; auto.
  - destruct (registered st n) as [c1|]; simpl.
    + fold (unreg st n).
      pose proof (conn_disconnect_quiet (unreg st n) now refuse c1) as Q.
      destruct (conn_disconnect (unreg st n) now refuse c1) as [st2 o2]; simpl in *.
      intro H; left. apply (quiet_bind_step (unreg st n) st2 c X Q).
      destruct n; exact H.
    + intro H; left; destruct n; exact H.
  - destruct (registered st n) as [c1|]; simpl; [|auto].
    destruct (is_connected (conn_state st c1)); simpl; [|auto].
    destruct f; simpl; [|auto].
    pose proof (conn_disconnect_quiet st now refuse c1) as Q.
    destruct (conn_disconnect st now refuse c1) as [st1 o1]; simpl in *.
    intro H; left; eapply quiet_bind_step; eassumption.
  - destruct (get_conn st c0); auto.
Qed.

(* executions with their history: (state before the event, event), most recent first *)
Inductive exec (st0 : tstate) : list (tstate * event) -> tstate -> Prop :=
| exec_nil : exec st0 [] st0
| exec_step : forall h st e, exec st0 h st -> exec st0 ((st, e) :: h) (fst (step st e)).

Lemma exec_reachable : forall self rt ut h st, exec (init self rt ut) h st -> reachable st.
Proof. induction 1; [apply reach_init | apply reach_step; assumption]. Qed.

Fixpoint history (st : tstate) (es : list event) (acc : list (tstate * event)) : list (tstate * event) :=
  match es with
  | [] => acc
  | e :: r => history (fst (step st e)) r ((st, e) :: acc)
  end.

Lemma exec_run : forall es st0 h st, exec st0 h st -> exec st0 (history st es h) (run_state st es).
Proof.
  induction es as [|e r IH]; intros st0 h st H; simpl; [exact H|].
  rewrite run_state_cons. apply IH. apply exec_step; exact H.
Qed.

Lemma bound_has_registration : forall self rt ut h st, exec (init self rt ut) h st ->
  forall c X, bind_of st c = Some X -> exists pre e, In (pre, e) h /\ registers pre e c X.
Proof.
  intros self rt ut h st H; induction H as [|h st e H IH]; intros c X B.
  - discriminate.
  - destruct (bind_step st e c X (reachable_inv _ (exec_reachable _ _ _ _ _ H)) B) as [B'|Rg].
    + destruct (IH c X B') as (pre & e' & HI & Rg). exists pre, e'; split; [right; exact HI | exact Rg].
    + exists st, e; split; [left; reflexivity | exact Rg].
Qed.

Lemma message_out : forall st e c X m, In (OMessage c X m) (snd (step st e)) ->
  (exists u, ev_act e = Message c m u) /\ conn_state st c = Connected /\ bind_of st c = Some X.
Proof.
  intros st e c X m H; apply step_out_spec in H.
  inversion H as [o K| c0 r o E G C O [D|D] | c0 m0 u r X0 E G C B | c0 m0 u r o E G C B D
                 | n m0 f c0 o E R C [D|[b D]] | n m0 f E D | c0 E]; subst; try discriminate.
  - exact (False_ind _ K).
  - split; [exists u; exact E|]. unfold conn_state, bind_of; rewrite G; auto.
  - destruct D as [(a & _ & _ & D)|[(_ & D)|(cmd & _ & _ & [D|D])]]; discriminate.
Qed.

Theorem attribution : forall self rt ut h st e c X m,
  exec (init self rt ut) h st ->
  In (OMessage c X m) (snd (step st e)) ->
  (exists u, ev_act e = Message c m u) /\ conn_state st c = Connected /\
  exists pre e0, In (pre, e0) h /\ registers pre e0 c X.
Proof.
  intros self rt ut h st e c X m HE HM.
  destruct (message_out _ _ _ _ _ HM) as (H1 & H2 & H3).
  split; [exact H1 | split; [exact H2|]].
  eapply bound_has_registration; eassumption.
Qed.

(* every finite event sequence is such an execution *)
Lemma attribution_run : forall self rt ut es e c X m,
  In (OMessage c X m) (snd (step (run_state (init self rt ut) es) e)) ->
  (exists u, ev_act e = Message c m u) /\
  exists pre e0, In (pre, e0) (history (init self rt ut) es []) /\ registers pre e0 c X.
Proof.
  intros self rt ut es e c X m H.
  destruct (attribution self rt ut _ _ e c X m (exec_run es _ _ _ (exec_nil _)) H) as (H1 & _ & H3).
  split; assumption.
Qed.

(* a non-vacuous instance: address 1 (which dials us, we are 0) is added, connects in, names itself, and its
   message is delivered as from it *)
Example attribution_example :
  let es := [mkEv 0 [] (AddNode 1); mkEv 0 [] IncomingNew; mkEv 0 [] (Message 0 (MAddr 1) false)] in
  snd (step (run_state (init (Some 0) 5 []) es) (mkEv 1 [] (Message 0 (MOther 7) false)))
  = [OMessage 0 (Member 1) (MOther 7)].
Proof. vm_compute; reflexivity. Qed.

(* ================= C14_registry_single / delivery only from the registered connection ================= *)
(* the connection objects that can deliver (now, or once connected) as from X: bound to X and not disconnected.
   [Single]: every such object is THE object registered for X. *)
Definition Single (st : tstate) : Prop :=
  forall c X, bind_of st c = Some X -> conn_state st c <> Disconnected -> registered st X = Some c.

(* the only event that can leave a live object behind: addNode of a node whose registered object is live *)
Definition no_live_readd (st : tstate) (e : event) : Prop :=
  match ev_act e with
  | AddNode a => forall c, registered st (Member a) = Some c -> conn_state st c = Disconnected
  | _ => True
  end.

(* what SyncObj guarantees: it never adds a node it already has *)
Definition guarded (st : tstate) (e : event) : Prop :=
  match ev_act e with AddNode a => zmem a (nodes st) = false | _ => True end.

Fixpoint run_ok (P : tstate -> event -> Prop) (st : tstate) (es : list event) : Prop :=
  match es with
  | [] => True
  | e :: r => P st e /\ run_ok P (fst (step st e)) r
  end.

Lemma guarded_no_live : forall st e, Inv st -> guarded st e -> no_live_readd st e.
Proof.
  intros st [now refuse act] [I0 _]; destruct act; simpl; auto.
  intros G c R. unfold guarded in G; simpl in G. rewrite (inv_memb _ I0 _ _ R) in G; discriminate.
Qed.

Lemma single_quiet : forall st st', Inv0 st -> Single st -> quiet_frame st st' -> Single st'.
Proof.
  intros st st' I0 S Q c X B L. rewrite (qf_bind _ _ Q) in B. rewrite (quiet_registered _ _ _ Q).
  destruct (qf_state _ _ Q c) as [H|[H|[H [a Ha]]]].
  - apply S; [exact B | rewrite <- H; exact L].
  - contradiction.
  - pose proof (inv_reg _ I0 _ _ Ha) as B2. rewrite B in B2; inversion B2; subst. exact Ha.
Qed.

Lemma single_after_unreg : forall st n c1 st2, Inv0 st -> Single st -> registered st n = Some c1 ->
  quiet_frame (unreg st n) st2 -> conn_state st2 c1 = Disconnected -> Single st2.
Proof.
  intros st n c1 st2 I0 S R Q D c X B L.
  rewrite (qf_bind _ _ Q) in B. change (bind_of (unreg st n) c) with (bind_of st c) in B.
  rewrite (quiet_registered _ _ _ Q), registered_unreg.
  destruct (N.eq_dec c c1) as [E|NE]; [subst; contradiction|].
  destruct (qf_state _ _ Q c) as [H|[H|[H [a Ha]]]].
  - change (conn_state (unreg st n) c) with (conn_state st c) in H.
    assert (RX : registered st X = Some c) by (apply S; [exact B | rewrite <- H; exact L]).
    destruct (node_eqb X n) eqn:E; [|exact RX].
    apply node_eqb_eq in E; subst X. rewrite R in RX; congruence.
  - contradiction.
  - rewrite registered_unreg in Ha. destruct (node_eqb (Member a) n) eqn:E; [discriminate|].
    pose proof (inv_reg _ I0 _ _ Ha) as B2. rewrite B in B2; inversion B2; subst. rewrite E; exact Ha.
Qed.

Lemma single_register : forall st now refuse c0 n, Inv0 st -> Single st ->
  allocated st c0 -> bind_of st c0 = None -> Single (fst (register st now refuse c0 n)).
Proof.
  intros st now refuse c0 n I0 S A B0 c X B L.
  assert (NR : registered st n <> Some c0) by (apply inv_unbound_unregistered; assumption).
  rewrite (register_bind st now refuse c0 n c NR A) in B.
  rewrite (register_registered st now refuse c0 n X NR).
  destruct (N.eqb c c0) eqn:E.
  - apply N.eqb_eq in E; subst c. inversion B; subst. rewrite node_eqb_refl; reflexivity.
  - apply N.eqb_neq in E.
    (* the superseded object is disconnected *)
    assert (OLD : registered st n = Some c -> False).
    { intro Rn. destruct (pre_register_out st now refuse c0 n I0 NR) as [[Hn _]|(old & Ho & _ & _ & Hd)]; [congruence|].
      rewrite Rn in Ho; inversion Ho; subst old.
      rewrite register_eq in L; simpl in L. rewrite conn_state_enter in L. contradiction. }
    destruct (register_state st now refuse c0 n c NR) as [H|[H|[H [a Ha]]]].
    + assert (RX : registered st X = Some c) by (apply S; [exact B | rewrite <- H; exact L]).
      destruct (node_eqb X n) eqn:E2; [|exact RX].
      apply node_eqb_eq in E2; subst X. exfalso; exact (OLD RX).
    + contradiction.
    + pose proof (inv_reg _ I0 _ _ Ha) as B2. rewrite B in B2; inversion B2; subst.
      destruct (node_eqb (Member a) n) eqn:E2; [|exact Ha].
      apply node_eqb_eq in E2; subst n. exfalso; exact (OLD Ha).
Qed.

Lemma single_step : forall st e, Inv st -> Single st -> no_live_readd st e -> Single (fst (step st e)).
Proof.
  intros st [now refuse act] [I0 ID] S G; destruct act as [|c0| |c0 m u|c0|a|n|n m f|c0]; unfold step; simpl.
  - eapply single_quiet; [exact I0 | exact S | apply connect_all_quiet].
  - destruct (get_conn st c0) as [r|] eqn:G0; simpl; [|exact S].
    destruct (cst r) eqn:C; simpl; try exact S.
    intros c X B L. rewrite bind_of_set_cstate in B. change (registered st X = Some c).
    apply S; [exact B|]. rewrite conn_state_set_cstate in L.
    destruct (N.eqb c c0) eqn:E; [|exact L].
    apply N.eqb_eq in E; subst c0. unfold conn_state; rewrite G0, C; discriminate.
  - intros c X B L. unfold bind_of, get_conn in B; simpl in B. unfold conn_state, get_conn in L; simpl in L.
    destruct (N.eqb c (next_conn st)); [discriminate|]. apply S; assumption.
  - destruct (get_conn st c0) as [r|] eqn:G0; simpl; [|exact S].
    destruct (cst r) eqn:C; simpl; try exact S.
    destruct (c_bind r) eqn:B; simpl; [exact S|].
    assert (A : allocated st c0) by (unfold allocated; congruence).
    assert (B' : bind_of st c0 = None) by (unfold bind_of; rewrite G0; exact B).
    destruct m as [a| |cmd| |k|k]; simpl.
    + destruct (zmem a (nodes st)).
      * pose proof (single_register st now refuse c0 (Member a) I0 S A B') as H.
        destruct (register st now refuse c0 (Member a)); exact H.
      * eapply single_quiet; [exact I0 | exact S | apply reject_quiet].
    + set (st1 := set_ro_counter _ _).
      assert (I1 : Inv0 st1).
      { constructor; simpl.
        - apply (inv_fresh _ I0).
        - apply (inv_reg _ I0).
        - intros c' k H. pose proof (inv_ro _ I0 c' k H); lia.
        - apply (inv_memb _ I0). }
      pose proof (single_register st1 now refuse c0 (RO (ro_counter st)) I1 S A B') as H.
      destruct (register st1 now refuse c0 (RO (ro_counter st))); exact H.
    + destruct (nmem cmd (utils st)); exact S.
    + exact S.
    + exact S.
    + eapply single_quiet; [exact I0 | exact S | apply reject_quiet].
  - eapply single_quiet; [exact I0 | exact S | apply conn_disconnect_quiet].
  - simpl in G. destruct (should_connect (self_addr st) a); simpl; [|exact S].
    intros c X B L. unfold bind_of, get_conn in B; simpl in B. unfold conn_state, get_conn in L; simpl in L.
    unfold registered; simpl.
    destruct (N.eqb c (next_conn st)) eqn:E; [simpl in L; congruence|].
    assert (RX : registered st X = Some c) by (apply S; assumption).
    destruct (node_eqb X (Member a)) eqn:E2.
    + apply node_eqb_eq in E2; subst X. exfalso. apply L. apply (G c RX).
    + apply node_eqb_neq in E2. rewrite (alookup_aremove_other _ _ node_eqb node_eqb_eq) by exact E2. exact RX.
  - destruct (registered st n) as [c1|] eqn:R; simpl.
    + fold (unreg st n).
      pose proof (conn_disconnect_quiet (unreg st n) now refuse c1) as Q.
      destruct (conn_disconnect_unregistered (unreg st n) now refuse c1 (unreg_unregisters st n c1 I0 R)) as [_ D].
      destruct (conn_disconnect (unreg st n) now refuse c1) as [st2 o2]; simpl in *.
      pose proof (single_after_unreg st n c1 st2 I0 S R Q D) as S2.
      destruct n; exact S2.
    + destruct n; exact S.
  - destruct (registered st n) as [c1|]; simpl; [|exact S].
    destruct (is_connected (conn_state st c1)); simpl; [|exact S].
    destruct f; simpl; [|exact S].
    pose proof (conn_disconnect_quiet st now refuse c1) as Q.
    destruct (conn_disconnect st now refuse c1) as [st1 o1]; simpl in *.
    eapply single_quiet; eassumption.
  - destruct (get_conn st c0); exact S.
Qed.

Lemma single_run : forall es st, reachable st -> Single st -> run_ok no_live_readd st es ->
  Single (run_state st es).
Proof.
  induction es as [|e r IH]; intros st R S OK; [exact S|].
  rewrite run_state_cons. destruct OK as [G OK].
  apply IH; [apply reach_step; exact R | apply single_step; [apply reachable_inv; exact R | exact S | exact G] | exact OK].
Qed.

Lemma run_ok_guarded : forall es st, reachable st -> run_ok guarded st es -> run_ok no_live_readd st es.
Proof.
  induction es as [|e r IH]; intros st R OK; [exact I|].
  destruct OK as [G OK]; split; [apply guarded_no_live; [apply reachable_inv; exact R | exact G]|].
  apply IH; [apply reach_step; exact R | exact OK].
Qed.

Theorem registry_single : forall self rt ut es,
  run_ok no_live_readd (init self rt ut) es ->
  forall c X, bind_of (run_state (init self rt ut) es) c = Some X ->
              conn_state (run_state (init self rt ut) es) c <> Disconnected ->
              registered (run_state (init self rt ut) es) X = Some c.
Proof.
  intros self rt ut es OK. apply single_run; [apply reach_init | | exact OK].
  intros c X B; discriminate.
Qed.

(* a message is delivered as from X only by the object currently registered for X, and X is a current member *)
Theorem delivery_from_registered_member : forall self rt ut es e c X m,
  run_ok guarded (init self rt ut) es ->
  In (OMessage c X m) (snd (step (run_state (init self rt ut) es) e)) ->
  registered (run_state (init self rt ut) es) X = Some c /\
  (forall a, X = Member a -> zmem a (nodes (run_state (init self rt ut) es)) = true).
Proof.
  intros self rt ut es e c X m OK HM.
  destruct (message_out _ _ _ _ _ HM) as (_ & C & B).
  assert (R : registered (run_state (init self rt ut) es) X = Some c).
  { apply (registry_single self rt ut es); [apply run_ok_guarded; [apply reach_init | exact OK] | exact B | congruence]. }
  split; [exact R|]. intros a E; subst X.
  destruct (reachable_inv _ (run_reachable self rt ut es)) as [I0 _]. apply (inv_memb _ I0 a c R).
Qed.

(* so after dropNode X (and until X is added again) nothing is delivered as from X *)
Corollary no_delivery_from_non_member : forall self rt ut es e c a m,
  run_ok guarded (init self rt ut) es ->
  zmem a (nodes (run_state (init self rt ut) es)) = false ->
  ~ In (OMessage c (Member a) m) (snd (step (run_state (init self rt ut) es) e)).
Proof.
  intros self rt ut es e c a m OK NM HM.
  destruct (delivery_from_registered_member _ _ _ _ _ _ _ _ OK HM) as [_ H].
  rewrite (H a eq_refl) in NM; discriminate.
Qed.

Lemma drop_removes_member : forall st now refuse a, zmem a (nodes (fst (step st (mkEv now refuse (DropNode (Member a)))))) = false.
Proof.
  intros st now refuse a; unfold step; simpl.
  destruct (registered st (Member a)) as [c|]; simpl.
  - destruct (conn_disconnect _ now refuse c) as [st2 o]; simpl.
    rewrite zmem_zremove, Z.eqb_refl; reflexivity.
  - rewrite zmem_zremove, Z.eqb_refl; reflexivity.
Qed.

(* the witness that the repaired defect needed: the superseded connection no longer delivers *)
Example superseded_connection_silent :
  let es := [mkEv 0 [] (AddNode 1); mkEv 0 [] IncomingNew; mkEv 0 [] (Message 0 (MAddr 1) false);
             mkEv 0 [] IncomingNew; mkEv 0 [] (Message 1 (MAddr 1) false)] in
  run_ok guarded (init (Some 0) 5 []) es /\
  snd (step (run_state (init (Some 0) 5 []) es) (mkEv 1 [] (Message 0 (MOther 7) false))) = [] /\
  snd (step (run_state (init (Some 0) 5 []) es) (mkEv 1 [] (Message 1 (MOther 7) false)))
    = [OMessage 1 (Member 1) (MOther 7)].
Proof. vm_compute; repeat split. Qed.

(* without the guard (an application that adds a node twice) the statement is false of the code *)
Definition no_delivery_from_non_member_unguarded : Prop :=
  forall self rt ut es e c a m,
    zmem a (nodes (run_state (init self rt ut) es)) = false ->
    ~ In (OMessage c (Member a) m) (snd (step (run_state (init self rt ut) es) e)).

Definition double_add_witness : list event :=
  [mkEv 0 [] (AddNode 0); mkEv 0 [] Tick; mkEv 0 [] (OutConnected 0); mkEv 1 [] (AddNode 0);
   mkEv 2 [] (DropNode (Member 0))].

Lemma double_add_refuted : exists self rt ut es e c a m,
  zmem a (nodes (run_state (init self rt ut) es)) = false /\
  registered (run_state (init self rt ut) es) (Member a) = None /\
  In (OMessage c (Member a) m) (snd (step (run_state (init self rt ut) es) e)).
Proof.
  exists (Some 1), 5, [], double_add_witness, (mkEv 3 [] (Message 0 (MOther 7) false)), 0%N, 0, (MOther 7%N).
  vm_compute; auto.
Qed.

Lemma registry_single_unguarded_refuted : exists self rt ut es c c' X,
  let st := run_state (init self rt ut) es in
  c <> c' /\ bind_of st c = Some X /\ bind_of st c' = Some X /\
  conn_state st c = Connected /\ conn_state st c' = Connected.
Proof.
  exists (Some 1), 5, [],
    [mkEv 0 [] (AddNode 0); mkEv 0 [] Tick; mkEv 0 [] (OutConnected 0); mkEv 1 [] (AddNode 0);
     mkEv 9 [] Tick; mkEv 9 [] (OutConnected 1)], 0%N, 1%N, (Member 0).
  vm_compute; repeat split; auto; discriminate.
Qed.

(* ================= C14_unknown_rejected ================= *)
(* a connection object that is allocated, disconnected and registered nowhere stays so for ever *)
Definition dead (st : tstate) (c : N) : Prop :=
  allocated st c /\ conn_state st c = Disconnected /\ forall n, registered st n <> Some c.

Lemma dead_quiet : forall st st' c, dead st c -> quiet_frame st st' -> dead st' c.
Proof.
  intros st st' c (A & D & U) Q; split; [|split].
  - apply (qf_alloc _ _ Q); exact A.
  - destruct (qf_state _ _ Q c) as [H|[H|[_ [a Ha]]]]; [congruence | exact H | exfalso; exact (U _ Ha)].
  - intros n; rewrite (quiet_registered _ _ _ Q); apply U.
Qed.

Lemma register_alloc : forall st now refuse c0 n c, registered st n <> Some c0 ->
  (allocated (fst (register st now refuse c0 n)) c <-> allocated st c).
Proof.
  intros st now refuse c0 n c NR. rewrite register_eq; simpl. rewrite allocated_enter.
  apply (pf_alloc _ _ _ (pre_register_frame st now refuse c0 n NR)).
Qed.

Lemma dead_register : forall st now refuse c0 n c, Inv0 st -> bind_of st c0 = None -> conn_state st c0 = Connected ->
  dead st c -> dead (fst (register st now refuse c0 n)) c.
Proof.
  intros st now refuse c0 n c I0 B C (A & D & U).
  assert (NR : registered st n <> Some c0) by (apply inv_unbound_unregistered; assumption).
  assert (NE : c <> c0) by (intro E; subst; congruence).
  split; [|split].
  - apply register_alloc; assumption.
  - destruct (register_state st now refuse c0 n c NR) as [H|[H|[_ [a Ha]]]]; [congruence | exact H | exfalso; exact (U _ Ha)].
  - intros n'. rewrite register_registered by exact NR.
    destruct (node_eqb n' n); [congruence | apply U].
Qed.

Lemma dead_step : forall st e c, Inv st -> dead st c -> dead (fst (step st e)) c.
Proof.
  intros st [now refuse act] c [I0 ID] Dd. pose proof Dd as (A & D & U).
  destruct act as [|c0| |c0 m u|c0|a|n|n m f|c0]; unfold step; simpl.
  - eapply dead_quiet; [exact Dd | apply connect_all_quiet].
  - destruct (get_conn st c0) as [r|] eqn:G0; simpl; [|exact Dd].
    destruct (cst r) eqn:C; simpl; try exact Dd.
    assert (NE : c <> c0) by (intro E; subst; unfold conn_state in D; rewrite G0, C in D; discriminate).
    split; [|split].
    + apply allocated_set_cstate; exact A.
    + rewrite conn_state_set_cstate. apply N.eqb_neq in NE; rewrite NE; exact D.
    + exact U.
  - pose proof (inv_fresh _ I0 c A) as L.
    split; [|split].
    + unfold allocated, get_conn; simpl. destruct (N.eqb c (next_conn st)) eqn:E; [apply N.eqb_eq in E; lia | exact A].
    + unfold conn_state, get_conn; simpl. destruct (N.eqb c (next_conn st)) eqn:E; [apply N.eqb_eq in E; lia | exact D].
    + exact U.
  - destruct (get_conn st c0) as [r|] eqn:G0; simpl; [|exact Dd].
    destruct (cst r) eqn:C; simpl; try exact Dd.
    destruct (c_bind r) eqn:B; simpl; [exact Dd|].
    assert (B' : bind_of st c0 = None) by (unfold bind_of; rewrite G0; exact B).
    assert (C' : conn_state st c0 = Connected) by (unfold conn_state; rewrite G0; exact C).
    destruct m as [a| |cmd| |k|k]; simpl.
    + destruct (zmem a (nodes st)).
      * pose proof (dead_register st now refuse c0 (Member a) c I0 B' C' Dd) as H.
        destruct (register st now refuse c0 (Member a)); exact H.
      * eapply dead_quiet; [exact Dd | apply reject_quiet].
    + set (st1 := set_ro_counter _ _).
      assert (I1 : Inv0 st1).
      { constructor; simpl.
        - apply (inv_fresh _ I0).
        - apply (inv_reg _ I0).
        - intros c' k H. pose proof (inv_ro _ I0 c' k H); lia.
        - apply (inv_memb _ I0). }
      pose proof (dead_register st1 now refuse c0 (RO (ro_counter st)) c I1 B' C' Dd) as H.
      destruct (register st1 now refuse c0 (RO (ro_counter st))); exact H.
    + destruct (nmem cmd (utils st)); exact Dd.
    + exact Dd.
    + exact Dd.
    + eapply dead_quiet; [exact Dd | apply reject_quiet].
  - eapply dead_quiet; [exact Dd | apply conn_disconnect_quiet].
  - pose proof (inv_fresh _ I0 c A) as L.
    destruct (should_connect (self_addr st) a); simpl; [|exact Dd].
    split; [|split].
    + unfold allocated, get_conn; simpl. destruct (N.eqb c (next_conn st)) eqn:E; [apply N.eqb_eq in E; lia | exact A].
    + unfold conn_state, get_conn; simpl. destruct (N.eqb c (next_conn st)) eqn:E; [apply N.eqb_eq in E; lia | exact D].
    + intros n'. unfold registered; simpl. destruct (node_eqb n' (Member a)) eqn:E.
      * intro H; inversion H; lia.
      * apply node_eqb_neq in E. rewrite (alookup_aremove_other _ _ node_eqb node_eqb_eq) by exact E. apply U.
  - assert (DU : dead (unreg st n) c).
    { split; [exact A | split; [exact D|]]. intros n'; rewrite registered_unreg. destruct (node_eqb n' n); [discriminate | apply U]. }
    destruct (registered st n) as [c1|]; simpl.
    + fold (unreg st n).
      pose proof (conn_disconnect_quiet (unreg st n) now refuse c1) as Q.
      destruct (conn_disconnect (unreg st n) now refuse c1) as [st2 o2]; simpl in *.
      pose proof (dead_quiet _ _ _ DU Q) as D2. destruct n; exact D2.
    + destruct n; exact Dd.
  - destruct (registered st n) as [c1|]; simpl; [|exact Dd].
    destruct (is_connected (conn_state st c1)); simpl; [|exact Dd].
    destruct f; simpl; [|exact Dd].
    pose proof (conn_disconnect_quiet st now refuse c1) as Q.
    destruct (conn_disconnect st now refuse c1) as [st1 o1]; simpl in *.
    eapply dead_quiet; eassumption.
  - destruct (get_conn st c0); exact Dd.
Qed.

Lemma dead_run : forall es st c, reachable st -> dead st c -> dead (run_state st es) c.
Proof.
  induction es as [|e r IH]; intros st c R Dd; [exact Dd|].
  rewrite run_state_cons. apply IH; [apply reach_step; exact R | apply dead_step; [apply reachable_inv; exact R | exact Dd]].
Qed.

Lemma dead_silent : forall st e c X m, dead st c -> ~ In (OMessage c X m) (snd (step st e)).
Proof.
  intros st e c X m (_ & D & _) H. apply message_out in H. destruct H as (_ & C & _). congruence.
Qed.

(* first messages the transport must reject: a str that is no member address and not 'readonly',
   or any other hashable non-list value *)
Definition rejectable (st : tstate) (m : msg) : Prop :=
  match m with
  | MAddr a => zmem a (nodes st) = false
  | MOther _ => True
  | _ => False
  end.

Theorem unknown_rejected : forall self rt ut es now refuse c m u,
  let st := run_state (init self rt ut) es in
  let r := step st (mkEv now refuse (Message c m u)) in
  conn_state st c = Connected -> bind_of st c = None -> rejectable st m ->
  snd r = [ODisconnect c] /\ dead (fst r) c /\ nmem c (unknown (fst r)) = false /\
  forall es' e X m', ~ In (OMessage c X m') (snd (step (run_state (fst r) es') e)).
Proof.
  intros self rt ut es now refuse c m u st r C B RJ.
  assert (R : reachable st) by apply run_reachable.
  destruct (reachable_inv _ R) as [I0 ID].
  assert (U : forall n, registered st n <> Some c) by (apply inv_unbound_unregistered; assumption).
  assert (A : allocated st c) by (apply conn_state_live_allocated; congruence).
  assert (HR : r = reject st now refuse c).
  { unfold r, step; simpl. unfold conn_state in C; unfold bind_of in B.
    destruct (get_conn st c) as [rc|]; [|discriminate]. rewrite C, B.
    destruct m as [a| |cmd| |k|k]; simpl in RJ |- *; try contradiction; [rewrite RJ|]; reflexivity. }
  assert (HD : snd r = [ODisconnect c] /\ dead (fst r) c /\ nmem c (unknown (fst r)) = false).
  { rewrite HR. unfold reject.
    pose proof (conn_disconnect_quiet st now refuse c) as Q.
    destruct (conn_disconnect_unregistered st now refuse c U) as [O D].
    destruct (conn_disconnect st now refuse c) as [st1 o1]; simpl in *. subst o1.
    split; [reflexivity | split; [|apply nmem_nremove_same]].
    split; [|split].
    - apply (qf_alloc _ _ Q); exact A.
    - exact D.
    - intros n; change (registered st1 n <> Some c). rewrite (quiet_registered _ _ _ Q); apply U. }
  destruct HD as (H1 & H2 & H3).
  split; [exact H1 | split; [exact H2 | split; [exact H3|]]].
  intros es' e X m'. apply dead_silent. apply dead_run; [|exact H2].
  unfold r. apply reach_step; exact R.
Qed.

Example unknown_rejected_example :
  let st := run_state (init (Some 0) 5 []) [mkEv 0 [] (AddNode 1); mkEv 0 [] IncomingNew] in
  conn_state st 0%N = Connected /\ bind_of st 0%N = None /\ rejectable st (MAddr 2) /\ rejectable st (MOther 3).
Proof. vm_compute; auto. Qed.

(* the full statement (every first message that is neither a member address, 'readonly' nor a registered
   utility command is answered by a disconnect) is false of the code: unhashable values and lists raise *)
Definition unknown_rejected_full : Prop :=
  forall self rt ut es now refuse c m u,
    let st := run_state (init self rt ut) es in
    conn_state st c = Connected -> bind_of st c = None ->
    (match m with
     | MAddr a => zmem a (nodes st) = false
     | MReadonly => False
     | MList cmd => nmem cmd (utils st) = false
     | _ => True
     end) ->
    conn_state (fst (step st (mkEv now refuse (Message c m u)))) c = Disconnected.

Lemma unknown_rejected_refuted : exists self rt ut es now refuse c m u,
  let st := run_state (init self rt ut) es in
  conn_state st c = Connected /\ bind_of st c = None /\
  (match m with MUnhashable _ | MEmptyList => True | MList cmd => nmem cmd (utils st) = false | _ => False end) /\
  conn_state (fst (step st (mkEv now refuse (Message c m u)))) c = Connected /\
  nmem c (unknown (fst (step st (mkEv now refuse (Message c m u))))) = true /\
  In (ORaise 1) (snd (step st (mkEv now refuse (Message c m u)))).
Proof.
  exists (Some 0), 5, [0%N], [mkEv 0 [] IncomingNew], 0, [], 0%N, (MList 4), false.
  vm_compute; auto 10.
Qed.

Lemma unknown_rejected_full_false : ~ unknown_rejected_full.
Proof.
  intro H.
  specialize (H (Some 0) 5 [0%N] [mkEv 0 [] IncomingNew] 0 [] 0%N (MUnhashable 1) false).
  vm_compute in H. assert (E : Connected = Disconnected) by (apply H; auto). discriminate.
Qed.

(* ================= C14_send_truthful ================= *)
Theorem send_truthful : forall st now refuse n m fault,
  let r := step st (mkEv now refuse (Send n m fault)) in
  (In (OSendResult true) (snd r) ->
     exists c, registered st n = Some c /\ conn_state st c = Connected /\
               registered (fst r) n = Some c /\ conn_state (fst r) c = Connected /\
               In (OSend c (PMsg m)) (snd r)) /\
  (forall c, registered st n = Some c -> conn_state st c = Connected -> fault = false ->
     r = (st, [OSend c (PMsg m); OSendResult true])) /\
  ((registered st n = None \/ exists c, registered st n = Some c /\ conn_state st c <> Connected) ->
     r = (st, [OSendResult false])).
Proof.
  intros st now refuse n m fault r; unfold r, step; simpl. split; [|split].
  - destruct (registered st n) as [c|] eqn:R; simpl; [|intros [E|[]]; discriminate].
    destruct (is_connected (conn_state st c)) eqn:C; simpl; [|intros [E|[]]; discriminate].
    apply is_connected_true in C.
    destruct fault.
    + pose proof (conn_disconnect_quiet st now refuse c) as Q.
      pose proof (conn_disconnect_out st now refuse c (OSendResult true)) as O.
      destruct (conn_disconnect st now refuse c) as [st1 o1]; simpl in *.
      intros [E|E]; [discriminate|]. apply in_app_or in E; destruct E as [E|[E|[]]]; [exfalso; exact (O E)|].
      rewrite (quiet_registered _ _ _ Q), R in E |- *.
      exists c; repeat split; auto.
      inversion E as [E']. apply is_connected_true in E'; exact E'.
    + simpl. intros [E|[E|[]]]; [discriminate|]. rewrite R in E |- *.
      exists c; repeat split; auto.
  - intros c R C F; subst fault. rewrite R, C; simpl. rewrite ?R, ?C; reflexivity.
  - intros [R|(c & R & C)]; rewrite R; [reflexivity|].
    destruct (conn_state st c); simpl; try reflexivity. congruence.
Qed.

Example send_truthful_example :
  let st := run_state (init (Some 0) 5 []) [mkEv 0 [] (AddNode 1); mkEv 0 [] IncomingNew; mkEv 0 [] (Message 0 (MAddr 1) false)] in
  step st (mkEv 1 [] (Send (Member 1) 9 false)) = (st, [OSend 0 (PMsg 9); OSendResult true]) /\
  snd (step st (mkEv 1 [] (Send (Member 1) 9 true))) = [OSend 0 (PMsg 9); ONodeDisconnected (Member 1); OSendResult false].
Proof. vm_compute; auto. Qed.

(* ================= what holds after dropNode ================= *)
(* the member table changes by addNode / dropNode only *)
Lemma step_nodes : forall st e,
  nodes (fst (step st e)) =
  match ev_act e with
  | AddNode a => zadd a (nodes st)
  | DropNode (Member a) => zremove a (nodes st)
  | _ => nodes st
  end.
Proof.
  intros st [now refuse act]; destruct act as [|c0| |c0 m u|c0|a'|n|n m f|c0]; unfold step; simpl.
  - apply (qf_nodes _ _ (connect_all_quiet _ _ _ _)).
  - destruct (get_conn st c0) as [r|]; simpl; [|reflexivity]. destruct (cst r); reflexivity.
  - reflexivity.
  - destruct (get_conn st c0) as [r|]; simpl; [|reflexivity].
    destruct (cst r); simpl; try reflexivity.
    destruct (c_bind r); simpl; [reflexivity|].
    destruct m as [a'| |cmd| |k|k]; simpl; try reflexivity.
    + destruct (zmem a' (nodes st)).
      * rewrite register_eq; simpl.
        unfold pre_register. set (st0 := set_unknown st (nremove c0 (unknown st))).
        destruct (registered st0 (Member a')) as [old|]; [|reflexivity].
        destruct (N.eqb old c0); [reflexivity|].
        pose proof (qf_nodes _ _ (conn_disconnect_quiet (unreg st0 (Member a')) now refuse old)) as H.
        destruct (conn_disconnect (unreg st0 (Member a')) now refuse old); exact H.
      * apply (qf_nodes _ _ (reject_quiet _ _ _ _)).
    + set (st1 := set_ro_counter _ _). rewrite register_eq; simpl.
      unfold pre_register. set (st0 := set_unknown st1 (nremove c0 (unknown st1))).
      destruct (registered st0 (RO (ro_counter st))) as [old|]; [|reflexivity].
      destruct (N.eqb old c0); [reflexivity|].
      pose proof (qf_nodes _ _ (conn_disconnect_quiet (unreg st0 (RO (ro_counter st))) now refuse old)) as H.
      destruct (conn_disconnect (unreg st0 (RO (ro_counter st))) now refuse old); exact H.
    + destruct (nmem cmd (utils st)); reflexivity.
    + apply (qf_nodes _ _ (reject_quiet _ _ _ _)).
  - apply (qf_nodes _ _ (conn_disconnect_quiet _ _ _ _)).
  - destruct (should_connect (self_addr st) a'); reflexivity.
  - destruct (registered st n) as [c1|]; simpl.
    + pose proof (qf_nodes _ _ (conn_disconnect_quiet (unreg st n) now refuse c1)) as H.
      fold (unreg st n). destruct (conn_disconnect (unreg st n) now refuse c1); simpl in *.
      destruct n; simpl; [rewrite H|exact H]; reflexivity.
    + destruct n; reflexivity.
  - destruct (registered st n) as [c1|]; simpl; [|reflexivity].
    destruct (is_connected (conn_state st c1)); simpl; [|reflexivity].
    destruct f; simpl; [|reflexivity].
    pose proof (qf_nodes _ _ (conn_disconnect_quiet st now refuse c1)) as H.
    destruct (conn_disconnect st now refuse c1); exact H.
  - destruct (get_conn st c0); reflexivity.
Qed.

Definition not_add (a : Z) (e : event) : Prop := ev_act e <> AddNode a.

Lemma non_member_stays : forall es st a, zmem a (nodes st) = false -> Forall (not_add a) es ->
  zmem a (nodes (run_state st es)) = false.
Proof.
  induction es as [|e r IH]; intros st a NM F; [exact NM|].
  rewrite run_state_cons. inversion F as [|e' r' Ne Fr]; subst. apply IH; [|exact Fr].
  rewrite step_nodes. unfold not_add in Ne.
  destruct (ev_act e) as [|c0| |c0 m u|c0|a'|n|n m f|c0]; try exact NM.
  - rewrite zmem_zadd. destruct (a =? a') eqn:E; [apply Z.eqb_eq in E; subst; contradiction | exact NM].
  - destruct n as [a'|k]; [|exact NM]. rewrite zmem_zremove, NM. apply andb_false_r.
Qed.

Lemma run_state_app : forall es1 es2 st, run_state st (es1 ++ es2) = run_state (run_state st es1) es2.
Proof.
  induction es1 as [|e r IH]; intros es2 st; [reflexivity|].
  simpl. rewrite !run_state_cons. apply IH.
Qed.

(* after dropNode(a), and until a is added again, nothing is delivered as from a -- provided the
   application never added a node it already had (SyncObj's own guard) *)
Theorem no_delivery_after_drop : forall self rt ut es1 now refuse a es2 e c m,
  let es := es1 ++ mkEv now refuse (DropNode (Member a)) :: es2 in
  run_ok guarded (init self rt ut) es -> Forall (not_add a) es2 ->
  ~ In (OMessage c (Member a) m) (snd (step (run_state (init self rt ut) es) e)).
Proof.
  intros self rt ut es1 now refuse a es2 e c m es OK NA.
  apply no_delivery_from_non_member; [exact OK|].
  unfold es. rewrite run_state_app, run_state_cons.
  apply non_member_stays; [apply drop_removes_member | exact NA].
Qed.

Example no_delivery_after_drop_example :
  let es1 := [mkEv 0 [] (AddNode 1); mkEv 0 [] IncomingNew; mkEv 0 [] (Message 0 (MAddr 1) false);
              mkEv 0 [] IncomingNew; mkEv 0 [] (Message 1 (MAddr 1) false)] in
  let es := es1 ++ mkEv 1 [] (DropNode (Member 1)) :: [mkEv 2 [] IncomingNew] in
  run_ok guarded (init (Some 0) 5 []) es /\ Forall (not_add 1) [mkEv 2 [] IncomingNew] /\
  snd (step (run_state (init (Some 0) 5 []) es) (mkEv 3 [] (Message 0 (MOther 7) false))) = [] /\
  snd (step (run_state (init (Some 0) 5 []) es) (mkEv 3 [] (Message 1 (MOther 7) false))) = [].
Proof.
  vm_compute. repeat split; auto. constructor; [discriminate | constructor].
Qed.
