(* C14_redial_bound: the reconnect throttle of coq/Transport/Model.v. *)
From Coq Require Import ZArith NArith List Bool Lia.
From PSO Require Import Transport.Model Transport.Proofs Transport.ProofsInv Transport.ProofsThm.
Import ListNotations.
Open Scope Z_scope.

(* "this node has to dial a, the object c registered for a is disconnected, and the last attempt was at t" *)
Record W (a : Z) (c : N) (t : option Z) (st : tstate) : Prop := {
  w_node : zmem a (nodes st) = true;
  w_should : should_connect (self_addr st) a = true;
  w_reg : registered st (Member a) = Some c;
  w_state : conn_state st c = Disconnected;
  w_last : alookup Z.eqb a (last_attempt st) = t
}.

Lemma W_frame : forall a c t st st', W a c t st ->
  zmem a (nodes st') = true -> self_addr st' = self_addr st ->
  registered st' (Member a) = registered st (Member a) ->
  conn_state st' c = conn_state st c ->
  alookup Z.eqb a (last_attempt st') = alookup Z.eqb a (last_attempt st) -> W a c t st'.
Proof.
  intros a c t st st' [H1 H2 H3 H4 H5] N S R C L; constructor.
  - exact N.
  - rewrite S; exact H2.
  - rewrite R; exact H3.
  - rewrite C; exact H4.
  - rewrite L; exact H5.
Qed.

Lemma throttled_ext : forall st st' a now,
  alookup Z.eqb a (last_attempt st') = alookup Z.eqb a (last_attempt st) -> retry st' = retry st ->
  throttled st' a now = throttled st a now.
Proof. intros st st' a now L R; unfold throttled; rewrite L, R; reflexivity. Qed.

Lemma member_neq : forall a a' : Z, a' <> a -> Member a' <> Member a.
Proof. intros a a' H E; inversion E; contradiction. Qed.

Lemma cs_other : forall st now refuse a a' c t, a' <> a -> Inv0 st -> W a c t st ->
  W a c t (fst (connect_single st now refuse a')) /\
  alookup Z.eqb a (last_attempt (fst (connect_single st now refuse a'))) = alookup Z.eqb a (last_attempt st).
Proof.
  intros st now refuse a a' c t NE I0 Hw.
  destruct (connect_single_spec st now refuse a') as [| R S |c' R D S T Z|c' R D S T Z].
  - split; [exact Hw | reflexivity].
  - split; [exact Hw | reflexivity].
  - assert (L : alookup Z.eqb a (last_attempt (set_last_attempt st (aset Z.eqb a' now (last_attempt st)))) =
                alookup Z.eqb a (last_attempt st)).
    { simpl. apply alookup_aset_other; [exact Zeqb_eq | auto]. }
    split; [|exact L]. apply (W_frame a c t st); try reflexivity; try exact Hw; [apply Hw | exact L].
  - assert (L : alookup Z.eqb a (last_attempt (set_cstate (set_last_attempt st (aset Z.eqb a' now (last_attempt st))) c' Connecting)) =
                alookup Z.eqb a (last_attempt st)).
    { simpl. apply alookup_aset_other; [exact Zeqb_eq | auto]. }
    split; [|exact L]. apply (W_frame a c t st); try reflexivity; try exact Hw; [apply Hw | | exact L].
    rewrite conn_state_set_cstate.
    destruct (N.eqb c c') eqn:E; [|reflexivity].
    apply N.eqb_eq in E; subst c'. exfalso. apply (member_neq a a' NE).
    eapply inv_injective; [exact I0 | exact R | apply Hw].
Qed.

Lemma connect_all_W : forall l st now refuse a c t, Inv0 st -> W a c t st -> throttled st a now = true ->
  W a c t (fst (connect_all st now refuse l)).
Proof.
  induction l as [|a' r IH]; intros st now refuse a c t I0 Hw T; simpl; [exact Hw|].
  destruct (Z.eq_dec a' a) as [E|NE].
  - subst a'. rewrite (connect_single_throttled st now refuse a c (w_reg _ _ _ _ Hw) T).
    pose proof (IH st now refuse a c t I0 Hw T) as H.
    destruct (connect_all st now refuse r); exact H.
  - destruct (cs_other st now refuse a a' c t NE I0 Hw) as [Hw1 L1].
    pose proof (connect_single_quiet st now refuse a') as Q.
    destruct (connect_single st now refuse a') as [st1 o1]; simpl in *.
    assert (T1 : throttled st1 a now = true).
    { rewrite (throttled_ext st st1 a now L1 (qf_retry _ _ Q)); exact T. }
    pose proof (IH st1 now refuse a c t (inv0_quiet _ _ I0 Q) Hw1 T1) as H.
    destruct (connect_all st1 now refuse r); exact H.
Qed.

Lemma conn_disconnect_W : forall st now refuse a c t c0, Inv0 st -> W a c t st ->
  W a c t (fst (conn_disconnect st now refuse c0)).
Proof.
  intros st now refuse a c t c0 I0 Hw; unfold conn_disconnect.
  destruct (is_disconnected (conn_state st c0)) eqn:D; simpl; [exact Hw|].
  assert (NE : c <> c0).
  { intro E; subst c0. rewrite (w_state _ _ _ _ Hw) in D; discriminate. }
  set (st1 := set_cstate st c0 Disconnected).
  assert (I1 : Inv0 st1) by (eapply inv0_quiet; [exact I0 | apply quiet_set_disconnected]).
  assert (W1 : W a c t st1).
  { apply (W_frame a c t st); try reflexivity; try exact Hw; [apply Hw|].
    unfold st1; rewrite conn_state_set_cstate. apply N.eqb_neq in NE; rewrite NE; reflexivity. }
  unfold on_disconnected.
  set (st0 := set_unknown st1 (nremove c0 (unknown st1))).
  assert (I2 : Inv0 st0) by (eapply inv0_quiet; [exact I1 | apply quiet_set_unknown]).
  assert (W2 : W a c t st0) by (apply (W_frame a c t st1); try reflexivity; try exact W1; apply W1).
  destruct (conn_to_node st0 c0) as [[a'|k]|] eqn:CN; simpl.
  - apply conn_to_node_registered in CN.
    destruct (zmem a' (nodes _)); simpl; [|exact W2].
    assert (NA : a' <> a).
    { intro E; subst a'. rewrite (w_reg _ _ _ _ W2) in CN; inversion CN; contradiction. }
    destruct (cs_other st0 now refuse a a' c t NA I2 W2) as [H _].
    destruct (connect_single st0 now refuse a'); exact H.
  - apply (W_frame a c t st0); try reflexivity; try exact W2; apply W2.
  - exact W2.
Qed.

Lemma register_W : forall st now refuse a c t c0 n, Inv0 st -> W a c t st -> n <> Member a ->
  W a c t (fst (register st now refuse c0 n)).
Proof.
  intros st now refuse a c t c0 n I0 Hw NE. rewrite register_eq; simpl.
  assert (P : W a c t (fst (pre_register st now refuse c0 n))).
  { unfold pre_register.
    set (st0 := set_unknown st (nremove c0 (unknown st))).
    assert (I1 : Inv0 st0) by (eapply inv0_quiet; [exact I0 | apply quiet_set_unknown]).
    assert (W1 : W a c t st0) by (apply (W_frame a c t st); try reflexivity; try exact Hw; apply Hw).
    destruct (registered st0 n) as [old|]; [|exact W1].
    assert (W2 : W a c t (unreg st0 n)).
    { apply (W_frame a c t st0); try reflexivity; try exact W1; [apply W1|].
      rewrite registered_unreg. destruct (node_eqb (Member a) n) eqn:E; [|reflexivity].
      apply node_eqb_eq in E; congruence. }
    destruct (N.eqb old c0); [exact W2|].
    pose proof (conn_disconnect_W (unreg st0 n) now refuse a c t old (inv0_unreg _ _ I1) W2) as H.
    destruct (conn_disconnect (unreg st0 n) now refuse old); exact H. }
  apply (W_frame a c t (fst (pre_register st now refuse c0 n))); try reflexivity; try exact P; [apply P | | apply conn_state_enter].
  rewrite registered_enter. destruct (node_eqb (Member a) n) eqn:E; [|reflexivity].
  apply node_eqb_eq in E; congruence.
Qed.

(* events that leave the wait for a alone *)
Definition quiet_ev (a : Z) (st : tstate) (e : event) : Prop :=
  match ev_act e with
  | Tick => throttled st a (ev_now e) = true
  | AddNode a' => a' <> a
  | DropNode n => n <> Member a
  | Message c0 (MAddr a') _ => a' <> a \/ bind_of st c0 <> None
  | _ => True
  end.

Lemma step_W : forall st e a c t, Inv st -> W a c t st -> quiet_ev a st e -> W a c t (fst (step st e)).
Proof.
  intros st [now refuse act] a c t [I0 ID] Hw Qe.
  assert (AC : allocated st c) by (eapply inv_reg_allocated; [exact I0 | apply Hw]).
  pose proof (inv_fresh _ I0 c AC) as LT.
  destruct act as [|c0| |c0 m u|c0|a'|n|n m f|c0]; unfold step; simpl; simpl in Qe.
  - apply connect_all_W; assumption.
  - destruct (get_conn st c0) as [r|] eqn:G0; simpl; [|exact Hw].
    destruct (cst r) eqn:C; simpl; try exact Hw.
    apply (W_frame a c t st); try reflexivity; try exact Hw; [apply Hw|].
    rewrite conn_state_set_cstate. destruct (N.eqb c c0) eqn:E; [|reflexivity].
    apply N.eqb_eq in E; subst c0. pose proof (w_state _ _ _ _ Hw) as D.
    unfold conn_state in D; rewrite G0, C in D; discriminate.
  - apply (W_frame a c t st); try reflexivity; try exact Hw; [apply Hw|].
    unfold conn_state, get_conn; simpl. destruct (N.eqb c (next_conn st)) eqn:E; [apply N.eqb_eq in E; lia | reflexivity].
  - destruct (get_conn st c0) as [r|] eqn:G0; simpl; [|exact Hw].
    destruct (cst r) eqn:C; simpl; try exact Hw.
    destruct (c_bind r) eqn:B; simpl; [exact Hw|].
    assert (B' : bind_of st c0 = None) by (unfold bind_of; rewrite G0; exact B).
    assert (RJ : W a c t (fst (reject st now refuse c0))).
    { unfold reject. pose proof (conn_disconnect_W st now refuse a c t c0 I0 Hw) as H.
      destruct (conn_disconnect st now refuse c0) as [st1 o1]; simpl in *.
      apply (W_frame a c t st1); try reflexivity; try exact H; apply H. }
    destruct m as [a'| |cmd| |k|k]; simpl.
    + destruct (zmem a' (nodes st)); [|exact RJ].
      assert (NA : a' <> a) by (destruct Qe as [Qe|Qe]; [exact Qe | contradiction]).
      pose proof (register_W st now refuse a c t c0 (Member a') I0 Hw (member_neq _ _ NA)) as H.
      destruct (register st now refuse c0 (Member a')); exact H.
    + set (st1 := set_ro_counter _ _).
      assert (I1 : Inv0 st1).
      { constructor; simpl.
        - apply (inv_fresh _ I0).
        - apply (inv_reg _ I0).
        - intros c' k H. pose proof (inv_ro _ I0 c' k H); lia.
        - apply (inv_memb _ I0). }
      assert (W1 : W a c t st1) by (apply (W_frame a c t st); try reflexivity; try exact Hw; apply Hw).
      assert (NR : RO (ro_counter st) <> Member a) by discriminate.
      pose proof (register_W st1 now refuse a c t c0 (RO (ro_counter st)) I1 W1 NR) as H.
      destruct (register st1 now refuse c0 (RO (ro_counter st))); exact H.
    + destruct (nmem cmd (utils st)); exact Hw.
    + exact Hw.
    + exact Hw.
    + exact RJ.
  - apply conn_disconnect_W; assumption.
  - destruct (should_connect (self_addr st) a'); simpl.
    + apply (W_frame a c t st); try reflexivity; try exact Hw.
      * simpl. rewrite zmem_zadd, (w_node _ _ _ _ Hw). apply orb_true_r.
      * unfold registered; simpl. destruct (a =? a') eqn:E; [apply Z.eqb_eq in E; congruence|].
        apply (alookup_aremove_other _ _ node_eqb node_eqb_eq). apply member_neq; auto.
      * unfold conn_state, get_conn; simpl. destruct (N.eqb c (next_conn st)) eqn:E; [apply N.eqb_eq in E; lia | reflexivity].
    + apply (W_frame a c t st); try reflexivity; try exact Hw.
      simpl. rewrite zmem_zadd, (w_node _ _ _ _ Hw). apply orb_true_r.
  - assert (TB : forall st2, W a c t st2 -> W a c t (drop_node_tables st2 n)).
    { intros st2 W2. destruct n as [a'|k]; simpl.
      - assert (NA : a <> a') by (intro E; subst; contradiction).
        apply (W_frame a c t st2); try reflexivity; try exact W2.
        + simpl. rewrite zmem_zremove, (w_node _ _ _ _ W2).
          apply Z.eqb_neq in NA; rewrite NA; reflexivity.
        + simpl. apply alookup_aremove_other; [exact Zeqb_eq | exact NA].
      - apply (W_frame a c t st2); try reflexivity; try exact W2. apply W2. }
    destruct (registered st n) as [c1|]; simpl; [|apply TB; exact Hw].
    fold (unreg st n).
    assert (W1 : W a c t (unreg st n)).
    { apply (W_frame a c t st); try reflexivity; try exact Hw; [apply Hw|].
      rewrite registered_unreg. destruct (node_eqb (Member a) n) eqn:E; [|reflexivity].
      apply node_eqb_eq in E; congruence. }
    pose proof (conn_disconnect_W (unreg st n) now refuse a c t c1 (inv0_unreg _ _ I0) W1) as H.
    destruct (conn_disconnect (unreg st n) now refuse c1) as [st2 o2]; simpl in *.
    apply TB; exact H.
  - destruct (registered st n) as [c1|]; simpl; [|exact Hw].
    destruct (is_connected (conn_state st c1)); simpl; [|exact Hw].
    destruct f; simpl; [|exact Hw].
    pose proof (conn_disconnect_W st now refuse a c t c1 I0 Hw) as H.
    destruct (conn_disconnect st now refuse c1); exact H.
  - destruct (get_conn st c0); exact Hw.
Qed.

Lemma run_W : forall es st a c t, reachable st -> W a c t st -> run_ok (quiet_ev a) st es ->
  W a c t (run_state st es).
Proof.
  induction es as [|e r IH]; intros st a c t R Hw OK; [exact Hw|].
  rewrite run_state_cons. destruct OK as [Q OK].
  apply IH; [apply reach_step; exact R | apply step_W; [apply reachable_inv; exact R | exact Hw | exact Q] | exact OK].
Qed.

(* the attempt time recorded for a after a sweep is either untouched or [now] *)
Lemma connect_single_last : forall st now refuse a a',
  alookup Z.eqb a (last_attempt (fst (connect_single st now refuse a'))) = Some now \/
  alookup Z.eqb a (last_attempt (fst (connect_single st now refuse a'))) = alookup Z.eqb a (last_attempt st).
Proof.
  intros st now refuse a a'.
  destruct (connect_single_spec st now refuse a') as [| R S |c' R D S T Z|c' R D S T Z]; auto; simpl;
    (destruct (Z.eq_dec a a') as [E|NE];
     [subst; left; apply alookup_aset_same; exact Zeqb_eq
     |right; apply alookup_aset_other; [exact Zeqb_eq | exact NE]]).
Qed.

Lemma connect_all_last : forall l st now refuse a,
  alookup Z.eqb a (last_attempt (fst (connect_all st now refuse l))) = Some now \/
  alookup Z.eqb a (last_attempt (fst (connect_all st now refuse l))) = alookup Z.eqb a (last_attempt st).
Proof.
  induction l as [|a' r IH]; intros st now refuse a; simpl; [auto|].
  pose proof (connect_single_last st now refuse a a') as H1.
  destruct (connect_single st now refuse a') as [st1 o1]; simpl in *.
  pose proof (IH st1 now refuse a) as H2.
  destruct (connect_all st1 now refuse r) as [st2 o2]; simpl in *.
  destruct H2 as [H2|H2]; [auto|]. rewrite H2. exact H1.
Qed.

Lemma connect_all_dials : forall l st now refuse a c t, Inv0 st -> W a c t st -> throttled st a now = false ->
  In a l ->
  In (ODial c a (negb (zmem a refuse))) (snd (connect_all st now refuse l)) /\
  alookup Z.eqb a (last_attempt (fst (connect_all st now refuse l))) = Some now.
Proof.
  induction l as [|a' r IH]; intros st now refuse a c t I0 Hw T HIn; simpl; [contradiction|].
  destruct (Z.eq_dec a' a) as [E|NE].
  - subst a'.
    destruct (connect_single_dials st now refuse a c (w_reg _ _ _ _ Hw) (w_state _ _ _ _ Hw) (w_should _ _ _ _ Hw) T) as [O L].
    destruct (connect_single st now refuse a) as [st1 o1]; simpl in *.
    pose proof (connect_all_last r st1 now refuse a) as H2.
    destruct (connect_all st1 now refuse r) as [st2 o2]; simpl in *.
    split; [subst o1; left; reflexivity|]. destruct H2 as [H2|H2]; [exact H2 | rewrite H2; exact L].
  - destruct HIn as [E|HIn]; [contradiction|].
    destruct (cs_other st now refuse a a' c t NE I0 Hw) as [Hw1 L1].
    pose proof (connect_single_quiet st now refuse a') as Q.
    destruct (connect_single st now refuse a') as [st1 o1]; simpl in *.
    assert (T1 : throttled st1 a now = false).
    { rewrite (throttled_ext st st1 a now L1 (qf_retry _ _ Q)); exact T. }
    pose proof (IH st1 now refuse a c t (inv0_quiet _ _ I0 Q) Hw1 T1 HIn) as H.
    destruct (connect_all st1 now refuse r) as [st2 o2]; simpl in *.
    destruct H as [H1 H2]; split; [apply in_or_app; right; exact H1 | exact H2].
Qed.

(* connectionRetryTime never changes *)
Lemma step_retry : forall st e, retry (fst (step st e)) = retry st.
Proof.
  intros st [now refuse act]; destruct act as [|c0| |c0 m u|c0|a'|n|n m f|c0]; unfold step; simpl.
  - apply (qf_retry _ _ (connect_all_quiet _ _ _ _)).
  - destruct (get_conn st c0) as [r|]; simpl; [|reflexivity]. destruct (cst r); reflexivity.
  - reflexivity.
  - destruct (get_conn st c0) as [r|]; simpl; [|reflexivity].
    destruct (cst r); simpl; try reflexivity.
    destruct (c_bind r); simpl; [reflexivity|].
    destruct m as [a'| |cmd| |k|k]; simpl; try reflexivity.
    + destruct (zmem a' (nodes st)).
      * rewrite register_eq; simpl.
        unfold pre_register. set (st0 := set_unknown st (nremove c0 (unknown st))).
        destruct (registered st0 (Member a')) as [old|]; [|reflexivity].
        destruct (N.eqb old c0); [reflexivity|].
        pose proof (qf_retry _ _ (conn_disconnect_quiet (unreg st0 (Member a')) now refuse old)) as H.
        destruct (conn_disconnect (unreg st0 (Member a')) now refuse old); exact H.
      * apply (qf_retry _ _ (reject_quiet _ _ _ _)).
    + set (st1 := set_ro_counter _ _). rewrite register_eq; simpl.
      unfold pre_register. set (st0 := set_unknown st1 (nremove c0 (unknown st1))).
      destruct (registered st0 (RO (ro_counter st))) as [old|]; [|reflexivity].
      destruct (N.eqb old c0); [reflexivity|].
      pose proof (qf_retry _ _ (conn_disconnect_quiet (unreg st0 (RO (ro_counter st))) now refuse old)) as H.
      destruct (conn_disconnect (unreg st0 (RO (ro_counter st))) now refuse old); exact H.
    + destruct (nmem cmd (utils st)); reflexivity.
    + apply (qf_retry _ _ (reject_quiet _ _ _ _)).
  - apply (qf_retry _ _ (conn_disconnect_quiet _ _ _ _)).
  - destruct (should_connect (self_addr st) a'); reflexivity.
  - destruct (registered st n) as [c1|]; simpl.
    + pose proof (qf_retry _ _ (conn_disconnect_quiet (unreg st n) now refuse c1)) as H.
      fold (unreg st n). destruct (conn_disconnect (unreg st n) now refuse c1); simpl in *.
      destruct n; exact H.
    + destruct n; reflexivity.
  - destruct (registered st n) as [c1|]; simpl; [|reflexivity].
    destruct (is_connected (conn_state st c1)); simpl; [|reflexivity].
    destruct f; simpl; [|reflexivity].
    pose proof (qf_retry _ _ (conn_disconnect_quiet st now refuse c1)) as H.
    destruct (conn_disconnect st now refuse c1); exact H.
  - destruct (get_conn st c0); reflexivity.
Qed.

Lemma run_retry : forall es st, retry (run_state st es) = retry st.
Proof.
  induction es as [|e r IH]; intro st; [reflexivity|].
  rewrite run_state_cons, IH. apply step_retry.
Qed.

Lemma throttled_false : forall st a now t,
  alookup Z.eqb a (last_attempt st) = t ->
  (match t with None => True | Some t0 => retry st <= now - t0 end) -> throttled st a now = false.
Proof.
  intros st a now t L H; unfold throttled; rewrite L. destruct t as [t0|]; [|reflexivity].
  apply Z.ltb_ge; exact H.
Qed.

(* ================= C14_redial_bound ================= *)
(* the periodic part: once this node waits for a (object disconnected, last attempt at t), whatever else
   happens that does not concern a, the first tick at or after t + connectionRetryTime dials a again *)
Theorem redial_bound : forall st a c t es now refuse,
  reachable st -> W a c t st -> run_ok (quiet_ev a) st es ->
  (match t with None => True | Some t0 => retry st <= now - t0 end) ->
  let r := step (run_state st es) (mkEv now refuse Tick) in
  In (ODial c a (negb (zmem a refuse))) (snd r) /\
  alookup Z.eqb a (last_attempt (fst r)) = Some now /\
  (zmem a refuse = false -> conn_state (fst r) c <> Disconnected).
Proof.
  intros st a c t es now refuse R Hw OK HT r.
  pose proof (run_W es st a c t R Hw OK) as W1.
  assert (R1 : reachable (run_state st es)) by (apply reachable_run; exact R).
  destruct (reachable_inv _ R1) as [I0 ID].
  assert (T : throttled (run_state st es) a now = false).
  { apply (throttled_false _ _ _ t); [apply W1 | rewrite run_retry; exact HT]. }
  destruct (connect_all_dials (nodes (run_state st es)) (run_state st es) now refuse a c t I0 W1 T) as [H1 H2].
  { apply zmem_In; apply W1. }
  split; [exact H1 | split; [exact H2|]].
  intro NRf. unfold r, step; simpl.
  (* a successful dial leaves the object CONNECTING (or further) *)
  pose proof (connect_all_out _ _ _ _ _ H1) as _.
  clear H1 H2.
  assert (G : forall l st0, Inv0 st0 -> registered st0 (Member a) = Some c -> should_connect (self_addr st0) a = true ->
              throttled st0 a now = false \/ conn_state st0 c <> Disconnected -> In a l ->
              conn_state (fst (connect_all st0 now refuse l)) c <> Disconnected).
  { induction l as [|a' l IH]; intros st0 J0 Rg Sh Pre HIn; simpl; [contradiction|].
    pose proof (connect_single_quiet st0 now refuse a') as Q.
    destruct (Z.eq_dec a' a) as [E|NE].
    - subst a'.
      assert (L1 : conn_state (fst (connect_single st0 now refuse a)) c <> Disconnected).
      { unfold connect_single. rewrite Rg.
        destruct (is_disconnected (conn_state st0 c)) eqn:D; simpl.
        - apply is_disconnected_true in D. rewrite Sh; simpl.
          destruct Pre as [Pre|Pre]; [|contradiction]. rewrite Pre, NRf; simpl.
          rewrite conn_state_set_cstate, N.eqb_refl.
          assert (AL : allocated st0 c) by (eapply inv_reg_allocated; eassumption).
          unfold allocated in AL. change (get_conn (set_last_attempt st0 (aset Z.eqb a now (last_attempt st0))) c) with (get_conn st0 c).
          destruct (get_conn st0 c); [discriminate | contradiction].
        - intro X; rewrite X in D; discriminate. }
      destruct (connect_single st0 now refuse a) as [st1 o1]; simpl in *.
      (* later sweeps never disconnect *)
      assert (K : forall l2 st2, conn_state st2 c <> Disconnected -> registered st2 (Member a) = Some c ->
                                 Inv0 st2 -> conn_state (fst (connect_all st2 now refuse l2)) c <> Disconnected).
      { induction l2 as [|a2 l2 IH2]; intros st2 L2 R2 J2; simpl; [exact L2|].
        pose proof (connect_single_quiet st2 now refuse a2) as Q2.
        assert (L3 : conn_state (fst (connect_single st2 now refuse a2)) c <> Disconnected).
        { destruct (connect_single_spec st2 now refuse a2) as [| R' S' |c' R' D' S' T' Z'|c' R' D' S' T' Z']; simpl; try exact L2.
          rewrite conn_state_set_cstate. destruct (N.eqb c c') eqn:E2; [|exact L2].
          destruct (get_conn _ c); [discriminate|].
          apply N.eqb_eq in E2; subst c'. contradiction. }
        destruct (connect_single st2 now refuse a2) as [st3 o3]; simpl in *.
        pose proof (IH2 st3 L3) as H. rewrite (quiet_registered _ _ _ Q2) in H.
        specialize (H R2 (inv0_quiet _ _ J2 Q2)).
        destruct (connect_all st3 now refuse l2); exact H. }
      pose proof (K l st1 L1) as H. rewrite (quiet_registered _ _ _ Q) in H.
      specialize (H Rg (inv0_quiet _ _ J0 Q)).
      destruct (connect_all st1 now refuse l); exact H.
    - destruct HIn as [E|HIn]; [contradiction|].
      assert (Pre1 : throttled (fst (connect_single st0 now refuse a')) a now = false \/
                     conn_state (fst (connect_single st0 now refuse a')) c <> Disconnected).
      { destruct (connect_single_spec st0 now refuse a') as [| R' S' |c' R' D' S' T' Z'|c' R' D' S' T' Z']; simpl; try exact Pre.
        - destruct Pre as [Pre|Pre]; [left|right; exact Pre].
          rewrite <- Pre. apply throttled_ext; [|reflexivity].
          simpl. apply alookup_aset_other; [exact Zeqb_eq | auto].
        - destruct Pre as [Pre|Pre]; [left|right].
          + rewrite <- Pre. apply throttled_ext; [|reflexivity].
            simpl. apply alookup_aset_other; [exact Zeqb_eq | auto].
          + rewrite conn_state_set_cstate. destruct (N.eqb c c') eqn:E2; [|exact Pre].
            destruct (get_conn _ c); [discriminate|].
            apply N.eqb_eq in E2; subst c'. contradiction. }
      destruct (connect_single st0 now refuse a') as [st1 o1]; simpl in *.
      pose proof (IH st1 (inv0_quiet _ _ J0 Q)) as H.
      rewrite (quiet_registered _ _ _ Q), (qf_self _ _ Q) in H. specialize (H Rg Sh Pre1 HIn).
      destruct (connect_all st1 now refuse l); exact H. }
  apply G; [exact I0 | apply W1 | apply W1 | left; exact T | apply zmem_In; apply W1].
Qed.

(* the immediate part: when the object registered for a peer this node dials notices a disconnect, the
   application is told, and the reconnect happens at once iff the throttle allows it; otherwise the
   node is left waiting in the sense of [W] *)
Theorem redial_immediate : forall st now refuse a c,
  reachable st ->
  registered st (Member a) = Some c -> zmem a (nodes st) = true -> should_connect (self_addr st) a = true ->
  conn_state st c <> Disconnected ->
  let r := step st (mkEv now refuse (Closed c)) in
  (throttled st a now = false ->
     snd r = [ONodeDisconnected (Member a); ODial c a (negb (zmem a refuse))] /\
     alookup Z.eqb a (last_attempt (fst r)) = Some now) /\
  (throttled st a now = true ->
     snd r = [ONodeDisconnected (Member a)] /\
     W a c (alookup Z.eqb a (last_attempt st)) (fst r)).
Proof.
  intros st now refuse a c R Rg M Sh L r.
  destruct (reachable_inv _ R) as [I0 ID].
  assert (AL : allocated st c) by (apply conn_state_live_allocated; exact L).
  unfold r, step; simpl. unfold conn_disconnect.
  destruct (is_disconnected (conn_state st c)) eqn:D; [apply is_disconnected_true in D; contradiction|].
  set (st1 := set_cstate st c Disconnected).
  assert (I1 : Inv0 st1) by (eapply inv0_quiet; [exact I0 | apply quiet_set_disconnected]).
  unfold on_disconnected.
  set (st0 := set_unknown st1 (nremove c (unknown st1))).
  assert (I2 : Inv0 st0) by (eapply inv0_quiet; [exact I1 | apply quiet_set_unknown]).
  assert (R0 : registered st0 (Member a) = Some c) by exact Rg.
  rewrite (inv_conn_to_node st0 (Member a) c I2 R0).
  change (nodes st0) with (nodes st). rewrite M.
  assert (D0 : conn_state st0 c = Disconnected).
  { unfold st0, st1, conn_state, get_conn; simpl.
    rewrite (alookup_aupdate _ _ N.eqb Neqb_eq), N.eqb_refl.
    unfold allocated, get_conn in AL. destruct (alookup N.eqb c (conns st)); [reflexivity | contradiction]. }
  assert (T0 : throttled st0 a now = throttled st a now) by reflexivity.
  split; intro T.
  - destruct (connect_single_dials st0 now refuse a c R0 D0 Sh) as [O LA]; [rewrite T0; exact T|].
    destruct (connect_single st0 now refuse a) as [st2 o2]; simpl in *. subst o2. auto.
  - rewrite (connect_single_throttled st0 now refuse a c R0); [|rewrite T0; exact T]. simpl.
    split; [reflexivity|]. constructor; auto.
Qed.

Example redial_example :
  let st := run_state (init (Some 5) 10 []) [mkEv 0 [] (AddNode 1); mkEv 100 [] Tick; mkEv 101 [] (OutConnected 0)] in
  snd (step st (mkEv 105 [] (Closed 0))) = [ONodeDisconnected (Member 1)] /\
  snd (step st (mkEv 110 [] (Closed 0))) = [ONodeDisconnected (Member 1); ODial 0 1 true] /\
  let st' := fst (step st (mkEv 105 [] (Closed 0))) in
  W 1 0%N (Some 100) st' /\
  snd (step st' (mkEv 109 [] Tick)) = [] /\ snd (step st' (mkEv 110 [2] Tick)) = [ODial 0 1 true].
Proof. vm_compute. repeat split; reflexivity. Qed.

(* hypotheses of redial_bound on a concrete run: node 5 dials 1; the attempt at 100 is refused; a tick at
   105 is throttled, an unrelated peer connects in, a message arrives; the tick at 110 dials again *)
Example redial_bound_example :
  let st := run_state (init (Some 5) 10 []) [mkEv 0 [] (AddNode 1); mkEv 0 [] (AddNode 7); mkEv 100 [1] Tick] in
  let es := [mkEv 105 [] Tick; mkEv 106 [] IncomingNew; mkEv 107 [] (Message 1 (MAddr 7) false);
             mkEv 108 [] (Message 1 (MOther 3) false)] in
  W 1 0%N (Some 100) st /\ run_ok (quiet_ev 1) st es /\ retry st <= 110 - 100 /\
  snd (step (run_state st es) (mkEv 110 [] Tick)) = [ODial 0 1 true].
Proof. vm_compute. repeat split; auto; try (left; discriminate); try (intros; discriminate). Qed.

Example registry_single_example :
  let es := [mkEv 0 [] (AddNode 1); mkEv 0 [] IncomingNew; mkEv 0 [] (Message 0 (MAddr 1) false);
             mkEv 0 [] IncomingNew; mkEv 0 [] (Message 1 (MAddr 1) false)] in
  let st := run_state (init (Some 0) 5 []) es in
  run_ok no_live_readd (init (Some 0) 5 []) es /\
  bind_of st 1%N = Some (Member 1) /\ conn_state st 1%N = Connected /\ registered st (Member 1) = Some 1%N /\
  bind_of st 0%N = Some (Member 1) /\ conn_state st 0%N = Disconnected.
Proof. vm_compute. repeat split; auto; intros; discriminate. Qed.
