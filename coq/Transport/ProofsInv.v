(* Frames and outputs of the helpers of coq/Transport/Model.v, the invariant
   [Inv] of reachable states and its preservation by every event. *)
From Coq Require Import ZArith NArith List Bool Lia.
From PSO Require Import Transport.Model Transport.Proofs.
Import ListNotations.
Open Scope Z_scope.

(* ---------- frames ---------- *)
Lemma connect_single_quiet : forall st now refuse a, quiet_frame st (fst (connect_single st now refuse a)).
Proof.
  intros st now refuse a.
  destruct (connect_single_spec st now refuse a) as [| |c R D S T Z|c R D S T Z].
  - apply quiet_refl.
  - apply quiet_refl.
  - apply quiet_set_last_attempt.
  - eapply quiet_trans; [apply quiet_set_last_attempt|].
    apply (quiet_set_connecting _ c a); [exact R | exact D].
Qed.

Lemma connect_all_quiet : forall l st now refuse, quiet_frame st (fst (connect_all st now refuse l)).
Proof.
  induction l as [|a r IH]; intros st now refuse; simpl; [apply quiet_refl|].
  pose proof (connect_single_quiet st now refuse a) as Q1.
  destruct (connect_single st now refuse a) as [st1 o1]; simpl in Q1.
  pose proof (IH st1 now refuse) as Q2.
  destruct (connect_all st1 now refuse r) as [st2 o2]; simpl in *.
  eapply quiet_trans; eassumption.
Qed.

Lemma on_disconnected_quiet : forall st now refuse c, quiet_frame st (fst (on_disconnected st now refuse c)).
Proof.
  intros st now refuse c; unfold on_disconnected.
  set (st0 := set_unknown st (nremove c (unknown st))).
  assert (Q0 : quiet_frame st st0) by apply quiet_set_unknown.
  destruct (conn_to_node st0 c) as [[a|k]|]; simpl.
  - destruct (zmem a (nodes _)); simpl; [|exact Q0].
    pose proof (connect_single_quiet st0 now refuse a) as Q1.
    destruct (connect_single st0 now refuse a) as [st1 o]; simpl in *.
    eapply quiet_trans; eassumption.
  - eapply quiet_trans; [exact Q0 | apply quiet_set_ro_nodes].
  - exact Q0.
Qed.

Lemma conn_disconnect_quiet : forall st now refuse c, quiet_frame st (fst (conn_disconnect st now refuse c)).
Proof.
  intros st now refuse c; unfold conn_disconnect.
  destruct (is_disconnected (conn_state st c)); simpl; [apply quiet_refl|].
  eapply quiet_trans; [apply quiet_set_disconnected | apply on_disconnected_quiet].
Qed.

Lemma reject_quiet : forall st now refuse c, quiet_frame st (fst (reject st now refuse c)).
Proof.
  intros st now refuse c; unfold reject.
  pose proof (conn_disconnect_quiet st now refuse c) as Q.
  destruct (conn_disconnect st now refuse c) as [st1 o]; simpl in *.
  eapply quiet_trans; [exact Q | apply quiet_set_unknown].
Qed.

(* ---------- outputs ---------- *)
Definition qout (st : tstate) (l : list Z) (o : output) : Prop :=
  match o with
  | ODial c a _ => registered st (Member a) = Some c /\ should_connect (self_addr st) a = true /\ In a l
  | ORaise _ => exists a, In a l /\ registered st (Member a) = None /\ should_connect (self_addr st) a = true
  | _ => False
  end.

Lemma qout_incl : forall st l l' o, incl l l' -> qout st l o -> qout st l' o.
Proof.
  intros st l l' o Hi; destruct o; simpl; try tauto.
  - intros (H1 & H2 & H3); auto.
  - intros (a & H1 & H2 & H3); exists a; auto.
Qed.

Lemma qout_frame : forall st st' l o, quiet_frame st st' -> qout st' l o -> qout st l o.
Proof.
  intros st st' l o Q; destruct o; simpl; try tauto.
  - rewrite (quiet_registered _ _ _ Q), (qf_self _ _ Q); tauto.
  - intros (a & H1 & H2 & H3); exists a.
    rewrite (quiet_registered _ _ _ Q), (qf_self _ _ Q) in *; tauto.
Qed.

Lemma connect_single_out : forall st now refuse a o,
  In o (snd (connect_single st now refuse a)) -> qout st [a] o.
Proof.
  intros st now refuse a o.
  destruct (connect_single_spec st now refuse a) as [| R S |c R D S T Z|c R D S T Z]; simpl.
  - tauto.
  - intros [H|[]]; subst o; simpl. exists a; simpl; auto.
  - intros [H|[]]; subst o; simpl; auto.
  - intros [H|[]]; subst o; simpl; auto.
Qed.

Lemma connect_all_out : forall l st now refuse o,
  In o (snd (connect_all st now refuse l)) -> qout st l o.
Proof.
  induction l as [|a r IH]; intros st now refuse o; simpl; [tauto|].
  pose proof (connect_single_quiet st now refuse a) as Q1.
  pose proof (connect_single_out st now refuse a o) as O1.
  destruct (connect_single st now refuse a) as [st1 o1]; simpl in *.
  pose proof (IH st1 now refuse o) as O2.
  destruct (connect_all st1 now refuse r) as [st2 o2]; simpl in *.
  intro H; apply in_app_or in H; destruct H as [H|H].
  - eapply qout_incl; [|apply O1; exact H]. intros x [Hx|[]]; left; exact Hx.
  - eapply qout_incl; [|eapply qout_frame; [exact Q1 | apply O2; exact H]].
    intros x Hx; right; exact Hx.
Qed.

(* outputs of _onDisconnected(conn) / conn.disconnect() *)
Definition dout (st : tstate) (c : N) (o : output) : Prop :=
  match o with
  | ODial c' a _ => c' = c /\ registered st (Member a) = Some c /\ should_connect (self_addr st) a = true
  | ONodeDisconnected n => registered st n = Some c /\ exists a, n = Member a /\ zmem a (nodes st) = true
  | ORODisconnected n => registered st n = Some c
  | _ => False
  end.

Lemma dout_frame : forall st st' c o, quiet_frame st st' -> dout st' c o -> dout st c o.
Proof.
  intros st st' c o Q; destruct o; simpl; try tauto;
    rewrite ?(quiet_registered _ _ _ Q), ?(qf_self _ _ Q), ?(qf_nodes _ _ Q); tauto.
Qed.

Lemma on_disconnected_out : forall st now refuse c o,
  In o (snd (on_disconnected st now refuse c)) -> dout st c o.
Proof.
  intros st now refuse c o; unfold on_disconnected.
  set (st0 := set_unknown st (nremove c (unknown st))).
  assert (Q0 : quiet_frame st st0) by apply quiet_set_unknown.
  destruct (conn_to_node st0 c) as [[a|k]|] eqn:CN; simpl.
  - apply conn_to_node_registered in CN.
    destruct (zmem a (nodes _)) eqn:M; simpl.
    + pose proof (connect_single_out st0 now refuse a o) as O1.
      destruct (connect_single st0 now refuse a) as [st1 o1]; simpl in *.
      intros [H|H].
      * subst o; apply (dout_frame _ _ _ _ Q0); simpl; split; [exact CN | exists a; auto].
      * apply (dout_frame _ _ _ _ Q0). specialize (O1 H).
        destruct o; simpl in *; try tauto.
        -- destruct O1 as (H1 & H2 & [H3|[]]); subst a0.
           rewrite CN in H1; inversion H1; subst; auto.
        -- destruct O1 as (a' & [H1|[]] & H2 & H3); subst a'. rewrite CN in H2; discriminate.
    + intros [H|[]]; subst o; apply (dout_frame _ _ _ _ Q0); simpl; exact CN.
  - apply conn_to_node_registered in CN.
    intros [H|[]]; subst o; apply (dout_frame _ _ _ _ Q0); simpl; exact CN.
  - tauto.
Qed.

Lemma conn_disconnect_out : forall st now refuse c o,
  In o (snd (conn_disconnect st now refuse c)) -> dout st c o.
Proof.
  intros st now refuse c o; unfold conn_disconnect.
  destruct (is_disconnected (conn_state st c)); simpl; [tauto|].
  intro H; apply on_disconnected_out in H.
  eapply dout_frame; [apply quiet_set_disconnected | exact H].
Qed.

(* a connection that is registered nowhere is disconnected silently *)
Lemma conn_disconnect_unregistered : forall st now refuse c,
  (forall n, registered st n <> Some c) ->
  snd (conn_disconnect st now refuse c) = [] /\
  conn_state (fst (conn_disconnect st now refuse c)) c = Disconnected.
Proof.
  intros st now refuse c HU; unfold conn_disconnect.
  destruct (is_disconnected (conn_state st c)) eqn:D; simpl.
  - split; [reflexivity | apply is_disconnected_true; exact D].
  - unfold on_disconnected.
    rewrite conn_to_node_none.
    + simpl; split; [reflexivity|].
      unfold conn_state, get_conn; simpl.
      rewrite (alookup_aupdate _ _ N.eqb Neqb_eq), N.eqb_refl.
      destruct (alookup N.eqb c (conns st)); reflexivity.
    + intros n; simpl. unfold registered; simpl. apply HU.
Qed.

(* ---------- the invariant of reachable states ---------- *)
Record Inv0 (st : tstate) : Prop := {
  inv_fresh : forall c, allocated st c -> (c < next_conn st)%N;
  inv_reg : forall n c, registered st n = Some c -> bind_of st c = Some n;
  inv_ro : forall c k, bind_of st c = Some (RO k) -> (k < ro_counter st)%N;
  inv_memb : forall a c, registered st (Member a) = Some c -> zmem a (nodes st) = true
}.

(* every member this node has to dial owns a connection object (the assert of
   _connectIfNecessarySingle); broken only in the middle of a registration *)
Definition InvD (st : tstate) : Prop :=
  forall a, zmem a (nodes st) = true -> should_connect (self_addr st) a = true ->
            registered st (Member a) <> None.

Definition Inv (st : tstate) : Prop := Inv0 st /\ InvD st.

Lemma bind_allocated : forall st c n, bind_of st c = Some n -> allocated st c.
Proof. unfold bind_of, allocated; intros st c n H E; rewrite E in H; discriminate. Qed.

Lemma inv_reg_allocated : forall st n c, Inv0 st -> registered st n = Some c -> allocated st c.
Proof. intros st n c I R; eapply bind_allocated; apply (inv_reg _ I); exact R. Qed.

Lemma inv_injective : forall st n n' c, Inv0 st -> registered st n = Some c -> registered st n' = Some c -> n = n'.
Proof.
  intros st n n' c I R R'; apply (inv_reg _ I) in R; apply (inv_reg _ I) in R'; congruence.
Qed.

Lemma inv_conn_to_node : forall st n c, Inv0 st -> registered st n = Some c -> conn_to_node st c = Some n.
Proof.
  intros st n c I R. destruct (conn_to_node_some _ _ _ R) as [n' H].
  rewrite H; f_equal. apply conn_to_node_registered in H. eapply inv_injective; eassumption.
Qed.

Lemma inv_unbound_unregistered : forall st c, Inv0 st -> bind_of st c = None -> forall n, registered st n <> Some c.
Proof. intros st c I B n R; apply (inv_reg _ I) in R; congruence. Qed.

Lemma inv_init : forall self rt ut, Inv (init self rt ut).
Proof.
  intros; split; [constructor|]; simpl.
  - intros c H; exfalso; apply H; reflexivity.
  - intros n c H; discriminate.
  - intros c k H; discriminate.
  - intros a c H; discriminate.
  - intros a H; discriminate.
Qed.

Lemma inv0_quiet : forall st st', Inv0 st -> quiet_frame st st' -> Inv0 st'.
Proof.
  intros st st' I Q; constructor.
  - intros c H. rewrite (qf_next _ _ Q). apply (inv_fresh _ I). apply (qf_alloc _ _ Q); exact H.
  - intros n c H. rewrite (quiet_registered _ _ _ Q) in H. rewrite (qf_bind _ _ Q). apply (inv_reg _ I); exact H.
  - intros c k H. rewrite (qf_bind _ _ Q) in H. rewrite (qf_roc _ _ Q). apply (inv_ro _ I c); exact H.
  - intros a c H. rewrite (quiet_registered _ _ _ Q) in H. rewrite (qf_nodes _ _ Q). apply (inv_memb _ I a c); exact H.
Qed.

Lemma invd_quiet : forall st st', InvD st -> quiet_frame st st' -> InvD st'.
Proof.
  intros st st' I Q a H S. rewrite (quiet_registered _ _ _ Q). rewrite (qf_nodes _ _ Q) in H. rewrite (qf_self _ _ Q) in S.
  apply I; assumption.
Qed.

Lemma inv_quiet : forall st st', Inv st -> quiet_frame st st' -> Inv st'.
Proof. intros st st' [I0 ID] Q; split; [eapply inv0_quiet | eapply invd_quiet]; eassumption. Qed.

(* ---------- removing a key from the registry ---------- *)
Definition unreg (st : tstate) (n : node) : tstate :=
  set_connections st (aremove node_eqb n (connections st)).

Lemma registered_unreg : forall st n n', registered (unreg st n) n' = if node_eqb n' n then None else registered st n'.
Proof.
  intros st n n'; unfold unreg, registered; simpl.
  destruct (node_eqb n' n) eqn:E.
  - apply node_eqb_eq in E; subst; apply alookup_aremove_same.
  - apply node_eqb_neq in E; apply alookup_aremove_other; [exact node_eqb_eq | exact E].
Qed.

Lemma inv0_unreg : forall st n, Inv0 st -> Inv0 (unreg st n).
Proof.
  intros st n I; constructor.
  - intros c H; apply (inv_fresh _ I c); exact H.
  - intros n' c H. rewrite registered_unreg in H. destruct (node_eqb n' n); [discriminate|].
    apply (inv_reg _ I); exact H.
  - intros c k H; apply (inv_ro _ I c); exact H.
  - intros a c H. rewrite registered_unreg in H. destruct (node_eqb (Member a) n); [discriminate|].
    apply (inv_memb _ I a c); exact H.
Qed.

Lemma unreg_unregisters : forall st n c, Inv0 st -> registered st n = Some c ->
  forall n', registered (unreg st n) n' <> Some c.
Proof.
  intros st n c I R n' H. rewrite registered_unreg in H.
  destruct (node_eqb n' n) eqn:E; [discriminate|].
  apply node_eqb_neq in E; apply E. eapply inv_injective; eassumption.
Qed.

(* ---------- register: the tail of _onIncomingMessageReceived ---------- *)
(* the state just before the new connection is entered in the registry *)
Definition pre_register (st : tstate) (now : Z) (refuse : list Z) (c : N) (n : node) : tstate * list output :=
  let st0 := set_unknown st (nremove c (unknown st)) in
  match registered st0 n with
  | Some old =>
    let st' := unreg st0 n in
    if N.eqb old c then (st', [])
    else let (st2, o2) := conn_disconnect st' now refuse old in (st2, ODisconnect old :: o2)
  | None => (st0, [])
  end.

Definition enter (st : tstate) (c : N) (n : node) : tstate :=
  set_bind (set_connections st (aset node_eqb n c (connections st))) c n.

Lemma register_eq : forall st now refuse c n,
  register st now refuse c n =
  (enter (fst (pre_register st now refuse c n)) c n, snd (pre_register st now refuse c n)).
Proof.
  intros; unfold register, pre_register, enter, unreg.
  destruct (registered (set_unknown st (nremove c (unknown st))) n) as [old|]; [|reflexivity].
  destruct (N.eqb old c); [reflexivity|].
  destruct (conn_disconnect _ now refuse old); reflexivity.
Qed.

(* everything except the entry of n is framed *)
Record pre_frame (n : node) (st st' : tstate) : Prop := {
  pf_reg : forall n', registered st' n' = if node_eqb n' n then None else registered st n';
  pf_nodes : nodes st' = nodes st;
  pf_self : self_addr st' = self_addr st;
  pf_retry : retry st' = retry st;
  pf_utils : utils st' = utils st;
  pf_next : next_conn st' = next_conn st;
  pf_roc : ro_counter st' = ro_counter st;
  pf_bind : forall c, bind_of st' c = bind_of st c;
  pf_alloc : forall c, allocated st' c <-> allocated st c;
  pf_state : forall c, conn_state st' c = conn_state st c \/ conn_state st' c = Disconnected \/
                       (conn_state st' c = Connecting /\ exists a, registered st (Member a) = Some c)
}.

Lemma pre_register_frame : forall st now refuse c n,
  registered st n <> Some c ->
  pre_frame n st (fst (pre_register st now refuse c n)).
Proof.
  intros st now refuse c n Hc; unfold pre_register.
  set (st0 := set_unknown st (nremove c (unknown st))).
  assert (R0 : forall n', registered st0 n' = registered st n') by reflexivity.
  rewrite R0.
  destruct (registered st n) as [old|] eqn:R.
  - destruct (N.eqb old c) eqn:E; [apply N.eqb_eq in E; subst; congruence|].
    pose proof (conn_disconnect_quiet (unreg st0 n) now refuse old) as Q.
    destruct (conn_disconnect (unreg st0 n) now refuse old) as [st2 o2]; simpl in *.
    constructor.
    + intro n'. rewrite (quiet_registered _ _ _ Q), registered_unreg. reflexivity.
    + rewrite (qf_nodes _ _ Q); reflexivity.
    + rewrite (qf_self _ _ Q); reflexivity.
    + rewrite (qf_retry _ _ Q); reflexivity.
    + rewrite (qf_utils _ _ Q); reflexivity.
    + rewrite (qf_next _ _ Q); reflexivity.
    + rewrite (qf_roc _ _ Q); reflexivity.
    + intro x; rewrite (qf_bind _ _ Q); reflexivity.
    + intro x; rewrite (qf_alloc _ _ Q); reflexivity.
    + intro x. destruct (qf_state _ _ Q x) as [H|[H|[H [a Ha]]]].
      * left; exact H.
      * right; left; exact H.
      * right; right; split; [exact H|]. exists a. rewrite registered_unreg in Ha.
        destruct (node_eqb (Member a) n); [discriminate | exact Ha].
  - simpl. constructor; try reflexivity; try tauto.
    intro n'. rewrite R0. destruct (node_eqb n' n) eqn:E; [apply node_eqb_eq in E; subst; exact R | reflexivity].
Qed.

Lemma pre_register_inv0 : forall st now refuse c n, Inv0 st -> Inv0 (fst (pre_register st now refuse c n)).
Proof.
  intros st now refuse c n I; unfold pre_register.
  set (st0 := set_unknown st (nremove c (unknown st))).
  assert (I0 : Inv0 st0) by (eapply inv0_quiet; [exact I | apply quiet_set_unknown]).
  destruct (registered st0 n) as [old|]; [|exact I0].
  destruct (N.eqb old c); [apply inv0_unreg; exact I0|].
  pose proof (conn_disconnect_quiet (unreg st0 n) now refuse old) as Q.
  destruct (conn_disconnect (unreg st0 n) now refuse old) as [st2 o2]; simpl in *.
  eapply inv0_quiet; [apply inv0_unreg; exact I0 | exact Q].
Qed.

(* in a reachable state the superseded object is closed without any callback *)
Lemma pre_register_out : forall st now refuse c n, Inv0 st -> registered st n <> Some c ->
  (registered st n = None /\ snd (pre_register st now refuse c n) = []) \/
  (exists old, registered st n = Some old /\ old <> c /\
               snd (pre_register st now refuse c n) = [ODisconnect old] /\
               conn_state (fst (pre_register st now refuse c n)) old = Disconnected).
Proof.
  intros st now refuse c n I Hc; unfold pre_register.
  set (st0 := set_unknown st (nremove c (unknown st))).
  assert (I0 : Inv0 st0) by (eapply inv0_quiet; [exact I | apply quiet_set_unknown]).
  assert (R0 : forall n', registered st0 n' = registered st n') by reflexivity.
  rewrite R0.
  destruct (registered st n) as [old|] eqn:R; [|left; split; reflexivity].
  right; exists old. destruct (N.eqb old c) eqn:E; [apply N.eqb_eq in E; subst; congruence|].
  apply N.eqb_neq in E.
  destruct (conn_disconnect_unregistered (unreg st0 n) now refuse old) as [H1 H2].
  - apply unreg_unregisters; [exact I0 | rewrite R0; exact R].
  - destruct (conn_disconnect (unreg st0 n) now refuse old) as [st2 o2]; simpl in *.
    subst o2; auto.
Qed.

Lemma registered_enter : forall st c n n',
  registered (enter st c n) n' = if node_eqb n' n then Some c else registered st n'.
Proof.
  intros st c n n'; unfold enter, registered.
  change (connections (set_bind (set_connections st (aset node_eqb n c (connections st))) c n))
    with (aset node_eqb n c (connections st)).
  destruct (node_eqb n' n) eqn:E.
  - apply node_eqb_eq in E; subst; apply alookup_aset_same; exact node_eqb_eq.
  - apply node_eqb_neq in E. apply alookup_aset_other; [exact node_eqb_eq | exact E].
Qed.

Lemma get_conn_enter : forall st c n c',
  get_conn (enter st c n) c' =
  if N.eqb c' c then option_map (fun r => mkConn (cst r) (c_out r) (Some n)) (get_conn st c') else get_conn st c'.
Proof. intros; unfold enter; rewrite get_conn_set_bind; reflexivity. Qed.

Lemma bind_of_enter : forall st c n c', allocated st c ->
  bind_of (enter st c n) c' = if N.eqb c' c then Some n else bind_of st c'.
Proof.
  intros st c n c' A; unfold bind_of; rewrite get_conn_enter.
  destruct (N.eqb c' c) eqn:E; [|reflexivity].
  apply N.eqb_eq in E; subst c'. destruct (get_conn st c) eqn:G; [reflexivity | exfalso; apply A; exact G].
Qed.

Lemma allocated_enter : forall st c n c', allocated (enter st c n) c' <-> allocated st c'.
Proof.
  intros; unfold allocated; rewrite get_conn_enter.
  destruct (N.eqb c' c); [destruct (get_conn st c'); simpl; split; congruence | tauto].
Qed.

Lemma conn_state_enter : forall st c n c', conn_state (enter st c n) c' = conn_state st c'.
Proof.
  intros; unfold conn_state; rewrite get_conn_enter.
  destruct (N.eqb c' c); [destruct (get_conn st c'); reflexivity | reflexivity].
Qed.

(* facts about the whole registration, as seen from the state before it *)
Lemma register_registered : forall st now refuse c n n', registered st n <> Some c ->
  registered (fst (register st now refuse c n)) n' = if node_eqb n' n then Some c else registered st n'.
Proof.
  intros st now refuse c n n' Hc. rewrite register_eq; simpl. rewrite registered_enter.
  destruct (node_eqb n' n) eqn:E; [reflexivity|].
  rewrite (pf_reg _ _ _ (pre_register_frame st now refuse c n Hc)), E; reflexivity.
Qed.

Lemma register_bind : forall st now refuse c n c', registered st n <> Some c -> allocated st c ->
  bind_of (fst (register st now refuse c n)) c' = if N.eqb c' c then Some n else bind_of st c'.
Proof.
  intros st now refuse c n c' Hc A. rewrite register_eq; simpl.
  pose proof (pre_register_frame st now refuse c n Hc) as F.
  rewrite bind_of_enter by (apply (pf_alloc _ _ _ F); exact A).
  rewrite (pf_bind _ _ _ F); reflexivity.
Qed.

Lemma register_state : forall st now refuse c n c', registered st n <> Some c ->
  conn_state (fst (register st now refuse c n)) c' = conn_state st c' \/
  conn_state (fst (register st now refuse c n)) c' = Disconnected \/
  (conn_state (fst (register st now refuse c n)) c' = Connecting /\ exists a, registered st (Member a) = Some c').
Proof.
  intros st now refuse c n c' Hc. rewrite register_eq; simpl. rewrite conn_state_enter.
  apply (pf_state _ _ _ (pre_register_frame st now refuse c n Hc)).
Qed.

Lemma register_inv : forall st now refuse c n,
  Inv st -> allocated st c -> bind_of st c = None ->
  (forall k, n = RO k -> (k < ro_counter st)%N) ->
  (forall a, n = Member a -> zmem a (nodes st) = true) ->
  Inv (fst (register st now refuse c n)).
Proof.
  intros st now refuse c n [I0 ID] A B Hro Hmem.
  assert (Hc : registered st n <> Some c) by (apply inv_unbound_unregistered; assumption).
  pose proof (pre_register_frame st now refuse c n Hc) as F.
  pose proof (pre_register_inv0 st now refuse c n I0) as I1.
  assert (A1 : allocated (fst (pre_register st now refuse c n)) c) by (apply (pf_alloc _ _ _ F); exact A).
  rewrite register_eq; simpl. set (st1 := fst (pre_register st now refuse c n)) in *.
  split; [constructor|].
  - intros c' H. apply allocated_enter in H. unfold enter; simpl. apply (inv_fresh _ I1); exact H.
  - intros n' c' H. rewrite registered_enter in H. rewrite bind_of_enter by exact A1.
    destruct (node_eqb n' n) eqn:E.
    + apply node_eqb_eq in E; inversion H; subst. rewrite N.eqb_refl; reflexivity.
    + destruct (N.eqb c' c) eqn:E2.
      * apply N.eqb_eq in E2; subst c'. exfalso.
        apply (inv_unbound_unregistered _ _ I1) with (n := n') in H; [exact H|].
        rewrite (pf_bind _ _ _ F); exact B.
      * apply (inv_reg _ I1); exact H.
  - intros c' k H. rewrite bind_of_enter in H by exact A1.
    unfold enter; simpl. rewrite (pf_roc _ _ _ F).
    destruct (N.eqb c' c).
    + inversion H; subst. apply Hro; reflexivity.
    + rewrite (pf_bind _ _ _ F) in H. apply (inv_ro _ I0 c'); exact H.
  - intros a c' H. rewrite registered_enter in H. unfold enter; simpl. rewrite (pf_nodes _ _ _ F).
    destruct (node_eqb (Member a) n) eqn:E.
    + apply node_eqb_eq in E. apply Hmem; congruence.
    + rewrite (pf_reg _ _ _ F), E in H. apply (inv_memb _ I0 a c'); exact H.
  - intros a H S. rewrite registered_enter.
    destruct (node_eqb (Member a) n) eqn:E; [discriminate|].
    rewrite (pf_reg _ _ _ F), E. unfold enter in H, S; simpl in H, S.
    rewrite (pf_nodes _ _ _ F) in H; rewrite (pf_self _ _ _ F) in S. apply ID; assumption.
Qed.

(* ---------- preservation of the invariant by every event ---------- *)
Lemma inv0_frame : forall st st', Inv0 st ->
  (forall n, registered st' n = registered st n) -> nodes st' = nodes st ->
  next_conn st' = next_conn st -> ro_counter st' = ro_counter st ->
  (forall c, bind_of st' c = bind_of st c) -> (forall c, allocated st' c <-> allocated st c) ->
  Inv0 st'.
Proof.
  intros st st' I HR HN HX HC HB HA; constructor.
  - intros c H. rewrite HX. apply (inv_fresh _ I). apply HA; exact H.
  - intros n c H. rewrite HR in H. rewrite HB. apply (inv_reg _ I); exact H.
  - intros c k H. rewrite HB in H. rewrite HC. apply (inv_ro _ I c); exact H.
  - intros a c H. rewrite HR in H. rewrite HN. apply (inv_memb _ I a c); exact H.
Qed.

Lemma inv_set_cstate : forall st c s, Inv st -> Inv (set_cstate st c s).
Proof.
  intros st c s [I0 ID]; split.
  - apply (inv0_frame st); try reflexivity; try exact I0.
    + intro x; apply bind_of_set_cstate.
    + intro x; apply allocated_set_cstate.
  - exact ID.
Qed.

Lemma inv_incoming : forall st, Inv st ->
  Inv (set_unknown (alloc st (mkConn Connected false None)) (nadd (next_conn st) (unknown (alloc st (mkConn Connected false None))))).
Proof.
  intros st [I0 ID]; split; [constructor|]; simpl.
  - intros c H. unfold allocated, get_conn in H; simpl in H.
    destruct (N.eqb c (next_conn st)) eqn:E.
    + apply N.eqb_eq in E; subst; lia.
    + pose proof (inv_fresh _ I0 c H); lia.
  - intros n c H. change (registered st n = Some c) in H.
    pose proof (inv_reg _ I0 _ _ H) as B. pose proof (inv_fresh _ I0 c (bind_allocated _ _ _ B)) as L.
    unfold bind_of, get_conn; simpl.
    destruct (N.eqb c (next_conn st)) eqn:E; [apply N.eqb_eq in E; lia | exact B].
  - intros c k H. unfold bind_of, get_conn in H; simpl in H.
    destruct (N.eqb c (next_conn st)); [discriminate | apply (inv_ro _ I0 c); exact H].
  - intros a c H; apply (inv_memb _ I0 a c); exact H.
  - exact ID.
Qed.

Lemma inv_first_message : forall st now refuse c m u r, Inv st ->
  get_conn st c = Some r -> c_bind r = None ->
  Inv (fst (first_message st now refuse c m u)).
Proof.
  intros st now refuse c m u r I G B.
  assert (A : allocated st c) by (unfold allocated; congruence).
  assert (B' : bind_of st c = None) by (unfold bind_of; rewrite G; exact B).
  destruct m as [a| |cmd| |k|k]; simpl.
  - destruct (zmem a (nodes st)) eqn:M.
    + pose proof (register_inv st now refuse c (Member a) I A B') as H.
      destruct (register st now refuse c (Member a)) as [st1 o]; simpl in *.
      apply H; [intros k E; discriminate | intros a' E; inversion E; subst; exact M].
    + eapply inv_quiet; [exact I | apply reject_quiet].
  - set (st1 := set_ro_counter (set_ro_nodes st (nadd (ro_counter st) (ro_nodes st))) (N.succ (ro_counter st))).
    assert (I1 : Inv st1).
    { destruct I as [I0 ID]; split; [constructor|]; simpl.
      - apply (inv_fresh _ I0).
      - apply (inv_reg _ I0).
      - intros c' k H. pose proof (inv_ro _ I0 c' k H); lia.
      - apply (inv_memb _ I0).
      - exact ID. }
    pose proof (register_inv st1 now refuse c (RO (ro_counter st)) I1 A B') as H.
    destruct (register st1 now refuse c (RO (ro_counter st))) as [st2 o]; simpl in *.
    apply H; [intros k E; inversion E; subst; simpl; lia | intros a' E; discriminate].
  - destruct (nmem cmd (utils st)); exact I.
  - exact I.
  - exact I.
  - eapply inv_quiet; [exact I | apply reject_quiet].
Qed.

Lemma inv_add_node : forall st now refuse a, Inv st -> Inv (fst (step st (mkEv now refuse (AddNode a)))).
Proof.
  intros st now refuse a [I0 ID]; unfold step; simpl.
  destruct (should_connect (self_addr st) a) eqn:S; simpl.
  - split; [constructor|]; simpl.
    + intros c H. unfold allocated, get_conn in H; simpl in H.
      destruct (N.eqb c (next_conn st)) eqn:E.
      * apply N.eqb_eq in E; subst; lia.
      * pose proof (inv_fresh _ I0 c H); lia.
    + intros n c H. unfold registered in H; simpl in H. unfold bind_of, get_conn; simpl.
      destruct (node_eqb n (Member a)) eqn:E.
      * apply node_eqb_eq in E; subst n. inversion H; subst. rewrite N.eqb_refl; reflexivity.
      * apply node_eqb_neq in E.
        rewrite (alookup_aremove_other _ _ node_eqb node_eqb_eq) in H by exact E.
        change (registered st n = Some c) in H.
        pose proof (inv_reg _ I0 _ _ H) as B. pose proof (inv_fresh _ I0 c (bind_allocated _ _ _ B)) as L.
        destruct (N.eqb c (next_conn st)) eqn:E2; [apply N.eqb_eq in E2; lia | exact B].
    + intros c k H. unfold bind_of, get_conn in H; simpl in H.
      destruct (N.eqb c (next_conn st)); [discriminate | apply (inv_ro _ I0 c); exact H].
    + intros a' c H. rewrite zmem_zadd. unfold registered in H; simpl in H.
      destruct (a' =? a) eqn:E; [reflexivity|]. simpl.
      rewrite (alookup_aremove_other _ _ node_eqb node_eqb_eq) in H
        by (apply Z.eqb_neq in E; congruence).
      apply (inv_memb _ I0 a' c); exact H.
    + intros a' H S'; simpl in H, S'. rewrite zmem_zadd in H. unfold registered; simpl.
      destruct (a' =? a) eqn:E; [discriminate|]. simpl in H.
      rewrite (alookup_aremove_other _ _ node_eqb node_eqb_eq)
        by (apply Z.eqb_neq in E; congruence).
      apply ID; assumption.
  - split; [constructor|]; simpl.
    + apply (inv_fresh _ I0).
    + apply (inv_reg _ I0).
    + apply (inv_ro _ I0).
    + intros a' c H. rewrite zmem_zadd. rewrite (inv_memb _ I0 a' c H). apply orb_true_r.
    + intros a' H S'; simpl in H, S'. rewrite zmem_zadd in H.
      destruct (a' =? a) eqn:E; [apply Z.eqb_eq in E; subst; congruence|].
      simpl in H. apply ID; assumption.
Qed.

Lemma inv_drop_tables : forall st n, Inv st -> registered st n = None -> Inv (drop_node_tables st n).
Proof.
  intros st n [I0 ID] R; destruct n as [a|k]; simpl.
  - split; [constructor|]; simpl.
    + apply (inv_fresh _ I0).
    + apply (inv_reg _ I0).
    + apply (inv_ro _ I0).
    + intros a' c H. change (registered st (Member a') = Some c) in H. rewrite zmem_zremove.
      destruct (a' =? a) eqn:E; [apply Z.eqb_eq in E; subst; congruence|].
      simpl. apply (inv_memb _ I0 a' c); exact H.
    + intros a' H S; simpl in H, S. rewrite zmem_zremove in H. apply andb_true_iff in H; destruct H as [_ H].
      apply ID; assumption.
  - split; [constructor|]; simpl.
    + apply (inv_fresh _ I0).
    + apply (inv_reg _ I0).
    + apply (inv_ro _ I0).
    + apply (inv_memb _ I0).
    + exact ID.
Qed.

Lemma invd_unreg_member_gone : forall st n st', Inv st -> quiet_frame (unreg st n) st' ->
  Inv0 st' /\ registered st' n = None /\
  (forall a, zmem a (nodes st') = true -> should_connect (self_addr st') a = true -> Member a <> n ->
             registered st' (Member a) <> None).
Proof.
  intros st n st' [I0 ID] Q; split; [|split].
  - eapply inv0_quiet; [apply inv0_unreg; exact I0 | exact Q].
  - rewrite (quiet_registered _ _ _ Q), registered_unreg, node_eqb_refl; reflexivity.
  - intros a H S NE. rewrite (quiet_registered _ _ _ Q), registered_unreg.
    apply node_eqb_neq in NE; rewrite NE.
    rewrite (qf_nodes _ _ Q) in H; rewrite (qf_self _ _ Q) in S. apply ID; assumption.
Qed.

Lemma inv_drop_node : forall st now refuse n, Inv st -> Inv (fst (step st (mkEv now refuse (DropNode n)))).
Proof.
  intros st now refuse n I; unfold step; simpl.
  destruct (registered st n) as [c|] eqn:R.
  - fold (unreg st n).
    pose proof (conn_disconnect_quiet (unreg st n) now refuse c) as Q.
    destruct (conn_disconnect (unreg st n) now refuse c) as [st2 o]; simpl in *.
    destruct (invd_unreg_member_gone st n st2 I Q) as (I2 & RN & D2).
    destruct n as [a|k]; simpl.
    + split; [constructor|]; simpl.
      * apply (inv_fresh _ I2).
      * apply (inv_reg _ I2).
      * apply (inv_ro _ I2).
      * intros a' c' H. change (registered st2 (Member a') = Some c') in H. rewrite zmem_zremove.
        destruct (a' =? a) eqn:E; [apply Z.eqb_eq in E; subst; congruence|].
        simpl. apply (inv_memb _ I2 a' c'); exact H.
      * intros a' H S; simpl in H, S. rewrite zmem_zremove in H. apply andb_true_iff in H; destruct H as [NE H].
        apply D2; try assumption. apply negb_true_iff, Z.eqb_neq in NE. congruence.
    + split; [constructor|]; simpl.
      * apply (inv_fresh _ I2).
      * apply (inv_reg _ I2).
      * apply (inv_ro _ I2).
      * apply (inv_memb _ I2).
      * intros a' H S; simpl in H, S. apply D2; try assumption. discriminate.
  - simpl. apply inv_drop_tables; assumption.
Qed.

Lemma step_inv : forall st e, Inv st -> Inv (fst (step st e)).
Proof.
  intros st [now refuse act] I; destruct act as [|c| |c m u|c|a|n|n m f|c].
  - unfold step; simpl. eapply inv_quiet; [exact I | apply connect_all_quiet].
  - unfold step; simpl. destruct (get_conn st c) as [r|]; [|exact I].
    destruct (cst r); simpl; try exact I. apply inv_set_cstate; exact I.
  - unfold step; simpl. apply inv_incoming; exact I.
  - unfold step; simpl. destruct (get_conn st c) as [r|] eqn:G; [|exact I].
    destruct (cst r); simpl; try exact I.
    destruct (c_bind r) eqn:B; [exact I|].
    eapply inv_first_message; eassumption.
  - unfold step; simpl. eapply inv_quiet; [exact I | apply conn_disconnect_quiet].
  - apply inv_add_node; exact I.
  - apply inv_drop_node; exact I.
  - unfold step; simpl. destruct (registered st n) as [c|]; [|exact I].
    destruct (is_connected (conn_state st c)); [|exact I].
    destruct f.
    + pose proof (conn_disconnect_quiet st now refuse c) as Q.
      destruct (conn_disconnect st now refuse c) as [st1 o1]; simpl in *.
      eapply inv_quiet; eassumption.
    + exact I.
  - unfold step; simpl. destruct (get_conn st c); exact I.
Qed.

Inductive reachable : tstate -> Prop :=
| reach_init : forall self rt ut, reachable (init self rt ut)
| reach_step : forall st e, reachable st -> reachable (fst (step st e)).

Lemma reachable_inv : forall st, reachable st -> Inv st.
Proof. induction 1; [apply inv_init | apply step_inv; assumption]. Qed.

Lemma run_state_cons : forall st e r, run_state st (e :: r) = run_state (fst (step st e)) r.
Proof.
  intros st e r; unfold run_state; simpl.
  destruct (step st e) as [st1 o]; simpl. destruct (run st1 r); reflexivity.
Qed.

Lemma reachable_run : forall es st, reachable st -> reachable (run_state st es).
Proof.
  induction es as [|e r IH]; intros st H; [exact H|].
  rewrite run_state_cons. apply IH. apply reach_step; exact H.
Qed.

Lemma run_reachable : forall self rt ut es, reachable (run_state (init self rt ut) es).
Proof. intros; apply reachable_run; apply reach_init. Qed.
