(* Queue/ProofsB.v -- layer B: callers' phases, callbacks, AsyncResult cells, outcomes. *)
From Coq Require Import NArith List Bool Lia.
From PSO Require Import Queue.Model Queue.ProofsA.
Import ListNotations.
Local Open Scope N_scope.

Lemma upd_same {A} (f : N -> A) k v : upd f k v k = v.
Proof. unfold upd. rewrite N.eqb_refl. reflexivity. Qed.

Lemma upd_other {A} (f : N -> A) k v x : x <> k -> upd f k v x = f x.
Proof. intro H. unfold upd. apply N.eqb_neq in H. rewrite H. reflexivity. Qed.

Lemma NoDup_map_inj {A B} (f : A -> B) l x y :
  NoDup (map f l) -> In x l -> In y l -> f x = f y -> x = y.
Proof.
  induction l as [|z l IH]; simpl; intros Hnd Hx Hy E; [contradiction|].
  inversion Hnd as [|? ? Hz Hl]; subst.
  destruct Hx as [Hx|Hx], Hy as [Hy|Hy]; subst; auto.
  - exfalso. apply Hz. rewrite E. apply in_map. assumption.
  - exfalso. apply Hz. rewrite <- E. apply in_map. assumption.
Qed.

Lemma puts_snoc_true l c :
  map fst (filter snd (l ++ [(c, true)])) = map fst (filter (@snd cmd bool) l) ++ [c].
Proof. rewrite filter_snoc. simpl. rewrite map_app. reflexivity. Qed.

Lemma puts_snoc_false l c :
  map fst (filter snd (l ++ [(c, false)])) = map fst (filter (@snd cmd bool) l).
Proof. rewrite filter_snoc. reflexivity. Qed.

Lemma rej_snoc_true l c :
  map fst (filter (fun x : cmd * bool => negb (snd x)) (l ++ [(c, true)]))
  = map fst (filter (fun x : cmd * bool => negb (snd x)) l).
Proof. rewrite filter_snoc. reflexivity. Qed.

Lemma rej_snoc_false l c :
  map fst (filter (fun x : cmd * bool => negb (snd x)) (l ++ [(c, false)]))
  = map fst (filter (fun x : cmd * bool => negb (snd x)) l) ++ [c].
Proof. rewrite filter_snoc. simpl. rewrite map_app. reflexivity. Qed.

Lemma read_cell_outcome_of x (r : res) :
  c_result x = fst r -> c_error x = Some (snd r) -> read_cell x = outcome_of r.
Proof.
  intros H1 H2. unfold read_cell, outcome_of. rewrite H1, H2. destruct (snd r); reflexivity.
Qed.

Section B.
  Variable St : Type.
  Variable complete : cmd -> St -> St * res.
  Variable maxSize : N.
  Variable u0 : St.

  Notation state := (state St).
  Notation step := (step St complete maxSize).
  Notation run := (run St complete maxSize).
  Notation invA := (invA St complete maxSize u0).

  Definition cb_ids (s : state) : list N := map (fun x => cid (fst x)) (cbs s).
  Definition out_ids (s : state) : list N := map (fun x => cid (snd (fst x))) (outcomes s).
  Definition attempted (s : state) (c : cmd) : Prop := In c (puts s) \/ In c (rejected s).

  Record invB (s : state) : Prop := {
    b_cb_src : forall c r, In (c, r) (cbs s) ->
               kind c <> KNone /\ ((In c (rejected s) /\ r = full_res) \/ In (c, r) (done s));
    b_cb_nd : NoDup (cb_ids s);
    b_done_cb : forall c r, In (c, r) (done s) -> kind c <> KNone -> In (c, r) (cbs s);
    b_rej_cb : forall c, In c (rejected s) -> kind c <> KNone ->
               In (c, full_res) (cbs s) \/ ph (callers s (owner c)) = PFull c;
    b_full : forall i c, ph (callers s i) = PFull c ->
             In c (rejected s) /\ owner c = i /\ ~ In (cid c) (cb_ids s) /\ ~ In (cid c) (out_ids s);
    b_wait : forall i c, ph (callers s i) = PWait c ->
             owner c = i /\ kind c = KSync /\
             (In c (puts s) \/ (In c (rejected s) /\ In (c, full_res) (cbs s))) /\
             ~ In (cid c) (out_ids s);
    k_flag : forall k, c_flag (cells s k) = true ->
             exists c r, cid c = k /\ In (c, r) (cbs s) /\
                         c_result (cells s k) = fst r /\ c_error (cells s k) = Some (snd r);
    k_pc : forall c r st, tick_pc s = Some (c, r, st) ->
           kind c = KSync /\ In (c, r) (done s) /\ c_flag (cells s (cid c)) = false /\
           (1 <= st -> c_result (cells s (cid c)) = fst r) /\
           (2 <= st -> c_error (cells s (cid c)) = Some (snd r));
    o_src : forall i c o, In (i, c, o) (outcomes s) ->
            owner c = i /\ kind c = KSync /\ attempted s c /\
            (o = OTimeout \/ exists r, In (c, r) (cbs s) /\ o = outcome_of r);
    o_nd : NoDup (out_ids s);
    o_lt : forall k, In k (out_ids s) -> k < next_id s
  }.

  Lemma invB_init progs : invB (init St progs u0).
  Proof.
    constructor; simpl; try (intros; contradiction); try constructor; try discriminate; auto.
  Qed.

  (* ---- facts derived from A and B ---- *)
  Lemma attempted_inj s c c' :
    invA s -> attempted s c -> attempted s c' -> cid c = cid c' -> c = c'.
  Proof.
    intros IA Hc Hc' E.
    assert (H : forall d, attempted s d -> exists b, In (d, b) (attempts s)).
    { intros d [Hd|Hd]; unfold puts, rejected in Hd; rewrite in_map_iff in Hd;
        destruct Hd as [[y b] [Hy1 Hy2]]; simpl in Hy1; subst; apply filter_In in Hy2; exists b; tauto. }
    destruct (H _ Hc) as [b Hb]. destruct (H _ Hc') as [b' Hb'].
    pose proof (a_nd _ _ _ _ s IA) as Hnd. unfold att_ids in Hnd.
    assert (X : (c, b) = (c', b')).
    { eapply (NoDup_map_inj (fun x : cmd * bool => cid (fst x))); eauto. }
    inversion X; reflexivity.
  Qed.

  Lemma attempted_lt s c : invA s -> attempted s c -> cid c < next_id s.
  Proof.
    intros IA [H|H]; [eapply in_puts_lt|eapply in_rejected_lt]; eassumption.
  Qed.

  Lemma cb_attempted s c r : invA s -> invB s -> In (c, r) (cbs s) -> attempted s c.
  Proof.
    intros IA IB H. destruct (b_cb_src s IB c r H) as [_ [[Hr _]|Hd]].
    - right; assumption.
    - left. eapply in_deq_in_puts; [eassumption|]. eapply in_done_in_deq; eassumption.
  Qed.

  Lemma cb_ids_lt s k : invA s -> invB s -> In k (cb_ids s) -> k < next_id s.
  Proof.
    intros IA IB H. unfold cb_ids in H. rewrite in_map_iff in H. destruct H as [[c r] [E Hin]].
    simpl in E; subst. eapply attempted_lt; [eassumption|]. eapply cb_attempted; eassumption.
  Qed.

  Lemma pending_not_in_cbs s c :
    invA s -> invB s -> In c (pending s) -> ~ In (cid c) (cb_ids s).
  Proof.
    intros IA IB Hp Hin. unfold cb_ids in Hin. rewrite in_map_iff in Hin.
    destruct Hin as [[c' r'] [E Hin]]. simpl in E.
    assert (Hput : In c (puts s)).
    { eapply in_deq_in_puts; [eassumption|]. eapply in_pending_in_deq; eassumption. }
    destruct (b_cb_src s IB c' r' Hin) as [_ [[Hr _]|Hd]].
    - eapply accepted_rejected_disjoint; eauto.
    - pose proof (deq_ids_nodup _ _ _ _ s IA) as Hnd.
      rewrite <- (a_disp _ _ _ _ s IA), map_app in Hnd.
      eapply (NoDup_app_disj _ _ (cid c) Hnd).
      + rewrite <- E. apply in_map. rewrite in_map_iff. exists (c', r'). tauto.
      + apply in_map. assumption.
  Qed.

  Lemma done_rejected_cid s c r d :
    invA s -> In (c, r) (done s) -> In d (rejected s) -> cid c <> cid d.
  Proof.
    intros IA Hd Hr. eapply accepted_rejected_disjoint; eauto.
    eapply in_deq_in_puts; [eassumption|]. eapply in_done_in_deq; eassumption.
  Qed.

End B.
