(* Queue/ProofsDrain.v -- nothing gets stuck: from every state the tick thread alone can finish the
   running callback, dequeue everything and complete everything. *)
From Coq Require Import NArith List Bool Lia.
From PSO Require Import Queue.Model Queue.ProofsA Queue.ProofsB Queue.ProofsC Queue.ProofsMain.
Import ListNotations.
Local Open Scope N_scope.

Section Drain.
  Variable St : Type.
  Variable complete : cmd -> St -> St * res.
  Variable maxSize : N.

  Notation state := (state St).
  Notation run := (run St complete maxSize).
  Notation step := (step St complete maxSize).

  Lemma run_app s a b : run s (a ++ b) = run (run s a) b.
  Proof. unfold Model.run. apply fold_left_app. Qed.

  (* what a tick-only continuation keeps *)
  Definition keeps (s s' : state) : Prop :=
    attempts s' = attempts s /\ (forall i, callers s' i = callers s i).

  Lemma keeps_refl s : keeps s s.
  Proof. split; auto. Qed.

  Lemma keeps_trans s1 s2 s3 : keeps s1 s2 -> keeps s2 s3 -> keeps s1 s3.
  Proof. intros [A1 B1] [A2 B2]. split; [congruence|]. intro i. rewrite B2. apply B1. Qed.

  Lemma finish_pc s :
    exists sch, let s' := run s sch in
      tick_pc s' = None /\ queue s' = queue s /\ pending s' = pending s /\ keeps s s'.
  Proof.
    destruct (tick_pc s) as [[[c r] st]|] eqn:Hpc.
    - destruct st as [|[p|p|]].
      + exists [ATickApply; ATickApply; ATickApply]. unfold Model.run. simpl. rewrite Hpc. simpl.
        repeat split.
      + exists [ATickApply]. unfold Model.run. simpl. rewrite Hpc. simpl. repeat split.
      + exists [ATickApply]. unfold Model.run. simpl. rewrite Hpc. simpl. repeat split.
      + exists [ATickApply; ATickApply]. unfold Model.run. simpl. rewrite Hpc. simpl. repeat split.
    - exists []. simpl. repeat split. assumption.
  Qed.

  Lemma get_all n : forall s, length (queue s) = n -> tick_pc s = None ->
    exists sch, let s' := run s sch in
      queue s' = [] /\ tick_pc s' = None /\ keeps s s'.
  Proof.
    induction n as [|n IH]; intros s Hlen Hpc.
    - exists []. simpl. destruct (queue s); [|discriminate]. repeat split; assumption.
    - destruct (queue s) as [|c q] eqn:Hq; [discriminate|].
      assert (Hs1 : step s ATickGet =
                    mkState St (callers s) (next_id s) q (pending s ++ [c]) (ust s) None (cells s)
                            (attempts s) (deq s ++ [c]) (done s) (cbs s) (outcomes s)).
      { simpl. rewrite Hpc. unfold get_step. rewrite Hq, ?Hpc. reflexivity. }
      destruct (IH (step s ATickGet)) as [sch (H1 & H2 & H3)].
      + rewrite Hs1. simpl. simpl in Hlen. lia.
      + rewrite Hs1. reflexivity.
      + exists (ATickGet :: sch). cbv zeta.
        change (run s (ATickGet :: sch)) with (run (step s ATickGet) sch). split; [assumption|split; [assumption|]].
        eapply keeps_trans; [|exact H3]. rewrite Hs1. split; reflexivity.
  Qed.

  Lemma apply_all n : forall s, length (pending s) = n -> tick_pc s = None ->
    exists sch, let s' := run s sch in
      pending s' = [] /\ tick_pc s' = None /\ queue s' = queue s /\ keeps s s'.
  Proof.
    induction n as [|n IH]; intros s Hlen Hpc.
    - exists []. simpl. destruct (pending s); [|discriminate]. repeat split; assumption.
    - destruct (pending s) as [|c p] eqn:Hp; [discriminate|].
      destruct (complete c (ust s)) as [u' r] eqn:Hc.
      assert (Hs1 : pending (step s ATickApply) = p /\ queue (step s ATickApply) = queue s /\
                    keeps s (step s ATickApply)).
      { simpl. rewrite Hpc. unfold apply_step. rewrite Hp, Hc. simpl. repeat split. }
      destruct Hs1 as (P1 & P2 & P3).
      destruct (finish_pc (step s ATickApply)) as [sch1 (Q1 & Q2 & Q3 & Q4)].
      destruct (IH (run (step s ATickApply) sch1)) as [sch2 (R1 & R2 & R3 & R4)].
      + rewrite Q3, P1. simpl in Hlen. lia.
      + assumption.
      + exists (ATickApply :: sch1 ++ sch2). cbv zeta.
        replace (run s (ATickApply :: sch1 ++ sch2)) with (run (run (step s ATickApply) sch1) sch2)
          by (rewrite <- run_app; reflexivity).
        split; [assumption|split; [assumption|split]].
        * rewrite R3, Q2, P2. reflexivity.
        * eapply keeps_trans; [exact P3|]. eapply keeps_trans; [exact Q4|exact R4].
  Qed.

  Lemma drain s :
    exists sch, let s' := run s sch in
      queue s' = [] /\ pending s' = [] /\ tick_pc s' = None /\ keeps s s'.
  Proof.
    destruct (finish_pc s) as [sch1 (Q1 & Q2 & Q3 & Q4)].
    destruct (get_all _ (run s sch1) eq_refl Q1) as [sch2 (G1 & G2 & G3)].
    destruct (apply_all _ (run (run s sch1) sch2) eq_refl G2) as [sch3 (A1 & A2 & A3 & A4)].
    exists (sch1 ++ sch2 ++ sch3). simpl. rewrite !run_app.
    split; [rewrite A3; assumption|split; [assumption|split; [assumption|]]].
    eapply keeps_trans; [exact Q4|]. eapply keeps_trans; [exact G3|exact A4].
  Qed.

  (* every accepted command can still be completed, and then it has been completed exactly once,
     in the order of the accepted puts *)
  Lemma accepted_completes progs u0 sched :
    exists more,
      let s := reach St complete maxSize progs u0 sched in
      let s' := reach St complete maxSize progs u0 (sched ++ more) in
      queue s' = [] /\ pending s' = [] /\ puts s' = puts s /\
      map fst (done s') = puts s /\ NoDup (map cid (map fst (done s'))).
  Proof.
    destruct (drain (reach St complete maxSize progs u0 sched)) as [more (D1 & D2 & D3 & D4 & D5)].
    exists more. simpl. unfold reach in *. rewrite run_app.
    set (s := Model.run St complete maxSize (init St progs u0) sched) in *.
    set (s' := run s more) in *.
    assert (IA : invA St complete maxSize u0 s').
    { unfold s', s. rewrite <- run_app. apply (reach_inv St complete maxSize progs u0 (sched ++ more)). }
    assert (Hp : puts s' = puts s) by (unfold puts; rewrite D4; reflexivity).
    split; [assumption|split; [assumption|split; [assumption|split]]].
    - pose proof (a_fifo _ _ _ _ _ IA) as Hf. pose proof (a_disp _ _ _ _ _ IA) as Hd.
      rewrite D1, app_nil_r in Hf. rewrite D2, app_nil_r in Hd. congruence.
    - exact (done_ids_nodup _ _ _ _ _ IA).
  Qed.
End Drain.
