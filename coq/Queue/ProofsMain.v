(* Queue/ProofsMain.v -- the C19 statements over all schedules, thread programs and queue limits,
   and the non-vacuity examples. *)
From Coq Require Import NArith List Bool Lia Permutation.
From PSO Require Import Queue.Model Queue.ProofsA Queue.ProofsB Queue.ProofsC.
Import ListNotations.
Local Open Scope N_scope.

Lemma count_le_1 {A} (f : A -> N) (k : N) (l : list A) :
  NoDup (map f l) -> (length (filter (fun x => N.eqb (f x) k) l) <= 1)%nat.
Proof.
  induction l as [|x l IH]; simpl; intro H; [lia|].
  inversion H as [|? ? Hx Hl]; subst. destruct (N.eqb (f x) k) eqn:E; [|auto].
  simpl. apply N.eqb_eq in E.
  assert (Z : filter (fun y => N.eqb (f y) k) l = []).
  { destruct (filter (fun y => N.eqb (f y) k) l) as [|y t] eqn:Hf; [reflexivity|exfalso].
    assert (Hy : In y (filter (fun y => N.eqb (f y) k) l)) by (rewrite Hf; left; reflexivity).
    apply filter_In in Hy. destruct Hy as [Hy1 Hy2]. apply N.eqb_eq in Hy2.
    apply Hx. rewrite E, <- Hy2. apply in_map. assumption. }
  rewrite Z. simpl. lia.
Qed.

Lemma count_ge_1 {A} (f : A -> N) (k : N) (l : list A) x :
  In x l -> f x = k -> (1 <= length (filter (fun x => N.eqb (f x) k) l))%nat.
Proof.
  intros Hin E.
  assert (H : In x (filter (fun y => N.eqb (f y) k) l)).
  { apply filter_In. split; [assumption|]. apply N.eqb_eq. assumption. }
  destruct (filter (fun y => N.eqb (f y) k) l); [contradiction|simpl; lia].
Qed.

Section Main.
  Variable St : Type.
  Variable complete : cmd -> St -> St * res.

  (* the state reached from the initial state by a schedule *)
  Definition reach (maxSize : N) (progs : N -> list call) (u0 : St) (sched : list action) : state St :=
    run St complete maxSize (init St progs u0) sched.

  Lemma reach_inv maxSize progs u0 sched :
    invA St complete maxSize u0 (reach maxSize progs u0 sched) /\
    invB St (reach maxSize progs u0 sched).
  Proof.
    unfold reach. apply inv_run; [apply invA_init|apply invB_init].
  Qed.

  (* ---- FIFO ---- *)
  Lemma fifo maxSize progs u0 sched :
    let s := reach maxSize progs u0 sched in
    deq s ++ queue s = map fst (filter snd (attempts s)).
  Proof.
    intro s. destruct (reach_inv maxSize progs u0 sched) as [IA _]. exact (a_fifo _ _ _ _ _ IA).
  Qed.

  (* ---- no loss, no duplication ---- *)
  Lemma no_loss_no_dup maxSize progs u0 sched :
    let s := reach maxSize progs u0 sched in
    Permutation (deq s ++ queue s) (puts s) /\
    NoDup (map cid (puts s)) /\ NoDup (deq s ++ queue s) /\ NoDup (deq s).
  Proof.
    intro s. destruct (reach_inv maxSize progs u0 sched) as [IA _]. fold s in IA.
    pose proof (a_fifo _ _ _ _ _ IA) as Hf. pose proof (puts_ids_nodup _ _ _ _ _ IA) as Hnd.
    assert (Hp : NoDup (puts s)) by (eapply NoDup_map_inv; eassumption).
    split; [rewrite Hf; apply Permutation_refl|]. split; [assumption|].
    split; [rewrite Hf; assumption|]. rewrite <- Hf in Hp. eapply NoDup_app_l; eassumption.
  Qed.

  (* ---- dispatcher: every dequeued command is pending or completed, completed exactly once,
          in dequeue order, with the results of the sequential execution ---- *)
  Lemma completed_once_in_order maxSize progs u0 sched :
    let s := reach maxSize progs u0 sched in
    map fst (done s) ++ pending s = deq s /\
    NoDup (map cid (map fst (done s))) /\
    exec St complete u0 (map fst (done s)) = (done s, ust s).
  Proof.
    intro s. destruct (reach_inv maxSize progs u0 sched) as [IA _]. fold s in IA.
    split; [exact (a_disp _ _ _ _ _ IA)|]. split; [exact (done_ids_nodup _ _ _ _ _ IA)|].
    exact (a_exec _ _ _ _ _ IA).
  Qed.

  (* ---- Queue.Full ---- *)
  Lemma full_reported_never_dequeued maxSize progs u0 sched :
    let s := reach maxSize progs u0 sched in
    forall c, In c (rejected s) ->
      ~ In (cid c) (map cid (deq s ++ queue s)) /\
      (forall r, In (c, r) (cbs s) -> r = full_res) /\
      (cb_count (cid c) (cbs s) <= 1)%nat /\
      (kind c <> KNone -> ph (callers s (owner c)) <> PFull c -> cb_count (cid c) (cbs s) = 1%nat) /\
      (kind c = KNone -> cb_count (cid c) (cbs s) = 0%nat).
  Proof.
    intros s c Hr. destruct (reach_inv maxSize progs u0 sched) as [IA IB]. fold s in IA, IB.
    assert (Hle : (cb_count (cid c) (cbs s) <= 1)%nat).
    { unfold cb_count. apply (count_le_1 (fun x : cmd * res => cid (fst x))). exact (b_cb_nd _ _ IB). }
    split; [|split; [|split; [assumption|split]]].
    - rewrite (a_fifo _ _ _ _ _ IA). intro Hin. rewrite in_map_iff in Hin.
      destruct Hin as [d [E Hd]]. eapply (accepted_rejected_disjoint _ _ _ _ s d c); eassumption.
    - intros r Hin. destruct (b_cb_src _ _ IB _ _ Hin) as [_ [[_ E]|Hd]]; [assumption|exfalso].
      eapply (done_rejected_cid _ _ _ _ s c r c); try eassumption. reflexivity.
    - intros Hk Hph. destruct (b_rej_cb _ _ IB _ Hr Hk) as [Hin|Hin]; [|contradiction].
      pose proof (count_ge_1 (fun x : cmd * res => cid (fst x)) (cid c) (cbs s) _ Hin eq_refl) as Hge.
      unfold cb_count in *. lia.
    - intros Hk. unfold cb_count.
      destruct (filter (fun x : cmd * res => N.eqb (cid (fst x)) (cid c)) (cbs s)) as [|[d r] t] eqn:Hf;
        [reflexivity|exfalso].
      assert (Hin : In (d, r) (filter (fun x : cmd * res => N.eqb (cid (fst x)) (cid c)) (cbs s)))
        by (rewrite Hf; left; reflexivity).
      apply filter_In in Hin. destruct Hin as [Hin E]. simpl in E. apply N.eqb_eq in E.
      assert (d = c).
      { eapply (attempted_inj _ _ _ _ s); try eassumption.
        - eapply cb_attempted; eassumption.
        - right; assumption. }
      subst d. destruct (b_cb_src _ _ IB _ _ Hin) as [Hk' _]. contradiction.
  Qed.

  (* ---- callbacks: at most once for every call, exactly once for a completed one ---- *)
  Lemma callback_once maxSize progs u0 sched :
    let s := reach maxSize progs u0 sched in
    NoDup (map (fun x => cid (fst x)) (cbs s)) /\
    (forall k, (cb_count k (cbs s) <= 1)%nat) /\
    (forall c r, In (c, r) (cbs s) ->
       kind c <> KNone /\ ((In c (rejected s) /\ r = full_res) \/ In (c, r) (done s))) /\
    (forall c r, In (c, r) (done s) -> kind c <> KNone ->
       In (c, r) (cbs s) /\ cb_count (cid c) (cbs s) = 1%nat).
  Proof.
    intro s. destruct (reach_inv maxSize progs u0 sched) as [IA IB]. fold s in IA, IB.
    assert (Hle : forall k, (cb_count k (cbs s) <= 1)%nat).
    { intro k. unfold cb_count. apply (count_le_1 (fun x : cmd * res => cid (fst x))). exact (b_cb_nd _ _ IB). }
    split; [exact (b_cb_nd _ _ IB)|]. split; [assumption|]. split; [exact (b_cb_src _ _ IB)|].
    intros c r Hd Hk. pose proof (b_done_cb _ _ IB _ _ Hd Hk) as Hin. split; [assumption|].
    pose proof (count_ge_1 (fun x : cmd * res => cid (fst x)) (cid c) (cbs s) _ Hin eq_refl) as Hge.
    specialize (Hle (cid c)). unfold cb_count in *. lia.
  Qed.

  (* ---- sync callers ---- *)
  (* an AsyncResult whose event is set was set by the callback of its own call, and holds that
     callback's arguments *)
  Lemma woken_by_own_callback maxSize progs u0 sched :
    let s := reach maxSize progs u0 sched in
    forall k, c_flag (cells s k) = true ->
      exists c r, cid c = k /\ In (c, r) (cbs s) /\
                  c_result (cells s k) = fst r /\ c_error (cells s k) = Some (snd r).
  Proof.
    intros s. destruct (reach_inv maxSize progs u0 sched) as [_ IB]. exact (k_flag _ _ IB).
  Qed.

  Lemma sync_own_result maxSize progs u0 sched :
    let s := reach maxSize progs u0 sched in
    NoDup (map (fun x => cid (snd (fst x))) (outcomes s)) /\
    forall i c o, In (i, c, o) (outcomes s) ->
      owner c = i /\ kind c = KSync /\
      (o = OTimeout \/
       (In c (rejected s) /\ o = ORaise (Some QUEUE_FULL)) \/
       (exists r, In (c, r) (done s) /\ o = outcome_of r)).
  Proof.
    intro s. destruct (reach_inv maxSize progs u0 sched) as [IA IB]. fold s in IA, IB.
    split; [exact (o_nd _ _ IB)|]. intros i c o Hin.
    destruct (o_src _ _ IB _ _ _ Hin) as (H1 & H2 & _ & H4).
    split; [assumption|split; [assumption|]].
    destruct H4 as [H4|[r [H4 H5]]]; [left; assumption|right].
    destruct (b_cb_src _ _ IB _ _ H4) as [_ [[Hr E]|Hd]].
    - left. split; [assumption|]. subst. reflexivity.
    - right. exists r. split; assumption.
  Qed.

  (* ---- capacity ---- *)
  Lemma capacity maxSize progs u0 sched :
    N.of_nat (length (queue (reach maxSize progs u0 sched))) <= maxSize + 1.
  Proof.
    destruct (reach_inv maxSize progs u0 sched) as [IA _]. exact (a_cap _ _ _ _ _ IA).
  Qed.

End Main.

(* ------------------------------------------------------------------------------------------ *)
(* Non-vacuity: concrete interleavings of three caller threads and the tick thread, queue limit 1
   (so the queue holds up to 2 entries).  Instance: Model.complete_list. *)

Definition ex_progs : N -> list call :=
  table_progs [(0, [(10, KSync); (11, KSync)]); (1, [(20, KAsync); (21, KAsync)]); (2, [(30, KSync); (31, KNone)])].

Definition ex_reach := reach ust_t complete_list 1 ex_progs [].

(* threads 0,1,2 each put once: the third put finds len(queue) = 2 > maxSize = 1 *)
Definition ex_sched1 : list action := [ACaller 0; ACaller 1; ACaller 2].

(* the off-by-one of FastQueue.put_nowait: with commandsQueueSize = 1 the queue holds 2 entries *)
Example capacity_reached : length (queue (ex_reach ex_sched1)) = 2%nat.
Proof. vm_compute. reflexivity. Qed.

Example third_put_rejected :
  map cid (rejected (ex_reach ex_sched1)) = [2] /\ map cid (puts (ex_reach ex_sched1)) = [0; 1].
Proof. vm_compute. split; reflexivity. Qed.

(* a longer interleaving: rejected sync call raises QUEUE_FULL, thread 0's sync call returns the
   result of its own command (10 + 1000*0), thread 1's callbacks fire once each, thread 0's second
   call times out and its command is applied afterwards *)
Definition ex_sched2 : list action :=
  ex_sched1 ++
  [ACaller 2 (* QUEUE_FULL callback = onResult on own thread *);
   ATickGet; ACaller 1 (* second async put, interleaved with the tick thread *);
   ACaller 2 (* wait returns: raise QUEUE_FULL *);
   ATickGet; ATickApply (* completes cid 0, starts onResult *);
   ACaller 0 (* still blocked: event not set *);
   ATickApply; ATickGet (* result, error written *);
   ACaller 0 (* still blocked *);
   ATickApply (* event.set *);
   ACaller 0 (* returns 10 *);
   ATickApply (* completes cid 1: user callback *);
   ACaller 0 (* second sync put *); ATimeout 0 (* 'Timeout' *);
   ATickGet; ACaller 2 (* fire-and-forget put, accepted: one slot was freed *);
   ATickGet; ATickGet; ATickApply; ATickApply; ATickApply; ATickApply; ATickApply; ATickApply].

Example interleaved_outcomes :
  map (fun x => (fst (fst x), cid (snd (fst x)), snd x)) (outcomes (ex_reach ex_sched2))
  = [(2, 2, ORaise (Some 1)); (0, 0, OReturn (Some 10)); (0, 4, OTimeout)].
Proof. vm_compute. reflexivity. Qed.

Example interleaved_callbacks :
  map (fun x => (cid (fst x), snd x)) (cbs (ex_reach ex_sched2))
  = [(2, (None, 1)); (0, (Some 10, 0)); (1, (Some 1020, 0)); (3, (Some 2021, 0)); (4, (Some 3011, 0))].
Proof. vm_compute. reflexivity. Qed.

Example interleaved_applied :
  ust (ex_reach ex_sched2) = [10; 20; 21; 11; 31] /\
  map cid (deq (ex_reach ex_sched2)) = [0; 1; 3; 4; 5] /\
  queue (ex_reach ex_sched2) = [] /\ pending (ex_reach ex_sched2) = [].
Proof. vm_compute. repeat split; reflexivity. Qed.

(* a blocked waiter really is blocked: before event.set the ACaller step changes nothing *)
Example blocked_until_set :
  let s := ex_reach (ex_sched1 ++ [ACaller 2; ATickGet; ACaller 1; ACaller 2; ATickGet; ATickApply; ATickApply; ATickGet]) in
  c_flag (cells s 0) = false /\ c_result (cells s 0) = Some 10 /\ c_error (cells s 0) = Some 0 /\
  outcomes (step ust_t complete_list 1 s (ACaller 0)) = outcomes s.
Proof. vm_compute. repeat split; reflexivity. Qed.

Example monitor_ok_example : monitor_ok 1 (ex_reach ex_sched2) = true.
Proof. vm_compute. reflexivity. Qed.

(* the hypotheses of C19_woken_by_own_callback / C19_full_reported_never_dequeued are satisfiable:
   events do get set (call 0 by the tick thread, the rejected call 2 by its own thread), and the
   rejected call's owner has left PFull with exactly one QUEUE_FULL callback *)
Example flags_set_example :
  let s := ex_reach ex_sched2 in
  c_flag (cells s 0) = true /\ c_flag (cells s 2) = true /\ c_flag (cells s 4) = true /\
  cb_count 2 (cbs s) = 1%nat /\ ph (callers s 2) = PIdle /\
  map kind (rejected s) = [KSync].
Proof. vm_compute. repeat split; reflexivity. Qed.
