(* Queue/Model.v -- FastQueue + SyncObj._applyCommand + AsyncResult + the sync path of
   `replicated` (pysyncobj/fast_queue.py, pysyncobj/syncobj.py) as an interleaving semantics at
   lock granularity.  Definitions only (no proofs here): the model still runs when a proof breaks.

   Threads: caller threads 0,1,2,... (any number: `progs : N -> list call` gives each thread's
   program) and the tick thread.  A schedule is a list of `action`s: which thread takes its next
   atomic step (plus the scheduler's choice that a waiting caller's `event.wait(timeout)` expires).

   Atomic actions = the lock-protected bodies:
     FastQueue.put_nowait   with self.__lock: if len(q) > maxSize: raise Full; q.append(v)
                            NOTE the bound check is `>` : the queue accepts while len <= maxSize,
                            i.e. it holds up to maxSize+1 entries.  Modelled exactly so.
     FastQueue.get_nowait   with self.__lock: popleft  (tick thread, one loop iteration of
                            _checkCommandsToApply: dequeue + dispatch)
     Event.set / Event.wait (threading.Event is an oracle: wait returns True iff the flag is set,
                            a wait whose flag is not set may expire: ATimeout)
   and, between them, thread-local code of one thread:
     __callErrCallback(QUEUE_FULL, callback) on the caller's thread after a rejected put;
     AsyncResult.onResult on the tick thread = three separate steps
        self.result = res ; self.error = err ; self.event.set()
     (three steps because another thread holds a reference to that AsyncResult);
     for a *rejected* sync call the same three writes happen on the caller's own thread on an
     AsyncResult no other thread ever sees, so they are one step.

   Dispatcher (abstract; to be replaced by the Raft model for C02): single leader, commands are
   appended in dequeue order (`pending`) and later completed in that order, exactly once each, by
   `complete : cmd -> St -> St * res`, a Section variable.  The callback of the command is invoked
   at completion, on the tick thread.

   Ghost fields (history, never read by the step function to take a decision): attempts, deq,
   done, cbs, outcomes. *)
From Coq Require Import NArith List Bool.
Import ListNotations.
Local Open Scope N_scope.

Inductive ckind := KNone (* no callback *) | KAsync (* callback=cb *) | KSync (* sync=True *).

Record cmd := mkCmd { cid : N; owner : N; payload : N; kind : ckind }.

(* (result, error): result None = Python None; error is a FAIL_REASON *)
Definition res := (option N * N)%type.

Definition QUEUE_FULL : N := 1.
Definition full_res : res := (None, QUEUE_FULL).

(* one call of a caller thread's program: argument, how it is called *)
Definition call := (N * ckind)%type.

Inductive phase :=
| PIdle                (* between calls *)
| PFull (c : cmd)      (* put_nowait raised Queue.Full; __callErrCallback not yet run *)
| PWait (c : cmd).     (* inside asyncResult.event.wait(timeout) *)

Record caller := mkCaller { prog : list call; ph : phase }.

(* AsyncResult: result, error (None until written), event flag *)
Record cell := mkCell { c_result : option N; c_error : option N; c_flag : bool }.
Definition cell0 : cell := mkCell None None false.

Inductive outcome :=
| OReturn (v : option N)       (* return asyncResult.result *)
| ORaise (e : option N)        (* raise SyncObjException(asyncResult.error) *)
| OTimeout.                    (* raise SyncObjException('Timeout') *)

Inductive action :=
| ACaller (i : N)     (* caller thread i takes its next step *)
| ATimeout (i : N)    (* caller thread i's event.wait(timeout) expires (if it waits on an unset event) *)
| ATickGet            (* tick thread: continue a running onResult, else get_nowait + dispatch *)
| ATickApply.         (* tick thread: continue a running onResult, else complete the oldest pending command *)

Definition upd {A} (f : N -> A) (k : N) (v : A) : N -> A :=
  fun x => if N.eqb x k then v else f x.

Section Model.
  Variable St : Type.
  Variable complete : cmd -> St -> St * res.

  Record state := mkState {
    callers  : N -> caller;
    next_id  : N;
    queue    : list cmd;                (* FastQueue.__queue *)
    pending  : list cmd;                (* dispatched, not yet completed (log beyond lastApplied) *)
    ust      : St;                      (* the replicated object's state *)
    tick_pc  : option (cmd * res * N);  (* tick thread inside onResult(c, r): stage 0,1,2 *)
    cells    : N -> cell;               (* AsyncResult of call k *)
    (* ghost *)
    attempts : list (cmd * bool);       (* every put_nowait, true = accepted *)
    deq      : list cmd;                (* every get_nowait result *)
    done     : list (cmd * res);        (* completions *)
    cbs      : list (cmd * res);        (* every callback invocation *)
    outcomes : list (N * cmd * outcome) (* how each finished sync call ended, per thread *)
  }.

  Definition puts (s : state) : list cmd := map fst (filter snd (attempts s)).
  Definition rejected (s : state) : list cmd :=
    map fst (filter (fun x => negb (snd x)) (attempts s)).

  Definition init (progs : N -> list call) (u0 : St) : state :=
    mkState (fun i => mkCaller (progs i) PIdle) 0 [] [] u0 None (fun _ => cell0) [] [] [] [] [].

  (* what the sync caller does with a set AsyncResult *)
  Definition read_cell (c : cell) : outcome :=
    match c_error c with
    | Some 0 => OReturn (c_result c)
    | e => ORaise e
    end.

  Definition outcome_of (r : res) : outcome :=
    match snd r with 0 => OReturn (fst r) | e => ORaise (Some e) end.

  Definition set_caller (s : state) (i : N) (c : caller) : state :=
    mkState (upd (callers s) i c) (next_id s) (queue s) (pending s) (ust s) (tick_pc s) (cells s)
            (attempts s) (deq s) (done s) (cbs s) (outcomes s).

  Definition wake (s : state) (i : N) (p : list call) (c : cmd) : state :=
    mkState (upd (callers s) i (mkCaller p PIdle)) (next_id s) (queue s) (pending s) (ust s)
            (tick_pc s) (cells s) (attempts s) (deq s) (done s) (cbs s)
            (outcomes s ++ [(i, c, read_cell (cells s (cid c)))]).

  Definition caller_step (maxSize : N) (s : state) (i : N) : state :=
    let cl := callers s i in
    match ph cl with
    | PIdle =>
      match prog cl with
      | [] => s
      | (p, k) :: rest =>
        let c := mkCmd (next_id s) i p k in
        if maxSize <? N.of_nat (length (queue s)) then
          (* Queue.Full *)
          mkState (upd (callers s) i (mkCaller rest (PFull c))) (next_id s + 1) (queue s) (pending s)
                  (ust s) (tick_pc s) (cells s) (attempts s ++ [(c, false)]) (deq s) (done s)
                  (cbs s) (outcomes s)
        else
          mkState (upd (callers s) i (mkCaller rest (match k with KSync => PWait c | _ => PIdle end)))
                  (next_id s + 1) (queue s ++ [c]) (pending s) (ust s) (tick_pc s) (cells s)
                  (attempts s ++ [(c, true)]) (deq s) (done s) (cbs s) (outcomes s)
      end
    | PFull c =>
      (* __callErrCallback(QUEUE_FULL, callback) on the caller's thread *)
      match kind c with
      | KNone => set_caller s i (mkCaller (prog cl) PIdle)
      | KAsync =>
        mkState (upd (callers s) i (mkCaller (prog cl) PIdle)) (next_id s) (queue s) (pending s)
                (ust s) (tick_pc s) (cells s) (attempts s) (deq s) (done s)
                (cbs s ++ [(c, full_res)]) (outcomes s)
      | KSync =>
        mkState (upd (callers s) i (mkCaller (prog cl) (PWait c))) (next_id s) (queue s) (pending s)
                (ust s) (tick_pc s)
                (upd (cells s) (cid c) (mkCell (fst full_res) (Some (snd full_res)) true))
                (attempts s) (deq s) (done s) (cbs s ++ [(c, full_res)]) (outcomes s)
      end
    | PWait c =>
      if c_flag (cells s (cid c)) then wake s i (prog cl) c
      else s                                   (* blocked *)
    end.

  Definition timeout_step (s : state) (i : N) : state :=
    let cl := callers s i in
    match ph cl with
    | PWait c =>
      if c_flag (cells s (cid c)) then wake s i (prog cl) c
      else mkState (upd (callers s) i (mkCaller (prog cl) PIdle)) (next_id s) (queue s) (pending s)
                   (ust s) (tick_pc s) (cells s) (attempts s) (deq s) (done s) (cbs s)
                   (outcomes s ++ [(i, c, OTimeout)])
    | _ => s
    end.

  Definition set_cells_pc (s : state) (cs : N -> cell) (pc : option (cmd * res * N)) : state :=
    mkState (callers s) (next_id s) (queue s) (pending s) (ust s) pc cs
            (attempts s) (deq s) (done s) (cbs s) (outcomes s).

  (* AsyncResult.onResult(res, err) on the tick thread, one attribute write per step *)
  Definition on_result_step (s : state) (c : cmd) (r : res) (stage : N) : state :=
    let k := cid c in
    let x := cells s k in
    match stage with
    | 0 => set_cells_pc s (upd (cells s) k (mkCell (fst r) (c_error x) (c_flag x))) (Some (c, r, 1))
    | 1 => set_cells_pc s (upd (cells s) k (mkCell (c_result x) (Some (snd r)) (c_flag x))) (Some (c, r, 2))
    | _ => set_cells_pc s (upd (cells s) k (mkCell (c_result x) (c_error x) true)) None
    end.

  Definition get_step (s : state) : state :=
    match queue s with
    | [] => s                                  (* Queue.Empty *)
    | c :: q =>
      mkState (callers s) (next_id s) q (pending s ++ [c]) (ust s) (tick_pc s) (cells s)
              (attempts s) (deq s ++ [c]) (done s) (cbs s) (outcomes s)
    end.

  Definition apply_step (s : state) : state :=
    match pending s with
    | [] => s
    | c :: p =>
      let (u', r) := complete c (ust s) in
      mkState (callers s) (next_id s) (queue s) p u'
              (match kind c with KSync => Some (c, r, 0) | _ => None end)
              (cells s) (attempts s) (deq s) (done s ++ [(c, r)])
              (match kind c with KNone => cbs s | _ => cbs s ++ [(c, r)] end)
              (outcomes s)
    end.

  Definition step (maxSize : N) (s : state) (a : action) : state :=
    match a with
    | ACaller i => caller_step maxSize s i
    | ATimeout i => timeout_step s i
    | ATickGet =>
      match tick_pc s with Some (c, r, st) => on_result_step s c r st | None => get_step s end
    | ATickApply =>
      match tick_pc s with Some (c, r, st) => on_result_step s c r st | None => apply_step s end
    end.

  Definition run (maxSize : N) (s : state) (sched : list action) : state :=
    fold_left (step maxSize) sched s.

  (* sequential specification of the dispatcher: complete the commands in order *)
  Fixpoint exec (u : St) (cs : list cmd) : list (cmd * res) * St :=
    match cs with
    | [] => ([], u)
    | c :: r =>
      let (u', x) := complete c u in
      let (l, u'') := exec u' r in ((c, x) :: l, u'')
    end.

  Definition cb_count (k : N) (l : list (cmd * res)) : nat :=
    length (filter (fun x => N.eqb (cid (fst x)) k) l).

End Model.

Arguments callers {St}. Arguments next_id {St}. Arguments queue {St}. Arguments pending {St}.
Arguments ust {St}. Arguments tick_pc {St}. Arguments cells {St}. Arguments attempts {St}.
Arguments deq {St}. Arguments done {St}. Arguments cbs {St}. Arguments outcomes {St}.
Arguments puts {St}. Arguments rejected {St}.

(* ------------------------------------------------------------------------------------------ *)
(* Concrete instance used by the correspondence check: the replicated object is the free state
   machine (list of applied arguments); method `add(x)` appends x and returns
   x + 1000 * (number of commands applied before); every completion is SUCCESS (single leader). *)

Definition ust_t := list N.
Definition complete_list (c : cmd) (u : ust_t) : ust_t * res :=
  (u ++ [payload c], (Some (payload c + 1000 * N.of_nat (length u)), 0)).

Definition kind_code (k : ckind) : N := match k with KNone => 0 | KAsync => 1 | KSync => 2 end.
Definition opt_code (o : option N) : N := match o with None => 0 | Some v => v + 1 end.

Fixpoint table_progs (t : list (N * list call)) (i : N) : list call :=
  match t with
  | [] => []
  | (k, p) :: r => if N.eqb k i then p else table_progs r i
  end.

Definition outcome_code (o : outcome) : list N :=
  match o with
  | OReturn v => [0; opt_code v]
  | ORaise e => [1; opt_code e]
  | OTimeout => [2; 0]
  end.

Definition phase_code (p : phase) : list N :=
  match p with PIdle => [0; 0] | PFull c => [1; cid c] | PWait c => [2; cid c] end.

Fixpoint seqN (start : N) (n : nat) : list N :=
  match n with O => [] | S n' => start :: seqN (start + 1) n' end.

(* invocations of user callbacks (callback=cb); a sync call's onResult is observed through its
   AsyncResult instead *)
Definition user_cbs (s : state ust_t) : list (cmd * res) :=
  filter (fun x => match kind (fst x) with KAsync => true | _ => false end) (cbs s).

(* canonical observation after a group of atomic actions, as numbers:
   queue cids | pending cids | applied arguments | user callbacks (cid, result, error) |
   outcomes (thread, cid, kind, value) | set AsyncResults (cid, result, error) |
   phases of the threads 0..nthreads-1 | accepted count, rejected count *)
Definition obs (nthreads : N) (s : state ust_t) : list N :=
  N.of_nat (length (queue s)) :: map cid (queue s)
  ++ N.of_nat (length (pending s)) :: map cid (pending s)
  ++ N.of_nat (length (ust s)) :: ust s
  ++ N.of_nat (length (user_cbs s))
     :: flat_map (fun x => [cid (fst x); opt_code (fst (snd x)); snd (snd x)]) (user_cbs s)
  ++ N.of_nat (length (outcomes s))
     :: flat_map (fun x => fst (fst x) :: cid (snd (fst x)) :: outcome_code (snd x)) (outcomes s)
  ++ flat_map (fun k => let x := cells s k in
                        if c_flag x then [k; opt_code (c_result x); opt_code (c_error x)] else [])
              (seqN 0 (N.to_nat (next_id s)))
  ++ flat_map (fun i => phase_code (ph (callers s i))) (seqN 0 (N.to_nat nthreads))
  ++ [N.of_nat (length (puts s)); N.of_nat (length (rejected s))].

Fixpoint list_eqb (a b : list N) : bool :=
  match a, b with
  | [], [] => true
  | x :: a', y :: b' => N.eqb x y && list_eqb a' b'
  | _, _ => false
  end.

(* a case = groups of atomic actions with the observation the implementation showed after each
   group; result = index of the first group whose observation differs, or None *)
Fixpoint check_groups (maxSize nthreads : N) (s : state ust_t) (i : N)
         (gs : list (list action * list N)) : option N :=
  match gs with
  | [] => None
  | (acts, expected) :: r =>
    let s' := run ust_t complete_list maxSize s acts in
    if list_eqb (obs nthreads s') expected then check_groups maxSize nthreads s' (i + 1) r
    else Some i
  end.

Definition check_case (maxSize nthreads : N) (t : list (N * list call))
           (gs : list (list action * list N)) : option N :=
  check_groups maxSize nthreads (init ust_t (table_progs t) []) 0 gs.

(* the monitor of the property on a final model state (mirrors harness/queue_threads.py:monitor):
   every callback id at most once, every outcome id at most once, the queue is within its bound *)
Fixpoint nodupb (l : list N) : bool :=
  match l with
  | [] => true
  | x :: r => negb (existsb (N.eqb x) r) && nodupb r
  end.

Definition monitor_ok (maxSize : N) (s : state ust_t) : bool :=
  nodupb (map (fun x => cid (fst x)) (cbs s))
  && nodupb (map (fun x => cid (snd (fst x))) (outcomes s))
  && nodupb (map cid (deq s))
  && (N.of_nat (length (queue s)) <=? maxSize + 1).
