(* Queue/ProofsC.v -- every atomic step preserves the layer-B invariant. *)
From Coq Require Import NArith List Bool Lia.
From PSO Require Import Queue.Model Queue.ProofsA Queue.ProofsB.
Import ListNotations.
Local Open Scope N_scope.

Section C.
  Variable St : Type.
  Variable complete : cmd -> St -> St * res.
  Variable maxSize : N.
  Variable u0 : St.

  Notation state := (state St).
  Notation step := (step St complete maxSize).
  Notation run := (run St complete maxSize).
  Notation invA := (invA St complete maxSize u0).
  Notation invB := (invB St).
  Notation cb_ids := (cb_ids St).
  Notation out_ids := (out_ids St).
  Notation attempted := (attempted St).

  Ltac norm := unfold ProofsB.cb_ids, ProofsB.out_ids, ProofsB.attempted, puts, rejected in *; simpl in *.

  Lemma invB_get s : invA s -> invB s -> invB (get_step St s).
  Proof.
    intros IA IB. unfold get_step. destruct (queue s) as [|c q]; [assumption|].
    destruct IB as [F1 F2 F3 F4 F5 F6 F7 F8 F9 F10 F11].
    constructor; norm; assumption.
  Qed.

  (* a state that differs from s only in cells and tick_pc *)
  Lemma invB_cells_pc s cs pc :
    invB s ->
    (forall k, c_flag (cs k) = true ->
       exists c r, cid c = k /\ In (c, r) (cbs s) /\ c_result (cs k) = fst r /\ c_error (cs k) = Some (snd r)) ->
    (forall c r st, pc = Some (c, r, st) ->
       kind c = KSync /\ In (c, r) (done s) /\ c_flag (cs (cid c)) = false /\
       (1 <= st -> c_result (cs (cid c)) = fst r) /\ (2 <= st -> c_error (cs (cid c)) = Some (snd r))) ->
    invB (set_cells_pc St s cs pc).
  Proof.
    intros [F1 F2 F3 F4 F5 F6 F7 F8 F9 F10 F11] H7 H8.
    constructor; norm; assumption.
  Qed.

  Lemma invB_on_result s c r st :
    invA s -> invB s -> tick_pc s = Some (c, r, st) -> invB (on_result_step St s c r st).
  Proof.
    intros IA IB Hpc.
    destruct (k_pc _ s IB c r st Hpc) as (Hk & Hd & Hfl & Hres & Herr).
    assert (Hcb : In (c, r) (cbs s)) by (apply (b_done_cb _ s IB); [assumption|rewrite Hk; discriminate]).
    assert (Hold : forall cs k, k <> cid c -> c_flag (upd (cells s) (cid c) cs k) = true ->
       exists c0 r0, cid c0 = k /\ In (c0, r0) (cbs s) /\
         c_result (upd (cells s) (cid c) cs k) = fst r0 /\ c_error (upd (cells s) (cid c) cs k) = Some (snd r0)).
    { intros cs k E Hf. rewrite upd_other in * by assumption. apply (k_flag _ s IB). assumption. }
    unfold on_result_step.
    destruct st as [|[p|p|]]; apply invB_cells_pc; try assumption.
    - intros k Hf. destruct (N.eq_dec k (cid c)) as [E|E]; [|eapply Hold; eassumption].
      subst k. rewrite upd_same in Hf. simpl in Hf. congruence.
    - intros c' r' st' E. inversion E; subst. rewrite upd_same. simpl.
      split; [assumption|split; [assumption|split; [assumption|split; intro Hle; [reflexivity|lia]]]].
    - intros k Hf. destruct (N.eq_dec k (cid c)) as [E|E]; [|eapply Hold; eassumption].
      subst k. rewrite upd_same in *. simpl in *. exists c, r.
      split; [reflexivity|split; [assumption|split; [apply Hres|apply Herr]; lia]].
    - intros c' r' st' E. discriminate.
    - intros k Hf. destruct (N.eq_dec k (cid c)) as [E|E]; [|eapply Hold; eassumption].
      subst k. rewrite upd_same in *. simpl in *. exists c, r.
      split; [reflexivity|split; [assumption|split; [apply Hres|apply Herr]; lia]].
    - intros c' r' st' E. discriminate.
    - intros k Hf. destruct (N.eq_dec k (cid c)) as [E|E]; [|eapply Hold; eassumption].
      subst k. rewrite upd_same in Hf. simpl in Hf. congruence.
    - intros c' r' st' E. inversion E; subst. rewrite upd_same. simpl.
      split; [assumption|split; [assumption|split; [assumption|split; intro Hle; [apply Hres; lia|reflexivity]]]].
  Qed.

  Lemma invB_apply s : invA s -> invB s -> tick_pc s = None -> invB (apply_step St complete s).
  Proof.
    intros IA IB Hpc. unfold apply_step.
    destruct (pending s) as [|c p] eqn:Hp; [assumption|].
    destruct (complete c (ust s)) as [u' r] eqn:Hc.
    assert (Hpend : In c (pending s)) by (rewrite Hp; left; reflexivity).
    pose proof (pending_not_in_cbs _ _ _ _ s c IA IB Hpend) as Hfresh.
    assert (Hput : In c (puts s)).
    { eapply in_deq_in_puts; [eassumption|]. eapply in_pending_in_deq; eassumption. }
    assert (Hflag : c_flag (cells s (cid c)) = false).
    { destruct (c_flag (cells s (cid c))) eqn:Hf; [|reflexivity]. exfalso.
      destruct (k_flag _ s IB _ Hf) as (c' & r' & E & Hin & _). apply Hfresh.
      unfold ProofsB.cb_ids. rewrite in_map_iff. exists (c', r'). tauto. }
    destruct IB as [F1 F2 F3 F4 F5 F6 F7 F8 F9 F10 F11].
    assert (Hcbs : forall x, In x (cbs s) ->
                   In x (match kind c with KNone => cbs s | _ => cbs s ++ [(c, r)] end)).
    { intros x Hx. destruct (kind c); [assumption| |]; apply in_or_app; left; assumption. }
    constructor; norm.
    - (* b_cb_src *)
      intros c' r' Hin.
      assert (Hcase : In (c', r') (cbs s) \/ ((c', r') = (c, r) /\ kind c <> KNone)).
      { destruct (kind c); [left; assumption| |]; apply in_app_or in Hin;
          (destruct Hin as [Hin|[Hin|[]]]; [left; assumption|right; split; [symmetry; assumption|discriminate]]). }
      destruct Hcase as [Hold|[E Hk]].
      + destruct (F1 _ _ Hold) as [H1 [H2|H2]]; split; auto. right. apply in_or_app. left; assumption.
      + inversion E; subst. split; [assumption|]. right. apply in_or_app. right. left. reflexivity.
    - (* b_cb_nd *)
      destruct (kind c); [assumption| |]; rewrite map_app; simpl; apply NoDup_snoc; assumption.
    - (* b_done_cb *)
      intros c' r' Hin Hk. apply in_app_or in Hin. destruct Hin as [Hin|[Hin|[]]].
      + apply Hcbs. apply F3; assumption.
      + inversion Hin; subst. destruct (kind c'); [congruence| |]; apply in_or_app; right; left; reflexivity.
    - (* b_rej_cb *)
      intros c' Hr Hk. destruct (F4 _ Hr Hk) as [H|H]; [left; apply Hcbs; assumption|right; assumption].
    - (* b_full *)
      intros i c' Hph. destruct (F5 _ _ Hph) as (H1 & H2 & H3 & H4).
      split; [assumption|split; [assumption|split; [|assumption]]].
      destruct (kind c); [assumption| |]; rewrite map_app, in_app_iff; simpl;
        (intros [H|[H|[]]]; [auto|]; eapply (accepted_rejected_disjoint _ _ _ _ s c c'); eauto).
    - (* b_wait *)
      intros i c' Hph. destruct (F6 _ _ Hph) as (H1 & H2 & H3 & H4).
      split; [assumption|split; [assumption|split; [|assumption]]].
      destruct H3 as [H3|[H3 H3']]; [left; assumption|right; split; [assumption|apply Hcbs; assumption]].
    - (* k_flag *)
      intros k Hf. destruct (F7 _ Hf) as (c' & r' & E & Hin & H1 & H2).
      exists c', r'. split; [assumption|split; [apply Hcbs; assumption|split; assumption]].
    - (* k_pc *)
      intros c' r' st' E. destruct (kind c) eqn:Hk; try discriminate. inversion E; subst.
      split; [assumption|split; [apply in_or_app; right; left; reflexivity|split; [assumption|split; intro; lia]]].
    - (* o_src *)
      intros i c' o Hin. destruct (F9 _ _ _ Hin) as (H1 & H2 & H3 & H4).
      split; [assumption|split; [assumption|split; [assumption|]]].
      destruct H4 as [H4|[r' [H4 H5]]]; [left; assumption|right; exists r'; split; [apply Hcbs; assumption|assumption]].
    - assumption.
    - assumption.
  Qed.

  (* a sync caller leaves event.wait: wake-up (own cell read) or timeout *)
  Lemma invB_finish s i c p o :
    invA s -> invB s -> ph (callers s i) = PWait c ->
    (o = OTimeout \/ exists r, In (c, r) (cbs s) /\ o = outcome_of r) ->
    invB (mkState St (upd (callers s) i (mkCaller p PIdle)) (next_id s) (queue s) (pending s) (ust s)
                  (tick_pc s) (cells s) (attempts s) (deq s) (done s) (cbs s)
                  (outcomes s ++ [(i, c, o)])).
  Proof.
    intros IA IB Hph Ho.
    destruct (b_wait _ s IB _ _ Hph) as (W1 & W2 & W3 & W4).
    assert (Hatt : attempted s c).
    { destruct W3 as [W3|[W3 _]]; [left|right]; assumption. }
    assert (Hother : forall j c', j <> i -> attempted s c' -> owner c' = j -> cid c' <> cid c).
    { intros j c' Hj Ha Ho' E. apply Hj. rewrite <- Ho', <- W1.
      f_equal. eapply attempted_inj; eassumption. }
    destruct IB as [F1 F2 F3 F4 F5 F6 F7 F8 F9 F10 F11].
    constructor; norm; try assumption.
    - (* b_rej_cb *)
      intros c' Hr Hk. destruct (F4 _ Hr Hk) as [H|H]; [left; assumption|right].
      destruct (N.eq_dec (owner c') i) as [E|E].
      + rewrite E in H. rewrite Hph in H. discriminate.
      + rewrite upd_other by assumption. assumption.
    - (* b_full *)
      intros j c' Hj. destruct (N.eq_dec j i) as [E|E].
      + subst j. rewrite upd_same in Hj. simpl in Hj. discriminate.
      + rewrite upd_other in Hj by assumption. destruct (F5 _ _ Hj) as (H1 & H2 & H3 & H4).
        split; [assumption|split; [assumption|split; [assumption|]]].
        rewrite map_app, in_app_iff. simpl. intros [H|[H|[]]]; [auto|].
        eapply (Hother j c'); eauto; right; assumption.
    - (* b_wait *)
      intros j c' Hj. destruct (N.eq_dec j i) as [E|E].
      + subst j. rewrite upd_same in Hj. simpl in Hj. discriminate.
      + rewrite upd_other in Hj by assumption. destruct (F6 _ _ Hj) as (H1 & H2 & H3 & H4).
        split; [assumption|split; [assumption|split; [assumption|]]].
        rewrite map_app, in_app_iff. simpl. intros [H|[H|[]]]; [auto|].
        eapply (Hother j c'); eauto; destruct H3 as [H3|[H3 _]]; [left|right]; assumption.
    - (* o_src *)
      intros j c' o' Hin. apply in_app_or in Hin. destruct Hin as [Hin|[Hin|[]]].
      + apply F9; assumption.
      + inversion Hin; subst. split; [reflexivity|split; [assumption|split; assumption]].
    - (* o_nd *)
      rewrite map_app. simpl. apply NoDup_snoc; assumption.
    - (* o_lt *)
      intros k Hk. rewrite map_app, in_app_iff in Hk. simpl in Hk. destruct Hk as [Hk|[Hk|[]]]; [auto|].
      subst k. eapply attempted_lt; eassumption.
  Qed.

  Lemma wake_outcome s i c :
    invA s -> invB s -> ph (callers s i) = PWait c -> c_flag (cells s (cid c)) = true ->
    exists r, In (c, r) (cbs s) /\ read_cell (cells s (cid c)) = outcome_of r.
  Proof.
    intros IA IB Hph Hf.
    destruct (b_wait _ s IB _ _ Hph) as (W1 & W2 & W3 & W4).
    destruct (k_flag _ s IB _ Hf) as (c' & r & E & Hin & H1 & H2).
    assert (c' = c).
    { eapply attempted_inj; try eassumption.
      - eapply cb_attempted; eassumption.
      - destruct W3 as [W3|[W3 _]]; [left|right]; assumption. }
    subst c'. exists r. split; [assumption|]. apply read_cell_outcome_of; assumption.
  Qed.

  Lemma invB_timeout s i : invA s -> invB s -> invB (timeout_step St s i).
  Proof.
    intros IA IB. unfold timeout_step. destruct (ph (callers s i)) as [|c|c] eqn:Hph; try assumption.
    destruct (c_flag (cells s (cid c))) eqn:Hf.
    - unfold wake. apply invB_finish; try assumption. right. apply (wake_outcome s i c); assumption.
    - apply invB_finish; try assumption. left; reflexivity.
  Qed.

  (* put_nowait accepted *)
  Lemma invB_put_ok s i p k rest :
    invA s -> invB s -> ph (callers s i) = PIdle ->
    let c := mkCmd (next_id s) i p k in
    invB (mkState St (upd (callers s) i (mkCaller rest (match k with KSync => PWait c | _ => PIdle end)))
                  (next_id s + 1) (queue s ++ [c]) (pending s) (ust s) (tick_pc s) (cells s)
                  (attempts s ++ [(c, true)]) (deq s) (done s) (cbs s) (outcomes s)).
  Proof.
    intros IA IB Hph c.
    destruct IB as [F1 F2 F3 F4 F5 F6 F7 F8 F9 F10 F11].
    constructor; norm; rewrite ?puts_snoc_true, ?rej_snoc_true; try assumption.
    - (* b_rej_cb *)
      intros c' Hr Hk. destruct (F4 _ Hr Hk) as [H|H]; [left; assumption|right].
      destruct (N.eq_dec (owner c') i) as [E|E].
      + rewrite E in H. rewrite Hph in H. discriminate.
      + rewrite upd_other by assumption. assumption.
    - (* b_full *)
      intros j c' Hj. destruct (N.eq_dec j i) as [E|E].
      + subst j. rewrite upd_same in Hj. simpl in Hj. destruct k; discriminate.
      + rewrite upd_other in Hj by assumption. apply F5; assumption.
    - (* b_wait *)
      intros j c' Hj. destruct (N.eq_dec j i) as [E|E].
      + subst j. rewrite upd_same in Hj. simpl in Hj. destruct k; try discriminate.
        inversion Hj; subst c'. simpl.
        split; [reflexivity|split; [reflexivity|split]].
        * left. apply in_or_app. right. left. reflexivity.
        * intro Hin. apply F11 in Hin. lia.
      + rewrite upd_other in Hj by assumption. destruct (F6 _ _ Hj) as (H1 & H2 & H3 & H4).
        split; [assumption|split; [assumption|split; [|assumption]]].
        destruct H3 as [H3|H3]; [left; apply in_or_app; left; assumption|right; assumption].
    - (* o_src *)
      intros j c' o Hin. destruct (F9 _ _ _ Hin) as (H1 & H2 & H3 & H4).
      split; [assumption|split; [assumption|split; [|assumption]]].
      destruct H3 as [H3|H3]; [left; apply in_or_app; left; assumption|right; assumption].
    - (* o_lt *)
      intros x Hx. apply F11 in Hx. lia.
  Qed.

  (* put_nowait raised Queue.Full *)
  Lemma invB_put_full s i p k rest :
    invA s -> invB s -> ph (callers s i) = PIdle ->
    let c := mkCmd (next_id s) i p k in
    invB (mkState St (upd (callers s) i (mkCaller rest (PFull c)))
                  (next_id s + 1) (queue s) (pending s) (ust s) (tick_pc s) (cells s)
                  (attempts s ++ [(c, false)]) (deq s) (done s) (cbs s) (outcomes s)).
  Proof.
    intros IA IB Hph c.
    assert (Hcb : ~ In (next_id s) (cb_ids s)).
    { intro H. apply (cb_ids_lt _ _ _ _ s _ IA IB) in H. lia. }
    destruct IB as [F1 F2 F3 F4 F5 F6 F7 F8 F9 F10 F11].
    constructor; norm; rewrite ?puts_snoc_false, ?rej_snoc_false; try assumption.
    - (* b_cb_src *)
      intros c' r' Hin. destruct (F1 _ _ Hin) as [H1 [[H2 H3]|H2]]; split; auto.
      left. split; [apply in_or_app; left; assumption|assumption].
    - (* b_rej_cb *)
      intros c' Hr Hk. apply in_app_or in Hr. destruct Hr as [Hr|[Hr|[]]].
      + destruct (F4 _ Hr Hk) as [H|H]; [left; assumption|right].
        destruct (N.eq_dec (owner c') i) as [E|E].
        * rewrite E in H. rewrite Hph in H. discriminate.
        * rewrite upd_other by assumption. assumption.
      + subst c'. right. simpl. rewrite upd_same. reflexivity.
    - (* b_full *)
      intros j c' Hj. destruct (N.eq_dec j i) as [E|E].
      + subst j. rewrite upd_same in Hj. simpl in Hj. inversion Hj; subst c'. simpl.
        split; [apply in_or_app; right; left; reflexivity|split; [reflexivity|split; [assumption|]]].
        intro Hin. apply F11 in Hin. lia.
      + rewrite upd_other in Hj by assumption. destruct (F5 _ _ Hj) as (H1 & H2 & H3 & H4).
        split; [apply in_or_app; left; assumption|split; [assumption|split; assumption]].
    - (* b_wait *)
      intros j c' Hj. destruct (N.eq_dec j i) as [E|E].
      + subst j. rewrite upd_same in Hj. simpl in Hj. discriminate.
      + rewrite upd_other in Hj by assumption. destruct (F6 _ _ Hj) as (H1 & H2 & H3 & H4).
        split; [assumption|split; [assumption|split; [|assumption]]].
        destruct H3 as [H3|[H3 H3']]; [left; assumption|right; split; [apply in_or_app; left; assumption|assumption]].
    - (* o_src *)
      intros j c' o Hin. destruct (F9 _ _ _ Hin) as (H1 & H2 & H3 & H4).
      split; [assumption|split; [assumption|split; [|assumption]]].
      destruct H3 as [H3|H3]; [left; assumption|right; apply in_or_app; left; assumption].
    - (* o_lt *)
      intros x Hx. apply F11 in Hx. lia.
  Qed.

  (* __callErrCallback(QUEUE_FULL, None): nothing to call *)
  Lemma invB_full_none s i c p :
    invA s -> invB s -> ph (callers s i) = PFull c -> kind c = KNone ->
    invB (set_caller St s i (mkCaller p PIdle)).
  Proof.
    intros IA IB Hph Hk0.
    destruct IB as [F1 F2 F3 F4 F5 F6 F7 F8 F9 F10 F11].
    unfold set_caller. constructor; norm; try assumption.
    - intros c' Hr Hk. destruct (F4 _ Hr Hk) as [H|H]; [left; assumption|right].
      destruct (N.eq_dec (owner c') i) as [E|E].
      + rewrite E in H. rewrite Hph in H. inversion H; subst. congruence.
      + rewrite upd_other by assumption. assumption.
    - intros j c' Hj. destruct (N.eq_dec j i) as [E|E].
      + subst j. rewrite upd_same in Hj. simpl in Hj. discriminate.
      + rewrite upd_other in Hj by assumption. apply F5; assumption.
    - intros j c' Hj. destruct (N.eq_dec j i) as [E|E].
      + subst j. rewrite upd_same in Hj. simpl in Hj. discriminate.
      + rewrite upd_other in Hj by assumption. apply F6; assumption.
  Qed.

  (* __callErrCallback(QUEUE_FULL, cb) for a user callback or a sync call's onResult,
     on the caller's own thread *)
  Lemma invB_full_cb s i c p ph' cs :
    invA s -> invB s -> ph (callers s i) = PFull c -> kind c <> KNone ->
    (ph' = PIdle /\ cs = cells s \/
     kind c = KSync /\ ph' = PWait c /\
     cs = upd (cells s) (cid c) (mkCell (fst full_res) (Some (snd full_res)) true)) ->
    invB (mkState St (upd (callers s) i (mkCaller p ph')) (next_id s) (queue s) (pending s)
                  (ust s) (tick_pc s) cs (attempts s) (deq s) (done s)
                  (cbs s ++ [(c, full_res)]) (outcomes s)).
  Proof.
    intros IA IB Hph Hk0 Hcase.
    destruct (b_full _ s IB _ _ Hph) as (R1 & R2 & R3 & R4).
    assert (Hother : forall j c', j <> i -> attempted s c' -> owner c' = j -> cid c' <> cid c).
    { intros j c' Hj Ha Ho' E. apply Hj. rewrite <- Ho', <- R2.
      f_equal. eapply attempted_inj; try eassumption. right; assumption. }
    assert (Hcells : forall k, k <> cid c -> cs k = cells s k).
    { intros k Hk. destruct Hcase as [[_ E]|(_ & _ & E)]; subst cs; [reflexivity|].
      apply upd_other. assumption. }
    pose proof IB as [F1 F2 F3 F4 F5 F6 F7 F8 F9 F10 F11].
    constructor; norm; try assumption.
    - (* b_cb_src *)
      intros c' r' Hin. apply in_app_or in Hin. destruct Hin as [Hin|[Hin|[]]].
      + apply F1; assumption.
      + inversion Hin; subst. split; [assumption|left; split; [assumption|reflexivity]].
    - (* b_cb_nd *)
      rewrite map_app. simpl. apply NoDup_snoc; assumption.
    - (* b_done_cb *)
      intros c' r' Hd Hk. apply in_or_app. left. apply F3; assumption.
    - (* b_rej_cb *)
      intros c' Hr Hk. destruct (F4 _ Hr Hk) as [H|H]; [left; apply in_or_app; left; assumption|].
      destruct (N.eq_dec (owner c') i) as [E|E].
      + rewrite E in H. rewrite Hph in H. inversion H; subst.
        left. apply in_or_app. right. left. reflexivity.
      + right. rewrite upd_other by assumption. assumption.
    - (* b_full *)
      intros j c' Hj. destruct (N.eq_dec j i) as [E|E].
      + subst j. rewrite upd_same in Hj. simpl in Hj.
        destruct Hcase as [[E' _]|(_ & E' & _)]; subst ph'; discriminate.
      + rewrite upd_other in Hj by assumption. destruct (F5 _ _ Hj) as (H1 & H2 & H3 & H4).
        split; [assumption|split; [assumption|split; [|assumption]]].
        rewrite map_app, in_app_iff. simpl. intros [H|[H|[]]]; [auto|].
        eapply (Hother j c'); eauto; right; assumption.
    - (* b_wait *)
      intros j c' Hj. destruct (N.eq_dec j i) as [E|E].
      + subst j. rewrite upd_same in Hj. simpl in Hj.
        destruct Hcase as [[E' _]|(Hks & E' & _)]; subst ph'; [discriminate|].
        inversion Hj; subst c'.
        split; [assumption|split; [assumption|split; [|assumption]]].
        right. split; [assumption|apply in_or_app; right; left; reflexivity].
      + rewrite upd_other in Hj by assumption. destruct (F6 _ _ Hj) as (H1 & H2 & H3 & H4).
        split; [assumption|split; [assumption|split; [|assumption]]].
        destruct H3 as [H3|[H3 H3']]; [left; assumption|right; split; [assumption|apply in_or_app; left; assumption]].
    - (* k_flag *)
      intros k Hf. destruct (N.eq_dec k (cid c)) as [E|E].
      + subst k. destruct Hcase as [[_ E']|(_ & _ & E')]; subst cs.
        * exfalso. destruct (F7 _ Hf) as (c' & r' & E1 & Hin & _). apply R3.
          rewrite <- E1. apply (in_map (fun x : cmd * res => cid (fst x)) _ (c', r')). assumption.
        * rewrite upd_same. simpl. exists c, full_res.
          split; [reflexivity|split; [apply in_or_app; right; left; reflexivity|split; reflexivity]].
      + rewrite (Hcells _ E) in *. destruct (F7 _ Hf) as (c' & r' & E1 & Hin & H1 & H2).
        exists c', r'. split; [assumption|split; [apply in_or_app; left; assumption|split; assumption]].
    - (* k_pc *)
      intros c' r' st' Hpc. destruct (F8 _ _ _ Hpc) as (H1 & H2 & H3 & H4 & H5).
      assert (E : cid c' <> cid c) by (eapply done_rejected_cid; eassumption).
      rewrite (Hcells _ E). split; [assumption|split; [assumption|split; [assumption|split; assumption]]].
    - (* o_src *)
      intros j c' o Hin. destruct (F9 _ _ _ Hin) as (H1 & H2 & H3 & H4).
      split; [assumption|split; [assumption|split; [assumption|]]].
      destruct H4 as [H4|[r' [H4 H5]]]; [left; assumption|right; exists r'; split; [apply in_or_app; left; assumption|assumption]].
  Qed.

  Lemma invB_caller s i : invA s -> invB s -> invB (caller_step St maxSize s i).
  Proof.
    intros IA IB. unfold caller_step.
    destruct (ph (callers s i)) as [|c|c] eqn:Hph.
    - destruct (prog (callers s i)) as [|[p k] rest]; [assumption|].
      destruct (maxSize <? N.of_nat (length (queue s))).
      + apply invB_put_full; assumption.
      + apply invB_put_ok; assumption.
    - destruct (kind c) eqn:Hk.
      + apply (invB_full_none s i c); assumption.
      + apply (invB_full_cb s i c); try assumption; [rewrite Hk; discriminate|left; split; reflexivity].
      + apply (invB_full_cb s i c); try assumption; [rewrite Hk; discriminate|].
        right. split; [assumption|split; reflexivity].
    - destruct (c_flag (cells s (cid c))) eqn:Hf; [|assumption].
      unfold wake. apply invB_finish; try assumption. right. apply (wake_outcome s i c); assumption.
  Qed.

  Lemma invB_step s a : invA s -> invB s -> invB (step s a).
  Proof.
    intros IA IB. destruct a as [i|i| |]; simpl.
    - apply invB_caller; assumption.
    - apply invB_timeout; assumption.
    - destruct (tick_pc s) as [[[c r] st]|] eqn:Hpc.
      + apply invB_on_result; assumption.
      + apply invB_get; assumption.
    - destruct (tick_pc s) as [[[c r] st]|] eqn:Hpc.
      + apply invB_on_result; assumption.
      + apply invB_apply; assumption.
  Qed.

  Lemma inv_run sched s : invA s -> invB s -> invA (run s sched) /\ invB (run s sched).
  Proof.
    revert s. induction sched as [|a sched IH]; simpl; intros s IA IB; [split; assumption|].
    apply IH; [apply invA_step|apply invB_step]; assumption.
  Qed.
End C.
