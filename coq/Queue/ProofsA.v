(* Queue/ProofsA.v -- layer A: the queue itself and the dispatcher (no threads' phases, no cells).
   FIFO, no loss / no duplication, capacity, fresh ids, completion order. *)
From Coq Require Import NArith List Bool Lia Permutation.
From PSO Require Import Queue.Model.
Import ListNotations.
Local Open Scope N_scope.

(* ---- list facts ---- *)
Lemma NoDup_snoc {A} (l : list A) (x : A) : NoDup l -> ~ In x l -> NoDup (l ++ [x]).
Proof.
  intros Hnd Hni. induction l as [|y l IH]; simpl.
  - constructor; [intros []|constructor].
  - inversion Hnd as [|? ? Hy Hl]; subst. constructor.
    + rewrite in_app_iff. simpl. intros [H|[H|[]]]; [auto|]. subst. apply Hni. left; reflexivity.
    + apply IH; [assumption|]. intro H. apply Hni. right; assumption.
Qed.

Lemma NoDup_app_l {A} (l1 l2 : list A) : NoDup (l1 ++ l2) -> NoDup l1.
Proof.
  induction l1 as [|x l1 IH]; simpl; intro H; [constructor|].
  inversion H as [|? ? Hx Hl]; subst. constructor.
  - intro Hin. apply Hx. apply in_or_app. left; assumption.
  - apply IH; assumption.
Qed.

Lemma NoDup_app_r {A} (l1 l2 : list A) : NoDup (l1 ++ l2) -> NoDup l2.
Proof.
  induction l1 as [|x l1 IH]; simpl; intro H; [assumption|].
  inversion H; subst. apply IH; assumption.
Qed.

Lemma NoDup_app_disj {A} (l1 l2 : list A) x : NoDup (l1 ++ l2) -> In x l1 -> In x l2 -> False.
Proof.
  induction l1 as [|y l1 IH]; simpl; intros H H1 H2; [assumption|].
  inversion H as [|? ? Hy Hl]; subst. destruct H1 as [H1|H1].
  - subst. apply Hy. apply in_or_app. right; assumption.
  - apply IH; assumption.
Qed.

Lemma NoDup_map_filter {A B} (f : A -> B) (p : A -> bool) (l : list A) :
  NoDup (map f l) -> NoDup (map f (filter p l)).
Proof.
  induction l as [|x l IH]; simpl; intro H; [constructor|].
  inversion H as [|? ? Hx Hl]; subst. destruct (p x); simpl; [|auto].
  constructor; [|auto]. intro Hin. apply Hx. rewrite in_map_iff in *.
  destruct Hin as [y [Hy Hin]]. exists y. split; [assumption|].
  apply filter_In in Hin. tauto.
Qed.

Lemma filter_snoc {A} (p : A -> bool) l x :
  filter p (l ++ [x]) = if p x then filter p l ++ [x] else filter p l.
Proof.
  induction l as [|y l IH]; simpl.
  - destruct (p x); reflexivity.
  - rewrite IH. destruct (p y), (p x); reflexivity.
Qed.

Section A.
  Variable St : Type.
  Variable complete : cmd -> St -> St * res.
  Variable maxSize : N.
  Variable u0 : St.

  Notation state := (state St).
  Notation step := (step St complete maxSize).
  Notation run := (run St complete maxSize).
  Notation exec := (exec St complete).

  Definition att_ids (s : state) : list N := map (fun x => cid (fst x)) (attempts s).

  Record invA (s : state) : Prop := {
    a_fifo : deq s ++ queue s = puts s;
    a_cap  : N.of_nat (length (queue s)) <= maxSize + 1;
    a_disp : map fst (done s) ++ pending s = deq s;
    a_lt   : Forall (fun k => k < next_id s) (att_ids s);
    a_nd   : NoDup (att_ids s);
    a_exec : exec u0 (map fst (done s)) = (done s, ust s)
  }.

  Lemma exec_snoc u cs c l u' :
    exec u cs = (l, u') ->
    exec u (cs ++ [c]) = (l ++ [(c, snd (complete c u'))], fst (complete c u')).
  Proof.
    revert u l u'. induction cs as [|d cs IH]; simpl; intros u l u' H.
    - inversion H; subst. destruct (complete c u'); reflexivity.
    - destruct (complete d u) as [u1 x]. destruct (exec u1 cs) as [l1 u2] eqn:E.
      inversion H; subst. rewrite (IH _ _ _ E). reflexivity.
  Qed.

  Lemma invA_init progs : invA (init St progs u0).
  Proof. constructor; simpl; try reflexivity; try constructor. lia. Qed.

  (* a step that leaves the layer-A fields alone *)
  Definition sameA (s s' : state) : Prop :=
    next_id s' = next_id s /\ queue s' = queue s /\ pending s' = pending s /\ ust s' = ust s /\
    attempts s' = attempts s /\ deq s' = deq s /\ done s' = done s.

  Lemma invA_sameA s s' : sameA s s' -> invA s -> invA s'.
  Proof.
    intros (H1 & H2 & H3 & H4 & H5 & H6 & H7) [I1 I2 I3 I4 I5 I6].
    constructor; unfold puts, att_ids in *; rewrite ?H1, ?H2, ?H3, ?H4, ?H5, ?H6, ?H7; assumption.
  Qed.

  Lemma sameA_refl s : sameA s s.
  Proof. repeat split. Qed.

  Lemma sameA_on_result s c r st : sameA s (on_result_step St s c r st).
  Proof.
    unfold on_result_step. destruct st as [|[p|p|]]; repeat split.
  Qed.

  Lemma sameA_timeout s i : sameA s (timeout_step St s i).
  Proof.
    unfold timeout_step. destruct (ph (callers s i)); try apply sameA_refl.
    destruct (c_flag _); repeat split.
  Qed.

  Lemma Forall_lt_S (l : list N) n : Forall (fun k => k < n) l -> Forall (fun k => k < n + 1) l.
  Proof. intro H. eapply Forall_impl; [|exact H]. simpl. intros. lia. Qed.

  Lemma fresh_not_in (l : list N) n : Forall (fun k => k < n) l -> ~ In n l.
  Proof. intros H Hin. rewrite Forall_forall in H. specialize (H _ Hin). lia. Qed.

  Lemma invA_caller s i : invA s -> invA (caller_step St maxSize s i).
  Proof.
    intros [I1 I2 I3 I4 I5 I6]. unfold caller_step.
    destruct (ph (callers s i)) as [|c|c].
    - destruct (prog (callers s i)) as [|[p k] rest]; [constructor; assumption|].
      destruct (maxSize <? N.of_nat (length (queue s))) eqn:Hfull.
      + constructor; unfold puts, att_ids in *; simpl; try assumption.
        * rewrite filter_snoc. simpl. assumption.
        * rewrite map_app, Forall_app. split; [apply Forall_lt_S; assumption|].
          constructor; [simpl; lia|constructor].
        * rewrite map_app. simpl. apply NoDup_snoc; [assumption|]. apply fresh_not_in; assumption.
      + apply N.ltb_ge in Hfull.
        constructor; unfold puts, att_ids in *; simpl; try assumption.
        * rewrite filter_snoc. simpl. rewrite map_app. simpl. rewrite app_assoc, I1. reflexivity.
        * rewrite app_length. simpl. lia.
        * rewrite map_app, Forall_app. split; [apply Forall_lt_S; assumption|].
          constructor; [simpl; lia|constructor].
        * rewrite map_app. simpl. apply NoDup_snoc; [assumption|]. apply fresh_not_in; assumption.
    - destruct (kind c); constructor; assumption.
    - destruct (c_flag _); constructor; assumption.
  Qed.

  Lemma invA_get s : invA s -> invA (get_step St s).
  Proof.
    intros [I1 I2 I3 I4 I5 I6]. unfold get_step.
    destruct (queue s) as [|c q] eqn:Hq; [constructor; try assumption; rewrite Hq; assumption|].
    constructor; unfold puts, att_ids in *; simpl in *; try assumption.
    - rewrite <- app_assoc. simpl. assumption.
    - lia.
    - rewrite app_assoc, I3. reflexivity.
  Qed.

  Lemma invA_apply s : invA s -> invA (apply_step St complete s).
  Proof.
    intros [I1 I2 I3 I4 I5 I6]. unfold apply_step.
    destruct (pending s) as [|c p] eqn:Hp; [constructor; try assumption; rewrite Hp; assumption|].
    destruct (complete c (ust s)) as [u' r] eqn:Hc.
    constructor; unfold puts, att_ids in *; simpl in *; try assumption.
    - rewrite map_app. simpl. rewrite <- app_assoc. simpl. assumption.
    - rewrite map_app. simpl. rewrite (exec_snoc _ _ _ _ _ I6), Hc. reflexivity.
  Qed.

  Lemma invA_step s a : invA s -> invA (step s a).
  Proof.
    intro I. destruct a as [i|i| |]; simpl.
    - apply invA_caller; assumption.
    - eapply invA_sameA; [apply sameA_timeout|assumption].
    - destruct (tick_pc s) as [[[c r] st]|].
      + eapply invA_sameA; [apply sameA_on_result|assumption].
      + apply invA_get; assumption.
    - destruct (tick_pc s) as [[[c r] st]|].
      + eapply invA_sameA; [apply sameA_on_result|assumption].
      + apply invA_apply; assumption.
  Qed.

  Lemma invA_run sched s : invA s -> invA (run s sched).
  Proof.
    revert s. induction sched as [|a sched IH]; simpl; intros s I; [assumption|].
    apply IH. apply invA_step. assumption.
  Qed.

  (* ---- consequences ---- *)
  Lemma puts_ids_nodup s : invA s -> NoDup (map cid (puts s)).
  Proof.
    intros I. pose proof (a_nd s I) as H. unfold att_ids, puts in *.
    rewrite map_map. apply NoDup_map_filter. assumption.
  Qed.

  Lemma deq_ids_nodup s : invA s -> NoDup (map cid (deq s)).
  Proof.
    intros I. pose proof (puts_ids_nodup s I) as H. rewrite <- (a_fifo s I), map_app in H.
    eapply NoDup_app_l; eassumption.
  Qed.

  Lemma done_ids_nodup s : invA s -> NoDup (map cid (map fst (done s))).
  Proof.
    intros I. pose proof (deq_ids_nodup s I) as H. rewrite <- (a_disp s I), map_app in H.
    eapply NoDup_app_l; eassumption.
  Qed.

  Lemma accepted_rejected_disjoint s c d :
    invA s -> In c (puts s) -> In d (rejected s) -> cid c <> cid d.
  Proof.
    intros I Hc Hd. pose proof (a_nd s I) as H. unfold att_ids, puts, rejected in *.
    induction (attempts s) as [|[x b] l IH]; simpl in *; [contradiction|].
    inversion H as [|? ? Hx Hl]; subst.
    assert (Hin : forall y p, In y (map fst (filter p l)) -> In (cid y) (map (fun z => cid (fst z)) l)).
    { intros y p Hy. rewrite in_map_iff in Hy. destruct Hy as [[y' b'] [Hy1 Hy2]]. simpl in Hy1. subst.
      apply filter_In in Hy2. rewrite in_map_iff. exists (y, b'). tauto. }
    destruct b; simpl in *.
    - destruct Hc as [Hc|Hc].
      + subst. intro E. apply Hx. rewrite E. eapply Hin; eassumption.
      + apply IH; assumption.
    - destruct Hd as [Hd|Hd].
      + subst. intro E. apply Hx. rewrite <- E. eapply Hin; eassumption.
      + apply IH; assumption.
  Qed.

  Lemma in_deq_in_puts s c : invA s -> In c (deq s) -> In c (puts s).
  Proof. intros I H. rewrite <- (a_fifo s I). apply in_or_app. left; assumption. Qed.

  Lemma in_pending_in_deq s c : invA s -> In c (pending s) -> In c (deq s).
  Proof. intros I H. rewrite <- (a_disp s I). apply in_or_app. right; assumption. Qed.

  Lemma in_done_in_deq s c r : invA s -> In (c, r) (done s) -> In c (deq s).
  Proof.
    intros I H. rewrite <- (a_disp s I). apply in_or_app. left.
    rewrite in_map_iff. exists (c, r). tauto.
  Qed.

  Lemma in_queue_in_puts s c : invA s -> In c (queue s) -> In c (puts s).
  Proof. intros I H. rewrite <- (a_fifo s I). apply in_or_app. right; assumption. Qed.

  Lemma in_puts_lt s c : invA s -> In c (puts s) -> cid c < next_id s.
  Proof.
    intros I H. pose proof (a_lt s I) as Hl. rewrite Forall_forall in Hl. apply Hl.
    unfold att_ids, puts in *. rewrite in_map_iff in H. destruct H as [[y b] [Hy1 Hy2]]. simpl in Hy1; subst.
    apply filter_In in Hy2. rewrite in_map_iff. exists (c, b). tauto.
  Qed.

  Lemma in_rejected_lt s c : invA s -> In c (rejected s) -> cid c < next_id s.
  Proof.
    intros I H. pose proof (a_lt s I) as Hl. rewrite Forall_forall in Hl. apply Hl.
    unfold att_ids, rejected in *. rewrite in_map_iff in H. destruct H as [[y b] [Hy1 Hy2]]. simpl in Hy1; subst.
    apply filter_In in Hy2. rewrite in_map_iff. exists (c, b). tauto.
  Qed.

End A.
