(* Tier CM3 (copy of RefineMMain.v, target [kstep3]; the fragment WITHOUT [tg_ok], see below).
   Tier CM, part 10 (adapted from RefineMain.v): the refinement theorem for runs WITH membership
   changes.  Every L1 run of the fragment from [ginit] has a corresponding [kreachable] AbstractM
   state related to its final state by [R]; every L1 step is simulated by finitely many [kstep]s. *)
From Coq Require Import ZArith NArith List Bool Lia ZifyBool Arith PeanoNat.
From RecordUpdate Require Import RecordSet.
From PSO Require Import Raft.Types Raft.Node Raft.Net Raft.Obs Raft.ProofsCommitBase Raft.ProofsCommit.
From PSO Require Import Raft.ProofsElectionBase Raft.ProofsElectionFrame Raft.ProofsElectionStep
  Raft.ProofsElectionGhost.
From PSO Require Import Raft.ProofsMembership Raft.ProofsMembershipInv.
From PSO Require Import Raft.RefineMAbs Raft.RefineM3Abs Raft.RefineMEff Raft.RefineM3Eff Raft.RefineMCfg Raft.RefineM3K Raft.RefineMSpecA Raft.RefineM3Sim
  Raft.RefineM3TickA Raft.RefineM3TickB Raft.RefineM3MsgA Raft.RefineM3MsgB Raft.RefineMGlobal Raft.RefineM3Global Raft.RefineMRO.
From PSO Require Import Raft.RefineMMain.
From PSO Require AbstractM.Model AbstractM.Lib AbstractM.Kstep AbstractM.Cfg AbstractM.Safety10_NoTguardD.
Import ListNotations.
Import RecordSetNotations.
Open Scope N_scope.

(* ------------------------------------------------------------------------------------------ *)
(* the fragment: as RefineMMain ([small_evM], [ev_okM], [valid_fromM], [join_ok], [nodes_idleM], [validM]
   are the SAME definitions), but [tg_ok] is replaced by
     [tg3_ok] - a tick moves the term of a node only if the node is a member by its own log OR a pure
       joiner ([purej1]: not an initial voter and no add-command naming it anywhere in its log).  So a
       freshly started joiner that has not yet received its own add entry MAY time out and stand
       for election.  Still excluded: a node that holds an add and a later removal of itself, is not
       a member by its log, and times out (it exists only if an id is removed and added again);
     [mf_ok] - the transport's member filter (Props/C14; harness/raft_corr.py [can_link]) for the one
       message for which safety needs it: a RequestVote is delivered from a to b only while both
       run and each has the other in its member table.  Net.v does not enforce this ([EConnect],
       [EDeliver] are free), the generators do.                                               *)

Definition tg3_ok (c : conf) (V : list nid) (g : gstate) (ev : event) (r : option (nid * S)) : bool :=
  match ev, r with
  | ETick n _ _ _ _ _, Some (_, S1) =>
      match aget n (nodes g) with
      | Some x => (term (nd S1) =? term x) || memb c V n x || purej1 V n x
      | None => true
      end
  | _, _ => true
  end.

Definition mf_ok (g : gstate) (ev : event) : bool :=
  match ev with
  | EDeliver a b _ _ _ =>
      match chan_get a b g with
      | RequestVote _ _ _ :: _ =>
          match aget a (nodes g), aget b (nodes g) with
          | Some xa, Some xb => smem b (others xa) && smem a (others xb)
          | _, _ => false
          end
      | _ => true
      end
  | _ => true
  end.

Fixpoint run_okM3 (c : conf) (V : list nid) (g : gstate) (evs : list event) : bool :=
  match evs with
  | [] => true
  | ev :: r =>
    small_evM c ev && join_ok V g ev && mf_ok g ev &&
    match gstep c g ev with
    | Some (g', res) => nodes_idleM g' && tg3_ok c V g ev res && run_okM3 c V g' r
    | None => true
    end
  end.

Definition core_fragM3 (c : conf) (V : list nid) (evs : list event) : Prop :=
  dyn c = true /\ file_dump c = false /\ 1 < batch c /\ validM V evs = true /\ run_okM3 c V ginit evs = true.

(* [tg_ok] implies [tg3_ok]: the old fragment (with the member filter) is part of the new one *)
Lemma tg_ok_tg3_ok c V g ev r : tg_ok c V g ev r = true -> tg3_ok c V g ev r = true.
Proof.
  unfold tg_ok, tg3_ok. destruct ev; auto. destruct r as [[? S1]|]; auto.
  destruct (aget n (nodes g)); auto. intros H. rewrite H. reflexivity.
Qed.

Section Main.
Variable c : conf.
Variable V : list nid.
Hypothesis NDV : NoDup V.
Hypothesis SV : ssorted V.
Hypothesis VNE : V <> [].
Hypothesis VRO : forall v, In v V -> v < RO_BASE.
Hypothesis Hb1 : 1 < batch c.
Hypothesis Hdyn : dyn c = true.
Hypothesis Hfd : file_dump c = false.
Set Default Proof Using "All".

Notation V' := (absV V).
Notation Rn := (Rn c).
Notation Rmsg := (Rmsg c).
Notation Hn := (Hn c V).
Notation R := (R c V).
Notation ksn := (ksn V).
Notation kstar := (kstar V).
Notation LS := (LS c V).
Notation LS_ksn := (LS_ksn c V NDV SV VNE VRO Hb1).
Notation LS_same := (LS_same c V NDV SV VNE VRO Hb1).
Notation Rn_rv := (Rn_rv c V NDV SV VNE VRO Hb1).
Notation Hn_hv := (Hn_hv c V NDV SV VNE VRO Hb1).
Notation LS_start := (LS_start c V NDV SV VNE VRO Hb1).
Notation R_finish := (R_finish c V NDV SV VNE VRO Hb1).
Notation El_finish := (El_finish c V NDV SV VNE VRO Hb1).
Notation R_shrink := (R_shrink c V NDV SV VNE VRO Hb1).
Notation vf s j := (M.votesFrom (M.nodes s (n2 j))).

Record GI (g : gstate) (st : list nid) (s : M.state) : Prop := {
  GI_sorted : ksorted (nodes g);
  GI_run : forall v x, aget v (nodes g) = Some x -> v < RO_BASE -> In v st;
  GI_disk : forall v d, In (v, d) (disks g) -> v < RO_BASE -> In v st;
  GI_reach : K3.kreachable3 V' F3 s;
  GI_R : R g st s
}.

Lemma Hn_oth_lt n x f : Hn n x -> In f (others x) -> f < RO_BASE.
Proof.
  intros HH Hf. rewrite (H_oth _ _ _ _ HH) in Hf.
  eapply fold_members_lt; [|apply (H_small _ _ _ _ HH)|exact Hf].
  intros y Hy. apply VRO. unfold vminus in Hy. apply filter_In in Hy. tauto.
Qed.

(* ---- connection bookkeeping keeps the node relation ---- *)
Lemma Rn_on_connected n b x s : Rn n x s -> Rn n (on_connected b x) s.
Proof.
  intros [A0 A1 A2 A3 A4 A5 A6 A7 A8 A9]. unfold on_connected.
  destruct (RO_BASE <=? b) eqn:E; constructor; cbn; auto.
  intros f m Hf Hne Hg. rewrite ProofsElectionBase.aget_aset in Hg.
  destruct (f =? b) eqn:Ef; [|eauto]. injection Hg as <-. lia.
Qed.

Lemma Hn_on_connected n b x : Hn n x -> Hn n (on_connected b x).
Proof.
  intros [B1 B2 B3 B4 B5 B6 B7 B8 B9 B10]. unfold on_connected.
  destruct (RO_BASE <=? b) eqn:E; constructor; cbn; auto.
  apply N.leb_le in E. rewrite Forall_forall in *. intros y Hy. apply In_sadd in Hy as [->|Hy]; auto.
Qed.

Lemma Rn_on_disconnected n b x s : Hn n x -> Rn n x s -> Rn n (on_disconnected b x) s.
Proof.
  intros HH [A0 A1 A2 A3 A4 A5 A6 A7 A8 A9]. unfold on_disconnected.
  destruct (RO_BASE <=? b) eqn:E; constructor; cbn; auto.
  intros f m Hf Hne Hg. apply N.leb_le in E.
  rewrite aget_adel_neq in Hg; [eauto|]. intros ->. pose proof (Hn_oth_lt n x b HH Hf). lia.
Qed.

Lemma In_sdel_in x y l : In y (sdel x l) -> In y l.
Proof.
  induction l as [|a l IH]; cbn; auto. destruct (x =? a); cbn; auto. intros [H|H]; auto.
Qed.

Lemma Hn_on_disconnected n b x : Hn n x -> Hn n (on_disconnected b x).
Proof.
  intros [B1 B2 B3 B4 B5 B6 B7 B8 B9 B10]. unfold on_disconnected.
  destruct (RO_BASE <=? b) eqn:E; constructor; cbn; auto; try (rewrite B3; reflexivity).
  rewrite Forall_forall in *. intros y Hy. apply In_sdel_in in Hy. auto.
Qed.

Lemma LS_idle n s e x y :
  LS n s (start_S e x) -> Rn n y s -> Hn n y -> self y = self x -> LS n s (idle_S y).
Proof.
  intros L RN HH Hs.
  apply (LS_ksn n s s (start_S e x) (idle_S y)).
  - constructor.
  - exact L.
  - exact RN.
  - exact HH.
  - cbn [nd idle_S]. rewrite Hs. apply (LS_self _ _ _ _ _ L).
  - exists []. split; [reflexivity|]. apply Ro_nil.
Qed.

(* ---- the common ending of a step of a running voter ---- *)
Lemma GI_finish g g0 st s s' n x (S1 : Node.S) :
  GI g st s -> aget n (nodes g) = Some x -> n < RO_BASE ->
  nodes g0 = nodes g -> disks g0 = disks g -> (forall a b m, In m (chan_get a b g0) -> In m (chan_get a b g)) ->
  (forall a b T, (cnt (is_rv T) (chan_get a b g0) <= cnt (is_rv T) (chan_get a b g))%nat) ->
  ksn (n2 n) s s' -> LS n s' S1 ->
  term x <= term (nd S1) -> outspec x S1 ->
  (role (nd S1) = CANDIDATE -> term (nd S1) = term x ->
     votes (nd S1) = votes x \/
     exists a0, a0 <> n /\
       (cnt (is_rv (term x)) (chan_get a0 n g0) + 1 <= cnt (is_rv (term x)) (chan_get a0 n g))%nat /\
       forall v, In v (vf s' n) -> v = n2 a0 \/ In v (vf s n)) ->
  GI (finish n S1 g0) st s'.
Proof.
  intros [Gs Gr Gd HR RR] Hx Hlt En Ed Hch Hcn K L Ht Ho Hv.
  pose proof (Gr n x Hx Hlt) as Hst.
  assert (Nf : nodes (finish n S1 g0) = aset n (nd S1) (nodes g)) by (rewrite nodes_finish, En; reflexivity).
  constructor.
  - rewrite Nf. apply ksorted_aset. exact Gs.
  - intros v y Hy. rewrite Nf, ProofsElectionBase.aget_aset in Hy.
    destruct (v =? n) eqn:Ev; [apply N.eqb_eq in Ev; subst v; auto|]. apply (Gr v y Hy).
  - intros v d Hd. apply (Gd v d). rewrite <- Ed. unfold finish in Hd.
    destruct (route_nodes n (outs S1) (put_node n (nd S1) g0)) as [_ Dd]. rewrite Dd in Hd. exact Hd.
  - eapply ksn_kreachable; eauto.
  - apply (R_finish g g0 st s s' n x S1); auto.
    apply (El_finish g g0 st s s' n x S1); auto.
Qed.

Lemma GI_chan g g' st s :
  GI g st s -> nodes g' = nodes g -> disks g' = disks g ->
  (forall a b m, In m (chan_get a b g') -> In m (chan_get a b g)) ->
  (forall a b T, (cnt (is_rv T) (chan_get a b g') <= cnt (is_rv T) (chan_get a b g))%nat) ->
  GI g' st s.
Proof.
  intros [Gs Gr Gd HR RR] En Ed Hch Hcn. constructor; try (rewrite En); try (rewrite Ed); auto.
  apply (R_shrink g g' st st s RR); auto.
  - intros v y Hy Hv. rewrite En in Hy. split; [apply (R_node _ _ _ _ _ RR v y Hy Hv)|apply (R_hyg _ _ _ _ _ RR v y Hy Hv)].
  - intros v y Hy _ _. rewrite <- En. exact Hy.
  - intros v y Hy Hv. rewrite En in Hy. apply (R_ro _ _ _ _ _ RR v y Hy Hv).
  - apply incl_refl.
Qed.

Lemma cnt_chan_set_le (f : msg -> bool) a b a' b' q g :
  (cnt f q <= cnt f (chan_get a' b' g))%nat ->
  (cnt f (chan_get a b (chan_set a' b' q g)) <= cnt f (chan_get a b g))%nat.
Proof.
  intros H. rewrite chan_get_set. destruct ((a =? a') && (b =? b')) eqn:E; [|lia].
  apply andb_true_iff in E as [E1 E2]. apply N.eqb_eq in E1, E2. subst. exact H.
Qed.

Lemma outspec_nil x (S1 : Node.S) : (forall d m, ~ In (Send d m) (outs S1)) -> outspec x S1.
Proof.
  intros H T d. left. unfold cnt. induction (outs S1) as [|o os IH]; [reflexivity|].
  cbn [filter]. destruct (rvto T d o) eqn:E.
  - destruct o as [d' m| | | |]; try discriminate. exfalso. apply (H d' m). left. reflexivity.
  - apply IH. intros d' m Hin. apply (H d' m). right. exact Hin.
Qed.

(* a step that only touches L1 bookkeeping of voter n *)
Lemma GI_idle g g0 st s n x y :
  GI g st s -> aget n (nodes g) = Some x -> n < RO_BASE ->
  nodes g0 = nodes g -> disks g0 = disks g -> (forall a b m, In m (chan_get a b g0) -> In m (chan_get a b g)) ->
  (forall a b T, (cnt (is_rv T) (chan_get a b g0) <= cnt (is_rv T) (chan_get a b g))%nat) ->
  Rn n y s -> Hn n y -> self y = self x -> term y = term x -> votes y = votes x ->
  GI (finish n (idle_S y) g0) st s.
Proof.
  intros G Hx Hlt En Ed Hch Hcn RN HH Hs Ht Hv.
  pose proof (LS_start g st s (mk_env c 0 0 0 [] 0) n x (GI_reach _ _ _ G) (GI_R _ _ _ G) Hx Hlt) as L0.
  apply (GI_finish g g0 st s s n x (idle_S y) G Hx Hlt En Ed Hch Hcn (ksn_refl _ _ _)).
  - apply (LS_idle n s _ x y L0 RN HH Hs).
  - cbn. lia.
  - apply outspec_nil. intros d m [].
  - intros _ _. left. exact Hv.
Qed.

(* the API calls: the command goes to the queue *)
Lemma submit_spec e cm cb x :
  let S1 := submit e cm (cb_of cb) (start_S e x) in
  term (nd S1) = term x /\ votes (nd S1) = votes x /\ forall d m, ~ In (Send d m) (outs S1).
Proof.
  cbv zeta. unfold submit. destruct (_ <? _).
  - rewrite nd_call_err. cbn. repeat split. unfold cb_of. destruct (cb =? 0); cbn; intros d m H; [exact H|].
    destruct H as [H|[]]. discriminate.
  - cbn. repeat split. intros d m [].
Qed.

(* ---- ETick ---- *)
Lemma step_tick g st s n now rnd bud ord sl x :
  GI g st s -> aget n (nodes g) = Some x -> n < RO_BASE ->
  let e := mk_env c now rnd bud ord sl in
  pid (sr (nd (on_tick e x))) = 0 ->
  (term (nd (on_tick e x)) =? term x) || memb c V n x || purej1 V n x = true ->
  exists s', kstar s s' /\ GI (finish n (on_tick e x) g) st s'.
Proof.
  intros G Hx Hlt e Hpid Htg.
  pose proof (LS_start g st s e n x (GI_reach _ _ _ G) (GI_R _ _ _ G) Hx Hlt) as L0.
  destruct (sim_on_tick c V NDV SV VNE VRO Hb1 Hdyn Hfd e eq_refl n x s L0 Hpid) as (s' & K & L).
  { intros Hne. apply orb_true_iff in Htg as [Htg|Hm]; [|right; exact Hm].
    apply orb_true_iff in Htg as [Ht|Hm]; [apply N.eqb_eq in Ht; contradiction|left; exact Hm]. }
  destruct (spec_tick e x) as (T1 & T2 & T3). cbv zeta in T1, T2, T3.
  exists s'. split; [eapply ksn_kstar; eauto|].
  apply (GI_finish g g st s s' n x (on_tick e x) G Hx Hlt eq_refl eq_refl (fun _ _ _ H => H) (fun _ _ _ => le_n _) K L T1 T2).
  intros Hr Ht. left. auto.
Qed.

(* ---- EDeliver ---- *)
Lemma step_deliver g st s a b now rnd ord x m rest :
  GI g st s -> aget b (nodes g) = Some x -> b < RO_BASE -> chan_get a b g = m :: rest ->
  mf_ok g (EDeliver a b now rnd ord) = true ->
  let e := mk_env c now rnd DEFAULT_BUDGET ord 0 in
  exists s', kstar s s' /\ GI (finish b (on_message e a m x) (chan_set a b rest g)) st s'.
Proof.
  intros G Hx Hlt Hch Hmf e.
  pose proof G as [Gs Gr Gd HR RR].
  assert (Hm : Rmsg a b m s).
  { apply (R_msg _ _ _ _ _ RR a b m). rewrite Hch. left. reflexivity. }
  assert (Hc1 : forall a' b' m', In m' (chan_get a' b' (chan_set a b rest g)) -> In m' (chan_get a' b' g)).
  { intros a' b' m' Hin. rewrite chan_get_set in Hin.
    destruct ((a' =? a) && (b' =? b)) eqn:E; auto.
    apply andb_true_iff in E as [E1 E2]. apply N.eqb_eq in E1, E2. subst. rewrite Hch. right. exact Hin. }
  assert (Hc2 : forall a' b' T, (cnt (is_rv T) (chan_get a' b' (chan_set a b rest g)) <= cnt (is_rv T) (chan_get a' b' g))%nat).
  { intros a' b' T. apply cnt_chan_set_le. rewrite Hch, cnt_cons. lia. }
  pose proof (LS_start g st s e b x HR RR Hx Hlt) as L0.
  assert (Hsim : exists s', ksn (n2 b) s s' /\ LS b s' (on_message e a m x) /\
            (role (nd (on_message e a m x)) = CANDIDATE -> m = ResponseVote (term x) -> role x = CANDIDATE ->
             forall v, In v (vf s' b) -> v = n2 a \/ In v (vf s b))).
  { destruct m as [t li lt|t|t cm prev es|t cm prev lab off len en|t cm p|cm req|req okr p q|t nx rs su].
    - assert (Hlk : M.linked s (n2 a) (n2 b) = true).
      { cbn [mf_ok] in Hmf. rewrite Hch, Hx in Hmf.
        destruct (aget a (nodes g)) as [xa|] eqn:Hxa; [|discriminate].
        apply andb_true_iff in Hmf as [Hba Hab].
        destruct Hm as (Ha & _).
        pose proof (LS_start g st s e a xa HR RR Hxa Ha) as La.
        unfold M.linked. rewrite (LS_up c V NDV SV VNE VRO Hb1 _ _ _ La), (LS_up c V NDV SV VNE VRO Hb1 _ _ _ L0).
        rewrite (ms_mem _ _ a (LS_ms c V NDV SV VNE VRO Hb1 _ _ _ L0)).
        rewrite (ms_mem _ _ b (LS_ms c V NDV SV VNE VRO Hb1 _ _ _ La)).
        cbn [nd start_S]. rewrite Hab, Hba. reflexivity. }
      destruct (sim_msg_rv c V NDV SV VNE VRO Hb1 Hdyn Hfd e eq_refl b a x s t li lt L0 Hm Hlk) as (s' & K & L).
      exists s'. split; [exact K|]. split; [exact L|]. intros _ H. discriminate.
    - destruct (sim_msg_vote c V NDV SV VNE VRO Hb1 Hdyn Hfd e eq_refl b a x s t L0) as (s' & K & L & Hv).
      { intros Hr Ht. destruct Hm as (Ha & Hab & Hvote & Hbd & Hck).
        pose proof (R_node _ _ _ _ _ RR b x Hx Hlt) as RN.
        split; [|split; [exact Hvote|]].
        - pose proof (R_el _ _ _ _ _ RR a b x Hx Hlt Hr Hab) as Hel. rewrite Hch, cnt_cons in Hel.
          cbn [is_rv] in Hel. rewrite Ht, N.eqb_refl in Hel.
          destruct (M.mem (n2 a) (vf s b)) eqn:Em; [lia|]. apply MC.mem_not_In. exact Em.
        - apply Hck; [rewrite (Rn_term _ _ _ _ RN), Ht; reflexivity|rewrite (Rn_role _ _ _ _ RN), Hr; reflexivity]. }
      exists s'. split; [exact K|]. split; [exact L|]. intros Hr _ _. apply Hv. exact Hr.
    - destruct (sim_msg_ae c V NDV SV VNE VRO Hb1 Hdyn Hfd e eq_refl b a x s t cm prev es L0 Hm) as (s' & K & L).
      exists s'. split; [exact K|]. split; [exact L|]. intros _ H. discriminate.
    - destruct Hm.
    - destruct (sim_msg_aesnap c V NDV SV VNE VRO Hb1 Hdyn Hfd e eq_refl b a x s t cm p L0 Hm) as (s' & K & L).
      exists s'. split; [exact K|]. split; [exact L|]. intros _ H. discriminate.
    - destruct (sim_msg_applycmd c V NDV SV VNE VRO Hb1 Hdyn Hfd e eq_refl b a x s cm req L0 Hm) as (s' & K & L).
      exists s'. split; [exact K|]. split; [exact L|]. intros _ H. discriminate.
    - destruct (sim_msg_applyresp c V NDV SV VNE VRO Hb1 Hdyn Hfd e eq_refl b a x s req okr p q L0) as (s' & K & L).
      exists s'. split; [exact K|]. split; [exact L|]. intros _ H. discriminate.
    - destruct (sim_msg_nextidx c V NDV SV VNE VRO Hb1 Hdyn Hfd e eq_refl b a x s t nx rs su L0 Hm) as (s' & K & L).
      exists s'. split; [exact K|]. split; [exact L|]. intros _ H. discriminate. }
  destruct Hsim as (s' & K & L & Hv).
  destruct (spec_msg e a m x) as (T1 & T2 & T3). cbv zeta in T1, T2, T3.
  exists s'. split; [eapply ksn_kstar; eauto|].
  apply (GI_finish g (chan_set a b rest g) st s s' b x (on_message e a m x) G Hx Hlt eq_refl eq_refl Hc1 Hc2 K L T1 T2).
  intros Hr Ht. destruct (T3 Hr Ht) as [Hs|[Hmv Hrx]]; [left; exact Hs|right].
  exists a. split.
  - subst m. destruct Hm as (_ & Hab & _). exact Hab.
  - split; [|apply Hv; auto].
    rewrite chan_get_set, !N.eqb_refl. cbn [andb]. rewrite Hch, cnt_cons. subst m. cbn [is_rv]. rewrite N.eqb_refl. lia.
Qed.

(* ---- an API call that queues a command ---- *)
Lemma step_submit g st s n x cm cb :
  GI g st s -> aget n (nodes g) = Some x -> n < RO_BASE -> small_cmd c cm ->
  let e := mk_env c 0 0 DEFAULT_BUDGET [] 0 in
  GI (finish n (submit e cm (cb_of cb) (start_S e x)) g) st s.
Proof.
  intros G Hx Hlt Hcm e.
  pose proof (LS_start g st s e n x (GI_reach _ _ _ G) (GI_R _ _ _ G) Hx Hlt) as L0.
  destruct (submit_spec e cm cb x) as (T1 & T2 & T3). cbv zeta in T1, T2, T3.
  apply (GI_finish g g st s s n x _ G Hx Hlt eq_refl eq_refl (fun _ _ _ H => H) (fun _ _ _ => le_n _) (ksn_refl _ _ _)).
  - apply (sim_submit c V NDV SV VNE VRO Hb1 Hdyn Hfd e eq_refl n cm (cb_of cb) (start_S e x) s L0 Hcm).
  - rewrite T1. lia.
  - apply outspec_nil. exact T3.
  - intros _ _. left. exact T2.
Qed.

Lemma step_noop g st s n x (S1 : Node.S) (e : env) :
  GI g st s -> aget n (nodes g) = Some x -> n < RO_BASE -> nd S1 = x -> outs S1 = [] ->
  GI (finish n S1 g) st s.
Proof.
  intros G Hx Hlt En Eo.
  pose proof (LS_start g st s e n x (GI_reach _ _ _ G) (GI_R _ _ _ G) Hx Hlt) as L0.
  apply (GI_finish g g st s s n x _ G Hx Hlt eq_refl eq_refl (fun _ _ _ H => H) (fun _ _ _ => le_n _) (ksn_refl _ _ _)).
  - apply (LS_same n s (start_S e x)); auto.
  - rewrite En. lia.
  - apply outspec_nil. rewrite Eo. intros d m [].
  - intros _ _. left. rewrite En. reflexivity.
Qed.

Lemma In_aget_sorted {A} (k : N) (v : A) l : ksorted l -> In (k, v) l -> aget k l = Some v.
Proof.
  induction l as [|[k0 v0] r IH]; intros Hs Hin; [destruct Hin|].
  destruct Hs as [Hlb Hs]. cbn [aget]. destruct Hin as [Hin|Hin].
  - injection Hin as -> ->. rewrite N.eqb_refl. reflexivity.
  - destruct (N.eqb_spec k k0) as [->|Ne]; [|auto].
    exfalso. assert (Hk : In k0 (map fst r)) by (apply in_map_iff; exists (k0, v); auto).
    specialize (Hlb k0 Hk). cbn in Hlb. lia.
Qed.

(* ---- a voter starts: its L0 node is in the initial state and Up ---- *)
Lemma GI_start g st0 st s1 s0 n e sv :
  cf e = c -> GI g st s1 -> K3.kreachable3 V' F3 s0 -> R g st0 s0 -> incl st0 (n :: st) -> n < RO_BASE -> ~ In n st ->
  pristine (M.nodes s0 (n2 n)) ->
  GI (put_node n (init_node e (Some n) (vminus n V) sv)
        (g <| chan := filter (fun c0 => negb ((fst (fst c0) =? n) || (snd (fst c0) =? n))) (chan g) |>)) (n :: st) s0.
Proof.
  intros Hce [Gs Gr Gd _ _] HR RR Hst Hnr Hnst (P1 & P2 & P3 & P4 & P5 & P6).
  set (x0 := init_node e (Some n) (vminus n V) sv) in *.
  assert (Hnodes : forall v y, aget v (aset n x0 (nodes g)) = Some y ->
            (v = n /\ y = x0) \/ (v <> n /\ aget v (nodes g) = Some y)).
  { intros v y Hy. rewrite ProofsElectionBase.aget_aset in Hy.
    destruct (v =? n) eqn:Ev.
    - apply N.eqb_eq in Ev. injection Hy as <-. auto.
    - apply N.eqb_neq in Ev. auto. }
  constructor; unfold put_node; cbn [nodes disks set].
  - apply ksorted_aset. exact Gs.
  - intros v y Hy. apply Hnodes in Hy as [[-> ->]|[Hne Hy]].
    + intros _. left. reflexivity.
    + intros Hv. right. apply (Gr v y Hy Hv).
  - intros v d Hd0 Hv. right. apply (Gd v d Hd0 Hv).
  - exact HR.
  - apply (R_shrink g _ st0 (n :: st) s0 RR); cbn [nodes set].
    + intros v y Hy Hv. apply Hnodes in Hy as [[-> ->]|[Hne Hy]];
        [|split; [apply (R_node _ _ _ _ _ RR v y Hy Hv)|apply (R_hyg _ _ _ _ _ RR v y Hy Hv)]].
      split; [|split].
      * constructor; unfold x0, init_node; cbn; auto.
        -- rewrite P4. unfold absE. cbn. rewrite Hce. fold (pk c). rewrite code_noop. reflexivity.
        -- intros Hx. compute in Hx. discriminate.
        -- intros f m _ _ Hx. discriminate.
        -- intros Hx. discriminate.
        -- intros Hx. discriminate.
      * constructor; unfold x0, init_node; cbn; auto; try lia.
        -- constructor; [|constructor]. unfold small, small_cmd. cbn. split; [exact Hb1|discriminate].
        -- apply pend_not_leader. cbn. discriminate.
      * reflexivity.
    + intros v y Hy Hv Hrole. apply Hnodes in Hy as [[-> ->]|[Hne Hy]]; [discriminate|exact Hy].
    + intros v y Hy Hv. apply Hnodes in Hy as [[-> ->]|[Hne Hy]]; [lia|apply (R_ro _ _ _ _ _ RR v y Hy Hv)].
    + intros a' b' m' Hin. apply (chan_get_kill n a' b' g m'). exact Hin.
    + intros a' b' T. apply (cnt_kill n a' b' g T).
    + exact Hst.
Qed.

(* ---- read-only nodes: no abstract step at all ---- *)
Lemma ro_out_Rmsg b d m s : RO_BASE <= b -> ro_msg c m -> Rmsg b d m s.
Proof.
  intros Hb Hm. destruct m; cbn in *; try contradiction; auto. intros _ Hlt. lia.
Qed.

Lemma ro_out_rvto T d os : Forall (ro_out c) os -> cnt (rvto T d) os = 0%nat.
Proof.
  induction os as [|o os IH]; intros H; [reflexivity|]. inversion H as [|? ? Ho Hr]; subst.
  rewrite cnt_cons, (IH Hr). destruct o as [d' m| | | |]; cbn [rvto]; auto. destruct m; auto. destruct Ho.
Qed.

Lemma Rmsg_ro_in a b m s : Rmsg a b m s -> ro_in c m.
Proof.
  destruct m as [t li lt|t|t cm [[pi pt]|] es|t cm prev lab off len en|t cm p|cm req|req okr p q|t nx rs su];
    cbn; auto.
  - intros (_ & _ & H & _). exact H.
  - intros (H & _). exact H.
Qed.

Lemma ROS_start g st s e b x :
  R g st s -> aget b (nodes g) = Some x -> RO_BASE <= b -> ROS c (start_S e x).
Proof.
  intros RR Hx Hge. destruct (R_ro _ _ _ _ _ RR b x Hx Hge) as (A & B & C).
  constructor; [exact A|exact B|exact C|constructor].
Qed.

Lemma ROS_idle e x y :
  ROS c (start_S e x) -> Hr c y -> self y = self x -> role y = role x -> ROS c (idle_S y).
Proof.
  intros [A1 A2 A3 A4] HH Hs Hr0. constructor; cbn [nd outs idle_S].
  - exact HH.
  - rewrite Hs. exact A2.
  - rewrite Hr0. exact A3.
  - constructor.
Qed.

Lemma Hr_on_connected b x : Hr c x -> Hr c (on_connected b x).
Proof.
  intros [B1 B2 B3 B4 B5 B6 B7 B8]. unfold on_connected.
  destruct (RO_BASE <=? b) eqn:E; constructor; cbn; auto.
  apply N.leb_le in E. rewrite Forall_forall in *. intros y Hy. apply In_sadd in Hy as [->|Hy]; auto.
Qed.

Lemma Hr_on_disconnected b x : Hr c x -> Hr c (on_disconnected b x).
Proof.
  intros [B1 B2 B3 B4 B5 B6 B7 B8]. unfold on_disconnected.
  destruct (RO_BASE <=? b) eqn:E; constructor; cbn; auto; try (rewrite B3; reflexivity).
  rewrite Forall_forall in *. intros y Hy. apply In_sdel_in in Hy. auto.
Qed.

Lemma GI_ro_step g g0 st s b x (S1 : Node.S) :
  GI g st s -> aget b (nodes g) = Some x -> RO_BASE <= b -> ROS c S1 ->
  nodes g0 = nodes g -> disks g0 = disks g -> (forall a' b' m, In m (chan_get a' b' g0) -> In m (chan_get a' b' g)) ->
  (forall a' b' T, (cnt (is_rv T) (chan_get a' b' g0) <= cnt (is_rv T) (chan_get a' b' g))%nat) ->
  GI (finish b S1 g0) st s.
Proof.
  intros [Gs Gr Gd HR RR] Hx Hge RS En Ed Hch Hcn.
  assert (Nf : nodes (finish b S1 g0) = aset b (nd S1) (nodes g)) by (rewrite nodes_finish, En; reflexivity).
  constructor.
  - rewrite Nf. apply ksorted_aset. exact Gs.
  - intros v y Hy Hv. rewrite Nf, ProofsElectionBase.aget_aset in Hy.
    destruct (v =? b) eqn:Ev; [apply N.eqb_eq in Ev; lia|]. apply (Gr v y Hy Hv).
  - intros v d Hd. apply (Gd v d). rewrite <- Ed. unfold finish in Hd.
    destruct (route_nodes b (outs S1) (put_node b (nd S1) g0)) as [_ Dd]. rewrite Dd in Hd. exact Hd.
  - exact HR.
  - constructor.
    + intros v y Hy Hv. rewrite Nf, ProofsElectionBase.aget_aset in Hy.
      destruct (v =? b) eqn:Ev; [apply N.eqb_eq in Ev; lia|]. apply (R_node _ _ _ _ _ RR v y Hy Hv).
    + apply (R_init _ _ _ _ _ RR).
    + apply (R_fresh _ _ _ _ _ RR).
    + intros a' b' m Hm. apply finish_chan in Hm as [Hm|[-> Hm]].
      * apply (R_msg _ _ _ _ _ RR a' b' m). auto.
      * apply ro_out_Rmsg; auto. pose proof (RO_o _ _ RS) as Ho. rewrite Forall_forall in Ho. apply (Ho _ Hm).
    + intros a' b' xb Hb Hblt Hrole Hab. rewrite Nf, ProofsElectionBase.aget_aset in Hb.
      destruct (b' =? b) eqn:Ev; [apply N.eqb_eq in Ev; lia|].
      pose proof (R_el _ _ _ _ _ RR a' b' xb Hb Hblt Hrole Hab) as Hold.
      pose proof (finish_cnt b S1 g0 a' b' (term xb)) as Hfc. specialize (Hcn a' b' (term xb)).
      rewrite (ro_out_rvto _ _ _ (RO_o _ _ RS)) in Hfc. destruct (a' =? b); lia.
    + intros v y Hy Hv. rewrite Nf, ProofsElectionBase.aget_aset in Hy.
      destruct (v =? b) eqn:Ev; [apply N.eqb_eq in Ev; lia|]. apply (R_hyg _ _ _ _ _ RR v y Hy Hv).
    + intros v y Hy Hv. rewrite Nf, ProofsElectionBase.aget_aset in Hy.
      destruct (v =? b) eqn:Ev; [|apply (R_ro _ _ _ _ _ RR v y Hy Hv)].
      injection Hy as <-. split; [apply (RO_h _ _ RS)|]. split; [apply (RO_self _ _ RS)|apply (RO_role _ _ RS)].
Qed.

(* ---- one step ---- *)
Theorem step_sim g st s ev g' r :
  GI g st s -> ev_okM V st ev = true -> join_ok V g ev = true -> small_evM c ev = true ->
  gstep c g ev = Some (g', r) -> nodes_idleM g' = true -> tg3_ok c V g ev r = true ->
  mf_ok g ev = true ->
  exists s', kstar s s' /\ GI g' (st_after st ev) s'.
Proof.
  intros G Hev Hnr Hsm Hstep Hidle Htg Hmf.
  pose proof G as [Gs Gr Gd HR RR].
  destruct ev as [n now rnd bud ord sl | a b now rnd ord | a b | a b k | a b | n cm cb | n cm cb | n cm cb
                 | n | n | n oth now rnd sv]; unfold gstep in Hstep; cbn [st_after].
  - (* ETick *)
    destruct (aget n (nodes g)) as [x|] eqn:Hx; [|discriminate].
    injection Hstep as <- <-. cbn [tg3_ok] in Htg. rewrite Hx in Htg.
    assert (Hpid : pid (sr (nd (on_tick (mk_env c now rnd bud ord sl) x))) = 0).
    { apply (node_idleM _ n _ Hidle). rewrite nodes_finish, ProofsElectionBase.aget_aset, N.eqb_refl. reflexivity. }
    destruct (N.ltb_spec n RO_BASE) as [Hlt|Hge].
    + apply step_tick; auto.
    + exists s. split; [constructor|].
      pose proof (ROS_start g st s (mk_env c now rnd bud ord sl) n x RR Hx Hge) as R0.
      pose proof (ro_on_tick c Hdyn Hfd (mk_env c now rnd bud ord sl) eq_refl x R0 Hpid) as RS.
      apply (GI_ro_step g g st s n x _ G Hx Hge RS eq_refl eq_refl (fun _ _ _ H => H) (fun _ _ _ => le_n _)).
  - (* EDeliver *)
    destruct (aget b (nodes g)) as [x|] eqn:Hx; [|discriminate].
    destruct (chan_get a b g) as [|m rest] eqn:Hch; [discriminate|].
    injection Hstep as <- <-.
    destruct (N.ltb_spec b RO_BASE) as [Hlt|Hge].
    + apply step_deliver; auto.
    + exists s. split; [constructor|].
      assert (Hm : Rmsg a b m s).
      { apply (R_msg _ _ _ _ _ RR a b m). rewrite Hch. left. reflexivity. }
      pose proof (ROS_start g st s (mk_env c now rnd DEFAULT_BUDGET ord 0) b x RR Hx Hge) as R0.
      pose proof (ro_on_message c Hdyn Hfd (mk_env c now rnd DEFAULT_BUDGET ord 0) eq_refl a m x R0 (Rmsg_ro_in a b m s Hm)) as RS.
      apply (GI_ro_step g (chan_set a b rest g) st s b x _ G Hx Hge RS eq_refl eq_refl).
      * intros a' b' m' Hin. rewrite chan_get_set in Hin.
        destruct ((a' =? a) && (b' =? b)) eqn:E; auto.
        apply andb_true_iff in E as [E1 E2]. apply N.eqb_eq in E1, E2. subst. rewrite Hch. right. exact Hin.
      * intros a' b' T. apply cnt_chan_set_le. rewrite Hch, cnt_cons. lia.
  - (* EDrop *)
    destruct (aget a (nodes g)) as [x|] eqn:Hx; [|discriminate].
    injection Hstep as <- <-. exists s. split; [constructor|].
    assert (G1 : GI (finish a (idle_S (on_disconnected b x)) g) st s).
    { destruct (N.ltb_spec a RO_BASE) as [Hlt|Hge].
      - destruct (R_hyg _ _ _ _ _ RR a x Hx Hlt) as [HH Hself].
        apply (GI_idle g g st s a x _ G Hx Hlt eq_refl eq_refl (fun _ _ _ H => H) (fun _ _ _ => le_n _)).
        + apply Rn_on_disconnected; [exact HH|apply (R_node _ _ _ _ _ RR a x Hx Hlt)].
        + apply Hn_on_disconnected. exact HH.
        + unfold on_disconnected; destruct (_ <=? _); reflexivity.
        + unfold on_disconnected; destruct (_ <=? _); reflexivity.
        + unfold on_disconnected; destruct (_ <=? _); reflexivity.
      - pose proof (ROS_start g st s (mk_env c 0 0 0 [] 0) a x RR Hx Hge) as R0.
        apply (GI_ro_step g g st s a x _ G Hx Hge); try reflexivity; auto.
        apply (ROS_idle (mk_env c 0 0 0 [] 0) x); auto.
        + apply Hr_on_disconnected. apply (RO_h _ _ R0).
        + unfold on_disconnected; destruct (_ <=? _); reflexivity.
        + unfold on_disconnected; destruct (_ <=? _); reflexivity. }
    apply (GI_chan _ _ st s G1); try reflexivity.
    + intros a' b' m' Hin. rewrite chan_get_set in Hin. destruct (_ && _); [destruct Hin|exact Hin].
    + intros a' b' T. apply cnt_chan_set_le. rewrite cnt_nil. lia.
  - (* ELose *)
    injection Hstep as <- <-. exists s. split; [constructor|].
    apply (GI_chan _ _ st s G); try reflexivity.
    + intros a' b' m' Hin. rewrite chan_get_set in Hin. destruct (_ && _) eqn:E; auto.
      apply andb_true_iff in E as [E1 E2]. apply N.eqb_eq in E1, E2. subst.
      eapply In_firstn_in; eauto.
    + intros a' b' T. apply cnt_chan_set_le. apply cnt_firstn_le.
  - (* EConnect *)
    destruct (aget a (nodes g)) as [x|] eqn:Hx; [|discriminate].
    injection Hstep as <- <-. exists s. split; [constructor|].
    match goal with |- context [finish a _ ?G1] => set (g1 := G1) in * end.
    assert (En : nodes g1 = nodes g /\ disks g1 = disks g).
    { subst g1. destruct (match aget b (nodes g) with Some y => negb (smem a (tconn y)) | None => true end); auto. }
    destruct En as [En Ed].
    assert (Hc1 : forall a' b' m', In m' (chan_get a' b' g1) -> In m' (chan_get a' b' g)).
    { intros a' b' m' Hin. subst g1.
      destruct (match aget b (nodes g) with Some y => negb (smem a (tconn y)) | None => true end); auto.
      rewrite !chan_get_set in Hin. destruct (_ && _); [destruct Hin|]. destruct (_ && _); [destruct Hin|exact Hin]. }
    assert (Hc2 : forall a' b' T, (cnt (is_rv T) (chan_get a' b' g1) <= cnt (is_rv T) (chan_get a' b' g))%nat).
    { intros a' b' T. subst g1.
      destruct (match aget b (nodes g) with Some y => negb (smem a (tconn y)) | None => true end); [|lia].
      eapply Nat.le_trans; [apply cnt_chan_set_le; rewrite cnt_nil; lia|].
      apply cnt_chan_set_le. rewrite cnt_nil. lia. }
    destruct (N.ltb_spec a RO_BASE) as [Hlt|Hge].
    + destruct (R_hyg _ _ _ _ _ RR a x Hx Hlt) as [HH Hself].
      apply (GI_idle g g1 st s a x _ G Hx Hlt En Ed Hc1 Hc2).
      * apply Rn_on_connected. apply (R_node _ _ _ _ _ RR a x Hx Hlt).
      * apply Hn_on_connected. exact HH.
      * unfold on_connected; destruct (_ <=? _); reflexivity.
      * unfold on_connected; destruct (_ <=? _); reflexivity.
      * unfold on_connected; destruct (_ <=? _); reflexivity.
    + pose proof (ROS_start g st s (mk_env c 0 0 0 [] 0) a x RR Hx Hge) as R0.
      apply (GI_ro_step g g1 st s a x _ G Hx Hge); auto.
      apply (ROS_idle (mk_env c 0 0 0 [] 0) x); auto.
      * apply Hr_on_connected. apply (RO_h _ _ R0).
      * unfold on_connected; destruct (_ <=? _); reflexivity.
      * unfold on_connected; destruct (_ <=? _); reflexivity.
  - (* ESubmit *)
    destruct (aget n (nodes g)) as [x|] eqn:Hx; [|discriminate].
    injection Hstep as <- <-. exists s. split; [constructor|].
    destruct (N.ltb_spec n RO_BASE) as [Hlt|Hge].
    + apply step_submit; auto. apply okc_small. exact Hsm.
    + pose proof (ROS_start g st s (mk_env c 0 0 DEFAULT_BUDGET [] 0) n x RR Hx Hge) as R0.
      apply (GI_ro_step g g st s n x _ G Hx Hge); try reflexivity; auto.
      unfold api_submit. apply ro_submit; [exact R0|apply okc_small; exact Hsm].
  - (* EAdmin *)
    destruct (aget n (nodes g)) as [x|] eqn:Hx; [|discriminate].
    injection Hstep as <- <-. exists s. split; [constructor|].
    unfold api_admin. change (dyn (cf (mk_env c 0 0 DEFAULT_BUDGET [] 0))) with (dyn c). rewrite Hdyn.
    destruct (N.ltb_spec n RO_BASE) as [Hlt|Hge].
    + apply step_submit; auto. apply okc_small. exact Hsm.
    + pose proof (ROS_start g st s (mk_env c 0 0 DEFAULT_BUDGET [] 0) n x RR Hx Hge) as R0.
      apply (GI_ro_step g g st s n x _ G Hx Hge); try reflexivity; auto.
      apply ro_submit; [exact R0|apply okc_small; exact Hsm].
  - (* ESetVer *)
    destruct (aget n (nodes g)) as [x|] eqn:Hx; [|discriminate].
    injection Hstep as <- <-. exists s. split; [constructor|].
    destruct (N.ltb_spec n RO_BASE) as [Hlt|Hge].
    + unfold api_setver. destruct (_ || _).
      * apply (step_noop g st s n x _ (mk_env c 0 0 DEFAULT_BUDGET [] 0)); auto.
      * apply step_submit; auto. apply okc_small. exact Hsm.
    + pose proof (ROS_start g st s (mk_env c 0 0 DEFAULT_BUDGET [] 0) n x RR Hx Hge) as R0.
      apply (GI_ro_step g g st s n x _ G Hx Hge); try reflexivity; auto.
      unfold api_setver. destruct (_ || _).
      * eapply ROS_same; eauto.
      * apply ro_submit; [exact R0|apply okc_small; exact Hsm].
  - (* ECompact *)
    destruct (aget n (nodes g)) as [x|] eqn:Hx; [|discriminate].
    injection Hstep as <- <-. exists s. split; [constructor|].
    destruct (N.ltb_spec n RO_BASE) as [Hlt|Hge].
    + destruct (R_hyg _ _ _ _ _ RR n x Hx Hlt) as [HH Hself].
      apply (GI_idle g g st s n x _ G Hx Hlt eq_refl eq_refl (fun _ _ _ H => H) (fun _ _ _ => le_n _)); try reflexivity.
      * eapply Rn_rv; [|apply (R_node _ _ _ _ _ RR n x Hx Hlt)]. reflexivity.
      * eapply Hn_hv; [|exact HH]. reflexivity.
    + pose proof (ROS_start g st s (mk_env c 0 0 0 [] 0) n x RR Hx Hge) as R0.
      apply (GI_ro_step g g st s n x _ G Hx Hge); try reflexivity; auto.
      apply (ROS_idle (mk_env c 0 0 0 [] 0) x); auto. eapply Hr_hv; [|apply (RO_h _ _ R0)]. reflexivity.
  - (* EKill *)
    injection Hstep as <- <-. exists s. split; [constructor|].
    set (g1 := match aget n (nodes g) with
               | Some x => match disk_of c x with
                           | Some d => g <| disks := aset n d (disks g) |>
                           | None => g <| disks := adel n (disks g) |> end
               | None => g end) in *.
    assert (N1 : nodes g1 = nodes g /\ chan g1 = chan g).
    { subst g1. destruct (aget n (nodes g)); [destruct (disk_of c n0)|]; auto. }
    destruct N1 as [N1 C1].
    assert (Hnodes : forall v y, aget v (adel n (nodes g)) = Some y -> aget v (nodes g) = Some y).
    { intros v y Hy. destruct (N.eq_dec v n) as [->|Hne].
      - rewrite ProofsElectionBase.aget_adel_same in Hy; [discriminate|exact Gs].
      - rewrite aget_adel_neq in Hy; auto. }
    constructor; cbn [nodes disks set]; rewrite ?N1.
    + apply ksorted_adel. exact Gs.
    + intros v y Hy. apply (Gr v y (Hnodes v y Hy)).
    + intros v d Hd. subst g1. destruct (aget n (nodes g)) as [x|] eqn:Hx; [|apply (Gd v d Hd)].
      destruct (disk_of c x); cbn [disks set] in Hd.
      * apply ProofsElectionBase.In_aset in Hd as [[-> _]|Hd]; [apply (Gr n x Hx)|apply (Gd v d Hd)].
      * apply (Gd v d). eapply ProofsElectionBase.In_adel; eauto.
    + exact HR.
    + apply (R_shrink g _ st st s RR); cbn [nodes set]; rewrite ?N1.
      * intros v y Hy Hv. apply Hnodes in Hy.
        split; [apply (R_node _ _ _ _ _ RR v y Hy Hv)|apply (R_hyg _ _ _ _ _ RR v y Hy Hv)].
      * intros v y Hy _ _. apply Hnodes. exact Hy.
      * intros v y Hy Hv. apply Hnodes in Hy. apply (R_ro _ _ _ _ _ RR v y Hy Hv).
      * intros a' b' m' Hin. apply (chan_get_kill n a' b' g m').
        unfold chan_get in *. cbn [chan set] in *. rewrite C1 in Hin. exact Hin.
      * intros a' b' T. unfold chan_get. cbn [chan set]. rewrite C1.
        apply (cnt_kill n a' b' g T).
      * apply incl_refl.
  - (* ERestart *)
    injection Hstep as <- <-.
    cbn [ev_okM] in Hev.
    destruct (N.ltb_spec n RO_BASE) as [Hnr'|Hge].
    + (* a voter starts for the first time *)
      apply andb_true_iff in Hev as [H2 H3]. apply leqb_eq in H3. subst oth.
      assert (Hnst : ~ In n st).
      { intros Hin. apply smem_In in Hin. rewrite Hin in H2. discriminate. }
      assert (Hle : RO_BASE <=? n = false) by (apply N.leb_gt; exact Hnr'). rewrite Hle.
      assert (Hd : aget n (disks g) = None).
      { destruct (aget n (disks g)) as [d|] eqn:E; auto. exfalso. apply Hnst.
        apply ProofsElectionBase.aget_In in E. apply (Gd n d E Hnr'). }
      rewrite Hd.
      assert (Hnotrun : aget n (nodes g) = None).
      { destruct (aget n (nodes g)) as [y|] eqn:E; auto. exfalso. apply Hnst. apply (Gr n y E Hnr'). }
      destruct (smem n V) eqn:EV.
      * (* an initial member *)
        apply smem_In in EV. exists s. split; [constructor|].
        apply (GI_start g st st s s n (mk_env c now rnd DEFAULT_BUDGET [] 0) sv eq_refl G HR RR (incl_tl _ (incl_refl _)) Hnr' Hnst).
        apply (R_init _ _ _ _ _ RR n EV Hnst).
      * (* a new voter: K_join *)
        assert (HnV : ~ In n V) by (intros Hin; apply smem_In in Hin; congruence).
        cbn [join_ok] in Hnr. rewrite EV, Hle in Hnr. cbn [orb] in Hnr.
        apply existsb_exists in Hnr as ([m xm] & Hin & Hrl). cbn [snd] in Hrl. apply N.eqb_eq in Hrl.
        assert (Hxm : aget m (nodes g) = Some xm) by (apply In_aget_sorted; auto).
        assert (Hmlt : m < RO_BASE).
        { destruct (N.ltb_spec m RO_BASE) as [H|H]; [exact H|].
          destruct (R_ro _ _ _ _ _ RR m xm Hxm H) as (_ & _ & Hf). rewrite Hf in Hrl. discriminate. }
        pose proof (R_node _ _ _ _ _ RR m xm Hxm Hmlt) as RNm.
        destruct (R_join c V NDV SV VNE VRO Hb1 g st s n (n2 m) RR HR HnV Hnst Hnotrun) as (K & RJ & EJ).
        { apply (Rn_up _ _ _ _ RNm). }
        { rewrite (Rn_role _ _ _ _ RNm), Hrl. reflexivity. }
        set (s' := t_join V (n2 n) s) in *.
        exists s'. split; [eapply kstar_step; [constructor|exact K]|].
        apply (GI_start g (n :: st) st s s' n (mk_env c now rnd DEFAULT_BUDGET [] 0) sv eq_refl G (K3.kreach3_step _ _ _ _ HR K) RJ (incl_refl _) Hnr' Hnst).
        unfold pristine. rewrite EJ. cbn. repeat split; reflexivity.
    + (* a read-only node (re)starts *)
      assert (Hle : RO_BASE <=? n = true) by (apply N.leb_le; exact Hge). rewrite Hle.
      set (e := mk_env c now rnd DEFAULT_BUDGET [] 0) in *.
      set (x0 := match aget n (disks g) with
                 | Some d => init_node e None oth sv
                 | None => init_node e None oth sv end) in *.
      assert (Ex0 : x0 = init_node e None oth sv) by (unfold x0; destruct (aget n (disks g)); reflexivity).
      exists s. split; [constructor|].
      assert (Hnodes : forall v y, aget v (aset n x0 (nodes g)) = Some y ->
                (v = n /\ y = x0) \/ (v <> n /\ aget v (nodes g) = Some y)).
      { intros v y Hy. rewrite ProofsElectionBase.aget_aset in Hy.
        destruct (v =? n) eqn:Ev.
        - apply N.eqb_eq in Ev. injection Hy as <-. auto.
        - apply N.eqb_neq in Ev. auto. }
      constructor; unfold put_node; cbn [nodes disks set].
      * apply ksorted_aset. exact Gs.
      * intros v y Hy Hv. apply Hnodes in Hy as [[-> ->]|[Hne Hy]]; [lia|apply (Gr v y Hy Hv)].
      * exact Gd.
      * exact HR.
      * apply (R_shrink g _ st st s RR); cbn [nodes set].
        -- intros v y Hy Hv. apply Hnodes in Hy as [[-> ->]|[Hne Hy]]; [lia|].
           split; [apply (R_node _ _ _ _ _ RR v y Hy Hv)|apply (R_hyg _ _ _ _ _ RR v y Hy Hv)].
        -- intros v y Hy Hv _. apply Hnodes in Hy as [[-> ->]|[Hne Hy]]; [lia|exact Hy].
        -- intros v y Hy Hv. apply Hnodes in Hy as [[-> ->]|[Hne Hy]]; [|apply (R_ro _ _ _ _ _ RR v y Hy Hv)].
           rewrite Ex0. split; [|split; reflexivity].
           constructor; unfold init_node; cbn; auto; try lia.
           constructor; [|constructor]. unfold small, small_cmd. cbn. split; [exact Hb1|discriminate].
        -- intros a' b' m' Hin. apply (chan_get_kill n a' b' g m'). exact Hin.
        -- intros a' b' T. apply (cnt_kill n a' b' g T).
        -- apply incl_refl.
Qed.

End Main.
