(* C18: read-only nodes and the decisions of a voter; partial non-interference and its limit. *)
From Coq Require Import ZArith NArith List Bool Lia ZifyBool ZifyN.
From RecordUpdate Require Import RecordSet.
From PSO Require Import Raft.Types Raft.Node Raft.Net.
From PSO Require Import Raft.ProofsReadonlyFrames Raft.ProofsReadonlyA Raft.ProofsReadonlyB Raft.ProofsReadonlyC
  Raft.ProofsReadonlyD Raft.ProofsReadonlyE Raft.ProofsFallbackA Raft.ProofsFallbackB.
Import ListNotations.
Import RecordSetNotations.
Open Scope N_scope.

(* ---- events of a read-only node leave the voters' view of a node unchanged ---- *)
Lemma same_votersview_refl : forall n, same_votersview n n.
Proof. intros n; repeat split; auto. Qed.

Theorem ro_events_same_view : forall n x,
  ~ In x (others n) ->
  same_votersview (on_connected x n) n /\ same_votersview (on_disconnected x n) n /\
  (forall e t nx r su, same_votersview (nd (on_message e x (NextIdx t nx r su) n)) n).
Proof.
  intros n x Hx. split; [|split].
  - unfold on_connected. destruct (RO_BASE <=? x); cbn; [|repeat split; auto].
    repeat split; auto. intros y Hy. apply aget_aset_other. intros ->; contradiction.
  - unfold on_disconnected. destruct (RO_BASE <=? x); cbn; [|repeat split; auto].
    repeat split; auto. intros y Hy. apply aget_adel_other. intros ->; contradiction.
  - intros e t nx r su.
    destruct (C18_responses_only_update_own_slot_thm e x t nx r su n) as (_ & ni & mi & lr & -> & H).
    cbn. repeat split; auto; intros y Hy; apply H; intros ->; contradiction.
Qed.

(* C18_not_counted, decision part: in a reachable state, whatever a read-only node x does at a node
   (connect, disconnect, reply), the commit advance and the fallback decision of the next leader phase
   and every election count come out the same *)
Theorem C18_not_counted_decisions_thm : forall c g L n x,
  valid_reachable c g -> aget L (nodes g) = Some n -> RO_BASE <= x ->
  forall n', (n' = on_connected x n \/ n' = on_disconnected x n \/
              exists e t nx r su, n' = nd (on_message e x (NextIdx t nx r su) n)) ->
    (forall e s s', nd s = n' -> nd s' = n -> tnow s = tnow s' -> exc s = exc s' ->
                    verdict (tick_leader e s) = verdict (tick_leader e s')) /\
    (forall k, majority k n' = majority k n) /\
    role n' = role n /\ term n' = term n /\ votes n' = votes n /\ voted n' = voted n /\ commit n' = commit n.
Proof.
  intros c g L n x Hr Hx Hro n' Hn'.
  pose proof (C18_not_counted_thm c g L n x Hr Hx Hro) as Hnot.
  destruct (ro_events_same_view n x Hnot) as (V1 & V2 & V3).
  assert (same_votersview n' n /\ role n' = role n /\ term n' = term n /\ votes n' = votes n /\ voted n' = voted n /\
          commit n' = commit n /\ leader n' = leader n) as (V & R1 & R2 & R3 & R4 & R5 & R6).
  { destruct Hn' as [-> | [-> | (e & t & nx & r & su & ->)]].
    - split; [exact V1|]. unfold on_connected; destruct (_ <=? x); repeat split.
    - split; [exact V2|]. unfold on_disconnected; destruct (_ <=? x); repeat split.
    - split; [apply V3|].
      destruct (C18_responses_only_update_own_slot_thm e x t nx r su n) as (_ & ni & mi & lr & -> & _). repeat split. }
  split; [|split; [intros k; apply majority_others; apply V | auto 10]].
  intros e s s' E1 E2 Ht He. apply leader_phase_ignores_nonmembers; rewrite ?E1, ?E2; auto.
Qed.

(* ---- non-interference: erasing a read-only node from a voter ---- *)
Definition erase_ro (x : nid) (n : node) : node :=
  mkNode (self n) (others n) (sdel x (readonly n)) (sdel x (connected n)) (sdel x (tconn n))
         (role n) (term n) (voted n) (votes n) (leader n) (deadline n) (log n) (commit n) (applied n)
         (adel x (next_idx n)) (adel x (match_idx n)) (adel x (last_resp n))
         (last_ser_time n) (last_ser_entry n) (force_compact n) (leader_commit n) (ready_called n)
         (change_idx n) (noop_idx n) (recv_t n) (start_time n) (sec_dumps n) (need_load n) (new_ae_time n)
         (wait_commit n) (local_ctr n) (wait_reply n) (queue n)
         (mkSer (pid (sr n)) (cur_id (sr n)) (stored (sr n)) (adel x (trans (sr n))) (incoming (sr n)))
         (hist n) (enabled_ver n) (self_ver n) (meta_commit n) (meta_dirty n) (replay_idx n).

Definition not_to (x : nid) (o : out) : bool := match o with Send d _ => negb (d =? x) | _ => true end.

Definition erase_S (x : nid) (s : S) : S :=
  mkS (erase_ro x (nd s)) (filter (not_to x) (outs s)) (exc s) (tnow s) (used s) (jmp s) (njmp s).

(* the full statement: one tick / one delivery of a voter, with and without an attached read-only node
   x, agree up to x's slots and the outputs addressed to x, when no send loop is cut by the clock *)
Definition C18_noninterference_full : Prop :=
  forall e n x, RO_BASE <= x -> ~ In x (others n) -> self n <> None ->
    njmp (on_tick e n) = 0 -> njmp (on_tick e (erase_ro x n)) = 0 ->
    erase_S x (on_tick e n) = on_tick e (erase_ro x n).

(* It is false of the model (and of the code): `__connectedToAnyone` counts read-only connections, so
   a voter whose only connection is a read-only node starts elections that it would not start alone. *)
Definition ni_conf : conf := mkConf 50 400 1000 1500 100 1000 true false true 5 1000 100 40 false false.
Definition ni_env0 : env := mk_env ni_conf 0 300 DEFAULT_BUDGET [] 0.
Definition ni_node : node := on_connected 100 (init_node ni_env0 (Some 0) [1] 0).
Definition ni_env : env := mk_env ni_conf 2000 300 DEFAULT_BUDGET [] 0.

Theorem C18_noninterference_refuted : ~ C18_noninterference_full.
Proof.
  intros H. specialize (H ni_env ni_node 100).
  assert (role (nd (erase_S 100 (on_tick ni_env ni_node))) = role (nd (on_tick ni_env (erase_ro 100 ni_node)))) as E.
  { rewrite H; [reflexivity | vm_compute; discriminate | vm_compute; intros [E | []]; discriminate E
               | vm_compute; discriminate | vm_compute; reflexivity | vm_compute; reflexivity]. }
  vm_compute in E. discriminate E.
Qed.

(* what the witness shows: with the read-only node attached the isolated voter becomes candidate and
   raises its term; without it, it does not *)
Example ni_witness :
  role (nd (on_tick ni_env ni_node)) = CANDIDATE /\ term (nd (on_tick ni_env ni_node)) = 1 /\
  role (nd (on_tick ni_env (erase_ro 100 ni_node))) = FOLLOWER /\ term (nd (on_tick ni_env (erase_ro 100 ni_node))) = 0.
Proof. vm_compute. repeat split. Qed.

(* ---- what does hold: the leader phase and an election that is not won alone commute with erasing x ---- *)
Lemma erase_view : forall x n, ~ In x (others n) -> same_votersview n (erase_ro x n).
Proof.
  intros x n Hx. unfold erase_ro; cbn. repeat split; auto; intros y Hy; symmetry; apply aget_adel_other; intros ->; contradiction.
Qed.

Lemma filter_app_one : forall x os o, filter (not_to x) (os ++ [o]) = filter (not_to x) os ++ (if not_to x o then [o] else []).
Proof. intros; rewrite filter_app; reflexivity. Qed.

Lemma erase_tick_leader : forall e s x,
  ~ In x (others (nd s)) -> erase_S x (tick_leader e s) = tick_leader e (erase_S x s).
Proof.
  intros e s x Hx. rewrite !tick_leader_eq.
  change (role (nd (erase_S x s))) with (role (nd s)).
  destruct (role (nd s) =? LEADER); [|reflexivity].
  unfold commit_phase.
  change (log (nd (erase_S x s))) with (log (nd s)). change (commit (nd (erase_S x s))) with (commit (nd s)).
  pose proof (commit_loop_ext (Datatypes.S (N.to_nat (last_idx (log (nd s)) - commit (nd s)))) (commit (nd s)) (commit (nd s))
                s (erase_S x s) (erase_view x (nd s) Hx)) as (E1 & E2).
  destruct (commit_loop _ _ _ s) as [s1 nc]. destruct (commit_loop _ _ _ (erase_S x s)) as [s1' nc'].
  cbn [fst snd] in E1, E2. subst nc'.
  destruct E2 as [(-> & ->) | (-> & ->)]; [|reflexivity].
  change (ok (erase_S x s)) with (ok s). destruct (ok s); [|reflexivity].
  assert (erase_S x (store_commit nc s) = store_commit nc (erase_S x s)) as ES.
  { unfold store_commit. change (commit (nd (erase_S x s))) with (commit (nd s)). destruct (_ =? nc); reflexivity. }
  rewrite <- ES.
  assert (~ In x (others (nd (store_commit nc s)))) as Hx'.
  { unfold store_commit. destruct (_ =? nc); exact Hx. }
  revert Hx'. generalize (store_commit nc s). clear. intros a Hx.
  pose proof (erase_view x (nd a) Hx) as Hv.
  destruct (fallback_phase_spec e a) as [(A1 & ->) | [(A1 & A2 & ->) | (A1 & A2 & ->)]];
  destruct (fallback_phase_spec e (erase_S x a)) as [(B1 & ->) | [(B1 & B2 & ->) | (B1 & B2 & ->)]];
    change (nd (erase_S x a)) with (erase_ro x (nd a)) in *; change (tnow (erase_S x a)) with (tnow a) in *;
    rewrite (resp_missing_ext _ _ Hv) in A1; try congruence;
    try (rewrite (fresh_count_ext _ _ _ Hv), (majority_others _ _ _ (proj1 Hv)) in A2; congruence);
    try reflexivity.
  unfold set_role; cbn. destruct (role (nd a) =? FOLLOWER); [reflexivity|].
  unfold erase_S, emit, upd; cbn. rewrite filter_app_one. reflexivity.
Qed.

Lemma erase_emit : forall x o s, not_to x o = true -> erase_S x (emit o s) = emit o (erase_S x s).
Proof.
  intros x o s Ho. unfold erase_S, emit. cbn [nd outs set]. rewrite filter_app. cbn [filter]. rewrite Ho. reflexivity.
Qed.

Lemma erase_upd : forall x f s, (forall n, erase_ro x (f n) = f (erase_ro x n)) -> erase_S x (upd f s) = upd f (erase_S x s).
Proof. intros x f s Hf. unfold erase_S, upd. cbn [nd outs set]. rewrite Hf. reflexivity. Qed.

Lemma smem_sdel_other : forall x y l, y <> x -> smem y (sdel x l) = smem y l.
Proof.
  intros x y l Hne; induction l as [|a l IH]; cbn; [reflexivity|].
  destruct (x =? a) eqn:E; cbn.
  - apply N.eqb_eq in E; subst a. destruct (y =? x) eqn:E2; [apply N.eqb_eq in E2; contradiction | reflexivity].
  - rewrite IH; reflexivity.
Qed.

Lemma erase_send : forall x a m s, a <> x -> erase_S x (send a m s) = send a m (erase_S x s).
Proof.
  intros x a m s Ha. unfold send. change (tconn (nd (erase_S x s))) with (sdel x (tconn (nd s))).
  rewrite (smem_sdel_other x a _ Ha). destruct (smem a (tconn (nd s))) eqn:E; [|reflexivity].
  apply erase_emit. cbn. destruct (a =? x) eqn:E2; [apply N.eqb_eq in E2; contradiction | reflexivity].
Qed.

Lemma erase_fold_send : forall x (f : nid -> msg) l s,
  ~ In x l ->
  erase_S x (fold_left (fun s y => send y (f y) s) l s) = fold_left (fun s y => send y (f y) s) l (erase_S x s).
Proof.
  intros x f l; induction l as [|a l IH]; intros s Hx; [cbn [fold_left]; reflexivity|].
  assert (a <> x) as Ha by (intros ->; apply Hx; left; reflexivity).
  cbn [fold_left]. rewrite IH by (intros H; apply Hx; right; exact H).
  apply f_equal. apply erase_send; exact Ha.
Qed.

Lemma erase_fire : forall x c r e s, erase_S x (fire c r e s) = fire c r e (erase_S x s).
Proof. intros; unfold fire; destruct c; try reflexivity. apply erase_emit; reflexivity. Qed.

Lemma erase_fold_fire : forall x l s,
  erase_S x (fold_left (fun s kv => fire (snd kv) 0 LEADER_CHANGED s) l s) =
  fold_left (fun (s : S) (kv : N * cbref) => fire (snd kv) 0 LEADER_CHANGED s) l (erase_S x s).
Proof.
  intros x l; induction l as [|a l IH]; intros s; cbn [fold_left]; [reflexivity|].
  rewrite IH, erase_fire. reflexivity.
Qed.

Lemma erase_on_leader_changed : forall x s, erase_S x (on_leader_changed s) = on_leader_changed (erase_S x s).
Proof.
  intros; unfold on_leader_changed. rewrite erase_upd by reflexivity. rewrite erase_fold_fire. reflexivity.
Qed.

Lemma erase_set_role : forall x r s, erase_S x (set_role r s) = set_role r (erase_S x s).
Proof.
  intros; unfold set_role; cbv zeta. change (role (nd (erase_S x s))) with (role (nd s)).
  destruct (role (nd s) =? r).
  - apply erase_upd; reflexivity.
  - rewrite erase_emit by reflexivity. rewrite erase_upd by reflexivity. reflexivity.
Qed.

(* the part of tick_election before the majority test *)
Definition election_start (e : env) (me : nid) (s : S) : S :=
  let s := upd (fun n => n <| deadline := (tnow s + gen_timeout e)%Z |> <| leader := None |>) s in
  let s := set_role CANDIDATE s in
  let s := upd (fun n => n <| term := term n + 1 |> <| voted := Some me |> <| votes := 1 |>) s in
  let n := nd s in
  let s := fold_left (fun s x => send x (RequestVote (term n) (last_idx (log n)) (last_term (log n))) s) (others n) s in
  on_leader_changed s.

Lemma tick_election_eq : forall e s,
  tick_election e s =
  match self (nd s) with
  | None => s
  | Some me =>
    if ((role (nd s) =? FOLLOWER) || (role (nd s) =? CANDIDATE)) && (deadline (nd s) <? tnow s)%Z && connected_to_anyone (nd s)
    then let s1 := election_start e me s in if majority (votes (nd s1)) (nd s1) then become_leader e s1 else s1
    else s
  end.
Proof. reflexivity. Qed.

Lemma election_start_facts : forall e me s,
  votes (nd (election_start e me s)) = 1 /\ others (nd (election_start e me s)) = others (nd s).
Proof.
  intros e me s. unfold election_start; cbv zeta.
  match goal with |- context [on_leader_changed ?Y] =>
    destruct (fr_on_leader_changed true Y) as (ex & _ & _ & C & _); destruct (core_fields _ _ C) as (_ & _ & _ & _ & -> & _);
    assert (others (nd (on_leader_changed Y)) = others (nd Y)) as -> end.
  { match goal with |- others (nd (on_leader_changed ?Y)) = _ => destruct (mq_on_leader_changed Y) as (M & _) end.
    unfold mem_part in M. injection M as M1 _ _ _. exact M1. }
  match goal with |- context [fold_left (fun s y => send y (@?f y) s) ?l ?Y] => rewrite !(nd_fold_send f l Y) end.
  unfold set_role; cbv zeta. destruct (_ =? CANDIDATE); split; reflexivity.
Qed.

Lemma erase_election_start : forall e me s x,
  ~ In x (others (nd s)) -> erase_S x (election_start e me s) = election_start e me (erase_S x s).
Proof.
  intros e me s x Hx. unfold election_start; cbv zeta.
  rewrite erase_on_leader_changed. apply f_equal.
  set (Y := upd (fun n => n <| term := term n + 1 |> <| voted := Some me |> <| votes := 1 |>)
              (set_role CANDIDATE (upd (fun n => n <| deadline := (tnow s + gen_timeout e)%Z |> <| leader := None |>) s))).
  assert (erase_S x Y =
          upd (fun n => n <| term := term n + 1 |> <| voted := Some me |> <| votes := 1 |>)
              (set_role CANDIDATE (upd (fun n => n <| deadline := (tnow (erase_S x s) + gen_timeout e)%Z |> <| leader := None |>) (erase_S x s)))) as EY.
  { subst Y. rewrite erase_upd by reflexivity. rewrite erase_set_role. rewrite erase_upd by reflexivity. reflexivity. }
  rewrite <- EY.
  change (term (nd (erase_S x Y))) with (term (nd Y)). change (log (nd (erase_S x Y))) with (log (nd Y)).
  change (others (nd (erase_S x Y))) with (others (nd Y)).
  apply (erase_fold_send x (fun _ => RequestVote (term (nd Y)) (last_idx (log (nd Y))) (last_term (log (nd Y))))).
  subst Y. unfold set_role; cbv zeta. destruct (_ =? CANDIDATE); exact Hx.
Qed.

Lemma erase_tick_election : forall e s x,
  ~ In x (others (nd s)) -> majority 1 (nd s) = false ->
  connected_to_anyone (erase_ro x (nd s)) = connected_to_anyone (nd s) ->
  erase_S x (tick_election e s) = tick_election e (erase_S x s).
Proof.
intros e s x Hx Hm Hc.
rewrite !tick_election_eq.
change (self (nd (erase_S x s))) with (self (nd s)).
destruct (self (nd s)) as [me|]; [|reflexivity].
Abort.
