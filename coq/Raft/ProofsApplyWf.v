(* log_wf (non-empty, indices increase by one) through the handlers that change the log:
   log_add (become_leader, check_one), delete_from + append (ae_regular), delete_to (try_compact,
   load_dump), load_dump.  Each lemma states the side condition it needs; the two that are not
   local facts are (1) an append_entries message carries entries that follow its prev index
   (true of every message ae_body builds from a well-formed log) and (2) the entry a finished
   serialization cuts at is still in the log (needs: no truncation below applied, i.e. Raft safety). *)
From Coq Require Import ZArith NArith List Bool Lia ZifyBool ZifyN.
From RecordUpdate Require Import RecordSet.
From PSO Require Import Raft.Types Raft.Node Raft.Net Raft.Obs Raft.ProofsApplyBase Raft.ProofsApply Raft.ProofsApplyLog Raft.ProofsCallbacks Raft.ProofsCallbacks2.
Import ListNotations.
Import RecordSetNotations.
Open Scope N_scope.

#[local] Arguments apply_membership : simpl never.
#[local] Arguments delete_from : simpl never.

Lemma first_idx_app : forall a b, a <> [] -> first_idx (a ++ b) = first_idx a.
Proof. destruct a; [congruence|reflexivity]. Qed.

Lemma log_wf_app : forall l es, log_wf l -> consec (last_idx l + 1) es -> log_wf (l ++ es).
Proof.
  intros l es [NE C] CE. split.
  - destruct l; [congruence|discriminate].
  - rewrite first_idx_app by auto. apply consec_app. split; auto.
    rewrite (consec_last _ _ C NE) in CE.
    assert ((length l > 0)%nat) by (destruct l; cbn; [congruence|lia]).
    replace (first_idx l + N.of_nat (length l)) with (first_idx l + N.of_nat (length l) - 1 + 1) by lia. exact CE.
Qed.

Lemma log_wf_add : forall l c t, log_wf l -> log_wf (l ++ [mkEntry c (last_idx l + 1) t]).
Proof. intros. apply log_wf_app; auto. cbn. auto. Qed.

Lemma consec_first : forall l i, consec i l -> l <> [] -> first_idx l = i.
Proof. destruct l; [congruence|]. intros i [E _] _. exact E. Qed.

Lemma log_wf_of_consec : forall l i, consec i l -> l <> [] -> log_wf l.
Proof. intros l i C NE. split; auto. now rewrite (consec_first _ _ C NE). Qed.

Lemma log_wf_delete_to : forall l k, log_wf l -> k <= last_idx l -> log_wf (delete_to l k).
Proof.
  intros l k WF LE. pose proof (log_wf_last _ WF) as LAST. destruct WF as [NE C].
  unfold delete_to. destruct (k <? first_idx l) eqn:E; [split; auto|].
  assert (LN : (length l > 0)%nat) by (destruct l; cbn; [congruence|lia]).
  pose proof (consec_skipn (N.to_nat (k - first_idx l)) l _ C) as CS.
  apply (log_wf_of_consec _ _ CS).
  intros H. apply (f_equal (@length entry)) in H. rewrite skipn_length in H. cbn in H. lia.
Qed.

Lemma delete_from_wf : forall l from, log_wf l -> first_idx l < from ->
  log_wf (delete_from l from) /\ last_idx (delete_from l from) = N.min (from - 1) (last_idx l).
Proof.
  intros l from WF LT. pose proof (log_wf_last _ WF) as LAST. destruct WF as [NE C].
  unfold delete_from. destruct (from <? first_idx l) eqn:E; [lia|].
  assert (LN : (length l > 0)%nat) by (destruct l; cbn; [congruence|lia]).
  pose proof (consec_firstn (N.to_nat (from - first_idx l)) l _ C) as CF.
  assert (NE' : firstn (N.to_nat (from - first_idx l)) l <> []).
  { intros H. apply (f_equal (@length entry)) in H. rewrite firstn_length in H. cbn in H. lia. }
  assert (FI : first_idx (firstn (N.to_nat (from - first_idx l)) l) = first_idx l).
  { destruct l; [congruence|]. destruct (N.to_nat (from - first_idx (e :: l))) eqn:X; [lia|reflexivity]. }
  split.
  - split; auto. now rewrite FI.
  - rewrite (consec_last _ _ CF NE'), firstn_length. lia.
Qed.

Lemma get_entries_all_wf : forall l f,
  log_wf l -> first_idx l <= f ->
  get_entries l (Some f) None None = skipn (N.to_nat (f - first_idx l)) l /\
  consec f (get_entries l (Some f) None None).
Proof.
  intros l f [NE C] LE. unfold get_entries. destruct (f <? first_idx l) eqn:E; [lia|]. split; auto.
  pose proof (consec_skipn (N.to_nat (f - first_idx l)) l _ C) as CS.
  destruct (Nat.le_gt_cases (length l) (N.to_nat (f - first_idx l))) as [GE|LT].
  - rewrite skipn_all2 by lia. exact I.
  - replace (first_idx l + N.of_nat (Nat.min (N.to_nat (f - first_idx l)) (length l))) with f in CS by lia. exact CS.
Qed.

Lemma matched_prefix_le : forall a b, (matched_prefix a b <= length a)%nat /\ (matched_prefix a b <= length b)%nat.
Proof.
  induction a as [|x a IH]; intros b; cbn; [lia|].
  destruct b as [|y b]; cbn; [lia|]. destruct (eterm x =? eterm y); cbn; [|lia].
  destruct (IH b). lia.
Qed.

(* the log after the append_entries body *)
Lemma log_ae_regular : forall e from c prev new s,
  log (nd (ae_regular e from c prev new s)) =
  match get_entries (log (nd s)) (option_map fst prev) None None, prev with
  | p0 :: ptail, Some (pidx, pterm) =>
    if negb (eterm p0 =? pterm) then log (nd s)
    else
      let matched := matched_prefix ptail new in
      match skipn matched ptail, skipn matched new with
      | _ :: _, _ :: _ => delete_from (log (nd s)) (pidx + 1 + N.of_nat matched) ++ skipn matched new
      | _, _ => log (nd s) ++ skipn matched new
      end
  | _, _ => log (nd s)
  end.
Proof.
  intros. unfold ae_regular.
  assert (SN : forall d nx r su s0, log (nd (send_next_idx d nx r su s0)) = log (nd s0)).
  { intros. now destruct (view_inv _ _ (view_send_next_idx d nx r su s0)) as (_ & _ & _ & _ & _ & _ & _ & _ & _ & L & _). }
  assert (AM : forall r es s0, log (nd (apply_membership r es s0)) = log (nd s0)).
  { intros. now destruct (view_inv _ _ (view_apply_membership r es s0)) as (_ & _ & _ & _ & _ & _ & _ & _ & _ & L & _). }
  assert (AC : forall c0 v s0, log (nd (ae_commit c0 v s0)) = log (nd s0)).
  { intros. now destruct (view_inv _ _ (view_ae_commit c0 v s0)) as (_ & _ & _ & _ & _ & _ & _ & _ & _ & L & _). }
  destruct (get_entries (log (nd s)) (option_map fst prev) None None) as [|p0 ptail]; [apply SN|].
  destruct prev as [[pidx pterm]|]; [|apply SN].
  destruct (negb (eterm p0 =? pterm)); [apply SN|].
  cbn zeta. rewrite AC, SN.
  match goal with |- log (nd (if dyn (cf e) then apply_membership false ?a ?s0 else ?s0)) = _ =>
    assert (X : log (nd (if dyn (cf e) then apply_membership false a s0 else s0)) = log (nd s0))
      by (destruct (dyn (cf e)); auto); rewrite X; clear X end.
  destruct (skipn (matched_prefix ptail new) ptail) as [|x xs]; [reflexivity|].
  destruct (skipn (matched_prefix ptail new) new) as [|y ys]; [reflexivity|].
  cbn [upd nd log]. cbn.
  destruct (dyn (cf e)); [rewrite AM|]; reflexivity.
Qed.

(* the append_entries body keeps the log well-formed when the new entries follow prev *)
Theorem log_wf_ae_regular : forall e from c prev new s,
  log_wf (log (nd s)) ->
  (forall p t, prev = Some (p, t) -> consec (p + 1) new) ->
  log_wf (log (nd (ae_regular e from c prev new s))).
Proof.
  intros e from c prev new s WF MW. rewrite log_ae_regular.
  destruct prev as [[pidx pterm]|]; cbn [option_map fst].
  2:{ destruct (get_entries (log (nd s)) None None None); auto. }
  specialize (MW pidx pterm eq_refl).
  destruct (get_entries (log (nd s)) (Some pidx) None None) as [|p0 ptail] eqn:GE; auto.
  destruct (negb (eterm p0 =? pterm)); auto. cbn zeta.
  assert (LE : first_idx (log (nd s)) <= pidx).
  { unfold get_entries in GE. destruct (pidx <? first_idx (log (nd s))) eqn:E; [discriminate|lia]. }
  destruct (get_entries_all_wf _ _ WF LE) as [GS GC]. rewrite GE in GS, GC.
  pose proof (log_wf_last _ WF) as LAST.
  assert (LP : N.of_nat (length (p0 :: ptail)) = last_idx (log (nd s)) + 1 - pidx).
  { rewrite GS, skipn_length.
    assert ((length (skipn (N.to_nat (pidx - first_idx (log (nd s)))) (log (nd s))) > 0)%nat)
      by (rewrite <- GS; cbn; lia).
    rewrite skipn_length in H. lia. }
  cbn [length] in LP.
  set (m := matched_prefix ptail new).
  destruct (matched_prefix_le ptail new) as [M1 M2]. fold m in M1, M2.
  assert (CT : consec (pidx + 1 + N.of_nat m) (skipn m new)).
  { pose proof (consec_skipn m new _ MW) as X. rewrite Nat.min_l in X by lia. exact X. }
  destruct (skipn m ptail) as [|x xs] eqn:SP.
  - (* every held entry after prev matched: plain append *)
    apply log_wf_app; auto.
    assert (m = length ptail).
    { apply (f_equal (@length entry)) in SP. rewrite skipn_length in SP. cbn in SP. lia. }
    replace (last_idx (log (nd s)) + 1) with (pidx + 1 + N.of_nat m) by lia. exact CT.
  - destruct (skipn m new) as [|y ys] eqn:SN.
    + rewrite app_nil_r. exact WF.
    + destruct (delete_from_wf (log (nd s)) (pidx + 1 + N.of_nat m) WF ltac:(lia)) as [DW DL].
      apply log_wf_app; auto. rewrite DL.
      assert ((m < length ptail)%nat).
      { apply (f_equal (@length entry)) in SP. rewrite skipn_length in SP. cbn in SP. lia. }
      replace (N.min (pidx + 1 + N.of_nat m - 1) (last_idx (log (nd s))) + 1) with (pidx + 1 + N.of_nat m) by lia.
      exact CT.
Qed.

(* pieces of a chunked entry: the assembled entry has the index of every piece *)
Lemma assemble_entry_idx : forall ps en, assemble_entry ps = Some en ->
  forall e' o l, In (e', o, l) ps -> eidx e' = eidx en.
Proof.
  intros ps en H. unfold assemble_entry in H. destruct ps as [|[[e0 o0] l0] r]; [discriminate|].
  destruct (pieces_ok e0 0 ((e0, o0, l0) :: r)) eqn:P; [|discriminate]. injection H as <-.
  revert P. generalize 0. generalize ((e0, o0, l0) :: r). clear.
  induction l as [|[[e1 o1] l1] r IH]; intros off P e' o l I; [destruct I|].
  cbn in P. apply andb_prop in P as [P1 P2]. apply andb_prop in P1 as [P1 _].
  destruct I as [E|I].
  - injection E as <- <- <-. unfold entry_eqb in P1. apply andb_prop in P1 as [P1 _].
    apply andb_prop in P1 as [_ P1]. lia.
  - eapply IH; eauto.
Qed.

(* leader side: adding an entry *)
Lemma log_become_leader : forall e s,
  log (nd (become_leader e s)) = log (nd s) ++ [mkEntry (noop_cmd (noop_pk (cf e))) (last_idx (log (nd s)) + 1) (term (nd s))].
Proof.
  intros. unfold become_leader.
  assert (SA : forall s0, log (nd (send_ae e s0)) = log (nd s0)).
  { intros. now destruct (view_inv _ _ (view_send_ae e s0)) as (_ & _ & _ & _ & _ & _ & _ & _ & _ & L & _). }
  assert (SR : forall r s0, log (nd (set_role r s0)) = log (nd s0) /\ term (nd (set_role r s0)) = term (nd s0)).
  { intros. unfold set_role. destruct (role (nd s0) =? r); split; reflexivity. }
  match goal with |- log (nd ((?f ;; ?g) ?x)) = _ => assert (E : log (nd ((f ;; g) x)) = log (nd x)) end.
  { unfold andthen. destruct (use_batch (cf e)).
    - destruct (ok _); auto.
    - destruct (ok (send_ae e _)); rewrite ?SA; auto. }
  rewrite E. clear E. cbn [upd nd]. cbn.
  set (s1 := upd (fun n => n <| leader := self n |>) s).
  destruct (SR LEADER s1) as [L1 T1].
  assert (FL : forall (l : list nid) now n, log (fold_left (fun n x => n <| next_idx := aset x (last_idx (log n) + 1) (next_idx n) |>
                             <| match_idx := aset x 0 (match_idx n) |>
                             <| last_resp := aset x now (last_resp n) |>
                             <| sr := (sr n) <| trans := adel x (trans (sr n)) |> |>) l n) = log n /\
                   term (fold_left (fun n x => n <| next_idx := aset x (last_idx (log n) + 1) (next_idx n) |>
                             <| match_idx := aset x 0 (match_idx n) |>
                             <| last_resp := aset x now (last_resp n) |>
                             <| sr := (sr n) <| trans := adel x (trans (sr n)) |> |>) l n) = term n).
  { induction l as [|x l IH]; intros now n; cbn [fold_left]; auto.
    destruct (IH now (n <| next_idx := aset x (last_idx (log n) + 1) (next_idx n) |>
                        <| match_idx := aset x 0 (match_idx n) |> <| last_resp := aset x now (last_resp n) |>
                        <| sr := (sr n) <| trans := adel x (trans (sr n)) |> |>)) as [A B].
    rewrite A, B. auto. }
  match goal with |- context [fold_left ?f ?l (?n <| last_resp := [] |>)] => destruct (FL l (tnow (set_role LEADER s1)) (n <| last_resp := [] |>)) as [A B] end.
  rewrite A, B. cbn. rewrite L1, T1. reflexivity.
Qed.

Lemma log_wf_become_leader : forall e s, log_wf (log (nd s)) -> log_wf (log (nd (become_leader e s))).
Proof. intros. rewrite log_become_leader. now apply log_wf_add. Qed.

Lemma log_wf_check_one : forall e c cbk s, log_wf (log (nd s)) -> log_wf (log (nd (check_one e c cbk s))).
Proof.
  intros e c cbk s WF.
  destruct (ProofsCallbacks2.check_one_spec e c cbk s) as (_ & _ & F & R & _ & _ & H). cbn zeta in H.
  destruct H as [(_ & -> & _)|(-> & _)]; auto. now apply log_wf_add.
Qed.

(* ---- snapshots ---- *)
Definition snap_wf (sn : snapshot) : Prop := eidx (s_e1 sn) = eidx (s_e0 sn) + 1.

Lemma log_wf_suffix : forall pre l, log_wf (pre ++ l) -> l <> [] -> log_wf l.
Proof.
  intros pre l [NE C] NL. destruct pre as [|p pre]; [split; auto|].
  apply consec_app in C as [_ C]. eapply log_wf_of_consec; eauto.
Qed.

Lemma entry_eqb_idx : forall a b, entry_eqb a b = true -> eidx a = eidx b.
Proof. intros a b H. unfold entry_eqb in H. apply andb_prop in H as [H _]. apply andb_prop in H as [_ H]. lia. Qed.

Theorem log_wf_load_dump : forall e clear s,
  log_wf (log (nd s)) ->
  (forall sn, stored (sr (nd s)) = Some (Good sn) -> snap_wf sn) ->
  log_wf (log (nd (load_dump e clear s))).
Proof.
  intros e clear s WF SW.
  destruct (stored (sr (nd s))) as [[sn|len]|] eqn:ST.
  - destruct (clear && (eidx (s_e1 sn) <=? applied (nd s))) eqn:B.
    { unfold load_dump. rewrite ST, B. exact WF. }
    destruct (self_ver (nd s) <? s_ver sn) eqn:V.
    + unfold load_dump. now rewrite ST, B, V.
    + destruct (load_dump_installs e clear s sn ST ltac:(lia) ltac:(intros ->; cbn in B; lia))
        as (_ & _ & _ & _ & _ & _ & H). cbn zeta in H.
      destruct H as [->|(a & b & r & -> & _ & _ & (pre & E))].
      * specialize (SW sn eq_refl). unfold snap_wf in SW. split; [discriminate|]. cbn. auto.
      * rewrite E in WF. eapply log_wf_suffix; eauto. discriminate.
  - unfold load_dump. now rewrite ST.
  - unfold load_dump. now rewrite ST.
Qed.

(* compaction: the cut index of a finished serialization must still be in the log *)
Theorem log_wf_try_compact : forall e s,
  log_wf (log (nd s)) ->
  (pid (sr (nd s)) = 1 -> cur_id (sr (nd s)) <= last_idx (log (nd s))) ->
  log_wf (log (nd (try_compact e s))).
Proof.
  intros e s WF SC. unfold try_compact.
  set (s1 := if pid (sr (nd s)) =? 0 then s else upd _ s).
  assert (L1 : log (nd s1) = log (nd s)) by (unfold s1; destruct (pid (sr (nd s)) =? 0); reflexivity).
  set (s2 := if pid (sr (nd s)) =? 1 then upd _ s1 else s1).
  assert (W2 : log_wf (log (nd s2))).
  { unfold s2. destruct (pid (sr (nd s)) =? 1) eqn:P; [|now rewrite L1].
    cbn. rewrite L1. apply log_wf_delete_to; auto. apply SC. lia. }
  destruct (negb (pid (sr (nd s)) =? 0)); auto.
  match goal with |- context [if ?b then s2 else _] => destruct b end; auto.
  destruct (get_entries (log (nd s2)) (Some (applied (nd s2) - 1)) (Some 2) None) as [|e0 [|e1 r]]; auto.
  destruct (opt_eqb (Some (eidx e0)) (last_ser_entry (nd s2))); auto.
Qed.

(* ---- messages ---- *)
Definition piece_wf (p : piece) : Prop := match p with (Good sn, _, _) => snap_wf sn | _ => True end.

Definition msg_wf (m : msg) : Prop :=
  match m with
  | AE _ _ (Some (p, _)) es => consec (p + 1) es
  | AEPiece _ _ (Some (p, _)) _ _ _ en => eidx en = p + 1
  | AESnap _ _ (SData (Good sn) _ _ _ _) => snap_wf sn
  | _ => True
  end.

Lemma assemble_snap_wf : forall ps sn, Forall piece_wf ps -> assemble_snap ps = Good sn -> snap_wf sn.
Proof.
  intros ps sn F H. unfold assemble_snap in H. destruct ps as [|[[[s0|l0] o] l] r]; try discriminate H.
  cbv iota beta in H. match type of H with (if ?b then _ else _) = _ => destruct b end; [|discriminate H]. injection H as <-.
  inversion F as [|? ? P _]. exact P.
Qed.

Lemma nd_on_leader_changed : forall s, nd (on_leader_changed s) = (nd s) <| wait_reply := [] |>.
Proof.
  intros. unfold on_leader_changed. destruct (olc_fold 0 (wait_reply (nd s)) s) as [H _]. cbn zeta in H.
  unfold upd. cbn [nd]. change (nd (?x <| nd := ?y |>)) with y. cbn. now rewrite H.
Qed.

Theorem log_wf_on_message : forall e from m n,
  log_wf (log n) -> msg_wf m ->
  (forall sn, stored (sr n) = Some (Good sn) -> snap_wf sn) ->
  (forall ps, incoming (sr n) = Some ps -> Forall piece_wf ps) ->
  log_wf (log (nd (on_message e from m n))).
Proof.
  intros e from m n WF MW SW IW.
  assert (K : forall s7, view_of s7 = view_of (start_S e n) -> log_wf (log (nd s7))).
  { intros s7 V. apply view_inv in V as (_ & _ & _ & _ & _ & _ & _ & _ & _ & L & _). now rewrite L. }
  assert (AE_ : forall t c, log_wf (log (nd (on_append_entries e from m t c (start_S e n))))).
  { intros t c. set (s := start_S e n). unfold on_append_entries.
    destruct (t <? term (nd s)); [exact WF|].
    set (s1 := upd (fun n => n <| deadline := (tnow s + gen_timeout e)%Z |>) s).
    set (s2 := if opt_eqb (leader (nd s1)) (Some from) then s1 else on_leader_changed s1).
    assert (U2 : log (nd s2) = log n /\ sr (nd s2) = sr n /\ recv_t (nd s2) = recv_t n).
    { unfold s2. destruct (opt_eqb (leader (nd s1)) (Some from)); auto.
      rewrite nd_on_leader_changed. auto. }
    set (s3 := upd (fun n => n <| leader := Some from |>) s2).
    set (s4 := if term (nd s3) <? t then upd (fun n => n <| term := t |> <| voted := None |>) s3 else s3).
    set (s5 := set_role FOLLOWER s4).
    set (s6 := upd (fun n => n <| leader_commit := Some c |>) s5).
    assert (V6 : log (nd s6) = log n /\ sr (nd s6) = sr n).
    { unfold s6, s5, s4, s3, set_role. cbn.
      destruct (term (nd s2) <? t); cbn;
        match goal with |- context [if ?b then _ else _] => destruct b end; cbn; tauto. }
    destruct V6 as [L6 S6]. clearbody s6. clear s5 s4 s3.
    destruct m as [| |tt cc prev es|tt cc prev lab off len en|tt cc p| | |]; try (rewrite L6; exact WF).
    - apply log_wf_ae_regular; [now rewrite L6|]. intros p0 t0 ->. exact MW.
    - destruct (lab =? 1).
      + destruct (view_inv _ _ (view_send_next_idx from None false false (upd (fun n0 => n0 <| recv_t := [(en, off, len)] |>) s6)))
          as (_ & _ & _ & _ & _ & _ & _ & _ & _ & L & _). rewrite L. cbn. now rewrite L6.
      + destruct (recv_t (nd s6)) eqn:RT; [cbn; now rewrite L6|].
        destruct (lab =? 2).
        * destruct (view_inv _ _ (view_send_next_idx from None false false (upd (fun n0 => n0 <| recv_t := recv_t n0 ++ [(en, off, len)] |>) s6)))
            as (_ & _ & _ & _ & _ & _ & _ & _ & _ & L & _). rewrite L. cbn. now rewrite L6.
        * destruct (assemble_entry _) as [en'|] eqn:AS; [|cbn; now rewrite L6].
          apply log_wf_ae_regular; [cbn; now rewrite L6|]. intros p0 t0 ->. cbn in MW.
          cbn. split; auto.
          erewrite <- (assemble_entry_idx _ _ AS en off len); [exact MW|].
          cbn. apply in_or_app. right. now left.
    - destruct (set_transmission p s6) as [s7 done] eqn:ST.
      assert (L7 : log (nd s7) = log n).
      { change s7 with (fst (s7, done)). rewrite <- ST, log_set_transmission. exact L6. }
      destruct (done && load_dump_ok s7) eqn:DL.
      + cbv zeta.
        set (s8 := send_next_idx from (Some (applied (nd (load_dump e true s7)) + 1)) false true (load_dump e true s7)).
        destruct (view_inv _ _ (view_ae_commit c (Some (applied (nd (load_dump e true s7)))) s8))
          as (_ & _ & _ & _ & _ & _ & _ & _ & _ & X & _). rewrite X.
        destruct (view_inv _ _ (view_send_next_idx from (Some (applied (nd (load_dump e true s7)) + 1)) false true (load_dump e true s7)))
          as (_ & _ & _ & _ & _ & _ & _ & _ & _ & Y & _). unfold s8. rewrite Y.
        apply log_wf_load_dump; [now rewrite L7|].
        (* the stored blob was assembled from well-formed pieces *)
        intros sn SS. unfold set_transmission in ST.
        destruct p as [|b off len first last]; [injection ST as <- <-; discriminate DL|].
        rewrite S6 in ST.
        destruct (if first then Some [] else incoming (sr n)) as [ps|] eqn:INC;
          [|injection ST as <- <-; discriminate DL].
        destruct last; [destruct (snap_ahead _ _)|]; injection ST as <- <-;
          [|discriminate DL|discriminate DL].
        cbn in SS. injection SS as SS. eapply assemble_snap_wf; [|exact SS].
        apply Forall_app. split.
        * destruct first; [injection INC as <-; constructor|]. now apply IW.
        * constructor; auto; destruct b as [s0|]; cbn; auto.
      + destruct done.
        * destruct (view_inv _ _ (view_ae_commit c None (load_dump e true s7))) as (_ & _ & _ & _ & _ & _ & _ & _ & _ & X & _).
          rewrite X.
          (* a complete snapshot that cannot be loaded leaves the log alone *)
          assert (LL : log (nd (load_dump e true s7)) = log (nd s7)).
          { cbn [andb] in DL. clear -DL. unfold load_dump, load_dump_ok in *.
            destruct (stored (sr (nd s7))) as [[sn|]|]; auto. cbn [andb].
            destruct (eidx (s_e1 sn) <=? applied (nd s7)); [reflexivity|].
            cbn [negb andb] in DL. destruct (self_ver (nd s7) <? s_ver sn) eqn:V; [reflexivity|lia]. }
          now rewrite LL, L7.
        * destruct (view_inv _ _ (view_ae_commit c None s7)) as (_ & _ & _ & _ & _ & _ & _ & _ & _ & X & _).
          now rewrite X, L7. }
  unfold on_message.
  destruct m as [t lli llt|t|t c prev es|t c prev lab off len en|t c p|c req|req okr a b|t next reset success];
    try apply AE_.
  - destruct (self (nd (start_S e n))); [|apply K; reflexivity].
    match goal with |- context [if term (nd (start_S e n)) <? t then ?A else ?B] =>
      set (s1 := if term (nd (start_S e n)) <? t then A else B) end.
    assert (V1 : view_of s1 = view_of (start_S e n)).
    { unfold s1. destruct (term (nd (start_S e n)) <? t); auto.
      rewrite view_upd by reflexivity. rewrite view_set_role. reflexivity. }
    destruct ((role (nd s1) =? FOLLOWER) || (role (nd s1) =? CANDIDATE)); [|now apply K].
    destruct (term (nd s1) <=? t); [|now apply K].
    destruct (llt <? last_term (log (nd s1))); [now apply K|].
    destruct ((llt =? last_term (log (nd s1))) && (lli <? last_idx (log (nd s1)))); [now apply K|].
    destruct (voted (nd s1)); [now apply K|].
    apply K. rewrite view_send by reflexivity. rewrite view_upd by reflexivity. exact V1.
  - destruct ((role (nd (start_S e n)) =? CANDIDATE) && (t =? term (nd (start_S e n)))); [|apply K; reflexivity].
    match goal with |- context [if ?b then _ else _] => destruct b end; [|apply K; reflexivity].
    apply log_wf_become_leader. exact WF.
  - unfold submit. destruct (qsize (cf e) <? N.of_nat (length (queue (nd (start_S e n))))).
    + rewrite nd_call_err. exact WF.
    + exact WF.
  - destruct (apply_resp_spec e from req okr a b n) as (L & _). cbn zeta in L. unfold on_message in L. now rewrite L.
  - destruct ((role (nd (start_S e n)) =? LEADER) && (t =? term (nd (start_S e n)))); [|apply K; reflexivity].
    match goal with |- context [ok ?X] => set (s2 := X) end.
    assert (C2 : log (nd s2) = log n).
    { unfold s2. destruct reset, success; auto;
        match goal with |- context [aget from ?l] => destruct (aget from l) as [m0|] end; auto;
        destruct (m0 <? next - 1); auto. }
    destruct (ok s2); cbn; rewrite C2; exact WF.
Qed.

(* ---- ticks ---- *)
Definition wfk (f : S -> S) : Prop := forall s, log_wf (log (nd s)) -> log_wf (log (nd (f s))).

Lemma wfk_view : forall f, quiet f -> wfk f.
Proof.
  intros f H s W. now destruct (view_inv _ _ (H s)) as (_ & _ & _ & _ & _ & _ & _ & _ & _ & -> & _).
Qed.

Lemma wfk_andthen : forall f g, wfk f -> wfk g -> wfk (f ;; g).
Proof. intros f g Hf Hg s W. unfold andthen. destruct (ok (f s)); auto. Qed.

Lemma wfk_tick_election : forall e, wfk (tick_election e).
Proof.
  intros e s W. unfold tick_election.
  destruct (self (nd s)) as [me|]; auto.
  destruct (((role (nd s) =? FOLLOWER) || (role (nd s) =? CANDIDATE)) &&
            (deadline (nd s) <? tnow s)%Z && connected_to_anyone (nd s)); auto.
  set (s1 := upd (fun n => n <| deadline := (tnow s + gen_timeout e)%Z |> <| leader := None |>) s).
  set (s2 := set_role CANDIDATE s1).
  set (s3 := upd (fun n => n <| term := term n + 1 |> <| voted := Some me |> <| votes := 1 |>) s2).
  assert (V3 : view_of s3 = view_of s).
  { unfold s3, s2, s1. rewrite view_upd by reflexivity. rewrite view_set_role. now rewrite view_upd by reflexivity. }
  set (s4 := fold_left (fun s x => send x (RequestVote (term (nd s3)) (last_idx (log (nd s3))) (last_term (log (nd s3)))) s)
                       (others (nd s3)) s3).
  assert (V4 : view_of s4 = view_of s).
  { unfold s4. rewrite view_fold; auto. intros. now apply view_send. }
  apply view_inv in V4 as (_ & _ & _ & _ & _ & _ & _ & _ & _ & L4 & _).
  assert (W5 : log_wf (log (nd (on_leader_changed s4)))).
  { rewrite nd_on_leader_changed. change (log (nd s4 <| wait_reply := [] |>)) with (log (nd s4)). now rewrite L4. }
  destruct (majority (votes (nd (on_leader_changed s4))) (nd (on_leader_changed s4))); auto.
  now apply log_wf_become_leader.
Qed.

Lemma wfk_check_loop : forall fuel e start, wfk (check_loop fuel e start).
Proof.
  induction fuel as [|f IH]; intros e start s W; cbn [check_loop]; auto.
  destruct (tnow s - start <? period (cf e))%Z; auto.
  assert (G : log_wf (log (nd (match queue (nd s) with
                  | [] => s
                  | (c, cbk) :: rest =>
                    let s0 := upd (fun n => n <| queue := rest |>) s in
                    let s1 := check_one e c cbk s0 in if ok s1 then check_loop f e start s1 else s1 end)))).
  { destruct (queue (nd s)) as [|[c cbk] rest]; auto. cbn zeta.
    set (s0 := upd (fun n => n <| queue := rest |>) s).
    assert (W1 : log_wf (log (nd (check_one e c cbk s0)))) by (apply log_wf_check_one; exact W).
    destruct (ok (check_one e c cbk s0)); auto. apply IH; auto. }
  destruct (leader (nd s)); auto. destruct (wait_leader (cf e)); auto.
Qed.

Definition tick_mid (e : env) (need : bool) : S -> S := tick_send e need ;; tick_ready ;; check_commands e.

Definition tick_body (e : env) : S -> S :=
  tick_pre e ;; (fun s => let (s1, need) := apply_entries e s in if ok s1 then tick_mid e need s1 else s1).

Lemma andthen_apply : forall f g s, (f ;; g) s = if ok (f s) then g (f s) else f s.
Proof. reflexivity. Qed.

Lemma on_tick_body : forall e n, on_tick e n = (tick_body e ;; try_compact e) (start_S e n).
Proof.
  intros. rewrite on_tick_split. cbn zeta. unfold tick_body, tick_post, tick_mid.
  rewrite !andthen_apply.
  set (s0 := tick_pre e (start_S e n)).
  destruct (ok s0) eqn:O0; [|now rewrite O0].
  destruct (apply_entries e s0) as [s1 need]. cbn [fst snd].
  destruct (ok s1) eqn:O1; [|now rewrite O1].
  rewrite !andthen_apply.
  destruct (ok (tick_send e need s1)) eqn:O2; [|now rewrite O2].
  destruct (ok (tick_ready (tick_send e need s1))) eqn:O3; [|now rewrite O3].
  destruct (ok (check_commands e (tick_ready (tick_send e need s1)))) eqn:O4; now rewrite ?O4.
Qed.

(* a tick keeps the log well-formed up to the compaction phase; compaction keeps it when the cut
   index of a finished serialization is still in the log *)
Theorem log_wf_on_tick : forall e n,
  log_wf (log n) ->
  (forall sn, stored (sr n) = Some (Good sn) -> snap_wf sn) ->
  let sb := tick_body e (start_S e n) in
  log_wf (log (nd sb)) /\
  ((pid (sr (nd sb)) = 1 -> cur_id (sr (nd sb)) <= last_idx (log (nd sb))) ->
   log_wf (log (nd (on_tick e n)))).
Proof.
  intros e n W SW. cbn zeta.
  assert (WB : log_wf (log (nd (tick_body e (start_S e n))))).
  { unfold tick_body, tick_pre.
    assert (PRE : log_wf (log (nd ((tick_load e;; tick_timer e;; tick_election e;; tick_leader e) (start_S e n))))).
    { unfold andthen at 1.
      assert (WL : log_wf (log (nd (tick_load e (start_S e n))))).
      { unfold tick_load. destruct (need_load (nd (start_S e n)) && file_dump (cf e)); [|exact W].
        change (log_wf (log (nd (load_dump e false (start_S e n))))). now apply log_wf_load_dump. }
      destruct (ok (tick_load e (start_S e n))); auto.
      apply (wfk_andthen (tick_timer e) (tick_election e ;; tick_leader e)); auto.
      - apply wfk_view. intros s. apply view_tick_timer.
      - apply wfk_andthen. + apply wfk_tick_election. + apply wfk_view. intros s. apply view_tick_leader. }
    unfold andthen at 1.
    destruct (ok ((tick_load e;; tick_timer e;; tick_election e;; tick_leader e) (start_S e n))); auto.
    set (s0 := (tick_load e;; tick_timer e;; tick_election e;; tick_leader e) (start_S e n)) in *.
    assert (WA : log_wf (log (nd (fst (apply_entries e s0))))).
    { rewrite apply_entries_unfold. destruct (applied (nd s0) <? commit (nd s0)); auto.
      pose proof (lc_apply_list (get_entries (log (nd s0)) (Some (applied (nd s0) + 1)) (Some (commit (nd s0) - applied (nd s0))) None) s0) as LC.
      unfold lc in LC. apply (f_equal fst) in LC. cbn [fst] in LC. rewrite LC. exact PRE. }
    destruct (apply_entries e s0) as [s1 need]. cbn [fst] in WA.
    destruct (ok s1); auto.
    unfold tick_mid. apply wfk_andthen; auto.
    - apply wfk_view. intros s. apply view_tick_send.
    - apply wfk_andthen. + apply wfk_view. intros s. apply view_tick_ready.
      + intros s. unfold check_commands. apply wfk_check_loop. }
  split; auto. intros SC. rewrite on_tick_body. unfold andthen.
  destruct (ok (tick_body e (start_S e n))); auto. now apply log_wf_try_compact.
Qed.

(* API calls and connection events do not touch the log *)
Theorem log_other_events : forall (api : env -> cmd -> cbref -> node -> S) e c cbk n x,
  (api = api_submit \/ api = api_admin \/ api = api_setver) ->
  log (nd (api e c cbk n)) = log n /\ log (on_connected x n) = log n /\ log (on_disconnected x n) = log n /\
  log (api_compact n) = log n.
Proof.
  intros api e c cbk n x H. split; [|split; [|split]].
  - assert (SB : log (nd (submit e c cbk (start_S e n))) = log n).
    { unfold submit. destruct (qsize (cf e) <? N.of_nat (length (queue (nd (start_S e n))))); auto.
      now rewrite nd_call_err. }
    destruct H as [->|[->| ->]]; auto.
    + unfold api_admin. destruct (dyn (cf e)); auto.
    + unfold api_setver. destruct ((self_ver n <? ca c) || (ca c <? enabled_ver n)); auto.
  - unfold on_connected. destruct (RO_BASE <=? x); reflexivity.
  - unfold on_disconnected. destruct (RO_BASE <=? x); reflexivity.
  - reflexivity.
Qed.

(* the initial log and a log read back from disk *)
Lemma log_wf_init : forall e me oth sv, log_wf (log (init_node e me oth sv)).
Proof. intros. split; [discriminate|]. cbn. auto. Qed.

Lemma log_wf_init_from_disk : forall e me oth sv d,
  (d_log d = [] \/ log_wf (d_log d)) -> log_wf (log (init_from_disk e me oth sv d)).
Proof.
  intros e me oth sv d H. unfold init_from_disk. destruct (d_log d) as [|x l] eqn:D.
  - apply log_wf_init.
  - destruct H as [H|H]; [discriminate|]. exact H.
Qed.
