(* Tier CM3, part 1c (copy of RefineMEff.v; AbstractM only): every membership entry of a leader log was
   effective when it was appended - for the states reachable by [kstep3] (Safety10_NoTguardA).
   [geff], [leff], [Eff] are those of RefineMEff.v. *)
From Coq Require Import List Arith Lia Bool PeanoNat.
Import ListNotations.
From PSO Require Import AbstractM.Model AbstractM.Lib AbstractM.Kstep AbstractM.Cfg AbstractM.Safety0_Base
  AbstractM.Safety1_WF AbstractM.Safety2_Election AbstractM.Safety3_LeaderLog AbstractM.Safety4_LogMatching.
From PSO Require Import Raft.RefineMEff.
From PSO Require Import AbstractM.Safety10_NoTguardA AbstractM.Safety10_NoTguardD.

Section Eff3.
Variable C0 : list nat.
Variable F : flags.
Hypothesis HD : disciplined3 F.
Hypothesis C0_nodup : NoDup C0.
Hypothesis C0_ne : C0 <> [].

Lemma leff_node3 s j : Safety10_NoTguardD.AllInv C0 F s -> Eff C0 s -> leff C0 (log (nodes s j)).
Proof.
  intros A E p e Hp.
  pose proof (I4_canon _ (Safety10_NoTguardD.A4 _ _ _ A) j p e Hp) as Hc.
  assert (Hn : nth_error (llog s (eterm e)) p = Some e).
  { rewrite <- (firstn_eq_nth _ _ (S p) p Hc) by lia. exact Hp. }
  assert (Hf : firstn p (log (nodes s j)) = firstn p (llog s (eterm e))).
  { apply (firstn_le_eq _ _ p (S p)); [lia|exact Hc]. }
  rewrite Hf. apply (E (eterm e) p e Hn).
Qed.

Lemma eff_kstep3 s s' : Safety10_NoTguardD.AllInv C0 F s -> Eff C0 s -> kstep C0 F s s' -> Eff C0 s'.
Proof.
  intros A E K.
  assert (Hn : forall j, leff C0 (log (nodes s j))) by (intros j; apply leff_node3; auto).
  destruct K; try exact E; subst x; intros T0; cbn [llog]; rewrite (Hl T0);
    destruct (Nat.eqb_spec T0 (term (nodes s n))) as [->|Ne]; try apply E.
  - apply leff_snoc; [apply Hn|reflexivity].
  - apply leff_snoc; [apply Hn|]. cbn [cent ecmd]. eapply client_geff; eauto.
    apply (cfg_gcfg C0 F s n (Safety10_NoTguardD.AB _ _ _ A)); [apply (proj1 (proj2 HD))|apply (proj2 (proj2 HD))].
Qed.

Theorem eff_kreachable s : kreachable3 C0 F s -> Eff C0 s.
Proof.
  intros R. induction R as [|s s' R IH [K _]]; [apply eff_init|].
  eapply eff_kstep3; eauto. apply (Safety10_NoTguardD.k_all C0 F HD C0_nodup C0_ne). exact R.
Qed.

Theorem leff_kreachable s j : kreachable3 C0 F s -> leff C0 (log (nodes s j)).
Proof.
  intros R. apply leff_node3; [apply (Safety10_NoTguardD.k_all C0 F HD C0_nodup C0_ne); exact R|apply eff_kreachable; exact R].
Qed.

End Eff3.
