(* C02, the forwarded case of the id -> command link, node level: which handler emits an
   apply_command request with a request id or a positive apply_command response (the "critical"
   outputs), and what the command loop of a tick does to the pending-reply table and the request
   counter. *)
From Coq Require Import ZArith NArith List Bool Lia ZifyBool Arith PeanoNat.
From RecordUpdate Require Import RecordSet.
From PSO Require Import Raft.Types Raft.Node Raft.Net Raft.Obs Raft.ProofsCommitBase.
From PSO Require Import Raft.ProofsApplyBase Raft.ProofsApply Raft.ProofsApplyLog Raft.ProofsCallbacks Raft.ProofsCallbacks2
  Raft.ProofsApplyWf.
From PSO Require Raft.ProofsCommitLog Raft.ProofsCommit Raft.ProofsMembership Raft.ProofsCallbacksCore Raft.ProofsCallbacksCore2 Raft.ProofsCallbacksFull2.
Import ListNotations.
Import RecordSetNotations.
Open Scope N_scope.

Ltac frs := intros; reflexivity.

(* the outputs the forwarding protocol is about *)
Definition critb (o : out) : bool :=
  match o with
  | Send _ (ApplyCmd _ (Some _)) => true
  | Send _ (ApplyResp _ true _ _) => true
  | _ => false
  end.

Section CritPass.
Variable Q : out -> Prop.
Hypothesis HQ : forall o, critb o = false -> Q o.

Definition aq (s : S) : Prop := Forall Q (outs s).

Lemma aq_emit o s : aq s -> critb o = false -> aq (emit o s).
Proof. intros H Ho. unfold aq, emit. cbn. apply Forall_app. split; [exact H|constructor; [now apply HQ|constructor]]. Qed.

Lemma aq_send d m s : aq s -> critb (Send d m) = false -> aq (send d m s).
Proof. intros H Hm. unfold send. destruct (smem _ _); [apply aq_emit; assumption|exact H]. Qed.

Lemma aq_outs s s' : outs s' = outs s -> aq s -> aq s'.
Proof. unfold aq. intros ->. auto. Qed.

Lemma cq_set_role r s : aq s -> aq (set_role r s).
Proof. intros H. unfold set_role. destruct (_ =? _); [exact H|apply aq_emit; [exact H|reflexivity]]. Qed.

Lemma cq_fire c r er s : aq s -> aq (fire c r er s).
Proof. intros H. destruct c; try exact H. apply aq_emit; [exact H|reflexivity]. Qed.

Lemma cq_call_err er c s : aq s -> aq (call_err er c s).
Proof.
  intros H. destruct c; cbn; [exact H|apply aq_emit; [exact H|reflexivity]|apply aq_send; [exact H|reflexivity]].
Qed.

Lemma cq_send_next_idx d nx r su s : aq s -> aq (send_next_idx d nx r su s).
Proof. intros H. unfold send_next_idx. apply aq_send; [exact H|reflexivity]. Qed.

Lemma cq_on_leader_changed s : aq s -> aq (on_leader_changed s).
Proof.
  intros H. unfold on_leader_changed.
  assert (G : aq (fold_left (fun s kv => fire (snd kv) 0 LEADER_CHANGED s) (wait_reply (nd s)) s)).
  { apply fold_left_inv; [|exact H]. intros a x Ha. now apply cq_fire. }
  exact G.
Qed.

Lemma cq_do_change_cluster a x r s : aq s -> aq (fst (do_change_cluster a x r s)).
Proof.
  intros H. unfold do_change_cluster. destruct (xorb a r).
  - destruct (_ || _); [exact H|]. cbn [fst]. apply aq_emit; [exact H|reflexivity].
  - destruct (self_is x (nd s)); [exact H|]. destruct (negb _); [exact H|]. cbn [fst].
    apply aq_emit; [exact H|reflexivity].
Qed.

Lemma cq_apply_membership r es s : aq s -> aq (apply_membership r es s).
Proof.
  intros H. unfold apply_membership. apply fold_left_inv; [|exact H].
  intros a en Ha. destruct (membership_of (ecmd en)) as [[b x]|]; [now apply cq_do_change_cluster|exact Ha].
Qed.

Lemma cq_update_cluster new s : aq s -> aq (update_cluster new s).
Proof.
  intros H. unfold update_cluster. apply fold_left_inv.
  - intros a x Ha. apply (aq_outs (emit (TAdd x) a)); [reflexivity|]. apply aq_emit; [exact Ha|reflexivity].
  - match goal with |- aq (upd _ ?X) => assert (G : aq X); [|exact G] end.
    apply fold_left_inv; [|exact H].
    intros a x Ha. apply aq_emit; [exact Ha|reflexivity].
Qed.

Lemma cq_get_transmission e x s : aq s -> aq (fst (get_transmission e x s)).
Proof.
  intros H. unfold get_transmission. destruct (negb _); [exact H|].
  destruct (match aget x (trans (sr (nd s))) with Some t => Some t | None => _ end) as [[b off]|]; exact H.
Qed.

Lemma cq_set_transmission p s : aq s -> aq (fst (set_transmission p s)).
Proof.
  intros H. unfold set_transmission. destruct p; [exact H|].
  destruct (if first then Some [] else incoming (sr (nd s))); [|exact H].
  destruct last; [destruct (snap_ahead _ _)|]; exact H.
Qed.

Lemma cq_load_dump e cl s : aq s -> aq (load_dump e cl s).
Proof.
  intros H. unfold load_dump. destruct (stored (sr (nd s))) as [[sn|]|]; try exact H.
  destruct (cl && _); [exact H|].
  destruct (_ <? _); [exact H|].
  cbv zeta.
  match goal with |- context [update_cluster ?l ?s4] => set (s5 := s4) end.
  assert (E : outs s5 = outs s).
  { subst s5. cbn [outs upd].
    repeat (match goal with |- context [if ?b then _ else _] => destruct b end; cbn [outs upd]); reflexivity. }
  clearbody s5.
  destruct (dyn (cf e)); [|apply (aq_outs s); auto].
  match goal with |- context [if ?b then apply_membership _ _ _ else _] => destruct b end;
    [apply cq_apply_membership|]; apply cq_update_cluster; apply (aq_outs s); auto.
Qed.

Lemma cq_ae_commit c v s : aq s -> aq (ae_commit c v s).
Proof.
  intros H. unfold ae_commit. apply (aq_outs s); [|exact H].
  destruct v; [destruct (_ <? _)|]; reflexivity.
Qed.

Lemma cq_ae_regular e from c prev new s : aq s -> aq (ae_regular e from c prev new s).
Proof.
  intros H. unfold ae_regular.
  destruct (get_entries _ _ _ _) as [|p0 ptail]; [now apply cq_send_next_idx|].
  destruct prev as [[pidx pterm]|]; [|now apply cq_send_next_idx].
  destruct (negb _); [now apply cq_send_next_idx|].
  apply cq_ae_commit, cq_send_next_idx.
  match goal with |- context [upd (fun n => n <| log := log n ++ _ |>) ?s1] => set (s2 := s1) end.
  assert (E : aq s2).
  { subst s2. destruct (skipn _ ptail); [exact H|]. destruct (skipn _ new); [exact H|].
    apply (aq_outs (if dyn (cf e) then apply_membership true (rev (e0 :: l)) s else s)); [reflexivity|].
    destruct (dyn (cf e)); [now apply cq_apply_membership|exact H]. }
  clearbody s2.
  destruct (dyn (cf e)); [apply cq_apply_membership|]; apply (aq_outs s2); auto.
Qed.

Lemma cq_ae_pre e from t c s : aq s -> aq (ae_pre e from t c s).
Proof.
  intros H. unfold ae_pre. cbv zeta.
  apply (aq_outs (set_role FOLLOWER
    (if term (nd (upd (fun n => n <| leader := Some from |>)
         (if opt_eqb (leader (nd (upd (fun n => n <| deadline := (tnow s + gen_timeout e)%Z |>) s))) (Some from)
          then upd (fun n => n <| deadline := (tnow s + gen_timeout e)%Z |>) s
          else on_leader_changed (upd (fun n => n <| deadline := (tnow s + gen_timeout e)%Z |>) s)))) <? t
     then upd (fun n => n <| term := t |> <| voted := None |>)
            (upd (fun n => n <| leader := Some from |>)
               (if opt_eqb (leader (nd (upd (fun n => n <| deadline := (tnow s + gen_timeout e)%Z |>) s))) (Some from)
                then upd (fun n => n <| deadline := (tnow s + gen_timeout e)%Z |>) s
                else on_leader_changed (upd (fun n => n <| deadline := (tnow s + gen_timeout e)%Z |>) s)))
     else upd (fun n => n <| leader := Some from |>)
            (if opt_eqb (leader (nd (upd (fun n => n <| deadline := (tnow s + gen_timeout e)%Z |>) s))) (Some from)
             then upd (fun n => n <| deadline := (tnow s + gen_timeout e)%Z |>) s
             else on_leader_changed (upd (fun n => n <| deadline := (tnow s + gen_timeout e)%Z |>) s))))); [reflexivity|].
  apply cq_set_role.
  set (s1 := if opt_eqb _ _ then _ else _).
  assert (E : aq s1).
  { subst s1. destruct (opt_eqb _ _); [exact H|]. apply cq_on_leader_changed. exact H. }
  clearbody s1. destruct (_ <? t); exact E.
Qed.

Lemma cq_ae_body_of e from m c s : aq s -> aq (ae_body_of e from m c s).
Proof.
  intros H. unfold ae_body_of. destruct m; try exact H.
  - now apply cq_ae_regular.
  - destruct (lab =? 1); [apply cq_send_next_idx; exact H|].
    destruct (recv_t (nd s)); [exact H|].
    destruct (lab =? 2); [apply cq_send_next_idx; exact H|].
    destruct (assemble_entry _); [|exact H]. apply cq_ae_regular. exact H.
  - pose proof (cq_set_transmission p s H) as G. destruct (set_transmission p s) as [s2 dn]. cbn [fst] in G.
    destruct (dn && _); [|destruct dn]; apply cq_ae_commit; [| |exact G].
    + apply cq_send_next_idx. now apply cq_load_dump.
    + now apply cq_load_dump.
Qed.

Lemma cq_do_apply c s : aq s -> aq (fst (do_apply c s)).
Proof.
  intros H. unfold do_apply. destruct (ck c =? 3); [destruct (_ <? _); exact H|].
  destruct (membership_of c) as [[a x]|].
  - destruct (_ <? _); cbn [fst]; [now apply cq_do_change_cluster|exact H].
  - destruct (ck c =? 0); [destruct (cb c =? 1)|]; exact H.
Qed.

Lemma cq_apply_one en s : aq s -> aq (fst (apply_one en s)).
Proof.
  intros H. unfold apply_one.
  match goal with |- context [do_apply ?c ?s1] =>
    pose proof (cq_do_apply c s1 H) as G; destruct (do_apply c s1) as [s2 ar] end.
  cbn [fst] in G.
  assert (F : forall t r (subs : list (N * cbref)), aq (fold_left (fun s tc => if fst tc =? t then fire (snd tc) r SUCCESS s
                             else fire (snd tc) 0 DISCARDED s) subs s2)).
  { intros t r subs. apply fold_left_inv; [|exact G]. intros a x Ha. destruct (_ =? _); now apply cq_fire. }
  destruct ar; cbn [fst]; try exact G; apply F.
Qed.

Lemma cq_apply_list es s : aq s -> aq (apply_list es s).
Proof.
  revert s. induction es as [|en es IH]; intros s H; cbn [apply_list]; [exact H|].
  pose proof (cq_apply_one en s H) as G. destruct (apply_one en s) as [s1 go]. cbn [fst] in G.
  destruct go; [apply IH|]; exact G.
Qed.

Lemma cq_apply_entries e s : aq s -> aq (fst (apply_entries e s)).
Proof. intros H. unfold apply_entries. destruct (_ <? _); cbn [fst]; [now apply cq_apply_list|exact H]. Qed.

Lemma cq_submit e c cbk s : aq s -> aq (submit e c cbk s).
Proof. intros H. unfold submit. destruct (_ <? _); [now apply cq_call_err|exact H]. Qed.

Lemma cq_try_compact e s : aq s -> aq (try_compact e s).
Proof.
  intros H. apply (aq_outs s); [|exact H]. unfold try_compact.
  repeat (match goal with |- context [match ?x with _ => _ end] => destruct x end; cbn [outs upd]); reflexivity.
Qed.

Lemma cq_tick_load e s : aq s -> aq (tick_load e s).
Proof. intros H. unfold tick_load. destruct (_ && _); [now apply cq_load_dump|exact H]. Qed.

Lemma cq_tick_timer e s : aq s -> aq (tick_timer e s).
Proof. intros H. unfold tick_timer. destruct (_ <? _)%Z; exact H. Qed.

Lemma cq_tick_ready s : aq s -> aq (tick_ready s).
Proof. intros H. unfold tick_ready. destruct (_ && _); exact H. Qed.

Lemma cq_tick_leader e s : aq s -> aq (tick_leader e s).
Proof.
  intros H. unfold tick_leader. destruct (role (nd s) =? LEADER); [|exact H].
  assert (G : forall f a b, outs (fst (commit_loop f a b s)) = outs s).
  { induction f as [|f IH]; intros a b; cbn [commit_loop]; [reflexivity|].
    destruct (a <? _); [|reflexivity]. destruct (existsb _ _); [reflexivity|]. destruct (negb _); [reflexivity|].
    destruct (get_entries _ _ _ _) as [|en r]; [apply IH|]. destruct (_ =? _); apply IH. }
  match goal with |- context [commit_loop ?f ?a ?b s] =>
    specialize (G f a b); destruct (commit_loop f a b s) as [s1 nc] end.
  cbn [fst] in G. assert (H1 : aq s1) by (apply (aq_outs s); auto).
  destruct (ok s1); [|exact H1].
  set (s2 := upd _ (if commit (nd s1) =? nc then s1 else _)).
  assert (H2 : aq s2) by (subst s2; destruct (_ =? nc); exact H1).
  clearbody s2. destruct (existsb _ _); [exact H2|]. destruct (negb _); [|exact H2].
  apply (aq_outs (set_role FOLLOWER s2)); [reflexivity|]. now apply cq_set_role.
Qed.

(* ------------------------------------------------------------------------------------------ *)
(* the helpers that send append_entries                                                       *)

Lemma cq_send_pieces f x en prev b pos s : aq s -> aq (send_pieces f x en prev b pos s).
Proof.
  revert pos s. induction f as [|f IH]; intros pos s H; cbn [send_pieces]; [exact H|].
  destruct (psize en <=? pos); [exact H|]. apply IH. apply aq_send; [exact H|reflexivity].
Qed.

Lemma cq_ae_body e x nx s : aq s -> aq (fst (ae_body e x nx s)).
Proof.
  intros A. unfold ae_body.
  destruct (first_idx (log (nd s)) <? nx).
  - set (prev := get_prev (log (nd s)) nx).
    destruct (nx <=? last_idx (log (nd s))).
    + set (es := get_entries (log (nd s)) (Some nx) None (Some (batch (cf e)))).
      destruct es as [|e1 [|e2 r]]; cbn [fst].
      * apply aq_send; [exact A|reflexivity].
      * destruct (batch (cf e) <=? csz (ecmd e1)); cbn [fst]; [|apply aq_send; [exact A|reflexivity]].
        apply cq_send_pieces; exact A.
      * apply aq_send; [exact A|reflexivity].
    + cbn [fst]. apply aq_send; [exact A|reflexivity].
  - pose proof (cq_get_transmission e x s A) as G.
    destruct (get_transmission e x s) as [s1 td]. cbn [fst snd] in *.
    assert (H1 : aq (send x (AESnap (term (nd s)) (commit (nd s)) td) s1)).
    { apply aq_send; [exact G|reflexivity]. }
    destruct td as [|b off len fi la]; cbn [fst]; [exact H1|].
    destruct la; cbn [fst]; [|exact H1].
    repeat (match goal with |- context [match ?x with _ => _ end] => destruct x end; cbn [fst]); exact H1.
Qed.

Lemma cq_delta_read e s : aq s -> aq (delta_read e s).
Proof. intros A. unfold delta_read. destruct (_ && _); exact A. Qed.

Lemma cq_ae_loop f e st x sg sr_ s : aq s -> aq (ae_loop f e st x sg sr_ s).
Proof.
  revert sg sr_ s. induction f as [|f IH]; intros sg sr_ s H; cbn [ae_loop]; [exact H|].
  destruct (aget x (next_idx (nd s))) as [nx|]; [|exact H].
  destruct (_ || _); [|exact H].
  pose proof (cq_ae_body e x nx s H) as G. destruct (ae_body e x nx s) as [s1 b]. cbn [fst] in G.
  destruct (ok s1); [|exact G].
  destruct (_ <? _)%Z; [now apply cq_delta_read|]. apply IH. now apply cq_delta_read.
Qed.

Lemma cq_cancel_transmission x s : aq s -> aq (cancel_transmission x s).
Proof. intros A. exact A. Qed.

Lemma cq_send_ae e s : aq s -> aq (send_ae e s).
Proof.
  intros H. unfold send_ae. apply fold_left_inv.
  - intros a x Ha. destruct (ok a); [|exact Ha].
    destruct (negb _); [now apply cq_cancel_transmission|now apply cq_ae_loop].
  - exact H.
Qed.

Lemma cq_become_leader e s : aq s -> aq (become_leader e s).
Proof.
  intros H. unfold become_leader. rewrite andthen_eq.
  match goal with |- aq (if ok (?f ?s1) then _ else _) => assert (E : aq s1) end.
  { apply (aq_outs (set_role LEADER (upd (fun n => n <| leader := self n |>) s))); [reflexivity|].
    apply cq_set_role. exact H. }
  destruct (use_batch (cf e)); cbv beta.
  - destruct (ok _); [now apply cq_send_ae|exact E].
  - destruct (ok _); [apply cq_send_ae|]; now apply cq_send_ae.
Qed.

Lemma cq_tick_election e s : aq s -> aq (tick_election e s).
Proof.
  intros H. unfold tick_election. destruct (self (nd s)) as [me|]; [|exact H].
  destruct (_ && _); [|exact H].
  match goal with |- aq (if majority _ (nd ?s1) then _ else _) => assert (E : aq s1) end.
  { apply cq_on_leader_changed. apply fold_left_inv.
    + intros a x Ha. apply aq_send; [exact Ha|reflexivity].
    + match goal with |- aq (upd _ ?X) => assert (G : aq X); [|exact G] end.
      apply cq_set_role. exact H. }
  destruct (majority _ _); [now apply cq_become_leader|exact E].
Qed.

Lemma cq_tick_send e need s : aq s -> aq (tick_send e need s).
Proof.
  intros H. unfold tick_send. destruct (role (nd s) =? LEADER); [|exact H].
  destruct (_ || _); [now apply cq_send_ae|exact H].
Qed.

Lemma cq_tick_pre e s : aq s -> aq (tick_pre e s).
Proof.
  intros H. unfold tick_pre.
  apply andthen_inv; [apply cq_tick_load| |exact H]. intros s1 H1.
  apply andthen_inv; [apply cq_tick_timer| |exact H1]. intros s2 H2.
  apply andthen_inv; [apply cq_tick_election| |exact H2]. intros s3 H3.
  now apply cq_tick_leader.
Qed.

Lemma cq_on_message e from m n : aq (on_message e from m n).
Proof.
  assert (A0 : aq (start_S e n)) by constructor.
  destruct m as [t lli llt|t|t c prev es|t c prev lab off len en|t c p|cm req|req okr a b|t nx r su].
  - unfold on_message. cbn [nd start_S]. destruct (self n); [|exact A0].
    set (s1 := if term n <? t then _ else start_S e n).
    assert (A1 : aq s1).
    { subst s1. destruct (_ <? _); [|exact A0].
      apply (aq_outs (set_role FOLLOWER (upd (fun n => n <| term := t |> <| voted := None |>) (start_S e n))));
        [reflexivity|]. apply cq_set_role. exact A0. }
    clearbody s1.
    repeat (match goal with |- context [if ?b then _ else _] => destruct b end; try exact A1).
    apply aq_send; [exact A1|reflexivity].
  - unfold on_message. cbn [nd start_S]. destruct (_ && _); [|exact A0].
    destruct (majority _ _); [|exact A0].
    apply cq_become_leader. exact A0.
  - unfold on_message. rewrite on_append_entries_eq. destruct (_ <? _); [exact A0|].
    apply cq_ae_body_of, cq_ae_pre. exact A0.
  - unfold on_message. rewrite on_append_entries_eq. destruct (_ <? _); [exact A0|].
    apply cq_ae_body_of, cq_ae_pre. exact A0.
  - unfold on_message. rewrite on_append_entries_eq. destruct (_ <? _); [exact A0|].
    apply cq_ae_body_of, cq_ae_pre. exact A0.
  - unfold on_message. apply cq_submit. exact A0.
  - unfold on_message. cbn [nd start_S]. destruct (aget req (wait_reply n)); [|exact A0].
    repeat (match goal with |- context [if ?b then _ else _] => destruct b end; try exact A0);
      try (apply cq_fire; exact A0).
  - unfold on_message. cbn [nd start_S]. destruct (_ && _); [|exact A0].
    apply (aq_outs (start_S e n)); [|exact A0].
    repeat (match goal with |- context [match ?x with _ => _ end] => destruct x end; cbn [outs upd raise]); reflexivity.
Qed.

End CritPass.

(* ------------------------------------------------------------------------------------------ *)
(* one dequeued command                                                                       *)

Lemma In_outs_send d m s o : In o (outs (send d m s)) -> In o (outs s) \/ o = Send d m.
Proof.
  unfold send. destruct (smem _ _); [|auto]. unfold emit. cbn. intros H. apply in_app_or in H.
  destruct H as [H|[H|[]]]; auto.
Qed.

Lemma crit_send_ae e s o : In o (outs (send_ae e s)) -> critb o = true -> In o (outs s).
Proof.
  intros Hin Hc.
  assert (A : aq (fun o => critb o = false \/ In o (outs s)) (send_ae e s)).
  { apply cq_send_ae; [intros; now left|]. apply Forall_forall. intros; now right. }
  unfold aq in A. rewrite Forall_forall in A. destruct (A o Hin) as [H|H]; [congruence|exact H].
Qed.

Lemma crit_call_err er cbk s o : In o (outs (call_err er cbk s)) -> critb o = true -> In o (outs s).
Proof.
  intros Hin Hc.
  assert (A : aq (fun o => critb o = false \/ In o (outs s)) (call_err er cbk s)).
  { apply cq_call_err; [intros; now left|]. apply Forall_forall. intros; now right. }
  unfold aq in A. rewrite Forall_forall in A. destruct (A o Hin) as [H|H]; [congruence|exact H].
Qed.

Lemma check_one_fw e c cbk s : dyn (cf e) = false ->
  let s' := check_one e c cbk s in
  let ctr := local_ctr (nd s) in
  let idx := last_idx (log (nd s)) + 1 in
  (forall o, In o (outs s') -> critb o = true ->
     In o (outs s) \/
     (exists l id, o = Send l (ApplyCmd c (Some (ctr + 1))) /\ cbk = CbLocal id /\
        local_ctr (nd s') = ctr + 1 /\ wait_reply (nd s') = aset (ctr + 1) cbk (wait_reply (nd s))) \/
     (exists rn rid, o = Send rn (ApplyResp rid true idx (term (nd s))) /\ cbk = CbRemote rn rid /\
        role (nd s) = LEADER /\ In (mkEntry c idx (term (nd s))) (log (nd s')))) /\
  ((local_ctr (nd s') = ctr /\ wait_reply (nd s') = wait_reply (nd s)) \/
   (exists id, cbk = CbLocal id /\ local_ctr (nd s') = ctr + 1 /\
               wait_reply (nd s') = aset (ctr + 1) cbk (wait_reply (nd s)))).
Proof.
  intros Hd. cbv zeta. unfold check_one. rewrite Hd.
  destruct (role (nd s) =? LEADER) eqn:RL.
  - assert (RL' : role (nd s) = LEADER) by lia.
    set (en := mkEntry c (last_idx (log (nd s)) + 1) (term (nd s))).
    set (s2 := upd (log_add en) s).
    set (s4 := match cbk with
               | CbRemote rn rid => send rn (ApplyResp rid true (last_idx (log (nd s)) + 1) (term (nd s))) s2
               | CbLocal _ => upd (fun n => n <| wait_commit :=
                    aset (last_idx (log (nd s)) + 1) ((match aget (last_idx (log (nd s)) + 1) (wait_commit n) with Some l => l | None => [] end) ++ [(term (nd s), cbk)])
                         (wait_commit n) |>) s2
               | CbNone => s2 end).
    assert (N4 : local_ctr (nd s4) = local_ctr (nd s) /\ wait_reply (nd s4) = wait_reply (nd s) /\
                 In en (log (nd s4))).
    { subst s4. destruct cbk; rewrite ?nd_send; subst s2; rewrite ?nd_upd; unfold log_add; cbn;
        (split; [reflexivity|split; [reflexivity|apply in_or_app; right; now left]]). }
    destruct N4 as (N4a & N4b & N4c).
    assert (O4 : forall o, In o (outs s4) -> In o (outs s) \/
               exists rn rid, o = Send rn (ApplyResp rid true (last_idx (log (nd s)) + 1) (term (nd s))) /\ cbk = CbRemote rn rid).
    { intros o Ho. subst s4. destruct cbk as [|id|rn rid]; [left; exact Ho|left; exact Ho|].
      apply In_outs_send in Ho. destruct Ho as [Ho|Ho]; [left; exact Ho|right; eauto]. }
    clearbody s4.
    assert (Fin : forall sf, (forall o, In o (outs sf) -> critb o = true -> In o (outs s4)) ->
                  local_ctr (nd sf) = local_ctr (nd s4) -> wait_reply (nd sf) = wait_reply (nd s4) ->
                  log (nd sf) = log (nd s4) ->
       (forall o, In o (outs sf) -> critb o = true ->
     In o (outs s) \/
     (exists l id, o = Send l (ApplyCmd c (Some (local_ctr (nd s) + 1))) /\ cbk = CbLocal id /\
        local_ctr (nd sf) = local_ctr (nd s) + 1 /\ wait_reply (nd sf) = aset (local_ctr (nd s) + 1) cbk (wait_reply (nd s))) \/
     (exists rn rid, o = Send rn (ApplyResp rid true (last_idx (log (nd s)) + 1) (term (nd s))) /\ cbk = CbRemote rn rid /\
        role (nd s) = LEADER /\ In en (log (nd sf)))) /\
  ((local_ctr (nd sf) = local_ctr (nd s) /\ wait_reply (nd sf) = wait_reply (nd s)) \/
   (exists id, cbk = CbLocal id /\ local_ctr (nd sf) = local_ctr (nd s) + 1 /\
               wait_reply (nd sf) = aset (local_ctr (nd s) + 1) cbk (wait_reply (nd s))))).
    { intros sf Ho E1 E2 E3. split; [|left; split; congruence].
      intros o Hin Hc. destruct (O4 o (Ho o Hin Hc)) as [H|(rn & rid & -> & ->)]; [now left|].
      right. right. exists rn, rid. rewrite E3. auto. }
    destruct (use_batch (cf e)); [apply Fin; auto|].
    apply Fin; [apply crit_send_ae|apply (fr_send_ae local_ctr); frs|apply (fr_send_ae wait_reply); frs|
                apply (fr_send_ae log); frs].
  - destruct (leader (nd s)) as [l|].
    + destruct cbk as [|id|rn rid].
      * split; [|left; rewrite nd_send; auto]. intros o Hin Hc. apply In_outs_send in Hin.
        destruct Hin as [H| ->]; [now left|discriminate].
      * split.
        -- intros o Hin Hc. apply In_outs_send in Hin. destruct Hin as [H| ->]; [now left|].
           right. left. exists l, id. rewrite nd_send, nd_upd. cbn. auto.
        -- right. exists id. rewrite nd_send, nd_upd. cbn. auto.
      * split; [|left; rewrite nd_send; auto]. intros o Hin Hc. apply In_outs_send in Hin.
        destruct Hin as [H| ->]; [now left|discriminate].
    + split; [|left; rewrite nd_call_err; auto]. intros o Hin Hc. left. eapply crit_call_err; eauto.
Qed.

(* ------------------------------------------------------------------------------------------ *)
(* the command loop                                                                           *)

(* the request ids in the pending-reply table are not above the counter *)
Definition WR (n : node) : Prop := forall r cb, In (r, cb) (wait_reply n) -> r <= local_ctr n.

Definition loop_res (s s' : S) : Prop :=
  WR (nd s') /\ local_ctr (nd s) <= local_ctr (nd s') /\
  (forall r cb, In (r, cb) (wait_reply (nd s')) -> In (r, cb) (wait_reply (nd s)) \/ local_ctr (nd s) < r) /\
  (forall d cm r, In (Send d (ApplyCmd cm (Some r))) (outs s') ->
     In (Send d (ApplyCmd cm (Some r))) (outs s) \/
     (local_ctr (nd s) < r <= local_ctr (nd s') /\ forall id, In (r, CbLocal id) (wait_reply (nd s')) -> In (cm, CbLocal id) (queue (nd s)))) /\
  (forall d r i t, In (Send d (ApplyResp r true i t)) (outs s') ->
     In (Send d (ApplyResp r true i t)) (outs s) \/
     exists cm, In (cm, CbRemote d r) (queue (nd s)) /\ In (mkEntry cm i t) (log (nd s')) /\
                last_idx (log (nd s)) < i /\ role (nd s) = LEADER).

Lemma loop_res_refl s : WR (nd s) -> loop_res s s.
Proof. intros W. split; [exact W|]. split; [lia|]. split; [auto|]. split; auto. Qed.

Lemma check_loop_fw f e st : dyn (cf e) = false -> forall s, WR (nd s) -> loop_res s (check_loop f e st s).
Proof.
  intros Hd. induction f as [|f IH]; intros s W; cbn [check_loop]; [now apply loop_res_refl|].
  destruct (_ <? _)%Z; [|now apply loop_res_refl].
  assert (K : loop_res s (match queue (nd s) with
            | [] => s
            | (c0, cbk) :: rest =>
              let s := upd (fun n => n <| queue := rest |>) s in
              let s := check_one e c0 cbk s in
              if ok s then check_loop f e st s else s end)).
  { destruct (queue (nd s)) as [|[c0 cbk] rest] eqn:Eq; [now apply loop_res_refl|]. cbv zeta.
    set (s1 := upd (fun n => n <| queue := rest |>) s).
    pose proof (check_one_fw e c0 cbk s1 Hd) as O. cbv zeta in O. destruct O as [O3 O12].
    destruct (ProofsCallbacks2.check_one_spec e c0 cbk s1) as (Q2 & _ & F & R & _ & _ & H). cbn zeta in H.
    assert (Rl : role (nd (check_one e c0 cbk s1)) = role (nd s1)) by (apply (fr_check_one role); frs).
    set (s2 := check_one e c0 cbk s1) in *.
    change (queue (nd s1)) with rest in Q2. change (log (nd s1)) with (log (nd s)) in *.
    change (wait_reply (nd s1)) with (wait_reply (nd s)) in *. change (local_ctr (nd s1)) with (local_ctr (nd s)) in *.
    change (term (nd s1)) with (term (nd s)) in *. change (role (nd s1)) with (role (nd s)) in *.
    change (outs s1) with (outs s) in *.
    assert (Hl : last_idx (log (nd s)) <= last_idx (log (nd s2))).
    { destruct H as [(_ & Hl & _)|(Hl & _)]; [rewrite Hl, ProofsCommitLog.last_idx_app; cbn; lia|rewrite Hl; lia]. }
    assert (W2 : WR (nd s2)).
    { intros r cb Hin. destruct O12 as [[E1 E2]|(id & -> & E1 & E2)]; rewrite E1.
      - rewrite E2 in Hin. eauto.
      - rewrite E2 in Hin. apply ProofsCommitLog.In_aset in Hin. destruct Hin as [Hin|Hin].
        + injection Hin as -> _. lia.
        + specialize (W r cb Hin). lia. }
    assert (Comp : forall s', loop_res s2 s' -> (exists added, log (nd s') = log (nd s2) ++ added) -> loop_res s s').
    { intros s' (L0 & L1 & L2 & L3 & L4) [added La].
      assert (C12 : local_ctr (nd s) <= local_ctr (nd s2)) by (destruct O12 as [[E1 _]|(id & _ & E1 & _)]; lia).
      assert (Wr2 : forall r cb, In (r, cb) (wait_reply (nd s2)) -> In (r, cb) (wait_reply (nd s)) \/ local_ctr (nd s) < r).
      { intros r cb Hin. destruct O12 as [[_ E2]|(id & -> & _ & E2)]; rewrite E2 in Hin; [now left|].
        apply ProofsCommitLog.In_aset in Hin. destruct Hin as [Hin|Hin]; [|now left].
        injection Hin as -> _. right. lia. }
      split; [exact L0|]. split; [lia|]. split; [|split].
      - intros r cb Hin. destruct (L2 r cb Hin) as [Hin2|Hlt]; [now apply Wr2|right; lia].
      - intros d cm r Hin. destruct (L3 d cm r Hin) as [Hin2|[Hlt Hq]].
        + destruct (O3 _ Hin2 eq_refl) as [Ho|[(l & id0 & Eo & -> & E1 & E2)|(rn & rid & Eo & _)]]; [now left| |discriminate Eo].
          injection Eo as -> -> ->. right. split; [lia|]. intros id Hid.
          destruct (L2 _ _ Hid) as [Hid2|Hlt]; [|lia].
          rewrite E2 in Hid2. apply ProofsCommitLog.In_aset in Hid2. destruct Hid2 as [Hid2|Hid2].
          * injection Hid2 as <-. rewrite Eq. now left.
          * specialize (W _ _ Hid2). lia.
        + right. split; [lia|]. intros id Hid. specialize (Hq id Hid). rewrite Q2 in Hq. rewrite Eq. now right.
      - intros d r i t Hin. destruct (L4 d r i t Hin) as [Hin2|(cm & Hq & He & Hi & Hr)].
        + destruct (O3 _ Hin2 eq_refl) as [Ho|[(l & id0 & Eo & _)|(rn & rid & Eo & -> & Hr & He)]]; [now left|discriminate Eo|].
          injection Eo as -> -> -> ->. right. exists c0. split; [rewrite Eq; now left|]. split; [rewrite La; apply in_or_app; now left|].
          split; [lia|exact Hr].
        + right. exists cm. split; [rewrite Q2 in Hq; rewrite Eq; now right|]. split; [exact He|]. split; [lia|congruence]. }
    destruct (ok s2).
    - apply Comp; [now apply IH|]. destruct (ProofsCallbacksFull2.check_loop_subs f e st s2) as (_ & Ha & _). exact Ha.
    - apply Comp; [now apply loop_res_refl|]. exists []. now rewrite app_nil_r. }
  destruct (leader (nd s)); [exact K|]. destruct (wait_leader (cf e)); [now apply loop_res_refl|exact K].
Qed.

(* ------------------------------------------------------------------------------------------ *)
(* the other phases: the pending-reply table only shrinks, the counter stays                  *)

Definition wsub (a b : node) : Prop :=
  (forall p, In p (wait_reply b) -> In p (wait_reply a)) /\ local_ctr b = local_ctr a.

Lemma wsub_refl a : wsub a a.
Proof. split; auto. Qed.
Lemma wsub_trans a b d : wsub a b -> wsub b d -> wsub a d.
Proof. intros [A1 A2] [B1 B2]. split; [auto|congruence]. Qed.
Lemma wsub_same a b : wait_reply b = wait_reply a -> local_ctr b = local_ctr a -> wsub a b.
Proof. intros H1 H2. split; [now rewrite H1|exact H2]. Qed.
Lemma wsub_nil a b : wait_reply b = [] -> local_ctr b = local_ctr a -> wsub a b.
Proof. intros H1 H2. split; [rewrite H1; intros p []|exact H2]. Qed.

Lemma wsub_on_leader_changed s : wsub (nd s) (nd (on_leader_changed s)).
Proof.
  unfold on_leader_changed. apply wsub_nil; rewrite nd_upd; [reflexivity|].
  cbn. apply (fr_fold local_ctr). intros. now rewrite nd_fire.
Qed.

Lemma wsub_tick_election e s : wsub (nd s) (nd (tick_election e s)).
Proof.
  unfold tick_election. destruct (self (nd s)) as [me|]; [|apply wsub_refl].
  destruct (_ && _); [|apply wsub_refl].
  match goal with |- wsub _ (nd (if majority _ (nd ?s1) then _ else _)) => assert (E : wsub (nd s) (nd s1)) end.
  { eapply wsub_trans; [|apply wsub_on_leader_changed].
    apply wsub_same.
    - rewrite (fr_fold wait_reply) by (intros; now rewrite nd_send). rewrite nd_upd. cbn.
      rewrite (fr_set_role wait_reply) by frs. reflexivity.
    - rewrite (fr_fold local_ctr) by (intros; now rewrite nd_send). rewrite nd_upd. cbn.
      rewrite (fr_set_role local_ctr) by frs. reflexivity. }
  destruct (majority _ _); [|exact E].
  eapply wsub_trans; [exact E|]. apply wsub_same; [apply (fr_become_leader wait_reply); frs|apply (fr_become_leader local_ctr); frs].
Qed.

Lemma wsub_tick_pre e x0 : file_dump (cf e) = false -> wsub x0 (nd (tick_pre e (start_S e x0))).
Proof.
  intros Hf. unfold tick_pre. change x0 with (nd (start_S e x0)) at 1.
  apply (andthen_rel wsub); [apply wsub_trans| |intros].
  { unfold tick_load. rewrite Hf, andb_false_r. apply wsub_same; reflexivity. }
  apply (andthen_rel wsub); [apply wsub_trans| |intros].
  { apply wsub_same; [apply (fr_tick_timer wait_reply); frs|apply (fr_tick_timer local_ctr); frs]. }
  apply (andthen_rel wsub); [apply wsub_trans| |intros].
  { apply wsub_tick_election. }
  apply wsub_same; [apply (fr_tick_leader wait_reply); frs|apply (fr_tick_leader local_ctr); frs].
Qed.

Definition nocrit (s : S) : Prop := aq (fun o => critb o = false) s.

Lemma nocrit_no s o : nocrit s -> In o (outs s) -> critb o = true -> False.
Proof. unfold nocrit, aq. rewrite Forall_forall. intros H Hin Hc. specialize (H o Hin). cbv beta in H. congruence. Qed.

Lemma outs_try_compact e s : outs (try_compact e s) = outs s.
Proof.
  unfold try_compact.
  repeat (match goal with |- context [match ?x with _ => _ end] => destruct x end; cbn [outs upd]); reflexivity.
Qed.

(* what a whole tick does to the request counter, the pending-reply table and the critical outputs *)
Definition tick_fw (E : cmd -> N -> N -> Prop) (x0 : node) (s' : S) : Prop :=
  WR (nd s') /\ local_ctr x0 <= local_ctr (nd s') /\
  (forall r cb, In (r, cb) (wait_reply (nd s')) -> In (r, cb) (wait_reply x0) \/ local_ctr x0 < r) /\
  (forall q, In q (queue (nd s')) -> In q (queue x0)) /\
  (forall d cm r, In (Send d (ApplyCmd cm (Some r))) (outs s') ->
     local_ctr x0 < r <= local_ctr (nd s') /\
     forall id, In (r, CbLocal id) (wait_reply (nd s')) -> In (cm, CbLocal id) (queue x0)) /\
  (forall d r i t, In (Send d (ApplyResp r true i t)) (outs s') ->
     exists cm, In (cm, CbRemote d r) (queue x0) /\ role (nd s') = LEADER /\ E cm i t).

Lemma tick_fw_quiet E x0 s : WR x0 -> nocrit s -> wsub x0 (nd s) ->
  (forall q, In q (queue (nd s)) -> In q (queue x0)) -> tick_fw E x0 s.
Proof.
  intros W Hn [W1 W2] Hq. split; [|split; [lia|split; [|split; [exact Hq|split]]]].
  - intros r cb Hin. rewrite W2. apply (W r cb). now apply W1.
  - intros r cb Hin. left. now apply W1.
  - intros d cm r Hin. exfalso. eapply nocrit_no; eauto.
  - intros d r i t Hin. exfalso. eapply nocrit_no; eauto.
Qed.

Lemma tick_body_fw e x0 :
  dyn (cf e) = false -> file_dump (cf e) = false -> WR x0 ->
  tick_fw (fun cm i t => In (mkEntry cm i t) (log (nd (tick_body e (start_S e x0)))) /\ (log x0 <> [] -> last_idx (log x0) < i))
          x0 (tick_body e (start_S e x0)).
Proof.
  intros Hd Hf W.
  set (E := fun cm i t => In (mkEntry cm i t) (log (nd (tick_body e (start_S e x0)))) /\ (log x0 <> [] -> last_idx (log x0) < i)).
  assert (HE : forall sb, sb = tick_body e (start_S e x0) -> tick_fw (fun cm i t => In (mkEntry cm i t) (log (nd sb)) /\ (log x0 <> [] -> last_idx (log x0) < i)) x0 sb -> tick_fw E x0 (tick_body e (start_S e x0))).
  { intros sb ->. auto. }
  apply (HE _ eq_refl). clear HE E. unfold tick_body. rewrite andthen_apply.
  pose proof (ProofsCallbacksFull2.quiet_tick_pre e x0 Hf) as Q0.
  pose proof (wsub_tick_pre e x0 Hf) as U0.
  assert (C0 : nocrit (tick_pre e (start_S e x0))) by (apply cq_tick_pre; [auto|constructor]).
  set (s0 := tick_pre e (start_S e x0)) in *.
  destruct (ok s0); [|apply tick_fw_quiet; auto; apply Q0].
  pose proof (ProofsCallbacksFull2.quiet_apply_entries e s0) as Q1.
  assert (U1 : wsub (nd s0) (nd (fst (apply_entries e s0)))).
  { apply wsub_same; [apply (fr_apply_entries wait_reply); frs|apply (fr_apply_entries local_ctr); frs]. }
  assert (C1 : nocrit (fst (apply_entries e s0))) by (apply cq_apply_entries; auto).
  destruct (apply_entries e s0) as [s1 need]. cbn [fst] in Q1, U1, C1.
  pose proof (ProofsCallbacksFull2.quiet_trans _ _ _ Q0 Q1) as Q01. pose proof (wsub_trans _ _ _ U0 U1) as U01.
  destruct (ok s1); [|apply tick_fw_quiet; auto; apply Q01].
  unfold tick_mid. rewrite andthen_apply.
  assert (Q2 : ProofsCallbacksFull2.quiet_rel (nd s1) (nd (tick_send e need s1))).
  { apply ProofsCallbacksFull2.quiet_same; [apply (fr_tick_send queue); frs|apply (fr_tick_send wait_commit); frs|apply ProofsCommitLog.nkeeps_tick_send]. }
  assert (U2 : wsub (nd s1) (nd (tick_send e need s1))).
  { apply wsub_same; [apply (fr_tick_send wait_reply); frs|apply (fr_tick_send local_ctr); frs]. }
  assert (C2 : nocrit (tick_send e need s1)) by (apply cq_tick_send; auto).
  pose proof (ProofsCallbacksFull2.quiet_trans _ _ _ Q01 Q2) as Q02. pose proof (wsub_trans _ _ _ U01 U2) as U02.
  set (s2 := tick_send e need s1) in *.
  destruct (ok s2); [|apply tick_fw_quiet; auto; apply Q02]. rewrite andthen_apply.
  assert (Q3 : ProofsCallbacksFull2.quiet_rel (nd s2) (nd (tick_ready s2))).
  { apply ProofsCallbacksFull2.quiet_same; [apply (fr_tick_ready queue); frs|apply (fr_tick_ready wait_commit); frs|].
    apply ProofsCommitLog.nkeeps_los. apply (fr_tick_ready ProofsCommitLog.los); reflexivity. }
  assert (U3 : wsub (nd s2) (nd (tick_ready s2))).
  { apply wsub_same; [apply (fr_tick_ready wait_reply); frs|apply (fr_tick_ready local_ctr); frs]. }
  assert (C3 : nocrit (tick_ready s2)) by (apply cq_tick_ready; auto).
  pose proof (ProofsCallbacksFull2.quiet_trans _ _ _ Q02 Q3) as (A1 & A2 & A3). pose proof (wsub_trans _ _ _ U02 U3) as [B1 B2].
  set (s3 := tick_ready s2) in *.
  destruct (ok s3); [|apply tick_fw_quiet; [exact W|exact C3|split; assumption|exact A1]].
  unfold check_commands.
  assert (W3 : WR (nd s3)).
  { intros r cb Hin. rewrite B2. apply (W r cb). now apply B1. }
  destruct (check_loop_fw (Datatypes.S (length (queue (nd s3)))) e (tnow s3) Hd s3 W3) as (L0 & L1 & L2 & L3 & L4).
  assert (Rl : role (nd (check_loop (Datatypes.S (length (queue (nd s3)))) e (tnow s3) s3)) = role (nd s3)) by (apply (fr_check_loop role); frs).
  set (s4 := check_loop _ e (tnow s3) s3) in *.
  destruct (ProofsCallbacksFull2.check_loop_subs (Datatypes.S (length (queue (nd s3)))) e (tnow s3) s3) as (Cq & _ & _).
  cbv zeta in Cq. fold s4 in Cq.
  split; [exact L0|]. split; [lia|]. split; [|split; [|split]].
  - intros r cb Hin. destruct (L2 r cb Hin) as [H|H]; [left; now apply B1|right; lia].
  - intros q Hq. apply A1. now apply Cq.
  - intros d cm r Hin. destruct (L3 d cm r Hin) as [H|[H1 H2]]; [exfalso; eapply nocrit_no; eauto|].
    split; [lia|]. intros id Hid. apply A1. now apply H2.
  - intros d r i t Hin. destruct (L4 d r i t Hin) as [H|(cm & H1 & H2 & H3 & H4)]; [exfalso; eapply nocrit_no; eauto|].
    exists cm. split; [now apply A1|]. split; [congruence|]. split; [exact H2|].
    intros Hne. pose proof (ProofsCallbacksFull2.last_idx_of_nkeeps _ _ A3 Hne) as Hl. lia.
Qed.

Lemma on_tick_fw e x0 :
  dyn (cf e) = false -> file_dump (cf e) = false -> WR x0 ->
  tick_fw (fun cm i t => ProofsApplyLog.log_wf (log x0) -> applied x0 <= last_idx (log x0) ->
                         (pid (sr x0) = 1 -> cur_id (sr x0) < applied x0) ->
                         In (mkEntry cm i t) (log (nd (on_tick e x0))))
          x0 (on_tick e x0).
Proof.
  intros Hd Hf W.
  pose proof (tick_body_fw e x0 Hd Hf W) as (T0 & T1 & T2 & Tq & T3 & T4).
  assert (G : forall sf, sf = on_tick e x0 ->
     tick_fw (fun cm i t => ProofsApplyLog.log_wf (log x0) -> applied x0 <= last_idx (log x0) ->
                         (pid (sr x0) = 1 -> cur_id (sr x0) < applied x0) ->
                         In (mkEntry cm i t) (log (nd sf))) x0 sf); [|now apply G].
  intros sf ->. rewrite on_tick_body, andthen_apply.
  destruct (ok (tick_body e (start_S e x0))) eqn:Eok.
  - unfold tick_fw, WR in *. rewrite outs_try_compact.
    rewrite (fr_try_compact wait_reply), (fr_try_compact local_ctr), (fr_try_compact role), (fr_try_compact queue) by frs.
    split; [exact T0|]. split; [exact T1|]. split; [exact T2|]. split; [exact Tq|]. split; [exact T3|].
    intros d r i t Hin. destruct (T4 d r i t Hin) as (cm & H1 & H4 & He & Hi).
    exists cm. split; [exact H1|]. split; [exact H4|]. intros W0 Hal Hcur.
    assert (Hne : log x0 <> []) by apply W0. specialize (Hi Hne).
    pose proof (ProofsCallbacksCore2.grows2_tick_pre e x0 Hf) as (P0 & Cu0 & _).
    pose proof (ProofsCallbacksCore2.log_wf_tick_pre e x0 Hf W0) as W1.
    destruct (ProofsCallbacksCore2.tick_body_after_pre e x0 W1) as ((Pb & Cub & _) & _ & Wb).
    rewrite ProofsCallbacksCore2.try_compact_log.
    destruct (pid (sr (nd (tick_body e (start_S e x0)))) =? 1) eqn:Ep; [|exact He].
    apply N.eqb_eq in Ep. apply (ProofsCallbacksCore2.In_delete_to_kept _ _ _ Wb He). cbn [eidx].
    assert (Hp0 : pid (sr x0) = 1) by congruence. specialize (Hcur Hp0). rewrite Cub, Cu0. lia.
  - split; [exact T0|]. split; [exact T1|]. split; [exact T2|]. split; [exact Tq|]. split; [exact T3|].
    intros d r i t Hin. destruct (T4 d r i t Hin) as (cm & H1 & H4 & He & Hi).
    exists cm. split; [exact H1|]. split; [exact H4|]. intros _ _ _. exact He.
Qed.

(* ------------------------------------------------------------------------------------------ *)
(* message handlers                                                                           *)

Lemma wsub_ae_pre e from t c s : wsub (nd s) (nd (ae_pre e from t c s)).
Proof.
  unfold ae_pre. cbv zeta.
  set (s1 := upd (fun n => n <| deadline := (tnow s + gen_timeout e)%Z |>) s).
  set (s2 := if opt_eqb (leader (nd s1)) (Some from) then s1 else on_leader_changed s1).
  assert (E2 : wsub (nd s) (nd s2)).
  { subst s2. destruct (opt_eqb _ _); [apply wsub_same; reflexivity|].
    eapply wsub_trans; [|apply wsub_on_leader_changed]. apply wsub_same; reflexivity. }
  clearbody s2. eapply wsub_trans; [exact E2|]. apply wsub_same.
  - rewrite nd_upd. cbn [wait_reply set]. rewrite (fr_set_role wait_reply) by frs. destruct (_ <? t); reflexivity.
  - rewrite nd_upd. cbn [local_ctr set]. rewrite (fr_set_role local_ctr) by frs. destruct (_ <? t); reflexivity.
Qed.

Lemma wsub_on_append_entries e from m t c s : wsub (nd s) (nd (on_append_entries e from m t c s)).
Proof.
  rewrite on_append_entries_eq. destruct (_ <? _); [apply wsub_refl|].
  eapply wsub_trans; [apply wsub_ae_pre|].
  apply wsub_same; [apply (fr_ae_body_of wait_reply); frs|apply (fr_ae_body_of local_ctr); frs].
Qed.

Lemma wsub_on_message e from m x : wsub x (nd (on_message e from m x)).
Proof.
  destruct m as [t lli llt|t|t cc prev es|t cc prev lab off len en|t cc p|c0 req|req okr a0 b0|t nx r0 su].
  - apply wsub_same; [apply (fr_msg_request_vote wait_reply); frs|apply (fr_msg_request_vote local_ctr); frs].
  - apply wsub_same; [apply (fr_msg_response_vote wait_reply); frs|apply (fr_msg_response_vote local_ctr); frs].
  - unfold on_message. apply (wsub_on_append_entries e from _ t cc (start_S e x)).
  - unfold on_message. apply (wsub_on_append_entries e from _ t cc (start_S e x)).
  - unfold on_message. apply (wsub_on_append_entries e from _ t cc (start_S e x)).
  - apply wsub_same; [apply (fr_msg_apply_cmd wait_reply); frs|apply (fr_msg_apply_cmd local_ctr); frs].
  - unfold on_message. cbn [nd start_S].
    destruct (aget req (wait_reply x)) as [cbk|]; [|apply wsub_refl].
    assert (E : wsub x (nd (upd (fun n => n <| wait_reply := adel req (wait_reply n) |>) (start_S e x)))).
    { split; [|reflexivity]. cbn. intros p Hp. eapply ProofsCommitLog.In_adel; eauto. }
    destruct (negb okr); [rewrite nd_fire; exact E|].
    destruct (_ <=? _); [rewrite nd_fire; exact E|].
    eapply wsub_trans; [exact E|]. apply wsub_same; reflexivity.
  - apply wsub_same; [apply (fr_msg_next_idx wait_reply); frs|apply (fr_msg_next_idx local_ctr); frs].
Qed.

Lemma nocrit_on_message e from m x : nocrit (on_message e from m x).
Proof. apply cq_on_message. auto. Qed.

Lemma submit_outs_nocrit e c cbk s : nocrit s -> nocrit (submit e c cbk s).
Proof. apply cq_submit. auto. Qed.
