(* Tier CM3, part 11 (copy of RefineMFinal.v): the refinement theorem and the safety theorems for
   runs WITH membership changes, WITHOUT the schedule restriction [tg_ok].

   FILES (dependency order): AbstractM/Safety10_NoTguardA-D (abstract Raft with membership change,
   safety WITHOUT the election guard, from the member filter on vote grants) - RefineM3Abs - RefineM3Eff -
   RefineM3K - RefineM3Sim - RefineM3TickA/B - RefineM3MsgA/B - RefineM3Global - RefineM3Main -
   RefineM3Final - RefineM3Example - Props/TierCM3.v.  (RefineMAbs, RefineMCfg, RefineMSpecA, RefineMRO
   and the definitions of RefineMMain/RefineMFinal that do not mention the target are re-used.)

   THE FRAGMENT (core_fragM33): as core_fragM3 (RefineMFinal.v: dyn, no dump file, 1 < batch, validM,
   small_evM, join_ok, nodes_idleM) with [tg_ok] replaced by
     tg3_ok: a tick moves the term of a node only if the node is a member by its OWN log or a PURE
       JOINER (not in V, no add-command naming it in its log).  A freshly started joiner may time
       out before it holds its own add entry: RefineM3Example.
     mf_ok: the transport's member filter for vote requests: a RequestVote is delivered a -> b only
       while both run and each has the other in its member table.
   WHY it is safe (AbstractM/Safety10_NoTguardC.v): a premature candidate y CAN collect votes - from
   voters that hold a [CAdd y] on a branch that lost (RefineM3Example, the second run) - but never a
   majority of its own table: guards (a)/(b) of __changeCluster give a committed entry of the term
   of the first membership entry behind y's log whose quorum is a majority of exactly y's table
   minus y, and nobody in that quorum votes for y.                                              *)
From Coq Require Import ZArith NArith List Bool Lia ZifyBool Arith PeanoNat.
From RecordUpdate Require Import RecordSet.
From PSO Require Import Raft.Types Raft.Node Raft.Net Raft.Obs Raft.ProofsCommitBase.
From PSO Require Import Raft.ProofsElectionBase Raft.ProofsElectionGhost Raft.ProofsMembership.
From PSO Require Import Raft.RefineMAbs Raft.RefineM3Abs Raft.RefineMEff Raft.RefineM3Eff Raft.RefineMCfg Raft.RefineM3K Raft.RefineMSpecA Raft.RefineM3Sim
  Raft.RefineM3TickA Raft.RefineMGlobal Raft.RefineM3Global Raft.RefineMMain Raft.RefineM3Main Raft.RefineMFinal.
From PSO Require AbstractM.Model AbstractM.Lib AbstractM.Kstep AbstractM.Cfg AbstractM.Safety1_WF
  AbstractM.Safety2_Election AbstractM.Safety3_LeaderLog AbstractM.Safety4_LogMatching AbstractM.Safety6_LC
  AbstractM.Safety7_SM AbstractM.Safety10_NoTguardD.
Import ListNotations.
Import RecordSetNotations.
Open Scope N_scope.

Module S3 := PSO.AbstractM.Safety3_LeaderLog.
Module S4 := PSO.AbstractM.Safety4_LogMatching.
Module S7 := PSO.AbstractM.Safety7_SM.

Lemma run_okM3_app c V g a b g1 :
  run_trace c g a = Some g1 -> run_okM3 c V g (a ++ b) = run_okM3 c V g a && run_okM3 c V g1 b.
Proof.
  revert g. induction a as [|ev a IH]; intros g H; cbn in *.
  - injection H as <-. reflexivity.
  - destruct (gstep c g ev) as [[g' r]|]; [|discriminate].
    rewrite (IH g' H). rewrite !andb_assoc. reflexivity.
Qed.

Section Run.
Variable c : conf.
Variable V : list nid.
Hypothesis NDV : NoDup V.
Hypothesis SV : ssorted V.
Hypothesis VNE : V <> [].
Hypothesis VRO : forall v, In v V -> v < RO_BASE.
Hypothesis Hb1 : 1 < batch c.
Hypothesis Hdyn : dyn c = true.
Hypothesis Hfd : file_dump c = false.
Set Default Proof Using "All".

Notation V' := (absV V).
Notation GI := (GI c V).
Notation kstar := (kstar V).
Notation pk := (pk c).
Notation kall := (kall c V NDV SV VNE VRO Hb1).
Notation V'_nodup := (V'_nodup c V NDV SV VNE VRO Hb1).
Notation V'_ne := (V'_ne c V NDV SV VNE VRO Hb1).

Lemma GI_init : GI ginit [] (M.init V').
Proof.
  constructor.
  - exact I.
  - intros v x H. cbn in H. discriminate.
  - intros v d H. destruct H.
  - constructor.
  - constructor.
    + intros v x H. cbn in H. discriminate.
    + intros v Hv _. unfold pristine. cbn. repeat split; try reflexivity.
      assert (Hm : M.mem (n2 v) V' = true) by (apply MC.mem_In; apply absV_In; exact Hv). rewrite Hm. reflexivity.
    + intros y Hy _. cbn.
      assert (Hm : M.mem (n2 y) V' = false) by (apply MC.mem_not_In; intros Hi; apply absV_In in Hi; contradiction).
      rewrite Hm. reflexivity.
    + intros a b m H. cbn in H. destruct H.
    + intros a b x H. cbn in H. discriminate.
    + intros v x H. cbn in H. discriminate.
    + intros v x H. cbn in H. discriminate.
Qed.

(* the forward simulation along a run *)
Theorem run_sim evs : forall g st s g',
  GI g st s -> valid_fromM V st evs = true -> run_okM3 c V g evs = true ->
  run_trace c g evs = Some g' ->
  exists s', kstar s s' /\ GI g' (sts_after st evs) s'.
Proof.
  induction evs as [|ev evs IH]; intros g st s g' G Hv Hr Hg; cbn in *.
  - injection Hg as <-. exists s. split; [constructor|exact G].
  - apply andb_true_iff in Hv as [Hev Hv].
    apply andb_true_iff in Hr as [Hsm Hr]. apply andb_true_iff in Hsm as [Hsm Hmf]. apply andb_true_iff in Hsm as [Hsm Hnr].
    destruct (gstep c g ev) as [[g1 r]|] eqn:Est; [|discriminate].
    apply andb_true_iff in Hr as [Hid Hr]. apply andb_true_iff in Hid as [Hid Htg].
    destruct (step_sim c V NDV SV VNE VRO Hb1 Hdyn Hfd g st s ev g1 r G Hev Hnr Hsm Est Hid Htg Hmf) as (s1 & K1 & G1).
    destruct (IH g1 _ s1 g' G1 Hv Hr Hg) as (s2 & K2 & G2).
    exists s2. split; auto. eapply kstar_trans; eauto.
Qed.

(* ---------------------------------------------------------------------------------------- *)
(* consequences on L1 states related to a reachable AbstractM state                          *)

Lemma nth_abs_sim la lb p :
  nth_error (absL pk la) p = nth_error (absL pk lb) p -> osim (nth_error la p) (nth_error lb p).
Proof.
  rewrite !absL_nth. destruct (nth_error la p) as [a|], (nth_error lb p) as [b|]; cbn [option_map osim]; intros H;
    try discriminate; auto.
  apply (absE_sim pk). congruence.
Qed.

Section State.
Variables (g : gstate) (st : list nid) (s : M.state).
Hypothesis G : GI g st s.

Lemma GI_node a xa : aget a (nodes g) = Some xa -> a < RO_BASE -> Rn c a xa s /\ Hn c V a xa.
Proof.
  intros Ha Hlt. destruct G as [Gs Gr Gd HR RR].
  split; [apply (R_node _ _ _ _ _ RR a xa Ha Hlt)|apply (R_hyg _ _ _ _ _ RR a xa Ha Hlt)].
Qed.

(* Election Safety: one leader per term *)
Lemma st_one_leader a b xa xb :
  aget a (nodes g) = Some xa -> aget b (nodes g) = Some xb -> a < RO_BASE -> b < RO_BASE ->
  role xa = LEADER -> role xb = LEADER -> term xa = term xb -> a = b.
Proof.
  intros Ha Hb Hla Hlb Hra Hrb Ht.
  destruct (GI_node a xa Ha Hla) as [Ra _]. destruct (GI_node b xb Hb Hlb) as [Rb _].
  pose proof (GI_reach _ _ _ _ _ G) as HR. pose proof (SA.A2 _ _ _ (kall s HR)) as I2.
  assert (La : M.rl (M.nodes s (n2 a)) = M.Leader) by (rewrite (Rn_role _ _ _ _ Ra), Hra; reflexivity).
  assert (Lb : M.rl (M.nodes s (n2 b)) = M.Leader) by (rewrite (Rn_role _ _ _ _ Rb), Hrb; reflexivity).
  destruct (S2.I2_leader _ I2 _ La) as (Qa & Ca & Wa). destruct (S2.I2_leader _ I2 _ Lb) as (Qb & Cb & Wb).
  rewrite (Rn_term _ _ _ _ Ra) in Wa. rewrite (Rn_term _ _ _ _ Rb), <- Ht in Wb.
  pose proof (TH.k_election_safety V' F3 F3_disc V'_nodup V'_ne s _ _ _ _ _ _ _ HR Wa Wb). lia.
Qed.

Lemma st_log_matching a b xa xb p ea eb :
  aget a (nodes g) = Some xa -> aget b (nodes g) = Some xb -> a < RO_BASE -> b < RO_BASE ->
  nth_error (log xa) p = Some ea -> nth_error (log xb) p = Some eb -> eterm ea = eterm eb ->
  forall q, (q <= p)%nat -> osim (nth_error (log xa) q) (nth_error (log xb) q).
Proof.
  intros Ha Hb Hla Hlb Hea Heb Ht q Hq.
  destruct (GI_node a xa Ha Hla) as [Ra _]. destruct (GI_node b xb Hb Hlb) as [Rb _].
  pose proof (SA.A4 _ _ _ (kall s (GI_reach _ _ _ _ _ G))) as I4.
  pose proof (S4.canon_lmatch (M.llog s) _ _ (S4.I4_canon _ I4 (n2 a)) (S4.I4_canon _ I4 (n2 b)) p
                (absE pk ea) (absE pk eb)) as H.
  rewrite (Rn_log _ _ _ _ Ra), (Rn_log _ _ _ _ Rb), !absL_nth, Hea, Heb in H.
  specialize (H eq_refl eq_refl). cbn in H. rewrite Ht in H. specialize (H eq_refl).
  apply nth_abs_sim. apply (ML.firstn_eq_nth _ _ _ q H). lia.
Qed.

Lemma st_state_machine_safety a b xa xb i :
  aget a (nodes g) = Some xa -> aget b (nodes g) = Some xb -> a < RO_BASE -> b < RO_BASE ->
  1 <= i -> i <= commit xa -> i <= commit xb ->
  exists ea eb, nth_error (log xa) (n2 i - 1) = Some ea /\ nth_error (log xb) (n2 i - 1) = Some eb /\
                esim ea eb /\ eidx ea = i.
Proof.
  intros Ha Hb Hla Hlb H1 Hca Hcb.
  destruct (GI_node a xa Ha Hla) as [Ra _]. destruct (GI_node b xb Hb Hlb) as [Rb _].
  pose proof (GI_reach _ _ _ _ _ G) as HR.
  destruct (TH.k_state_machine_safety V' F3 F3_disc V'_nodup V'_ne s (n2 a) (n2 b) (n2 i - 1)%nat HR) as [E L].
  { rewrite (Rn_commit _ _ _ _ Ra). lia. }
  { rewrite (Rn_commit _ _ _ _ Rb). lia. }
  rewrite (Rn_log _ _ _ _ Ra), (Rn_log _ _ _ _ Rb) in E. apply nth_abs_sim in E.
  rewrite (Rn_log _ _ _ _ Ra), absL_length in L.
  destruct (nth_error (log xa) (n2 i - 1)) as [ea|] eqn:En; [|apply nth_error_None in En; lia].
  destruct (nth_error (log xb) (n2 i - 1)) as [eb|] eqn:Em; [|destruct E].
  exists ea, eb. repeat split; auto; try apply E.
  pose proof (S1.I1_log _ (SA.A1 _ _ _ (kall s HR)) (n2 a) (n2 i - 1)%nat (absE pk ea)) as W.
  rewrite (Rn_log _ _ _ _ Ra), absL_nth, En in W. destruct (W eq_refl) as [W1 _]. cbn in W1. lia.
Qed.

(* what two voters have APPLIED up to a common index is the same entry (applied <= commit: H_ac) *)
Lemma st_applied_agree a b xa xb i :
  aget a (nodes g) = Some xa -> aget b (nodes g) = Some xb -> a < RO_BASE -> b < RO_BASE ->
  1 <= i -> i <= applied xa -> i <= applied xb ->
  exists ea eb, nth_error (log xa) (n2 i - 1) = Some ea /\ nth_error (log xb) (n2 i - 1) = Some eb /\
                esim ea eb /\ eidx ea = i.
Proof.
  intros Ha Hb Hla Hlb H1 Hia Hib.
  destruct (GI_node a xa Ha Hla) as [_ HHa]. destruct (GI_node b xb Hb Hlb) as [_ HHb].
  pose proof (H_ac _ _ _ _ HHa). pose proof (H_ac _ _ _ _ HHb).
  apply (st_state_machine_safety a b xa xb i); auto; lia.
Qed.

(* every voter's member table is the configuration defined by its own log *)
Lemma st_members a xa :
  aget a (nodes g) = Some xa -> a < RO_BASE ->
  others xa = fold_members (vminus a V) (log xa) (Some a) /\
  (forall y, In y (others xa) <-> y <> a /\ In (n2 y) (M.gcfg V' (absL pk (log xa)))).
Proof.
  intros Ha Hla. destruct (GI_node a xa Ha Hla) as [Ra HH]. split; [apply (H_oth _ _ _ _ HH)|].
  intros y. rewrite (H_oth _ _ _ _ HH).
  pose proof (others_abs pk a V (log xa) (ssorted_vminus a V SV) y) as Hm. rewrite MC.others_gcfg in Hm.
  rewrite Hm, MC.del_In. split; intros [A B]; split; auto; lia.
Qed.

(* who leads is a member by its own log; a candidate that is not has no majority of its table *)
Lemma st_leader_member a xa :
  aget a (nodes g) = Some xa -> a < RO_BASE -> role xa = LEADER -> memb c V a xa = true.
Proof.
  intros Ha Hla Hr. destruct (GI_node a xa Ha Hla) as [Ra _].
  pose proof (GI_reach _ _ _ _ _ G) as HR.
  assert (La : M.rl (M.nodes s (n2 a)) = M.Leader) by (rewrite (Rn_role _ _ _ _ Ra), Hr; reflexivity).
  pose proof (TH.k_winner_is_member V' F3 F3_disc V'_nodup V'_ne s (n2 a) HR La) as H.
  rewrite (Rn_log _ _ _ _ Ra) in H. unfold RefineMTickA.memb. apply MC.mem_In. exact H.
Qed.

Lemma st_premature_no_majority a xa :
  aget a (nodes g) = Some xa -> a < RO_BASE -> role xa = CANDIDATE -> memb c V a xa = false ->
  majority (votes xa) xa = false.
Proof.
  intros Ha Hla Hr Hm. destruct (GI_node a xa Ha Hla) as [Ra HH].
  pose proof (GI_reach _ _ _ _ _ G) as HR.
  assert (Ca : M.rl (M.nodes s (n2 a)) = M.Candidate) by (rewrite (Rn_role _ _ _ _ Ra), Hr; reflexivity).
  assert (Hn : ~ In (n2 a) (M.gcfg V' (M.log (M.nodes s (n2 a))))).
  { rewrite (Rn_log _ _ _ _ Ra). apply MC.mem_not_In. exact Hm. }
  pose proof (TH.k_premature_candidate_has_no_majority V' F3 F3_disc V'_nodup V'_ne s (n2 a) HR Ca Hn) as H.
  destruct (majority (votes xa) xa) eqn:Mj; auto. exfalso.
  pose proof (GI_R _ _ _ _ _ G) as RR.
  pose proof (LS_start c V NDV SV VNE VRO Hb1 g st s (mk_env c 0 0 0 [] 0) a xa HR RR Ha Hla) as L0.
  pose proof (majority_abs c V NDV SV VNE VRO Hb1 a s _ (votes xa) L0 Mj) as Hmaj.
  rewrite <- (proj1 (Rn_votes _ _ _ _ Ra Hr)) in Hmaj. congruence.
Qed.

End State.

(* two moments of one run *)
Lemma stable_star s1 s2 j :
  K3.kreachable3 V' F3 s1 -> kstar s1 s2 -> S7.stable s1 s2 j.
Proof.
  intros HR K. induction K as [|sa sb K IH Ks]; [apply S7.stable_refl|].
  eapply S7.stable_trans; [exact IH|].
  apply (TH.k_commit_stable V' F3 F3_disc V'_nodup V'_ne).
  - eapply kstar_kreachable; eauto.
  - exact Ks.
Qed.

Lemma committed_star s1 s2 Tb l k :
  K3.kreachable3 V' F3 s1 -> kstar s1 s2 -> S7.committed_upto s1 Tb l k -> S7.committed_upto s2 Tb l k.
Proof.
  intros HR K H. induction K as [|sa sb K IH Ks]; auto.
  assert (HRa : K3.kreachable3 V' F3 sa) by (eapply kstar_kreachable; eauto).
  pose proof (kall sa HRa) as A.
  eapply (S7.committed_mono V' F3 sa sb Tb Tb); eauto.
  - apply (SA.A1 _ _ _ A).
  - apply (SA.A2 _ _ _ A).
  - apply (SA.A3 _ _ _ A).
  - apply (SA.all_LF V' F3 F3_disc V'_nodup V'_ne sa A).
  - exact (proj1 Ks).
Qed.

Lemma st_committed_never_change g1 st1 s1 g2 st2 s2 a xa1 xa2 i :
  GI g1 st1 s1 -> GI g2 st2 s2 -> kstar s1 s2 ->
  aget a (nodes g1) = Some xa1 -> aget a (nodes g2) = Some xa2 -> a < RO_BASE ->
  1 <= i -> i <= commit xa1 ->
  commit xa1 <= commit xa2 /\ osim (nth_error (log xa2) (n2 i - 1)) (nth_error (log xa1) (n2 i - 1)).
Proof.
  intros G1 G2 K Ha1 Ha2 Hla Hi1 Hi2.
  destruct (GI_node _ _ _ G1 a xa1 Ha1 Hla) as [R1 _]. destruct (GI_node _ _ _ G2 a xa2 Ha2 Hla) as [R2 _].
  destruct (stable_star s1 s2 (n2 a) (GI_reach _ _ _ _ _ G1) K) as [C F].
  rewrite (Rn_commit _ _ _ _ R1), (Rn_commit _ _ _ _ R2) in C.
  rewrite (Rn_commit _ _ _ _ R1), (Rn_log _ _ _ _ R1), (Rn_log _ _ _ _ R2) in F.
  split; [lia|]. apply nth_abs_sim. apply (ML.firstn_eq_nth _ _ _ _ F). lia.
Qed.

Lemma st_leader_completeness g1 st1 s1 g2 st2 s2 a l xa xl i :
  GI g1 st1 s1 -> GI g2 st2 s2 -> kstar s1 s2 ->
  aget a (nodes g1) = Some xa -> aget l (nodes g2) = Some xl -> a < RO_BASE -> l < RO_BASE ->
  role xl = LEADER -> term xa <= term xl -> 1 <= i -> i <= commit xa ->
  osim (nth_error (log xl) (n2 i - 1)) (nth_error (log xa) (n2 i - 1)).
Proof.
  intros G1 G2 K Ha Hl Hla Hll Hrole Ht Hi1 Hi2.
  destruct (GI_node _ _ _ G1 a xa Ha Hla) as [Ra _]. destruct (GI_node _ _ _ G2 l xl Hl Hll) as [Rl _].
  pose proof (GI_reach _ _ _ _ _ G1) as HR1. pose proof (GI_reach _ _ _ _ _ G2) as HR2.
  pose proof (S7.I7_node _ (SA.A7 _ _ _ (kall s1 HR1)) (n2 a)) as C1.
  apply (committed_star s1 s2 _ _ _ HR1 K) in C1.
  assert (Hlead : M.rl (M.nodes s2 (n2 l)) = M.Leader).
  { rewrite (Rn_role _ _ _ _ Rl), Hrole. reflexivity. }
  pose proof (kall s2 HR2) as A2.
  destruct (S2.I2_leader _ (SA.A2 _ _ _ A2) _ Hlead) as (Q & Cw & HQ).
  pose proof (S7.committed_in_leader s2 _ _ _ _ _ Q Cw
                (SA.A4 _ _ _ A2) (SA.A6 _ _ _ A2) (SA.all_LC V' F3 V'_nodup s2 A2) C1 HQ) as F.
  rewrite <- (S3.I3_wlog _ (SA.A3 _ _ _ A2) _ _ _ _ HQ eq_refl) in F.
  rewrite (Rn_term _ _ _ _ Ra), (Rn_term _ _ _ _ Rl) in F.
  assert (Hle : (n2 (term xa) <= n2 (term xl))%nat) by lia. specialize (F Hle).
  rewrite (Rn_log _ _ _ _ Ra), (Rn_log _ _ _ _ Rl), (Rn_commit _ _ _ _ Ra) in F.
  apply nth_abs_sim. symmetry. apply (ML.firstn_eq_nth _ _ _ _ F). lia.
Qed.

End Run.

(* ------------------------------------------------------------------------------------------ *)
(* the theorems on L1 runs                                                                    *)

Lemma core_fragM3_facts c V evs :
  core_fragM3 c V evs ->
  NoDup V /\ ssorted V /\ V <> [] /\ (forall v, In v V -> v < RO_BASE) /\ 1 < batch c /\ dyn c = true /\
  file_dump c = false /\ valid_fromM V [] evs = true /\ run_okM3 c V ginit evs = true.
Proof.
  intros (A & B & C & D & F). unfold validM in D. apply andb_true_iff in D as [D1 D2].
  apply andb_true_iff in D1 as [D1 E].
  destruct (Vok_spec V D1) as (ND & HV & HL).
  repeat split; auto; [apply sortedb_ssorted; exact E|]. intros ->. cbn in HL. lia.
Qed.

Lemma run_GI c V evs g :
  core_fragM3 c V evs -> run_trace c ginit evs = Some g ->
  exists s, GI c V g (sts_after [] evs) s.
Proof.
  intros F Hr. destruct (core_fragM3_facts c V evs F) as (ND & SV & HNE & HV & Hb & Hd & Hf & Hv & Hok).
  destruct (run_sim c V ND SV HNE HV Hb Hd Hf evs ginit [] (M.init (absV V)) g
              (GI_init c V ND SV HNE HV Hb Hd Hf) Hv Hok Hr) as (s & K & G).
  eauto.
Qed.

Lemma run_GI2 c V evs1 evs2 g1 g2 :
  core_fragM3 c V (evs1 ++ evs2) -> run_trace c ginit evs1 = Some g1 -> run_trace c g1 evs2 = Some g2 ->
  exists st1 s1 st2 s2, GI c V g1 st1 s1 /\ GI c V g2 st2 s2 /\ kstar V s1 s2.
Proof.
  intros F Hr1 Hr2. destruct (core_fragM3_facts c V _ F) as (ND & SV & HNE & HV & Hb & Hd & Hf & Hv & Hok).
  rewrite valid_fromM_app in Hv. apply andb_true_iff in Hv as [Hv1 Hv2].
  rewrite (run_okM3_app c V ginit evs1 evs2 g1 Hr1) in Hok. apply andb_true_iff in Hok as [Hok1 Hok2].
  destruct (run_sim c V ND SV HNE HV Hb Hd Hf evs1 ginit [] _ g1 (GI_init c V ND SV HNE HV Hb Hd Hf) Hv1 Hok1 Hr1)
    as (s1 & K1 & G1).
  destruct (run_sim c V ND SV HNE HV Hb Hd Hf evs2 g1 _ s1 g2 G1 Hv2 Hok2 Hr2) as (s2 & K2 & G2).
  do 4 eexists. eauto.
Qed.

Lemma core_fragM3_intro c V evs :
  dyn c = true -> file_dump c = false -> 1 < batch c -> validM V evs = true ->
  run_okM3 c V ginit evs = true -> core_fragM3 c V evs.
Proof. intros. repeat split; assumption. Qed.

(* REFINEMENT: every run of the fragment has a reachable AbstractM counterpart *)
Lemma TierCM3_refinement :
  forall (c : conf) (V : list nid) (evs : list event) (g : gstate),
    dyn c = true -> file_dump c = false -> 1 < batch c -> validM V evs = true ->
    run_okM3 c V ginit evs = true ->
    run_trace c ginit evs = Some g ->
    exists s, K3.kreachable3 (absV V) F3 s /\ R c V g (sts_after [] evs) s.
Proof.
  intros c V evs g H1 H2 H3 H4 H6 Hr.
  destruct (run_GI c V evs g (core_fragM3_intro c V evs H1 H2 H3 H4 H6) Hr) as (s & G).
  exists s. split; [apply (GI_reach _ _ _ _ _ G)|apply (GI_R _ _ _ _ _ G)].
Qed.

Lemma TierCM3_one_leader_per_term :
  forall (c : conf) (V : list nid) (evs : list event) (g : gstate) (a b : nid) (xa xb : node),
    dyn c = true -> file_dump c = false -> 1 < batch c -> validM V evs = true ->
    run_okM3 c V ginit evs = true ->
    run_trace c ginit evs = Some g ->
    aget a (nodes g) = Some xa -> aget b (nodes g) = Some xb -> a < RO_BASE -> b < RO_BASE ->
    role xa = LEADER -> role xb = LEADER -> term xa = term xb -> a = b.
Proof.
  intros c V evs g a b xa xb H1 H2 H3 H4 H6 Hr.
  pose proof (core_fragM3_intro c V evs H1 H2 H3 H4 H6) as F.
  destruct (core_fragM3_facts c V evs F) as (ND & SV & HNE & HV & Hb & Hd & Hf & _).
  destruct (run_GI c V evs g F Hr) as (s & G).
  apply (st_one_leader c V ND SV HNE HV Hb Hd Hf g _ s G).
Qed.

Lemma TierCM3_log_matching :
  forall (c : conf) (V : list nid) (evs : list event) (g : gstate) (a b : nid) (xa xb : node)
         (p : nat) (ea eb : entry),
    dyn c = true -> file_dump c = false -> 1 < batch c -> validM V evs = true ->
    run_okM3 c V ginit evs = true ->
    run_trace c ginit evs = Some g ->
    aget a (nodes g) = Some xa -> aget b (nodes g) = Some xb -> a < RO_BASE -> b < RO_BASE ->
    nth_error (log xa) p = Some ea -> nth_error (log xb) p = Some eb -> eterm ea = eterm eb ->
    forall q, (q <= p)%nat -> osim (nth_error (log xa) q) (nth_error (log xb) q).
Proof.
  intros c V evs g a b xa xb p ea eb H1 H2 H3 H4 H6 Hr.
  pose proof (core_fragM3_intro c V evs H1 H2 H3 H4 H6) as F.
  destruct (core_fragM3_facts c V evs F) as (ND & SV & HNE & HV & Hb & Hd & Hf & _).
  destruct (run_GI c V evs g F Hr) as (s & G).
  apply (st_log_matching c V ND SV HNE HV Hb Hd Hf g _ s G).
Qed.

Lemma TierCM3_state_machine_safety :
  forall (c : conf) (V : list nid) (evs : list event) (g : gstate) (a b : nid) (xa xb : node) (i : N),
    dyn c = true -> file_dump c = false -> 1 < batch c -> validM V evs = true ->
    run_okM3 c V ginit evs = true ->
    run_trace c ginit evs = Some g ->
    aget a (nodes g) = Some xa -> aget b (nodes g) = Some xb -> a < RO_BASE -> b < RO_BASE ->
    1 <= i -> i <= commit xa -> i <= commit xb ->
    exists ea eb, nth_error (log xa) (N.to_nat i - 1) = Some ea /\
                  nth_error (log xb) (N.to_nat i - 1) = Some eb /\ esim ea eb /\ eidx ea = i.
Proof.
  intros c V evs g a b xa xb i H1 H2 H3 H4 H6 Hr.
  pose proof (core_fragM3_intro c V evs H1 H2 H3 H4 H6) as F.
  destruct (core_fragM3_facts c V evs F) as (ND & SV & HNE & HV & Hb & Hd & Hf & _).
  destruct (run_GI c V evs g F Hr) as (s & G).
  apply (st_state_machine_safety c V ND SV HNE HV Hb Hd Hf g _ s G).
Qed.

Lemma TierCM3_applied_entries_agree :
  forall (c : conf) (V : list nid) (evs : list event) (g : gstate) (a b : nid) (xa xb : node) (i : N),
    dyn c = true -> file_dump c = false -> 1 < batch c -> validM V evs = true ->
    run_okM3 c V ginit evs = true ->
    run_trace c ginit evs = Some g ->
    aget a (nodes g) = Some xa -> aget b (nodes g) = Some xb -> a < RO_BASE -> b < RO_BASE ->
    1 <= i -> i <= applied xa -> i <= applied xb ->
    exists ea eb, nth_error (log xa) (N.to_nat i - 1) = Some ea /\
                  nth_error (log xb) (N.to_nat i - 1) = Some eb /\ esim ea eb /\ eidx ea = i.
Proof.
  intros c V evs g a b xa xb i H1 H2 H3 H4 H6 Hr.
  pose proof (core_fragM3_intro c V evs H1 H2 H3 H4 H6) as F.
  destruct (core_fragM3_facts c V evs F) as (ND & SV & HNE & HV & Hb & Hd & Hf & _).
  destruct (run_GI c V evs g F Hr) as (s & G).
  apply (st_applied_agree c V ND SV HNE HV Hb Hd Hf g _ s G).
Qed.

Lemma TierCM3_members_follow_log :
  forall (c : conf) (V : list nid) (evs : list event) (g : gstate) (a : nid) (xa : node),
    dyn c = true -> file_dump c = false -> 1 < batch c -> validM V evs = true ->
    run_okM3 c V ginit evs = true ->
    run_trace c ginit evs = Some g ->
    aget a (nodes g) = Some xa -> a < RO_BASE ->
    others xa = fold_members (vminus a V) (log xa) (Some a) /\
    (forall y, In y (others xa) <-> y <> a /\ In (N.to_nat y) (M.gcfg (absV V) (absL (pk c) (log xa)))).
Proof.
  intros c V evs g a xa H1 H2 H3 H4 H6 Hr.
  pose proof (core_fragM3_intro c V evs H1 H2 H3 H4 H6) as F.
  destruct (core_fragM3_facts c V evs F) as (ND & SV & HNE & HV & Hb & Hd & Hf & _).
  destruct (run_GI c V evs g F Hr) as (s & G).
  apply (st_members c V ND SV HNE HV Hb Hd Hf g _ s G).
Qed.

Lemma TierCM3_leader_is_member_by_own_log :
  forall (c : conf) (V : list nid) (evs : list event) (g : gstate) (a : nid) (xa : node),
    dyn c = true -> file_dump c = false -> 1 < batch c -> validM V evs = true ->
    run_okM3 c V ginit evs = true ->
    run_trace c ginit evs = Some g ->
    aget a (nodes g) = Some xa -> a < RO_BASE -> role xa = LEADER -> memb c V a xa = true.
Proof.
  intros c V evs g a xa H1 H2 H3 H4 H6 Hr.
  pose proof (core_fragM3_intro c V evs H1 H2 H3 H4 H6) as F.
  destruct (core_fragM3_facts c V evs F) as (ND & SV & HNE & HV & Hb & Hd & Hf & _).
  destruct (run_GI c V evs g F Hr) as (s & G).
  apply (st_leader_member c V ND SV HNE HV Hb Hd Hf g _ s G).
Qed.

Lemma TierCM3_premature_candidate_has_no_majority :
  forall (c : conf) (V : list nid) (evs : list event) (g : gstate) (a : nid) (xa : node),
    dyn c = true -> file_dump c = false -> 1 < batch c -> validM V evs = true ->
    run_okM3 c V ginit evs = true ->
    run_trace c ginit evs = Some g ->
    aget a (nodes g) = Some xa -> a < RO_BASE -> role xa = CANDIDATE -> memb c V a xa = false ->
    majority (votes xa) xa = false.
Proof.
  intros c V evs g a xa H1 H2 H3 H4 H6 Hr.
  pose proof (core_fragM3_intro c V evs H1 H2 H3 H4 H6) as F.
  destruct (core_fragM3_facts c V evs F) as (ND & SV & HNE & HV & Hb & Hd & Hf & _).
  destruct (run_GI c V evs g F Hr) as (s & G).
  apply (st_premature_no_majority c V ND SV HNE HV Hb Hd Hf g _ s G).
Qed.

Lemma TierCM3_committed_never_change :
  forall (c : conf) (V : list nid) (evs1 evs2 : list event) (g1 g2 : gstate) (a : nid) (xa1 xa2 : node) (i : N),
    dyn c = true -> file_dump c = false -> 1 < batch c -> validM V (evs1 ++ evs2) = true ->
    run_okM3 c V ginit (evs1 ++ evs2) = true ->
    run_trace c ginit evs1 = Some g1 -> run_trace c g1 evs2 = Some g2 ->
    aget a (nodes g1) = Some xa1 -> aget a (nodes g2) = Some xa2 -> a < RO_BASE ->
    1 <= i -> i <= commit xa1 ->
    commit xa1 <= commit xa2 /\
    osim (nth_error (log xa2) (N.to_nat i - 1)) (nth_error (log xa1) (N.to_nat i - 1)).
Proof.
  intros c V evs1 evs2 g1 g2 a xa1 xa2 i H1 H2 H3 H4 H6 Hr1 Hr2.
  pose proof (core_fragM3_intro c V _ H1 H2 H3 H4 H6) as F.
  destruct (core_fragM3_facts c V _ F) as (ND & SV & HNE & HV & Hb & Hd & Hf & _).
  destruct (run_GI2 c V evs1 evs2 g1 g2 F Hr1 Hr2) as (st1 & s1 & st2 & s2 & G1 & G2 & K).
  apply (st_committed_never_change c V ND SV HNE HV Hb Hd Hf g1 st1 s1 g2 st2 s2 a xa1 xa2 i G1 G2 K).
Qed.

Lemma TierCM3_leader_completeness :
  forall (c : conf) (V : list nid) (evs1 evs2 : list event) (g1 g2 : gstate) (a l : nid) (xa xl : node) (i : N),
    dyn c = true -> file_dump c = false -> 1 < batch c -> validM V (evs1 ++ evs2) = true ->
    run_okM3 c V ginit (evs1 ++ evs2) = true ->
    run_trace c ginit evs1 = Some g1 -> run_trace c g1 evs2 = Some g2 ->
    aget a (nodes g1) = Some xa -> aget l (nodes g2) = Some xl -> a < RO_BASE -> l < RO_BASE ->
    role xl = LEADER -> term xa <= term xl -> 1 <= i -> i <= commit xa ->
    osim (nth_error (log xl) (N.to_nat i - 1)) (nth_error (log xa) (N.to_nat i - 1)).
Proof.
  intros c V evs1 evs2 g1 g2 a l xa xl i H1 H2 H3 H4 H6 Hr1 Hr2.
  pose proof (core_fragM3_intro c V _ H1 H2 H3 H4 H6) as F.
  destruct (core_fragM3_facts c V _ F) as (ND & SV & HNE & HV & Hb & Hd & Hf & _).
  destruct (run_GI2 c V evs1 evs2 g1 g2 F Hr1 Hr2) as (st1 & s1 & st2 & s2 & G1 & G2 & K).
  apply (st_leader_completeness c V ND SV HNE HV Hb Hd Hf g1 st1 s1 g2 st2 s2 a l xa xl i G1 G2 K).
Qed.
