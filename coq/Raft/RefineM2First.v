(* Tier CM2, part 0 (AbstractM only; copy of Abstract/Safety8_First.v): every log and every leader log of
   AbstractM starts from the common first entry e0 (used by the snapshot-install refinement). *)
From Coq Require Import List Arith Lia Bool PeanoNat.
Import ListNotations.
Require Import PSO.AbstractM.Model PSO.AbstractM.Lib PSO.AbstractM.Kstep PSO.AbstractM.Safety1_WF.

Section S8.
Variable V : list nat.
Variable F : flags.

Record Inv8 (s : state) : Prop := {
  I8_log : forall j, nth_error (log (nodes s j)) 0 = Some e0;
  I8_llog : forall T, llog s T <> [] -> nth_error (llog s T) 0 = Some e0
}.

Lemma inv8_init : Inv8 (init V).
Proof.
  constructor; simpl; auto. intros T H. destruct (T =? 0); [reflexivity|contradiction].
Qed.

Lemma nth0_app {A} (l r : list A) x : nth_error l 0 = Some x -> nth_error (l ++ r) 0 = Some x.
Proof. destruct l; simpl; [discriminate|auto]. Qed.

Lemma inv8_kstep s s' : Inv8 s -> kstep V F s s' -> Inv8 s'.
Proof.
  intros [IL ILL] K. constructor.
  - intros j. pose proof (IL j) as Hj.
    destruct K; subst x; sproj; auto; nc j; auto.
    + apply nth0_app; auto.
    + apply nth0_app; auto.
    + apply nth0_app. rewrite nth_error_firstn_lt by lia. auto.
  - intros T HT. 
    destruct K; subst x; sproj; auto.
    + rewrite (Hl T) in *. destruct (T =? term (nodes s n)); auto. apply nth0_app. apply IL.
    + rewrite (Hl T) in *. destruct (T =? term (nodes s n)); auto. apply nth0_app. apply IL.
Qed.

Theorem inv8_kreachable s : kreachable V F s -> Inv8 s.
Proof. apply kreachable_ind_inv; [apply inv8_init|]. intros; eapply inv8_kstep; eauto. Qed.

End S8.
