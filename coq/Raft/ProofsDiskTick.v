(* C06: the whole first tick of a restarted node (not only tick_load + apply_entries), for a
   tick that comes before the election deadline drawn at restart. *)
From Coq Require Import ZArith NArith List Bool Lia ZifyBool ZifyN.
From RecordUpdate Require Import RecordSet.
From PSO Require Import Raft.Types Raft.Node Raft.Net Raft.Obs Raft.ProofsCommitBase Raft.ProofsCommit
  Raft.ProofsSnapshotBase Raft.ProofsSnapshot Raft.ProofsDisk.
Import ListNotations.
Import RecordSetNotations.
Open Scope N_scope.

Definition tick_rest (e : env) : S -> S :=
  tick_timer e ;; tick_election e ;; tick_leader e ;;
  (fun s => let (s, need) := apply_entries e s in
            if ok s then (tick_send e need ;; tick_ready ;; check_commands e ;; try_compact e) s else s).

Lemma on_tick_split : forall e n, on_tick e n = (tick_load e ;; tick_rest e) (start_S e n).
Proof. reflexivity. Qed.

Lemma try_compact_idle : forall e s, pid (sr (nd s)) = 0 ->
  hist (nd (try_compact e s)) = hist (nd s) /\ applied (nd (try_compact e s)) = applied (nd s) /\
  log (nd (try_compact e s)) = log (nd s) /\ commit (nd (try_compact e s)) = commit (nd s).
Proof.
  intros e s Hp. unfold try_compact. rewrite Hp. cbn [N.eqb negb].
  destruct (_ && _ && _); [auto|].
  destruct (get_entries _ _ _ _) as [|e0 [|e1 tl]]; try (unfold upd; cbn; auto).
  match goal with |- context [if ?b then _ else _] => destruct b end; unfold upd; cbn; auto.
Qed.

Lemma check_commands_empty : forall e s, queue (nd s) = [] -> check_commands e s = s.
Proof.
  intros e s Hq. unfold check_commands. rewrite Hq. cbn [length check_loop]. rewrite Hq.
  destruct (_ <? _)%Z; [|reflexivity]. destruct (leader (nd s)); [reflexivity|].
  destruct (wait_leader (cf e)); reflexivity.
Qed.

(* a follower whose election deadline has not passed, with an empty queue and an idle
   serializer: the rest of the tick only applies committed entries *)
Lemma tick_rest_follower : forall e s,
  exc s = 0 -> role (nd s) = FOLLOWER -> (tnow s <= deadline (nd s))%Z ->
  queue (nd s) = [] -> pid (sr (nd s)) = 0 ->
  let es := if applied (nd s) <? commit (nd s)
            then get_entries (log (nd s)) (Some (applied (nd s) + 1)) (Some (commit (nd s) - applied (nd s))) None
            else [] in
  let s' := tick_rest e s in
  hist (nd s') = hist (nd s) ++ fst (replay (self_ver (nd s)) es) /\
  applied (nd s') = applied (nd s) + N.of_nat (snd (replay (self_ver (nd s)) es)) /\
  log (nd s') = log (nd s) /\ commit (nd s') = commit (nd s) /\ exc s' = 0.
Proof.
  intros e s Hx Hr Hd Hq Hp. cbv zeta.
  remember (tick_rest e s) as s' eqn:Hs'. unfold tick_rest in Hs'.
  (* tick_timer *)
  set (st := tick_timer e s) in *.
  assert (Ht : exc st = 0 /\ role (nd st) = FOLLOWER /\ deadline (nd st) = deadline (nd s) /\ tnow st = tnow s /\
               queue (nd st) = [] /\ sr (nd st) = sr (nd s) /\ hist (nd st) = hist (nd s) /\
               applied (nd st) = applied (nd s) /\ log (nd st) = log (nd s) /\ commit (nd st) = commit (nd s) /\
               self_ver (nd st) = self_ver (nd s)).
  { subst st. unfold tick_timer. destruct (_ <? _)%Z; unfold upd; cbn; repeat split; auto. }
  destruct Ht as (T1 & T2 & T3 & T4 & T5 & T6 & T7 & T8 & T9 & T10 & T11).
  assert (Hok_st : ok st = true) by (unfold ok; rewrite T1; reflexivity).
  rewrite andthen_eq in Hs'. fold st in Hs'. rewrite Hok_st in Hs'.
  (* tick_election: nothing *)
  assert (He : tick_election e st = st).
  { unfold tick_election. destruct (self (nd st)); [|reflexivity].
    rewrite T2. assert (Hdl : (deadline (nd st) <? tnow st)%Z = false) by lia. rewrite Hdl.
    cbn. reflexivity. }
  rewrite andthen_eq, He, Hok_st in Hs'.
  (* tick_leader: nothing *)
  assert (Hl : tick_leader e st = st).
  { unfold tick_leader. rewrite T2. reflexivity. }
  rewrite andthen_eq, Hl, Hok_st in Hs'.
  (* apply_entries *)
  pose proof (apply_entries_spec e st) as Ha. cbv zeta in Ha.
  assert (Hrole : role (nd (fst (apply_entries e st))) = role (nd st)) by (apply (fr_apply_entries role); frs).
  assert (Hqueue : queue (nd (fst (apply_entries e st))) = queue (nd st)) by (apply (fr_apply_entries queue); frs).
  destruct (apply_entries e st) as [sa need]. cbn [fst] in *.
  destruct Ha as [Hax Hac]. unfold core in Hac. injection Hac as C1 C2 C3 C4 C5 C6 C7 C8.
  rewrite T7, T8, T9, T10, T11 in *.
  assert (Hok_sa : ok sa = true) by (unfold ok; rewrite Hax, T1; reflexivity).
  rewrite Hok_sa in Hs'.
  (* tick_send: nothing for a follower *)
  assert (Hs : tick_send e need sa = sa).
  { unfold tick_send. rewrite Hrole, T2. reflexivity. }
  rewrite andthen_eq, Hs, Hok_sa in Hs'.
  (* tick_ready *)
  set (sr_ := tick_ready sa) in *.
  assert (Hrd : exc sr_ = 0 /\ queue (nd sr_) = [] /\ sr (nd sr_) = sr (nd s) /\ hist (nd sr_) = hist (nd sa) /\
                applied (nd sr_) = applied (nd sa) /\ log (nd sr_) = log (nd sa) /\ commit (nd sr_) = commit (nd sa)).
  { subst sr_. unfold tick_ready. destruct (_ && _); unfold upd; cbn; repeat split; auto; congruence. }
  destruct Hrd as (R1 & R2 & R3 & R4 & R5 & R6 & R7).
  assert (Hok_sr : ok sr_ = true) by (unfold ok; rewrite R1; reflexivity).
  rewrite andthen_eq in Hs'. fold sr_ in Hs'. rewrite Hok_sr in Hs'.
  rewrite andthen_eq, (check_commands_empty e sr_ R2), Hok_sr in Hs'.
  assert (Hpid : pid (sr (nd sr_)) = 0) by (rewrite R3; exact Hp).
  destruct (try_compact_idle e sr_ Hpid) as (K1 & K2 & K3 & K4).
  subst s'.
  rewrite K1, K2, K3, K4, R4, R5, R6, R7, C1, C2, C4, C5.
  repeat split; auto.
  (* no exception *)
  unfold try_compact. rewrite Hpid. cbn [N.eqb negb].
  destruct (_ && _ && _); [exact R1|].
  destruct (get_entries _ _ _ _) as [|e0 [|e1 tl]]; try (unfold upd; cbn; exact R1).
  match goal with |- context [if ?b then _ else _] => destruct b end; unfold upd; cbn; exact R1.
Qed.

Lemma tick_load_frame : forall e s,
  role (nd (tick_load e s)) = role (nd s) /\ deadline (nd (tick_load e s)) = deadline (nd s) /\
  queue (nd (tick_load e s)) = queue (nd s).
Proof.
  intros e s. unfold tick_load. destruct (need_load (nd s) && file_dump (cf e)); unfold upd; cbn.
  - rewrite (fr_load_dump role) by frs. rewrite (fr_load_dump deadline) by frs.
    rewrite (fr_load_dump queue) by frs. auto.
  - auto.
Qed.

Lemma core_proj : forall a h ap sv l c r m z,
  core a = (h, ap, sv, l, c, r, m, z) -> hist a = h /\ applied a = ap /\ log a = l /\ commit a = c.
Proof. intros a h ap sv l c r m z H. unfold core in H. inversion H. auto. Qed.

(* C06_first_tick_rebuilds for the whole tick *)
Theorem first_tick_rebuilds_on_tick : forall e0 e me oth sv d sn pre post,
  file_dump (cf e) = true ->
  d_dump d = Some (Good sn) -> s_ver sn <= sv ->
  d_log d = pre ++ s_e0 sn :: s_e1 sn :: post -> log_wf (d_log d) ->
  (t0 e <= t0 e0 + gen_timeout e0)%Z ->
  let n0 := init_from_disk e0 me oth sv d in
  let es := if eidx (s_e1 sn) <? d_meta d
            then firstn (N.to_nat (d_meta d - eidx (s_e1 sn))) post else [] in
  let s' := on_tick e n0 in
  log (nd s') = s_e0 sn :: s_e1 sn :: post /\
  hist (nd s') = s_hist sn ++ fst (replay sv es) /\
  applied (nd s') = eidx (s_e1 sn) + N.of_nat (snd (replay sv es)) /\
  commit (nd s') = d_meta d /\ exc s' = 0.
Proof.
  intros e0 e me oth sv d sn pre post Hfd Hdump Hv Hl Hwf Hdl n0 es s'.
  pose proof (first_tick_rebuilds e0 e me oth sv d sn pre post Hfd Hdump Hv Hl Hwf) as H.
  cbv zeta in H. fold es in H. subst n0. set (n0 := init_from_disk e0 me oth sv d) in *.
  destruct H as (A1 & A2 & A3 & A4 & A5 & A6 & A7 & A8 & A9).
  assert (Hne : d_log d <> []) by (rewrite Hl; destruct pre; discriminate).
  destruct (restart_state e0 me oth sv d Hne) as
    (R1 & R2 & R3 & R4 & R5 & R6 & R7 & R8 & R9 & R10 & R11 & R12 & R13 & R14 & R15 & R16 & R17 & R18 & R19 & R20 & R21).
  change (init_from_disk e0 me oth sv d) with n0 in R1, R2, R3, R4, R5, R6, R7, R8, R9, R10, R11, R12, R13,
    R14, R15, R16, R17, R18, R19, R20, R21.
  set (s1 := tick_load e (start_S e n0)) in *.
  destruct (tick_load_frame e (start_S e n0)) as (F1 & F2 & F3). fold s1 in F1, F2, F3.
  cbn [nd start_S tnow] in F1, F2, F3.
  assert (Hx1 : exc s1 = 0).
  { pose proof (apply_entries_spec e s1) as Ha. cbv zeta in Ha. destruct Ha as [Ha _]. congruence. }
  assert (F4 : tnow s1 = t0 e).
  { subst s1. unfold tick_load. cbn [nd start_S]. rewrite R13, Hfd. cbn [andb]. unfold upd. cbn.
    assert (Hst : stored (sr (nd (start_S e n0))) = Some (Good sn)) by (cbn; rewrite R9; exact Hdump).
    assert (Hv0 : s_ver sn <= self_ver (nd (start_S e n0))) by (cbn; rewrite R17; exact Hv).
    assert (Hl0 : log (nd (start_S e n0)) = pre ++ s_e0 sn :: s_e1 sn :: post) by (cbn; rewrite R1; exact Hl).
    assert (Hwf0 : log_wf (log (nd (start_S e n0)))) by (cbn; rewrite R1; exact Hwf).
    destruct (load_dump_trims e _ sn pre post Hst Hv0 Hl0 Hwf0) as (_ & _ & _ & _ & _ & _ & _ & _ & _ & _ & L11).
    rewrite L11. reflexivity. }
  assert (Hsr : pid (sr (nd s1)) = 0).
  { subst s1. unfold tick_load. cbn [nd start_S]. rewrite R13, Hfd. cbn [andb]. unfold upd. cbn.
    assert (Hst : stored (sr (nd (start_S e n0))) = Some (Good sn)) by (cbn; rewrite R9; exact Hdump).
    assert (Hv0 : s_ver sn <= self_ver (nd (start_S e n0))) by (cbn; rewrite R17; exact Hv).
    assert (Hl0 : log (nd (start_S e n0)) = pre ++ s_e0 sn :: s_e1 sn :: post) by (cbn; rewrite R1; exact Hl).
    assert (Hwf0 : log_wf (log (nd (start_S e n0)))) by (cbn; rewrite R1; exact Hwf).
    destruct (load_dump_trims e _ sn pre post Hst Hv0 Hl0 Hwf0) as (_ & _ & _ & _ & _ & _ & _ & _ & L9 & _).
    rewrite L9. cbn. exact R10. }
  assert (Hsv : self_ver (nd s1) = sv).
  { subst s1. unfold tick_load. cbn [nd start_S]. rewrite R13, Hfd. cbn [andb]. unfold upd. cbn.
    assert (Hst : stored (sr (nd (start_S e n0))) = Some (Good sn)) by (cbn; rewrite R9; exact Hdump).
    assert (Hv0 : s_ver sn <= self_ver (nd (start_S e n0))) by (cbn; rewrite R17; exact Hv).
    assert (Hl0 : log (nd (start_S e n0)) = pre ++ s_e0 sn :: s_e1 sn :: post) by (cbn; rewrite R1; exact Hl).
    assert (Hwf0 : log_wf (log (nd (start_S e n0)))) by (cbn; rewrite R1; exact Hwf).
    destruct (load_dump_trims e _ sn pre post Hst Hv0 Hl0 Hwf0) as (_ & _ & _ & _ & _ & _ & L7 & _).
    rewrite L7. cbn. exact R17. }
  subst s'. rewrite on_tick_split, andthen_eq. fold s1. clearbody s1.
  assert (Hok : ok s1 = true) by (unfold ok; rewrite Hx1; reflexivity). rewrite Hok.
  assert (Hd1 : (tnow s1 <= deadline (nd s1))%Z) by (rewrite F4, F2, R21; exact Hdl).
  assert (Hq1 : queue (nd s1) = []) by (rewrite F3; exact R20).
  assert (Hr1 : role (nd s1) = FOLLOWER) by (rewrite F1; exact R7).
  pose proof (tick_rest_follower e s1 Hx1 Hr1 Hd1 Hq1 Hsr) as Ht. cbv zeta in Ht.
  pose proof (apply_entries_spec e s1) as Ha. cbv zeta in Ha. destruct Ha as [_ Hc].
  apply core_proj in Hc. destruct Hc as (C1 & C2 & C4 & C5).
  destruct Ht as (T1 & T2 & T3 & T4 & T5).
  repeat split; congruence.
Qed.
