(* C20: a reachable LEADER has a match_idx and a last_resp slot for every member; C20_bound without the
   slot hypotheses.  Uses the well-formedness invariant of ProofsCommitLog / ProofsCommitGlobal (sorted
   member lists in every reachable state) without editing those files. *)
From Coq Require Import ZArith NArith List Bool Lia ZifyBool ZifyN.
From RecordUpdate Require Import RecordSet.
From PSO Require Import Raft.Types Raft.Node Raft.Net Raft.Obs.
From PSO Require Raft.ProofsMembership Raft.ProofsCommitLog Raft.ProofsCommitGlobal.
From PSO Require Import Raft.ProofsReadonlyFrames Raft.ProofsReadonlyA Raft.ProofsReadonlyB.
From PSO Require Import Raft.ProofsReadonlyD Raft.ProofsReadonlyE Raft.ProofsReadonlyFinal.
From PSO Require Import Raft.ProofsFallbackA Raft.ProofsFallbackB Raft.ProofsFallbackC Raft.ProofsFallbackInv.
From PSO Require Import Raft.ProofsFallbackSlots Raft.ProofsFallbackFinal.
Import ListNotations.
Import RecordSetNotations.
Open Scope N_scope.

Lemma ssorted_srt : forall l, ProofsMembership.ssorted l -> srt l.
Proof.
  induction l as [|x r IH]; cbn; [auto|]. intros (H1 & H2). specialize (IH H2). split; [|exact IH].
  destruct r as [|y r']; [intros z []|]. intros z [<-|Hz]; [exact H1|].
  destruct IH as (I1 & _). specialize (I1 z Hz). lia.
Qed.

(* inputs: membership commands and restart lists name voters (C18), restart lists are sorted (C04) *)
Definition slot_valid (ev : event) : Prop := voters_named_below_RO_BASE ev /\ ProofsCommitGlobal.ev_ok ev.

Lemma Forall_and_l : forall {A} (P Q : A -> Prop) l, Forall (fun x => P x /\ Q x) l -> Forall P l /\ Forall Q l.
Proof. intros A P Q l H; split; eapply Forall_impl; try exact H; intros a [H1 H2]; assumption. Qed.

Lemma leader_slots_step : forall c g ev g' r,
  (0 <= period c)%Z ->
  ProofsCommitGlobal.gwf g -> g_ok g -> (forall x n, aget x (nodes g) = Some n -> need_load n = true -> role n = FOLLOWER) ->
  all_nodes (fun _ n => leader_slots n) g ->
  gstep c g ev = Some (g', r) -> all_nodes (fun _ n => leader_slots n) g'.
Proof.
  intros c g ev g' r Hp HW HG HF HI H.
  eapply all_nodes_step; [exact HI | exact H|].
  intros x pre s Hn. destruct pre as [n|].
  2:{ destruct (nstep_fresh _ _ _ _ _ Hn) as (oth & now & rnd & sv & _ & ->). cbn.
      intros Hl. exfalso. revert Hl. unfold restart_node; cbv zeta.
      destruct (aget x (disks g)) as [d|]; [|cbn; discriminate].
      destruct (if RO_BASE <=? x then None else Some x); [|cbn; discriminate].
      unfold init_from_disk; cbv zeta. destruct (d_log d); cbn; discriminate. }
  pose proof (nstep_pre _ _ _ _ _ _ Hn) as Hx.
  pose proof (ProofsCommitGlobal.gwf_node g x n HW Hx) as Hwf.
  assert (slots_ok n) as Hs.
  { split; [apply ssorted_srt; apply Hwf|]. apply (HI x n (aget_In _ _ _ Hx)). }
  pose proof (g_ok_node _ _ _ HG Hx) as (Hvid & _).
  inversion Hn; subst.
  - assert (srt (others (nd (tick_load (mk_env c now rnd bud ord sl) (start_S (mk_env c now rnd bud ord sl) n))))) as Hsrt.
    { apply ssorted_srt.
      destruct (ProofsCommitLog.tick_load_keeps (mk_env c now rnd bud ord sl) (start_S (mk_env c now rnd bud ord sl) n)) as (K & _).
      apply (K Hwf). }
    exact (proj2 (slots_on_tick (mk_env c now rnd bud ord sl) n Hp Hs (HF x n Hx) Hsrt)).
  - apply (slots_on_message (mk_env c now rnd DEFAULT_BUDGET ord 0) a m n Hp Hs).
  - cbn. destruct Hs as (_ & S2). unfold on_disconnected. destruct (RO_BASE <=? b) eqn:Eb; intros Hl y Hy;
      destruct (S2 Hl y Hy) as (A1 & A2); (split; [|exact A2]); [|exact A1].
    change (aget y (adel b (match_idx n)) <> None). rewrite aget_adel_other; [exact A1|].
    rewrite Forall_forall in Hvid. specialize (Hvid y Hy). unfold vid in Hvid. apply N.leb_le in Eb. lia.
  - cbn. destruct Hs as (_ & S2). unfold on_connected. destruct (RO_BASE <=? b) eqn:Eb; intros Hl y Hy;
      destruct (S2 Hl y Hy) as (A1 & A2); (split; [|exact A2]); [|exact A1].
    change (aget y (aset b 0 (match_idx n)) <> None). apply aget_aset_some; exact A1.
  - exact (proj2 (fr_slots _ _ (fr_api_submit (mk_env c 0 0 DEFAULT_BUDGET [] 0) cm (cb_of cb) n) Hs)).
  - exact (proj2 (fr_slots _ _ (fr_api_admin (mk_env c 0 0 DEFAULT_BUDGET [] 0) cm (cb_of cb) n) Hs)).
  - exact (proj2 (fr_slots _ _ (fr_api_setver (mk_env c 0 0 DEFAULT_BUDGET [] 0) cm (cb_of cb) n) Hs)).
  - exact (proj2 Hs).
Qed.

Theorem leader_slots_reachable : forall c evs g,
  (0 <= period c)%Z -> Forall slot_valid evs -> run_trace c ginit evs = Some g ->
  all_nodes (fun _ n => leader_slots n) g.
Proof.
  intros c evs; induction evs as [|ev evs IH] using rev_ind; intros g Hp HV HR.
  - cbn in HR. inversion HR; subst. intros x n [].
  - apply Forall_app in HV as (HV1 & HV2). inversion HV2 as [|? ? Hev _]; subst.
    rewrite run_trace_is_run in HR. destruct (proj1 (run_app c evs [ev] ginit g) HR) as (g1 & R1 & R2).
    cbn [run] in R2. destruct (gstep c g1 ev) as [[g2 r]|] eqn:E; [|discriminate]. inversion R2; subst g2.
    rewrite <- (run_trace_is_run c evs ginit) in R1.
    destruct (Forall_and_l _ _ _ HV1) as (V1 & V2).
    assert (reach voters_named_below_RO_BASE c g1) as Hr1 by (exists evs; auto).
    eapply leader_slots_step; [exact Hp | | | | apply (IH g1 Hp HV1 R1) | exact E].
    + apply (ProofsCommitGlobal.reachable_gwf c evs g1 V2 R1).
    + apply (g_ok_reachable c). apply reach_reachable_by. exact Hr1.
    + intros x n Hx Hnl. destruct (N.eq_dec (role n) FOLLOWER) as [Hf | Hf]; [exact Hf|].
      assert (reachable c g1) as Hr.
      { apply reach_reachable_by in Hr1. eapply reachable_by_weaken; [|exact Hr1]. intros; exact I. }
      rewrite (leader_has_ticked c g1 x n Hp Hr Hx Hf) in Hnl. discriminate Hnl.
Qed.

Lemma missing_of_slots : forall n, role n = LEADER -> leader_slots n -> match_missing n = false /\ resp_missing n = false.
Proof.
  intros n Hl H. specialize (H Hl). unfold match_missing, resp_missing.
  split; apply not_true_iff_false; intros E; apply existsb_exists in E as (x & Hx & Ex);
    destruct (H x Hx) as (A1 & A2).
  - destruct (aget x (match_idx n)); [discriminate Ex | apply A1; reflexivity].
  - destruct (aget x (last_resp n)); [discriminate Ex | apply A2; reflexivity].
Qed.

(* C20_bound from a reachable state, all state hypotheses about slots / load / member ids discharged;
   dyn = true and dyn = false alike *)
Theorem C20_bound_reachable_full_thm : forall c evs0 g0 L n0 t0 evs1 now rnd bud ord sl evs2 g,
  (0 <= period c)%Z ->
  Forall slot_valid evs0 -> run_trace c ginit evs0 = Some g0 ->
  aget L (nodes g0) = Some n0 -> role n0 = LEADER -> others n0 <> [] ->
  (forall x v, In x (others n0) -> aget x (last_resp n0) = Some v -> (v <= t0)%Z) ->
  (t0 + fallback c < now)%Z ->
  steps_sat (cut_quiet L) c g0 (evs1 ++ ETick L now rnd bud ord sl :: evs2) ->
  run_trace c g0 (evs1 ++ ETick L now rnd bud ord sl :: evs2) = Some g ->
  exists n, aget L (nodes g) = Some n /\ role n <> LEADER.
Proof.
  intros c evs0 g0 L n0 t0 evs1 now rnd bud ord sl evs2 g Hp HV HR0 Hx Hl Hne Hold Hnow HS HR.
  destruct (missing_of_slots n0 Hl (leader_slots_reachable c evs0 g0 Hp HV HR0 L n0 (aget_In _ _ _ Hx))) as (M1 & M2).
  destruct (Forall_and_l _ _ _ HV) as (V1 & _).
  eapply C20_bound_reachable_final; eauto. exists evs0; auto.
Qed.

(* the example trace of ProofsFallbackFinal satisfies the input validity, and its leader has all slots *)
Example slot_valid_example :
  Forall slot_valid ex_boot /\ run_trace xc ginit ex_boot = Some ex_g0 /\
  match_missing ex_n0 = false /\ resp_missing ex_n0 = false.
Proof.
  split; [|split; [apply ex_boot_valid | vm_compute; split; reflexivity]].
  destruct ex_boot_valid as (HV & _).
  assert (Forall ProofsCommitGlobal.ev_ok ex_boot) as HE.
  { repeat constructor; cbn; try exact I; repeat split; lia. }
  clear -HV HE. induction HV as [|ev l H1 H2 IH]; [constructor|].
  inversion HE; subst. constructor; [split; assumption | apply IH; assumption].
Qed.
