(* Tier CM2, part 11: the refinement theorem for whole runs with membership changes AND compaction /
   snapshot install, and AbstractM's safety theorems transported to L1 runs of the fragment.

   FILES (dependency order): RefineM2First (Inv8 for AbstractM) - RefineM2Abs (relation R: ghost full logs,
   member table = fold over the full log, snapshots = prefixes of the committed log WITH the member set of
   that prefix) - RefineM2SpecA - RefineM2Sim - RefineM2Snap (what try_compact puts into a snapshot) -
   RefineM2TickA/B - RefineM2MsgA/B/C - RefineM2Global - RefineM2RO - RefineM2Ghost (the membership flag) -
   RefineM2Main (fragment, step_sim) - RefineM2Final - Props/TierCM2.v.
   RefineM2Finding.v / RefineM2Finding2.v: the runs that break safety WITHOUT the hypothesis [snap_ok].

   THE FRAGMENT (core_fragM2): dyn c = true, file_dump c = false, 1 < batch c, validM V evs (as Tier CM: every
   voter id started once with the initial list), run_okM2 c mf V ginit [] evs, per step:
     small_evM2  submitted commands smaller than a batch; membership commands name a voter id, are add/rem,
                 and their size fields are the function mf of their content;
     join_ok     (Tier CM) a new voter is started only while some node leads;
     ver_okb     (Tier C2) a completed dump is not newer than the receiver's code version;
     tg_ok2      (Tier CM's tg_ok) a tick moves the term of a voter only if it is a member by its own full log;
     snap_ok     NEW: a voter takes a snapshot only at a position where it is a member (the negation of the
                 trigger of KF-C10-3);
     san_ok, ro_snap_okb  bookkeeping facts true of every run of the model, checked instead of proved.
   RefineM2Main.v takes the three big handler simulations (on_tick, AE, AESnap) as section hypotheses;
   they are discharged below from RefineM2TickB.v / RefineM2MsgB.v / RefineM2MsgC.v: the [_partial] lemmas
   carry [sim_msg_aesnap_stmt] explicitly, the final theorems do not. *)
From Coq Require Import ZArith NArith List Bool Lia ZifyBool Arith PeanoNat.
From RecordUpdate Require Import RecordSet.
From PSO Require Import Raft.Types Raft.Node Raft.Net Raft.Obs Raft.ProofsCommitBase.
From PSO Require Import Raft.ProofsElectionBase Raft.ProofsElectionGhost Raft.ProofsMembership.
From PSO Require Import Raft.RefineMAbs Raft.RefineMEff Raft.RefineMCfg Raft.RefineMK Raft.RefineMSpecA Raft.RefineMMain.
From PSO Require Import Raft.RefineM2Abs Raft.RefineM2SpecA Raft.RefineM2Sim Raft.RefineM2TickB Raft.RefineM2MsgB
  Raft.RefineM2MsgC Raft.RefineM2Global Raft.RefineM2Ghost Raft.RefineM2Main.
From PSO Require AbstractM.Model AbstractM.Lib AbstractM.Kstep AbstractM.Cfg AbstractM.Theorems.
Import ListNotations.
Import RecordSetNotations.
Open Scope N_scope.
#[local] Arguments firstn : simpl nomatch.
#[local] Arguments skipn : simpl nomatch.

Definition sts_after (st : list nid) (evs : list event) : list nid := fold_left st_after evs st.

Fixpoint gms_after (c : conf) (V : list nid) (g : gstate) (gm : list (nid * bool)) (evs : list event)
  : list (nid * bool) :=
  match evs with
  | [] => gm
  | ev :: r => match gstep c g ev with
               | Some (g', res) => gms_after c V g' (flag_upd V g gm ev res) r
               | None => gm
               end
  end.

Section Run.
Variable c : conf.
Variable mf : N -> N -> N * N.
Variable V : list nid.
Hypothesis NDV : NoDup V.
Hypothesis SV : ssorted V.
Hypothesis VNE : V <> [].
Hypothesis VRO : forall v, In v V -> v < RO_BASE.
Hypothesis Hb1 : 1 < batch c.
Hypothesis Hdyn : dyn c = true.
Hypothesis Hfd : file_dump c = false.
Hypothesis H_on_tick : sim_on_tick_stmt c mf V.
Hypothesis H_ae : sim_msg_ae_stmt c mf V.
Hypothesis H_aesnap : sim_msg_aesnap_stmt c mf V.
Set Default Proof Using "All".

Notation V' := (absV V).
Notation GI := (GI c mf V).
Notation kstar := (kstar V).
Notation pk := (pk c).
Notation kall := (kall V NDV VNE).
Notation Rn := (Rn c mf V).

Lemma GI_init : GI ginit [] [] (M.init V').
Proof.
  split.
  - constructor.
    + exact I.
    + intros v x H. cbn in H. discriminate.
    + intros v d H. destruct H.
    + constructor.
    + constructor.
      * intros v x H. cbn in H. discriminate.
      * intros v Hv _. unfold pristine. cbn. repeat split; try reflexivity.
        assert (Hm : M.mem (n2 v) V' = true) by (apply MC.mem_In; apply absV_In; exact Hv). rewrite Hm. reflexivity.
      * intros y Hy _. cbn.
        assert (Hm : M.mem (n2 y) V' = false) by (apply MC.mem_not_In; intros Hi; apply absV_In in Hi; contradiction).
        rewrite Hm. reflexivity.
      * intros a b m H. cbn in H. destruct H.
      * intros a b x H. cbn in H. discriminate.
      * intros v x H. cbn in H. discriminate.
      * intros v x H. cbn in H. discriminate.
  - intros v x H. cbn in H. discriminate.
Qed.

(* the forward simulation along a run *)
Theorem run_sim evs : forall g st gm s g',
  GI g st gm s -> valid_fromM V st evs = true -> run_okM2 c mf V g gm evs = true ->
  run_trace c g evs = Some g' ->
  exists s', kstar s s' /\ GI g' (sts_after st evs) (gms_after c V g gm evs) s'.
Proof.
  induction evs as [|ev evs IH]; intros g st gm s g' G Hv Hr Hg; cbn in *.
  - injection Hg as <-. exists s. split; [constructor|exact G].
  - apply andb_true_iff in Hv as [Hev Hv].
    apply andb_true_iff in Hr as [Hsm Hr]. apply andb_true_iff in Hsm as [Hsm Hros].
    apply andb_true_iff in Hsm as [Hsm Hver]. apply andb_true_iff in Hsm as [Hsm Hnr].
    destruct (gstep c g ev) as [[g1 r]|] eqn:Est; [|discriminate].
    apply andb_true_iff in Hr as [Hid Hr]. apply andb_true_iff in Hid as [Hid Hsan].
    apply andb_true_iff in Hid as [Htg Hsn].
    destruct (step_sim c mf V NDV SV VNE VRO Hb1 Hdyn Hfd H_on_tick H_ae H_aesnap g st gm s ev g1 r
                G Hev Hnr Hsm Hver Hros Est Htg Hsn Hsan) as (s1 & K1 & G1).
    destruct (IH g1 _ _ s1 g' G1 Hv Hr Hg) as (s2 & K2 & G2).
    exists s2. split; auto. eapply kstar_trans; eauto.
Qed.

(* ---------------------------------------------------------------------------------------- *)
(* consequences on L1 states related to a reachable AbstractM state                          *)
Section State.
Variables (g : gstate) (st : list nid) (gm : list (nid * bool)) (s : M.state).
Hypothesis G : GI g st gm s.

Lemma GI_reach2 : KS.kreachable V' F0 s.
Proof. destruct G as [G0 _]. apply (GI_reach _ _ _ _ _ _ G0). Qed.

Lemma GI_node a xa : aget a (nodes g) = Some xa -> a < RO_BASE -> Rn a xa s /\ Hn c mf xa.
Proof.
  intros Ha Hlt. destruct G as [[Gs Gr Gd HR RR] _].
  split; [apply (R_node _ _ _ _ _ _ RR a xa Ha Hlt)|apply (R_hyg _ _ _ _ _ _ RR a xa Ha Hlt)].
Qed.

(* Election Safety: one leader per term *)
Lemma st_one_leader a b xa xb :
  aget a (nodes g) = Some xa -> aget b (nodes g) = Some xb -> a < RO_BASE -> b < RO_BASE ->
  role xa = LEADER -> role xb = LEADER -> term xa = term xb -> a = b.
Proof.
  intros Ha Hb Hla Hlb Hra Hrb Ht.
  destruct (GI_node a xa Ha Hla) as [Ra _]. destruct (GI_node b xb Hb Hlb) as [Rb _].
  pose proof GI_reach2 as HR. pose proof (SA.A2 _ _ _ (kall s HR)) as I2.
  assert (La : M.rl (M.nodes s (n2 a)) = M.Leader) by (rewrite (Rn_role _ _ _ _ _ _ Ra), Hra; reflexivity).
  assert (Lb : M.rl (M.nodes s (n2 b)) = M.Leader) by (rewrite (Rn_role _ _ _ _ _ _ Rb), Hrb; reflexivity).
  destruct (S2.I2_leader _ I2 _ La) as (Qa & Ca & Wa). destruct (S2.I2_leader _ I2 _ Lb) as (Qb & Cb & Wb).
  rewrite (Rn_term _ _ _ _ _ _ Ra) in Wa. rewrite (Rn_term _ _ _ _ _ _ Rb), <- Ht in Wb.
  pose proof (TH.k_election_safety V' F0 F0_disc (V'_nodup V NDV) (V'_ne V NDV VNE) s _ _ _ _ _ _ _ HR Wa Wb). lia.
Qed.

(* an entry of the held log sits at its index in the ghost full log *)
Lemma held_nth full l e : wf1 full -> suffix_of l full -> In e l -> nth_error full (n2 (eidx e) - 1) = Some e /\ 1 <= eidx e.
Proof.
  intros W Sx Hin. apply (suffix_In _ _ Sx) in Hin. apply In_nth_error in Hin as (p & Hp).
  destruct W as [_ H]. rewrite (H p e Hp). split; [|lia]. replace (n2 (N.of_nat p + 1) - 1)%nat with p by lia. exact Hp.
Qed.

(* State Machine Safety: entries with the same index below both commit indices are EQUAL *)
Lemma st_state_machine_safety a b xa xb ea eb :
  aget a (nodes g) = Some xa -> aget b (nodes g) = Some xb -> a < RO_BASE -> b < RO_BASE ->
  In ea (log xa) -> In eb (log xb) -> eidx ea = eidx eb -> eidx ea <= commit xa -> eidx ea <= commit xb ->
  ea = eb.
Proof.
  intros Ha Hb Hla Hlb Iea Ieb Ei Hca Hcb.
  destruct (GI_node a xa Ha Hla) as [Ra HHa]. destruct (GI_node b xb Hb Hlb) as [Rb HHb].
  pose proof GI_reach2 as HR.
  destruct (Rn_full c mf V NDV SV VNE VRO Hb1 a xa s HR Ra) as (fa & Ela & Wa & Sa & Sma & _).
  destruct (Rn_full c mf V NDV SV VNE VRO Hb1 b xb s HR Rb) as (fb & Elb & Wb & Sb & Smb & _).
  destruct (held_nth fa _ ea Wa Sa Iea) as [Na H1]. destruct (held_nth fb _ eb Wb Sb Ieb) as [Nb _].
  destruct (TH.k_state_machine_safety V' F0 F0_disc (V'_nodup V NDV) (V'_ne V NDV VNE) s (n2 a) (n2 b)
              (n2 (eidx ea) - 1)%nat HR) as [E _].
  { rewrite (Rn_commit _ _ _ _ _ _ Ra). lia. }
  { rewrite (Rn_commit _ _ _ _ _ _ Rb). lia. }
  rewrite <- Ei in Nb. rewrite Ela, Elb, !absL_nth, Na, Nb in E. cbn [option_map] in E.
  apply (absE_inj_small c mf); [congruence| |].
  - rewrite Forall_forall in Sma. apply Sma. apply (suffix_In _ _ Sa). exact Iea.
  - rewrite Forall_forall in Smb. apply Smb. apply (suffix_In _ _ Sb). exact Ieb.
Qed.

(* C10: the member table of a voter is the configuration defined by its FULL (ghost) log, of which the held
   log is a suffix *)
Lemma st_members a xa :
  aget a (nodes g) = Some xa -> a < RO_BASE ->
  exists full, suffix_of (log xa) full /\ M.log (M.nodes s (n2 a)) = absL pk full /\
    others xa = fold_members (vminus a V) full (Some a) /\
    (forall y, In y (others xa) <-> y <> a /\ In (n2 y) (M.gcfg V' (absL pk full))).
Proof.
  intros Ha Hla. destruct (GI_node a xa Ha Hla) as [Ra HH]. pose proof GI_reach2 as HR.
  destruct (Rn_full c mf V NDV SV VNE VRO Hb1 a xa s HR Ra) as (full & El & W & Sx & Sm & Ho).
  exists full. split; auto. split; auto. split; auto. intros y. rewrite Ho.
  pose proof (others_abs pk a V full (ssorted_vminus a V SV) y) as Hm. rewrite MC.others_gcfg in Hm.
  rewrite Hm, MC.del_In. split; intros [A B]; split; auto; lia.
Qed.

(* ... restored from snapshots: the member set of a dump a voter stores is the configuration of the first
   k entries of its full log (k = the dump's index), and the dump's last entry is what the voter holds there *)
Lemma st_snapshot_members a xa sn :
  aget a (nodes g) = Some xa -> a < RO_BASE -> stored (sr xa) = Some (Good sn) ->
  exists full, suffix_of (log xa) full /\ M.log (M.nodes s (n2 a)) = absL pk full /\
    eidx (s_e1 sn) <= commit xa /\
    nth_error full (n2 (eidx (s_e1 sn)) - 1) = Some (s_e1 sn) /\
    (forall y, In y (s_cluster sn) <-> In (n2 y) (M.gcfg V' (absL pk (firstn (n2 (eidx (s_e1 sn))) full)))).
Proof.
  intros Ha Hla Hst. destruct (GI_node a xa Ha Hla) as [Ra HH]. pose proof GI_reach2 as HR.
  destruct (Rn_full c mf V NDV SV VNE VRO Hb1 a xa s HR Ra) as (full & El & W & Sx & Sm & Ho).
  destruct (Rn_stored _ _ _ _ _ _ Ra _ Hst sn eq_refl) as [Hv Hk].
  assert (Hkc : (n2 (eidx (s_e1 sn)) <= M.commit (M.nodes s (n2 a)))%nat) by (rewrite (Rn_commit _ _ _ _ _ _ Ra); lia).
  destruct (valid_own c mf V NDV SV VNE VRO Hb1 s (n2 a) sn HR Hv Hkc) as (N1 & _ & _ & Hms).
  exists full. split; auto. split; auto. split; auto. split.
  - rewrite El, absL_nth in N1. destruct (nth_error full (n2 (eidx (s_e1 sn)) - 1)) as [y|] eqn:Ey; [|discriminate].
    cbn [option_map] in N1. f_equal. apply (absE_inj_small c mf); [congruence| |].
    + rewrite Forall_forall in Sm. apply Sm. eapply nth_error_In; eauto.
    + destruct Hv as (_ & B & _). exact B.
  - intros y. rewrite absL_firstn, <- El. apply Hms.
Qed.

End State.
End Run.

(* ------------------------------------------------------------------------------------------ *)
(* the theorems on L1 runs                                                                    *)

Lemma core_fragM2_facts c mf V evs :
  core_fragM2 c mf V evs ->
  NoDup V /\ ssorted V /\ V <> [] /\ (forall v, In v V -> v < RO_BASE) /\ 1 < batch c /\ dyn c = true /\
  file_dump c = false /\ valid_fromM V [] evs = true /\ run_okM2 c mf V ginit [] evs = true.
Proof.
  intros (A & B & C & D & F). unfold validM in D. apply andb_true_iff in D as [D1 D2].
  apply andb_true_iff in D1 as [D1 E].
  destruct (Vok_spec V D1) as (ND & HV & HL).
  repeat split; auto; [apply sortedb_ssorted; exact E|]. intros ->. cbn in HL. lia.
Qed.

Lemma on_tick_holds c mf V :
  NoDup V -> ssorted V -> V <> [] -> (forall v, In v V -> v < RO_BASE) -> 1 < batch c -> dyn c = true ->
  file_dump c = false -> sim_on_tick_stmt c mf V.
Proof. intros ND SV NE VR Hb Hd Hf e Hc n x s. apply (sim_on_tick c mf V ND SV NE VR Hb Hd Hf e Hc). Qed.

Lemma msg_ae_holds c mf V :
  NoDup V -> ssorted V -> V <> [] -> (forall v, In v V -> v < RO_BASE) -> 1 < batch c -> dyn c = true ->
  file_dump c = false -> sim_msg_ae_stmt c mf V.
Proof. intros ND SV NE VR Hb Hd Hf e Hc n a x s t cm prev es. apply (sim_msg_ae c mf V ND SV NE VR Hb Hd Hf e Hc). Qed.

Lemma run_GI c mf V evs g :
  sim_msg_aesnap_stmt c mf V ->
  core_fragM2 c mf V evs -> run_trace c ginit evs = Some g ->
  exists s, GI c mf V g (sts_after [] evs) (gms_after c V ginit [] evs) s.
Proof.
  intros HS F Hr. destruct (core_fragM2_facts c mf V evs F) as (ND & SV & HNE & HV & Hb & Hd & Hf & Hv & Hok).
  destruct (run_sim c mf V ND SV HNE HV Hb Hd Hf (on_tick_holds c mf V ND SV HNE HV Hb Hd Hf)
              (msg_ae_holds c mf V ND SV HNE HV Hb Hd Hf) HS evs ginit [] [] (M.init (absV V)) g
              (GI_init c mf V ND SV HNE HV Hb Hd Hf (on_tick_holds c mf V ND SV HNE HV Hb Hd Hf) (msg_ae_holds c mf V ND SV HNE HV Hb Hd Hf) HS) Hv Hok Hr) as (s & K & G).
  eauto.
Qed.

Lemma core_fragM2_intro c mf V evs :
  dyn c = true -> file_dump c = false -> 1 < batch c -> validM V evs = true ->
  run_okM2 c mf V ginit [] evs = true -> core_fragM2 c mf V evs.
Proof. intros. repeat split; assumption. Qed.

(* REFINEMENT: every run of the fragment has a reachable AbstractM counterpart *)
Lemma TierCM2_refinement_partial :
  forall (c : conf) (mf : N -> N -> N * N) (V : list nid) (evs : list event) (g : gstate),
    sim_msg_aesnap_stmt c mf V ->
    dyn c = true -> file_dump c = false -> 1 < batch c -> validM V evs = true ->
    run_okM2 c mf V ginit [] evs = true ->
    run_trace c ginit evs = Some g ->
    exists s, KS.kreachable (absV V) F0 s /\ R c mf V g (sts_after [] evs) s.
Proof.
  intros c mf V evs g HS H1 H2 H3 H4 H6 Hr.
  destruct (run_GI c mf V evs g HS (core_fragM2_intro c mf V evs H1 H2 H3 H4 H6) Hr) as (s & [G _]).
  exists s. split; [apply (GI_reach _ _ _ _ _ _ G)|apply (GI_R _ _ _ _ _ _ G)].
Qed.

Lemma TierCM2_one_leader_per_term_partial :
  forall (c : conf) (mf : N -> N -> N * N) (V : list nid) (evs : list event) (g : gstate) (a b : nid) (xa xb : node),
    sim_msg_aesnap_stmt c mf V ->
    dyn c = true -> file_dump c = false -> 1 < batch c -> validM V evs = true ->
    run_okM2 c mf V ginit [] evs = true ->
    run_trace c ginit evs = Some g ->
    aget a (nodes g) = Some xa -> aget b (nodes g) = Some xb -> a < RO_BASE -> b < RO_BASE ->
    role xa = LEADER -> role xb = LEADER -> term xa = term xb -> a = b.
Proof.
  intros c mf V evs g a b xa xb HS H1 H2 H3 H4 H6 Hr.
  pose proof (core_fragM2_intro c mf V evs H1 H2 H3 H4 H6) as F.
  destruct (core_fragM2_facts c mf V evs F) as (ND & SV & HNE & HV & Hb & Hd & Hf & _).
  destruct (run_GI c mf V evs g HS F Hr) as (s & G).
  apply (st_one_leader c mf V ND SV HNE HV Hb Hd Hf (on_tick_holds c mf V ND SV HNE HV Hb Hd Hf) (msg_ae_holds c mf V ND SV HNE HV Hb Hd Hf) HS g _ _ s G).
Qed.

Lemma TierCM2_state_machine_safety_partial :
  forall (c : conf) (mf : N -> N -> N * N) (V : list nid) (evs : list event) (g : gstate) (a b : nid) (xa xb : node)
         (ea eb : entry),
    sim_msg_aesnap_stmt c mf V ->
    dyn c = true -> file_dump c = false -> 1 < batch c -> validM V evs = true ->
    run_okM2 c mf V ginit [] evs = true ->
    run_trace c ginit evs = Some g ->
    aget a (nodes g) = Some xa -> aget b (nodes g) = Some xb -> a < RO_BASE -> b < RO_BASE ->
    In ea (log xa) -> In eb (log xb) -> eidx ea = eidx eb -> eidx ea <= commit xa -> eidx ea <= commit xb ->
    ea = eb.
Proof.
  intros c mf V evs g a b xa xb ea eb HS H1 H2 H3 H4 H6 Hr.
  pose proof (core_fragM2_intro c mf V evs H1 H2 H3 H4 H6) as F.
  destruct (core_fragM2_facts c mf V evs F) as (ND & SV & HNE & HV & Hb & Hd & Hf & _).
  destruct (run_GI c mf V evs g HS F Hr) as (s & G).
  apply (st_state_machine_safety c mf V ND SV HNE HV Hb Hd Hf (on_tick_holds c mf V ND SV HNE HV Hb Hd Hf) (msg_ae_holds c mf V ND SV HNE HV Hb Hd Hf) HS g _ _ s G).
Qed.

Lemma TierCM2_members_follow_log_partial :
  forall (c : conf) (mf : N -> N -> N * N) (V : list nid) (evs : list event) (g : gstate) (a : nid) (xa : node),
    sim_msg_aesnap_stmt c mf V ->
    dyn c = true -> file_dump c = false -> 1 < batch c -> validM V evs = true ->
    run_okM2 c mf V ginit [] evs = true ->
    run_trace c ginit evs = Some g ->
    aget a (nodes g) = Some xa -> a < RO_BASE ->
    exists full, suffix_of (log xa) full /\
      others xa = fold_members (vminus a V) full (Some a) /\
      (forall y, In y (others xa) <-> y <> a /\ In (N.to_nat y) (M.gcfg (absV V) (absL (pk c) full))).
Proof.
  intros c mf V evs g a xa HS H1 H2 H3 H4 H6 Hr Ha Hla.
  pose proof (core_fragM2_intro c mf V evs H1 H2 H3 H4 H6) as F.
  destruct (core_fragM2_facts c mf V evs F) as (ND & SV & HNE & HV & Hb & Hd & Hf & _).
  destruct (run_GI c mf V evs g HS F Hr) as (s & G).
  destruct (st_members c mf V ND SV HNE HV Hb Hd Hf (on_tick_holds c mf V ND SV HNE HV Hb Hd Hf) (msg_ae_holds c mf V ND SV HNE HV Hb Hd Hf) HS g _ _ s G a xa Ha Hla) as (full & A & _ & B & C). eauto.
Qed.

Lemma TierCM2_snapshot_members_partial :
  forall (c : conf) (mf : N -> N -> N * N) (V : list nid) (evs : list event) (g : gstate) (a : nid) (xa : node)
         (sn : snapshot),
    sim_msg_aesnap_stmt c mf V ->
    dyn c = true -> file_dump c = false -> 1 < batch c -> validM V evs = true ->
    run_okM2 c mf V ginit [] evs = true ->
    run_trace c ginit evs = Some g ->
    aget a (nodes g) = Some xa -> a < RO_BASE -> stored (sr xa) = Some (Good sn) ->
    exists full, suffix_of (log xa) full /\ eidx (s_e1 sn) <= commit xa /\
      nth_error full (N.to_nat (eidx (s_e1 sn)) - 1) = Some (s_e1 sn) /\
      (forall y, In y (s_cluster sn) <->
                 In (N.to_nat y) (M.gcfg (absV V) (absL (pk c) (firstn (N.to_nat (eidx (s_e1 sn))) full)))).
Proof.
  intros c mf V evs g a xa sn HS H1 H2 H3 H4 H6 Hr Ha Hla Hst.
  pose proof (core_fragM2_intro c mf V evs H1 H2 H3 H4 H6) as F.
  destruct (core_fragM2_facts c mf V evs F) as (ND & SV & HNE & HV & Hb & Hd & Hf & _).
  destruct (run_GI c mf V evs g HS F Hr) as (s & G).
  destruct (st_snapshot_members c mf V ND SV HNE HV Hb Hd Hf (on_tick_holds c mf V ND SV HNE HV Hb Hd Hf) (msg_ae_holds c mf V ND SV HNE HV Hb Hd Hf) HS g _ _ s G a xa sn Ha Hla Hst) as (full & A & _ & B & C & D).
  eauto.
Qed.

(* ------------------------------------------------------------------------------------------ *)
(* the snapshot handler is proved (RefineM2MsgC.v): the final statements                       *)

Lemma msg_aesnap_holds c mf V :
  NoDup V -> ssorted V -> V <> [] -> (forall v, In v V -> v < RO_BASE) -> 1 < batch c -> dyn c = true ->
  file_dump c = false -> sim_msg_aesnap_stmt c mf V.
Proof.
  intros ND SV NE VR Hb Hd Hf e Hc n a x s t cm p L Hm Hv.
  apply (RefineM2MsgC.sim_msg_aesnap c mf V ND SV NE VR Hb Hd Hf e Hc n a x s t cm p L Hm). exact Hv.
Qed.

Lemma aesnap_of_frag c mf V evs :
  dyn c = true -> file_dump c = false -> 1 < batch c -> validM V evs = true ->
  run_okM2 c mf V ginit [] evs = true -> sim_msg_aesnap_stmt c mf V.
Proof.
  intros H1 H2 H3 H4 H6.
  destruct (core_fragM2_facts c mf V evs (core_fragM2_intro c mf V evs H1 H2 H3 H4 H6))
    as (ND & SV & HNE & HV & Hb & Hd & Hf & _).
  apply msg_aesnap_holds; auto.
Qed.

Lemma TierCM2_refinement :
  forall (c : conf) (mf : N -> N -> N * N) (V : list nid) (evs : list event) (g : gstate),
    dyn c = true -> file_dump c = false -> 1 < batch c -> validM V evs = true ->
    run_okM2 c mf V ginit [] evs = true ->
    run_trace c ginit evs = Some g ->
    exists s, KS.kreachable (absV V) F0 s /\ R c mf V g (sts_after [] evs) s.
Proof.
  intros c mf V evs g H1 H2 H3 H4 H6.
  apply (TierCM2_refinement_partial c mf V evs g (aesnap_of_frag c mf V evs H1 H2 H3 H4 H6) H1 H2 H3 H4 H6).
Qed.

Lemma TierCM2_one_leader_per_term :
  forall (c : conf) (mf : N -> N -> N * N) (V : list nid) (evs : list event) (g : gstate) (a b : nid) (xa xb : node),
    dyn c = true -> file_dump c = false -> 1 < batch c -> validM V evs = true ->
    run_okM2 c mf V ginit [] evs = true ->
    run_trace c ginit evs = Some g ->
    aget a (nodes g) = Some xa -> aget b (nodes g) = Some xb -> a < RO_BASE -> b < RO_BASE ->
    role xa = LEADER -> role xb = LEADER -> term xa = term xb -> a = b.
Proof.
  intros c mf V evs g a b xa xb H1 H2 H3 H4 H6.
  apply (TierCM2_one_leader_per_term_partial c mf V evs g a b xa xb (aesnap_of_frag c mf V evs H1 H2 H3 H4 H6) H1 H2 H3 H4 H6).
Qed.

Lemma TierCM2_state_machine_safety :
  forall (c : conf) (mf : N -> N -> N * N) (V : list nid) (evs : list event) (g : gstate) (a b : nid) (xa xb : node)
         (ea eb : entry),
    dyn c = true -> file_dump c = false -> 1 < batch c -> validM V evs = true ->
    run_okM2 c mf V ginit [] evs = true ->
    run_trace c ginit evs = Some g ->
    aget a (nodes g) = Some xa -> aget b (nodes g) = Some xb -> a < RO_BASE -> b < RO_BASE ->
    In ea (log xa) -> In eb (log xb) -> eidx ea = eidx eb -> eidx ea <= commit xa -> eidx ea <= commit xb ->
    ea = eb.
Proof.
  intros c mf V evs g a b xa xb ea eb H1 H2 H3 H4 H6.
  apply (TierCM2_state_machine_safety_partial c mf V evs g a b xa xb ea eb
           (aesnap_of_frag c mf V evs H1 H2 H3 H4 H6) H1 H2 H3 H4 H6).
Qed.

Lemma TierCM2_members_follow_log :
  forall (c : conf) (mf : N -> N -> N * N) (V : list nid) (evs : list event) (g : gstate) (a : nid) (xa : node),
    dyn c = true -> file_dump c = false -> 1 < batch c -> validM V evs = true ->
    run_okM2 c mf V ginit [] evs = true ->
    run_trace c ginit evs = Some g ->
    aget a (nodes g) = Some xa -> a < RO_BASE ->
    exists full, suffix_of (log xa) full /\
      others xa = fold_members (vminus a V) full (Some a) /\
      (forall y, In y (others xa) <-> y <> a /\ In (N.to_nat y) (M.gcfg (absV V) (absL (pk c) full))).
Proof.
  intros c mf V evs g a xa H1 H2 H3 H4 H6.
  apply (TierCM2_members_follow_log_partial c mf V evs g a xa (aesnap_of_frag c mf V evs H1 H2 H3 H4 H6) H1 H2 H3 H4 H6).
Qed.

Lemma TierCM2_snapshot_members :
  forall (c : conf) (mf : N -> N -> N * N) (V : list nid) (evs : list event) (g : gstate) (a : nid) (xa : node)
         (sn : snapshot),
    dyn c = true -> file_dump c = false -> 1 < batch c -> validM V evs = true ->
    run_okM2 c mf V ginit [] evs = true ->
    run_trace c ginit evs = Some g ->
    aget a (nodes g) = Some xa -> a < RO_BASE -> stored (sr xa) = Some (Good sn) ->
    exists full, suffix_of (log xa) full /\ eidx (s_e1 sn) <= commit xa /\
      nth_error full (N.to_nat (eidx (s_e1 sn)) - 1) = Some (s_e1 sn) /\
      (forall y, In y (s_cluster sn) <->
                 In (N.to_nat y) (M.gcfg (absV V) (absL (pk c) (firstn (N.to_nat (eidx (s_e1 sn))) full)))).
Proof.
  intros c mf V evs g a xa sn H1 H2 H3 H4 H6.
  apply (TierCM2_snapshot_members_partial c mf V evs g a xa sn (aesnap_of_frag c mf V evs H1 H2 H3 H4 H6) H1 H2 H3 H4 H6).
Qed.
