(* Tier CM2, bookkeeping facts, part 3: the fragment WITHOUT the check [san_ok].  [run_okM2'] is [run_okM2]
   of RefineM2Main.v minus san_ok; along a run the relation of the refinement holds (run_sim), so san_ok holds at
   every step (RefineM2BookSan.san_ok_holds) and [run_okM2'] implies [run_okM2]: every theorem of
   Props/TierCM2.v / TierCM2b.v / TierCM2c.v holds over the larger fragment [core_fragM2']. *)
From Coq Require Import ZArith NArith List Bool Lia ZifyBool Arith PeanoNat.
From RecordUpdate Require Import RecordSet.
From PSO Require Import Raft.Types Raft.Node Raft.Net Raft.Obs Raft.ProofsCommitBase.
From PSO Require Import Raft.ProofsApplyBase.
From PSO Require Import Raft.ProofsElectionBase Raft.ProofsElectionGhost Raft.ProofsMembership.
From PSO Require Import Raft.RefineMAbs Raft.RefineMMain.
From PSO Require Import Raft.RefineM2Abs Raft.RefineM2SpecA Raft.RefineM2Sim Raft.RefineM2Ghost Raft.RefineM2Main
  Raft.RefineM2Final Raft.RefineM2Final2 Raft.RefineM2HistFinal Raft.RefineM2BookSan.
Import ListNotations.
Import RecordSetNotations.
Open Scope N_scope.

Fixpoint run_okM2' (c : conf) (mf : N -> N -> N * N) (V : list nid) (g : gstate) (gm : list (nid * bool))
  (evs : list event) : bool :=
  match evs with
  | [] => true
  | ev :: r =>
    small_evM2 c mf ev && join_ok V g ev && ver_okb c g ev && ro_snap_okb g ev &&
    match gstep c g ev with
    | Some (g', res) =>
        let gm' := flag_upd V g gm ev res in
        tg_ok2 g gm ev res && snap_ok g gm' ev res && run_okM2' c mf V g' gm' r
    | None => true
    end
  end.

Definition core_fragM2' (c : conf) (mf : N -> N -> N * N) (V : list nid) (evs : list event) : Prop :=
  dyn c = true /\ file_dump c = false /\ 1 < batch c /\ validM V evs = true /\ run_okM2' c mf V ginit [] evs = true.

Section Up.
Variable c : conf.
Variable mf : N -> N -> N * N.
Variable V : list nid.
Hypothesis NDV : NoDup V.
Hypothesis SV : ssorted V.
Hypothesis VNE : V <> [].
Hypothesis VRO : forall v, In v V -> v < RO_BASE.
Hypothesis Hb1 : 1 < batch c.
Hypothesis Hdyn : dyn c = true.
Hypothesis Hfd : file_dump c = false.
Set Default Proof Using "All".

Lemma run_ok_upgrade evs : forall g st gm s,
  GI c mf V g st gm s -> valid_fromM V st evs = true ->
  run_okM2' c mf V g gm evs = true -> run_okM2 c mf V g gm evs = true.
Proof.
  induction evs as [|ev evs IH]; intros g st gm s G Hv Hr; cbn in *; [reflexivity|].
  apply andb_true_iff in Hv as [Hev Hv].
  apply andb_true_iff in Hr as [Hsm Hr]. rewrite Hsm. cbn [andb].
  apply andb_true_iff in Hsm as [Hsm Hros]. apply andb_true_iff in Hsm as [Hsm Hver].
  apply andb_true_iff in Hsm as [Hsm Hnr].
  destruct (gstep c g ev) as [[g1 r]|] eqn:Est; [|reflexivity].
  apply andb_true_iff in Hr as [Hid Hr]. apply andb_true_iff in Hid as [Htg Hsn].
  pose proof (san_ok_holds c mf V NDV SV VNE VRO Hb1 Hfd g st gm s ev g1 r G Est) as Hsan.
  rewrite Htg, Hsn, Hsan. cbn [andb].
  destruct (step_sim c mf V NDV SV VNE VRO Hb1 Hdyn Hfd
              (on_tick_holds c mf V NDV SV VNE VRO Hb1 Hdyn Hfd) (msg_ae_holds c mf V NDV SV VNE VRO Hb1 Hdyn Hfd)
              (msg_aesnap_holds c mf V NDV SV VNE VRO Hb1 Hdyn Hfd)
              g st gm s ev g1 r G Hev Hnr Hsm Hver Hros Est Htg Hsn Hsan) as (s1 & K1 & G1).
  apply (IH g1 _ _ s1 G1 Hv Hr).
Qed.

End Up.

Lemma core_fragM2'_up c mf V evs : core_fragM2' c mf V evs -> core_fragM2 c mf V evs.
Proof.
  intros (A & B & C & D & E). split; auto. split; auto. split; auto. split; auto.
  pose proof D as D0. unfold validM in D. apply andb_true_iff in D as [D1 D2]. apply andb_true_iff in D1 as [D1 E1].
  destruct (Vok_spec V D1) as (ND & HV & HL).
  assert (HNE : V <> []) by (intros ->; cbn in HL; lia).
  pose proof (sortedb_ssorted V E1) as SV.
  apply (run_ok_upgrade c mf V ND SV HNE HV C A B evs ginit [] [] (M.init (absV V))); auto.
  apply (GI_init c mf V ND SV HNE HV C A B (on_tick_holds c mf V ND SV HNE HV C A B)
           (msg_ae_holds c mf V ND SV HNE HV C A B) (msg_aesnap_holds c mf V ND SV HNE HV C A B)).
Qed.

Lemma run_okM2'_up c mf V evs :
  dyn c = true -> file_dump c = false -> 1 < batch c -> validM V evs = true ->
  run_okM2' c mf V ginit [] evs = true -> run_okM2 c mf V ginit [] evs = true.
Proof.
  intros H1 H2 H3 H4 H5. destruct (core_fragM2'_up c mf V evs) as (_ & _ & _ & _ & E); auto. repeat split; auto.
Qed.

(* ------------------------------------------------------------------------------------------ *)
(* the headline theorems over the fragment without san_ok                                     *)

Lemma TierCM2'_refinement :
  forall (c : conf) (mf : N -> N -> N * N) (V : list nid) (evs : list event) (g : gstate),
    dyn c = true -> file_dump c = false -> 1 < batch c -> validM V evs = true ->
    run_okM2' c mf V ginit [] evs = true ->
    run_trace c ginit evs = Some g ->
    exists s, KS.kreachable (absV V) F0 s /\ R c mf V g (sts_after [] evs) s.
Proof.
  intros c mf V evs g H1 H2 H3 H4 H5. apply (TierCM2_refinement c mf V evs g H1 H2 H3 H4 (run_okM2'_up c mf V evs H1 H2 H3 H4 H5)).
Qed.

Lemma TierCM2'_state_machine_safety :
  forall (c : conf) (mf : N -> N -> N * N) (V : list nid) (evs : list event) (g : gstate) (a b : nid) (xa xb : node)
         (ea eb : entry),
    dyn c = true -> file_dump c = false -> 1 < batch c -> validM V evs = true ->
    run_okM2' c mf V ginit [] evs = true ->
    run_trace c ginit evs = Some g ->
    aget a (nodes g) = Some xa -> aget b (nodes g) = Some xb -> a < RO_BASE -> b < RO_BASE ->
    In ea (log xa) -> In eb (log xb) -> eidx ea = eidx eb -> eidx ea <= commit xa -> eidx ea <= commit xb ->
    ea = eb.
Proof.
  intros c mf V evs g a b xa xb ea eb H1 H2 H3 H4 H5. apply (TierCM2_state_machine_safety c mf V evs g a b xa xb ea eb H1 H2 H3 H4 (run_okM2'_up c mf V evs H1 H2 H3 H4 H5)).
Qed.

Lemma TierCM2'_members_follow_log :
  forall (c : conf) (mf : N -> N -> N * N) (V : list nid) (evs : list event) (g : gstate) (a : nid) (xa : node),
    dyn c = true -> file_dump c = false -> 1 < batch c -> validM V evs = true ->
    run_okM2' c mf V ginit [] evs = true ->
    run_trace c ginit evs = Some g ->
    aget a (nodes g) = Some xa -> a < RO_BASE ->
    exists full, suffix_of (log xa) full /\
      others xa = fold_members (vminus a V) full (Some a) /\
      (forall y, In y (others xa) <-> y <> a /\ In (N.to_nat y) (M.gcfg (absV V) (absL (pk c) full))).
Proof.
  intros c mf V evs g a xa H1 H2 H3 H4 H5. apply (TierCM2_members_follow_log c mf V evs g a xa H1 H2 H3 H4 (run_okM2'_up c mf V evs H1 H2 H3 H4 H5)).
Qed.

Lemma TierCM2'_snapshot_members :
  forall (c : conf) (mf : N -> N -> N * N) (V : list nid) (evs : list event) (g : gstate) (a : nid) (xa : node)
         (sn : snapshot),
    dyn c = true -> file_dump c = false -> 1 < batch c -> validM V evs = true ->
    run_okM2' c mf V ginit [] evs = true ->
    run_trace c ginit evs = Some g ->
    aget a (nodes g) = Some xa -> a < RO_BASE -> stored (sr xa) = Some (Good sn) ->
    exists full, suffix_of (log xa) full /\ eidx (s_e1 sn) <= commit xa /\
      nth_error full (N.to_nat (eidx (s_e1 sn)) - 1) = Some (s_e1 sn) /\
      (forall y, In y (s_cluster sn) <->
                 In (N.to_nat y) (M.gcfg (absV V) (absL (pk c) (firstn (N.to_nat (eidx (s_e1 sn))) full)))).
Proof.
  intros c mf V evs g a xa sn H1 H2 H3 H4 H5. apply (TierCM2_snapshot_members c mf V evs g a xa sn H1 H2 H3 H4 (run_okM2'_up c mf V evs H1 H2 H3 H4 H5)).
Qed.

Lemma TierCM2'_one_leader_per_term :
  forall (c : conf) (mf : N -> N -> N * N) (V : list nid) (evs : list event) (g : gstate) (a b : nid) (xa xb : node),
    dyn c = true -> file_dump c = false -> 1 < batch c -> validM V evs = true ->
    run_okM2' c mf V ginit [] evs = true ->
    run_trace c ginit evs = Some g ->
    aget a (nodes g) = Some xa -> aget b (nodes g) = Some xb -> a < RO_BASE -> b < RO_BASE ->
    role xa = LEADER -> role xb = LEADER -> term xa = term xb -> a = b.
Proof.
  intros c mf V evs g a b xa xb H1 H2 H3 H4 H5. apply (TierCM2_one_leader_per_term c mf V evs g a b xa xb H1 H2 H3 H4 (run_okM2'_up c mf V evs H1 H2 H3 H4 H5)).
Qed.

Lemma TierCM2'_one_common_sequence :
  forall (c : conf) (mf : N -> N -> N * N) (V : list nid) (evs : list event),
    dyn c = true -> file_dump c = false -> 1 < batch c -> validM V evs = true ->
    run_okM2' c mf V ginit [] evs = true ->
    exists sigma : list entry,
      forall (evs1 evs2 : list event) (g : gstate) (x : nid) (n : node),
        evs = evs1 ++ evs2 -> run_trace c ginit evs1 = Some g ->
        aget x (nodes g) = Some n -> x < RO_BASE ->
        exists k : nat, hist n = replay (firstn k sigma) /\ N.of_nat k + 1 = applied n.
Proof.
  intros c mf V evs H1 H2 H3 H4 H5. apply (TierCM2_one_common_sequence c mf V evs H1 H2 H3 H4 (run_okM2'_up c mf V evs H1 H2 H3 H4 H5)).
Qed.

Lemma TierCM2'_one_common_sequence_snapshots :
  forall (c : conf) (mf : N -> N -> N * N) (V : list nid) (evs : list event),
    dyn c = true -> file_dump c = false -> 1 < batch c -> validM V evs = true ->
    run_okM2' c mf V ginit [] evs = true ->
    exists sigma : list entry,
      forall (evs1 evs2 : list event) (g : gstate) (x : nid) (n : node),
        evs = evs1 ++ evs2 -> run_trace c ginit evs1 = Some g ->
        aget x (nodes g) = Some n -> x < RO_BASE ->
        (exists k : nat, hist n = replay (firstn k sigma) /\ N.of_nat k + 1 = applied n) /\
        (forall sn : snapshot, stored (sr n) = Some (Good sn) ->
           exists k : nat, s_hist sn = replay (firstn k sigma) /\ N.of_nat k + 1 = eidx (s_e1 sn)).
Proof.
  intros c mf V evs H1 H2 H3 H4 H5. apply (TierCM2_one_common_sequence_snapshots c mf V evs H1 H2 H3 H4 (run_okM2'_up c mf V evs H1 H2 H3 H4 H5)).
Qed.
