(* C20 x Tier C5: the two reachable-state facts behind "nothing submitted after the cut is acknowledged"
   (commit <= last index; a leader's matchIndex never exceeds its own last index) and the full
   no-success theorem, on runs of the Tier C5 fragment (dump files, chunked entries, compaction, snapshot
   install, snapshots refused for their code version).  Both facts are read off the Tier C5 refinement
   (Refine5 files) and the L0 invariants; neither needs `applied <= commit`. *)
From Coq Require Import ZArith NArith List Bool Lia ZifyBool Arith PeanoNat.
From RecordUpdate Require Import RecordSet.
From PSO Require Import Raft.Types Raft.Node Raft.Net Raft.Obs Raft.ProofsCommitBase.
From PSO Require Import Raft.ProofsElectionBase Raft.ProofsElectionFrame Raft.ProofsElectionStep
  Raft.ProofsElectionGhost Raft.ProofsElectionInv Raft.ProofsElectionMain.
From PSO Require Import Raft.RefineAbs Raft.RefineK Raft.RefineSpecA.
From PSO Require Raft.RefineFinal.
From PSO Require Import Raft.Refine5Abs Raft.Refine5SpecA Raft.Refine5Sim Raft.Refine5Global Raft.Refine5Main Raft.Refine5Final.
From PSO Require Abstract.Model Abstract.Lib Abstract.Kstep Abstract.Safety1_WF Abstract.Safety2_Election
  Abstract.Safety3_LeaderLog Abstract.Safety4_LogMatching Abstract.Safety5_Acks Abstract.Safety6_LeaderCompleteness
  Abstract.Safety7_StateMachine.
From PSO Require Raft.ProofsCommitGlobal Raft.ProofsFallbackFull.
From PSO Require Import Raft.ProofsReadonlyFrames Raft.ProofsReadonlyA Raft.ProofsReadonlyB.
From PSO Require Import Raft.ProofsReadonlyD Raft.ProofsReadonlyE Raft.ProofsReadonlyFinal.
From PSO Require Import Raft.ProofsFallbackA Raft.ProofsFallbackB Raft.ProofsFallbackC Raft.ProofsFallbackFinal.
From PSO Require Import Raft.ProofsFallbackSlotsGlobal Raft.ProofsFallbackSuccess Raft.ProofsFallbackSuccessGlobal.
Import ListNotations.
Import RecordSetNotations.
Open Scope N_scope.

Section State.
Variable c : conf.
Variable V : list nid.
Hypothesis NDV : NoDup V.
Hypothesis VRO : forall v, In v V -> v < RO_BASE.
Hypothesis VNE : V <> [].
Hypothesis Hb1 : 1 < batch c.
Variables (g : gstate) (gh : ghost) (st : list nid) (s : M.state).
Hypothesis G : GI c V g gh st s.

Lemma st_last_idx_full (xa : node) full :
  wf1 full -> suffix_of (log xa) full -> last_idx (log xa) = N.of_nat (length full).
Proof. intros W Sx. rewrite (suffix_last_idx _ _ Sx). apply wf1_last_idx; exact W. Qed.

(* (a) a voter's commit index never exceeds the last index of its log *)
Lemma st_commit_le_last a xa :
  aget a (nodes g) = Some xa -> a < RO_BASE -> commit xa <= last_idx (log xa).
Proof.
  intros Ha Hla.
  destruct (GI_full c V NDV VRO VNE Hb1 g gh st s G a xa Ha Hla) as (fa & Ea & Wa & Sa).
  pose proof (Rn_commit_le c V NDV VRO VNE Hb1 a xa s fa (GI_reach _ _ _ _ _ _ G) (GI_node c V g gh st s G a xa Ha Hla) Ea) as Hc.
  rewrite (st_last_idx_full xa fa Wa Sa). lia.
Qed.

(* (a') what a voter has applied is within its log too (it may exceed the commit index in this fragment) *)
Lemma st_applied_le_last a xa :
  aget a (nodes g) = Some xa -> a < RO_BASE -> applied xa <= last_idx (log xa).
Proof.
  intros Ha Hla.
  destruct (GI_full c V NDV VRO VNE Hb1 g gh st s G a xa Ha Hla) as (fa & Ea & Wa & Sa).
  destruct (Rn_applied _ _ _ _ _ (GI_node c V g gh st s G a xa Ha Hla)) as [Hc _].
  rewrite Ea, absL_length in Hc.
  rewrite (st_last_idx_full xa fa Wa Sa). lia.
Qed.

(* (b) a leader's matchIndex for a member never exceeds the leader's own last index *)
Lemma st_match_le_last L xL f m :
  aget L (nodes g) = Some xL -> L < RO_BASE -> role xL = LEADER ->
  In f V -> f <> L -> aget f (match_idx xL) = Some m -> m <= last_idx (log xL).
Proof.
  intros Ha Hla Hr Hf Hne Hm.
  pose proof (GI_node c V g gh st s G L xL Ha Hla) as RN.
  destruct (GI_full c V NDV VRO VNE Hb1 g gh st s G L xL Ha Hla) as (fa & Ea & Wa & Sa).
  pose proof (GI_reach _ _ _ _ _ _ G) as HR.
  pose proof (Rn_match _ _ _ _ _ RN f m Hf Hne Hm) as H1.
  assert (M.rl (M.nodes s (n2 L)) = M.Leader) as HL.
  { rewrite (Rn_role _ _ _ _ _ RN). unfold absR. rewrite Hr. reflexivity. }
  pose proof (Safety5_Acks.inv5_kreachable _ s HR) as I5.
  destruct (Safety2_Election.I2_leader _ _ (Safety2_Election.inv2_kreachable _ s HR) (n2 L) HL) as [Q W].
  pose proof (Safety3_LeaderLog.I3_wlog _ (Safety3_LeaderLog.inv3_kreachable _ s HR) _ _ _ W eq_refl) as EL.
  assert (M.matchIdx (M.nodes s (n2 L)) (n2 f) <= length fa)%nat as H2.
  { destruct (Safety5_Acks.I5_match _ _ I5 (n2 L) (n2 f) HL) as [Z | A]; [lia|].
    destruct (Safety5_Acks.I5_ack _ _ I5 _ _ _ A) as (_ & B & _).
    rewrite <- EL, Ea, absL_length in B. exact B. }
  rewrite (st_last_idx_full xL fa Wa Sa). lia.
Qed.

(* static membership: the members of a voter are the other voters; a leader is a voter *)
Lemma st_others a xa : aget a (nodes g) = Some xa -> a < RO_BASE -> others xa = vminus a V.
Proof.
  intros Ha Hla. destruct (I_node _ _ _ _ (GI_inv _ _ _ _ _ _ G) a xa Ha) as (_ & H & _).
  apply (H Hla).
Qed.

Lemma st_leader_voter a xa : aget a (nodes g) = Some xa -> role xa = LEADER -> a < RO_BASE.
Proof.
  intros Ha Hr. destruct (N.lt_ge_cases a RO_BASE) as [H|H]; [exact H|].
  destruct (I_node _ _ _ _ (GI_inv _ _ _ _ _ _ G) a xa Ha) as (_ & _ & H2).
  destruct (H2 H) as (_ & Hf). rewrite Hf in Hr. discriminate Hr.
Qed.

End State.

(* on runs of the Tier C5 fragment (hypotheses exactly as in Props/TierC5.v) *)
Theorem leader_bounds_core5 :
  forall (c : conf) (V : list nid) (evs : list event) (g : gstate) (L : nid) (xL : node),
    dyn c = false -> 1 < batch c -> valid V evs = true -> run_ok5 c ginit evs = true ->
    run_trace c ginit evs = Some g -> aget L (nodes g) = Some xL -> role xL = LEADER ->
    commit xL <= last_idx (log xL) /\
    forall x m, In x (others xL) -> aget x (match_idx xL) = Some m -> m <= last_idx (log xL).
Proof.
  intros c V evs g L xL H1 H3 H4 H5 Hr Ha Hl.
  pose proof (core_frag_intro c V evs H1 H3 H4 H5) as F.
  destruct (core_frag_facts c V evs F) as (ND & HV & HNE & Hb & _).
  destruct (run_GI c V evs g F Hr) as (gh & s & G).
  pose proof (st_leader_voter c V g gh _ s G L xL Ha Hl) as Hlt.
  split; [apply (st_commit_le_last c V ND HV HNE Hb g gh _ s G L xL Ha Hlt)|].
  intros x m Hx Hm. rewrite (st_others c V g gh _ s G L xL Ha Hlt) in Hx.
  unfold vminus in Hx. apply filter_In in Hx as (HxV & Hxne).
  apply negb_true_iff in Hxne. apply N.eqb_neq in Hxne.
  apply (st_match_le_last c V ND HV HNE Hb g gh _ s G L xL x m Ha Hlt Hl HxV Hxne Hm).
Qed.

(* a cut-off leader acknowledges nothing registered beyond the last index its log had at the cut, i.e.
   nothing submitted to it after the cut *)
Theorem no_success_when_cut_full_core5 : forall c V evs0 g0 L n0 evs,
  (0 <= period c)%Z ->
  dyn c = false -> 1 < batch c -> valid V evs0 = true -> run_ok5 c ginit evs0 = true ->
  Forall slot_valid evs0 -> run_trace c ginit evs0 = Some g0 ->
  aget L (nodes g0) = Some n0 -> role n0 = LEADER -> others n0 <> [] ->
  Forall ProofsCommitGlobal.ev_ok evs ->
  steps_sat (cut_quiet L) c g0 evs ->
  steps_sat (success_below L (last_idx (log n0))) c g0 evs.
Proof.
  intros c V evs0 g0 L n0 evs Hp F1 F3 F4 F5 HV HR Hx Hl Hne HE HS.
  destruct (leader_bounds_core5 c V evs0 g0 L n0 F1 F3 F4 F5 HR Hx Hl) as (Ha & Hb).
  eapply (C20_no_success_when_cut_thm c evs0 g0 L n0 (last_idx (log n0)) evs Hp HV HR Hx Hl Hne Ha); [|exact HE | exact HS].
  apply ProofsFallbackFull.no_majority_beyond_last; assumption.
Qed.

(* ------------------------------------------------------------------------------------------ *)
(* non-vacuity: run D of Refine5Example (a dump file is configured: file_dump = true; the leader compacts
   its log and installs a snapshot at voter 2), stopped after 46 events: node 1 leads, its log is cut
   (first index 2, last index 4), commit = applied = 3, matchIndex = {2: 4, 3: 3}, callback 12 waits
   under index 4.  Then node 1 is cut off: command 9 is submitted to it under callback 13 (registered
   under index 5), it ticks at 148 (commits index 4, fires SUCCESS for callback 12: registered under
   4 <= 4), at 160, and at 1300 (no answer within the fallback window: it steps down).  Callback 13 is
   never acknowledged. *)
From PSO Require Raft.ProofsCommitExamples Raft.ProofsApplyBase.
From PSO Require Import Raft.Refine5Example.

Definition slot_valid_b (ev : event) : bool :=
  match ev with
  | ESubmit _ cm _ | EAdmin _ cm _ | ESetVer _ cm _ => negb (ck cm =? 2) || (cb cm <? RO_BASE)
  | ERestart _ oth _ _ _ => forallb (fun x => x <? RO_BASE) oth && ProofsCommitExamples.ssortedb oth
  | _ => true
  end.

Lemma slot_valid_b_sound evs : forallb slot_valid_b evs = true -> Forall slot_valid evs.
Proof.
  intros H. apply Forall_forall. intros ev Hin. rewrite forallb_forall in H. specialize (H ev Hin).
  assert (C : forall cm, negb (ck cm =? 2) || (cb cm <? RO_BASE) = true -> cmd_ok cm).
  { intros cm Hc Hk. apply orb_true_iff in Hc as [Hc|Hc].
    - apply negb_true_iff, N.eqb_neq in Hc. contradiction.
    - apply N.ltb_lt in Hc. exact Hc. }
  destruct ev; cbn in H; split; cbn; auto.
  - apply andb_true_iff in H as [H _]. apply Forall_forall. intros x Hx. rewrite forallb_forall in H.
    apply N.ltb_lt. exact (H x Hx).
  - apply andb_true_iff in H as [_ H]. apply ProofsCommitExamples.ssortedb_ok. exact H.
Qed.

Definition ex5_boot : list event := firstn 46 t5_traceD.
Definition ex5_g0 : gstate := match run_trace t5_confD ginit ex5_boot with Some g => g | None => ginit end.
Definition ex5_n0 : node :=
  match aget 1 (nodes ex5_g0) with Some n => n | None => init_node (mk_env t5_confD 0 0 0 [] 0) None [] 0 end.
Definition ex5_cut : list event := [ESubmit 1 (t5_cmd 9) 13; t5T 148 1; t5T 160 1; t5T 1300 1].

Example leader_bounds_core5_example :
  dyn t5_confD = false /\ file_dump t5_confD = true /\ 1 < batch t5_confD /\
  valid t5_V ex5_boot = true /\ run_ok5 t5_confD ginit ex5_boot = true /\
  run_trace t5_confD ginit ex5_boot = Some ex5_g0 /\ aget 1 (nodes ex5_g0) = Some ex5_n0 /\
  role ex5_n0 = LEADER /\ others ex5_n0 = [2; 3] /\
  first_idx (log ex5_n0) = 2 /\ last_idx (log ex5_n0) = 4 /\ commit ex5_n0 = 3 /\
  match_idx ex5_n0 = [(2, 4); (3, 3)] /\ wait_commit ex5_n0 = [(4, [(1, CbLocal 12)])] /\
  (* a snapshot was installed at voter 2 on the way *)
  (exists n2 sn, aget 2 (nodes ex5_g0) = Some n2 /\ stored (sr n2) = Some (Good sn) /\ eidx (s_e1 sn) = 3) /\
  (* the conclusion of the theorem *)
  (commit ex5_n0 <= last_idx (log ex5_n0) /\
   forall x m, In x (others ex5_n0) -> aget x (match_idx ex5_n0) = Some m -> m <= last_idx (log ex5_n0)).
Proof.
  assert (Hd : dyn t5_confD = false) by reflexivity.
  assert (Hb : 1 < batch t5_confD) by (vm_compute; reflexivity).
  assert (Hv : valid t5_V ex5_boot = true) by (vm_compute; reflexivity).
  assert (Hok : run_ok5 t5_confD ginit ex5_boot = true) by (vm_compute; reflexivity).
  assert (HR : run_trace t5_confD ginit ex5_boot = Some ex5_g0) by (vm_compute; reflexivity).
  assert (Hx : aget 1 (nodes ex5_g0) = Some ex5_n0) by (vm_compute; reflexivity).
  assert (Hl : role ex5_n0 = LEADER) by (vm_compute; reflexivity).
  split; [exact Hd|]. split; [reflexivity|]. split; [exact Hb|]. split; [exact Hv|]. split; [exact Hok|].
  split; [exact HR|]. split; [exact Hx|]. split; [exact Hl|].
  split; [vm_compute; reflexivity|]. split; [vm_compute; reflexivity|]. split; [vm_compute; reflexivity|].
  split; [vm_compute; reflexivity|]. split; [vm_compute; reflexivity|]. split; [vm_compute; reflexivity|].
  split; [do 2 eexists; split; [vm_compute; reflexivity|]; split; vm_compute; reflexivity|].
  exact (leader_bounds_core5 t5_confD t5_V ex5_boot ex5_g0 1 ex5_n0 Hd Hb Hv Hok HR Hx Hl).
Qed.

Example no_success_when_cut_full_core5_example :
  (0 <= period t5_confD)%Z /\
  dyn t5_confD = false /\ file_dump t5_confD = true /\ 1 < batch t5_confD /\
  valid t5_V ex5_boot = true /\ run_ok5 t5_confD ginit ex5_boot = true /\
  Forall slot_valid ex5_boot /\ run_trace t5_confD ginit ex5_boot = Some ex5_g0 /\
  aget 1 (nodes ex5_g0) = Some ex5_n0 /\ role ex5_n0 = LEADER /\ others ex5_n0 <> [] /\
  Forall ProofsCommitGlobal.ev_ok ex5_cut /\ steps_sat (cut_quiet 1) t5_confD ex5_g0 ex5_cut /\
  last_idx (log ex5_n0) = 4 /\
  (* the conclusion of the theorem *)
  steps_sat (success_below 1 4) t5_confD ex5_g0 ex5_cut /\
  (* what happens: callback 12 (index 4) is acknowledged in the second step of the cut; callback 13,
     submitted after the cut, still waits under index 5 when node 1 has stepped down *)
  (exists g1 g2 s, gstep t5_confD ex5_g0 (ESubmit 1 (t5_cmd 9) 13) = Some (g1, Some (1, s)) /\
     exists s2, gstep t5_confD g1 (t5T 148 1) = Some (g2, Some (1, s2)) /\
                ProofsApplyBase.fired (outs s2) = [(12, 3, SUCCESS)]) /\
  (exists g n, run_trace t5_confD ex5_g0 ex5_cut = Some g /\ aget 1 (nodes g) = Some n /\
               role n = FOLLOWER /\ wait_commit n = [(5, [(1, CbLocal 13)])] /\ commit n = 4).
Proof.
  destruct leader_bounds_core5_example as (Hd & _ & Hb & Hv & Hok & HR & Hx & Hl & Ho & _).
  assert (Hp : (0 <= period t5_confD)%Z) by (cbn; lia).
  assert (HV : Forall slot_valid ex5_boot) by (apply slot_valid_b_sound; vm_compute; reflexivity).
  assert (Hne : others ex5_n0 <> []) by (rewrite Ho; discriminate).
  assert (HE : Forall ProofsCommitGlobal.ev_ok ex5_cut) by (repeat constructor).
  assert (HS : steps_sat (cut_quiet 1) t5_confD ex5_g0 ex5_cut) by (apply quiet_run_b_sound; vm_compute; reflexivity).
  assert (E : last_idx (log ex5_n0) = 4) by (vm_compute; reflexivity).
  split; [exact Hp|]. split; [exact Hd|]. split; [reflexivity|]. split; [exact Hb|]. split; [exact Hv|].
  split; [exact Hok|]. split; [exact HV|]. split; [exact HR|]. split; [exact Hx|]. split; [exact Hl|].
  split; [exact Hne|]. split; [exact HE|]. split; [exact HS|]. split; [exact E|].
  split.
  { pose proof (no_success_when_cut_full_core5 t5_confD t5_V ex5_boot ex5_g0 1 ex5_n0 ex5_cut
                  Hp Hd Hb Hv Hok HV HR Hx Hl Hne HE HS) as H.
    rewrite E in H. exact H. }
  split.
  { do 3 eexists. split; [vm_compute; reflexivity|]. eexists. split; vm_compute; reflexivity. }
  do 2 eexists. split; [vm_compute; reflexivity|]. split; [vm_compute; reflexivity|].
  vm_compute. repeat split; reflexivity.
Qed.
