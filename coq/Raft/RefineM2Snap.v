(* Tier CM2 (pure, about cluster_before / fold_members / M.gcfg): the member set try_compact stores.
   The member table of voter n is the fold of the membership entries of its FULL (ghost) log; every
   membership entry of a reachable log was effective, so undoing the entries behind [applied], latest
   first, skipping the entries that name n, and adding n itself gives a sorted list with the elements of
   n :: del n (gcfg (first applied entries)), which has the elements of gcfg (first applied entries)
   when n is a member there. *)
From Coq Require Import ZArith NArith List Bool Lia ZifyBool Arith PeanoNat.
From RecordUpdate Require Import RecordSet.
From PSO Require Import Raft.Types Raft.Node Raft.Net Raft.ProofsCommitBase.
From PSO Require Import Raft.ProofsElectionBase Raft.ProofsMembership Raft.ProofsMembershipSnap.
From PSO Require Import Raft.RefineMAbs Raft.RefineMEff Raft.RefineMCfg Raft.RefineMSpecA Raft.RefineM2Abs.
From PSO Require AbstractM.Model AbstractM.Lib AbstractM.Kstep AbstractM.Cfg.
Import ListNotations.
Import RecordSetNotations.
Open Scope N_scope.
#[local] Arguments firstn : simpl nomatch.
#[local] Arguments skipn : simpl nomatch.

Lemma snap_cluster (c : conf) (V : list nid) (n : nid) (x : node) (full : list entry) (a : N) :
  ssorted V -> (forall v, In v V -> v < RO_BASE) -> n < RO_BASE ->
  wf1 full -> suffix_of (log x) full -> Forall (RefineMAbs.small c) full ->
  self x = Some n -> others x = fold_members (vminus n V) full (Some n) ->
  first_idx (log x) <= a + 1 ->
  leff (absV V) (absL (pk c) full) ->
  M.mem (n2 n) (M.gcfg (absV V) (firstn (n2 a) (absL (pk c) full))) = true ->
  let cl := cluster_before x (rev (get_entries (log x) (Some (a + 1)) None None)) (sadd n (others x)) in
  csmall cl /\ ms cl (M.gcfg (absV V) (firstn (n2 a) (absL (pk c) full))).
Proof.
  intros SV VRO Hlt W Sx Sm Hself Hoth Hfi Hleff Hmem. cbv zeta.
  assert (Hs : ssorted (vminus n V)) by (apply ssorted_vminus; exact SV).
  set (pre := firstn (n2 a) full). set (hi := skipn (n2 a) full).
  assert (Efull : full = pre ++ hi) by (unfold pre, hi; symmetry; apply firstn_skipn).
  assert (Ehi : get_entries (log x) (Some (a + 1)) None None = hi).
  { rewrite (suffix_ge _ _ W Sx) by exact Hfi. rewrite ge_from by (auto; lia).
    unfold hi. f_equal. lia. }
  rewrite Ehi, cluster_before_ops, mem_ops_rev, Hself.
  set (lo := fold_members (vminus n V) pre (Some n)).
  assert (Hlo : ssorted lo) by (apply ssorted_fold_members; exact Hs).
  assert (Ho2 : others x = fold_left (step_member (Some n)) (mem_ops hi) lo).
  { rewrite Hoth, Efull at 1. rewrite fold_members_app. reflexivity. }
  assert (Hu : all_undo_ok (Some n) lo (mem_ops hi) = true).
  { apply (leff_undo (pk c) n V hi pre Hs). rewrite <- Efull. exact Hleff. }
  assert (Ecl : fold_left (cb_step (Some n)) (rev (mem_ops hi)) (sadd n (others x)) = sadd n lo).
  { change (sadd n (others x)) with (with_self (Some n) (others x)).
    rewrite <- with_self_undo_fold by (rewrite Hoth; apply ssorted_fold_members; exact Hs).
    cbn [with_self]. f_equal. rewrite Ho2. apply undo_exact; auto. }
  rewrite Ecl.
  assert (Hms : ms lo (M.del (n2 n) (M.gcfg (absV V) (firstn (n2 a) (absL (pk c) full))))).
  { rewrite <- MC.others_gcfg, <- absL_firstn. apply others_abs. exact Hs. }
  split.
  - split; [apply ssorted_sadd; exact Hlo|].
    apply Forall_forall. intros y Hy. apply In_sadd' in Hy as [->|Hy]; [exact Hlt|].
    eapply (fold_members_lt c); [| |exact Hy].
    + intros z Hz. apply VRO. unfold vminus in Hz. apply filter_In in Hz. tauto.
    + unfold pre. apply Forall_firstn. exact Sm.
  - intros y. rewrite In_sadd', (Hms y), MC.del_In. apply MC.mem_In in Hmem. split.
    + intros [->|[H _]]; auto.
    + intros H. destruct (N.eq_dec y n) as [->|Hne]; [left; reflexivity|right]. split; auto. lia.
Qed.
