(* C06: a follower acknowledges (next_node_idx, success) only entries that are in its log
   - hence in its journal - at that moment. *)
From Coq Require Import ZArith NArith List Bool Lia ZifyBool ZifyN.
From RecordUpdate Require Import RecordSet.
From PSO Require Import Raft.Types Raft.Node Raft.Net Raft.Obs Raft.ProofsSnapshotBase Raft.ProofsSnapshot
  Raft.ProofsDisk.
Import ListNotations.
Import RecordSetNotations.
Open Scope N_scope.

Lemma matched_prefix_le : forall xs ys,
  (matched_prefix xs ys <= length xs)%nat /\ (matched_prefix xs ys <= length ys)%nat.
Proof.
  induction xs as [|x xs IH]; intros ys; cbn; [lia|].
  destruct ys as [|y ys]; cbn; [lia|].
  destruct (eterm x =? eterm y); cbn; [|lia]. destruct (IH ys). lia.
Qed.

Lemma matched_prefix_terms : forall xs ys i a b,
  (i < matched_prefix xs ys)%nat -> nth_error xs i = Some a -> nth_error ys i = Some b ->
  eterm a = eterm b.
Proof.
  induction xs as [|x xs IH]; intros ys i a b Hi Ha Hb; cbn in Hi; [lia|].
  destruct ys as [|y ys]; [lia|].
  destruct (eterm x =? eterm y) eqn:E; [|lia].
  destruct i as [|i]; cbn in *.
  - inversion Ha; inversion Hb; subst. lia.
  - eapply IH; eauto. lia.
Qed.

Lemma get_entries_all_split : forall l f p0 ptail,
  get_entries l (Some f) None None = p0 :: ptail ->
  exists pre, l = pre ++ p0 :: ptail /\ N.of_nat (length pre) = f - first_idx l /\ first_idx l <= f.
Proof.
  intros l f p0 ptail H. unfold get_entries in H.
  destruct (f <? first_idx l) eqn:E; [discriminate|].
  remember (N.to_nat (f - first_idx l)) as k.
  exists (firstn k l). split; [|split].
  - rewrite <- H. symmetry. apply firstn_skipn.
  - assert (k <= length l)%nat.
    { destruct (Nat.le_gt_cases k (length l)); auto. rewrite skipn_all2 in H by lia. discriminate. }
    rewrite firstn_length_le by lia. lia.
  - lia.
Qed.

Lemma do_change_cluster_log : forall a x rev s,
  log (nd (fst (do_change_cluster a x rev s))) = log (nd s) /\
  no_new_send s (fst (do_change_cluster a x rev s)) /\
  term (nd (fst (do_change_cluster a x rev s))) = term (nd s).
Proof.
  intros a x rev s. unfold do_change_cluster.
  destruct (xorb a rev).
  - destruct (self_is x (nd s) || smem x (others (nd s))); cbn; [repeat split; auto; apply no_new_send_refl|].
    destruct (role (nd s) =? LEADER); cbn; repeat split; auto;
      intros d m H; apply in_app_or in H; destruct H as [H|[H|[]]]; auto; discriminate.
  - destruct (self_is x (nd s)); cbn; [repeat split; auto; apply no_new_send_refl|].
    destruct (negb (smem x (others (nd s)))); cbn; [repeat split; auto; apply no_new_send_refl|].
    repeat split; auto.
    intros d m H; apply in_app_or in H; destruct H as [H|[H|[]]]; auto; discriminate.
Qed.

Lemma apply_membership_log : forall rev es s,
  log (nd (apply_membership rev es s)) = log (nd s) /\ no_new_send s (apply_membership rev es s) /\
  term (nd (apply_membership rev es s)) = term (nd s).
Proof.
  intros rev es s. unfold apply_membership.
  apply fold_left_keeps with (P := fun s' => log (nd s') = log (nd s) /\ no_new_send s s' /\
                                            term (nd s') = term (nd s)).
  - intros a b (H1 & H2 & H3). destruct (membership_of (ecmd b)) as [[ad x]|]; [|auto].
    destruct (do_change_cluster_log ad x rev a) as (D1 & D2 & D3).
    repeat split; try congruence. eapply no_new_send_trans; eauto.
  - repeat split; auto. apply no_new_send_refl.
Qed.

Lemma ae_commit_frame : forall c v s,
  log (nd (ae_commit c v s)) = log (nd s) /\ outs (ae_commit c v s) = outs s.
Proof.
  intros c v s. unfold ae_commit, upd. destruct v as [v|]; [|cbn; auto].
  destruct (commit (nd s) <? c); cbn; auto.
Qed.

Lemma last_entry_skipn : forall m (l : list entry), skipn m l <> [] -> last_entry (skipn m l) = last_entry l.
Proof.
  intros m l H. rewrite <- (firstn_skipn m l) at 2. symmetry. apply last_entry_app. exact H.
Qed.

Lemma In_skipn_aux : forall A (l : list A) k x, In x (skipn k l) -> In x l.
Proof.
  intros A l k x H. rewrite <- (firstn_skipn k l). apply in_or_app. auto.
Qed.

Lemma nth_error_firstn_lt : forall A (l : list A) k i, (i < k)%nat -> nth_error (firstn k l) i = nth_error l i.
Proof.
  induction l as [|a l IH]; intros k i H; destruct k; destruct i; cbn; auto; try lia.
  apply IH. lia.
Qed.

Lemma nth_error_skipn_ge : forall A (l : list A) k i, nth_error (skipn k l) i = nth_error l (k + i).
Proof.
  induction l as [|a l IH]; intros k i; destruct k; cbn; auto.
  destruct i; reflexivity.
Qed.

(* The reply to a regular append_entries message.  Whenever ae_regular emits a success reply
   (next = nx), then nx - 1 does not exceed the last log index and every entry of the message
   is in the log (same index and term) - it was appended, or an entry with that index and term
   was already there and has been kept. *)
Lemma ack_covered : forall e from c pidx pterm new s,
  log_wf (log (nd s)) -> consec (pidx + 1) new ->
  let s' := ae_regular e from c (Some (pidx, pterm)) new s in
  forall t nx r, In (Send from (NextIdx t nx r true)) (outs s') ->
    In (Send from (NextIdx t nx r true)) (outs s) \/
    (nx - 1 <= last_idx (log (nd s')) /\
     forall en, In en new ->
       exists en', In en' (log (nd s')) /\ eidx en' = eidx en /\ eterm en' = eterm en).
Proof.
  intros e from c pidx pterm new s Hwf Hnew. cbv zeta. unfold ae_regular. cbn [option_map fst].
  destruct (get_entries (log (nd s)) (Some pidx) None None) as [|p0 ptail] eqn:Eg.
  { intros t nx r H. left. unfold send_next_idx in H. rewrite send_outs in H.
    destruct (smem _ _); auto. apply in_app_or in H. destruct H as [H|[H|[]]]; auto. discriminate. }
  destruct (negb (eterm p0 =? pterm)).
  { intros t nx r H. left. unfold send_next_idx in H. rewrite send_outs in H.
    destruct (smem _ _); auto. apply in_app_or in H. destruct H as [H|[H|[]]]; auto. discriminate. }
  destruct (get_entries_all_split _ _ _ _ Eg) as (pre & Hl & Hpre & Hfi).
  set (m := matched_prefix ptail new).
  destruct (matched_prefix_le ptail new) as [Hm1 Hm2]. fold m in Hm1, Hm2.
  (* facts on indices *)
  assert (Hc : consec (first_idx (log (nd s))) (pre ++ p0 :: ptail)) by (rewrite <- Hl; exact Hwf).
  apply consec_app in Hc. destruct Hc as [Hcpre Hc]. cbn [consec] in Hc. destruct Hc as [Hp0 Hpt].
  assert (Hp0' : eidx p0 = pidx) by lia.
  assert (Hpt' : consec (pidx + 1) ptail).
  { replace (pidx + 1) with (first_idx (log (nd s)) + N.of_nat (length pre) + 1) by lia. exact Hpt. }
  assert (Hlast : last_idx (log (nd s)) = pidx + N.of_nat (length ptail)).
  { assert (Hne : log (nd s) <> []) by (rewrite Hl; destruct pre; discriminate).
    pose proof (consec_last_idx _ _ Hwf Hne) as Hq.
    assert (Hlen : length (log (nd s)) = (length pre + 1 + length ptail)%nat).
    { rewrite Hl at 1. rewrite app_length. cbn [length]. lia. }
    lia. }
  (* the state after the (possible) truncation *)
  match goal with |- context [upd (fun n => n <| log := log n ++ skipn m new |>) ?x] => set (s1 := x) end.
  assert (H1 : no_new_send s s1 /\
               ((skipn m ptail <> [] /\ skipn m new <> [] /\
                 log (nd s1) = pre ++ p0 :: firstn m ptail) \/
                ((skipn m ptail = [] \/ skipn m new = []) /\ log (nd s1) = log (nd s)))).
  { subst s1. destruct (skipn m ptail) as [|x xs] eqn:E1.
    - split; [apply no_new_send_refl|]. right. auto.
    - destruct (skipn m new) as [|y ys] eqn:E2.
      + split; [apply no_new_send_refl|]. right. auto.
      + set (s0 := if dyn (cf e) then apply_membership true (rev (x :: xs)) s else s).
        assert (H0 : log (nd s0) = log (nd s) /\ no_new_send s s0).
        { subst s0. destruct (dyn (cf e)).
          - destruct (apply_membership_log true (rev (x :: xs)) s) as (A & B & _). auto.
          - split; auto. apply no_new_send_refl. }
        destruct H0 as [H0 H0']. unfold upd. cbn. split; [exact H0'|]. left.
        repeat split; try discriminate. rewrite H0.
        unfold delete_from. destruct (pidx + 1 + N.of_nat m <? first_idx (log (nd s))) eqn:E; [lia|].
        replace (N.to_nat (pidx + 1 + N.of_nat m - first_idx (log (nd s)))) with (length pre + (1 + m))%nat by lia.
        rewrite Hl. rewrite firstn_app_2. reflexivity. }
  destruct H1 as [Hns1 Hlog1]. clearbody s1.
  set (s2 := upd (fun n => n <| log := log n ++ skipn m new |>) s1).
  assert (H2 : log (nd s2) = log (nd s1) ++ skipn m new /\ no_new_send s s2).
  { subst s2. unfold upd. cbn. split; auto. }
  destruct H2 as [Hl2 Hns2]. clearbody s2.
  set (s3 := if dyn (cf e) then apply_membership false (skipn m new) s2 else s2).
  assert (H3 : log (nd s3) = log (nd s1) ++ skipn m new /\ no_new_send s s3).
  { subst s3. destruct (dyn (cf e)); auto.
    destruct (apply_membership_log false (skipn m new) s2) as (A & B & _).
    split; [congruence|]. eapply (no_new_send_trans _ s2); eauto. }
  destruct H3 as [Hl3 Hns3]. clearbody s3.
  set (nx0 := match last_entry new with Some le => eidx le + 1 | None => pidx + 1 end).
  set (s4 := send_next_idx from (Some nx0) false true s3).
  assert (H4 : nd s4 = nd s3 /\
               outs s4 = if smem from (tconn (nd s3))
                         then outs s3 ++ [Send from (NextIdx (term (nd s3)) nx0 false true)] else outs s3).
  { subst s4. unfold send_next_idx. split; [apply send_frame | apply send_outs]. }
  destruct H4 as [Hnd4 Houts4]. clearbody s4.
  destruct (ae_commit_frame c (Some (nx0 - 1)) s4) as [Hlc Hoc].
  rewrite Hlc, Hnd4, Hl3.
  intros t nx r Hin. rewrite Hoc, Houts4 in Hin.
  assert (Hcases : In (Send from (NextIdx t nx r true)) (outs s3) \/ nx = nx0).
  { destruct (smem from (tconn (nd s3))); auto.
    apply in_app_or in Hin. destruct Hin as [H|[H|[]]]; auto.
    right. inversion H. reflexivity. }
  destruct Hcases as [Hold|Hnx]; [left; apply Hns3; exact Hold|]. right. subst nx.
  split.
  - (* nx0 - 1 <= last index *)
    destruct (skipn m new) as [|y ys] eqn:E2.
    + (* everything matched: nothing appended, nothing deleted *)
      assert (Hlg : log (nd s1) = log (nd s)).
      { destruct Hlog1 as [(_ & Hne & _)|(_ & H)]; [congruence|exact H]. }
      rewrite app_nil_r, Hlg, Hlast.
      assert (Hmn : (length new <= m)%nat).
      { destruct (Nat.le_gt_cases (length new) m); auto.
        assert (length (skipn m new) = length new - m)%nat by apply skipn_length.
        rewrite E2 in H0. cbn in H0. lia. }
      subst nx0. destruct new as [|n0 new'].
      * cbn. lia.
      * assert (Hq := consec_last_idx _ _ Hnew ltac:(discriminate)).
        unfold last_idx in Hq. destruct (last_entry (n0 :: new')) as [le|]; lia.
    + assert (Hne : skipn m new <> []) by (rewrite E2; discriminate).
      rewrite <- E2. rewrite last_idx_app by exact Hne.
      unfold last_idx. rewrite (last_entry_skipn m new Hne).
      subst nx0. destruct (last_entry new) as [le|] eqn:El; [lia|].
      destruct new; [destruct m; cbn in E2; discriminate|].
      exfalso. clear - El. revert e0 El. induction new as [|z new IH]; intros e0 El; cbn in El; [discriminate|].
      eapply IH; eauto.
  - (* every entry of the message is in the log *)
    intros en Hen. apply In_nth_error in Hen. destruct Hen as [i Hi].
    pose proof (consec_nth _ _ _ _ Hnew Hi) as Hidx.
    destruct (Nat.lt_ge_cases i m) as [Hlt|Hge].
    + assert (Hex : exists en', nth_error ptail i = Some en').
      { destruct (nth_error ptail i) eqn:En; eauto. apply nth_error_None in En. lia. }
      destruct Hex as [en' Hen'].
      exists en'. split; [|split].
      * apply in_or_app. left.
        destruct Hlog1 as [(_ & _ & Hlg)|(_ & Hlg)]; rewrite Hlg.
        -- apply in_or_app. right. right. eapply nth_error_In.
           rewrite nth_error_firstn_lt by exact Hlt. exact Hen'.
        -- rewrite Hl. apply in_or_app. right. right. eapply nth_error_In; eauto.
      * pose proof (consec_nth _ _ _ _ Hpt' Hen'). lia.
      * eapply matched_prefix_terms; eauto.
    + exists en. split; auto. apply in_or_app. right.
      eapply nth_error_In with (n := (i - m)%nat). rewrite nth_error_skipn_ge.
      replace (m + (i - m))%nat with i by lia. exact Hi.
Qed.

(* hence: what is acknowledged is in the journal a kill right after this event would leave *)
Lemma ack_on_disk : forall c e from cm pidx pterm new s d,
  log_wf (log (nd s)) -> consec (pidx + 1) new ->
  let s' := ae_regular e from cm (Some (pidx, pterm)) new s in
  disk_of c (nd s') = Some d ->
  forall t nx r, In (Send from (NextIdx t nx r true)) (outs s') ->
    In (Send from (NextIdx t nx r true)) (outs s) \/
    (nx - 1 <= last_idx (d_log d) /\
     forall en, In en new ->
       exists en', In en' (d_log d) /\ eidx en' = eidx en /\ eterm en' = eterm en).
Proof.
  intros c e from cm pidx pterm new s d Hwf Hnew s' Hd t nx r Hin.
  destruct (disk_has_log c (nd s') d Hd) as (Hl & _). rewrite Hl.
  exact (ack_covered e from cm pidx pterm new s Hwf Hnew t nx r Hin).
Qed.
