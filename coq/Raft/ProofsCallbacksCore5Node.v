(* C02 x Tier C5, node level: the analysis of one tick (ProofsCallbacksCore2, ProofsCallbacksFull2,
   ProofsCallbacksFwdNode) restated WITHOUT the hypothesis file_dump = false.  The only phase of a tick
   that reads file_dump is tick_load; under the dump-file condition of the Tier C4/C5 fragments
   (ProofsElectionFrame2.tickp: a tick that is to load the dump file finds nothing stored) it only
   clears need_load. *)
From Coq Require Import ZArith NArith List Bool Lia ZifyBool Arith PeanoNat.
From RecordUpdate Require Import RecordSet.
From PSO Require Import Raft.Types Raft.Node Raft.Net Raft.Obs Raft.ProofsCommitBase.
From PSO Require Import Raft.ProofsApplyBase Raft.ProofsApply Raft.ProofsApplyLog Raft.ProofsCallbacks Raft.ProofsCallbacks2
  Raft.ProofsApplyWf.
From PSO Require Raft.ProofsCommitLog Raft.ProofsCommit Raft.ProofsCallbacksCore Raft.ProofsCallbacksCore2
  Raft.ProofsCallbacksFull2 Raft.ProofsCallbacksFwdNode Raft.ProofsElectionFrame2.
Import ListNotations.
Import RecordSetNotations.
Open Scope N_scope.

Ltac frs := intros; reflexivity.

Notation tickp := ProofsElectionFrame2.tickp.
Notation grows2 := ProofsCallbacksCore2.grows2.
Notation grows2_trans := ProofsCallbacksCore2.grows2_trans.
Notation grows2_same := ProofsCallbacksCore2.grows2_same.
Notation grows2_of := ProofsCallbacksCore2.grows2_of.
Notation quiet_rel := ProofsCallbacksFull2.quiet_rel.
Notation quiet_trans := ProofsCallbacksFull2.quiet_trans.
Notation quiet_same := ProofsCallbacksFull2.quiet_same.
Notation tick_res := ProofsCallbacksFull2.tick_res.
Notation tick_res_quiet := ProofsCallbacksFull2.tick_res_quiet.
Notation old_sub := ProofsCallbacksFull2.old_sub.
Notation WR := ProofsCallbacksFwdNode.WR.
Notation wsub := ProofsCallbacksFwdNode.wsub.
Notation wsub_trans := ProofsCallbacksFwdNode.wsub_trans.
Notation wsub_same := ProofsCallbacksFwdNode.wsub_same.
Notation nocrit := ProofsCallbacksFwdNode.nocrit.
Notation nocrit_no := ProofsCallbacksFwdNode.nocrit_no.
Notation tick_fw := ProofsCallbacksFwdNode.tick_fw.
Notation tick_fw_quiet := ProofsCallbacksFwdNode.tick_fw_quiet.

(* ------------------------------------------------------------------------------------------ *)
(* the load phase under the dump-file condition                                               *)

Lemma tick_load_p e x0 :
  tickp e x0 -> tick_load e (start_S e x0) = upd (fun n => n <| need_load := false |>) (start_S e x0).
Proof.
  intros Hp. unfold tick_load. cbn [nd start_S].
  destruct (need_load x0 && file_dump (cf e)) eqn:E; [|reflexivity].
  unfold load_dump. cbn [nd start_S]. rewrite (Hp E). reflexivity.
Qed.

(* ------------------------------------------------------------------------------------------ *)
(* ProofsCallbacksCore2: a tick, up to the compaction step                                    *)

Lemma grows2_tick_pre e x0 : tickp e x0 -> grows2 x0 (nd (tick_pre e (start_S e x0))).
Proof.
  intros Hp. unfold tick_pre. change x0 with (nd (start_S e x0)) at 1.
  apply (andthen_rel grows2); [apply grows2_trans| |intros].
  { rewrite (tick_load_p e x0 Hp). apply grows2_same; reflexivity. }
  apply (andthen_rel grows2); [apply grows2_trans| |intros].
  { apply grows2_same; [apply (fr_tick_timer sr)|apply (fr_tick_timer log)]; frs. }
  apply (andthen_rel grows2); [apply grows2_trans| |intros].
  { apply grows2_of; [apply ProofsCommitLog.nkeeps_tick_election|apply ProofsCallbacksCore.grows_tick_election]. }
  apply grows2_same; [apply (fr_tick_leader sr)|apply (fr_tick_leader log)]; frs.
Qed.

Lemma applied_tick_pre e x0 : tickp e x0 -> applied (nd (tick_pre e (start_S e x0))) = applied x0.
Proof.
  intros Hp. unfold tick_pre. change x0 with (nd (start_S e x0)) at 2.
  apply (andthen_rel (fun a b => applied b = applied a)); [congruence| |intros].
  { rewrite (tick_load_p e x0 Hp). reflexivity. }
  apply (andthen_rel (fun a b => applied b = applied a)); [congruence|apply (fr_tick_timer applied); frs|intros].
  apply (andthen_rel (fun a b => applied b = applied a)); [congruence|apply (fr_tick_election applied); frs|intros].
  apply (fr_tick_leader applied); frs.
Qed.

Lemma log_wf_tick_pre e x0 :
  tickp e x0 -> ProofsApplyLog.log_wf (log x0) ->
  ProofsApplyLog.log_wf (log (nd (tick_pre e (start_S e x0)))).
Proof.
  intros Hp W. unfold tick_pre. rewrite andthen_apply, (tick_load_p e x0 Hp).
  assert (K : wfk (tick_timer e ;; tick_election e ;; tick_leader e)).
  { apply wfk_andthen; [|apply wfk_andthen].
    - apply wfk_view. intros s. apply view_tick_timer.
    - apply wfk_tick_election.
    - apply wfk_view. intros s. apply view_tick_leader. }
  destruct (ok (upd (fun n => n <| need_load := false |>) (start_S e x0))); [apply K|]; exact W.
Qed.

(* ------------------------------------------------------------------------------------------ *)
(* ProofsCallbacksFull2: the queue and the subscriptions                                      *)

Lemma quiet_tick_pre e x0 : tickp e x0 -> quiet_rel x0 (nd (tick_pre e (start_S e x0))).
Proof.
  intros Hp. unfold tick_pre. change x0 with (nd (start_S e x0)) at 1.
  apply (andthen_rel quiet_rel); [apply quiet_trans| |intros].
  { rewrite (tick_load_p e x0 Hp). apply quiet_same; try reflexivity.
    apply ProofsCommitLog.nkeeps_los. reflexivity. }
  apply (andthen_rel quiet_rel); [apply quiet_trans| |intros].
  { apply quiet_same; [apply (fr_tick_timer queue); frs|apply (fr_tick_timer wait_commit); frs|].
    apply ProofsCommitLog.nkeeps_los. apply (fr_tick_timer ProofsCommitLog.los); reflexivity. }
  apply (andthen_rel quiet_rel); [apply quiet_trans| |intros].
  { apply quiet_same; [apply (fr_tick_election queue); frs|apply (fr_tick_election wait_commit); frs|].
    apply ProofsCommitLog.nkeeps_tick_election. }
  apply quiet_same; [apply (fr_tick_leader queue); frs|apply (fr_tick_leader wait_commit); frs|].
  apply ProofsCommitLog.nkeeps_los. apply (fr_tick_leader ProofsCommitLog.los); reflexivity.
Qed.

Lemma tick_body_res e x0 :
  tickp e x0 -> log x0 <> [] -> tick_res x0 (nd (tick_body e (start_S e x0))).
Proof.
  intros Hp Hne. unfold tick_body. rewrite andthen_apply.
  pose proof (quiet_tick_pre e x0 Hp) as Q0. set (s0 := tick_pre e (start_S e x0)) in *.
  destruct (ok s0); [|now apply tick_res_quiet].
  pose proof (ProofsCallbacksFull2.quiet_apply_entries e s0) as Q1. destruct (apply_entries e s0) as [s1 need]. cbn [fst] in Q1.
  pose proof (quiet_trans _ _ _ Q0 Q1) as Q01.
  destruct (ok s1); [|now apply tick_res_quiet].
  unfold tick_mid. rewrite andthen_apply.
  assert (Q2 : quiet_rel (nd s1) (nd (tick_send e need s1))).
  { apply quiet_same; [apply (fr_tick_send queue); frs|apply (fr_tick_send wait_commit); frs|apply ProofsCommitLog.nkeeps_tick_send]. }
  pose proof (quiet_trans _ _ _ Q01 Q2) as Q02. set (s2 := tick_send e need s1) in *.
  destruct (ok s2); [|now apply tick_res_quiet]. rewrite andthen_apply.
  assert (Q3 : quiet_rel (nd s2) (nd (tick_ready s2))).
  { apply quiet_same; [apply (fr_tick_ready queue); frs|apply (fr_tick_ready wait_commit); frs|].
    apply ProofsCommitLog.nkeeps_los. apply (fr_tick_ready ProofsCommitLog.los); reflexivity. }
  pose proof (quiet_trans _ _ _ Q02 Q3) as (A1 & A2 & A3). set (s3 := tick_ready s2) in *.
  destruct (ok s3); [|split; [exact A1|intros i subs t id Hp0 Ht; left; exists subs; auto]].
  unfold check_commands.
  destruct (ProofsCallbacksFull2.check_loop_subs (Datatypes.S (length (queue (nd s3)))) e (tnow s3) s3) as (C1 & _ & C3).
  cbv zeta in *. split; [auto|].
  intros i subs t id Hp0 Ht. destruct (C3 i subs t id Hp0 Ht) as [(subs0 & Hp1 & Ht0)|(cm & Hq & He & Hi)].
  - left. exists subs0. auto.
  - right. exists cm. split; [auto|]. split; [exact He|].
    pose proof (ProofsCallbacksFull2.last_idx_of_nkeeps _ _ A3 Hne). lia.
Qed.

Lemma on_tick_res e x0 :
  tickp e x0 -> ProofsApplyLog.log_wf (log x0) -> applied x0 <= last_idx (log x0) ->
  (pid (sr x0) = 1 -> cur_id (sr x0) < applied x0) ->
  tick_res x0 (nd (on_tick e x0)).
Proof.
  intros Hp W0 Hal Hcur. rewrite on_tick_body, andthen_apply.
  assert (Hne : log x0 <> []) by apply W0.
  pose proof (tick_body_res e x0 Hp Hne) as [T1 T2].
  pose proof (grows2_tick_pre e x0 Hp) as (P0 & Cu0 & _).
  pose proof (log_wf_tick_pre e x0 Hp W0) as W1.
  destruct (ProofsCallbacksCore2.tick_body_after_pre e x0 W1) as ((Pb & Cub & _) & _ & Wb).
  set (sb := tick_body e (start_S e x0)) in *.
  destruct (ok sb); [|split; assumption].
  split.
  - intros q Hq. rewrite (fr_try_compact queue) in Hq by frs. auto.
  - intros i subs t id Hp0 Ht. rewrite (fr_try_compact wait_commit) in Hp0 by frs.
    destruct (T2 i subs t id Hp0 Ht) as [Ho|(cm & Hq & He & Hi)]; [now left|].
    right. exists cm. split; [exact Hq|]. split; [|exact Hi].
    rewrite ProofsCallbacksCore2.try_compact_log. destruct (pid (sr (nd sb)) =? 1) eqn:Ep; [|exact He].
    apply N.eqb_eq in Ep. apply (ProofsCallbacksCore2.In_delete_to_kept _ _ _ Wb He). cbn [eidx].
    assert (Hp1 : pid (sr x0) = 1) by congruence. specialize (Hcur Hp1). rewrite Cub, Cu0. lia.
Qed.

(* ------------------------------------------------------------------------------------------ *)
(* ProofsCallbacksFwdNode: the request counter, the pending-reply table, the critical outputs  *)

Lemma wsub_tick_pre e x0 : tickp e x0 -> wsub x0 (nd (tick_pre e (start_S e x0))).
Proof.
  intros Hp. unfold tick_pre. change x0 with (nd (start_S e x0)) at 1.
  apply (andthen_rel wsub); [apply wsub_trans| |intros].
  { rewrite (tick_load_p e x0 Hp). apply wsub_same; reflexivity. }
  apply (andthen_rel wsub); [apply wsub_trans| |intros].
  { apply wsub_same; [apply (fr_tick_timer wait_reply); frs|apply (fr_tick_timer local_ctr); frs]. }
  apply (andthen_rel wsub); [apply wsub_trans| |intros].
  { apply ProofsCallbacksFwdNode.wsub_tick_election. }
  apply wsub_same; [apply (fr_tick_leader wait_reply); frs|apply (fr_tick_leader local_ctr); frs].
Qed.

Lemma tick_body_fw e x0 :
  dyn (cf e) = false -> tickp e x0 -> WR x0 ->
  tick_fw (fun cm i t => In (mkEntry cm i t) (log (nd (tick_body e (start_S e x0)))) /\ (log x0 <> [] -> last_idx (log x0) < i))
          x0 (tick_body e (start_S e x0)).
Proof.
  intros Hd Hp W.
  set (E := fun cm i t => In (mkEntry cm i t) (log (nd (tick_body e (start_S e x0)))) /\ (log x0 <> [] -> last_idx (log x0) < i)).
  assert (HE : forall sb, sb = tick_body e (start_S e x0) -> tick_fw (fun cm i t => In (mkEntry cm i t) (log (nd sb)) /\ (log x0 <> [] -> last_idx (log x0) < i)) x0 sb -> tick_fw E x0 (tick_body e (start_S e x0))).
  { intros sb ->. auto. }
  apply (HE _ eq_refl). clear HE E. unfold tick_body. rewrite andthen_apply.
  pose proof (quiet_tick_pre e x0 Hp) as Q0.
  pose proof (wsub_tick_pre e x0 Hp) as U0.
  assert (C0 : nocrit (tick_pre e (start_S e x0))) by (apply ProofsCallbacksFwdNode.cq_tick_pre; [auto|constructor]).
  set (s0 := tick_pre e (start_S e x0)) in *.
  destruct (ok s0); [|apply tick_fw_quiet; auto; apply Q0].
  pose proof (ProofsCallbacksFull2.quiet_apply_entries e s0) as Q1.
  assert (U1 : wsub (nd s0) (nd (fst (apply_entries e s0)))).
  { apply wsub_same; [apply (fr_apply_entries wait_reply); frs|apply (fr_apply_entries local_ctr); frs]. }
  assert (C1 : nocrit (fst (apply_entries e s0))) by (apply ProofsCallbacksFwdNode.cq_apply_entries; auto).
  destruct (apply_entries e s0) as [s1 need]. cbn [fst] in Q1, U1, C1.
  pose proof (quiet_trans _ _ _ Q0 Q1) as Q01. pose proof (wsub_trans _ _ _ U0 U1) as U01.
  destruct (ok s1); [|apply tick_fw_quiet; auto; apply Q01].
  unfold tick_mid. rewrite andthen_apply.
  assert (Q2 : quiet_rel (nd s1) (nd (tick_send e need s1))).
  { apply quiet_same; [apply (fr_tick_send queue); frs|apply (fr_tick_send wait_commit); frs|apply ProofsCommitLog.nkeeps_tick_send]. }
  assert (U2 : wsub (nd s1) (nd (tick_send e need s1))).
  { apply wsub_same; [apply (fr_tick_send wait_reply); frs|apply (fr_tick_send local_ctr); frs]. }
  assert (C2 : nocrit (tick_send e need s1)) by (apply ProofsCallbacksFwdNode.cq_tick_send; auto).
  pose proof (quiet_trans _ _ _ Q01 Q2) as Q02. pose proof (wsub_trans _ _ _ U01 U2) as U02.
  set (s2 := tick_send e need s1) in *.
  destruct (ok s2); [|apply tick_fw_quiet; auto; apply Q02]. rewrite andthen_apply.
  assert (Q3 : quiet_rel (nd s2) (nd (tick_ready s2))).
  { apply quiet_same; [apply (fr_tick_ready queue); frs|apply (fr_tick_ready wait_commit); frs|].
    apply ProofsCommitLog.nkeeps_los. apply (fr_tick_ready ProofsCommitLog.los); reflexivity. }
  assert (U3 : wsub (nd s2) (nd (tick_ready s2))).
  { apply wsub_same; [apply (fr_tick_ready wait_reply); frs|apply (fr_tick_ready local_ctr); frs]. }
  assert (C3 : nocrit (tick_ready s2)) by (apply ProofsCallbacksFwdNode.cq_tick_ready; auto).
  pose proof (quiet_trans _ _ _ Q02 Q3) as (A1 & A2 & A3). pose proof (wsub_trans _ _ _ U02 U3) as [B1 B2].
  set (s3 := tick_ready s2) in *.
  destruct (ok s3); [|apply tick_fw_quiet; [exact W|exact C3|split; assumption|exact A1]].
  unfold check_commands.
  assert (W3 : WR (nd s3)).
  { intros r cb Hin. rewrite B2. apply (W r cb). now apply B1. }
  destruct (ProofsCallbacksFwdNode.check_loop_fw (Datatypes.S (length (queue (nd s3)))) e (tnow s3) Hd s3 W3) as (L0 & L1 & L2 & L3 & L4).
  assert (Rl : role (nd (check_loop (Datatypes.S (length (queue (nd s3)))) e (tnow s3) s3)) = role (nd s3)) by (apply (fr_check_loop role); frs).
  set (s4 := check_loop _ e (tnow s3) s3) in *.
  destruct (ProofsCallbacksFull2.check_loop_subs (Datatypes.S (length (queue (nd s3)))) e (tnow s3) s3) as (Cq & _ & _).
  cbv zeta in Cq. fold s4 in Cq.
  split; [exact L0|]. split; [lia|]. split; [|split; [|split]].
  - intros r cb Hin. destruct (L2 r cb Hin) as [H|H]; [left; now apply B1|right; lia].
  - intros q Hq. apply A1. now apply Cq.
  - intros d cm r Hin. destruct (L3 d cm r Hin) as [H|[H1 H2]]; [exfalso; eapply nocrit_no; eauto|].
    split; [lia|]. intros id Hid. apply A1. now apply H2.
  - intros d r i t Hin. destruct (L4 d r i t Hin) as [H|(cm & H1 & H2 & H3 & H4)]; [exfalso; eapply nocrit_no; eauto|].
    exists cm. split; [now apply A1|]. split; [congruence|]. split; [exact H2|].
    intros Hne. pose proof (ProofsCallbacksFull2.last_idx_of_nkeeps _ _ A3 Hne) as Hl. lia.
Qed.

Lemma on_tick_fw e x0 :
  dyn (cf e) = false -> tickp e x0 -> WR x0 ->
  tick_fw (fun cm i t => ProofsApplyLog.log_wf (log x0) -> applied x0 <= last_idx (log x0) ->
                         (pid (sr x0) = 1 -> cur_id (sr x0) < applied x0) ->
                         In (mkEntry cm i t) (log (nd (on_tick e x0))))
          x0 (on_tick e x0).
Proof.
  intros Hd Hp W.
  pose proof (tick_body_fw e x0 Hd Hp W) as (T0 & T1 & T2 & Tq & T3 & T4).
  assert (G : forall sf, sf = on_tick e x0 ->
     tick_fw (fun cm i t => ProofsApplyLog.log_wf (log x0) -> applied x0 <= last_idx (log x0) ->
                         (pid (sr x0) = 1 -> cur_id (sr x0) < applied x0) ->
                         In (mkEntry cm i t) (log (nd sf))) x0 sf); [|now apply G].
  intros sf ->. rewrite on_tick_body, andthen_apply.
  destruct (ok (tick_body e (start_S e x0))) eqn:Eok.
  - unfold ProofsCallbacksFwdNode.tick_fw, ProofsCallbacksFwdNode.WR in *. rewrite ProofsCallbacksFwdNode.outs_try_compact.
    rewrite (fr_try_compact wait_reply), (fr_try_compact local_ctr), (fr_try_compact role), (fr_try_compact queue) by frs.
    split; [exact T0|]. split; [exact T1|]. split; [exact T2|]. split; [exact Tq|]. split; [exact T3|].
    intros d r i t Hin. destruct (T4 d r i t Hin) as (cm & H1 & H4 & He & Hi).
    exists cm. split; [exact H1|]. split; [exact H4|]. intros W0 Hal Hcur.
    assert (Hne : log x0 <> []) by apply W0. specialize (Hi Hne).
    pose proof (grows2_tick_pre e x0 Hp) as (P0 & Cu0 & _).
    pose proof (log_wf_tick_pre e x0 Hp W0) as W1.
    destruct (ProofsCallbacksCore2.tick_body_after_pre e x0 W1) as ((Pb & Cub & _) & _ & Wb).
    rewrite ProofsCallbacksCore2.try_compact_log.
    destruct (pid (sr (nd (tick_body e (start_S e x0)))) =? 1) eqn:Ep; [|exact He].
    apply N.eqb_eq in Ep. apply (ProofsCallbacksCore2.In_delete_to_kept _ _ _ Wb He). cbn [eidx].
    assert (Hp0 : pid (sr x0) = 1) by congruence. specialize (Hcur Hp0). rewrite Cub, Cu0. lia.
  - split; [exact T0|]. split; [exact T1|]. split; [exact T2|]. split; [exact Tq|]. split; [exact T3|].
    intros d r i t Hin. destruct (T4 d r i t Hin) as (cm & H1 & H4 & He & Hi).
    exists cm. split; [exact H1|]. split; [exact H4|]. intros _ _ _. exact He.
Qed.
