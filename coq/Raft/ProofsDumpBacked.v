(* C06, "a journaled node can always restart from its files": the journal holds the two entries of
   the dump the node would load.  [dump_backed] is the per-node invariant; this file proves it
   preserved by every handler of Node.v (tick, message, API calls, connection events) and by a
   restart from the node's own files, from well-formed states ([node_wf] of ProofsCommitLog) that
   also satisfy [cut_ok] (the pending serializer job cuts the journal at or before the dump's first
   entry; itself an invariant proved here).

   Three places need a hypothesis that is not a local fact; they are explicit in [msg_keeps] and in
   the restart theorem, and the main theorems are named _partial because of them:
   (1) AE / AEPiece: the entries of the message agree in term with the journal at every index up to
       the dump's position ([agrees]).  ae_regular truncates at the first term mismatch without
       looking at commit/applied; that the mismatch is never at a committed index is Raft safety
       (leader completeness), a global fact.
   (2) AESnap: entry_eqb does not compare the packed size [cpk] of a command (a modelling artefact:
       in the code the size is a function of the command).  When the install keeps the journal
       ("kept"), the journal's entries are entry_eqb-equal to the snapshot's; [snap_exact] says
       that then they are equal.
   (3) restart with ANOTHER code version: a dump of a newer version that the node received, stored
       and could not load (s_ver sn > self_ver) is not backed by the journal; restarting with
       sv >= s_ver sn loads it on the first tick.  The restart theorem assumes that no such dump
       is on disk ([ver_stable]; in particular sv = self_ver n). *)
From Coq Require Import ZArith NArith List Bool Lia ZifyBool ZifyN.
From RecordUpdate Require Import RecordSet.
From PSO Require Import Raft.Types Raft.Node Raft.Net Raft.Obs Raft.ProofsCommitBase Raft.ProofsCommit
  Raft.ProofsMembership Raft.ProofsCommitLog.
From PSO Require Raft.ProofsApplyBase Raft.ProofsApplyLog Raft.ProofsApplyWf Raft.ProofsDisk
  Raft.ProofsSnapshotBase Raft.ProofsSnapshot Raft.ProofsSnapshotChunks Raft.ProofsCommitExamples
  Raft.ProofsCommitGlobal.
Import ListNotations.
Import RecordSetNotations.
Open Scope N_scope.

(* ------------------------------------------------------------------------------------------ *)
(* the invariant                                                                              *)

Definition dump_backed (n : node) : Prop :=
  forall sn, stored (sr n) = Some (Good sn) -> s_ver sn <= self_ver n ->
  exists pre post, log n = pre ++ s_e0 sn :: s_e1 sn :: post.

(* a node that has not loaded its files yet has no serializer job; a pending job (pid = 1) cuts the
   journal at an index that is neither ahead of the node's position nor ahead of the first
   entry of the stored dump *)
Definition cut_ok (n : node) : Prop :=
  (need_load n = true -> pid (sr n) = 0) /\
  (pid (sr n) = 1 ->
   cur_id (sr n) <= applied n /\
   forall sn, stored (sr n) = Some (Good sn) -> cur_id (sr n) <= eidx (s_e0 sn)).

Definition dinv (n : node) : Prop := node_wf n /\ dump_backed n /\ cut_ok n.

(* what the two predicates read, besides the log and applied *)
Definition kk (n : node) := (self_ver n, need_load n, stored (sr n), pid (sr n), cur_id (sr n)).

(* a phase that leaves [kk] alone, does not lower applied and only appends to the log *)
Definition Qr (a b : node) : Prop :=
  kk b = kk a /\ applied a <= applied b /\ exists add, log b = log a ++ add.

Lemma Qr_refl a : Qr a a.
Proof. split; [reflexivity|]. split; [lia|]. exists []. now rewrite app_nil_r. Qed.

Lemma Qr_trans a b c : Qr a b -> Qr b c -> Qr a c.
Proof.
  intros (K1 & A1 & x1 & L1) (K2 & A2 & x2 & L2). split; [congruence|]. split; [lia|].
  exists (x1 ++ x2). rewrite L2, L1, app_assoc. reflexivity.
Qed.

Lemma kk_inv a b : kk b = kk a ->
  self_ver b = self_ver a /\ need_load b = need_load a /\ stored (sr b) = stored (sr a) /\
  pid (sr b) = pid (sr a) /\ cur_id (sr b) = cur_id (sr a).
Proof. unfold kk. intros H. injection H. auto. Qed.

Lemma Qr_keeps a b : Qr a b -> dump_backed a -> cut_ok a -> dump_backed b /\ cut_ok b.
Proof.
  intros (K & A & add & L) D (C1 & C2). apply kk_inv in K as (K1 & K2 & K3 & K4 & K5). split.
  - intros sn Hs Hv. rewrite K3 in Hs. rewrite K1 in Hv. destruct (D sn Hs Hv) as (pre & post & E).
    exists pre, (post ++ add). rewrite L, E, <- app_assoc. reflexivity.
  - split.
    + rewrite K2, K4. exact C1.
    + rewrite K4, K5, K3. intros Hp. destruct (C2 Hp) as [C3 C4]. split; [lia|exact C4].
Qed.

Lemma Qr_same a b :
  (self_ver b, need_load b, applied b, log b, sr b) = (self_ver a, need_load a, applied a, log a, sr a) ->
  Qr a b.
Proof.
  intros H. injection H as H1 H2 H3 H4 H5. unfold Qr, kk. rewrite H1, H2, H3, H4, H5.
  split; [reflexivity|]. split; [lia|]. exists []. now rewrite app_nil_r.
Qed.

(* the projection for the generic frames of ProofsCommitBase: everything but the serializer *)
Definition pq (n : node) := (self_ver n, need_load n, applied n, log n, sr n).

Lemma Qr_pq a b : pq b = pq a -> Qr a b.
Proof. exact (Qr_same a b). Qed.

Lemma Qr_view s s' :
  ProofsApplyBase.view_of s' = ProofsApplyBase.view_of s -> need_load (nd s') = need_load (nd s) ->
  Qr (nd s) (nd s').
Proof.
  intros V Hn.
  destruct (ProofsApplyBase.view_inv _ _ V) as (_ & _ & _ & _ & Ha & _ & Hv & _ & _ & Hl & Hs & _).
  destruct (ProofsApplyBase.view_inv_sr _ _ V) as [Hp Hc].
  unfold Qr, kk. rewrite Hv, Hn, Hs, Hp, Hc, Ha, Hl.
  split; [reflexivity|]. split; [lia|]. exists []. now rewrite app_nil_r.
Qed.

(* ------------------------------------------------------------------------------------------ *)
(* lists: a filter that keeps the dump's two entries keeps the log backed                      *)

Lemma backed_filter (p : entry -> bool) l pre a b post :
  l = pre ++ a :: b :: post -> p a = true -> p b = true ->
  filter p l = filter p pre ++ a :: b :: filter p post.
Proof. intros -> Ha Hb. rewrite filter_app. cbn. now rewrite Ha, Hb. Qed.

Lemma backed_delete_to l k pre a b post :
  consec l -> l = pre ++ a :: b :: post -> k <= eidx a -> eidx b = eidx a + 1 ->
  exists pre' post', delete_to l k = pre' ++ a :: b :: post'.
Proof.
  intros Hc E Ha Hb. unfold delete_to. destruct (k <? first_idx l) eqn:Ek.
  - exists pre, post. exact E.
  - apply N.ltb_ge in Ek. fold (delete_to l k).
    assert (D : delete_to l k = filter (fun en => k <=? eidx en) l).
    { apply delete_to_filter; auto. }
    unfold delete_to in D. rewrite (proj2 (N.ltb_ge _ _) Ek) in D. rewrite D.
    eexists _, _. apply (backed_filter _ l pre a b post E); apply N.leb_le; lia.
Qed.

Lemma delete_from_filter l k :
  consec l -> first_idx l <= k -> delete_from l k = filter (fun en => eidx en <? k) l.
Proof.
  intros Hc Hk. unfold delete_from. destruct (k <? first_idx l) eqn:E; [apply N.ltb_lt in E; lia|].
  rewrite (firstn_filter _ l Hc). apply filter_ext. intros x.
  replace (first_idx l + N.of_nat (N.to_nat (k - first_idx l))) with k by lia. reflexivity.
Qed.

Lemma backed_delete_from l k pre a b post :
  consec l -> l = pre ++ a :: b :: post -> eidx b < k -> eidx b = eidx a + 1 ->
  exists pre' post', delete_from l k = pre' ++ a :: b :: post'.
Proof.
  intros Hc E Hb Hab. destruct (k <? first_idx l) eqn:Ek.
  - unfold delete_from. rewrite Ek. exists pre, post. exact E.
  - apply N.ltb_ge in Ek. rewrite (delete_from_filter l k Hc Ek).
    eexists _, _. apply (backed_filter _ l pre a b post E); apply N.ltb_lt; lia.
Qed.

(* ------------------------------------------------------------------------------------------ *)
(* the phases that leave the dump and the serializer job alone                                 *)

Lemma Qr_upd f s : pq (f (nd s)) = pq (nd s) -> Qr (nd s) (nd (upd f s)).
Proof. intros H. apply Qr_pq. rewrite nd_upd. exact H. Qed.

Lemma Qr_send_ae e s : Qr (nd s) (nd (send_ae e s)).
Proof. apply Qr_view; [apply ProofsApplyBase.view_send_ae|apply (fr_send_ae need_load); frs]. Qed.

Lemma Qr_tick_timer e s : Qr (nd s) (nd (tick_timer e s)).
Proof. apply Qr_view; [apply ProofsApplyBase.view_tick_timer|apply (fr_tick_timer need_load); frs]. Qed.

Lemma Qr_tick_leader e s : Qr (nd s) (nd (tick_leader e s)).
Proof. apply Qr_view; [apply ProofsApplyBase.view_tick_leader|apply (fr_tick_leader need_load); frs]. Qed.

Lemma Qr_tick_send e need s : Qr (nd s) (nd (tick_send e need s)).
Proof. apply Qr_view; [apply ProofsApplyBase.view_tick_send|apply (fr_tick_send need_load); frs]. Qed.

Lemma Qr_tick_ready s : Qr (nd s) (nd (tick_ready s)).
Proof. apply Qr_view; [apply ProofsApplyBase.view_tick_ready|apply (fr_tick_ready need_load); frs]. Qed.

Definition sr3 (n : node) := (stored (sr n), pid (sr n), cur_id (sr n)).

Lemma sr3_become_leader_pre e s :
  sr3 (nd (ProofsSnapshotChunks.become_leader_pre e s)) = sr3 (nd s).
Proof.
  unfold ProofsSnapshotChunks.become_leader_pre. cbv zeta. rewrite !nd_upd.
  unfold log_add, sr3. cbn [sr set].
  match goal with |- context [fold_left ?f ?l ?n] => set (F0 := fold_left f l n) end.
  change (sr3 F0 = sr3 (nd s)). unfold F0. rewrite (fr_fold_node sr3) by reflexivity.
  unfold sr3, set_role. destruct (_ =? _); reflexivity.
Qed.

Lemma Qr_become_leader e s : Qr (nd s) (nd (become_leader e s)).
Proof.
  unfold Qr, kk.
  assert (V : self_ver (nd (become_leader e s)) = self_ver (nd s)) by (apply (fr_become_leader self_ver); frs).
  assert (Nl : need_load (nd (become_leader e s)) = need_load (nd s)) by (apply (fr_become_leader need_load); frs).
  assert (A : applied (nd (become_leader e s)) = applied (nd s)).
  { destruct (ProofsApplyBase.sview_inv _ _ (ProofsApplyBase.sview_become_leader e s)) as (_ & _ & _ & _ & A & _).
    exact A. }
  assert (Z : sr3 (nd (become_leader e s)) = sr3 (nd s)).
  { rewrite ProofsSnapshotChunks.become_leader_split. rewrite <- (sr3_become_leader_pre e s).
    set (s1 := ProofsSnapshotChunks.become_leader_pre e s).
    assert (SA : forall s0, sr3 (nd (send_ae e s0)) = sr3 (nd s0)).
    { intros s0. destruct (Qr_send_ae e s0) as (K & _). apply kk_inv in K as (_ & _ & K3 & K4 & K5).
      unfold sr3. now rewrite K3, K4, K5. }
    rewrite andthen_eq. destruct (use_batch (cf e)).
    - destruct (ok s1); [apply SA|reflexivity].
    - destruct (ok (send_ae e s1)); rewrite ?SA; reflexivity. }
  unfold sr3 in Z. injection Z as Z1 Z2 Z3. rewrite V, Nl, Z1, Z2, Z3, A.
  split; [reflexivity|]. split; [lia|]. eexists. apply ProofsApplyWf.log_become_leader.
Qed.

Lemma Qr_tick_election e s : Qr (nd s) (nd (tick_election e s)).
Proof.
  unfold tick_election.
  destruct (self (nd s)) as [me|]; [|apply Qr_refl].
  destruct (_ && _ && _); [|apply Qr_refl].
  set (s1 := upd (fun n => n <| deadline := (tnow s + gen_timeout e)%Z |> <| leader := None |>) s).
  set (s2 := set_role CANDIDATE s1).
  set (s3 := upd (fun n => n <| term := term n + 1 |> <| voted := Some me |> <| votes := 1 |>) s2).
  assert (V3 : pq (nd s3) = pq (nd s)).
  { unfold s3, s2, s1, set_role. destruct (_ =? _); reflexivity. }
  set (s4 := fold_left (fun s x => send x (RequestVote (term (nd s3)) (last_idx (log (nd s3))) (last_term (log (nd s3)))) s)
                       (others (nd s3)) s3).
  assert (V4 : nd s4 = nd s3).
  { unfold s4. apply (fold_left_inv (fun s0 => nd s0 = nd s3)); [|reflexivity].
    intros s0 x H0. now rewrite nd_send. }
  assert (V5 : pq (nd (on_leader_changed s4)) = pq (nd s)).
  { rewrite ProofsApplyWf.nd_on_leader_changed, V4. exact V3. }
  destruct (majority _ _); [|apply Qr_pq; exact V5].
  eapply Qr_trans; [apply Qr_pq; exact V5|apply Qr_become_leader].
Qed.

Lemma Qr_apply_entries e s : Qr (nd s) (nd (fst (apply_entries e s))).
Proof.
  destruct (ProofsDisk.apply_entries_spec e s) as [_ C]. cbv zeta in C. unfold ProofsDisk.core in C.
  injection C as _ C2 C3 C4 _ _ _ C8.
  assert (Nl : need_load (nd (fst (apply_entries e s))) = need_load (nd s)) by (apply (fr_apply_entries need_load); frs).
  unfold Qr, kk. rewrite C3, Nl, C8, C2, C4. split; [reflexivity|]. split; [lia|]. exists []. now rewrite app_nil_r.
Qed.

Lemma Qr_log_add en s : Qr (nd s) (nd (upd (log_add en) s)).
Proof.
  rewrite nd_upd. unfold log_add, Qr, kk. cbn [self_ver need_load sr applied log set].
  split; [reflexivity|]. split; [lia|]. eexists. reflexivity.
Qed.

Ltac qr_peel :=
  match goal with
  | |- Qr _ (nd (send_ae _ _)) => eapply Qr_trans; [|apply Qr_send_ae]
  | |- Qr _ (nd (send _ _ _)) => rewrite nd_send
  | |- Qr _ (nd (emit _ _)) => rewrite nd_emit
  | |- Qr _ (nd (call_err _ _ _)) => rewrite nd_call_err
  | |- Qr _ (nd (upd (log_add _) _)) => eapply Qr_trans; [|apply Qr_log_add]
  | |- Qr _ (nd (upd _ _)) => eapply Qr_trans; [|apply Qr_upd; reflexivity]
  end.

Lemma Qr_check_one e c cbk s : Qr (nd s) (nd (check_one e c cbk s)).
Proof.
  unfold check_one. destruct (role (nd s) =? LEADER).
  - cbv zeta.
    destruct (if dyn (cf e) then membership_of c else None) as [[a x]|].
    + pose proof (fr_change_cluster pq ltac:(frs) ltac:(frs) ltac:(frs) ltac:(frs) ltac:(frs) ltac:(frs) a x s) as F.
      destruct (change_cluster a x s) as [s1 acc]. cbn [fst] in F. apply Qr_pq in F.
      destruct acc; destruct cbk; try destruct (use_batch (cf e)); repeat qr_peel; exact F.
    + destruct cbk; destruct (use_batch (cf e)); repeat qr_peel; apply Qr_refl.
  - destruct (leader (nd s)) as [l|]; [destruct cbk|]; repeat qr_peel; apply Qr_refl.
Qed.

Lemma Qr_check_loop f e st s : Qr (nd s) (nd (check_loop f e st s)).
Proof.
  revert s. induction f as [|f IH]; intros s; cbn [check_loop]; [apply Qr_refl|].
  destruct (_ <? _)%Z; [|apply Qr_refl].
  assert (G : Qr (nd s) (nd (match queue (nd s) with
                  | [] => s
                  | (c, cbk) :: rest =>
                    let s0 := upd (fun n => n <| queue := rest |>) s in
                    let s1 := check_one e c cbk s0 in if ok s1 then check_loop f e st s1 else s1 end))).
  { destruct (queue (nd s)) as [|[c cbk] rest]; [apply Qr_refl|]. cbv zeta.
    set (s0 := upd (fun n => n <| queue := rest |>) s).
    assert (Q1 : Qr (nd s) (nd (check_one e c cbk s0))).
    { eapply Qr_trans; [|apply Qr_check_one]. apply Qr_upd. reflexivity. }
    destruct (ok (check_one e c cbk s0)); [|exact Q1]. eapply Qr_trans; [exact Q1|apply IH]. }
  destruct (leader (nd s)); [exact G|]. destruct (wait_leader (cf e)); [apply Qr_refl|exact G].
Qed.

Lemma Qr_check_commands e s : Qr (nd s) (nd (check_commands e s)).
Proof. unfold check_commands. apply Qr_check_loop. Qed.

(* ------------------------------------------------------------------------------------------ *)
(* the two tick phases that move the dump or trim the journal                                 *)

Lemma stored_wf n sn : node_wf n -> stored (sr n) = Some (Good sn) -> eidx (s_e1 sn) = eidx (s_e0 sn) + 1.
Proof. intros (_ & _ & (S1 & _)) Hs. destruct (S1 _ Hs) as [H _]. exact H. Qed.

(* loading the node's own dump (first tick after a restart) *)
Lemma db_load_false e s :
  node_wf (nd s) -> dump_backed (nd s) ->
  dump_backed (nd (load_dump e false s)) /\
  (self_ver (nd (load_dump e false s)), need_load (nd (load_dump e false s)), sr (nd (load_dump e false s))) =
  (self_ver (nd s), need_load (nd s), sr (nd s)).
Proof.
  intros W D.
  assert (F : (self_ver (nd (load_dump e false s)), need_load (nd (load_dump e false s)), sr (nd (load_dump e false s))) =
              (self_ver (nd s), need_load (nd s), sr (nd s))).
  { apply (fr_load_dump (fun n => (self_ver n, need_load n, sr n))); frs. }
  split; [|exact F]. injection F as F1 F2 F3.
  intros sn Hs Hv. rewrite F3 in Hs. rewrite F1 in Hv.
  destruct (D sn Hs Hv) as (pre & post & E).
  destruct (load_dump_loaded e false s sn Hs eq_refl Hv) as [HL _]. rewrite HL.
  destruct (snap_kept sn (log (nd s))).
  - apply (backed_delete_to _ _ pre _ _ post (proj1 W) E); [lia|]. eapply stored_wf; eauto.
  - exists [], []. reflexivity.
Qed.

Lemma db_tick_load e s :
  dinv (nd s) -> dinv (nd (tick_load e s)) /\ need_load (nd (tick_load e s)) = false.
Proof.
  intros (W & D & C1 & C2). split; [|unfold tick_load; rewrite nd_upd; reflexivity].
  split; [apply (tick_load_keeps e s); exact W|].
  unfold tick_load. rewrite nd_upd.
  destruct (need_load (nd s) && file_dump (cf e)) eqn:B.
  - apply andb_prop in B as [B _]. specialize (C1 B).
    destruct (db_load_false e s W D) as [D' F]. injection F as F1 F2 F3. split.
    + intros sn Hs Hv. cbn [sr self_ver log set] in *. exact (D' sn Hs Hv).
    + split; cbn [need_load sr set]; [discriminate|]. rewrite F3, C1. discriminate.
  - split.
    + intros sn Hs Hv. cbn [sr self_ver log set] in *. exact (D sn Hs Hv).
    + split; cbn [need_load sr set applied]; [discriminate|exact C2].
Qed.

Lemma db_try_compact e s :
  dinv (nd s) -> need_load (nd s) = false ->
  dinv (nd (try_compact e s)) /\ need_load (nd (try_compact e s)) = false.
Proof.
  intros (W & D & C1 & C2) Nl.
  assert (Nl' : need_load (nd (try_compact e s)) = false).
  { rewrite <- Nl. apply (fr_try_compact need_load); frs. }
  split; [|exact Nl']. split; [apply try_compact_wf; exact W|].
  revert Nl'. unfold try_compact. cbv zeta.
  destruct (pid (sr (nd s)) =? 0) eqn:E0.
  - assert (E1 : (pid (sr (nd s)) =? 1) = false) by lia. rewrite E1. cbn [negb].
    assert (Same : forall s', pq (nd s') = pq (nd s) -> dump_backed (nd s') /\ cut_ok (nd s')).
    { intros s' P. exact (Qr_keeps (nd s) (nd s') (Qr_pq _ _ P) D (conj C1 C2)). }
    destruct (_ && _ && _); [intros _; apply Same; reflexivity|].
    destruct (get_entries (log (nd s)) (Some (applied (nd s) - 1)) (Some 2) None) as [|e0 [|e1 tl]] eqn:Eg;
      [intros _; apply Same; reflexivity|intros _; apply Same; reflexivity|].
    destruct (opt_eqb _ _); [intros _; apply Same; reflexivity|].
    intros Nl'. rewrite !nd_upd in *. cbn [need_load set] in Nl'.
    destruct (ProofsSnapshotBase.get_entries_two_split _ _ _ _ _ Eg) as (_ & pre & post & El & _ & _).
    destruct (get_entries_first _ _ _ _ _ _ (proj1 W) Eg) as [Hi0 _].
    split.
    + intros sn Hs Hv. cbn [sr stored log set] in Hs |- *. injection Hs as <-. cbn [s_e0 s_e1].
      exists pre, post. exact El.
    + split; cbn [need_load sr pid cur_id stored applied set].
      * rewrite Nl. discriminate.
      * intros _. split; [lia|]. intros sn Hs. injection Hs as <-. cbn [s_e0]. lia.
  - cbn [negb]. intros _. destruct (pid (sr (nd s)) =? 1) eqn:E1.
    + apply N.eqb_eq in E1. destruct (C2 E1) as [C3 C4].
      rewrite !nd_upd. split.
      * intros sn Hs Hv. cbn [sr stored self_ver log set] in Hs, Hv |- *.
        destruct (D sn Hs Hv) as (pre & post & E).
        apply (backed_delete_to _ _ pre _ _ post (proj1 W) E); [apply C4; exact Hs|]. eapply stored_wf; eauto.
      * split; cbn [need_load sr pid set]; [reflexivity|discriminate].
    + rewrite !nd_upd. split.
      * intros sn Hs Hv. cbn [sr stored self_ver log set] in Hs, Hv |- *. exact (D sn Hs Hv).
      * split; cbn [need_load sr pid set]; [reflexivity|discriminate].
Qed.

(* ------------------------------------------------------------------------------------------ *)
(* a tick                                                                                     *)

Definition PS (s : S) : Prop := dinv (nd s) /\ need_load (nd s) = false.

Lemma PS_Qr s s' : Qr (nd s) (nd s') -> nkeeps0 (nd s) (nd s') -> PS s -> PS s'.
Proof.
  intros Q [Kw _] ((W & D & C) & Nl). destruct (Qr_keeps _ _ Q D C) as [D' C'].
  destruct Q as (K & _). apply kk_inv in K as (_ & K2 & _).
  split; [split; [apply Kw; exact W|split; assumption]|congruence].
Qed.

Lemma nk_los (f : S -> S) s : los (nd (f s)) = los (nd s) -> nkeeps0 (nd s) (nd (f s)).
Proof. intros H. apply nkeeps_0, nkeeps_los. exact H. Qed.

Theorem dump_backed_on_tick e n : dinv n -> dinv (nd (on_tick e n)).
Proof.
  intros I0. unfold on_tick. rewrite andthen_eq.
  destruct (db_tick_load e (start_S e n) I0) as [I1 N1].
  set (s1 := tick_load e (start_S e n)) in *. clearbody s1.
  destruct (ok s1); [|exact I1].
  assert (P1 : PS s1) by (split; assumption).
  match goal with |- dinv (nd ?X) => enough (PX : PS X) by exact (proj1 PX) end.
  revert P1. generalize s1. clear.
  intros s P. apply andthen_inv; [| |exact P].
  { apply PS_Qr; [apply Qr_tick_timer|apply nk_los; apply (fr_tick_timer los); reflexivity]. }
  clear s P. intros s P. apply andthen_inv; [| |exact P].
  { apply PS_Qr; [apply Qr_tick_election|apply nkeeps_0, nkeeps_tick_election]. }
  clear s P. intros s P. apply andthen_inv; [| |exact P].
  { apply PS_Qr; [apply Qr_tick_leader|apply nk_los; apply (fr_tick_leader los); reflexivity]. }
  clear s P. intros s P.
  assert (PA : PS (fst (apply_entries e s))).
  { revert P. apply PS_Qr; [apply Qr_apply_entries|apply nkeeps_0, nkeeps_apply_entries]. }
  destruct (apply_entries e s) as [s2 need]. cbn [fst] in PA. destruct (ok s2); [|exact PA].
  revert PA. generalize s2. clear. intros s P. apply andthen_inv; [| |exact P].
  { apply PS_Qr; [apply Qr_tick_send|apply nkeeps_0, nkeeps_tick_send]. }
  clear s P. intros s P. apply andthen_inv; [| |exact P].
  { apply PS_Qr; [apply Qr_tick_ready|apply nk_los; apply (fr_tick_ready los); reflexivity]. }
  clear s P. intros s P. apply andthen_inv; [| |exact P].
  { apply PS_Qr; [apply Qr_check_commands|apply nkeeps_0, nkeeps_check_commands]. }
  clear s P. intros s [I Nl]. exact (db_try_compact e s I Nl).
Qed.

(* ------------------------------------------------------------------------------------------ *)
(* messages                                                                                   *)

(* (1) the entries of an append_entries message agree in term with the journal at every index up to
   the position of the dump *)
Definition agrees (n : node) (es : list entry) : Prop :=
  forall sn, stored (sr n) = Some (Good sn) -> s_ver sn <= self_ver n ->
  forall en en', In en es -> In en' (log n) -> eidx en' = eidx en -> eidx en <= eidx (s_e1 sn) ->
  eterm en' = eterm en.

(* (2) a journal entry that entry_eqb cannot tell from an entry of the snapshot is that entry
   (entry_eqb ignores the packed size cpk) *)
Definition snap_exact (n : node) (sn : snapshot) : Prop :=
  forall a, In a (log n) ->
    (entry_eqb a (s_e0 sn) = true -> a = s_e0 sn) /\ (entry_eqb a (s_e1 sn) = true -> a = s_e1 sn).

Definition msg_keeps (n : node) (m : msg) : Prop :=
  match m with
  | AE _ _ _ es => agrees n es
  | AEPiece _ _ _ _ _ _ en => agrees n [en]
  | AESnap _ _ p => forall sn, recv_snapshot p (sr n) = Some (Good sn) -> snap_exact n sn
  | _ => True
  end.

Definition aq (n : node) := (self_ver n, need_load n, applied n, sr n).

Lemma aq_keeps a b : aq b = aq a -> cut_ok a -> cut_ok b.
Proof. unfold aq, cut_ok. intros H. injection H as _ H2 H3 H4. rewrite H2, H3, H4. auto. Qed.

Lemma matched_prefix_stop a b x xs y ys :
  skipn (matched_prefix a b) a = x :: xs -> skipn (matched_prefix a b) b = y :: ys -> eterm x <> eterm y.
Proof.
  revert b. induction a as [|a0 a IH]; intros b; cbn; [discriminate|].
  destruct b as [|b0 b]; cbn; [intros _ H; discriminate|].
  destruct (eterm a0 =? eterm b0) eqn:E; cbn.
  - apply IH.
  - intros H1 H2. injection H1 as <- _. injection H2 as <- _. now apply N.eqb_neq.
Qed.

Lemma In_skipn {A} k (l : list A) x : In x (skipn k l) -> In x l.
Proof. intros H. rewrite <- (firstn_skipn k l). apply in_or_app. now right. Qed.

Lemma skipn_lt {A} k (l : list A) x r : skipn k l = x :: r -> (k < length l)%nat.
Proof.
  intros H. destruct (Nat.lt_ge_cases k (length l)) as [Hk|Hk]; [exact Hk|].
  rewrite (skipn_all2 l Hk) in H. discriminate.
Qed.

Lemma db_ae_regular e from c prev new s :
  node_wf (nd s) ->
  (forall p t, prev = Some (p, t) -> consec new /\ (new <> [] -> first_idx new = p + 1)) ->
  agrees (nd s) new -> dump_backed (nd s) ->
  dump_backed (nd (ae_regular e from c prev new s)) /\ aq (nd (ae_regular e from c prev new s)) = aq (nd s).
Proof.
  intros W Hm Ag D.
  assert (F : aq (nd (ae_regular e from c prev new s)) = aq (nd s)) by (apply (fr_ae_regular aq); frs).
  split; [|exact F]. unfold aq in F. injection F as F1 _ _ F4.
  intros sn Hs Hv. rewrite F4 in Hs. rewrite F1 in Hv.
  destruct (D sn Hs Hv) as (pre & post & E).
  pose proof (stored_wf _ _ W Hs) as Hw. destruct W as (Hc & _ & _).
  destruct (ae_regular_cases e from c prev new s) as [Hn|(pidx & pterm & p0 & ptail & -> & Hg & Ht)].
  { rewrite Hn. exists pre, post. exact E. }
  rewrite (ae_regular_log e from c pidx pterm new s p0 ptail Hg Ht). cbv zeta.
  destruct (Hm pidx pterm eq_refl) as [Hcn Hfn].
  set (m := matched_prefix ptail new).
  destruct (ProofsMembership.truncating (skipn m ptail) (skipn m new)) eqn:Tr.
  2:{ exists pre, (post ++ skipn m new). rewrite E, <- !app_assoc. reflexivity. }
  destruct (skipn m ptail) as [|x xs] eqn:Er; [discriminate Tr|].
  destruct (skipn m new) as [|y ys] eqn:Ea; [discriminate Tr|].
  pose proof (matched_prefix_stop ptail new x xs y ys Er Ea) as Hne.
  assert (HcL : consec (p0 :: ptail)) by (rewrite <- Hg; apply get_entries_consec; exact Hc).
  destruct (get_entries_first _ _ _ _ _ _ Hc Hg) as [Hp0 Hfi].
  assert (Hx : eidx x = pidx + 1 + N.of_nat m).
  { assert (Es : skipn (Datatypes.S m) (p0 :: ptail) = x :: xs) by exact Er.
    pose proof (first_idx_skipn (Datatypes.S m) (p0 :: ptail) HcL (skipn_lt _ _ _ _ Es)) as H.
    rewrite Es in H. cbn [first_idx] in H. lia. }
  assert (Hy : eidx y = pidx + 1 + N.of_nat m).
  { assert (Hnn : new <> []) by (intros ->; destruct m; discriminate Ea).
    pose proof (first_idx_skipn m new Hcn (skipn_lt _ _ _ _ Ea)) as H.
    rewrite Ea in H. cbn [first_idx] in H. rewrite (Hfn Hnn) in H. exact H. }
  assert (Hxl : In x (log (nd s))).
  { assert (Hin : In x (p0 :: ptail)) by (right; apply (In_skipn m); rewrite Er; now left).
    rewrite <- Hg in Hin. apply (get_entries_in _ _ _ _ Hc Hfi) in Hin. apply Hin. }
  assert (Hyn : In y new) by (apply (In_skipn m); rewrite Ea; now left).
  assert (Hlt : eidx (s_e1 sn) < pidx + 1 + N.of_nat m).
  { destruct (N.lt_ge_cases (eidx (s_e1 sn)) (pidx + 1 + N.of_nat m)) as [H|H]; [exact H|].
    exfalso. apply Hne. apply (Ag sn Hs Hv y x); auto; lia. }
  destruct (backed_delete_from (log (nd s)) (pidx + 1 + N.of_nat m) pre _ _ post Hc E Hlt Hw) as (pre' & post' & ->).
  exists pre', (post' ++ y :: ys). rewrite <- !app_assoc. reflexivity.
Qed.

(* what the serializer does with a piece: nothing but its own fields; a complete file is stored only
   when it is a snapshot ahead of the node *)
Lemma set_transmission_cases p s :
  let r := set_transmission p s in
  (self_ver (nd (fst r)), need_load (nd (fst r)), applied (nd (fst r)), log (nd (fst r)),
   pid (sr (nd (fst r))), cur_id (sr (nd (fst r)))) =
  (self_ver (nd s), need_load (nd s), applied (nd s), log (nd s), pid (sr (nd s)), cur_id (sr (nd s))) /\
  ((snd r = false /\ stored (sr (nd (fst r))) = stored (sr (nd s))) \/
   (snd r = true /\ exists sn, recv_snapshot p (sr (nd s)) = Some (Good sn) /\
                    stored (sr (nd (fst r))) = Some (Good sn) /\ applied (nd s) < eidx (s_e1 sn))).
Proof.
  cbv zeta. unfold set_transmission, recv_snapshot. destruct p as [|b off len first last]; cbn [fst snd]; [auto|].
  destruct (if first then Some [] else incoming (sr (nd s))) as [ps|]; cbn [fst snd]; [|auto].
  destruct last; cbn [fst snd]; [|rewrite nd_upd; cbn; auto].
  destruct (snap_ahead (assemble_snap (ps ++ [(b, off, len)])) (applied (nd s))) eqn:Ah; cbn [fst snd];
    rewrite nd_upd; cbn [self_ver need_load applied log sr pid cur_id stored set]; [|auto].
  split; [reflexivity|]. right. split; [reflexivity|].
  unfold snap_ahead in Ah. destruct (assemble_snap (ps ++ [(b, off, len)])) as [sn|k]; [|discriminate].
  exists sn. repeat split. apply negb_true_iff, N.leb_gt in Ah. exact Ah.
Qed.

Lemma db_aesnap e from t c p s :
  node_wf (nd s) -> match p with SData b _ _ _ _ => blob_wf b | SNone => True end ->
  (forall sn, recv_snapshot p (sr (nd s)) = Some (Good sn) -> snap_exact (nd s) sn) ->
  dump_backed (nd s) -> cut_ok (nd s) ->
  dump_backed (nd (ae_body_of e from (AESnap t c p) c s)) /\ cut_ok (nd (ae_body_of e from (AESnap t c p) c s)).
Proof.
  intros W Hp Hx D C. cbn [ae_body_of].
  pose proof (set_transmission_cases p s) as T. cbv zeta in T.
  pose proof (set_transmission_keeps p s Hp) as [Kw _].
  destruct (set_transmission p s) as [s2 done]. cbn [fst snd] in T, Kw. specialize (Kw W).
  destruct T as [F T]. injection F as F1 F2 F3 F4 F5 F6.
  assert (AC : forall v s0, Qr (nd s0) (nd (ae_commit c v s0))).
  { intros v s0. apply Qr_pq. apply (fr_ae_commit pq); frs. }
  destruct T as [[-> Hst]|[-> (sn & Hr & Hst & Hah)]].
  - (* nothing stored *)
    cbn [andb]. apply (Qr_keeps (nd s)); auto.
    eapply Qr_trans; [|apply AC]. unfold Qr, kk. rewrite F1, F2, F3, F4, F5, F6, Hst.
    split; [reflexivity|]. split; [lia|]. exists []. now rewrite app_nil_r.
  - (* a snapshot ahead of the node is stored *)
    cbn [andb]. specialize (Hx sn Hr).
    pose proof (stored_wf _ _ Kw Hst) as Hw.
    assert (Hcut : pid (sr (nd s2)) = 1 -> cur_id (sr (nd s2)) <= eidx (s_e0 sn)).
    { rewrite F5, F6. intros P1. destruct C as [_ C2]. destruct (C2 P1) as [C3 _]. lia. }
    destruct (load_dump_ok s2) eqn:Eok.
    + unfold load_dump_ok in Eok. rewrite Hst in Eok. apply andb_prop in Eok as [_ Ev]. apply N.leb_le in Ev.
      destruct (ProofsApplyLog.load_dump_installs e true s2 sn Hst Ev ltac:(intros _; lia))
        as (_ & _ & La & Lv & _ & _ & Ll). cbv zeta in La, Lv, Ll.
      assert (Lz : (need_load (nd (load_dump e true s2)), sr (nd (load_dump e true s2))) = (need_load (nd s2), sr (nd s2)))
        by (apply (fr_load_dump (fun n => (need_load n, sr n))); frs).
      injection Lz as Ln Lz.
      set (s3 := load_dump e true s2) in *.
      apply (Qr_keeps (nd s3)); [eapply Qr_trans; [|apply AC]; rewrite nd_send_next_idx; apply Qr_refl| |].
      * intros sn' Hs' Hv'. rewrite Lz, Hst in Hs'. injection Hs' as <-.
        destruct Ll as [->|(a & b & r & -> & Ea & Eb & (pre & Epre))]; [exists [], []; reflexivity|].
        assert (Ia : In a (log (nd s))) by (rewrite <- F4, Epre; apply in_or_app; right; now left).
        assert (Ib : In b (log (nd s))) by (rewrite <- F4, Epre; apply in_or_app; right; right; now left).
        rewrite (proj1 (Hx a Ia) Ea), (proj2 (Hx b Ib) Eb). exists [], r. reflexivity.
      * destruct C as [C1 C2]. split; [rewrite Ln, Lz, F2, F5; exact C1|].
        rewrite Lz. intros P1. split; [specialize (Hcut P1); lia|].
        intros sn' Hs'. rewrite Hst in Hs'. injection Hs' as <-. exact (Hcut P1).
    + (* a newer code version: stored, not loaded *)
      assert (Hb : snap_behind s2 = false).
      { unfold snap_behind. rewrite Hst. apply N.leb_gt. lia. }
      rewrite (ProofsSnapshot.load_dump_fail e true s2 Eok Hb).
      unfold load_dump_ok in Eok. rewrite Hst in Eok.
      assert (Ev : self_ver (nd s2) < s_ver sn).
      { destruct (eidx (s_e1 sn) <=? applied (nd s2)) eqn:E1; [lia|]. cbn in Eok. lia. }
      apply (Qr_keeps (nd s2)); [apply AC| |].
      * intros sn' Hs' Hv'. rewrite Hst in Hs'. injection Hs' as <-. lia.
      * destruct C as [C1 C2]. split; [rewrite F2, F5; exact C1|].
        intros P1. split; [rewrite F6, F3; rewrite F5 in P1; apply (C2 P1)|].
        intros sn' Hs'. rewrite Hst in Hs'. injection Hs' as <-. exact (Hcut P1).
Qed.

Lemma pieces_ok_eqb en off ps p : pieces_ok en off ps = true -> In p ps -> entry_eqb en (fst (fst p)) = true.
Proof.
  revert off. induction ps as [|[[e' o] l] r IH]; intros off H Hin; [contradiction|].
  cbn in H. apply andb_prop in H as [H Hr]. apply andb_prop in H as [He _].
  destruct Hin as [<-|Hin]; [exact He|eauto].
Qed.

Lemma assemble_entry_eqb ps en off len en' :
  assemble_entry (ps ++ [(en, off, len)]) = Some en' -> entry_eqb en' en = true.
Proof.
  unfold assemble_entry. destruct (ps ++ [(en, off, len)]) as [|[[e0 o0] l0] r] eqn:E; [discriminate|].
  destruct (pieces_ok e0 0 _) eqn:Eo; [|discriminate]. intros H. inversion H; subst en'.
  apply (pieces_ok_eqb e0 0 _ (en, off, len) Eo). rewrite <- E. apply in_or_app. right. now left.
Qed.

Lemma agrees_pq a b es : pq b = pq a -> agrees a es -> agrees b es.
Proof. unfold pq, agrees. intros H. injection H as -> _ _ -> ->. auto. Qed.

Lemma agrees_eqb n en en' : entry_eqb en' en = true -> agrees n [en] -> agrees n [en'].
Proof.
  intros He A sn Hs Hv x x' [<-|[]] Hx' Hi Hle.
  apply ProofsSnapshotBase.entry_eqb_true in He as (_ & Hi' & Ht').
  rewrite Ht'. apply (A sn Hs Hv en x'); auto; [now left|lia|lia].
Qed.

Lemma snap_exact_pq a b sn : pq b = pq a -> snap_exact a sn -> snap_exact b sn.
Proof. unfold pq, snap_exact. intros H. injection H as _ _ _ -> _. auto. Qed.

Lemma dinv_pq a b : pq b = pq a -> dump_backed a /\ cut_ok a -> dump_backed b /\ cut_ok b.
Proof. intros H [D C]. exact (Qr_keeps a b (Qr_pq _ _ H) D C). Qed.

Lemma db_ae_body_of e from m c s :
  msg_wf m -> msg_keeps (nd s) m -> dinv (nd s) ->
  dump_backed (nd (ae_body_of e from m c s)) /\ cut_ok (nd (ae_body_of e from m c s)).
Proof.
  intros Hm Hk (W & D & C). unfold ae_body_of.
  destruct m as [| |t c0 prev es|t c0 prev lab off len en|t c0 p| | |]; try (split; assumption).
  - (* AE *)
    destruct (db_ae_regular e from c prev es s W) as [D' F]; auto.
    { intros p0 t0 ->. exact Hm. }
    split; [exact D'|exact (aq_keeps _ _ F C)].
  - (* AEPiece *)
    destruct (lab =? 1); [rewrite nd_send_next_idx; apply (dinv_pq (nd s)); [reflexivity|split; assumption]|].
    destruct (recv_t (nd s)) eqn:Er; [split; assumption|].
    destruct (lab =? 2); [rewrite nd_send_next_idx; apply (dinv_pq (nd s)); [reflexivity|split; assumption]|].
    cbn [nd upd].
    destruct (assemble_entry _) as [en'|] eqn:Ea; [|apply (dinv_pq (nd s)); [reflexivity|split; assumption]].
    cbn [recv_t set] in Ea.
    set (s1 := upd (fun n => n <| recv_t := [] |>) (upd (fun n => n <| recv_t := recv_t n ++ [(en, off, len)] |>) s)).
    assert (P1 : pq (nd s1) = pq (nd s)) by reflexivity.
    assert (W1 : node_wf (nd s1)) by (apply (nkeeps_los (nd s)); [reflexivity|exact W]).
    destruct (dinv_pq _ _ P1 (conj D C)) as [D1 C1].
    destruct (db_ae_regular e from c prev [en'] s1 W1) as [D' F]; auto.
    { intros p0 t0 ->. cbn in Hm. pose proof (assemble_entry_idx _ _ _ _ _ Ea) as Hi.
      split; [cbn; auto|]. intros _. cbn. lia. }
    { apply (agrees_pq (nd s)); [exact P1|]. apply (agrees_eqb _ en); [|exact Hk].
      exact (assemble_entry_eqb _ _ _ _ _ Ea). }
    split; [exact D'|exact (aq_keeps _ _ F C1)].
  - (* AESnap *)
    apply (db_aesnap e from t c p s W); auto; destruct p; exact Hm.
Qed.

(* every message handler, given deliveries that are well formed and satisfy (1), (2) *)
Theorem dump_backed_on_message_partial e from m n :
  msg_wf m -> msg_keeps n m -> dinv n -> dinv (nd (on_message e from m n)).
Proof.
  intros Hm Hk (W & D & C).
  split; [apply (on_message_keeps e from m n Hm); exact W|].
  assert (AEc : forall t c, (match m with AE _ _ _ _ | AEPiece _ _ _ _ _ _ _ | AESnap _ _ _ => True | _ => False end) ->
            dump_backed (nd (on_append_entries e from m t c (start_S e n))) /\
            cut_ok (nd (on_append_entries e from m t c (start_S e n)))).
  { intros t c Hae. rewrite on_append_entries_eq. destruct (_ <? _); [split; assumption|].
    set (s0 := ae_pre e from t c (start_S e n)).
    assert (P0 : pq (nd s0) = pq n) by (apply (fr_ae_pre pq); frs).
    assert (W0 : node_wf (nd s0)).
    { apply (nkeeps_los n); [|exact W]. apply (fr_ae_pre los); reflexivity. }
    destruct (dinv_pq _ _ P0 (conj D C)) as [D0 C0].
    apply db_ae_body_of; [exact Hm| |split; [exact W0|split; assumption]].
    destruct m; try exact I; cbn [msg_keeps] in Hk |- *.
    - apply (agrees_pq n); assumption.
    - apply (agrees_pq n); assumption.
    - intros sn Hr. apply (snap_exact_pq n); [exact P0|]. apply Hk.
      unfold pq in P0. injection P0 as _ _ _ _ P5. rewrite <- P5. exact Hr. }
  destruct m as [t lli llt|t|t c prev es|t c prev lab off len en|t c p|cm req|req okr a b|t nx r su].
  - apply (dinv_pq n); [|split; assumption]. apply (fr_msg_request_vote pq); frs.
  - unfold on_message. destruct (_ && _); [|split; assumption].
    set (s1 := upd (fun n0 => n0 <| votes := votes n0 + 1 |>) (start_S e n)).
    assert (P1 : pq (nd s1) = pq n) by reflexivity.
    destruct (majority _ _); [|apply (dinv_pq n); [exact P1|split; assumption]].
    apply (Qr_keeps n); auto. eapply Qr_trans; [apply Qr_pq; exact P1|apply Qr_become_leader].
  - apply AEc. exact I.
  - apply AEc. exact I.
  - apply AEc. exact I.
  - apply (dinv_pq n); [|split; assumption]. apply (fr_msg_apply_cmd pq); frs.
  - apply (dinv_pq n); [|split; assumption]. apply (fr_msg_apply_resp pq); frs.
  - apply (dinv_pq n); [|split; assumption]. apply (fr_msg_next_idx pq); frs.
Qed.

(* ------------------------------------------------------------------------------------------ *)
(* API calls, connection events                                                               *)

Lemma dinv_los_pq a b : los b = los a -> pq b = pq a -> dinv a -> dinv b.
Proof.
  intros Hl Hp (W & D & C). split; [apply (nkeeps_los a b Hl); exact W|]. exact (dinv_pq a b Hp (conj D C)).
Qed.

Theorem dump_backed_api (api : env -> cmd -> cbref -> node -> S) e c cbk n :
  api = api_submit \/ api = api_admin \/ api = api_setver -> dinv n -> dinv (nd (api e c cbk n)).
Proof.
  assert (SB : dinv n -> dinv (nd (submit e c cbk (start_S e n)))).
  { apply dinv_los_pq; [apply (fr_submit los); reflexivity|apply (fr_submit pq); reflexivity]. }
  intros [->|[->| ->]] I.
  - exact (SB I).
  - unfold api_admin. destruct (dyn (cf e)); [exact (SB I)|exact I].
  - unfold api_setver. destruct (_ || _); [exact I|exact (SB I)].
Qed.

Theorem dump_backed_compact n : dinv n -> dinv (api_compact n).
Proof. apply dinv_los_pq; reflexivity. Qed.

Theorem dump_backed_connected x n : dinv n -> dinv (on_connected x n).
Proof.
  apply dinv_los_pq; unfold on_connected; destruct (_ <=? _); reflexivity.
Qed.

Theorem dump_backed_disconnected x n : dinv n -> dinv (on_disconnected x n).
Proof.
  intros (W & D & C). split; [apply (on_disconnected_keeps x n); exact W|].
  apply (Qr_keeps n); auto. unfold on_disconnected, Qr, kk.
  destruct (_ <=? _); cbn [self_ver need_load sr stored pid cur_id applied log set];
    (split; [reflexivity|]; split; [lia|]; exists []; now rewrite app_nil_r).
Qed.

(* every handler invocation; deliveries are well formed and satisfy (1), (2) with respect to the
   receiving node *)
Theorem dump_backed_step_partial c n n' :
  nstep c (fun m => msg_wf m /\ msg_keeps n m) n n' -> dinv n -> dinv n'.
Proof.
  intros H I. destruct H as [e _|e from m _ [Hm Hk]|b|b|e cm cbk _|e cm cbk _|e cm cbk _|].
  - now apply dump_backed_on_tick.
  - now apply dump_backed_on_message_partial.
  - now apply dump_backed_connected.
  - now apply dump_backed_disconnected.
  - apply (dump_backed_api api_submit); auto.
  - apply (dump_backed_api api_admin); auto.
  - apply (dump_backed_api api_setver); auto.
  - now apply dump_backed_compact.
Qed.

(* the full statement (no condition on the deliveries beyond well-formedness): not provable
   node-locally for the reasons (1), (2) in the header *)
Definition dump_backed_step_full : Prop :=
  forall c n n', nstep c msg_wf n n' -> dinv n -> dinv n'.

(* ------------------------------------------------------------------------------------------ *)
(* kill + restart from the node's own files                                                   *)

(* (3) no dump on disk that the old code version could not load and the new one can *)
Definition ver_stable (n : node) (sv : N) : Prop :=
  forall sn, stored (sr n) = Some (Good sn) -> s_ver sn <= sv -> s_ver sn <= self_ver n.

Lemma ver_stable_same n : ver_stable n (self_ver n).
Proof. intros sn _ H. exact H. Qed.

Theorem dump_backed_restart_partial c e me oth sv n d :
  disk_of c n = Some d -> ssorted oth -> ver_stable n sv -> dinv n ->
  dinv (init_from_disk e me oth sv d).
Proof.
  intros Hd Ho Hv (W & D & _).
  destruct (ProofsDisk.disk_has_log c n d Hd) as (Hl & _ & Hdump & _).
  destruct (init_node_wf e me oth sv Ho) as [(W1 & W2 & W3) _].
  assert (Hsr : sr_wf ((sr (init_node e me oth sv)) <| stored := d_dump d |>)).
  { cbn. repeat split; intros; try discriminate; try contradiction.
    rewrite Hdump in H. destruct (file_dump c); [|discriminate]. destruct W as (_ & _ & (S1 & _)). now apply S1. }
  assert (Back : forall sn, d_dump d = Some (Good sn) -> s_ver sn <= sv ->
                   exists pre post, log n = pre ++ s_e0 sn :: s_e1 sn :: post).
  { intros sn Hs Hsv. rewrite Hdump in Hs. destruct (file_dump c); [|discriminate].
    apply (D sn Hs). now apply Hv. }
  unfold init_from_disk. rewrite Hl. destruct (log n) as [|e0 l] eqn:El.
  - split; [split; [exact W1|split; [exact W2|exact Hsr]]|]. split.
    + intros sn Hs Hsv. cbn [sr stored self_ver set] in Hs, Hsv.
      destruct (Back sn Hs Hsv) as (pre & post & E). destruct pre; discriminate E.
    + split; [reflexivity|intros H; discriminate H].
  - split; [split; [destruct W as (Wc & _); rewrite El in Wc; exact Wc|split; [exact W2|exact Hsr]]|]. split.
    + intros sn Hs Hsv. cbn [sr stored self_ver log set] in Hs, Hsv |- *. exact (Back sn Hs Hsv).
    + split; [reflexivity|intros H; discriminate H].
Qed.

(* restart and first tick: the node has rebuilt its state from files that back each other *)
Corollary dump_backed_restart_tick_partial c e0 e me oth sv n d :
  disk_of c n = Some d -> ssorted oth -> ver_stable n sv -> dinv n ->
  dinv (nd (on_tick e (init_from_disk e0 me oth sv d))).
Proof. intros Hd Ho Hv I. apply dump_backed_on_tick. eapply dump_backed_restart_partial; eauto. Qed.

(* the hypothesis of C06_first_tick_rebuilds about the files of a killed node *)
Corollary disk_journal_holds_dump c n d sn :
  disk_of c n = Some d -> dump_backed n -> d_dump d = Some (Good sn) -> s_ver sn <= self_ver n ->
  exists pre post, d_log d = pre ++ s_e0 sn :: s_e1 sn :: post.
Proof.
  intros Hd D Hs Hv. destruct (ProofsDisk.disk_has_log c n d Hd) as (Hl & _ & Hdump & _).
  rewrite Hl. rewrite Hdump in Hs. destruct (file_dump c); [|discriminate]. exact (D sn Hs Hv).
Qed.

(* a fresh node *)
Lemma dinv_init e me oth sv : ssorted oth -> dinv (init_node e me oth sv).
Proof.
  intros Ho. split; [apply (init_node_wf e me oth sv Ho)|]. split.
  - intros sn Hs. discriminate Hs.
  - split; [reflexivity|intros H; discriminate H].
Qed.

(* ------------------------------------------------------------------------------------------ *)
(* non-vacuity: a node of a trace with a stored dump and a pending serializer job              *)

(* one voter, snapshots in memory: elected, two commands applied, a compaction started (9 events
   of ProofsDisk.pre18): journal [2; 3; 4], dump at (3, 4), job pending with cut index 3 *)
Definition cx9 : conf := mkConf 10 40 20 100 1000 4 true false true 2 1000 10 5 false true.
Definition ex9_node : node :=
  Eval vm_compute in
    match run_trace cx9 ginit (firstn 9 ProofsDisk.pre18) with
    | Some g => match aget 1 (nodes g) with Some n => n | None => init_node (mk_env cx9 0 0 0 [] 0) None [] 0 end
    | None => init_node (mk_env cx9 0 0 0 [] 0) None [] 0
    end.

Example ex9_is_reached :
  exists g, run_trace cx9 ginit (firstn 9 ProofsDisk.pre18) = Some g /\ aget 1 (nodes g) = Some ex9_node.
Proof. eexists. split; vm_compute; reflexivity. Qed.

Example dump_backed_example :
  let n := ex9_node in
  let e := mk_env cx9 110 0 30 [] 9 in
  (exists sn, stored (sr n) = Some (Good sn) /\ s_ver sn <= self_ver n /\ eidx (s_e0 sn) = 3 /\ eidx (s_e1 sn) = 4) /\
  pid (sr n) = 1 /\ cur_id (sr n) = 3 /\ map eidx (log n) = [2; 3; 4] /\
  dinv n /\
  (* the next tick finishes the job and trims the journal to the dump's entries *)
  map eidx (log (nd (on_tick e n))) = [3; 4] /\ pid (sr (nd (on_tick e n))) = 0 /\
  stored (sr (nd (on_tick e n))) = stored (sr n) /\ dinv (nd (on_tick e n)).
Proof.
  cbv zeta.
  assert (I : dinv ex9_node).
  { split; [|split].
    - split; [vm_compute; repeat split; reflexivity|]. split; [exact I|].
      split; [|split].
      + intros b H. vm_compute in H. injection H as <-. vm_compute. repeat split; reflexivity.
      + intros x b off H. destruct H.
      + intros ps H. discriminate H.
    - intros sn Hs _. vm_compute in Hs. injection Hs as <-.
      exists (firstn 1 (log ex9_node)), []. vm_compute. reflexivity.
    - split; [intros H; discriminate H|]. intros _. split; [vm_compute; discriminate|].
      intros sn Hs. vm_compute in Hs. injection Hs as <-. vm_compute. discriminate. }
  split; [eexists; split; [vm_compute; reflexivity|]; vm_compute; repeat split; discriminate|].
  split; [reflexivity|]. split; [reflexivity|]. split; [reflexivity|]. split; [exact I|].
  split; [vm_compute; reflexivity|]. split; [vm_compute; reflexivity|]. split; [vm_compute; reflexivity|].
  apply dump_backed_on_tick. exact I.
Qed.

(* (2) holds whenever the snapshot's two entries are entries of the (well-formed) journal itself *)
Lemma snap_exact_own n sn :
  consec (log n) -> In (s_e0 sn) (log n) -> In (s_e1 sn) (log n) -> snap_exact n sn.
Proof.
  intros Hc H0 H1 a Ha.
  split; intros He; apply ProofsSnapshotBase.entry_eqb_true in He as (_ & Hi & _); eapply consec_inj; eauto.
Qed.

(* the hypotheses of the message theorem: node 3 of ProofsCommitExamples.g3 (journal [1; 2; 3],
   applied 1, no dump) receives a complete snapshot at (1, 2) whose entries it holds: the dump is
   stored and installed, the journal keeps [1; 2; 3] *)
Example dump_backed_message_example :
  let n := ProofsCommitExamples.node_of 3 ProofsCommitExamples.g3 in
  let e := mk_env ProofsCommitExamples.xc 300 0 DEFAULT_BUDGET [] 0 in
  let m := AESnap 1 3 (SData (Good ProofsCommitExamples.held_snap) 0 50 true true) in
  dinv n /\ msg_wf m /\ msg_keeps n m /\
  stored (sr (nd (on_message e 1 m n))) = Some (Good ProofsCommitExamples.held_snap) /\
  map eidx (log (nd (on_message e 1 m n))) = [1; 2; 3] /\ applied (nd (on_message e 1 m n)) = 2 /\
  dinv (nd (on_message e 1 m n)).
Proof.
  cbv zeta.
  destruct (ProofsCommitExamples.log_wf_example 3 ltac:(cbn; auto)) as (W & _ & _). cbv zeta in W.
  assert (I : dinv (ProofsCommitExamples.node_of 3 ProofsCommitExamples.g3)).
  { split; [exact W|]. split.
    - intros sn Hs. vm_compute in Hs. discriminate Hs.
    - split; [intros _; vm_compute; reflexivity|intros H; vm_compute in H; discriminate H]. }
  assert (Mw : msg_wf (AESnap 1 3 (SData (Good ProofsCommitExamples.held_snap) 0 50 true true))).
  { vm_compute. repeat split; reflexivity. }
  assert (Mk : msg_keeps (ProofsCommitExamples.node_of 3 ProofsCommitExamples.g3)
                 (AESnap 1 3 (SData (Good ProofsCommitExamples.held_snap) 0 50 true true))).
  { intros sn Hr. vm_compute in Hr. injection Hr as <-.
    apply snap_exact_own; [exact (proj1 W)|vm_compute; auto|vm_compute; auto]. }
  split; [exact I|]. split; [exact Mw|]. split; [exact Mk|].
  split; [vm_compute; reflexivity|]. split; [vm_compute; reflexivity|]. split; [vm_compute; reflexivity|].
  apply dump_backed_on_message_partial; assumption.
Qed.

(* ------------------------------------------------------------------------------------------ *)
(* the stored dump is never a corrupt file (the positive statement of the former
   C09_stored_snapshot_never_corrupt_refuted): the serializer stores a received file only when it is
   a snapshot, every other writer of [stored] writes a snapshot of the node's own state           *)

Definition nc (n : node) : Prop := forall l, stored (sr n) <> Some (Corrupt l).

Definition SG (a b : node) : Prop :=
  stored (sr b) = stored (sr a) \/ exists sn, stored (sr b) = Some (Good sn).

Lemma SG_refl a : SG a a.
Proof. now left. Qed.

Lemma SG_trans a b c : SG a b -> SG b c -> SG a c.
Proof. intros [H1|H1] [H2|H2]; [left; congruence|now right|right; rewrite H2; exact H1|now right]. Qed.

Lemma SG_nc a b : SG a b -> nc a -> nc b.
Proof. intros [H|(sn & H)] N l; rewrite H; [apply N|discriminate]. Qed.

Lemma SG_Qr a b : Qr a b -> SG a b.
Proof. intros (K & _). apply kk_inv in K as (_ & _ & K3 & _). now left. Qed.

Lemma SG_sr a b : sr b = sr a -> SG a b.
Proof. intros H. left. now rewrite H. Qed.

Lemma SG_try_compact e s : SG (nd s) (nd (try_compact e s)).
Proof.
  unfold try_compact. cbv zeta.
  destruct (pid (sr (nd s)) =? 0) eqn:E0.
  - assert (E1 : (pid (sr (nd s)) =? 1) = false) by lia. rewrite E1. cbn [negb].
    destruct (_ && _ && _); [apply SG_refl|].
    destruct (get_entries (log (nd s)) (Some (applied (nd s) - 1)) (Some 2) None) as [|e0 [|e1 tl]];
      [apply SG_sr; reflexivity|apply SG_sr; reflexivity|].
    destruct (opt_eqb _ _); [apply SG_sr; reflexivity|].
    right. rewrite !nd_upd. cbn [sr stored set]. eexists. reflexivity.
  - cbn [negb]. destruct (pid (sr (nd s)) =? 1); rewrite !nd_upd; left; reflexivity.
Qed.

Lemma SG_on_tick e n : SG n (nd (on_tick e n)).
Proof.
  apply (on_tick_rel SG); [exact SG_refl|exact SG_trans| | | | | | | | |].
  - intros s. apply SG_sr. apply (fr_tick_load (fun n => sr n)); frs.
  - intros s. apply SG_Qr, Qr_tick_timer.
  - intros s. apply SG_Qr, Qr_tick_election.
  - intros s. apply SG_Qr, Qr_tick_leader.
  - intros s. apply SG_Qr, Qr_apply_entries.
  - intros need s. apply SG_Qr, Qr_tick_send.
  - intros s. apply SG_Qr, Qr_tick_ready.
  - intros s. apply SG_Qr, Qr_check_commands.
  - intros s. apply SG_try_compact.
Qed.

Lemma SG_ae_body_of e from m c s : SG (nd s) (nd (ae_body_of e from m c s)).
Proof.
  assert (AR : forall prev new s0, SG (nd s0) (nd (ae_regular e from c prev new s0))).
  { intros prev new s0. apply SG_sr. apply (fr_ae_regular (fun n => sr n)); frs. }
  unfold ae_body_of. destruct m as [| |t c0 prev es|t c0 prev lab off len en|t c0 p| | |]; try apply SG_refl.
  - apply AR.
  - destruct (lab =? 1); [rewrite nd_send_next_idx; apply SG_sr; reflexivity|].
    destruct (recv_t (nd s)); [apply SG_refl|].
    destruct (lab =? 2); [rewrite nd_send_next_idx; apply SG_sr; reflexivity|].
    destruct (assemble_entry _); [|apply SG_sr; reflexivity].
    eapply SG_trans; [|apply AR]. apply SG_sr. reflexivity.
  - pose proof (set_transmission_cases p s) as T. cbv zeta in T.
    destruct (set_transmission p s) as [s2 done]. cbn [fst snd] in T. destruct T as [_ T].
    assert (G2 : SG (nd s) (nd s2)).
    { destruct T as [[_ H]|[_ (sn & _ & H & _)]]; [now left|right; eauto]. }
    assert (LD : sr (nd (load_dump e true s2)) = sr (nd s2)) by (apply (fr_load_dump (fun n => sr n)); frs).
    assert (AC : forall v s0, sr (nd (ae_commit c v s0)) = sr (nd s0)).
    { intros v s0. apply (fr_ae_commit (fun n => sr n)); frs. }
    eapply SG_trans; [exact G2|]. apply SG_sr.
    destruct (done && load_dump_ok s2); [|destruct done]; rewrite AC, ?nd_send_next_idx, ?LD; reflexivity.
Qed.

Lemma SG_on_message e from m n : SG n (nd (on_message e from m n)).
Proof.
  assert (AEc : forall t c, SG n (nd (on_append_entries e from m t c (start_S e n)))).
  { intros t c. rewrite on_append_entries_eq. destruct (_ <? _); [apply SG_refl|].
    eapply SG_trans; [|apply SG_ae_body_of]. apply SG_sr. apply (fr_ae_pre (fun n => sr n)); frs. }
  destruct m as [t lli llt|t|t c prev es|t c prev lab off len en|t c p|cm req|req okr a b|t nx r su];
    try apply AEc.
  - apply SG_sr. apply (fr_msg_request_vote (fun n => sr n)); frs.
  - unfold on_message. destruct (_ && _); [|apply SG_refl].
    destruct (majority _ _); [|apply SG_sr; reflexivity].
    eapply SG_trans; [|apply SG_Qr, Qr_become_leader]. apply SG_sr. reflexivity.
  - apply SG_sr. apply (fr_msg_apply_cmd (fun n => sr n)); frs.
  - apply SG_sr. apply (fr_msg_apply_resp (fun n => sr n)); frs.
  - apply SG_sr. apply (fr_msg_next_idx (fun n => sr n)); frs.
Qed.

Theorem nstep_nc c MP n n' : nstep c MP n n' -> nc n -> nc n'.
Proof.
  intros H. apply SG_nc. destruct H.
  - apply SG_on_tick.
  - apply SG_on_message.
  - apply SG_sr. unfold on_connected. destruct (_ <=? _); reflexivity.
  - left. unfold on_disconnected. destruct (_ <=? _); reflexivity.
  - apply SG_sr. apply (fr_submit (fun n => sr n)); frs.
  - apply SG_sr. unfold api_admin. destruct (dyn (cf e)); [apply (fr_submit (fun n => sr n)); frs|reflexivity].
  - apply SG_sr. unfold api_setver. destruct (_ || _); [reflexivity|apply (fr_submit (fun n => sr n)); frs].
  - apply SG_sr. reflexivity.
Qed.

(* all nodes and all files of all reachable global states *)
Definition gnc (g : gstate) : Prop :=
  (forall p, In p (nodes g) -> nc (snd p)) /\
  (forall p, In p (disks g) -> forall l, d_dump (snd p) <> Some (Corrupt l)).

Lemma gnc_finish x s g : gnc g -> nc (nd s) -> gnc (finish x s g).
Proof.
  intros [G1 G2] Hs. split.
  - rewrite nodes_finish. intros p Hp. apply In_aset in Hp. destruct Hp as [->|Hp]; [exact Hs|now apply G1].
  - rewrite ProofsCommitGlobal.disks_finish. exact G2.
Qed.

Lemma gnc_node g x n : gnc g -> aget x (nodes g) = Some n -> nc n.
Proof. intros [G1 _] H. exact (G1 _ (aget_In _ _ _ H)). Qed.

Lemma nc_init e me oth sv : nc (init_node e me oth sv).
Proof. intros l H. discriminate H. Qed.

Theorem gstep_gnc c g ev g' r : gnc g -> gstep c g ev = Some (g', r) -> gnc g'.
Proof.
  intros G Hs. destruct ev; unfold gstep in Hs; cbv zeta in Hs.
  - destruct (aget n (nodes g)) as [x|] eqn:E; [|discriminate]. inversion Hs; subst; clear Hs.
    apply gnc_finish; [exact G|]. apply (SG_nc x); [apply SG_on_tick|eapply gnc_node; eauto].
  - destruct (aget b (nodes g)) as [x|] eqn:E; [|discriminate].
    destruct (chan_get a b g) as [|m rest] eqn:Ec; [discriminate|]. inversion Hs; subst; clear Hs.
    apply gnc_finish; [exact G|]. apply (SG_nc x); [apply SG_on_message|eapply gnc_node; eauto].
  - destruct (aget a (nodes g)) as [x|] eqn:E; [|discriminate]. inversion Hs; subst; clear Hs.
    apply (gnc_finish a (idle_S (on_disconnected b x)) g G).
    apply (nstep_nc c (fun _ => True) x); [apply ns_disc|eapply gnc_node; eauto].
  - inversion Hs; subst; clear Hs. exact G.
  - destruct (aget a (nodes g)) as [x|] eqn:E; [|discriminate]. inversion Hs; subst; clear Hs.
    apply gnc_finish.
    + destruct (match aget b (nodes g) with Some y => negb (smem a (tconn y)) | None => true end); exact G.
    + apply (nstep_nc c (fun _ => True) x); [apply ns_conn|eapply gnc_node; eauto].
  - destruct (aget n (nodes g)) as [x|] eqn:E; [|discriminate]. inversion Hs; subst; clear Hs.
    apply gnc_finish; [exact G|].
    apply (nstep_nc c (fun _ => True) x); [now apply ns_submit|eapply gnc_node; eauto].
  - destruct (aget n (nodes g)) as [x|] eqn:E; [|discriminate]. inversion Hs; subst; clear Hs.
    apply gnc_finish; [exact G|].
    apply (nstep_nc c (fun _ => True) x); [now apply ns_admin|eapply gnc_node; eauto].
  - destruct (aget n (nodes g)) as [x|] eqn:E; [|discriminate]. inversion Hs; subst; clear Hs.
    apply gnc_finish; [exact G|].
    apply (nstep_nc c (fun _ => True) x); [now apply ns_setver|eapply gnc_node; eauto].
  - destruct (aget n (nodes g)) as [x|] eqn:E; [|discriminate]. inversion Hs; subst; clear Hs.
    apply (gnc_finish n (idle_S (api_compact x)) g G).
    apply (nstep_nc c (fun _ => True) x); [apply ns_compact|eapply gnc_node; eauto].
  - (* kill *)
    inversion Hs; subst; clear Hs. destruct G as (G1 & G2). split.
    + cbn. intros p Hp. apply In_adel in Hp.
      destruct (aget n (nodes g)) as [x|]; [destruct (disk_of c x)|]; cbn in Hp; now apply G1.
    + cbn. destruct (aget n (nodes g)) as [x|] eqn:E; [|exact G2].
      pose proof (G1 _ (aget_In _ _ _ E)) as Nx. cbn in Nx.
      destruct (disk_of c x) as [d|] eqn:Ed; cbn.
      * intros p Hp. apply In_aset in Hp. destruct Hp as [->|Hp]; [|now apply G2]. cbn [snd].
        destruct (ProofsDisk.disk_has_log c x d Ed) as (_ & _ & Hd & _). rewrite Hd.
        destruct (file_dump c); [exact Nx|discriminate].
      * intros p Hp. apply In_adel in Hp. now apply G2.
  - (* restart *)
    inversion Hs; subst; clear Hs. destruct G as (G1 & G2). split; [|exact G2].
    cbn. intros p Hp. apply In_aset in Hp. destruct Hp as [->|Hp]; [|now apply G1]. cbn [snd].
    destruct (aget n (disks g)) as [d|] eqn:Ed; [|destruct (RO_BASE <=? n); apply nc_init].
    destruct (RO_BASE <=? n); [apply nc_init|].
    pose proof (G2 _ (aget_In _ _ _ Ed)) as Nd. cbn in Nd.
    unfold init_from_disk. destruct (d_log d); exact Nd.
Qed.

(* C09_stored_snapshot_never_corrupt_full of ProofsSnapshotExamples, now a theorem *)
Theorem stored_snapshot_never_corrupt :
  forall c evs g x n, run_trace c ginit evs = Some g -> aget x (nodes g) = Some n ->
  forall l, stored (sr n) <> Some (Corrupt l).
Proof.
  intros c evs.
  assert (H0 : gnc ginit) by (split; intros p []).
  revert H0. generalize ginit.
  induction evs as [|ev evs IH]; intros g0 H0 g x n Hr Hn; cbn in Hr.
  - inversion Hr; subst. exact (gnc_node g x n H0 Hn).
  - destruct (gstep c g0 ev) as [[g1 r]|] eqn:Es; [|discriminate].
    apply (IH g1 (gstep_gnc c g0 ev g1 r H0 Es) g x n Hr Hn).
Qed.

(* ------------------------------------------------------------------------------------------ *)
(* (3) cannot be dropped: node 3 of g3 (code version 0, journal [1; 2; 3]) receives a complete snapshot
   of code version 1 at (5, 6).  It is ahead of the node, so the serializer stores it; the node cannot
   load it and keeps its state.  [dinv] still holds (the dump is not one the node would load).  After a
   kill and a restart with code version 1 the dump on disk is one the node loads, and the journal does
   not hold its entries: the first tick replaces the journal [1; 2; 3] by [5; 6]. *)
Definition newer_snap : snapshot :=
  mkSnap [] 1 (mkEntry (noop_cmd 10) 6 1) (mkEntry (noop_cmd 10) 5 1) [1; 2; 3] 50.
Definition xj : conf := mkConf 10 100 50 300 1000 1000 true true true 100 1000 100 10 true true.

Example ver_stable_needed :
  let n := ProofsCommitExamples.node_of 3 ProofsCommitExamples.g3 in
  let m := AESnap 1 3 (SData (Good newer_snap) 0 50 true true) in
  let n' := nd (on_message (mk_env ProofsCommitExamples.xc 300 0 DEFAULT_BUDGET [] 0) 1 m n) in
  msg_wf m /\ msg_keeps n m /\ dinv n' /\
  stored (sr n') = Some (Good newer_snap) /\ self_ver n' = 0 /\ map eidx (log n') = [1; 2; 3] /\
  exists d, disk_of xj n' = Some d /\ ~ ver_stable n' 1 /\
    let r := init_from_disk (mk_env xj 400 0 DEFAULT_BUDGET [] 0) (Some 3) [1; 2] 1 d in
    ~ dump_backed r /\ map eidx (log r) = [1; 2; 3] /\
    map eidx (log (nd (on_tick (mk_env xj 410 0 30 [] 0) r))) = [5; 6].
Proof.
  cbv zeta.
  destruct dump_backed_message_example as (I & _). cbv zeta in I.
  assert (Mw : msg_wf (AESnap 1 3 (SData (Good newer_snap) 0 50 true true))).
  { vm_compute. repeat split; reflexivity. }
  assert (Mk : msg_keeps (ProofsCommitExamples.node_of 3 ProofsCommitExamples.g3)
                 (AESnap 1 3 (SData (Good newer_snap) 0 50 true true))).
  { intros sn Hr. vm_compute in Hr. injection Hr as <-. intros a Ha. vm_compute in Ha.
    destruct Ha as [<-|[<-|[<-|[]]]]; split; intros H; vm_compute in H; discriminate H. }
  split; [exact Mw|]. split; [exact Mk|].
  split; [apply dump_backed_on_message_partial; assumption|].
  split; [vm_compute; reflexivity|]. split; [vm_compute; reflexivity|]. split; [vm_compute; reflexivity|].
  eexists. split; [vm_compute; reflexivity|]. split.
  - intros H. specialize (H newer_snap ltac:(vm_compute; reflexivity) ltac:(vm_compute; discriminate)).
    vm_compute in H. apply H. reflexivity.
  - split; [|split; vm_compute; reflexivity].
    intros H. destruct (H newer_snap ltac:(vm_compute; reflexivity) ltac:(vm_compute; discriminate))
      as (pre & post & E).
    apply (f_equal (map eidx)) in E. rewrite map_app in E. vm_compute in E.
    destruct pre as [|p0 [|p1 [|p2 pre]]]; cbn in E; try discriminate E.
    destruct pre; discriminate E.
Qed.
