(* Tier C7, part 2: a message delivered to a read-only node keeps the learner relation [Lr].
   The handlers are those of a voter (append_entries, pieces of a big entry, snapshot pieces); the
   abstract state does not move: every AppendEntries / snapshot piece has its image in [net s]
   ([Rmsg]), so what the node accepts is a window of a leader log. *)
From Coq Require Import ZArith NArith List Bool Lia ZifyBool Arith PeanoNat.
From RecordUpdate Require Import RecordSet.
From PSO Require Import Raft.Types Raft.Node Raft.Net Raft.ProofsCommitBase Raft.ProofsSnapshotBase.
From PSO Require Import Raft.ProofsApplyBase Raft.ProofsApplyLog.
From PSO Require Raft.ProofsApplyReplay.
From PSO Require Import Raft.ProofsElectionBase Raft.RefineAbs Raft.RefineK Raft.RefineSpecA Raft.RefineTickA
  Raft.RefineMsgB.
From PSO Require Import Raft.Refine5Abs Raft.Refine5SpecA Raft.Refine5Sim Raft.Refine5TickA Raft.Refine5TickB
  Raft.Refine5MsgB Raft.Refine5MsgC.
From PSO Require Raft.Refine5Main.
From PSO Require Import Raft.Refine6Base Raft.Refine6Snaps Raft.Refine7ROBase.
From PSO Require Abstract.Model Abstract.Lib Abstract.Kstep Abstract.Safety1_WF.
Import ListNotations.
Import RecordSetNotations.
Open Scope N_scope.
#[local] Arguments firstn : simpl nomatch.
#[local] Arguments skipn : simpl nomatch.

(* the term carried by an append_entries-type message *)
Definition mterm (m : msg) : N :=
  match m with
  | AE t _ _ _ => t | AEPiece t _ _ _ _ _ _ => t | AESnap t _ _ => t
  | _ => 0
  end.


(* small facts about record updates, proved once (inside long proofs the kernel is slow on them) *)
Definition kq (x : node) := (log x, term x, applied x, commit x, replay_idx x, pid (sr x), cur_id (sr x)).

Lemma kq_eq x y : kq x = kq y ->
  log x = log y /\ term x = term y /\ applied x = applied y /\ commit x = commit y /\
  replay_idx x = replay_idx y /\ pid (sr x) = pid (sr y) /\ cur_id (sr x) = cur_id (sr y).
Proof. unfold kq. intros H. repeat split; congruence. Qed.

Lemma fv_kq x y : fv x = fv y -> kq x = kq y.
Proof. intros H. fvinj H. unfold kq. congruence. Qed.

Lemma fv_set_recv n v : fv (n <| recv_t := v |>) = fv n.
Proof. reflexivity. Qed.
Lemma recv_set_recv n v : recv_t (n <| recv_t := v |>) = v.
Proof. reflexivity. Qed.
Lemma nd_raise cd s : nd (raise cd s) = nd s.
Proof. reflexivity. Qed.
Lemma kq_commit_meta n : kq (set_commit_meta n) = kq n.
Proof. reflexivity. Qed.
Lemma nd_ae_commit_none cm s : nd (ae_commit cm None s) = set_commit_meta (nd s).
Proof. reflexivity. Qed.
Lemma kq_sr_incoming n v : kq (n <| sr := (sr n) <| incoming := v |> |>) = kq n.
Proof. reflexivity. Qed.
Lemma kq_sr_store n b : kq (n <| sr := (sr n) <| stored := b |> <| incoming := None |> |>) = kq n.
Proof. reflexivity. Qed.
Lemma stored_sr_store n b : stored (sr (n <| sr := (sr n) <| stored := b |> <| incoming := None |> |>)) = b.
Proof. reflexivity. Qed.

Section Msg7.
Variable c : conf.
Variable V : list nid.
Hypothesis NDV : NoDup V.
Hypothesis VRO : forall v, In v V -> v < RO_BASE.
Hypothesis VNE : V <> [].
Hypothesis Hb1 : 1 < batch c.
Hypothesis Hdyn : dyn c = false.
Variable e : env.
Hypothesis Hc : cf e = c.
Set Default Proof Using "All".

Notation V' := (absV V).
Notation Rmsg := (Rmsg c).
Notation kstar := (kstar V).
Notation pk := (pk c).
Notation snap_valid := (snap_valid c).
Notation blob_valid := (blob_valid c).
Notation legit := (legit c).
Notation e00 := (e00 c).
Notation HI := (HI c).
Notation SH := (SH c).
Notation glog := (glog c).
Notation Lg := (Lg c).
Notation Lr := (Lr c).
Notation QS := (QS c).
Notation recv_ok := (recv_ok c).
Notation Lg_full := (Lg_full c V NDV VRO VNE Hb1).
Notation learn_accept := (learn_accept c V NDV VRO VNE Hb1).
Notation glog_wf1 := (glog_wf1 c V NDV VRO VNE Hb1).
Notation glog_e0 := (glog_e0 c V NDV VRO VNE Hb1).
Notation valid_two := (valid_two c V NDV VRO VNE Hb1).
Notation absL_merge := (absL_merge c V NDV VRO VNE Hb1).
Notation Lg_term := (Lg_term c V NDV VRO VNE Hb1).
Notation Lg_eq := (Lg_eq c V NDV VRO VNE Hb1).
Notation Lh_eq := (Lh_eq c V NDV VRO VNE Hb1).
Notation QS_le := (QS_le c V NDV VRO VNE Hb1).
Notation HI_eq := (HI_eq c V NDV VRO VNE Hb1).
Notation lq_eq := (lq_eq c V NDV VRO VNE Hb1).
Notation ghost_accept_cases := (ghost_accept_cases c V NDV VRO VNE Hb1).

Lemma Hd : dyn (cf e) = false.
Proof. rewrite Hc. exact Hdyn. Qed.

(* a step that keeps log, applied, commit, replay index and the serializer's phase *)
Lemma keepL x y s :
  log y = log x -> term x <= term y -> applied y = applied x -> commit y = commit x ->
  replay_idx y = replay_idx x -> pid (sr y) = pid (sr x) -> cur_id (sr y) = cur_id (sr x) ->
  Lg x s -> Lh x -> Lg y s /\ Lh y.
Proof.
  intros E1 E2 E3 E4 E5 E6 E7 G H. split.
  - eapply Lg_term; eauto.
  - eapply Lh_eq; eauto.
Qed.

(* the new commit index of an accepting follower is committed in the merged log *)
Lemma commit_case s Tb (l : list M.entry) (co cm k : N) :
  S7.committed_upto s Tb l (n2 co) -> S7.committed_upto s Tb l (Nat.min (n2 cm) (n2 k)) ->
  S7.committed_upto s Tb l (n2 (if co <? cm then N.max co (N.min cm k) else co)).
Proof.
  intros A B. destruct (co <? cm); [|exact A].
  destruct (N.le_gt_cases (N.min cm k) co) as [H|H].
  - replace (N.max co (N.min cm k)) with co by lia. exact A.
  - replace (n2 (N.max co (N.min cm k))) with (Nat.min (n2 cm) (n2 k)) by lia. exact B.
Qed.

(* ---- a regular AppendEntries (also: the entry reassembled from pieces) ---- *)
Lemma lg_ae_regular a b (S1 : Node.S) x s t cm prev es :
  KS.kreachable V' s -> Lg x s -> Lh x -> term x <= t ->
  fv (nd S1) = fv (x <| term := if term x <? t then t else term x |>
                     <| voted := if term x <? t then None else voted x |>
                     <| role := FOLLOWER |>) ->
  Rmsg a b (AE t cm prev es) s ->
  let x' := nd (ae_regular e a cm prev es S1) in
  Lg x' s /\ Lh x' /\ term x' = t.
Proof.
  intros HR G H Et F1 Hm. cbv zeta.
  destruct (Lg_full x s HR G) as (full & GL & W & Sx & CA & CC).
  pose proof Hd as Hd0.
  fvinj_n F1 P.
  assert (Ht1 : term (nd S1) = t).
  { rewrite Pterm. destruct (term x <? t) eqn:E; [reflexivity|]. apply N.ltb_ge in E. lia. }
  assert (Hfail : forall S', nd S' = nd S1 -> Lg (nd S') s /\ Lh (nd S') /\ term (nd S') = t).
  { intros S' En. rewrite En.
    destruct (keepL x (nd S1) s) as [A B]; auto; try (rewrite Psr; reflexivity). lia. }
  destruct prev as [[pidx pterm]|].
  2:{ destruct (ae_regular_fail_none e a cm es S1) as [En _]. apply Hfail; auto. }
  destruct Hm as (Ha & Hne & Hsm & Hin).
  destruct (N.ltb_spec pidx (first_idx (log x))) as [Hlt|Hge0].
  { destruct (ae_regular_fail_empty e a cm pidx pterm es S1) as [En _];
      [rewrite Plog; apply suffix_lt; exact Hlt|].
    apply Hfail; auto. }
  pose proof (suffix_first_pos _ _ W Sx) as Hfp.
  assert (Hp1 : 1 <= pidx) by lia.
  assert (Hge : get_entries (log (nd S1)) (Some pidx) None None = skipn (n2 pidx - 1) full).
  { rewrite Plog, (suffix_ge _ _ W Sx) by exact Hge0. apply ge_from; auto. }
  destruct (nth_error full (n2 pidx - 1)) as [p0|] eqn:Ep.
  2:{ destruct (ae_regular_fail_empty e a cm pidx pterm es S1) as [En _].
      - rewrite Hge. apply skipn_all2. apply nth_error_None. exact Ep.
      - apply Hfail; auto. }
  rewrite (skipn_nth_cons _ _ _ Ep) in Hge. replace (Sn (n2 pidx - 1)) with (n2 pidx) in Hge by lia.
  destruct (N.eq_dec (eterm p0) pterm) as [Hpt|Hpt].
  2:{ destruct (ae_regular_fail_term e a cm pidx pterm es S1 p0 _ Hge Hpt) as [En _]. apply Hfail; auto. }
  (* the accepting branch *)
  destruct (ae_regular_succ e Hd0 a cm pidx pterm es S1 p0 _ Hge Hpt) as [F2 _]. cbv zeta in F2.
  set (S2 := ae_regular e a cm (Some (pidx, pterm)) es S1) in *. clearbody S2.
  assert (Hlen : (n2 pidx <= length full)%nat).
  { assert (n2 pidx - 1 < length full)%nat by (apply nth_error_Some; congruence). lia. }
  destruct (suffix_merge (log x) full pidx es W Sx Hge0 Hlen) as [Sx' Hfi']. cbv zeta in Sx', Hfi'.
  set (ptail := skipn (n2 pidx) full) in *.
  set (m := matched_prefix ptail es) in *.
  set (nx := match last_entry es with Some le => eidx le + 1 | None => pidx + 1 end) in *.
  set (tr := truncating (skipn m ptail) (skipn m es)) in *.
  rewrite Plog in F2.
  set (lg := (if tr then delete_from (log x) (pidx + 1 + N.of_nat m) else log x) ++ skipn m es) in *.
  fvinj_n F2 Q.
  assert (Hnx : nx - 1 = pidx + N.of_nat (length es)).
  { apply (es_last_idx4 c V NDV VRO VNE Hb1 Hdyn e Hc s t a pidx pterm es cm); auto. }
  destruct (learn_accept s full t a pidx pterm es cm p0 (n2 (term x)) HR GL Hin Hp1 Ep Hpt ltac:(lia))
    as (A1 & A2 & A3 & A4 & A5 & A6). cbv zeta in A1, A2, A3, A4, A5, A6.
  fold ptail in A1, A2, A3, A4, A5, A6.
  set (full' := firstn (n2 pidx) full ++ l1merge ptail es) in *.
  assert (Ht2 : term (nd S2) = t) by (rewrite Qterm; exact Ht1).
  split; [|split; [|exact Ht2]].
  - exists full'. split; [exact A1|]. split; [rewrite Qlog; exact Sx'|].
    rewrite Ht2, Qapplied, Papplied, Qcommit, Pcommit. split; [apply A4; exact CA|].
    apply commit_case; [apply A4; exact CC|].
    replace (n2 (nx - 1)) with (n2 pidx + length es)%nat by lia. exact A6.
  - destruct H as [B1 B2 B3]. constructor; rewrite ?Qlog, ?Qapplied, ?Qreplay, ?Qsr, ?Papplied, ?Preplay, ?Psr; auto.
    + destruct tr; lia.
    + rewrite Hfi'. exact B2.
Qed.

(* ------------------------------------------------------------------------------------------ *)
(* the install of a snapshot: Refine5MsgC.install_outcome with a ghost log                     *)

Lemma install_outcome_g s (x0 : node) (S1b : Node.S) sn0 Wl full t a cm :
  KS.kreachable V' s -> glog s full -> wf1 full -> suffix_of (log x0) full ->
  first_idx (log x0) <= applied x0 -> replay_idx x0 <= applied x0 ->
  log (nd S1b) = log x0 -> replay_idx (nd S1b) = replay_idx x0 -> applied (nd S1b) = applied x0 ->
  stored (sr (nd S1b)) = Some (Good sn0) -> load_dump_ok S1b = true -> (exists Tb, snap_valid s Tb sn0) ->
  In (M.AppendEntries (n2 t) (n2 a) 1 0 (absL pk Wl) (n2 cm)) (M.net s) ->
  (length Wl + 1 = n2 (eidx (s_e1 sn0)))%nat ->
  nth_error (e00 :: Wl) (n2 (eidx (s_e1 sn0)) - 1) = Some (s_e1 sn0) ->
  nth_error (e00 :: Wl) (n2 (eidx (s_e1 sn0)) - 2) = Some (s_e0 sn0) ->
  exists lg rp, suffix_of lg (firstn 1 full ++ l1merge (skipn 1 full) Wl) /\
            first_idx lg <= eidx (s_e1 sn0) /\
            rp <= replay_idx x0 /\ (rp <= eidx (s_e1 sn0)) /\
            fv (nd (load_dump e true S1b)) =
              fv ((nd S1b) <| log := lg |> <| replay_idx := rp |> <| applied := eidx (s_e1 sn0) |>).
Proof.
  intros HR GL W Sx Hfi0 Hri0 El Er Ea Est Eok (Tb & Hv0) Hin HlenW N1 N0.
  pose proof Hd as Hd0.
  set (K := eidx (s_e1 sn0)) in *. set (k := n2 K) in *.
  destruct Hv0 as (Sm0 & Sm1 & Hk2 & _). fold K in Hk2. fold k in Hk2.
  pose proof (img_wf1 c V NDV VRO VNE Hb1 Hdyn e Hc s _ _ _ Wl _ HR Hin) as WW.
  assert (Ei0 : eidx (s_e0 sn0) = N.of_nat k - 1) by (destruct WW as [_ H]; rewrite (H _ _ N0); lia).
  pose proof (glog_e0 s full HR GL) as Hf0.
  assert (Hp0 : nth_error (absL pk full) 0 = Some M.e0).
  { rewrite absL_nth, Hf0. cbn [option_map]. rewrite (absE_e00 c). reflexivity. }
  destruct GL as [_ GC].
  destruct (ghost_accept_cases s (absL pk full) (n2 t) (n2 a) 0 0 (absL pk Wl) (n2 cm) M.e0
              HR GC Hin Hp0 eq_refl) as (M1 & HkL & HLk0 & Hcases). cbv zeta in HkL, HLk0, Hcases.
  rewrite absL_length in HkL, HLk0, Hcases.
  replace (1 + length Wl)%nat with k in HkL, HLk0, Hcases by lia.
  set (Lt := M.llog s (n2 t)) in *.
  assert (HLk : firstn k Lt = absL pk (e00 :: Wl)).
  { rewrite HLk0. destruct full as [|f0 fr]; [discriminate Hf0|]. cbn in Hf0. injection Hf0 as ->. reflexivity. }
  set (full' := firstn 1 full ++ l1merge (skipn 1 full) Wl).
  assert (Hl' : firstn 1 (absL pk full) ++ M.merge (skipn 1 (absL pk full)) (absL pk Wl) = absL pk full').
  { unfold full'. symmetry. apply absL_merge. }
  rewrite Hl' in Hcases.
  assert (Hfi : first_idx (log x0) <= N.of_nat k - 1).
  { unfold load_dump_ok in Eok. rewrite Est in Eok. apply andb_prop in Eok as [Eok _].
    rewrite Ea in Eok. fold K in Eok. lia. }
  destruct Hcases as [(A1 & A2 & A3)|(A1 & A2)].
  - (* the node holds entries k-1 and k: only the L1 log is trimmed *)
    apply absL_inj in A1.
    rewrite HLk, <- absL_firstn in A3. apply absL_inj in A3.
    assert (N1f : nth_error full (k - 1) = Some (s_e1 sn0)).
    { rewrite <- (ML.nth_error_firstn_lt full k) by lia. rewrite A3. exact N1. }
    assert (N0f : nth_error full (k - 2) = Some (s_e0 sn0)).
    { rewrite <- (ML.nth_error_firstn_lt full k) by lia. rewrite A3. exact N0. }
    destruct (install_keep (log x0) full (s_e0 sn0) (s_e1 sn0) k W Sx Hk2 Hfi N1f N0f)
      as (Hkept & r & Hdel & Sx2).
    assert (Hkept' : kept_of (log (nd S1b)) (s_e0 sn0) (s_e1 sn0) = true) by (rewrite El; exact Hkept).
    assert (Hdel' : delete_to (log (nd S1b)) (eidx (s_e0 sn0)) = s_e0 sn0 :: s_e1 sn0 :: r) by (rewrite El; exact Hdel).
    destruct (load_dump_keep e S1b sn0 r Est Eok Hd0 Hkept' Hdel') as [Ffv _].
    exists (s_e0 sn0 :: s_e1 sn0 :: r), (replay_idx (nd S1b)).
    rewrite A1. split; [exact Sx2|]. split; [|split; [|split]].
    + cbn [first_idx]. rewrite Ei0. lia.
    + rewrite Er. lia.
    + rewrite Er. unfold load_dump_ok in Eok. rewrite Est in Eok. apply andb_prop in Eok as [Eok _].
      rewrite Ea in Eok. fold K in Eok. lia.
    + rewrite Ffv. apply fv_intro; reflexivity.
  - (* otherwise the ghost log becomes the k entries of the message *)
    rewrite HLk in A1. apply absL_inj in A1.
    assert (Hno : forall b, nth_error full (k - 1) = Some b -> eterm b = eterm (s_e1 sn0) -> False).
    { intros b Hb Ht. apply A2.
      assert (Hbl : nth_error (absL pk full) (k - 1) = Some (absE pk b)) by (rewrite absL_nth, Hb; reflexivity).
      assert (HbL : nth_error Lt (k - 1) = Some (absE pk (s_e1 sn0))).
      { rewrite <- (ML.nth_error_firstn_lt Lt k) by lia. rewrite HLk, absL_nth, N1. reflexivity. }
      assert (Hte : M.eterm (absE pk b) = M.eterm (absE pk (s_e1 sn0))) by (cbn; rewrite Ht; reflexivity).
      pose proof (M1 _ _ _ Hbl HbL Hte) as F. replace (Sn (k - 1)) with k in F by lia.
      split; [|exact F].
      assert (k - 1 < length (absL pk full))%nat by (apply nth_error_Some; congruence). lia. }
    destruct (install_replace (log x0) full (s_e0 sn0) (s_e1 sn0) k W Sx Hk2 Hfi Ei0 Hno) as [Hk1 Hk3].
    assert (Hk1' : kept_of (log (nd S1b)) (s_e0 sn0) (s_e1 sn0) = false) by (rewrite El; exact Hk1).
    assert (Hk3' : keep_of (log (nd S1b)) (s_e0 sn0) (s_e1 sn0) = false) by (rewrite El; exact Hk3).
    destruct (load_dump_replace e S1b sn0 Est Eok Hd0 Hk1' Hk3') as [Ffv _].
    exists [s_e0 sn0; s_e1 sn0], (N.min (replay_idx (nd S1b)) K).
    split; [|split; [|split; [|split]]].
    + fold full'. rewrite A1. exists (k - 2)%nat. split.
      * symmetry. apply skipn_last_two; auto. cbn [length]. lia.
      * cbn [length]. lia.
    + cbn [first_idx]. rewrite Ei0. lia.
    + rewrite Er. lia.
    + lia.
    + exact Ffv.
Qed.

(* ---- snapshot pieces ---- *)
(* what the snapshot branch does, as equations (case analysis on a small goal) *)
Lemma aesnap_cases a t cm p (S1 : Node.S) :
  let R := ae_body_of e a (AESnap t cm p) cm S1 in
  kq (nd R) = kq (nd S1) \/
  exists ps bl off len first S1b sn0,
    p = SData bl off len first true /\
    (if first then Some [] else incoming (sr (nd S1))) = Some ps /\
    assemble_snap (ps ++ [(bl, off, len)]) = Good sn0 /\
    stored (sr (nd S1b)) = Some (Good sn0) /\ kq (nd S1b) = kq (nd S1) /\
    load_dump_ok S1b = true /\
    R = ae_commit cm (Some (applied (nd (load_dump e true S1b))))
          (send_next_idx a (Some (applied (nd (load_dump e true S1b)) + 1)) false true (load_dump e true S1b)).
Proof.
  cbv zeta. cbn [ae_body_of]. unfold set_transmission.
  destruct p as [|bl off len first last].
  { left. cbn [andb]. rewrite nd_ae_commit_none. apply kq_commit_meta. }
  destruct (if first then Some [] else incoming (sr (nd S1))) as [ps|] eqn:Einc.
  2:{ left. cbn [andb]. rewrite nd_ae_commit_none. apply kq_commit_meta. }
  destruct last.
  2:{ left. cbn [andb]. rewrite nd_ae_commit_none, kq_commit_meta, nd_upd. apply kq_sr_incoming. }
  destruct (snap_ahead (assemble_snap (ps ++ [(bl, off, len)])) (applied (nd S1))) eqn:Eah.
  2:{ left. cbn [andb]. rewrite nd_ae_commit_none, kq_commit_meta, nd_upd. apply kq_sr_incoming. }
  cbn [andb].
  set (B := assemble_snap (ps ++ [(bl, off, len)])).
  set (S1b := upd (fun n0 => n0 <| sr := (sr n0) <| stored := Some B |> <| incoming := None |> |>) S1).
  assert (Est : stored (sr (nd S1b)) = Some B) by (unfold S1b; rewrite nd_upd; apply stored_sr_store).
  assert (Ekb : kq (nd S1b) = kq (nd S1)) by (unfold S1b; rewrite nd_upd; apply kq_sr_store).
  clearbody S1b.
  destruct (load_dump_ok S1b) eqn:Eok.
  2:{ left. destruct (load_dump_refuse_fv e S1b Eok) as [Ff _].
      rewrite nd_ae_commit_none, kq_commit_meta, (fv_kq _ _ Ff). exact Ekb. }
  destruct B as [sn0|k0] eqn:EB; [|unfold load_dump_ok in Eok; rewrite Est in Eok; discriminate Eok].
  right. exists ps, bl, off, len, first, S1b, sn0. repeat split; auto.
Qed.

Lemma lg_aesnap a b x s t cm p :
  KS.kreachable V' s -> Lg x s -> Lh x -> nsn (QS s (n2 (term x))) x ->
  Rmsg a b (AESnap t cm p) s -> term x <= t ->
  let x' := nd (ae_body_of e a (AESnap t cm p) cm (ae_pre e a t cm (start_S e x))) in
  Lg x' s /\ Lh x' /\ term x' = t.
Proof.
  intros HR G H NS Hm Et. cbv zeta.
  destruct (ae_pre_spec e a t cm (start_S e x)) as [F1 _].
  set (S1 := ae_pre e a t cm (start_S e x)) in *. clearbody S1. cbn [nd start_S] in F1.
  pose proof Hd as Hd0.
  fvinj_n F1 P.
  assert (Ht1 : term (nd S1) = t).
  { rewrite Pterm. destruct (term x <? t) eqn:E; [reflexivity|]. apply N.ltb_ge in E. lia. }
  (* every outcome that keeps the log *)
  assert (Hkeep : forall y, kq y = kq (nd S1) -> Lg y s /\ Lh y /\ term y = t).
  { intros y Ey. destruct (kq_eq _ _ Ey) as (E1 & E2 & E3 & E4 & E5 & E6 & E7).
    assert (Hty : term x <= term y) by lia.
    destruct (keepL x y s) as [A B]; auto; try congruence.
    split; auto. split; auto. congruence. }
  destruct (aesnap_cases a t cm p S1) as [Ek|(ps & bl & off & len & first & S1b & sn0 & -> & Einc & EB & Est & Ekb & Eok & ER)].
  { apply Hkeep. exact Ek. }
  remember (ae_body_of e a (AESnap t cm (SData bl off len first true)) cm S1) as R eqn:ER0. clear ER0.
  destruct Hm as (Ha & Hne & Hs & Hbv & Himg).
  assert (Hinc : forall bl0 o l, In (bl0, o, l) ps -> blob_valid s (n2 t) bl0).
  { intros bl0 o l Hin. destruct first.
    - injection Einc as <-. destruct Hin.
    - rewrite Psr in Einc. destruct NS as (_ & _ & N3). pose proof (N3 ps bl0 o l Einc Hin) as Hq.
      destruct bl0 as [sn|k0]; [|exact I]. destruct Hq as [Hq _]. cbn. eapply snap_valid_le; [|exact Hq]. lia. }
  set (ps' := ps ++ [(bl, off, len)]) in *.
  assert (Hps' : forall bl0 o l, In (bl0, o, l) ps' -> blob_valid s (n2 t) bl0).
  { intros bl0 o l Hin. unfold ps' in Hin. apply in_app_or in Hin as [Hin|[Hin|[]]].
    - eapply Hinc; eauto.
    - injection Hin as <- _ _. exact Hbv. }
  destruct (kq_eq _ _ Ekb) as (Blog & Bterm & Bapplied & Bcommit & Breplay & Bpid & Bcur).
  (* the install *)
  assert (Hv0 : snap_valid s (n2 t) sn0).
  { destruct (assemble_good _ _ EB) as ((o0 & l0 & r0 & Eps) & _).
    apply (Hps' (Good sn0) o0 l0). rewrite Eps. left. reflexivity. }
  assert (Hi0 : install_img c t a cm sn0 s).
  { destruct (assemble_good _ _ EB) as (_ & Hcontig).
    destruct (contig_last sn0 ps bl off len 0 Hcontig) as (sn' & Ebl & Heq).
    specialize (Himg eq_refl sn' Ebl). rewrite Ebl in Hbv.
    apply snap_eqb_true in Heq. destruct Heq as (Q1 & Q0 & _).
    apply entry_eqb_true in Q1. destruct Q1 as (_ & Q1 & _).
    destruct (valid_two s _ _ sn0 sn' HR Hv0 Hbv Q1) as [X1 X0].
    unfold install_img in *. rewrite X1, X0. exact Himg. }
  destruct Hi0 as (Wl & Hin & HlenW & N1 & N0).
  destruct (Lg_full x s HR G) as (full & GL & W & Sx & CA & CC).
  destruct H as [B1 B2 B3].
  destruct (install_outcome_g s x S1b sn0 Wl full t a cm HR GL W Sx B2 B1 (eq_trans Blog Plog)
              (eq_trans Breplay Preplay) (eq_trans Bapplied Papplied) Est Eok
              (ex_intro (fun Tb => snap_valid s Tb sn0) _ Hv0) Hin HlenW N1 N0)
    as (lg & rp & Sx' & Hfi' & Hrp1 & Hrp2 & Ffv).
  set (K := eidx (s_e1 sn0)) in *.
  set (S2 := load_dump e true S1b) in *. clearbody S2.
  fvinj_n Ffv Q.
  rewrite Qapplied in ER.
  destruct (ae_tail2 a cm K S2) as [F3 _]. cbv zeta in F3. rewrite <- ER in F3. clear ER.
  fvinj_n F3 T.
  assert (HapK : applied x < K).
  { unfold load_dump_ok in Eok. rewrite Est in Eok. apply andb_prop in Eok as [Eok _].
    rewrite Bapplied, Papplied in Eok. fold K in Eok. lia. }
  assert (Hp0 : nth_error full (n2 1 - 1) = Some e00) by (apply (glog_e0 s full HR GL)).
  destruct (learn_accept s full t a 1 0 Wl cm e00 (n2 (term x)) HR GL Hin ltac:(lia) Hp0 eq_refl ltac:(lia))
    as (A1 & A2 & A3 & A4 & A5 & A6). cbv zeta in A1, A2, A3, A4, A5, A6.
  change (n2 1) with 1%nat in A1, A2, A3, A4, A5, A6.
  set (full' := firstn 1 full ++ l1merge (skipn 1 full) Wl) in *.
  assert (Ht3 : term (nd R) = t).
  { rewrite Tterm, Qterm, Bterm. exact Ht1. }
  assert (Ek : (1 + length Wl)%nat = n2 K) by lia.
  split; [|split; [|exact Ht3]].
  - exists full'. split; [exact A1|]. split; [rewrite Tlog, Qlog; exact Sx'|].
    rewrite Ht3, Tapplied, Qapplied, Tcommit, Qcommit, Bcommit, Pcommit.
    assert (CK : S7.committed_upto s (n2 t) (absL pk full') (n2 K)).
    { destruct Hv0 as (_ & _ & K2 & T0 & p0 & D & Ht0 & Lp & E1 & E0). fold K in K2, Lp, E1, E0.
      apply (A5 _ (M.llog s T0)); [lia|]. split.
      - assert (n2 K - 1 < length (M.llog s T0))%nat by (apply nth_error_Some; congruence). lia.
      - exists T0, p0. repeat split; auto. }
    split; [exact CK|].
    apply commit_case; [apply A4; exact CC|]. rewrite <- Ek. exact A6.
  - constructor; rewrite ?Tlog, ?Tapplied, ?Treplay, ?Tsr, ?Qlog, ?Qapplied, ?Qreplay, ?Qsr.
    + exact Hrp2.
    + exact Hfi'.
    + rewrite Bpid, Bcur, Psr. intros Hp. specialize (B3 Hp). lia.
Qed.

(* ---- pieces of a large entry ---- *)
Lemma aepiece_cases a t cm prev lab off len en (S1 : Node.S) :
  let R := ae_body_of e a (AEPiece t cm prev lab off len en) cm S1 in
  (fv (nd R) = fv (nd S1) /\
   forall en0 o l, In (en0, o, l) (recv_t (nd R)) -> In (en0, o, l) (recv_t (nd S1)) \/ en0 = en) \/
  (exists en' r0 rs S3,
     recv_t (nd S1) = r0 :: rs /\ assemble_entry ((r0 :: rs) ++ [(en, off, len)]) = Some en' /\
     fv (nd S3) = fv (nd S1) /\ recv_t (nd S3) = [] /\ R = ae_regular e a cm prev [en'] S3).
Proof.
  cbv zeta. cbn [ae_body_of].
  destruct (lab =? 1).
  { left. split.
    - rewrite nd_send_next_idx, nd_upd. apply fv_set_recv.
    - intros en0 o l Hi. rewrite nd_send_next_idx, nd_upd, recv_set_recv in Hi. destruct Hi as [Hi|[]].
      injection Hi as <- _ _. right. reflexivity. }
  destruct (recv_t (nd S1)) as [|r0 rs] eqn:Ert.
  { left. split; [rewrite nd_raise; reflexivity|]. intros en0 o l Hi. rewrite nd_raise, Ert in Hi. destruct Hi. }
  set (S2 := upd (fun n0 => n0 <| recv_t := recv_t n0 ++ [(en, off, len)] |>) S1).
  assert (Er2 : recv_t (nd S2) = (r0 :: rs) ++ [(en, off, len)]).
  { unfold S2. rewrite nd_upd, recv_set_recv, Ert. reflexivity. }
  assert (F2 : fv (nd S2) = fv (nd S1)) by (unfold S2; rewrite nd_upd; apply fv_set_recv).
  clearbody S2.
  assert (Hin2 : forall en0 o l, In (en0, o, l) (recv_t (nd S2)) -> In (en0, o, l) (r0 :: rs) \/ en0 = en).
  { intros en0 o l Hi. rewrite Er2 in Hi.
    apply in_app_or in Hi as [Hi|[Hi|[]]]; [left; exact Hi|]. injection Hi as <- _ _. right. reflexivity. }
  destruct (lab =? 2).
  { left. split; [rewrite nd_send_next_idx; exact F2|].
    intros en0 o l Hi. rewrite nd_send_next_idx in Hi. apply Hin2. exact Hi. }
  destruct (assemble_entry (recv_t (nd S2))) as [en'|] eqn:Eas.
  2:{ left. split; [rewrite nd_raise; exact F2|]. intros en0 o l Hi. rewrite nd_raise in Hi. apply Hin2. exact Hi. }
  right. exists en', r0, rs, (upd (fun n0 => n0 <| recv_t := [] |>) S2).
  split; [reflexivity|]. split; [rewrite <- Er2; exact Eas|].
  split; [rewrite nd_upd, fv_set_recv; exact F2|]. split; [rewrite nd_upd; apply recv_set_recv|reflexivity].
Qed.

Lemma lg_aepiece a b x s t cm prev lab off len en :
  KS.kreachable V' s -> Lg x s -> Lh x -> recv_ok s x ->
  Rmsg a b (AEPiece t cm prev lab off len en) s -> term x <= t ->
  let x' := nd (ae_body_of e a (AEPiece t cm prev lab off len en) cm (ae_pre e a t cm (start_S e x))) in
  Lg x' s /\ Lh x' /\ term x' = t /\ recv_ok s x'.
Proof.
  intros HR G H Hrv Hm Et. cbv zeta.
  destruct (ae_pre_spec e a t cm (start_S e x)) as [F1 _].
  assert (Er : recv_t (nd (ae_pre e a t cm (start_S e x))) = recv_t x).
  { apply (fr_ae_pre0 recv_t); intros; reflexivity. }
  set (S1 := ae_pre e a t cm (start_S e x)) in *. clearbody S1. cbn [nd start_S] in F1.
  destruct Hm as (Ha & Hne & Hs & Hlg & Himg).
  fvinj_n F1 P.
  assert (Ht1 : term (nd S1) = t).
  { rewrite Pterm. destruct (term x <? t) eqn:E; [reflexivity|]. apply N.ltb_ge in E. lia. }
  destruct (aepiece_cases a t cm prev lab off len en S1) as [[F Hin]|(en' & r0 & rs & S3 & Ert & Eas & F3 & Er3 & ER)].
  - remember (ae_body_of e a (AEPiece t cm prev lab off len en) cm S1) as R eqn:ER0. clear ER0.
    fvinj_n F Q.
    assert (Hty : term x <= term (nd R)) by (rewrite Qterm, Ht1; exact Et).
    destruct (keepL x (nd R) s) as [A B]; auto; try congruence; try (rewrite Qsr, Psr; reflexivity).
    split; auto. split; auto. split; [congruence|].
    intros en0 o l Hi. destruct (Hin en0 o l Hi) as [Hi'| ->]; [|exact Hlg].
    rewrite Er in Hi'. eapply Hrv; eauto.
  - rewrite ER.
    assert (Een : en' = en).
    { destruct r0 as [[en1 o1] l1]. unfold assemble_entry in Eas. cbn [app] in Eas.
      destruct (pieces_ok en1 0 ((en1, o1, l1) :: rs ++ [(en, off, len)])) eqn:Ep; [|discriminate Eas].
      injection Eas as <-.
      apply (pieces_ok_last c V NDV VRO VNE Hb1 Hdyn e Hc en1 ((en1, o1, l1) :: rs) en off len 0) in Ep.
      apply (legit_eqb c s en1 en); auto.
      apply (Hrv en1 o1 l1). rewrite <- Er, Ert. left. reflexivity. }
    subst en'.
    assert (F3' : fv (nd S3) = fv (x <| term := if term x <? t then t else term x |>
                           <| voted := if term x <? t then None else voted x |>
                           <| role := FOLLOWER |>)) by (rewrite F3; exact F1).
    assert (Hm' : Rmsg a b (AE t cm prev [en]) s).
    { destruct prev as [[pi pt]|]; cbn.
      - split; auto. split; auto. split; [constructor; [exact I|constructor]|]. apply (Himg pi pt eq_refl).
      - auto. }
    destruct (lg_ae_regular a b S3 x s t cm prev [en] HR G H Et F3' Hm') as (A & B & C).
    split; auto. split; auto. split; auto.
    intros en0 o l Hi.
    assert (E0 : recv_t (nd (ae_regular e a cm prev [en] S3)) = recv_t (nd S3)).
    { apply (fr_ae_regular recv_t); intros; reflexivity. }
    rewrite E0, Er3 in Hi. destruct Hi.
Qed.

(* ---- messages that are not append_entries ---- *)
Lemma lq_other a m x :
  self x = None -> role x = FOLLOWER ->
  match m with AE _ _ _ _ | AEPiece _ _ _ _ _ _ _ | AESnap _ _ _ => False | _ => True end ->
  lq (nd (on_message e a m x)) = lq x.
Proof.
  intros Hs Hr Hm. unfold on_message. cbv zeta.
  destruct m as [t li lt|t|t cm prev es|t cm prev lab off len en|t cm p|cm req|req okr p q|t nx rs su];
    try contradiction; cbn [nd start_S].
  - rewrite Hs. reflexivity.
  - rewrite Hr. reflexivity.
  - unfold submit. destruct (_ <? _); [rewrite nd_call_err|]; reflexivity.
  - destruct (aget req (wait_reply x)) as [cbk|]; [|reflexivity].
    destruct (negb okr); [rewrite nd_fire; reflexivity|].
    match goal with |- context [if ?b then _ else _] => destruct b end; [rewrite nd_fire|]; reflexivity.
  - rewrite Hr. reflexivity.
Qed.

(* ---- every message ---- *)
Lemma core_on_message a b m x s :
  KS.kreachable V' s -> self x = None -> role x = FOLLOWER -> Lr x s -> Rmsg a b m s ->
  let x' := nd (on_message e a m x) in
  Lg x' s /\ Lh x' /\ recv_ok s x' /\ term x <= term x' /\ mterm m <= term x'.
Proof.
  intros HR Hs Hr L Hm. cbv zeta.
  pose proof (Lr_g _ _ _ L) as G. pose proof (Lr_h _ _ _ L) as H. pose proof (Lr_recv _ _ _ L) as Rv.
  pose proof (Lr_sr _ _ _ L) as NS.
  assert (Hother : match m with AE _ _ _ _ | AEPiece _ _ _ _ _ _ _ | AESnap _ _ _ => False | _ => True end ->
            mterm m = 0 ->
            Lg (nd (on_message e a m x)) s /\ Lh (nd (on_message e a m x)) /\ recv_ok s (nd (on_message e a m x)) /\
            term x <= term (nd (on_message e a m x)) /\ mterm m <= term (nd (on_message e a m x))).
  { intros Ho Hz. pose proof (lq_other a m x Hs Hr Ho) as E.
    destruct (lq_eq _ _ E) as (E1 & E2 & E3 & E4 & E5 & E6 & E7 & E8).
    split; [eapply Lg_eq; eauto|]. split; [eapply Lh_eq; eauto; rewrite E7; reflexivity|].
    split; [intros en o l Hi; rewrite E5 in Hi; eauto|]. rewrite E2, Hz. lia. }
  assert (Hold : forall t, t < term x -> mterm m = t -> nd (on_message e a m x) = x ->
            Lg (nd (on_message e a m x)) s /\ Lh (nd (on_message e a m x)) /\ recv_ok s (nd (on_message e a m x)) /\
            term x <= term (nd (on_message e a m x)) /\ mterm m <= term (nd (on_message e a m x))).
  { intros t Hlt Hmt En. rewrite En, Hmt. split; [exact G|]. split; [exact H|]. split; [exact Rv|]. lia. }
  destruct m as [t li lt|t|t cm prev es|t cm prev lab off len en|t cm p|cm req|req okr p q|t nx rs su];
    try (apply Hother; [exact I|reflexivity]).
  - (* AE *)
    destruct (N.ltb_spec t (term x)) as [Hlt|Hge].
    { apply (Hold t Hlt eq_refl). unfold on_message. rewrite on_append_entries_eq. cbn [nd start_S].
      replace (t <? term x) with true by (symmetry; apply N.ltb_lt; exact Hlt). reflexivity. }
    assert (En : nd (on_message e a (AE t cm prev es) x) =
                 nd (ae_regular e a cm prev es (ae_pre e a t cm (start_S e x)))).
    { unfold on_message. rewrite on_append_entries_eq. cbn [nd start_S].
      replace (t <? term x) with false by (symmetry; apply N.ltb_ge; exact Hge). reflexivity. }
    rewrite En.
    destruct (ae_pre_spec e a t cm (start_S e x)) as [F1 _]. cbn [nd start_S] in F1.
    destruct (lg_ae_regular a b _ x s t cm prev es HR G H Hge F1 Hm) as (A1 & A2 & A3).
    split; auto. split; auto. split.
    { intros en o l Hi.
      rewrite (fr_ae_regular recv_t) in Hi by (intros; reflexivity).
      rewrite (fr_ae_pre0 recv_t) in Hi by (intros; reflexivity). eapply Rv; eauto. }
    rewrite A3. cbn [mterm]. lia.
  - (* AEPiece *)
    destruct (N.ltb_spec t (term x)) as [Hlt|Hge].
    { apply (Hold t Hlt eq_refl). unfold on_message. rewrite on_append_entries_eq. cbn [nd start_S].
      replace (t <? term x) with true by (symmetry; apply N.ltb_lt; exact Hlt). reflexivity. }
    assert (En : nd (on_message e a (AEPiece t cm prev lab off len en) x) =
                 nd (ae_body_of e a (AEPiece t cm prev lab off len en) cm (ae_pre e a t cm (start_S e x)))).
    { unfold on_message. rewrite on_append_entries_eq. cbn [nd start_S].
      replace (t <? term x) with false by (symmetry; apply N.ltb_ge; exact Hge). reflexivity. }
    rewrite En.
    destruct (lg_aepiece a b x s t cm prev lab off len en HR G H Rv Hm Hge) as (A1 & A2 & A3 & A4).
    split; auto. split; auto. split; auto. rewrite A3. cbn [mterm]. lia.
  - (* AESnap *)
    destruct (N.ltb_spec t (term x)) as [Hlt|Hge].
    { apply (Hold t Hlt eq_refl). unfold on_message. rewrite on_append_entries_eq. cbn [nd start_S].
      replace (t <? term x) with true by (symmetry; apply N.ltb_lt; exact Hlt). reflexivity. }
    assert (En : nd (on_message e a (AESnap t cm p) x) =
                 nd (ae_body_of e a (AESnap t cm p) cm (ae_pre e a t cm (start_S e x)))).
    { unfold on_message. rewrite on_append_entries_eq. cbn [nd start_S].
      replace (t <? term x) with false by (symmetry; apply N.ltb_ge; exact Hge). reflexivity. }
    pose proof (Refine5Main.recv_msg_frame e a (AESnap t cm p) x I) as Erv.
    rewrite En in *.
    destruct (lg_aesnap a b x s t cm p HR G H NS Hm Hge) as (A1 & A2 & A3).
    split; auto. split; auto. split.
    { intros en o l Hi. rewrite Erv in Hi. eapply Rv; eauto. }
    rewrite A3. cbn [mterm]. lia.
Qed.

Theorem Lr_on_message a b m x s :
  KS.kreachable V' s -> self x = None -> role x = FOLLOWER -> Lr x s -> Rmsg a b m s -> msn (SH s) m ->
  Lr (nd (on_message e a m x)) s.
Proof.
  intros HR Hs Hr L Hm Hsh.
  destruct (core_on_message a b m x s HR Hs Hr L Hm) as (G' & H' & R' & Hle & Hmt). cbv zeta in *.
  set (S' := on_message e a m x) in *.
  assert (N' : SS (QS s (n2 (term (nd S')))) S').
  { apply SS_on_message.
    - eapply srq_impl; [|apply (Lr_sr _ _ _ L)]. intros sn. apply QS_le. lia.
    - destruct m as [| | | |t cm [|[sn|k] off len f l]| | |]; cbn; auto.
      cbn in Hm, Hsh, Hmt. destruct Hm as (_ & _ & _ & Hbv & _). split; [|exact Hsh].
      eapply snap_valid_le; [|exact Hbv]. lia. }
  constructor; auto.
  - apply N'.
  - destruct (ProofsApplyReplay.message_state e a m x) as [U|(t & cm & p & sn & _ & _ & Eh & Ea & _ & _ & _ & Est)].
    + destruct (uview_inv _ _ U) as (E1 & E2 & _). eapply HI_eq; [exact E1|exact E2|apply (Lr_hist _ _ _ L)].
    + eapply (HI_of_SH c V NDV VRO VNE Hb1); [exact Eh|exact Ea|]. destruct N' as [(X & _) _]. apply (X (Good sn) Est).
Qed.

End Msg7.
