(* Tier CM2, part 6 (merge of Refine2MsgA.v and RefineMMsgA.v): message handlers of a voter with dynamic
   membership and compacted logs, first half: RequestVote, ResponseVote, NextIdx, ApplyCmd, ApplyResp. *)
From Coq Require Import ZArith NArith List Bool Lia ZifyBool Arith PeanoNat.
From RecordUpdate Require Import RecordSet.
From PSO Require Import Raft.Types Raft.Node Raft.Net Raft.ProofsCommitBase Raft.ProofsCommit.
From PSO Require Import Raft.ProofsElectionBase Raft.ProofsMembership Raft.ProofsMembershipInv.
From PSO Require Import Raft.RefineMAbs Raft.RefineMEff Raft.RefineMCfg Raft.RefineMK Raft.RefineMSpecA Raft.RefineMTickA.
From PSO Require Import Raft.RefineM2Abs Raft.RefineM2SpecA Raft.RefineM2Sim.
From PSO Require AbstractM.Model AbstractM.Lib AbstractM.Kstep AbstractM.Cfg AbstractM.SafetyAll.
Import ListNotations.
Import RecordSetNotations.
Open Scope N_scope.
#[local] Arguments firstn : simpl nomatch.
#[local] Arguments skipn : simpl nomatch.

Section Msg.
Variable c : conf.
Variable mf : N -> N -> N * N.
Variable V : list nid.
Hypothesis NDV : NoDup V.
Hypothesis SV : ssorted V.
Hypothesis VNE : V <> [].
Hypothesis VRO : forall v, In v V -> v < RO_BASE.
Hypothesis Hb1 : 1 < batch c.
Hypothesis Hdyn : dyn c = true.
Hypothesis Hfd : file_dump c = false.
Variable e : env.
Hypothesis Hc : cf e = c.
Set Default Proof Using "All".

Notation V' := (absV V).
Notation Rn := (Rn c mf V).
Notation Rmsg := (Rmsg c mf V).
Notation Ro := (Ro c mf V).
Notation Hn := (Hn c mf).
Notation ksn := (ksn V).
Notation LS := (LS c mf V).
Notation pk := (pk c).
Notation small := (small c mf).
Notation small_cmd := (small_cmd c mf).
Notation LS_full := (LS_full c mf V NDV SV VNE VRO Hb1).
Notation LS_up := (LS_up c mf V NDV SV VNE VRO Hb1).
Notation LS_ms := (LS_ms c mf V NDV SV VNE VRO Hb1).
Notation LS_not_self := (LS_not_self c mf V NDV SV VNE VRO Hb1).
Notation LS_in_cfg := (LS_in_cfg c mf V NDV SV VNE VRO Hb1).
Notation LS_stutter := (LS_stutter c mf V NDV SV VNE VRO Hb1).
Notation LS_same := (LS_same c mf V NDV SV VNE VRO Hb1).
Notation LS_ksn := (LS_ksn c mf V NDV SV VNE VRO Hb1).
Notation Rn_rv := (Rn_rv c mf V NDV SV VNE VRO Hb1).
Notation Hn_hv := (Hn_hv c mf V NDV SV VNE VRO Hb1).
Notation Rn_intro := (Rn_intro c mf V NDV SV VNE VRO Hb1).
Notation Rn_oth_lt := (Rn_oth_lt c mf V NDV SV VNE VRO Hb1).
Notation sim_become_leader := (sim_become_leader c mf V NDV SV VNE VRO Hb1 e Hc).

(* ---- local copies (prefix ma_, so that they do not shadow the originals) of the output helpers of the
   tick files RefineM2TickA/B, over the new [LS] ---- *)
Definition ma_okout (n : nid) (s : M.state) (o : out) : Prop :=
  match o with Send d m => Rmsg n d m s | _ => True end.
Notation okout := ma_okout.

Lemma ma_grow_Ro (P : out -> Prop) n s (S S' : Node.S) : (forall o, P o -> okout n s o) -> grow P S S' ->
  exists new, outs S' = outs S ++ new /\ Ro n new s.
Proof.
  intros H (new & O & A). exists new. split; auto. intros d m Hin.
  rewrite Forall_forall in A. apply (H _ (A _ Hin)).
Qed.
Notation grow_Ro := ma_grow_Ro.

Lemma ma_nosend_okout n s o : nosend o -> okout n s o.
Proof. destruct o; cbn; auto. intros []. Qed.
Notation nosend_okout := ma_nosend_okout.

Lemma ma_LS_quiet n s (S S' : Node.S) : LS n s S -> fvm (nd S') = fvm (nd S) -> grow nosend S S' -> LS n s S'.
Proof.
  intros L F G. eapply LS_stutter; eauto.
  apply (grow_Ro nosend n s S S'); [intros o; apply nosend_okout|exact G].
Qed.
Notation LS_quiet := ma_LS_quiet.

Definition ma_hv0 (x : node) := (sr x, log x, queue x, replay_idx x, applied x, readonly x, commit x).

Lemma ma_Hn_hv0 x y : ma_hv0 y = ma_hv0 x -> pend y -> Hn x -> Hn y.
Proof.
  intros H P [A1 A2 A3 A4 A5 A6 A7 A8 A9 A10]. unfold ma_hv0 in H. injection H as E1 E2 E3 E4 E5 E6 E7.
  constructor; rewrite ?E1, ?E2, ?E3, ?E4, ?E5, ?E6, ?E7; auto.
Qed.
Notation Hn_hv0 := ma_Hn_hv0.

(* a step that keeps the abstract view, re-establishing hygiene by hand *)
Lemma ma_LS_keep n s (S S' : Node.S) :
  LS n s S -> rv (nd S') = rv (nd S) -> trans (sr (nd S')) = trans (sr (nd S)) -> Hn (nd S') ->
  self (nd S') = self (nd S) -> grow (okout n s) S S' -> LS n s S'.
Proof.
  intros L Hrv Ht HH Hs G.
  apply (LS_ksn n s s S S').
  - constructor.
  - exact L.
  - eapply Rn_rv; [exact Hrv|apply tr_ok_same; exact Ht|apply (LS_n _ _ _ _ _ _ L)].
  - exact HH.
  - rewrite Hs. apply (LS_self _ _ _ _ _ _ L).
  - apply (grow_Ro (okout n s)); auto.
Qed.
Notation LS_keep := ma_LS_keep.

Lemma ma_LS_oth_lt n s S f : LS n s S -> In f (others (nd S)) -> f < RO_BASE.
Proof. intros L Hf. apply (Rn_oth_lt n _ s f (LS_n _ _ _ _ _ _ L) Hf). Qed.
Notation LS_oth_lt := ma_LS_oth_lt.

(* re-establish Rn after one L0 step when the blobs of the L1 node did not move *)
Ltac rn_step L K :=
  eapply Rn_intro;
  [ apply (LS_reach _ _ _ _ _ _ L) | eapply ksn_kstar; exact K | apply (LS_n _ _ _ _ _ _ L)
  | reflexivity | apply tr_ok_same; reflexivity | reflexivity | cbn; lia | .. ].

(* ---- adopting a higher term (the RequestVote flavour: role := FOLLOWER, leader := None) ---- *)
Lemma sim_bump n S s t :
  LS n s S -> term (nd S) < t ->
  exists s', ksn (n2 n) s s' /\
    LS n s' (upd (fun x => x <| leader := None |>)
                 (set_role FOLLOWER (upd (fun x => x <| term := t |> <| voted := None |>) S))).
Proof.
  intros L Ht.
  pose proof (LS_n _ _ _ _ _ _ L) as RN. pose proof (LS_up _ _ _ L) as Hj.
  assert (Hlt : (M.term (M.nodes s (n2 n)) < n2 t)%nat) by (rewrite (Rn_term _ _ _ _ _ _ RN); lia).
  destruct (t_adopt_ok V' (n2 n) (n2 t) s Hj Hlt) as [K E].
  set (s' := t_adopt (n2 n) (n2 t) s) in *.
  assert (K1 : ksn (n2 n) s s') by (apply ksn_one; auto).
  exists s'. split; [exact K1|].
  apply (LS_ksn n s s' S); auto.
  - rewrite nd_upd, nd_set_role, nd_upd.
    rn_step L K1; unfold s', t_adopt, M.set_node, M.bump; cbn [M.nodes M.grants]; rewrite ?upd_eq;
      cbn [M.term M.voted M.rl M.log M.commit M.votesFrom M.matchIdx M.lf M.noopi].
    + apply (Rn_up _ _ _ _ _ _ RN).
    + reflexivity.
    + reflexivity.
    + reflexivity.
    + apply (Rn_log _ _ _ _ _ _ RN).
    + apply (Rn_commit _ _ _ _ _ _ RN).
    + intros Hx. compute in Hx. discriminate.
    + apply (Rn_match _ _ _ _ _ _ RN).
    + intros Hx. discriminate.
    + intros Hx. compute in Hx. discriminate.
  - eapply Hn_hv0; [| |apply (LS_h _ _ _ _ _ _ L)]; [rewrite nd_upd, nd_set_role; reflexivity|].
    apply pend_not_leader. rewrite nd_upd, nd_set_role. cbn. discriminate.
  - rewrite nd_upd, nd_set_role. apply (LS_self _ _ _ _ _ _ L).
  - apply (grow_Ro nosend); [intros o; apply nosend_okout|].
    eapply grow_trans; [|apply grow_upd]. eapply grow_trans; [apply grow_upd|]. apply grow_set_role. auto.
Qed.

(* ---- RequestVote ---- *)
Lemma sim_grant n a S s t lli llt :
  LS n s S -> Rmsg a n (RequestVote t lli llt) s ->
  ((role (nd S) =? FOLLOWER) || (role (nd S) =? CANDIDATE)) = true ->
  term (nd S) = t -> (llt <? last_term (log (nd S))) = false ->
  ((llt =? last_term (log (nd S))) && (lli <? last_idx (log (nd S)))) = false ->
  voted (nd S) = None ->
  exists s', ksn (n2 n) s s' /\
    LS n s' (send a (ResponseVote t)
              (upd (fun x => x <| voted := Some a |> <| deadline := (tnow S + gen_timeout e)%Z |>) S)).
Proof.
  intros L (Ha & Hab & Hm & Hck) Hrole Ht H1 H2 Hv.
  pose proof (LS_n _ _ _ _ _ _ L) as RN. pose proof (LS_up _ _ _ L) as Hj.
  destruct (LS_full _ _ _ L) as (full & EL & W & Sx & Smf & Hof).
  assert (Hnl : M.rl (M.nodes s (n2 n)) <> M.Leader).
  { rewrite (Rn_role _ _ _ _ _ _ RN). intros Hx. apply absR_leader in Hx. rewrite Hx in Hrole. discriminate. }
  assert (Htm : M.term (M.nodes s (n2 n)) = n2 t) by (rewrite (Rn_term _ _ _ _ _ _ RN), Ht; reflexivity).
  assert (Hup : M.up_to_date (M.log (M.nodes s (n2 n))) (n2 lli) (n2 llt) = true).
  { unfold M.up_to_date. rewrite EL, absL_lastTerm, absL_length.
    rewrite (suffix_last_idx _ _ Sx) in H2. rewrite (suffix_last_term _ _ Sx) in H1, H2.
    pose proof (wf1_last_idx _ W) as HL.
    apply negb_true_iff. apply orb_false_iff. split.
    - apply Nat.ltb_ge. apply N.ltb_ge in H1. lia.
    - apply andb_false_iff. apply andb_false_iff in H2 as [H2|H2].
      + left. apply Nat.eqb_neq. apply N.eqb_neq in H2. lia.
      + right. apply Nat.ltb_ge. apply N.ltb_ge in H2. lia. }
  assert (Hvn : M.voted (M.nodes s (n2 n)) = None) by (rewrite (Rn_voted _ _ _ _ _ _ RN), Hv; reflexivity).
  destruct (t_grant_ok V' (n2 n) (n2 t) (n2 a) (n2 lli) (n2 llt) s Hj Hm Hnl Htm Hup Hvn) as [K E].
  set (s' := M.do_grant (n2 n) (n2 t) (n2 a) s) in *.
  assert (K1 : ksn (n2 n) s s') by (apply ksn_one; auto).
  exists s'. split; [exact K1|].
  apply (LS_ksn n s s' S); auto.
  - rewrite nd_send, nd_upd.
    rn_step L K1; unfold s', M.do_grant; cbn [M.nodes M.grants]; rewrite ?upd_eq;
      cbn [M.term M.voted M.rl M.log M.commit M.votesFrom M.matchIdx M.lf M.noopi].
    + apply (Rn_up _ _ _ _ _ _ RN).
    + apply (Rn_term _ _ _ _ _ _ RN).
    + reflexivity.
    + apply (Rn_role _ _ _ _ _ _ RN).
    + apply (Rn_log _ _ _ _ _ _ RN).
    + apply (Rn_commit _ _ _ _ _ _ RN).
    + apply (Rn_votes _ _ _ _ _ _ RN).
    + apply (Rn_match _ _ _ _ _ _ RN).
    + intros Hx. cbn in Hx. injection Hx as ->. left. cbn. rewrite Ht. reflexivity.
    + apply (Rn_noop _ _ _ _ _ _ RN).
  - eapply Hn_hv; [|apply (LS_h _ _ _ _ _ _ L)]. rewrite nd_send, nd_upd. reflexivity.
  - rewrite nd_send, nd_upd. apply (LS_self _ _ _ _ _ _ L).
  - apply (grow_Ro (okout n s')); [auto|].
    eapply grow_trans; [apply grow_upd|]. apply grow_send. cbn.
    split; [apply (LS_lt _ _ _ _ _ _ L)|]. split; [congruence|].
    split; [unfold s', M.do_grant; cbn; left; reflexivity|].
    eapply cand_knows_ext; [exact E|exact Hck].
Qed.

Lemma sim_msg_rv n a x s t lli llt :
  LS n s (start_S e x) -> Rmsg a n (RequestVote t lli llt) s ->
  exists s', ksn (n2 n) s s' /\ LS n s' (on_message e a (RequestVote t lli llt) x).
Proof.
  intros L Hm. unfold on_message. set (S0 := start_S e x) in *.
  rewrite (LS_self _ _ _ _ _ _ L).
  (* the term bump *)
  assert (Hb : exists s1 S1, ksn (n2 n) s s1 /\ LS n s1 S1 /\ tnow S1 = tnow S0 /\
             S1 = (if term (nd S0) <? t
                   then upd (fun n0 => n0 <| leader := None |>)
                            (set_role FOLLOWER (upd (fun n0 => n0 <| term := t |> <| voted := None |>) S0))
                   else S0)).
  { destruct (term (nd S0) <? t) eqn:Et.
    - apply N.ltb_lt in Et. destruct (sim_bump n S0 s t L Et) as (s1 & K1 & L1).
      eexists s1, _. split; [exact K1|]. split; [exact L1|]. split; [|reflexivity].
      unfold set_role. cbn. destruct (_ =? _); reflexivity.
    - exists s, S0. split; [constructor|]. auto. }
  destruct Hb as (s1 & S1 & K1 & L1 & Tn & ES). rewrite <- ES.
  assert (Hm1 : Rmsg a n (RequestVote t lli llt) s1).
  { eapply (Rmsg_mono c mf V NDV VNE); [apply (LS_reach _ _ _ _ _ _ L)|exact K1|exact Hm]. }
  cbv zeta.
  destruct ((role (nd S1) =? FOLLOWER) || (role (nd S1) =? CANDIDATE)) eqn:Er; [|exists s1; auto].
  destruct (term (nd S1) <=? t) eqn:Et; [|exists s1; auto].
  destruct (llt <? last_term (log (nd S1))) eqn:E1; [exists s1; auto|].
  destruct ((llt =? last_term (log (nd S1))) && (lli <? last_idx (log (nd S1)))) eqn:E2; [exists s1; auto|].
  destruct (voted (nd S1)) eqn:Ev; [exists s1; auto|].
  assert (Htt : term (nd S1) = t).
  { apply N.leb_le in Et. destruct (term (nd S0) <? t) eqn:E0.
    - rewrite ES. rewrite nd_upd, nd_set_role. reflexivity.
    - apply N.ltb_ge in E0. rewrite ES in Et. rewrite ES. lia. }
  destruct (sim_grant n a S1 s1 t lli llt L1 Hm1 Er Htt E1 E2 Ev) as (s2 & K2 & L2).
  exists s2. split; [eapply ksn_trans; eauto|]. exact L2.
Qed.

(* ---- ResponseVote ---- *)
Lemma sim_msg_vote n a x s t :
  LS n s (start_S e x) ->
  (role x = CANDIDATE -> t = term x ->
     ~ In (n2 a) (M.votesFrom (M.nodes s (n2 n))) /\ In (M.Vote (n2 t) (n2 a) (n2 n)) (M.net s) /\
     In (n2 a) (M.cfg (n2 n) (M.nodes s (n2 n)))) ->
  exists s', ksn (n2 n) s s' /\ LS n s' (on_message e a (ResponseVote t) x) /\
    (role (nd (on_message e a (ResponseVote t) x)) = CANDIDATE ->
     forall v, In v (M.votesFrom (M.nodes s' (n2 n))) -> v = n2 a \/ In v (M.votesFrom (M.nodes s (n2 n)))).
Proof.
  intros L Hcnt. unfold on_message. set (S0 := start_S e x) in *.
  destruct ((role (nd S0) =? CANDIDATE) && (t =? term (nd S0))) eqn:G;
    [|exists s; split; [constructor|split; [exact L|auto]]].
  apply andb_true_iff in G as [G1 G2]. apply N.eqb_eq in G1, G2.
  destruct (Hcnt G1 G2) as (Hv & Hin & Hcfg). set (v := n2 a) in *.
  pose proof (LS_n _ _ _ _ _ _ L) as RN. pose proof (LS_up _ _ _ L) as Hj.
  assert (Hcand : M.rl (M.nodes s (n2 n)) = M.Candidate) by (rewrite (Rn_role _ _ _ _ _ _ RN), G1; reflexivity).
  assert (Hin' : In (M.Vote (M.term (M.nodes s (n2 n))) v (n2 n)) (M.net s)).
  { rewrite (Rn_term _ _ _ _ _ _ RN), <- G2. exact Hin. }
  assert (Hmc : M.mem v (M.cfg (n2 n) (M.nodes s (n2 n))) = true) by (apply MC.mem_In; exact Hcfg).
  destruct (t_count_ok V' (n2 n) v s Hj Hin' Hcand Hmc) as [K E].
  set (s1 := t_count (n2 n) v s) in *.
  assert (K1 : ksn (n2 n) s s1) by (apply ksn_one; auto).
  set (S1 := upd (fun n0 => n0 <| votes := votes n0 + 1 |>) S0).
  assert (Hmem : M.mem v (M.votesFrom (M.nodes s (n2 n))) = false).
  { apply MC.mem_not_In. exact Hv. }
  assert (L1 : LS n s1 S1).
  { apply (LS_ksn n s s1 S0); auto.
    - unfold S1. rewrite nd_upd.
      rn_step L K1; unfold s1, t_count, M.set_node; cbn [M.nodes M.grants]; rewrite ?upd_eq;
        cbn [M.term M.voted M.rl M.log M.commit M.votesFrom M.matchIdx M.lf M.noopi].
      + apply (Rn_up _ _ _ _ _ _ RN).
      + apply (Rn_term _ _ _ _ _ _ RN).
      + apply (Rn_voted _ _ _ _ _ _ RN).
      + apply (Rn_role _ _ _ _ _ _ RN).
      + apply (Rn_log _ _ _ _ _ _ RN).
      + apply (Rn_commit _ _ _ _ _ _ RN).
      + intros Hx. rewrite Hmem. destruct (Rn_votes _ _ _ _ _ _ RN Hx) as [A6a A6b]. split; [|right; exact A6b].
        cbn [length]. rewrite A6a.
        change (votes (nd S0 <| votes := votes (nd S0) + 1 |>)) with (votes (nd S0) + 1). lia.
      + apply (Rn_match _ _ _ _ _ _ RN).
      + apply (Rn_self _ _ _ _ _ _ RN).
      + apply (Rn_noop _ _ _ _ _ _ RN).
    - eapply Hn_hv; [|apply (LS_h _ _ _ _ _ _ L)]. reflexivity.
    - apply (LS_self _ _ _ _ _ _ L).
    - exists []. rewrite app_nil_r. split; auto. apply Ro_nil. }
  destruct (majority (votes (nd S1)) (nd S1)) eqn:Mj.
  - destruct (sim_become_leader n S1 s1 L1) as (s2 & K2 & L2); auto.
    exists s2. split; [eapply ksn_trans; [exact K1|exact K2]|]. split; [exact L2|].
    destruct (become_leader_p5 e S1) as (P1 & _). cbv zeta in P1. rewrite P1. discriminate.
  - exists s1. split; [exact K1|]. split; [exact L1|]. intros _ w Hw.
    unfold s1, t_count, M.set_node in Hw. cbn [M.nodes] in Hw. rewrite upd_eq in Hw. cbn [M.votesFrom] in Hw.
    rewrite Hmem in Hw. destruct Hw as [<-|Hw]; auto.
Qed.

(* ---- NextIdx ---- *)
Lemma sim_msg_nextidx n a x s t nx rs su :
  LS n s (start_S e x) -> Rmsg a n (NextIdx t nx rs su) s ->
  exists s', ksn (n2 n) s s' /\ LS n s' (on_message e a (NextIdx t nx rs su) x).
Proof.
  intros L Hm. unfold on_message. set (S0 := start_S e x) in *.
  destruct ((role (nd S0) =? LEADER) && (t =? term (nd S0))) eqn:G; [|exists s; split; [constructor|exact L]].
  apply andb_true_iff in G as [G1 G2]. apply N.eqb_eq in G1, G2.
  set (S1 := if rs then upd _ S0 else S0).
  assert (L1 : LS n s S1).
  { unfold S1. destruct rs; [|exact L]. apply (LS_quiet n s S0); [exact L|reflexivity|apply grow_upd]. }
  assert (R1 : role (nd S1) = LEADER /\ term (nd S1) = term (nd S0) /\ match_idx (nd S1) = match_idx (nd S0)).
  { unfold S1. destruct rs; auto. }
  destruct R1 as (R1 & R2 & R3).
  assert (E1 : exc S1 = 0) by (unfold S1; destruct rs; reflexivity).
  clearbody S1.
  (* the final bookkeeping *)
  assert (Hfin : forall s2 S2, LS n s2 S2 ->
            LS n s2 (if ok S2 then upd (fun n0 => n0 <| last_resp := aset a (tnow S2) (last_resp n0) |>) S2 else S2)).
  { intros s2 S2 L2. destruct (ok S2); auto.
    apply (LS_quiet n s2 S2); [exact L2|reflexivity|apply grow_upd]. }
  destruct su; [|exists s; split; [constructor|apply Hfin; exact L1]].
  destruct (aget a (match_idx (nd S1))) as [m0|] eqn:Eg.
  2:{ exists s. split; [constructor|]. apply Hfin. eapply LS_same; eauto. }
  destruct (m0 <? nx - 1) eqn:Elt; [|exists s; split; [constructor|apply Hfin; exact L1]].
  apply N.ltb_lt in Elt.
  set (S2 := upd (fun n0 => n0 <| match_idx := aset a (nx - 1) (match_idx n0) |>
                              <| next_idx := aset a nx (next_idx n0) |>) S1).
  pose proof (LS_n _ _ _ _ _ _ L1) as RN. pose proof (LS_up _ _ _ L1) as Hj.
  destruct (N.ltb_spec a RO_BASE) as [Hlt|Hge].
  - (* a voter's acknowledgement *)
    assert (Hl : M.rl (M.nodes s (n2 n)) = M.Leader) by (rewrite (Rn_role _ _ _ _ _ _ RN), R1; reflexivity).
    assert (Hin : In (M.AppendReply (M.term (M.nodes s (n2 n))) (n2 a) true (n2 nx - 1)) (M.net s)).
    { rewrite (Rn_term _ _ _ _ _ _ RN), R2, <- G2. apply Hm; auto. }
    destruct (t_ar_ok V' (n2 n) (n2 a) (n2 nx - 1) s Hj Hin Hl) as [K E].
    set (s1 := t_ar (n2 n) (n2 a) (n2 nx - 1) s) in *.
    assert (K1 : ksn (n2 n) s s1) by (apply ksn_one; auto).
    exists s1. split; [exact K1|]. apply Hfin.
    apply (LS_ksn n s s1 S1); auto.
    + unfold S2. rewrite nd_upd.
      rn_step L1 K1; unfold s1, t_ar, M.set_node; cbn [M.nodes M.grants]; rewrite ?upd_eq;
        cbn [M.term M.voted M.rl M.log M.commit M.votesFrom M.matchIdx M.lf M.noopi].
      * apply (Rn_up _ _ _ _ _ _ RN).
      * apply (Rn_term _ _ _ _ _ _ RN).
      * apply (Rn_voted _ _ _ _ _ _ RN).
      * apply (Rn_role _ _ _ _ _ _ RN).
      * apply (Rn_log _ _ _ _ _ _ RN).
      * apply (Rn_commit _ _ _ _ _ _ RN).
      * apply (Rn_votes _ _ _ _ _ _ RN).
      * intros f m Hf Hne Hg. cbn in Hg, Hf. rewrite ProofsCommitBase.aget_aset in Hg. unfold M.upd.
        destruct (f =? a) eqn:Efa.
        -- apply N.eqb_eq in Efa. subst f. injection Hg as <-. rewrite Nat.eqb_refl. lia.
        -- apply N.eqb_neq in Efa. destruct (Nat.eqb_spec (n2 f) (n2 a)) as [Ex|Ex]; [lia|].
           apply (Rn_match _ _ _ _ _ _ RN f m Hf Hne Hg).
      * apply (Rn_self _ _ _ _ _ _ RN).
      * apply (Rn_noop _ _ _ _ _ _ RN).
    + eapply Hn_hv; [|apply (LS_h _ _ _ _ _ _ L1)]. reflexivity.
    + apply (LS_self _ _ _ _ _ _ L1).
    + exists []. rewrite app_nil_r. split; auto. apply Ro_nil.
  - (* a read-only node: no abstract counterpart *)
    exists s. split; [constructor|]. apply Hfin.
    assert (K0 : ksn (n2 n) s s) by constructor.
    apply (LS_ksn n s s S1 S2); auto.
    + unfold S2. rewrite nd_upd.
      rn_step L1 K0.
      * apply (Rn_up _ _ _ _ _ _ RN).
      * apply (Rn_term _ _ _ _ _ _ RN).
      * apply (Rn_voted _ _ _ _ _ _ RN).
      * apply (Rn_role _ _ _ _ _ _ RN).
      * apply (Rn_log _ _ _ _ _ _ RN).
      * apply (Rn_commit _ _ _ _ _ _ RN).
      * apply (Rn_votes _ _ _ _ _ _ RN).
      * intros f m Hf Hne Hg. cbn in Hg, Hf. rewrite ProofsCommitBase.aget_aset in Hg.
        destruct (f =? a) eqn:Efa; [|apply (Rn_match _ _ _ _ _ _ RN f m Hf Hne Hg)].
        apply N.eqb_eq in Efa. subst f. pose proof (LS_oth_lt _ _ _ _ L1 Hf). lia.
      * apply (Rn_self _ _ _ _ _ _ RN).
      * apply (Rn_noop _ _ _ _ _ _ RN).
    + eapply Hn_hv; [|apply (LS_h _ _ _ _ _ _ L1)]. reflexivity.
    + apply (LS_self _ _ _ _ _ _ L1).
    + exists []. rewrite app_nil_r. split; auto. apply Ro_nil.
Qed.

(* ---- ApplyCmd / ApplyResp ---- *)
Lemma sim_submit n cm cbk S s :
  LS n s S -> small_cmd cm -> LS n s (submit e cm cbk S).
Proof.
  intros L Hs. unfold submit. destruct (_ <? _).
  - apply (LS_stutter n s S); [exact L|rewrite nd_call_err; reflexivity|].
    apply (grow_Ro (okout n s)); [auto|].
    destruct cbk as [|id|rn rid]; cbn [call_err]; [apply grow_refl|apply grow_emit; exact I|apply grow_send; exact I].
  - apply (LS_keep n s S); auto; try reflexivity; [|apply grow_upd].
    destruct (LS_h _ _ _ _ _ _ L) as [B1 B2 B3 B4 B5 B6 B7 B8 B9 B10]. constructor; rewrite ?nd_upd; cbn; auto.
    apply Forall_app. split; auto.
Qed.

Lemma sim_msg_applycmd n a x s cm req :
  LS n s (start_S e x) -> Rmsg a n (ApplyCmd cm req) s ->
  exists s', ksn (n2 n) s s' /\ LS n s' (on_message e a (ApplyCmd cm req) x).
Proof.
  intros L Hm. exists s. split; [constructor|]. unfold on_message. apply sim_submit; auto.
Qed.

Lemma sim_msg_applyresp n a x s req okr p q :
  LS n s (start_S e x) ->
  exists s', ksn (n2 n) s s' /\ LS n s' (on_message e a (ApplyResp req okr p q) x).
Proof.
  intros L. exists s. split; [constructor|]. unfold on_message. set (S0 := start_S e x) in *.
  destruct (aget req (wait_reply (nd S0))) as [cbk|]; [|exact L].
  set (S1 := upd _ S0).
  assert (L1 : LS n s S1) by (apply (LS_quiet n s S0); [exact L|reflexivity|apply grow_upd]).
  clearbody S1.
  destruct (negb okr).
  - apply (LS_quiet n s S1); [exact L1|rewrite nd_fire; reflexivity|apply grow_fire; auto].
  - destruct (p <=? applied (nd S1)).
    + apply (LS_quiet n s S1); [exact L1|rewrite nd_fire; reflexivity|apply grow_fire; auto].
    + apply (LS_quiet n s S1); [exact L1|reflexivity|apply grow_upd].
Qed.

End Msg.
