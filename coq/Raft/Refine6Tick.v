(* Tier C6, part 3: the tick of a voter keeps "the user state is the replay of the committed prefix of
   length applied" ([HI]).  The local simulation [LS] of Tier C5 is carried along unchanged; the apply
   phase is the only one that moves (hist, applied), and there the relation field [Rn_applied] says that
   the new prefix is committed. *)
From Coq Require Import ZArith NArith List Bool Lia ZifyBool Arith PeanoNat.
From RecordUpdate Require Import RecordSet.
From PSO Require Import Raft.Types Raft.Node Raft.Net Raft.ProofsCommitBase.
From PSO Require Import Raft.ProofsApplyBase Raft.ProofsApplyLog Raft.ProofsApplyReplay.
From PSO Require Import Raft.ProofsElectionBase Raft.RefineAbs Raft.RefineK Raft.RefineSpecA Raft.RefineTickA
  Raft.RefineTickB.
From PSO Require Import Raft.Refine5Abs Raft.Refine5SpecA Raft.Refine5Sim Raft.Refine5TickA Raft.Refine5TickB.
From PSO Require Import Raft.Refine6Base.
From PSO Require Raft.ProofsElectionFrame2 Raft.ProofsCallbacks2.
From PSO Require Abstract.Model Abstract.Lib Abstract.Kstep.
Import ListNotations.
Import RecordSetNotations.
Open Scope N_scope.
#[local] Arguments firstn : simpl nomatch.
#[local] Arguments skipn : simpl nomatch.

Section Tick6.
Variable c : conf.
Variable V : list nid.
Hypothesis NDV : NoDup V.
Hypothesis VRO : forall v, In v V -> v < RO_BASE.
Hypothesis VNE : V <> [].
Hypothesis Hb1 : 1 < batch c.
Hypothesis Hdyn : dyn c = false.
Variable e : env.
Hypothesis Hc : cf e = c.
Set Default Proof Using "All".

Notation V' := (absV V).
Notation Rn := (Rn c V).
Notation ksn := (ksn V).
Notation LS := (LS c V).
Notation simf := (simf c V).
Notation HI := (HI c).
Notation LS_full := (LS_full c V NDV VRO VNE Hb1).
Notation HI_kstar := (HI_kstar c V NDV VRO VNE Hb1).
Notation HI_uview := (HI_uview c V NDV VRO VNE Hb1).

Definition LS6 (n : nid) (s : M.state) (S : Node.S) : Prop := LS n s S /\ HI s (nd S).

Definition simf6 (n : nid) (f : Node.S -> Node.S) : Prop :=
  forall S s, LS6 n s S -> exists s', ksn (n2 n) s s' /\ LS6 n s' (f S).

Lemma simf6_andthen n f g : simf6 n f -> simf6 n g -> simf6 n (f ;; g).
Proof.
  intros Hf Hg S s L. rewrite andthen_eq. destruct (Hf S s L) as (s1 & K1 & L1).
  destruct (ok (f S)); [|eauto].
  destruct (Hg (f S) s1 L1) as (s2 & K2 & L2). exists s2. split; auto. eapply ksn_trans; eauto.
Qed.

(* a phase that the Tier C5 simulation covers and that leaves the user state alone *)
Lemma simf6_of n f : simf n f -> ukeep f -> simf6 n f.
Proof.
  intros Hf Hu S s [L H]. destruct (Hf S s L) as (s' & K & L'). exists s'. split; auto. split; auto.
  destruct (uview_inv _ _ (Hu S)) as (E1 & E2 & _).
  eapply HI_uview; [exact E1|exact E2|].
  eapply HI_kstar; [apply (LS_reach _ _ _ _ _ L)|eapply ksn_kstar; exact K|exact H].
Qed.

(* the apply phase *)
Lemma LS6_apply n s S :
  LS6 n s S -> LS n s (fst (apply_entries e S)) -> HI s (nd (fst (apply_entries e S))).
Proof.
  intros [L H] L1.
  destruct (LS_full _ _ _ L) as (full & EL & W & Sx).
  pose proof (suffix_log_wf _ _ W Sx) as WF.
  destruct (apply_consecutive e S WF) as (C1 & (a & b & C2) & _ & C4 & _ & _ & _ & C8 & _ & _ & C11 & _).
  eapply (HI_apply c V NDV VRO VNE Hb1 n s (nd S) _ (applied_now S)).
  - apply (LS_reach _ _ _ _ _ L).
  - apply (LS_n _ _ _ _ _ L1).
  - exact H.
  - intros en Hen. rewrite C11, C2. apply in_or_app. right. apply in_or_app. left. exact Hen.
  - exact C1.
  - exact C8.
  - exact C4.
Qed.

Lemma sim6_tick_tail n :
  simf6 n (fun s => let (s, need) := apply_entries e s in
                    if ok s then (tick_send e need ;; tick_ready ;; check_commands e ;; try_compact e) s else s).
Proof.
  intros S s L6. pose proof L6 as [L H].
  pose proof (apply_entries_spec e S (H_rinv _ _ (LS_h _ _ _ _ _ L))) as A.
  assert (Bd : applied (nd (fst (apply_entries e S))) <= commit (nd S) \/ fst (apply_entries e S) = S).
  { pose proof (apply_entries_bound e S) as B. unfold apply_entries in *.
    destruct (applied (nd S) <? commit (nd S)) eqn:E; [left|right; reflexivity]. apply B. lia. }
  assert (L1 : LS n s (fst (apply_entries e S))).
  { destruct Bd as [Bd|Bd]; [eapply (LS_app c V NDV VRO VNE Hb1 Hdyn e Hc); eauto|rewrite Bd; exact L]. }
  pose proof (LS6_apply n s S L6 L1) as H1.
  destruct (apply_entries e S) as [S1 need]. cbn [fst] in *.
  destruct (ok S1); [|exists s; split; [constructor|split; assumption]].
  assert (T : simf n (tick_send e need ;; tick_ready ;; check_commands e ;; try_compact e)).
  { apply simf_andthen; auto; [apply (sim_tick_send c V NDV VRO VNE Hb1 Hdyn e Hc)|].
    apply simf_andthen; auto; [apply (sim_tick_ready c V NDV VRO VNE Hb1 Hdyn e Hc)|].
    apply simf_andthen; auto; [apply (sim_check_commands c V NDV VRO VNE Hb1 Hdyn e Hc)|].
    apply (sim_try_compact c V NDV VRO VNE Hb1 Hdyn e Hc). }
  exact (simf6_of n _ T (ukeep_tick_post e need) S1 s (conj L1 H1)).
Qed.

Lemma loaded_none x : ProofsElectionFrame2.tickp e x -> loaded e x = None.
Proof.
  intros Tp. unfold loaded. destruct (need_load x && file_dump (cf e)) eqn:E; [|reflexivity].
  rewrite (Tp E). reflexivity.
Qed.

Theorem sim6_on_tick n x s :
  ProofsElectionFrame2.tickp e x ->
  LS6 n s (start_S e x) -> exists s', ksn (n2 n) s s' /\ LS6 n s' (on_tick e x).
Proof.
  intros Tp [L0 H0]. unfold on_tick.
  pose proof (sim_tick_load c V NDV VRO VNE Hb1 Hdyn e Hc n (start_S e x) s Tp L0) as L.
  assert (H : HI s (nd (tick_load e (start_S e x)))).
  { pose proof (uview_tick_load e x) as U. rewrite (loaded_none x Tp) in U.
    unfold uview_of in U. injection U as U1 U2 _ _.
    eapply HI_uview; [exact U1|exact U2|exact H0]. }
  rewrite andthen_eq. destruct (ok (tick_load e (start_S e x))); [|exists s; split; [constructor|split; assumption]].
  assert (T : simf6 n (tick_timer e ;; tick_election e ;; tick_leader e ;;
     (fun s => let (s, need) := apply_entries e s in
               if ok s then (tick_send e need ;; tick_ready ;; check_commands e ;; try_compact e) s else s))).
  { apply simf6_andthen.
    { apply simf6_of; [apply (sim_tick_timer c V NDV VRO VNE Hb1 Hdyn e Hc)|].
      apply ukeep_view. intros s0. apply view_tick_timer. }
    apply simf6_andthen.
    { apply simf6_of; [apply (sim_tick_election c V NDV VRO VNE Hb1 Hdyn e Hc)|apply ukeep_tick_election]. }
    apply simf6_andthen.
    { apply simf6_of; [apply (sim_tick_leader c V NDV VRO VNE Hb1 Hdyn e Hc)|].
      apply ukeep_view. intros s0. apply view_tick_leader. }
    apply sim6_tick_tail. }
  exact (T _ s (conj L H)).
Qed.

End Tick6.
