(* C18_not_counted, global part: the data-flow invariant holds in every reachable state. *)
From Coq Require Import ZArith NArith List Bool Lia ZifyBool ZifyN.
From RecordUpdate Require Import RecordSet.
From PSO Require Import Raft.Types Raft.Node Raft.Net.
From PSO Require Import Raft.ProofsReadonlyFrames Raft.ProofsReadonlyA Raft.ProofsReadonlyB Raft.ProofsReadonlyD.
Import ListNotations.
Import RecordSetNotations.
Open Scope N_scope.

Definition g_ok (g : gstate) : Prop :=
  (forall x n, In (x, n) (nodes g) -> node_ok n) /\
  (forall c, In c (chan g) -> Forall msg_ok (snd c)) /\
  (forall x d, In (x, d) (disks g) -> disk_ok d).

(* validity of the environment's inputs: voters are named by ids < RO_BASE *)
Definition valid_ev (ev : event) : Prop :=
  match ev with
  | ESubmit _ c _ => cmd_ok c
  | EAdmin _ c _ => cmd_ok c
  | ESetVer _ c _ => cmd_ok c
  | ERestart _ oth _ _ _ => Forall vid oth
  | _ => True
  end.

Lemma chan_get_ok : forall a b g, g_ok g -> Forall msg_ok (chan_get a b g).
Proof.
  intros a b g (_ & H & _). unfold chan_get.
  match goal with |- Forall _ match ?F with _ => _ end => destruct F as [c|] eqn:E end; [|constructor].
  apply find_some in E as (E & _). apply (H c E).
Qed.

Lemma g_ok_chan_set : forall a b q g, Forall msg_ok q -> g_ok g -> g_ok (chan_set a b q g).
Proof.
  intros a b q g Hq (H1 & H2 & H3). split; [exact H1|]. split; [|exact H3].
  intros c Hc. cbn in Hc. destruct Hc as [<- | Hc]; [exact Hq|].
  apply filter_In in Hc as (Hc & _). apply (H2 c Hc).
Qed.

Lemma g_ok_route : forall a os g, Forall out_ok os -> g_ok g -> g_ok (route a os g).
Proof.
  intros a os; unfold route; induction os as [|o os IH]; intros g Ho H; cbn [fold_left]; [exact H|].
  inversion Ho; subst. apply IH; [assumption|].
  destruct o as [d m| | | |x]; try exact H.
  - apply g_ok_chan_set; [|exact H]. apply Forall_app; split; [apply chan_get_ok; exact H | repeat constructor; assumption].
  - apply g_ok_chan_set; [constructor | exact H].
Qed.

Lemma g_ok_put_node : forall x n g, node_ok n -> g_ok g -> g_ok (put_node x n g).
Proof.
  intros x n g Hn (H1 & H2 & H3). split; [|split; assumption].
  intros y m Hin. cbn in Hin. apply In_aset in Hin as [Hin | Hin]; [inversion Hin; subst; exact Hn | eauto].
Qed.

Lemma g_ok_finish : forall x s g, S_ok s -> g_ok g -> g_ok (finish x s g).
Proof. intros x s g (Hn & Ho) H. unfold finish. apply g_ok_route; [exact Ho|]. apply g_ok_put_node; assumption. Qed.

Lemma g_ok_node : forall g x n, g_ok g -> aget x (nodes g) = Some n -> node_ok n.
Proof. intros g x n (H & _) E. apply (H x n). apply aget_In; exact E. Qed.

Lemma S_ok_idle : forall n, node_ok n -> S_ok (idle_S n).
Proof. intros n H; split; [exact H | constructor]. Qed.

Lemma g_ok_chan_filter : forall f g, g_ok g -> g_ok (g <| chan := filter f (chan g) |>).
Proof.
  intros f g (H1 & H2 & H3). split; [exact H1|]. split; [|exact H3].
  intros c Hc. cbn in Hc. apply filter_In in Hc as (Hc & _). apply (H2 c Hc).
Qed.

Theorem g_ok_step : forall c g ev g' r, g_ok g -> valid_ev ev -> gstep c g ev = Some (g', r) -> g_ok g'.
Proof.
  intros c g ev g' r HG HV H. destruct ev; cbn [gstep] in H.
  - destruct (aget n (nodes g)) as [x|] eqn:E; inversion H; subst.
    apply g_ok_finish; [apply ok_on_tick; eapply g_ok_node; eauto | exact HG].
  - destruct (aget b (nodes g)) as [x|] eqn:E; [|discriminate].
    pose proof (chan_get_ok a b g HG) as HC.
    destruct (chan_get a b g) as [|m rest]; inversion H; subst. inversion HC; subst.
    apply g_ok_finish; [apply ok_on_message; [eapply g_ok_node; eauto | assumption]|].
    apply g_ok_chan_set; assumption.
  - destruct (aget a (nodes g)) as [x|] eqn:E; inversion H; subst.
    apply g_ok_chan_set; [constructor|]. apply g_ok_finish; [|exact HG].
    apply S_ok_idle. apply node_ok_on_disconnected. eapply g_ok_node; eauto.
  - inversion H; subst. apply g_ok_chan_set; [|exact HG]. apply Forall_firstn. apply chan_get_ok; exact HG.
  - destruct (aget a (nodes g)) as [x|] eqn:E; inversion H; subst.
    apply g_ok_finish; [apply S_ok_idle; apply node_ok_on_connected; eapply g_ok_node; eauto|].
    destruct (match aget b (nodes g) with Some y => _ | None => true end); [|exact HG].
    apply g_ok_chan_set; [constructor|]. apply g_ok_chan_set; [constructor | exact HG].
  - destruct (aget n (nodes g)) as [x|] eqn:E; inversion H; subst.
    apply g_ok_finish; [apply ok_api_submit; [eapply g_ok_node; eauto | exact HV] | exact HG].
  - destruct (aget n (nodes g)) as [x|] eqn:E; inversion H; subst.
    apply g_ok_finish; [apply ok_api_admin; [eapply g_ok_node; eauto | exact HV] | exact HG].
  - destruct (aget n (nodes g)) as [x|] eqn:E; inversion H; subst.
    apply g_ok_finish; [apply ok_api_setver; [eapply g_ok_node; eauto | exact HV] | exact HG].
  - destruct (aget n (nodes g)) as [x|] eqn:E; inversion H; subst.
    apply g_ok_finish; [apply S_ok_idle; exact (g_ok_node _ _ _ HG E) | exact HG].
  - inversion H; subst. clear H.
    match goal with |- context [adel n (nodes ?G)] => remember G as g1 eqn:Eg1 end.
    assert (g_ok g1) as H1.
    { subst g1. destruct (aget n (nodes g)) as [x|] eqn:E; [|exact HG].
      destruct HG as (G1 & G2 & G3).
      destruct (disk_of c x) as [d|] eqn:Ed.
      - split; [exact G1|]. split; [exact G2|]. intros y d' Hin. cbn in Hin.
        apply In_aset in Hin as [Hin | Hin]; [inversion Hin; subst|eauto].
        eapply disk_of_ok; [|exact Ed]. apply (G1 n x). apply aget_In; exact E.
      - split; [exact G1|]. split; [exact G2|]. intros y d' Hin. cbn in Hin. apply In_adel in Hin. eauto. }
    clear Eg1. destruct H1 as (G1 & G2 & G3).
    split; [|split].
    + intros y m Hin. cbn in Hin. apply In_adel in Hin. eauto.
    + intros ch Hc. cbn in Hc. apply filter_In in Hc as (Hc & _). eauto.
    + exact G3.
  - inversion H; subst. clear H.
    apply g_ok_put_node; [|apply g_ok_chan_filter; exact HG].
    assert (forall i, (if RO_BASE <=? n then None else Some n) = Some i -> vid i) as Hme.
    { intros i. destruct (RO_BASE <=? n) eqn:E; [discriminate|]. intros Hi; inversion Hi; subst.
      apply N.leb_gt in E. exact E. }
    destruct (aget n (disks g)) as [d|] eqn:Ed.
    + destruct (if RO_BASE <=? n then None else Some n) eqn:Em.
      * apply node_ok_init_from_disk; [exact HV | exact Hme|]. destruct HG as (_ & _ & G3). apply (G3 n d). apply aget_In; exact Ed.
      * apply node_ok_init; [exact HV | exact Hme].
    + destruct (if RO_BASE <=? n then None else Some n); apply node_ok_init; try exact HV; exact Hme || (intros; discriminate).
Qed.

Definition valid_reachable := reachable_by valid_ev.

Lemma g_ok_reachable : forall c g, valid_reachable c g -> g_ok g.
Proof.
  intros c g Hr. eapply reachable_inv with (P := g_ok); [| |exact Hr].
  - split; [intros x n []|]. split; [intros ch [] | intros x d []].
  - intros g0 ev g' r HI HV H. eapply g_ok_step; eauto.
Qed.

(* C18_not_counted, state part: no read-only id is ever a member *)
Theorem C18_not_counted_thm : forall c g x n y,
  valid_reachable c g -> aget x (nodes g) = Some n -> RO_BASE <= y -> ~ In y (others n).
Proof.
  intros c g x n y Hr Hx Hy Hin.
  pose proof (g_ok_node _ _ _ (g_ok_reachable _ _ Hr) Hx) as (Ho & _).
  rewrite Forall_forall in Ho. specialize (Ho y Hin). unfold vid in Ho. lia.
Qed.
