(* Tier CM, part 1c (AbstractM only): every membership entry of a leader log changed the global member
   set when it was appended ("effective").  This is what makes PySyncObj's UNDO of membership entries
   on truncation exact (ProofsMembership.undo_exact needs it). *)
From Coq Require Import List Arith Lia Bool PeanoNat.
Import ListNotations.
From PSO Require Import AbstractM.Model AbstractM.Lib AbstractM.Kstep AbstractM.Cfg AbstractM.Safety0_Base
  AbstractM.Safety1_WF AbstractM.Safety2_Election AbstractM.Safety3_LeaderLog AbstractM.Safety4_LogMatching
  AbstractM.SafetyAll AbstractM.Theorems.

Definition geff (o : list nat) (c : cmd) : bool :=
  match c with CAdd y => negb (mem y o) | CRem y => mem y o | Cmd _ => true end.

Section Eff.
Variable C0 : list nat.
Variable F : flags.
Hypothesis HD : disciplined F.
Hypothesis C0_nodup : NoDup C0.
Hypothesis C0_ne : C0 <> [].

Definition leff (l : list entry) : Prop :=
  forall p e, nth_error l p = Some e -> geff (gcfg C0 (firstn p l)) (ecmd e) = true.

Definition Eff (s : state) : Prop := forall T, leff (llog s T).

Lemma leff_snoc l e : leff l -> geff (gcfg C0 l) (ecmd e) = true -> leff (l ++ [e]).
Proof.
  intros H He p x Hp. apply nth_error_snoc_cases in Hp as [[Lp Hp]|[-> ->]].
  - rewrite firstn_app_le by lia. apply H. exact Hp.
  - rewrite firstn_app_le by lia. rewrite firstn_all. exact He.
Qed.

Lemma leff_node s j : AllInv C0 F s -> Eff s -> leff (log (nodes s j)).
Proof.
  intros A E p e Hp.
  pose proof (I4_canon _ (A4 _ _ _ A) j p e Hp) as Hc.
  assert (Hn : nth_error (llog s (eterm e)) p = Some e).
  { rewrite <- (firstn_eq_nth _ _ (S p) p Hc) by lia. exact Hp. }
  assert (Hf : firstn p (log (nodes s j)) = firstn p (llog s (eterm e))).
  { apply (firstn_le_eq _ _ p (S p)); [lia|exact Hc]. }
  rewrite Hf. apply (E (eterm e) p e Hn).
Qed.

Lemma eff_init : Eff (init C0).
Proof.
  intros T p e H. simpl in H. destruct (T =? 0).
  - destruct p as [|[|p]]; simpl in H; try discriminate. injection H as <-. reflexivity.
  - destruct p; discriminate.
Qed.

Lemma client_geff n x c :
  cfg n x = n :: del n (gcfg C0 (log x)) -> client_ok F n x c = true -> geff (gcfg C0 (log x)) c = true.
Proof.
  intros Hc H. unfold client_ok in H. destruct c as [k|y|y]; cbn [is_cfg geff] in *; auto.
  - apply andb_true_iff in H as [_ H]. cbn [effective] in H. rewrite Hc in H.
    apply negb_true_iff in H. apply negb_true_iff. apply mem_not_In. apply mem_not_In in H.
    intros Hi. apply H. destruct (Nat.eq_dec y n) as [->|Ne]; [left; auto|right]. apply del_In. auto.
  - apply andb_true_iff in H as [_ H]. cbn [effective] in H. rewrite Hc in H.
    apply andb_true_iff in H as [H1 H2]. apply negb_true_iff in H1. apply Nat.eqb_neq in H1.
    apply mem_In. apply mem_In in H2. destruct H2 as [H2|H2]; [congruence|]. apply del_In in H2. tauto.
Qed.

Lemma eff_kstep s s' : AllInv C0 F s -> Eff s -> kstep C0 F s s' -> Eff s'.
Proof.
  intros A E K.
  assert (Hn : forall j, leff (log (nodes s j))) by (intros j; apply leff_node; auto).
  destruct K; try exact E; subst x; intros T0; cbn [llog]; rewrite (Hl T0);
    destruct (Nat.eqb_spec T0 (term (nodes s n))) as [->|Ne]; try apply E.
  - apply leff_snoc; [apply Hn|reflexivity].
  - apply leff_snoc; [apply Hn|]. cbn [cent ecmd]. eapply client_geff; eauto.
    apply (cfg_gcfg C0 F s n (AB _ _ _ A)); [apply (proj1 (proj2 HD))|apply (proj2 (proj2 (proj2 HD)))].
Qed.

Theorem eff_kreachable s : kreachable C0 F s -> Eff s.
Proof.
  intros R. induction R as [|s s' R IH K]; [apply eff_init|].
  eapply eff_kstep; eauto. apply (k_all C0 F HD C0_nodup C0_ne). exact R.
Qed.

Theorem leff_kreachable s j : kreachable C0 F s -> leff (log (nodes s j)).
Proof.
  intros R. apply leff_node; [apply (k_all C0 F HD C0_nodup C0_ne); exact R|apply eff_kreachable; exact R].
Qed.

End Eff.
