(* Tier CM2, part 3 (merge of Refine2Sim.v and RefineMSim.v): the local simulation framework for a voter
   of a cluster with dynamic membership, compacted logs (ghost full log) and snapshot blobs. *)
From Coq Require Import ZArith NArith List Bool Lia ZifyBool Arith PeanoNat.
From RecordUpdate Require Import RecordSet.
From PSO Require Import Raft.Types Raft.Node Raft.Net Raft.ProofsCommitBase.
From PSO Require Import Raft.ProofsElectionBase Raft.ProofsMembership Raft.ProofsMembershipInv.
From PSO Require Import Raft.RefineMAbs Raft.RefineMEff Raft.RefineMCfg Raft.RefineMK Raft.RefineMSpecA.
From PSO Require Import Raft.RefineM2Abs Raft.RefineM2SpecA.
From PSO Require AbstractM.Model AbstractM.Lib AbstractM.Kstep AbstractM.Cfg.
Import ListNotations.
Import RecordSetNotations.
Open Scope N_scope.
#[local] Arguments firstn : simpl nomatch.
#[local] Arguments skipn : simpl nomatch.

(* the fields [Rn] reads (besides the transmission table) / the fields [Hn] reads *)
Definition rv (x : node) :=
  (role x, term x, voted x, votes x, log x, commit x, match_idx x, stored (sr x), incoming (sr x),
   noop_idx x, others x).
Definition hv (x : node) :=
  (log x, queue x, replay_idx x, applied x, readonly x, commit x, srv x, role x, noop_idx x, change_idx x).
(* what a stuttering phase must keep: [fwm] (transmission table free) or [fvm] *)
Definition fwm (x : node) := (fw x, noop_idx x, change_idx x).
Definition fvm (x : node) := (fv x, noop_idx x, change_idx x).

Lemma rv_eq x y : rv x = rv y ->
  role x = role y /\ term x = term y /\ voted x = voted y /\ votes x = votes y /\ log x = log y /\
  commit x = commit y /\ match_idx x = match_idx y /\ stored (sr x) = stored (sr y) /\
  incoming (sr x) = incoming (sr y) /\ noop_idx x = noop_idx y /\ others x = others y.
Proof. unfold rv. intros H. repeat split; congruence. Qed.

Lemma hv_eq x y : hv x = hv y ->
  log x = log y /\ queue x = queue y /\ replay_idx x = replay_idx y /\
  applied x = applied y /\ readonly x = readonly y /\ commit x = commit y /\ srv x = srv y /\
  role x = role y /\ noop_idx x = noop_idx y /\ change_idx x = change_idx y.
Proof. unfold hv. intros H. repeat split; congruence. Qed.

Lemma fwm_fw x y : fwm x = fwm y -> fw x = fw y.
Proof. unfold fwm. congruence. Qed.
Lemma fwm_noop x y : fwm x = fwm y -> noop_idx x = noop_idx y.
Proof. unfold fwm. congruence. Qed.
Lemma fwm_change x y : fwm x = fwm y -> change_idx x = change_idx y.
Proof. unfold fwm. congruence. Qed.
Lemma fwm_intro x y : fw x = fw y -> noop_idx x = noop_idx y -> change_idx x = change_idx y -> fwm x = fwm y.
Proof. unfold fwm. congruence. Qed.

Lemma fvm_fv x y : fvm x = fvm y -> fv x = fv y.
Proof. unfold fvm. congruence. Qed.
Lemma fvm_noop x y : fvm x = fvm y -> noop_idx x = noop_idx y.
Proof. unfold fvm. congruence. Qed.
Lemma fvm_change x y : fvm x = fvm y -> change_idx x = change_idx y.
Proof. unfold fvm. congruence. Qed.
Lemma fvm_intro x y : fv x = fv y -> noop_idx x = noop_idx y -> change_idx x = change_idx y -> fvm x = fvm y.
Proof. unfold fvm. congruence. Qed.
Lemma fvm_fwm x y : fvm x = fvm y -> fwm x = fwm y.
Proof.
  intros H. apply fwm_intro; [apply fv_fw; apply fvm_fv; exact H|apply fvm_noop; exact H|apply fvm_change; exact H].
Qed.
Lemma fvm_trans x y : fvm x = fvm y -> trans (sr x) = trans (sr y).
Proof. intros H. pose proof (fvm_fv _ _ H) as F. fvinj F. congruence. Qed.

Lemma fwm_rv x y : fwm x = fwm y -> rv x = rv y.
Proof.
  intros H0. pose proof (fwm_fw _ _ H0) as H. pose proof (fwm_noop _ _ H0).
  fwinj_n H F. destruct (srv_eq _ _ Fsrv) as (A & B & C & D). unfold rv. congruence.
Qed.
Lemma fwm_hv x y : fwm x = fwm y -> hv x = hv y.
Proof.
  intros H0. pose proof (fwm_fw _ _ H0) as H. pose proof (fwm_noop _ _ H0). pose proof (fwm_change _ _ H0).
  fwinj_n H F. unfold hv. congruence.
Qed.

Lemma code_noop pk : code pk (noop_cmd pk) = 0%nat.
Proof. unfold code, is_noop, noop_cmd; cbn. rewrite N.eqb_refl. reflexivity. Qed.

Section Sim.
Variable c : conf.
Variable mf : N -> N -> N * N.
Variable V : list nid.
Hypothesis NDV : NoDup V.
Hypothesis SV : ssorted V.
Hypothesis VNE : V <> [].
Hypothesis VRO : forall v, In v V -> v < RO_BASE.
Hypothesis Hb1 : 1 < batch c.
Set Default Proof Using "All".

Notation V' := (absV V).
Notation Rn := (Rn c mf V).
Notation Rmsg := (Rmsg c mf V).
Notation Ro := (Ro c mf V).
Notation Hn := (Hn c mf).
Notation ksn := (ksn V).
Notation kstar := (kstar V).
Notation pk := (pk c).
Notation small := (small c mf).
Notation snap_valid := (snap_valid c mf V).
Notation blob_valid := (blob_valid c mf V).
Notation held := (held c mf V).
Notation kall := (kall V NDV VNE).
Notation kLC := (kLC V NDV VNE).

(* ---- facts about valid snapshots ---- *)
Lemma direct_prefix s T0 p0 C0 T1 p1 C1 k :
  KS.kreachable V' F0 s -> In (T0, p0, C0) (M.direct s) -> In (T1, p1, C1) (M.direct s) ->
  (k <= Sn p0)%nat -> (k <= Sn p1)%nat -> firstn k (M.llog s T0) = firstn k (M.llog s T1).
Proof.
  intros HR D D' L0 L1. pose proof (kall s HR) as A.
  pose proof (SA.A3 _ _ _ A) as I3. pose proof (SA.A4 _ _ _ A) as I4. pose proof (SA.A6 _ _ _ A) as I6.
  destruct (Nat.le_ge_cases T0 T1) as [L|L].
  - pose proof (S7.direct_compat s T0 p0 C0 T1 p1 C1 I3 I4 I6 (kLC s HR) D D' L) as F.
    symmetry. eapply ML.firstn_le_eq; [|exact F]. lia.
  - pose proof (S7.direct_compat s T1 p1 C1 T0 p0 C0 I3 I4 I6 (kLC s HR) D' D L) as F.
    eapply ML.firstn_le_eq; [|exact F]. lia.
Qed.

Lemma valid_two s sn sn' :
  KS.kreachable V' F0 s -> snap_valid s sn -> snap_valid s sn' -> eidx (s_e1 sn) = eidx (s_e1 sn') ->
  s_e1 sn = s_e1 sn' /\ s_e0 sn = s_e0 sn' /\ s_cluster sn = s_cluster sn'.
Proof.
  intros HR (Sa0 & Sa1 & Ca & K2 & T0 & p0 & C0 & D & Lp & E1 & E0 & Ms)
            (Sb0 & Sb1 & Cb & _ & T1 & p1 & C1 & D' & Lp' & E1' & E0' & Ms') Ek.
  rewrite <- Ek in *. set (k := n2 (eidx (s_e1 sn))) in *.
  pose proof (direct_prefix s T0 p0 C0 T1 p1 C1 k HR D D' Lp Lp') as Hc.
  assert (A1 : nth_error (M.llog s T0) (k - 1) = nth_error (M.llog s T1) (k - 1)).
  { apply (ML.firstn_eq_nth _ _ k); auto. lia. }
  assert (A0 : nth_error (M.llog s T0) (k - 2) = nth_error (M.llog s T1) (k - 2)).
  { apply (ML.firstn_eq_nth _ _ k); auto. lia. }
  rewrite E1, E1' in A1. rewrite E0, E0' in A0.
  split; [apply (absE_inj_small c mf); auto; congruence|].
  split; [apply (absE_inj_small c mf); auto; congruence|].
  apply ssorted_ext; [apply Ca|apply Cb|]. intros y. rewrite (Ms y), (Ms' y), Hc. tauto.
Qed.

Lemma node_prefix s j T0 p0 C0 k :
  KS.kreachable V' F0 s -> In (T0, p0, C0) (M.direct s) -> (k <= Sn p0)%nat ->
  (k <= M.commit (M.nodes s j))%nat ->
  firstn k (M.log (M.nodes s j)) = firstn k (M.llog s T0) /\ (k <= length (M.log (M.nodes s j)))%nat.
Proof.
  intros HR D Lp Hk.
  destruct (S7.I7_node _ (SA.A7 _ _ _ (kall s HR)) j) as (A & T1 & p1 & C1 & D' & _ & Lp' & F1).
  split; [|lia].
  assert (F1' : firstn k (M.log (M.nodes s j)) = firstn k (M.llog s T1)).
  { eapply ML.firstn_le_eq; [|exact F1]. lia. }
  rewrite F1'. symmetry. apply (direct_prefix s T0 p0 C0 T1 p1 C1 k HR D D'); lia.
Qed.

Lemma valid_own s j sn :
  KS.kreachable V' F0 s -> snap_valid s sn -> (n2 (eidx (s_e1 sn)) <= M.commit (M.nodes s j))%nat ->
  nth_error (M.log (M.nodes s j)) (n2 (eidx (s_e1 sn)) - 1) = Some (absE pk (s_e1 sn)) /\
  nth_error (M.log (M.nodes s j)) (n2 (eidx (s_e1 sn)) - 2) = Some (absE pk (s_e0 sn)) /\
  (n2 (eidx (s_e1 sn)) <= length (M.log (M.nodes s j)))%nat /\
  ms (s_cluster sn) (M.gcfg V' (firstn (n2 (eidx (s_e1 sn))) (M.log (M.nodes s j)))).
Proof.
  intros HR (_ & _ & _ & K2 & T0 & p0 & C0 & D & Lp & E1 & E0 & Ms) Hk.
  set (k := n2 (eidx (s_e1 sn))) in *.
  destruct (node_prefix s j T0 p0 C0 k HR D Lp Hk) as [Hc Hl].
  split; [|split; [|split; [lia|]]].
  - rewrite <- E1. apply (ML.firstn_eq_nth _ _ k); auto. lia.
  - rewrite <- E0. apply (ML.firstn_eq_nth _ _ k); auto. lia.
  - rewrite Hc. exact Ms.
Qed.

(* at the moment a voter serializes: its applied prefix, with the member set of that prefix, is a
   valid snapshot *)
Lemma valid_at s j (k : nat) e0' e1' cl :
  KS.kreachable V' F0 s -> (2 <= k)%nat -> (k <= M.commit (M.nodes s j))%nat ->
  nth_error (M.log (M.nodes s j)) (k - 1) = Some (absE pk e1') ->
  nth_error (M.log (M.nodes s j)) (k - 2) = Some (absE pk e0') ->
  n2 (eidx e1') = k -> small e0' -> small e1' ->
  csmall cl -> ms cl (M.gcfg V' (firstn k (M.log (M.nodes s j)))) ->
  forall h v ln, snap_valid s (mkSnap h v e1' e0' cl ln).
Proof.
  intros HR K2 Hk E1 E0 Ek S0' S1' Cs Ms h v ln.
  destruct (S7.I7_node _ (SA.A7 _ _ _ (kall s HR)) j) as (A & T1 & p1 & C1 & D' & _ & Lp' & F1).
  unfold RefineM2Abs.snap_valid. cbn [s_e0 s_e1 s_cluster]. rewrite Ek.
  split; auto. split; auto. split; auto. split; auto. exists T1, p1, C1. split; auto. split; [lia|].
  assert (Fk : firstn k (M.log (M.nodes s j)) = firstn k (M.llog s T1)).
  { eapply ML.firstn_le_eq; [|exact F1]. lia. }
  split; [|split].
  - rewrite <- E1. symmetry. apply (ML.firstn_eq_nth _ _ _ _ Fk). lia.
  - rewrite <- E0. symmetry. apply (ML.firstn_eq_nth _ _ _ _ Fk). lia.
  - rewrite <- Fk. exact Ms.
Qed.

(* ---- the relations depend on few fields ---- *)
Lemma held_rv x y s bl : commit y = commit x -> held x s bl -> held y s bl.
Proof. intros E H sn Hb. destruct (H sn Hb). split; auto. rewrite E. auto. Qed.

Lemma held_le x y s bl : commit x <= commit y -> held x s bl -> held y s bl.
Proof. intros E H sn Hb. destruct (H sn Hb). split; auto. lia. Qed.

Lemma Rn_rv n x y s : rv y = rv x -> tr_ok x y -> Rn n x s -> Rn n y s.
Proof.
  intros H T [A0 A1 A2 A3 A4 A5 A6 A7 A8 A9 A10 A11 A12].
  destruct (rv_eq _ _ H) as (E1 & E2 & E3 & E4 & E5 & E6 & E7 & E8 & E9 & E10 & E11).
  constructor; rewrite ?E1, ?E2, ?E3, ?E4, ?E5, ?E6, ?E7, ?E8, ?E9, ?E10, ?E11; auto.
  - intros bl Hb. eapply held_rv; eauto.
  - intros d bl off Hb. eapply held_rv; [exact E6|].
    destruct (T d bl off Hb) as [H1|(d' & off' & H1)]; eauto.
Qed.

Lemma Hn_hv x y : hv y = hv x -> Hn x -> Hn y.
Proof.
  intros H [A1 A2 A3 A4 A5 A6 A7 A8 A9 A10].
  destruct (hv_eq _ _ H) as (E1 & E2 & E3 & E4 & E5 & E6 & E7 & E8 & E9 & E10).
  destruct (srv_eq _ _ E7) as (P1 & P2 & P3 & P4).
  constructor; rewrite ?E1, ?E2, ?E3, ?E4, ?E5, ?E6, ?P1, ?P2, ?P3, ?P4; auto.
  eapply pend_p5; [|exact A10]. unfold p5. congruence.
Qed.

(* re-establishing the node relation after L0 steps: the blob facts follow by monotonicity *)
Lemma Rn_intro n x x' s s' :
  KS.kreachable V' F0 s -> kstar s s' -> Rn n x s ->
  stored (sr x') = stored (sr x) -> tr_ok x x' -> incoming (sr x') = incoming (sr x) ->
  commit x <= commit x' ->
  M.lf (M.nodes s' (n2 n)) = M.Up ->
  M.term (M.nodes s' (n2 n)) = n2 (term x') ->
  M.voted (M.nodes s' (n2 n)) = option_map n2 (voted x') ->
  M.rl (M.nodes s' (n2 n)) = absR (role x') ->
  (exists full, M.log (M.nodes s' (n2 n)) = absL pk full /\ suffix_of (log x') full /\
                Forall small full /\ others x' = fold_members (vminus n V) full (Some n)) ->
  M.commit (M.nodes s' (n2 n)) = n2 (commit x') ->
  (role x' = CANDIDATE ->
     length (M.votesFrom (M.nodes s' (n2 n))) = n2 (votes x') /\ In (n2 n) (M.votesFrom (M.nodes s' (n2 n)))) ->
  (forall f m, In f (others x') -> f <> n -> aget f (match_idx x') = Some m ->
     (n2 m <= M.matchIdx (M.nodes s' (n2 n)) (n2 f))%nat) ->
  (voted x' = Some n -> In (n2 (term x'), n2 n, n2 n) (M.grants s')) ->
  (role x' = LEADER -> noop_idx x' = Some (N.of_nat (M.noopi (M.nodes s' (n2 n))) + 1)) ->
  Rn n x' s'.
Proof.
  intros HR K [A0 A1 A2 A3 A4 A5 A6 A7 A8 A9 A10 A11 A12] Es T Ei Hc B0 B1 B2 B3 B4 B5 B6 B7 B8 B9.
  constructor; auto.
  - intros bl Hb. rewrite Es in Hb. eapply held_le; [exact Hc|]. eapply (held_kstar c mf V NDV VNE); eauto.
  - intros d bl off Hb. eapply held_le; [exact Hc|]. eapply (held_kstar c mf V NDV VNE); eauto.
    destruct (T d bl off Hb) as [H1|(d' & off' & H1)]; eauto.
  - intros ps bl o l Hi Hb. rewrite Ei in Hi. eapply (blob_valid_kstar c mf V NDV VNE); eauto.
Qed.

Record LS (n : nid) (s : M.state) (S : Node.S) : Prop := {
  LS_reach : KS.kreachable V' F0 s;
  LS_n : Rn n (nd S) s;
  LS_o : Ro n (outs S) s;
  LS_h : Hn (nd S);
  LS_self : self (nd S) = Some n;
  LS_lt : n < RO_BASE
}.

(* the ghost full log *)
Lemma Rn_full n x s :
  KS.kreachable V' F0 s -> Rn n x s ->
  exists full, M.log (M.nodes s (n2 n)) = absL pk full /\ wf1 full /\ suffix_of (log x) full /\
               Forall small full /\ others x = fold_members (vminus n V) full (Some n).
Proof.
  intros HR RN. destruct (Rn_log _ _ _ _ _ _ RN) as (full & E & Sx & Sm & Ho). exists full.
  split; auto. split; auto.
  pose proof (SA.A1 _ _ _ (kall s HR)) as I1.
  pose proof (S1.I1_log _ I1 (n2 n)) as Hl. pose proof (S1.I1_ne _ I1 (n2 n)) as Hne.
  rewrite E in Hl, Hne. eapply wf1_of_abs; eauto.
Qed.

Lemma LS_full n s S :
  LS n s S -> exists full, M.log (M.nodes s (n2 n)) = absL pk full /\ wf1 full /\ suffix_of (log (nd S)) full /\
               Forall small full /\ others (nd S) = fold_members (vminus n V) full (Some n).
Proof. intros L. apply Rn_full; [apply (LS_reach _ _ _ L)|apply (LS_n _ _ _ L)]. Qed.

Lemma LS_up n s S : LS n s S -> M.lf (M.nodes s (n2 n)) = M.Up.
Proof. intros L. apply (Rn_up _ _ _ _ _ _ (LS_n _ _ _ L)). Qed.

(* commit never exceeds the (full) log *)
Lemma Rn_commit_le n x s full :
  KS.kreachable V' F0 s -> Rn n x s -> M.log (M.nodes s (n2 n)) = absL pk full ->
  (n2 (commit x) <= length full)%nat.
Proof.
  intros HR RN E. destruct (S7.I7_node _ (SA.A7 _ _ _ (kall s HR)) (n2 n)) as (A & _).
  rewrite (Rn_commit _ _ _ _ _ _ RN), E, absL_length in A. exact A.
Qed.

(* ---- the member table ---- *)
Lemma base_abs n s : KS.kreachable V' F0 s -> M.base (M.nodes s (n2 n)) = M.del (n2 n) V'.
Proof.
  intros HR. destruct (SA.AB _ _ _ (kall s HR) (n2 n)) as (_ & _ & E). apply E; reflexivity.
Qed.

Lemma Rn_sorted n x s : Rn n x s -> ssorted (others x).
Proof.
  intros RN. destruct (Rn_log _ _ _ _ _ _ RN) as (full & _ & _ & _ & ->).
  apply ssorted_fold_members. apply ssorted_vminus. exact SV.
Qed.

Lemma Rn_ms n x s : KS.kreachable V' F0 s -> Rn n x s -> ms (others x) (M.others (n2 n) (M.nodes s (n2 n))).
Proof.
  intros HR RN. destruct (Rn_log _ _ _ _ _ _ RN) as (full & E & _ & _ & ->).
  unfold M.others. rewrite (base_abs n s HR), E. apply others_abs. apply ssorted_vminus. exact SV.
Qed.

Lemma Rn_oth_lt n x s f : Rn n x s -> In f (others x) -> f < RO_BASE.
Proof.
  intros RN Hf. destruct (Rn_log _ _ _ _ _ _ RN) as (full & _ & _ & Sm & Ho). rewrite Ho in Hf.
  eapply (fold_members_lt c); [|apply (Forall_small_old c mf); exact Sm|exact Hf].
  intros y Hy. apply VRO. unfold vminus in Hy. apply filter_In in Hy. tauto.
Qed.

Lemma LS_sorted n s S : LS n s S -> ssorted (others (nd S)).
Proof. intros L. apply (Rn_sorted n _ s). apply (LS_n _ _ _ L). Qed.

Lemma LS_ms n s S : LS n s S -> ms (others (nd S)) (M.others (n2 n) (M.nodes s (n2 n))).
Proof. intros L. apply Rn_ms; [apply (LS_reach _ _ _ L)|apply (LS_n _ _ _ L)]. Qed.

Lemma LS_oth_nodup n s : KS.kreachable V' F0 s ->
  NoDup (M.others (n2 n) (M.nodes s (n2 n))) /\ ~ In (n2 n) (M.others (n2 n) (M.nodes s (n2 n))).
Proof.
  intros HR. destruct (SA.AB _ _ _ (kall s HR) (n2 n)) as (A & B & _). apply S0.others_of_ok; auto.
Qed.

Lemma LS_cfg_len n s S : LS n s S ->
  length (M.cfg (n2 n) (M.nodes s (n2 n))) = Sn (length (others (nd S))).
Proof.
  intros L. unfold M.cfg. cbn [length]. f_equal. symmetry. apply ms_length.
  - apply ssorted_NoDup. apply (LS_sorted _ _ _ L).
  - apply (LS_oth_nodup n s (LS_reach _ _ _ L)).
  - apply (LS_ms _ _ _ L).
Qed.

Lemma LS_not_self n s S : LS n s S -> ~ In n (others (nd S)).
Proof.
  intros L Hi. apply (LS_ms _ _ _ L) in Hi. apply (proj2 (LS_oth_nodup n s (LS_reach _ _ _ L))). exact Hi.
Qed.

Lemma LS_in_cfg n s S d : LS n s S -> In d (others (nd S)) -> In (n2 d) (M.cfg (n2 n) (M.nodes s (n2 n))).
Proof. intros L Hd. right. apply (LS_ms _ _ _ L). exact Hd. Qed.

Lemma majority_abs n s S k :
  LS n s S -> majority k (nd S) = true ->
  M.majority_of (M.cfg (n2 n) (M.nodes s (n2 n))) (n2 k) = true.
Proof.
  intros L Hm. unfold M.majority_of. rewrite (LS_cfg_len _ _ _ L). unfold majority in Hm.
  apply Nat.ltb_lt. apply N.ltb_lt in Hm. lia.
Qed.

(* a phase that changes nothing the relation looks at (the transmission table may shrink or be
   refilled from the store) *)
Lemma LS_stutter_w n s S S' :
  LS n s S -> fwm (nd S') = fwm (nd S) -> tr_ok (nd S) (nd S') ->
  (exists new, outs S' = outs S ++ new /\ Ro n new s) -> LS n s S'.
Proof.
  intros [A1 A2 A3 A4 A5 A6] F T (new & O & Hnew). pose proof (fwm_fw _ _ F) as F1. fwinj_n F1 G.
  constructor; auto.
  - eapply Rn_rv; [|exact T|exact A2]. apply fwm_rv. auto.
  - rewrite O. apply Ro_app; auto.
  - eapply Hn_hv; [|exact A4]. apply fwm_hv. auto.
  - congruence.
Qed.

Lemma LS_stutter n s S S' :
  LS n s S -> fvm (nd S') = fvm (nd S) ->
  (exists new, outs S' = outs S ++ new /\ Ro n new s) -> LS n s S'.
Proof.
  intros L F H. eapply LS_stutter_w; eauto; [apply fvm_fwm; exact F|].
  apply tr_ok_same. apply fvm_trans. exact F.
Qed.

Lemma LS_same n s S S' : LS n s S -> nd S' = nd S -> outs S' = outs S -> LS n s S'.
Proof.
  intros L E1 E2. eapply LS_stutter; eauto; [rewrite E1; reflexivity|].
  exists []. rewrite app_nil_r. split; auto. apply Ro_nil.
Qed.

Lemma LS_ksn n s s' S S' :
  ksn (n2 n) s s' -> LS n s S ->
  Rn n (nd S') s' -> Hn (nd S') -> self (nd S') = Some n ->
  (exists new, outs S' = outs S ++ new /\ Ro n new s') -> LS n s' S'.
Proof.
  intros K [A1 A2 A3 A4 A5 A6] R' H' Hs (new & O & Hnew).
  constructor; auto.
  - eapply ksn_kreachable; eauto.
  - rewrite O. apply Ro_app; auto. eapply (Ro_mono c mf V NDV VNE); eauto.
Qed.

Definition simf (n : nid) (f : Node.S -> Node.S) : Prop :=
  forall S s, LS n s S -> exists s', ksn (n2 n) s s' /\ LS n s' (f S).

Lemma simf_andthen n f g : simf n f -> simf n g -> simf n (f ;; g).
Proof.
  intros Hf Hg S s L. rewrite andthen_eq. destruct (Hf S s L) as (s1 & K1 & L1).
  destruct (ok (f S)); [|eauto].
  destruct (Hg (f S) s1 L1) as (s2 & K2 & L2). exists s2. split; auto. eapply ksn_trans; eauto.
Qed.

Lemma simf_stutter n f :
  (forall S, fvm (nd (f S)) = fvm (nd S) /\
             exists new, outs (f S) = outs S ++ new /\ forall d m, ~ In (Send d m) new) ->
  simf n f.
Proof.
  intros H S s L. destruct (H S) as (F & new & O & Hnew). exists s. split; [constructor|].
  eapply LS_stutter; eauto. exists new. split; auto. intros d m Hin. destruct (Hnew d m Hin).
Qed.

(* ------------------------------------------------------------------------------------------ *)
Lemma nth_abs l p pe : nth_error l p = Some pe -> nth p (absL pk l) M.e0 = absE pk pe.
Proof. intros H. apply nth_error_nth. rewrite absL_nth, H. reflexivity. Qed.

(* the relation of node n survives steps that leave the nodes alone *)
Lemma Rn_same_nodes n x s s' :
  KS.kreachable V' F0 s -> ksn (n2 n) s s' ->
  (forall i, M.nodes s' i = M.nodes s i) -> Rn n x s -> Rn n x s'.
Proof.
  intros HR K E [A0 A1 A2 A3 A4 A5 A6 A7 A8 A9 A10 A11 A12].
  pose proof (ksn_kstar _ _ _ _ K) as KS. pose proof (ksn_ext _ _ _ _ K) as Ex.
  constructor; rewrite ?E; auto.
  - intros Hv. apply (ext_grants _ _ _ Ex). auto.
  - intros bl Hb. eapply (held_kstar c mf V NDV VNE); eauto.
  - intros d bl off Hb. eapply (held_kstar c mf V NDV VNE); eauto.
  - intros ps bl o l Hi Hb. eapply (blob_valid_kstar c mf V NDV VNE); eauto.
Qed.

Lemma first_is_e0 s j : KS.kreachable V' F0 s -> exists r, M.log (M.nodes s j) = M.e0 :: r.
Proof.
  intros HR. pose proof (S8.I8_log _ (S8.inv8_kreachable V' F0 s HR) j) as H.
  destruct (M.log (M.nodes s j)) as [|a r]; [discriminate|]. injection H as ->. eauto.
Qed.

Section AE.
Variable e : env.
Hypothesis Hc : cf e = c.

(* the AppendEntries / snapshot messages of a leader: one K_sendae per message to a member *)
Lemma sim_ae_outs n x full new : forall s,
  KS.kreachable V' F0 s -> Rn n x s -> M.log (M.nodes s (n2 n)) = absL pk full -> wf1 full -> Forall small full ->
  n < RO_BASE -> role x = LEADER ->
  (forall d, In d (others x) -> In (n2 d) (M.cfg (n2 n) (M.nodes s (n2 n))) /\ d <> n) ->
  Forall (fun y => RO_BASE <= y) (readonly x) ->
  Forall (ae_out e full x) new ->
  exists s', ksn (n2 n) s s' /\ (forall i, M.nodes s' i = M.nodes s i) /\ Ro n new s'.
Proof.
  induction new as [|o new IH]; intros s HR RN EL W Sm Hlt Hrole Hoth Hro Hall.
  - exists s. split; [constructor|]. split; auto. apply Ro_nil.
  - pose proof (Forall_inv Hall) as Ho. pose proof (Forall_inv_tail Hall) as Hall'.
    assert (Hj : M.lf (M.nodes s (n2 n)) = M.Up) by apply (Rn_up _ _ _ _ _ _ RN).
    assert (Hl : M.rl (M.nodes s (n2 n)) = M.Leader).
    { rewrite (Rn_role _ _ _ _ _ _ RN), Hrole. reflexivity. }
    assert (Hlen : (0 < length (M.log (M.nodes s (n2 n))))%nat).
    { rewrite EL, absL_length. apply wf1_length_pos; auto. }
    assert (Hhead : exists s1, ksn (n2 n) s s1 /\ (forall i, M.nodes s1 i = M.nodes s i) /\
                               Ro n [o] s1).
    { destruct o as [d m| | | |]; cbn in Ho; try contradiction.
      destruct Ho as [Hd Hm].
      destruct (smem d (others x)) eqn:Ed.
      - (* a member: the message gets its image *)
        apply smem_iff in Ed. destruct (Hoth d Ed) as [Hdc Hnd].
        assert (Hnd' : n2 d <> n2 n) by lia.
        assert (Hany : exists s1, ksn (n2 n) s s1 /\ (forall i, M.nodes s1 i = M.nodes s i) /\
                                  some_ae (term x) n d s1).
        { destruct (t_sendae_ok V' (n2 n) (n2 d) 0 0 s Hj Hl Hlen Hnd' Hdc) as [K E].
          exists (M.do_send_ae (n2 n) (n2 d) 0 0 s). split; [apply ksn_one; auto|]. split; [reflexivity|].
          unfold some_ae. do 4 eexists. cbn. left. rewrite (Rn_term _ _ _ _ _ _ RN). reflexivity. }
        destruct m as [| |t cm [[pi pt]|] es| |t cm p| | |]; cbn in Hm; try contradiction.
        + (* a regular AppendEntries *)
          destruct Hm as (-> & -> & Hpi & (pe & Hpe & Hpt) & (k & Hes) & Hsm).
          assert (Hp : (n2 pi - 1 < length (M.log (M.nodes s (n2 n))))%nat).
          { rewrite EL, absL_length. apply nth_error_Some. congruence. }
          destruct (t_sendae_ok V' (n2 n) (n2 d) (n2 pi - 1) k s Hj Hl Hp Hnd' Hdc) as [K E].
          exists (M.do_send_ae (n2 n) (n2 d) (n2 pi - 1) k s). split; [apply ksn_one; auto|]. split; [reflexivity|].
          intros d' m' [H|[]]. injection H as <- <-. cbn.
          split; [exact Hlt|]. split; auto. split.
          { rewrite Hes. apply Forall_firstn, Forall_skipn. exact Sm. }
          intros _. left. rewrite (Rn_term _ _ _ _ _ _ RN), EL, (Rn_commit _ _ _ _ _ _ RN).
          rewrite (nth_abs _ _ _ Hpe). cbn [M.eterm absE]. rewrite Hpt.
          replace (Sn (n2 pi - 1)) with (n2 pi) by lia.
          rewrite Hes, absL_firstn, absL_skipn. reflexivity.
        + (* prev = None: refused by every receiver *)
          destruct Hm as (-> & -> & _). destruct Hany as (s1 & K1 & E1 & A1).
          exists s1. split; auto. split; auto.
          intros d' m' [H|[]]. injection H as <- <-. cbn. repeat split; auto.
        + (* snapshot pieces *)
          destruct Hm as (-> & -> & Hp).
          destruct p as [|bl off len first last].
          { destruct Hany as (s1 & K1 & E1 & A1). exists s1. split; auto. split; auto.
            intros d' m' [H|[]]. injection H as <- <-. cbn. repeat split; auto. }
          assert (Hh : held x s bl).
          { destruct Hp as [Hp|(d0 & o0 & Hp)];
              [apply (Rn_stored _ _ _ _ _ _ RN _ Hp)|apply (Rn_trans _ _ _ _ _ _ RN _ _ _ Hp)]. }
          destruct bl as [sn|ln].
          2:{ destruct Hany as (s1 & K1 & E1 & A1). exists s1. split; auto. split; auto.
              intros d' m' [H|[]]. injection H as <- <-. cbn.
              split; [exact Hlt|]. split; [auto|]. split; [exact I|]. intros _. split; [exact A1|].
              intros _ sn0 Hx. discriminate. }
          destruct (Hh sn eq_refl) as [Hv Hk].
          set (k := n2 (eidx (s_e1 sn))) in *.
          assert (Hkc : (k <= M.commit (M.nodes s (n2 n)))%nat)
            by (rewrite (Rn_commit _ _ _ _ _ _ RN); unfold k; lia).
          destruct (valid_own s (n2 n) sn HR Hv Hkc) as (N1 & N0 & Hkl & _). fold k in N1, N0, Hkl.
          destruct (first_is_e0 s (n2 n) HR) as (r0 & Er).
          assert (K2 : (2 <= k)%nat) by (destruct Hv as (_ & _ & _ & K2 & _); exact K2).
          destruct (t_sendae_ok V' (n2 n) (n2 d) 0 (k - 1) s Hj Hl Hlen Hnd' Hdc) as [K E].
          set (s1 := M.do_send_ae (n2 n) (n2 d) 0 (k - 1) s) in *.
          assert (K1 : ksn (n2 n) s s1) by (apply ksn_one; auto).
          assert (Er0 : exists f0 fr, full = f0 :: fr /\ r0 = absL pk fr /\ absE pk f0 = M.e0).
          { rewrite EL in Er. destruct full as [|f0 fr]; [discriminate|].
            change (absE pk f0 :: absL pk fr = M.e0 :: r0) in Er.
            exists f0, fr. split; [reflexivity|]. split; congruence. }
          destruct Er0 as (f0 & fr & Ef & Er0 & Ef0).
          assert (Sfr : Forall small fr) by (rewrite Ef in Sm; inversion Sm; auto).
          assert (Hf0 : f0 = e00 c).
          { apply (absE_inj_small c mf).
            - rewrite Ef0. symmetry. apply absE_e00.
            - rewrite Ef in Sm. inversion Sm; auto.
            - apply small_noop. exact Hb1. }
          assert (Hnet : In (M.AppendEntries (n2 (term x)) (n2 n) (n2 d) 1 0 (absL pk (firstn (k - 1) fr)) (n2 (commit x)))
                            (M.net s1)).
          { unfold s1, M.do_send_ae. cbn [M.net]. left.
            rewrite (Rn_term _ _ _ _ _ _ RN), (Rn_commit _ _ _ _ _ _ RN), Er, Er0, absL_firstn. reflexivity. }
          assert (Hw : e00 c :: firstn (k - 1) fr = firstn k full).
          { rewrite Ef, Hf0. destruct k as [|k']; [lia|]. cbn [firstn]. replace (Sn k' - 1)%nat with k' by lia.
            reflexivity. }
          assert (Hsv : small (s_e1 sn) /\ small (s_e0 sn)) by (destruct Hv as (A & B & _); auto).
          assert (N1' : nth_error full (k - 1) = Some (s_e1 sn)).
          { rewrite EL, absL_nth in N1. destruct (nth_error full (k - 1)) as [y|] eqn:Ey; [|discriminate].
            cbn [option_map] in N1. f_equal. apply (absE_inj_small c mf); [congruence| |tauto].
            rewrite Forall_forall in Sm. apply Sm. eapply nth_error_In; eauto. }
          assert (N0' : nth_error full (k - 2) = Some (s_e0 sn)).
          { rewrite EL, absL_nth in N0. destruct (nth_error full (k - 2)) as [y|] eqn:Ey; [|discriminate].
            cbn [option_map] in N0. f_equal. apply (absE_inj_small c mf); [congruence| |tauto].
            rewrite Forall_forall in Sm. apply Sm. eapply nth_error_In; eauto. }
          exists s1. split; auto. split; [reflexivity|].
          intros d' m' [H|[]]. injection H as <- <-. cbn.
          split; [exact Hlt|]. split; auto.
          split; [eapply (snap_valid_kstar c mf V NDV VNE); eauto; eapply ksn_kstar; eauto|].
          intros _. split; [unfold some_ae; eauto|].
          intros _ sn0 Hx. injection Hx as <-. split; [exact Hk|].
          exists (firstn (k - 1) fr). split; [exact Hnet|]. fold k.
          split.
          { rewrite firstn_length. rewrite EL, absL_length, Ef in Hkl. cbn in Hkl. lia. }
          split; [apply Forall_firstn; exact Sfr|].
          rewrite Hw. split; rewrite ML.nth_error_firstn_lt by lia; assumption.
      - (* a read-only node: outside the abstract cluster, no image needed *)
        assert (Hd' : RO_BASE <= d).
        { destruct Hd as [Hd|Hd]; [apply smem_iff in Hd; congruence|].
          rewrite Forall_forall in Hro. auto. }
        exists s. split; [constructor|]. split; [reflexivity|].
        intros d' m' [H|[]]. injection H as <- <-.
        destruct m as [| |t cm [[pi pt]|] es| |t cm p| | |]; cbn in Hm; try contradiction; cbn.
        + destruct Hm as (-> & -> & Hpi & _ & (k & Hes) & _).
          split; [exact Hlt|]. split; [lia|]. split; [|intros; lia].
          rewrite Hes. apply Forall_firstn, Forall_skipn. exact Sm.
        + split; [exact Hlt|]. split; [lia|]. intros; lia.
        + destruct Hm as (_ & _ & Hp). destruct p as [|bl off len first last].
          * split; [exact Hlt|]. split; [lia|]. intros; lia.
          * split; [exact Hlt|]. split; [lia|]. split; [|intros; lia].
            assert (Hh : held x s bl).
            { destruct Hp as [Hp|(d0 & o0 & Hp)];
                [apply (Rn_stored _ _ _ _ _ _ RN _ Hp)|apply (Rn_trans _ _ _ _ _ _ RN _ _ _ Hp)]. }
            destruct bl as [sn|ln]; [|exact I]. apply (Hh sn eq_refl). }
    destruct Hhead as (s1 & K1 & E1 & R1).
    destruct (IH s1) as (s2 & K2 & E2 & R2); auto.
    { eapply ksn_kreachable; eauto. }
    { eapply Rn_same_nodes; eauto. }
    { rewrite E1. exact EL. }
    { intros d Hd. rewrite E1. auto. }
    exists s2. split; [eapply ksn_trans; eauto|]. split; [intros i; rewrite E2; auto|].
    change (o :: new) with ([o] ++ new). apply Ro_app; auto.
    eapply (Ro_mono c mf V NDV VNE); [|exact K2|exact R1]. eapply ksn_kreachable; eauto.
Qed.

(* ---- becoming leader ---- *)
Lemma suffix_consec l full : wf1 full -> suffix_of l full -> ProofsCommitLog.consec l.
Proof.
  intros [_ H] (b & -> & _).
  assert (G : forall l k, (forall p en, nth_error l p = Some en -> eidx en = N.of_nat (k + p) + 1) ->
                          ProofsCommitLog.consec l).
  { clear. induction l as [|a l IH]; intros k H; [exact I|]. split.
    - destruct l as [|b l]; [exact I|]. rewrite (H 1%nat b eq_refl), (H 0%nat a eq_refl). lia.
    - apply (IH (Sn k)). intros p en Hp. rewrite (H (Sn p) en Hp). f_equal. lia. }
  apply (G _ b). intros p en Hp. rewrite nth_error_skipn in Hp. apply (H _ _ Hp).
Qed.

Lemma sim_become_leader n S s :
  LS n s S -> role (nd S) = CANDIDATE -> majority (votes (nd S)) (nd S) = true ->
  exists s', ksn (n2 n) s s' /\ LS n s' (become_leader e S).
Proof.
  intros L Hr Hm.
  destruct (LS_full _ _ _ L) as (full & EL & W & Sx & Smf & Hof).
  pose proof (LS_h _ _ _ L) as HH. pose proof (LS_n _ _ _ L) as RN.
  pose proof (LS_up _ _ _ L) as Hj.
  assert (Sm : Forall (RefineMAbs.small (cf e)) (log (nd S))).
  { rewrite Hc. apply (Forall_small_old c mf). apply (H_small _ _ _ HH). }
  assert (Hb : 1 < batch (cf e)) by (rewrite Hc; exact Hb1).
  destruct (become_leader_spec e full S W Sx Sm Hb) as (mi & r & new & F & T & Hmi & O & Hr0 & Hnew).
  destruct (become_leader_p5 e S) as (P1 & P2 & P3 & P4 & P5). cbv zeta in P1, P2, P3, P4, P5.
  pose proof (become_leader_pend e S (suffix_consec _ _ W Sx)) as PP.
  set (S' := become_leader e S) in *. clearbody S'.
  set (x4 := (nd S) <| role := LEADER |> <| match_idx := mi |> <| log := log (nd S) ++ [noop_entry e (nd S)] |>) in *.
  set (x5 := x4 <| noop_idx := Some (last_idx (log (nd S)) + 1) |>).
  set (full4 := full ++ [noop_entry e (nd S)]) in *.
  assert (Hnew5 : Forall (ae_out e full4 x5) new).
  { eapply Forall_impl; [|exact Hnew]. intros o. apply ae_out_fw; [reflexivity|apply tr_ok_same; reflexivity]. }
  (* the L0 step *)
  assert (Hc0 : M.rl (M.nodes s (n2 n)) = M.Candidate).
  { rewrite (Rn_role _ _ _ _ _ _ RN), Hr. reflexivity. }
  assert (Hmaj : M.majority_of (M.cfg (n2 n) (M.nodes s (n2 n))) (length (M.votesFrom (M.nodes s (n2 n)))) = true).
  { rewrite (proj1 (Rn_votes _ _ _ _ _ _ RN Hr)). eapply majority_abs; eauto. }
  destruct (t_lead_ok V' (n2 n) s Hj Hc0 Hmaj) as [K E].
  set (s1 := M.do_lead (n2 n) s) in *.
  assert (K1 : ksn (n2 n) s s1) by (apply ksn_one; auto).
  assert (HR : KS.kreachable V' F0 s) by apply (LS_reach _ _ _ L).
  assert (Enoop : noop_entry e (nd S) = mkEntry (noop_cmd pk) (last_idx (log (nd S)) + 1) (term (nd S))).
  { unfold noop_entry. rewrite Hc. reflexivity. }
  assert (EL0 : M.log (M.nodes s (n2 n)) ++ [M.noop (M.nodes s (n2 n))] = absL pk full4).
  { unfold full4. rewrite absL_app, EL. f_equal. cbn [absL map]. f_equal. rewrite Enoop. unfold absE, M.noop.
    cbn [eidx eterm ecmd]. rewrite enc_noop, (Rn_term _ _ _ _ _ _ RN), EL, absL_length.
    rewrite (suffix_last_idx _ _ Sx), (wf1_last_idx _ W). f_equal. lia. }
  assert (Sm4 : Forall small full4).
  { unfold full4. apply Forall_app. split; [exact Smf|]. constructor; [|constructor].
    rewrite Enoop. apply small_noop. exact Hb1. }
  assert (RN1 : Rn n x5 s1).
  { pose proof (ksn_kstar _ _ _ _ K1) as KS1.
    destruct RN as [A0 A1 A2 A3 A4 A5 A6 A7 A8 A9 A10 A11 A12].
    constructor; try (unfold s1, M.do_lead; cbn [M.nodes M.grants]; rewrite ?upd_eq;
      cbn [M.term M.voted M.rl M.log M.commit M.votesFrom M.matchIdx M.lf M.noopi]).
    - exact A0.
    - exact A1.
    - exact A2.
    - reflexivity.
    - exists full4. split; [exact EL0|]. split; [unfold x5, x4, full4; cbn; apply suffix_app; exact Sx|].
      split; [exact Sm4|]. unfold x5, x4, full4. cbn [others set]. rewrite Hof, fold_members_snoc.
      rewrite Enoop. reflexivity.
    - exact A5.
    - intros Hx. compute in Hx. discriminate.
    - intros f m Hf Hne Hg. cbn in Hg. cbn in Hf.
      assert (Hf0 : aget f mi = Some 0) by (apply Hmi; exact Hf).
      rewrite Hf0 in Hg. injection Hg as <-. cbn. lia.
    - exact A8.
    - intros _. unfold x5. cbn [noop_idx set]. rewrite EL, absL_length.
      rewrite (suffix_last_idx _ _ Sx), (wf1_last_idx _ W). reflexivity.
    - intros bl Hb0. apply (held_kstar c mf V NDV VNE (nd S) s); auto.
    - intros d bl off Hb0. apply (held_kstar c mf V NDV VNE (nd S) s); eauto.
    - intros ps bl o l Hi Hb0. apply (blob_valid_kstar c mf V NDV VNE s); eauto. }
  assert (W4 : wf1 full4).
  { unfold full4. apply wf1_app; auto. rewrite Enoop. cbn. rewrite (suffix_last_idx _ _ Sx). reflexivity. }
  assert (HR1 : KS.kreachable V' F0 s1) by (eapply ksn_kreachable; eauto).
  assert (EL1 : M.log (M.nodes s1 (n2 n)) = absL pk full4).
  { unfold s1, M.do_lead. cbn [M.nodes]. rewrite upd_eq. cbn [M.log]. exact EL0. }
  assert (Hoc : forall d, In d (others x5) -> In (n2 d) (M.cfg (n2 n) (M.nodes s1 (n2 n))) /\ d <> n).
  { intros d Hd. split.
    - right. apply (Rn_ms n x5 s1 HR1 RN1). exact Hd.
    - intros ->. cbn in Hd. apply (LS_not_self _ _ _ L). exact Hd. }
  destruct (sim_ae_outs n x5 full4 new s1) as (s2 & K2 & E2 & R2); auto.
  - apply (LS_lt _ _ _ L).
  - apply (H_ro _ _ _ HH).
  - exists s2. split; [eapply ksn_trans; eauto|].
    fwinj_n F G.
    apply (LS_ksn n s s2 S S').
    + eapply ksn_trans; eauto.
    + exact L.
    + eapply Rn_rv; [| |eapply Rn_same_nodes; [exact HR1|exact K2|exact E2|exact RN1]].
      * destruct (srv_eq _ _ Gsrv) as (Q1 & Q2 & Q3 & Q4). unfold rv. cbn in *. congruence.
      * intros d bl off Hin. destruct (T d bl off Hin) as [H1|(d' & o' & H1)]; [left|right]; eauto.
    + destruct HH as [B1 B2 B3 B4 B5 B6 B7 B8 B9 B10].
      destruct (srv_eq _ _ Gsrv) as (Q1 & Q2 & Q3 & Q4). cbn in Q1, Q2, Q3, Q4.
      constructor; rewrite ?Q1, ?Q2, ?Q3, ?Q4, ?Gqueue, ?Gapplied, ?Greplay, ?Gro, ?Gcommit; auto.
      * rewrite Glog. apply Forall_app. split; [exact B1|]. constructor; [|constructor].
        rewrite Enoop. apply small_noop. exact Hb1.
      * rewrite Glog. pose proof (suffix_ne _ _ Sx) as Hne0.
        destruct (log (nd S)); [contradiction|exact B6].
    + rewrite Gself. apply (LS_self _ _ _ L).
    + exists (r ++ new). split; auto. apply Ro_app; auto.
      intros d m Hin. destruct (Hr0 d m Hin).
Qed.

End AE.
End Sim.
