(* Tier C2, part 8: snapshot pieces at a voter.  A piece that does not complete a file is an
   L0 refusal (the node only stores it); the piece that completes a file makes the node load
   the dump: a dump that is not ahead of the node is dropped; otherwise the install is L0's
   acceptance of the AppendEntries with prev = (1, term 0) carrying entries 2..k of the sender's
   log: either the follower already holds entries k-1, k (its full log is unchanged and the L1
   log is trimmed to k-1), or its full log becomes exactly the k entries (L1 log [e0; e1]). *)
From Coq Require Import ZArith NArith List Bool Lia ZifyBool Arith PeanoNat.
From RecordUpdate Require Import RecordSet.
From PSO Require Import Raft.Types Raft.Node Raft.Net Raft.ProofsCommitBase Raft.ProofsSnapshotBase.
From PSO Require Import Raft.ProofsElectionBase Raft.RefineAbs Raft.RefineK Raft.RefineSpecA Raft.RefineTickA
  Raft.RefineMsgB.
From PSO Require Import Raft.Refine2Abs Raft.Refine2SpecA Raft.Refine2Sim Raft.Refine2TickA Raft.Refine2TickB
  Raft.Refine2MsgB.
From PSO Require Abstract.Model Abstract.Lib Abstract.Kstep Abstract.Safety1_WF.
Import ListNotations.
Import RecordSetNotations.
Open Scope N_scope.
#[local] Arguments firstn : simpl nomatch.
#[local] Arguments skipn : simpl nomatch.

(* ------------------------------------------------------------------------------------------ *)
(* L1: __loadDumpFile                                                                         *)

Definition kept_of (l : list entry) (e0 e1 : entry) : bool :=
  match get_entries l (Some (eidx e0)) (Some 2) None with
  | [a; b] => entry_eqb a e0 && entry_eqb b e1
  | _ => false
  end.

Definition keep_of (l : list entry) (e0 e1 : entry) : bool :=
  match l with a :: b :: _ => entry_eqb a e0 && entry_eqb b e1 | _ => false end.

Lemma load_dump_eq e s sn :
  stored (sr (nd s)) = Some (Good sn) -> load_dump_ok s = true -> dyn (cf e) = false ->
  load_dump e true s =
    let s1 := upd (fun n => n <| hist := s_hist sn |> <| enabled_ver := s_ver sn |>) s in
    let s2 := if kept_of (log (nd s)) (s_e0 sn) (s_e1 sn)
              then upd (fun n => n <| log := delete_to (log n) (eidx (s_e0 sn)) |>) s1 else s1 in
    let s3 := if negb (keep_of (log (nd s2)) (s_e0 sn) (s_e1 sn))
              then upd (fun n => n <| log := [s_e0 sn; s_e1 sn] |>
                                    <| replay_idx := N.min (replay_idx n) (eidx (s_e1 sn)) |>) s2 else s2 in
    upd (fun n => n <| applied := eidx (s_e1 sn) |>) s3.
Proof.
  intros Hst Hok Hd. unfold load_dump_ok in Hok. rewrite Hst in Hok. apply andb_prop in Hok as [H1 H2].
  apply negb_true_iff in H1.
  assert (H3 : (self_ver (nd s) <? s_ver sn) = false) by lia.
  unfold load_dump. rewrite Hst, H1. cbn [andb]. rewrite H3, Hd. reflexivity.
Qed.

Lemma load_dump_keep e s sn r :
  stored (sr (nd s)) = Some (Good sn) -> load_dump_ok s = true -> dyn (cf e) = false ->
  kept_of (log (nd s)) (s_e0 sn) (s_e1 sn) = true ->
  delete_to (log (nd s)) (eidx (s_e0 sn)) = s_e0 sn :: s_e1 sn :: r ->
  fv (nd (load_dump e true s)) =
    fv ((nd s) <| log := s_e0 sn :: s_e1 sn :: r |> <| applied := eidx (s_e1 sn) |>) /\
  outs (load_dump e true s) = outs s.
Proof.
  intros Hst Hok Hd Hk Hdel. rewrite (load_dump_eq e s sn Hst Hok Hd). cbv zeta. rewrite Hk.
  set (s1 := upd (fun n => n <| hist := s_hist sn |> <| enabled_ver := s_ver sn |>) s).
  assert (E2 : log (nd (upd (fun n => n <| log := delete_to (log n) (eidx (s_e0 sn)) |>) s1)) =
               s_e0 sn :: s_e1 sn :: r) by exact Hdel.
  rewrite E2. unfold keep_of. rewrite !entry_eqb_refl. cbn [andb negb].
  split; [|reflexivity]. apply fv_intro; try reflexivity. exact Hdel.
Qed.

Lemma load_dump_replace e s sn :
  stored (sr (nd s)) = Some (Good sn) -> load_dump_ok s = true -> dyn (cf e) = false ->
  kept_of (log (nd s)) (s_e0 sn) (s_e1 sn) = false ->
  keep_of (log (nd s)) (s_e0 sn) (s_e1 sn) = false ->
  fv (nd (load_dump e true s)) =
    fv ((nd s) <| log := [s_e0 sn; s_e1 sn] |>
               <| replay_idx := N.min (replay_idx (nd s)) (eidx (s_e1 sn)) |>
               <| applied := eidx (s_e1 sn) |>) /\
  outs (load_dump e true s) = outs s.
Proof.
  intros Hst Hok Hd Hk Hk2. rewrite (load_dump_eq e s sn Hst Hok Hd). cbv zeta. rewrite Hk.
  set (s1 := upd (fun n => n <| hist := s_hist sn |> <| enabled_ver := s_ver sn |>) s).
  change (log (nd s1)) with (log (nd s)). rewrite Hk2. cbn [negb].
  split; reflexivity.
Qed.

Lemma load_dump_behind e s sn :
  stored (sr (nd s)) = Some (Good sn) -> (eidx (s_e1 sn) <=? applied (nd s)) = true ->
  load_dump e true s = upd (fun n => n <| force_compact := true |> <| last_ser_entry := None |>) s.
Proof. intros Hst H. unfold load_dump. rewrite Hst, H. reflexivity. Qed.

Lemma load_dump_corrupt e s k :
  stored (sr (nd s)) = Some (Corrupt k) -> load_dump e true s = s.
Proof. intros Hst. unfold load_dump. rewrite Hst. reflexivity. Qed.

Lemma ae_tail2 from cm v sA :
  let s' := ae_commit cm (Some v) (send_next_idx from (Some (v + 1)) false true sA) in
  fv (nd s') = fv ((nd sA) <| commit := if commit (nd sA) <? cm
                                        then N.max (commit (nd sA)) (N.min cm v) else commit (nd sA) |>) /\
  grow (fun o => o = Send from (NextIdx (term (nd sA)) (v + 1) false true)) sA s'.
Proof.
  cbv zeta. unfold ae_commit, send_next_idx.
  set (sC := send from (NextIdx (term (nd sA)) (v + 1) false true) sA).
  assert (NC : nd sC = nd sA) by (unfold sC; apply nd_send).
  assert (GC : grow (fun o => o = Send from (NextIdx (term (nd sA)) (v + 1) false true)) sA sC).
  { unfold sC. apply grow_send. reflexivity. }
  rewrite NC.
  destruct (commit (nd sA) <? cm).
  - split; [rewrite !nd_upd, NC; reflexivity|].
    eapply grow_trans; [exact GC|]. eapply grow_trans; apply grow_upd.
  - split; [rewrite nd_upd, NC; reflexivity|].
    eapply grow_trans; [exact GC|]. apply grow_upd.
Qed.

(* ---- pieces ---- *)
Lemma assemble_good ps sn0 :
  assemble_snap ps = Good sn0 -> (exists o l r, ps = (Good sn0, o, l) :: r) /\ pieces_contig sn0 0 ps = true.
Proof.
  unfold assemble_snap. destruct ps as [|[[b o] l] r]; [discriminate|].
  destruct b as [s0|]; [|discriminate].
  intros H. match type of H with (if ?b then _ else _) = _ => destruct b eqn:E end; [|discriminate H].
  injection H as <-. split; eauto.
Qed.

Lemma contig_last sn ps b o l : forall off,
  pieces_contig sn off (ps ++ [(b, o, l)]) = true -> exists s', b = Good s' /\ snap_eqb sn s' = true.
Proof.
  induction ps as [|[[b' o'] l'] ps IH]; intros off H; cbn in H.
  - destruct b as [s'|]; [|discriminate]. apply andb_prop in H as [H _]. apply andb_prop in H as [H _]. eauto.
  - destruct b'; [|discriminate]. apply andb_prop in H as [_ H]. eapply IH; eauto.
Qed.

(* ---- the two outcomes of an install, on lists ---- *)
Lemma install_keep l full e0 e1 (k : nat) :
  wf1 full -> suffix_of l full -> (2 <= k)%nat -> first_idx l <= N.of_nat k - 1 ->
  nth_error full (k - 1) = Some e1 -> nth_error full (k - 2) = Some e0 ->
  kept_of l e0 e1 = true /\
  exists r, delete_to l (eidx e0) = e0 :: e1 :: r /\ suffix_of (e0 :: e1 :: r) full.
Proof.
  intros W Sx Hk Hfi N1 N0.
  assert (Ei0 : eidx e0 = N.of_nat k - 1) by (destruct W as [_ H]; rewrite (H _ _ N0); lia).
  destruct (suffix_base l full W Sx) as (b & E & Hb & Efi).
  assert (Hsk : skipn (k - 2) full = e0 :: e1 :: skipn k full).
  { rewrite (skipn_nth_cons _ _ _ N0). replace (Sn (k - 2)) with (k - 1)%nat by lia.
    rewrite (skipn_nth_cons _ _ _ N1). replace (Sn (k - 1)) with k by lia. reflexivity. }
  split.
  - unfold kept_of. rewrite (suffix_ge l full W Sx) by lia. rewrite (ge_count full _ 2 W) by lia.
    rewrite Ei0. replace (n2 (N.of_nat k - 1) - 1)%nat with (k - 2)%nat by lia. rewrite Hsk.
    change (n2 2) with 2%nat. cbn [firstn]. rewrite !entry_eqb_refl. reflexivity.
  - exists (skipn k full). split.
    + unfold delete_to. rewrite Efi, Ei0. destruct (N.of_nat k - 1 <? N.of_nat b + 1) eqn:E1; [lia|].
      rewrite E, skipn_skipn'.
      replace (b + n2 (N.of_nat k - 1 - (N.of_nat b + 1)))%nat with (k - 2)%nat by lia. exact Hsk.
    + exists (k - 2)%nat. split; [symmetry; exact Hsk|]. apply nth_error_Some. congruence.
Qed.

Lemma install_replace l full e0 e1 (k : nat) :
  wf1 full -> suffix_of l full -> (2 <= k)%nat -> first_idx l <= N.of_nat k - 1 ->
  eidx e0 = N.of_nat k - 1 ->
  (forall b, nth_error full (k - 1) = Some b -> eterm b = eterm e1 -> False) ->
  kept_of l e0 e1 = false /\ keep_of l e0 e1 = false.
Proof.
  intros W Sx Hk Hfi Ei0 Hno.
  destruct (suffix_base l full W Sx) as (b & E & Hb & Efi).
  split.
  - unfold kept_of. rewrite (suffix_ge l full W Sx) by lia. rewrite (ge_count full _ 2 W) by lia.
    rewrite Ei0. replace (n2 (N.of_nat k - 1) - 1)%nat with (k - 2)%nat by lia.
    change (n2 2) with 2%nat.
    destruct (firstn 2 (skipn (k - 2) full)) as [|a0 [|b0 [|c0 r0]]] eqn:Ef; try reflexivity.
    destruct (entry_eqb b0 e1) eqn:Eb; [|apply andb_false_r]. exfalso.
    apply entry_eqb_true in Eb. destruct Eb as (_ & _ & Et).
    apply (Hno b0); auto.
    assert (X : nth_error (firstn 2 (skipn (k - 2) full)) 1 = Some b0) by (rewrite Ef; reflexivity).
    rewrite ML.nth_error_firstn_lt in X by lia. rewrite nth_error_skipn in X.
    replace (k - 2 + 1)%nat with (k - 1)%nat in X by lia. exact X.
  - unfold keep_of. destruct l as [|a0 [|b0 r0]]; try reflexivity.
    destruct (entry_eqb a0 e0) eqn:Ea; [|reflexivity]. destruct (entry_eqb b0 e1) eqn:Eb; [|reflexivity]. exfalso.
    apply entry_eqb_true in Ea, Eb. destruct Ea as (_ & Ea & _). destruct Eb as (_ & _ & Et).
    cbn [first_idx] in Efi.
    apply (Hno b0); auto.
    assert (X : nth_error (a0 :: b0 :: r0) 1 = Some b0) by reflexivity.
    rewrite E in X. rewrite nth_error_skipn in X.
    replace (b + 1)%nat with (k - 1)%nat in X by lia. exact X.
Qed.

Lemma skipn_last_two (l : list entry) (k : nat) e0 e1 :
  length l = k -> (2 <= k)%nat -> nth_error l (k - 1) = Some e1 -> nth_error l (k - 2) = Some e0 ->
  skipn (k - 2) l = [e0; e1].
Proof.
  intros Hl Hk N1 N0.
  rewrite (skipn_nth_cons _ _ _ N0). replace (Sn (k - 2)) with (k - 1)%nat by lia.
  rewrite (skipn_nth_cons _ _ _ N1). replace (Sn (k - 1)) with k by lia.
  rewrite skipn_all2 by lia. reflexivity.
Qed.

(* the fragment: a complete dump that is ahead of the node is never refused for its version *)
Definition ver_ok (e : env) (a : nid) (m : msg) (x : node) : Prop :=
  match m with
  | AESnap t cm p =>
      forall s1, fst (set_transmission p (ae_pre e a t cm (start_S e x))) = s1 ->
        snd (set_transmission p (ae_pre e a t cm (start_S e x))) = true ->
        forall sn, stored (sr (nd s1)) = Some (Good sn) -> s_ver sn <= self_ver (nd s1)
  | _ => True
  end.

Section Msg.
Variable c : conf.
Variable V : list nid.
Hypothesis NDV : NoDup V.
Hypothesis VRO : forall v, In v V -> v < RO_BASE.
Hypothesis VNE : V <> [].
Hypothesis Hb1 : 1 < batch c.
Hypothesis Hdyn : dyn c = false.
Hypothesis Hfd : file_dump c = false.
Variable e : env.
Hypothesis Hc : cf e = c.
Set Default Proof Using "All".

Notation V' := (absV V).
Notation Rn := (Rn c V).
Notation Rmsg := (Rmsg c).
Notation Ro := (Ro c).
Notation Hn := (Hn c).
Notation ksn := (ksn V).
Notation kstar := (kstar V).
Notation LS := (LS c V).
Notation pk := (pk c).
Notation held := (held c).
Notation blob_valid := (blob_valid c).
Notation snap_valid := (snap_valid c).
Notation bsmall := (bsmall c).
Notation blobs_ok := (blobs_ok c).
Notation e00 := (e00 c).
Notation LS_full := (LS_full c V NDV VRO VNE Hb1).
Notation valid_two := (valid_two c V NDV VRO VNE Hb1).
Notation first_is_e0 := (first_is_e0 c V NDV VRO VNE Hb1).
Notation sim_ae_fail := (sim_ae_fail c V NDV VRO VNE Hb1 Hdyn Hfd e Hc).
Notation sim_ae_ok := (sim_ae_ok c V NDV VRO VNE Hb1 Hdyn Hfd e Hc).
Notation blobs_ok_same := (blobs_ok_same c V NDV VRO VNE Hb1 Hdyn Hfd e Hc).

Lemma Hn_sr x y :
  log y = log x -> queue y = queue x -> replay_idx y = replay_idx x -> applied y = applied x ->
  readonly y = readonly x -> commit y = commit x -> pid (sr y) = pid (sr x) -> cur_id (sr y) = cur_id (sr x) ->
  (forall bl, stored (sr y) = Some bl -> bsmall bl) ->
  (forall ps bl o l, incoming (sr y) = Some ps -> In (bl, o, l) ps -> bsmall bl) ->
  Hn x -> Hn y.
Proof.
  intros E1 E2 E3 E4 E5 E6 E7 E8 Hs Hi [A1 A2 A3 A4 A5 A6 A7 A8 A9].
  constructor; rewrite ?E1, ?E2, ?E3, ?E4, ?E5, ?E6, ?E7, ?E8; auto.
Qed.

Lemma img_wf1 s t a pt Wl cm :
  KS.kreachable V' s -> In (M.AppendEntries t a 1 pt (absL pk Wl) cm) (M.net s) -> wf1 (e00 :: Wl).
Proof.
  intros HR Hin. pose proof (S1.I1_msg _ (S1.inv1_kreachable V' s HR) _ _ _ _ _ _ Hin) as Hes.
  split; [discriminate|]. intros p en Hp. destruct p as [|p].
  - injection Hp as <-. reflexivity.
  - cbn in Hp. specialize (Hes p (absE pk en)). rewrite absL_nth, Hp in Hes.
    destruct (Hes eq_refl) as [H1 _]. cbn in H1. lia.
Qed.

(* the outcome of an install, in the terms of the node before the handler *)
Lemma install_outcome n s (x0 : node) (S1b : Node.S) sn0 Wl full t a cm :
  KS.kreachable V' s -> M.log (M.nodes s (n2 n)) = absL pk full -> wf1 full -> suffix_of (log x0) full ->
  Hn x0 ->
  log (nd S1b) = log x0 -> replay_idx (nd S1b) = replay_idx x0 -> applied (nd S1b) = applied x0 ->
  stored (sr (nd S1b)) = Some (Good sn0) -> load_dump_ok S1b = true -> snap_valid s sn0 ->
  In (M.AppendEntries (n2 t) (n2 a) 1 0 (absL pk Wl) (n2 cm)) (M.net s) ->
  (length Wl + 1 = n2 (eidx (s_e1 sn0)))%nat ->
  nth_error (e00 :: Wl) (n2 (eidx (s_e1 sn0)) - 1) = Some (s_e1 sn0) ->
  nth_error (e00 :: Wl) (n2 (eidx (s_e1 sn0)) - 2) = Some (s_e0 sn0) ->
  nth_error full 0 = Some e00 /\
  exists lg rp, suffix_of lg (firstn 1 full ++ l1merge (skipn 1 full) Wl) /\ Forall (small c) lg /\
            first_idx lg <= eidx (s_e1 sn0) /\
            rp <= replay_idx x0 /\ (rp <= eidx (s_e1 sn0)) /\
            fv (nd (load_dump e true S1b)) =
              fv ((nd S1b) <| log := lg |> <| replay_idx := rp |> <| applied := eidx (s_e1 sn0) |>) /\
            outs (load_dump e true S1b) = outs S1b.
Proof.
  intros HR EL W Sx HN0 El Er Ea Est Eok Hv0 Hin HlenW N1 N0.
  assert (Hd : dyn (cf e) = false) by (rewrite Hc; exact Hdyn).
  set (K := eidx (s_e1 sn0)) in *. set (k := n2 K) in *.
  destruct Hv0 as (Sm0 & Sm1 & Hk2 & _). fold K in Hk2. fold k in Hk2.
  pose proof (img_wf1 s _ _ _ Wl _ HR Hin) as WW.
  assert (Ei0 : eidx (s_e0 sn0) = N.of_nat k - 1) by (destruct WW as [_ H]; rewrite (H _ _ N0); lia).
  (* the L0 facts about this AppendEntries *)
  destruct (first_is_e0 s (n2 n) HR) as (r0 & Er0).
  assert (Hf0 : nth_error full 0 = Some e00).
  { destruct full as [|f0 fr]; [destruct W as [W _]; contradiction|].
    rewrite EL in Er0. cbn in Er0. assert (X : absE pk f0 = M.e0) by congruence.
    rewrite <- (absE_e00 c) in X. apply absE_inj in X. rewrite X. reflexivity. }
  pose proof (S3.inv3_kreachable V' s HR) as I3. pose proof (S4.inv4_kreachable V' s HR) as I4.
  assert (Hp0 : nth_error (M.log (M.nodes s (n2 n))) 0 = Some M.e0) by (rewrite Er0; reflexivity).
  destruct (S4.ae_ok_facts s (n2 n) (n2 t) (n2 a) 0 0 (absL pk Wl) (n2 cm) M.e0 I3 I4 Hin Hp0 eq_refl)
    as (M1 & Fp & Hl1 & Wd).
  destruct (S4.ae_result _ _ 0 _ M1 Fp Hl1 Wd) as (HkL & Hcases). cbv zeta in HkL, Hcases.
  rewrite absL_length in HkL, Hcases.
  replace (1 + length Wl)%nat with k in HkL, Hcases by lia.
  set (Lt := M.llog s (n2 t)) in *.
  assert (HLk : firstn k Lt = absL pk (e00 :: Wl)).
  { replace k with (1 + length (absL pk Wl))%nat by (rewrite absL_length; lia).
    rewrite ML.firstn_add, (S4.window_eq _ _ _ Wd), <- Fp, Er0. cbn [firstn absL map].
    rewrite absE_e00. reflexivity. }
  set (full' := firstn 1 full ++ l1merge (skipn 1 full) Wl).
  assert (Hl' : firstn 1 (M.log (M.nodes s (n2 n))) ++ M.merge (skipn 1 (M.log (M.nodes s (n2 n)))) (absL pk Wl) =
                absL pk full').
  { unfold full'. rewrite EL, absL_app, absL_firstn. f_equal. rewrite <- absL_skipn. apply merge_abs. }
  rewrite Hl' in Hcases.
  assert (Hfi : first_idx (log x0) <= N.of_nat k - 1).
  { unfold load_dump_ok in Eok. rewrite Est in Eok. apply andb_prop in Eok as [Eok _].
    rewrite Ea in Eok.
    pose proof (H_fi _ _ HN0) as Hx. fold K in Eok. lia. }
  (* the L1 outcome: a log and a replay index *)
  assert (Hout : exists lg rp, suffix_of lg full' /\ Forall (small c) lg /\ first_idx lg <= K /\
            rp <= replay_idx x0 /\ (rp <= K) /\
            fv (nd (load_dump e true S1b)) =
              fv ((nd S1b) <| log := lg |> <| replay_idx := rp |> <| applied := K |>) /\
            outs (load_dump e true S1b) = outs S1b).
  { destruct Hcases as [(A1 & A2 & A3)|(A1 & A2)].
    - (* the follower holds entries k-1 and k: only the L1 log is trimmed *)
      rewrite EL in A1. apply absL_inj in A1.
      rewrite EL, HLk, <- absL_firstn in A3. apply absL_inj in A3.
      assert (N1f : nth_error full (k - 1) = Some (s_e1 sn0)).
      { rewrite <- (ML.nth_error_firstn_lt full k) by lia. rewrite A3. exact N1. }
      assert (N0f : nth_error full (k - 2) = Some (s_e0 sn0)).
      { rewrite <- (ML.nth_error_firstn_lt full k) by lia. rewrite A3. exact N0. }
      destruct (install_keep (log x0) full (s_e0 sn0) (s_e1 sn0) k W Sx Hk2 Hfi N1f N0f)
        as (Hkept & r & Hdel & Sx2).
      assert (Hkept' : kept_of (log (nd S1b)) (s_e0 sn0) (s_e1 sn0) = true).
      { rewrite El. exact Hkept. }
      assert (Hdel' : delete_to (log (nd S1b)) (eidx (s_e0 sn0)) = s_e0 sn0 :: s_e1 sn0 :: r).
      { rewrite El. exact Hdel. }
      destruct (load_dump_keep e S1b sn0 r Est Eok Hd Hkept' Hdel') as [Ffv Fo].
      exists (s_e0 sn0 :: s_e1 sn0 :: r), (replay_idx (nd S1b)).
      rewrite A1. split; [exact Sx2|]. split; [|split; [|split; [|split; [|split]]]].
      + rewrite <- Hdel. unfold delete_to. pose proof (H_small _ _ HN0) as C1.
        destruct (eidx (s_e0 sn0) <? first_idx (log x0)); [exact C1|apply Forall_skipn; exact C1].
      + cbn [first_idx]. rewrite Ei0. lia.
      + rewrite Er. lia.
      + rewrite Er.
        pose proof (H_rinv _ _ HN0) as Hx. pose proof (H_fi _ _ HN0) as Hy. 
        unfold load_dump_ok in Eok. rewrite Est in Eok. apply andb_prop in Eok as [Eok _].
        rewrite Ea in Eok. fold K in Eok. lia.
      + rewrite Ffv. apply fv_intro; reflexivity.
      + exact Fo.
    - (* otherwise the follower's log becomes the k entries of the message *)
      rewrite HLk in A1. apply absL_inj in A1.
      assert (Hno : forall b, nth_error full (k - 1) = Some b -> eterm b = eterm (s_e1 sn0) -> False).
      { intros b Hb Ht. apply A2.
        assert (Hbl : nth_error (M.log (M.nodes s (n2 n))) (k - 1) = Some (absE pk b)).
        { rewrite EL, absL_nth, Hb. reflexivity. }
        assert (HbL : nth_error Lt (k - 1) = Some (absE pk (s_e1 sn0))).
        { rewrite <- (ML.nth_error_firstn_lt Lt k) by lia. rewrite HLk, absL_nth, N1. reflexivity. }
        assert (Hte : M.eterm (absE pk b) = M.eterm (absE pk (s_e1 sn0))) by (cbn; rewrite Ht; reflexivity).
        pose proof (M1 _ _ _ Hbl HbL Hte) as F. replace (Sn (k - 1)) with k in F by lia.
        split; [|exact F].
        assert (k - 1 < length (M.log (M.nodes s (n2 n))))%nat by (apply nth_error_Some; congruence). lia. }
      destruct (install_replace (log x0) full (s_e0 sn0) (s_e1 sn0) k W Sx Hk2 Hfi Ei0 Hno) as [Hk1 Hk3].
      assert (Hk1' : kept_of (log (nd S1b)) (s_e0 sn0) (s_e1 sn0) = false).
      { rewrite El. exact Hk1. }
      assert (Hk3' : keep_of (log (nd S1b)) (s_e0 sn0) (s_e1 sn0) = false).
      { rewrite El. exact Hk3. }
      destruct (load_dump_replace e S1b sn0 Est Eok Hd Hk1' Hk3') as [Ffv Fo].
      exists [s_e0 sn0; s_e1 sn0], (N.min (replay_idx (nd S1b)) K).
      split; [|split; [|split; [|split; [|split; [|split]]]]].
      + rewrite A1. exists (k - 2)%nat. split.
        * symmetry. apply skipn_last_two; auto. cbn [length]. lia.
        * cbn [length]. lia.
      + constructor; [exact Sm0|constructor; [exact Sm1|constructor]].
      + cbn [first_idx]. rewrite Ei0. lia.
      + rewrite Er. lia.
      + lia.
      + exact Ffv.
      + exact Fo. }
  split; [exact Hf0|exact Hout].
Qed.

(* a refusing outcome of the snapshot branch *)
Lemma sim_refuse n a (S0 S1 S' : Node.S) s t :
  LS n s S0 -> a <> n -> some_ae t a s -> term (nd S0) <= t ->
  fv (nd S1) = fv ((nd S0) <| term := if term (nd S0) <? t then t else term (nd S0) |>
                           <| voted := if term (nd S0) <? t then None else voted (nd S0) |>
                           <| role := FOLLOWER |>) ->
  grow nosend S0 S1 ->
  fx (nd S') = fx (nd S1) -> blobs_ok (nd S0) (nd S') s -> Hn (nd S') -> outs S' = outs S1 ->
  exists s', ksn (n2 n) s s' /\ LS n s' S'.
Proof.
  intros L Hne Hs Et F1 G1 Efx B HN G. apply (sim_ae_fail n a S0 S' s t); auto.
  - rewrite Efx. apply fv_fx. exact F1.
  - eapply grow_mono; [|eapply grow_trans; [exact G1|exists []; rewrite app_nil_r; split; [exact G|constructor]]].
    intros o Ho. left. exact Ho.
Qed.

(* the file is complete: [S1b] is the node with the assembled blob [B] in its store *)
Lemma sim_complete n a (S0 S1 S1b : Node.S) s t cm B :
  LS n s S0 -> a < RO_BASE -> a <> n -> some_ae t a s -> term (nd S0) <= t ->
  fv (nd S1) = fv ((nd S0) <| term := if term (nd S0) <? t then t else term (nd S0) |>
                           <| voted := if term (nd S0) <? t then None else voted (nd S0) |>
                           <| role := FOLLOWER |>) ->
  grow nosend S0 S1 ->
  fx (nd S1b) = fx (nd S1) -> queue (nd S1b) = queue (nd S1) -> readonly (nd S1b) = readonly (nd S1) ->
  applied (nd S1b) = applied (nd S1) -> replay_idx (nd S1b) = replay_idx (nd S1) ->
  trans (sr (nd S1b)) = trans (sr (nd S1)) -> pid (sr (nd S1b)) = pid (sr (nd S1)) ->
  cur_id (sr (nd S1b)) = cur_id (sr (nd S1)) -> incoming (sr (nd S1b)) = None -> outs S1b = outs S1 ->
  stored (sr (nd S1b)) = Some B ->
  (forall sn0, B = Good sn0 -> snap_valid s sn0) ->
  (forall sn0, B = Good sn0 -> install_img c t a cm sn0 s) ->
  (forall sn, stored (sr (nd S1b)) = Some (Good sn) -> s_ver sn <= self_ver (nd S1b)) ->
  exists s', ksn (n2 n) s s' /\
    LS n s' (if load_dump_ok S1b
             then let s2 := load_dump e true S1b in
                  let v := applied (nd s2) in
                  ae_commit cm (Some v) (send_next_idx a (Some (v + 1)) false true s2)
             else ae_commit cm None (load_dump e true S1b)).
Proof.
  intros L Ha Hne Hs Et F1 G1 Bfx Bqueue Bro Bapplied Breplay Btrans Bpid Bcur Binc Bouts Est HvB Himg Hver.
  destruct (LS_full _ _ _ L) as (full & EL & W & Sx).
  pose proof (LS_h _ _ _ _ _ L) as HN0. pose proof (LS_reach _ _ _ _ _ L) as HR.
  fvinj_n F1 P. fxinj_n Bfx B.
  assert (Psr' : sr (nd S1) = sr (nd S0)) by exact Psr.
  assert (HnB : forall y, log y = log (nd S0) -> queue y = queue (nd S0) -> replay_idx y = replay_idx (nd S0) ->
                 applied y = applied (nd S0) -> readonly y = readonly (nd S0) -> commit y = commit (nd S0) ->
                 sr y = sr (nd S1b) -> Hn y).
  { intros y E1 E2 E3 E4 E5 E6 E7. apply (Hn_sr (nd S0)); try assumption.
    - rewrite E7, Bpid, Psr'. reflexivity.
    - rewrite E7, Bcur, Psr'. reflexivity.
    - intros b Hb. rewrite E7, Est in Hb. injection Hb as <-. destruct B as [sn0|k0] eqn:EB; [|exact I].
      apply (blob_valid_small c s (Good sn0)). apply HvB. reflexivity.
    - intros ps0 b o l Hi. rewrite E7, Binc in Hi. discriminate Hi. }
  destruct (load_dump_ok S1b) eqn:Eok.
  2:{ (* not installed *)
    assert (Hbl : forall y, sr y = sr (nd S1b) -> commit y = commit (nd S0) ->
                    (forall sn0, B = Good sn0 -> eidx (s_e1 sn0) <= applied (nd S0)) -> blobs_ok (nd S0) y s).
    { intros y E7 E6 Hbe. split; [|split].
      - intros b Hb. right. rewrite E7, Est in Hb. injection Hb as <-. intros sn0 EB.
        split; [apply HvB; exact EB|]. rewrite E6. pose proof (H_ac _ _ HN0). specialize (Hbe sn0 EB). lia.
      - apply tr_ok_same. rewrite E7, Btrans, Psr'. reflexivity.
      - intros ps0 b o l Hi. rewrite E7, Binc in Hi. discriminate Hi. }
    destruct B as [sn0|k0] eqn:EB.
    - unfold load_dump_ok in Eok. rewrite Est in Eok.
      specialize (Hver sn0 Est).
      assert (Hbe : (eidx (s_e1 sn0) <=? applied (nd S1b)) = true).
      { destruct (eidx (s_e1 sn0) <=? applied (nd S1b)); [reflexivity|]. cbn [negb andb] in Eok. lia. }
      rewrite (load_dump_behind e S1b sn0 Est Hbe).
      assert (Hbe' : eidx (s_e1 sn0) <= applied (nd S0)).
      { apply N.leb_le in Hbe. rewrite Bapplied, Papplied in Hbe. exact Hbe. }
      apply (sim_refuse n a S0 S1 _ s t L Hne Hs Et F1 G1).
      + rewrite <- Bfx. reflexivity.
      + apply Hbl; [reflexivity|exact (eq_trans Bcommit Pcommit)|]. intros sn1 E1. injection E1 as <-. exact Hbe'.
      + apply HnB; try reflexivity.
        * exact (eq_trans Blog Plog). * exact (eq_trans Bqueue Pqueue). * exact (eq_trans Breplay Preplay).
        * exact (eq_trans Bapplied Papplied). * exact (eq_trans Bro Pro). * exact (eq_trans Bcommit Pcommit).
      + exact Bouts.
    - rewrite (load_dump_corrupt e S1b k0 Est).
      apply (sim_refuse n a S0 S1 _ s t L Hne Hs Et F1 G1).
      + rewrite <- Bfx. reflexivity.
      + apply Hbl; [reflexivity|exact (eq_trans Bcommit Pcommit)|]. intros sn1 E1. discriminate E1.
      + apply HnB; try reflexivity.
        * exact (eq_trans Blog Plog). * exact (eq_trans Bqueue Pqueue). * exact (eq_trans Breplay Preplay).
        * exact (eq_trans Bapplied Papplied). * exact (eq_trans Bro Pro). * exact (eq_trans Bcommit Pcommit).
      + exact Bouts. }
  (* the install *)
  destruct B as [sn0|k0] eqn:EB; [|unfold load_dump_ok in Eok; rewrite Est in Eok; discriminate Eok].
  pose proof (HvB sn0 eq_refl) as Hv0.
  destruct (Himg sn0 eq_refl) as (Hkcm & Wl & Hin & HlenW & N1 & N0).
  clear Hver HnB.
  destruct (install_outcome n s (nd S0) S1b sn0 Wl full t a cm HR EL W Sx HN0 (eq_trans Blog Plog)
              (eq_trans Breplay Preplay) (eq_trans Bapplied Papplied) Est Eok Hv0
              Hin HlenW N1 N0) as (Hf0 & lg & rp & Sx' & Hsm' & Hfi' & Hrp1 & Hrp2 & Ffv & Fo).
  set (K := eidx (s_e1 sn0)) in *.
  set (full' := firstn 1 full ++ l1merge (skipn 1 full) Wl) in *.
  assert (Sm01 : small c (s_e0 sn0) /\ small c (s_e1 sn0)) by (destruct Hv0 as (Sm0 & Sm1 & _); auto).
  destruct Sm01 as [Sm0 Sm1].
  cbv zeta.
  set (S2 := load_dump e true S1b) in *. clearbody S2.
  fvinj_n Ffv Q.
  rewrite Qapplied.
  destruct (ae_tail2 a cm K S2) as [F3 G3]. cbv zeta in F3, G3.
  set (S3 := ae_commit cm (Some K) (send_next_idx a (Some (K + 1)) false true S2)) in *. clearbody S3.
  fvinj_n F3 T.
  set (cmt := if commit (nd S0) <? cm then N.max (commit (nd S0)) (N.min cm (K + 1 - 1)) else commit (nd S0)).
  assert (Hcmt : commit (nd S3) = cmt).
  { rewrite Tcommit, Qcommit, Bcommit, Pcommit.
    unfold cmt. replace (K + 1 - 1) with K by lia. reflexivity. }
  assert (HKc : K <= commit (nd S3)).
  { rewrite Hcmt. unfold cmt. replace (K + 1 - 1) with K by lia. clear - Hkcm.
    destruct (commit (nd S0) <? cm) eqn:E; lia. }
  assert (HapK : applied (nd S0) < K).
  { unfold load_dump_ok in Eok. rewrite Est in Eok. apply andb_prop in Eok as [Eok _].
    rewrite Bapplied, Papplied in Eok. fold K in Eok. clear - Eok. lia. }
  apply (sim_ae_ok n a S0 S3 s t cm 1 0 Wl e00 full full' cmt (K + 1)); auto.
  - lia.
  - rewrite Tlog, Qlog. exact Sx'.
  - clear - HlenW. fold K in HlenW. lia.
  - unfold fx. rewrite Tself, Toth, Trole, Tterm, Tvoted, Tmatch, Hcmt.
    rewrite Qself, Qoth, Qrole, Qterm, Qvoted, Qmatch.
    rewrite Bself, Both, Brole, Bterm, Bvoted, Bmatch.
    rewrite Pself, Poth, Prole, Pterm, Pvoted, Pmatch. reflexivity.
  - split; [|split].
    + intros b Hb. right. rewrite Tsr, Qsr, Est in Hb. injection Hb as <-. intros sn1 E1. injection E1 as <-.
      split; [apply HvB; reflexivity|exact HKc].
    + apply tr_ok_same. rewrite Tsr, Qsr, Btrans, Psr'. reflexivity.
    + intros ps0 b o l Hi. rewrite Tsr, Qsr, Binc in Hi. discriminate Hi.
  - destruct HN0 as [C1 C2 C3 C4 C5 C6 C7 C8 C9].
    constructor; rewrite ?Tlog, ?Tqueue, ?Treplay, ?Tapplied, ?Tro, ?Tsr,
      ?Qlog, ?Qqueue, ?Qreplay, ?Qapplied, ?Qro, ?Qsr; auto.
    + rewrite Bqueue, Pqueue. exact C2.
    + rewrite Bro, Pro. exact C4.
    + rewrite Bpid, Bcur, Psr'. intros Hp. specialize (C7 Hp). clear - C7 HapK. lia.
    + intros b Hb. rewrite Est in Hb. injection Hb as <-. split; assumption.
    + intros ps0 b o l Hi. rewrite Binc in Hi. discriminate Hi.
  - eapply grow_trans; [eapply grow_mono; [|exact G1]; intros o Ho; left; exact Ho|].
    eapply grow_trans; [exists []; rewrite app_nil_r; split; [exact Bouts|constructor]|].
    eapply grow_trans; [exists []; rewrite app_nil_r; split; [exact Fo|constructor]|].
    eapply grow_mono; [|exact G3]. intros o ->. right. rewrite Qterm, Bterm, Pterm.
    destruct (term (nd S0) <? t) eqn:E; [reflexivity|]. apply N.ltb_ge in E. f_equal. f_equal. clear - E Et. lia.
Qed.

Lemma sim_msg_aesnap n a x s t cm p :
  LS n s (start_S e x) -> Rmsg a n (AESnap t cm p) s -> ver_ok e a (AESnap t cm p) x ->
  exists s', ksn (n2 n) s s' /\ LS n s' (on_message e a (AESnap t cm p) x).
Proof.
  intros L Hm Hver. unfold on_message. unfold ver_ok in Hver. set (S0 := start_S e x) in *.
  rewrite on_append_entries_eq.
  destruct (t <? term (nd S0)) eqn:Et; [exists s; split; [constructor|exact L]|].
  apply N.ltb_ge in Et.
  destruct (ae_pre_spec e a t cm S0) as [F1 G1].
  set (S1 := ae_pre e a t cm S0) in *. clearbody S1. clearbody S0.
  pose proof (LS_h _ _ _ _ _ L) as HN0. pose proof (LS_n _ _ _ _ _ L) as RN.
  pose proof (LS_reach _ _ _ _ _ L) as HR.
  fvinj_n F1 P.
  assert (Hsa : a < RO_BASE /\ a <> n /\ some_ae t a s).
  { destruct p as [|bl off len first last]; cbn in Hm; tauto. }
  destruct Hsa as (Ha & Hne & Hs).
  assert (HnS : forall y, log y = log (nd S1) -> queue y = queue (nd S1) -> replay_idx y = replay_idx (nd S1) ->
                 applied y = applied (nd S1) -> readonly y = readonly (nd S1) -> commit y = commit (nd S1) ->
                 pid (sr y) = pid (sr (nd S1)) -> cur_id (sr y) = cur_id (sr (nd S1)) ->
                 (forall bl, stored (sr y) = Some bl -> bsmall bl) ->
                 (forall ps bl o l, incoming (sr y) = Some ps -> In (bl, o, l) ps -> bsmall bl) -> Hn y).
  { intros y E1 E2 E3 E4 E5 E6 E7 E8 E9 E10. apply (Hn_sr (nd S0)); try assumption; try congruence. }
  assert (Hsame : exists s', ksn (n2 n) s s' /\ LS n s' (ae_commit cm None S1)).
  { apply (sim_refuse n a S0 S1 _ s t L Hne Hs Et F1 G1); try reflexivity.
    - apply blobs_ok_same. exact Psr.
    - apply HnS; try reflexivity.
      + intros bl Hb. apply (H_stored _ _ HN0 bl). rewrite <- Psr. exact Hb.
      + intros ps bl o l Hi Hb. apply (H_incoming _ _ HN0 ps bl o l); auto. rewrite <- Psr. exact Hi. }
  cbn [ae_body_of].
  destruct p as [|bl off len first last]; [exact Hsame|].
  destruct Hm as (_ & _ & _ & Hbv & Himg).
  unfold set_transmission in Hver |- *.
  set (inc := if first then Some [] else incoming (sr (nd S1))) in *.
  assert (Hinc : forall ps, inc = Some ps -> forall bl0 o l, In (bl0, o, l) ps -> blob_valid s bl0).
  { intros ps Ei bl0 o l Hin. unfold inc in Ei. destruct first.
    - injection Ei as <-. destruct Hin.
    - rewrite Psr in Ei. eapply (Rn_incoming _ _ _ _ _ RN); eauto. }
  clearbody inc.
  destruct inc as [ps|]; [|exact Hsame].
  specialize (Hinc ps eq_refl).
  set (ps' := ps ++ [(bl, off, len)]) in *.
  assert (Hps' : forall bl0 o l, In (bl0, o, l) ps' -> blob_valid s bl0).
  { intros bl0 o l Hin. unfold ps' in Hin. apply in_app_or in Hin as [Hin|[Hin|[]]].
    - eapply Hinc; eauto.
    - injection Hin as <- _ _. exact Hbv. }
  destruct last.
  2:{ (* a piece in the middle: stored in the incoming file *)
    cbn [andb]. apply (sim_refuse n a S0 S1 _ s t L Hne Hs Et F1 G1); try reflexivity.
    - split; [|split].
      + intros b Hb. left. rewrite <- Psr. exact Hb.
      + apply tr_ok_same. rewrite <- Psr. reflexivity.
      + intros ps0 b o l Hi Hb. right. injection Hi as <-. eapply Hps'; eauto.
    - apply HnS; try reflexivity.
      + intros b Hb. apply (H_stored _ _ HN0 b). rewrite <- Psr. exact Hb.
      + intros ps0 b o l Hi Hb. injection Hi as <-. eapply blob_valid_small. eapply Hps'; eauto. }
  (* the last piece: the file is complete *)
  cbn [andb].
  set (B := assemble_snap ps') in *.
  destruct (snap_ahead B (applied (nd S1))) eqn:Eah.
  2:{ (* a file that is corrupt or not ahead of the node is dropped: the store keeps what it held *)
    cbn [andb]. apply (sim_refuse n a S0 S1 _ s t L Hne Hs Et F1 G1); try reflexivity.
    - split; [|split].
      + intros b Hb. left. rewrite <- Psr. exact Hb.
      + apply tr_ok_same. rewrite <- Psr. reflexivity.
      + intros ps0 b o l Hi Hb. discriminate Hi.
    - apply HnS; try reflexivity.
      + intros b Hb. apply (H_stored _ _ HN0 b). rewrite <- Psr. exact Hb.
      + intros ps0 b o l Hi Hb. discriminate Hi. }
  set (S1b := upd (fun n0 => n0 <| sr := (sr n0) <| stored := Some B |> <| incoming := None |> |>) S1) in *.
  specialize (Hver S1b eq_refl eq_refl).
  apply (sim_complete n a S0 S1 S1b s t cm B L Ha Hne Hs Et F1 G1); try reflexivity.
  - intros sn0 EB. destruct (assemble_good _ _ EB) as ((o0 & l0 & r0 & Eps) & _).
    apply (Hps' (Good sn0) o0 l0). rewrite Eps. left. reflexivity.
  - intros sn0 EB.
    assert (Hv0 : snap_valid s sn0).
    { destruct (assemble_good _ _ EB) as ((o0 & l0 & r0 & Eps) & _).
      apply (Hps' (Good sn0) o0 l0). rewrite Eps. left. reflexivity. }
    destruct (assemble_good _ _ EB) as (_ & Hcontig).
    destruct (contig_last sn0 ps bl off len 0 Hcontig) as (sn' & Ebl & Heq).
    specialize (Himg eq_refl sn' Ebl). rewrite Ebl in Hbv.
    apply snap_eqb_true in Heq. destruct Heq as (Q1 & Q0 & _).
    apply entry_eqb_true in Q1. destruct Q1 as (_ & Q1 & _).
    destruct (valid_two s sn0 sn' HR Hv0 Hbv Q1) as [X1 X0].
    unfold install_img in *. rewrite X1, X0. exact Himg.
  - exact Hver.
Qed.

End Msg.
