(* Tier C, part 4: the local simulation framework.  [LS n s S]: the L0 state [s] is reachable and
   is related to the L1 node [nd S] of voter [n] in the middle of a handler, whose outputs so far
   [outs S] all have their images in [M.net s].  A phase [f] of a handler "simulates" when from
   every such pair some L0 steps of node n lead to a pair for [f S]. *)
From Coq Require Import ZArith NArith List Bool Lia ZifyBool Arith PeanoNat.
From RecordUpdate Require Import RecordSet.
From PSO Require Import Raft.Types Raft.Node Raft.Net Raft.ProofsCommitBase.
From PSO Require Import Raft.ProofsElectionBase Raft.RefineAbs Raft.RefineK Raft.RefineSpecA.
From PSO Require Abstract.Model Abstract.Lib Abstract.Kstep Abstract.Safety1_WF Abstract.Safety2_Election.
Import ListNotations.
Import RecordSetNotations.
Open Scope N_scope.
#[local] Arguments firstn : simpl nomatch.
#[local] Arguments skipn : simpl nomatch.

Module S1 := PSO.Abstract.Safety1_WF.
Module S2 := PSO.Abstract.Safety2_Election.

(* the fields [Rn] reads / the fields [Hn] reads *)
Definition rv (x : node) := (role x, term x, voted x, votes x, log x, commit x, match_idx x).
Definition hv (x : node) := (sr x, log x, queue x, replay_idx x, applied x, readonly x, commit x).

Lemma fv_rv x y : fv x = fv y -> rv x = rv y.
Proof. intros H. fvinj H. unfold rv. congruence. Qed.
Lemma fv_hv x y : fv x = fv y -> hv x = hv y.
Proof. intros H. fvinj H. unfold hv. congruence. Qed.

Lemma rv_eq x y : rv x = rv y ->
  role x = role y /\ term x = term y /\ voted x = voted y /\ votes x = votes y /\ log x = log y /\
  commit x = commit y /\ match_idx x = match_idx y.
Proof. unfold rv. intros H. injection H; intros. repeat split; assumption. Qed.

Lemma hv_eq x y : hv x = hv y ->
  sr x = sr y /\ log x = log y /\ queue x = queue y /\ replay_idx x = replay_idx y /\
  applied x = applied y /\ readonly x = readonly y /\ commit x = commit y.
Proof. unfold hv. intros H. injection H; intros. repeat split; assumption. Qed.

Section Sim.
Variable c : conf.
Variable V : list nid.
Hypothesis NDV : NoDup V.
Hypothesis VRO : forall v, In v V -> v < RO_BASE.
Hypothesis Hb1 : 1 < batch c.

Notation V' := (absV V).
Notation Rn := (Rn c V).
Notation Rmsg := (Rmsg c).
Notation Ro := (Ro c).
Notation Hn := (Hn c).
Notation ksn := (ksn V).
Notation pk := (pk c).

Lemma Rn_rv n x y s : rv y = rv x -> Rn n x s -> Rn n y s.
Proof.
  intros H [A1 A2 A3 A4 A5 A6 A7 A8].
  destruct (rv_eq _ _ H) as (E1 & E2 & E3 & E4 & E5 & E6 & E7).
  constructor; rewrite ?E1, ?E2, ?E3, ?E4, ?E5, ?E6, ?E7; auto.
Qed.

Lemma Hn_hv x y : hv y = hv x -> Hn x -> Hn y.
Proof.
  intros H [A1 A2 A3 A4 A5 A6 A7 A8].
  destruct (hv_eq _ _ H) as (E1 & E2 & E3 & E4 & E5 & E6 & E7).
  constructor; rewrite ?E1, ?E2, ?E3, ?E4, ?E5, ?E6, ?E7; auto.
Qed.

Lemma Hn_Hser x : Hn x -> Hser x.
Proof. intros [A1 A2 A3 _ _ _ _ _]. repeat split; auto. Qed.

Record LS (n : nid) (s : M.state) (S : Node.S) : Prop := {
  LS_reach : KS.kreachable V' s;
  LS_n : Rn n (nd S) s;
  LS_o : Ro n (outs S) s;
  LS_h : Hn (nd S);
  LS_self : self (nd S) = Some n;
  LS_others : others (nd S) = vminus n V;
  LS_in : In n V
}.

Lemma LS_wf n s S : LS n s S -> wf1 (log (nd S)).
Proof.
  intros L. pose proof (S1.inv1_kreachable V' s (LS_reach _ _ _ L)) as I1.
  pose proof (S1.I1_log _ I1 (n2 n)) as Hl. pose proof (S1.I1_ne _ I1 (n2 n)) as Hne.
  rewrite (Rn_log _ _ _ _ _ (LS_n _ _ _ L)) in Hl, Hne.
  eapply wf1_of_abs; eauto.
Qed.

Lemma LS_j n s S : LS n s S -> In (n2 n) V'.
Proof. intros L. apply absV_In. apply (LS_in _ _ _ L). Qed.

Lemma LS_lt n s S : LS n s S -> n < RO_BASE.
Proof. intros L. apply VRO. apply (LS_in _ _ _ L). Qed.

(* a phase that changes nothing the relation looks at *)
Lemma LS_stutter n s S S' :
  LS n s S -> fv (nd S') = fv (nd S) ->
  (exists new, outs S' = outs S ++ new /\ Ro n new s) -> LS n s S'.
Proof.
  intros [A1 A2 A3 A4 A5 A6 A7] F (new & O & Hnew). fvinj F.
  constructor; auto.
  - eapply Rn_rv; [|exact A2]. apply fv_rv. auto.
  - rewrite O. apply Ro_app; auto.
  - eapply Hn_hv; [|exact A4]. apply fv_hv. auto.
  - congruence.
  - congruence.
Qed.

Lemma LS_same n s S S' : LS n s S -> nd S' = nd S -> outs S' = outs S -> LS n s S'.
Proof.
  intros L E1 E2. eapply LS_stutter; eauto; [rewrite E1; reflexivity|].
  exists []. rewrite app_nil_r. split; auto. apply Ro_nil.
Qed.

Lemma LS_ksn n s s' S S' :
  ksn (n2 n) s s' -> LS n s S ->
  Rn n (nd S') s' -> Hn (nd S') -> self (nd S') = Some n -> others (nd S') = vminus n V ->
  (exists new, outs S' = outs S ++ new /\ Ro n new s') -> LS n s' S'.
Proof.
  intros K [A1 A2 A3 A4 A5 A6 A7] R' H' Hs Ho (new & O & Hnew).
  constructor; auto.
  - eapply ksn_kreachable; eauto.
  - rewrite O. apply Ro_app; auto. eapply Ro_ext; [eapply ksn_ext; eauto|]. exact A3.
Qed.

Definition simf (n : nid) (f : Node.S -> Node.S) : Prop :=
  forall S s, LS n s S -> exists s', ksn (n2 n) s s' /\ LS n s' (f S).

(* conditional on the serializer staying idle in the result *)
Definition simc (n : nid) (f : Node.S -> Node.S) : Prop :=
  forall S s, LS n s S -> pid (sr (nd (f S))) = 0 -> exists s', ksn (n2 n) s s' /\ LS n s' (f S).

Lemma simf_simc n f : simf n f -> simc n f.
Proof. intros H S s L _. auto. Qed.

Lemma simf_andthen n f g : simf n f -> simf n g -> simf n (f ;; g).
Proof.
  intros Hf Hg S s L. rewrite andthen_eq. destruct (Hf S s L) as (s1 & K1 & L1).
  destruct (ok (f S)); [|eauto].
  destruct (Hg (f S) s1 L1) as (s2 & K2 & L2). exists s2. split; auto. eapply ksn_trans; eauto.
Qed.

Lemma simc_andthen n f g : simf n f -> simc n g -> simc n (f ;; g).
Proof.
  intros Hf Hg S s L. rewrite andthen_eq. destruct (Hf S s L) as (s1 & K1 & L1).
  destruct (ok (f S)); [|eauto].
  intros P. destruct (Hg (f S) s1 L1 P) as (s2 & K2 & L2). exists s2. split; auto. eapply ksn_trans; eauto.
Qed.

Lemma simf_stutter n f :
  (forall S, fv (nd (f S)) = fv (nd S) /\
             exists new, outs (f S) = outs S ++ new /\ forall d m, ~ In (Send d m) new) ->
  simf n f.
Proof.
  intros H S s L. destruct (H S) as (F & new & O & Hnew). exists s. split; [constructor|].
  eapply LS_stutter; eauto. exists new. split; auto. intros d m Hin. destruct (Hnew d m Hin).
Qed.

(* ------------------------------------------------------------------------------------------ *)
(* the AppendEntries messages of a leader: one K_sendae per message                            *)

Lemma nth_abs l p pe : nth_error l p = Some pe -> nth p (absL pk l) M.e0 = absE pk pe.
Proof.
  intros H. apply nth_error_nth. rewrite absL_nth, H. reflexivity.
Qed.

Lemma Rn_same_nodes n x s s' :
  (forall i, M.nodes s' i = M.nodes s i) -> incl (M.grants s) (M.grants s') -> Rn n x s -> Rn n x s'.
Proof.
  intros E G [A1 A2 A3 A4 A5 A6 A7 A8]. constructor; rewrite ?E; auto.
Qed.

Lemma sim_ae_outs n x new : forall s,
  KS.kreachable V' s -> Rn n x s -> In n V -> role x = LEADER -> wf1 (log x) ->
  Forall (small c) (log x) -> others x = vminus n V -> Forall (fun y => RO_BASE <= y) (readonly x) ->
  Forall (ae_out x) new ->
  exists s', ksn (n2 n) s s' /\ (forall i, M.nodes s' i = M.nodes s i) /\ Ro n new s'.
Proof.
  induction new as [|o new IH]; intros s HR RN Hin Hrole W Sm Hoth Hro Hall.
  - exists s. split; [constructor|]. split; auto. apply Ro_nil.
  - inversion Hall as [|? ? Ho Hall']; subst.
    assert (Hj : In (n2 n) V') by (apply absV_In; auto).
    assert (Hl : M.rl (M.nodes s (n2 n)) = M.Leader).
    { rewrite (Rn_role _ _ _ _ _ RN), Hrole. reflexivity. }
    assert (Hlen : (0 < length (M.log (M.nodes s (n2 n))))%nat).
    { rewrite (Rn_log _ _ _ _ _ RN), absL_length. apply wf1_length_pos; auto. }
    (* one step for the head *)
    assert (Hhead : exists s1, ksn (n2 n) s s1 /\ (forall i, M.nodes s1 i = M.nodes s i) /\
                               Ro n [o] s1).
    { destruct o as [d m| | | |]; cbn in Ho; try contradiction.
      destruct Ho as [Hd Hm].
      assert (Hnd : n <> d).
      { destruct Hd as [Hd|Hd].
        - rewrite Hoth in Hd. intros ->. apply (vminus_not_in d V). exact Hd.
        - rewrite Forall_forall in Hro. specialize (Hro d Hd). specialize (VRO n Hin). lia. }
      assert (Hany : exists s1, ksn (n2 n) s s1 /\ (forall i, M.nodes s1 i = M.nodes s i) /\
                                some_ae (term x) n s1).
      { destruct (t_sendae_ok V' (n2 n) 0 0 s Hj Hl Hlen) as [K E].
        exists (M.do_send_ae (n2 n) 0 0 s). split; [apply ksn_one; auto|]. split; [reflexivity|].
        unfold some_ae. do 4 eexists. cbn. left. rewrite (Rn_term _ _ _ _ _ RN). reflexivity. }
      destruct m as [| |t cm [[pi pt]|] es| |t cm p| | |]; cbn in Hm; try contradiction.
      - (* a regular AppendEntries *)
        destruct Hm as (-> & -> & Hpi & (pe & Hpe & Hpt) & k & Hes).
        assert (Hp : (n2 pi - 1 < length (M.log (M.nodes s (n2 n))))%nat).
        { rewrite (Rn_log _ _ _ _ _ RN), absL_length. apply nth_error_Some. congruence. }
        destruct (t_sendae_ok V' (n2 n) (n2 pi - 1) k s Hj Hl Hp) as [K E].
        exists (M.do_send_ae (n2 n) (n2 pi - 1) k s). split; [apply ksn_one; auto|]. split; [reflexivity|].
        intros d' m' [H|[]]. injection H as <- <-. cbn.
        split; [apply VRO; auto|]. split; auto. split.
        { rewrite Hes. apply Forall_firstn, Forall_skipn. exact Sm. }
        left. rewrite (Rn_term _ _ _ _ _ RN), (Rn_log _ _ _ _ _ RN), (Rn_commit _ _ _ _ _ RN).
        rewrite (nth_abs _ _ _ Hpe). cbn [M.eterm absE]. rewrite Hpt.
        replace (Sn (n2 pi - 1)) with (n2 pi) by lia.
        rewrite Hes, absL_firstn, absL_skipn. reflexivity.
      - (* prev = None: refused by every receiver *)
        destruct Hm as (-> & -> & _). destruct Hany as (s1 & K1 & E1 & A1).
        exists s1. split; auto. split; auto.
        intros d' m' [H|[]]. injection H as <- <-. cbn. repeat split; auto.
      - (* no snapshot to send *)
        destruct Hm as (-> & -> & ->). destruct Hany as (s1 & K1 & E1 & A1).
        exists s1. split; auto. split; auto.
        intros d' m' [H|[]]. injection H as <- <-. cbn. repeat split; auto. }
    destruct Hhead as (s1 & K1 & E1 & R1).
    destruct (IH s1) as (s2 & K2 & E2 & R2); auto.
    { eapply ksn_kreachable; eauto. }
    { eapply Rn_same_nodes; eauto. apply (ext_grants _ _ _ (ksn_ext _ _ _ _ K1)). }
    exists s2. split; [eapply ksn_trans; eauto|]. split; [intros i; rewrite E2; auto|].
    change (o :: new) with ([o] ++ new). apply Ro_app; auto.
    eapply Ro_ext; [apply (ksn_ext _ _ _ _ K2)|]. exact R1.
Qed.

(* ------------------------------------------------------------------------------------------ *)
(* becoming leader                                                                            *)

Lemma majority_abs n x k :
  In n V -> others x = vminus n V ->
  majority k x = true -> M.majority V' (n2 k) = true.
Proof.
  intros Hin Ho Hm. apply (majority_static k x n V NDV Hin Ho) in Hm.
  unfold M.majority. rewrite absV_length. apply Nat.ltb_lt. lia.
Qed.

Lemma sim_become_leader e n S s :
  cf e = c -> LS n s S -> role (nd S) = CANDIDATE -> majority (votes (nd S)) (nd S) = true ->
  exists s', ksn (n2 n) s s' /\ LS n s' (become_leader e S).
Proof.
  intros Hc L Hr Hm.
  pose proof (LS_wf _ _ _ L) as W. pose proof (LS_h _ _ _ L) as HH. pose proof (LS_n _ _ _ L) as RN.
  pose proof (LS_j _ _ _ L) as Hj.
  assert (Sm : Forall (small (cf e)) (log (nd S))) by (rewrite Hc; apply (H_small _ _ HH)).
  assert (Hb : 1 < batch (cf e)) by (rewrite Hc; exact Hb1).
  destruct (become_leader_spec e S (Hn_Hser _ HH) W Sm Hb) as (mi & r & new & F & Hmi & O & Hr0 & Hnew).
  set (S' := become_leader e S) in *. clearbody S'.
  set (x' := nd S') in *.
  fvinj_n F F.
  (* the L0 step *)
  assert (Hc0 : M.rl (M.nodes s (n2 n)) = M.Candidate).
  { rewrite (Rn_role _ _ _ _ _ RN), Hr. reflexivity. }
  assert (Hmaj : M.majority V' (length (M.votesFrom (M.nodes s (n2 n)))) = true).
  { rewrite (proj1 (Rn_votes _ _ _ _ _ RN Hr)). eapply majority_abs; eauto using LS_in, LS_others. }
  destruct (t_lead_ok V' (n2 n) s Hj Hc0 Hmaj) as [K E].
  set (s1 := M.do_lead (n2 n) s) in *.
  assert (K1 : ksn (n2 n) s s1) by (apply ksn_one; auto).
  assert (RN1 : Rn n x' s1).
  { destruct RN as [A1 A2 A3 A4 A5 A6 A7 A8].
    constructor; subst s1; unfold M.do_lead; cbn [M.nodes M.grants]; rewrite ?upd_eq;
      cbn [M.term M.voted M.rl M.log M.commit M.votesFrom M.matchIdx].
    - congruence.
    - congruence.
    - rewrite Frole. reflexivity.
    - rewrite Flog.
      rewrite absL_app, A4. f_equal. cbn [absL map]. f_equal. unfold absE, noop_entry. cbn.
      rewrite Hc. fold pk. rewrite enc_noop, A1, absL_length.
      rewrite (wf1_last_idx _ W). f_equal. lia.
    - congruence.
    - intros Hx. rewrite Frole in Hx. compute in Hx. discriminate.
    - intros f m Hf Hne Hg. rewrite Fmatch in Hg.
      assert (Hf0 : aget f mi = Some 0).
      { apply Hmi. rewrite (LS_others _ _ _ L). unfold vminus. apply filter_In. split; auto.
        apply negb_true_iff. apply N.eqb_neq. auto. }
      rewrite Hf0 in Hg. injection Hg as <-. cbn. lia.
    - intros Hv. rewrite Fterm. apply A8. congruence. }
  assert (Hoth' : others x' = vminus n V) by (rewrite <- (LS_others _ _ _ L); congruence).
  assert (HH' : Hn x').
  { destruct HH as [B1 B2 B3 B4 B5 B6 B7 B8]. constructor; try congruence.
    - rewrite Flog.
      apply Forall_app. split; [exact B4|]. constructor; [|constructor]. unfold small, small_cmd. cbn.
      exact Hb1. }
  assert (W' : wf1 (log x')).
  { rewrite Flog. apply wf1_app; auto. }
  destruct (sim_ae_outs n x' new s1) as (s2 & K2 & E2 & R2); auto.
  - eapply ksn_kreachable; eauto. apply (LS_reach _ _ _ L).
  - apply (LS_in _ _ _ L).
  - apply (H_small _ _ HH').
  - apply (H_ro _ _ HH').
  - exists s2. split; [eapply ksn_trans; eauto|].
    apply (LS_ksn n s s2 S S').
    + eapply ksn_trans; eauto.
    + exact L.
    + eapply Rn_same_nodes; eauto. apply (ext_grants _ _ _ (ksn_ext _ _ _ _ K2)).
    + exact HH'.
    + fold x'. rewrite Fself. apply (LS_self _ _ _ L).
    + exact Hoth'.
    + exists (r ++ new). split; auto. apply Ro_app; auto.
      intros d m Hin. destruct (Hr0 d m Hin).
Qed.

End Sim.
