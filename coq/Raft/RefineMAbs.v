(* Tier CM, part 1: the abstraction from the faithful model L1 (dyn = true) to the abstract Raft WITH
   single-server membership change (AbstractM/{Model,Kstep}.v).  Copy-and-adapt of RefineAbs.v.
   Differences: commands are mapped to M.Cmd / M.CAdd / M.CRem; the node relation additionally ties
   the life-cycle flag, the position of the leader's no-op and (through the L1 hygiene [Hn]) the member
   table: others = fold of the membership entries of the log over the start list; AppendEntries images
   carry their destination; the election bookkeeping (who may still be counted) is the field [R_el] of
   the global relation instead of the static-membership ghost of ProofsElectionGhost. *)
From Coq Require Import ZArith NArith List Bool Lia ZifyBool Arith PeanoNat Cantor.
From RecordUpdate Require Import RecordSet.
From PSO Require Import Raft.Types Raft.Node Raft.Net.
From PSO Require Import Raft.ProofsElectionBase Raft.ProofsCommitBase Raft.ProofsMembership Raft.ProofsMembershipInv.
From PSO Require AbstractM.Model AbstractM.Lib AbstractM.Kstep AbstractM.Cfg.
Import ListNotations.
Import RecordSetNotations.
Open Scope N_scope.

Module M := PSO.AbstractM.Model.
Module KS := PSO.AbstractM.Kstep.
Module ML := PSO.AbstractM.Lib.
Module MC := PSO.AbstractM.Cfg.

(* Abstract/Lib.v declares firstn / skipn [simpl never] globally; give them back their usual behaviour here *)
#[local] Arguments firstn : simpl nomatch.
#[local] Arguments skipn : simpl nomatch.

Notation n2 := N.to_nat.
Notation Sn := Datatypes.S.

(* ------------------------------------------------------------------------------------------ *)
(* commands as natural numbers: an injective code, the no-op of the configuration is 0        *)

Definition cmd_code (c : cmd) : nat :=
  Cantor.to_nat (n2 (ck c), Cantor.to_nat (n2 (ca c), Cantor.to_nat (n2 (cb c),
    Cantor.to_nat (n2 (csz c), n2 (cpk c))))).

Definition is_noop (pk : N) (c : cmd) : bool :=
  (ck c =? 1) && (ca c =? 0) && (cb c =? 0) && (csz c =? 1) && (cpk c =? pk).

Definition code (pk : N) (c : cmd) : nat := if is_noop pk c then 0%nat else Sn (cmd_code c).

(* membership commands become M.CAdd / M.CRem of the node they name *)
Definition enc (pk : N) (c : cmd) : M.cmd :=
  match membership_of c with
  | Some (true, x) => M.CAdd (n2 x)
  | Some (false, x) => M.CRem (n2 x)
  | None => M.Cmd (code pk c)
  end.

Lemma cantor_inj p q : Cantor.to_nat p = Cantor.to_nat q -> p = q.
Proof. intros H. rewrite <- (Cantor.cancel_of_to p), <- (Cantor.cancel_of_to q), H. reflexivity. Qed.

Lemma cantor_pair a x b y : Cantor.to_nat (a, x) = Cantor.to_nat (b, y) -> a = b /\ x = y.
Proof.
  intros H. apply cantor_inj in H.
  pose proof (f_equal fst H) as H1. pose proof (f_equal snd H) as H2. cbn [fst snd] in H1, H2. auto.
Qed.

Lemma cmd_code_inj a b : cmd_code a = cmd_code b -> a = b.
Proof.
  unfold cmd_code. intros H.
  apply cantor_pair in H as [H1 H]. apply cantor_pair in H as [H2 H].
  apply cantor_pair in H as [H3 H]. apply cantor_pair in H as [H4 H5].
  destruct a, b; cbn in *. f_equal; lia.
Qed.

Lemma is_noop_spec pk c : is_noop pk c = true -> c = noop_cmd pk.
Proof.
  unfold is_noop, noop_cmd. intros H.
  repeat (apply andb_true_iff in H as [H ?]). destruct c; cbn in *. f_equal; lia.
Qed.

Lemma code_inj pk a b : code pk a = code pk b -> a = b.
Proof.
  unfold code. destruct (is_noop pk a) eqn:A, (is_noop pk b) eqn:B; intros H; try discriminate.
  - apply is_noop_spec in A, B. congruence.
  - injection H as H. apply cmd_code_inj; auto.
Qed.

Lemma enc_noop pk : enc pk (noop_cmd pk) = M.Cmd 0.
Proof. unfold enc, code, is_noop, noop_cmd, membership_of; cbn. rewrite N.eqb_refl. reflexivity. Qed.

(* two L1 commands with the same image: equal, or membership commands with the same meaning *)
Definition csim (a b : cmd) : Prop :=
  a = b \/ (membership_of a = membership_of b /\ membership_of a <> None).

Lemma enc_sim pk a b : enc pk a = enc pk b -> csim a b.
Proof.
  unfold enc, csim.
  destruct (membership_of a) as [[[|] x]|] eqn:A, (membership_of b) as [[[|] y]|] eqn:B; intros H;
    try discriminate.
  - injection H as H. right. split; [|discriminate]. assert (x = y) by lia. subst. reflexivity.
  - injection H as H. right. split; [|discriminate]. assert (x = y) by lia. subst. reflexivity.
  - injection H as H. left. eapply code_inj; eauto.
Qed.

Lemma enc_cfg pk c : M.is_cfg (enc pk c) = match membership_of c with Some _ => true | None => false end.
Proof. unfold enc. destruct (membership_of c) as [[[|] x]|]; reflexivity. Qed.

(* ------------------------------------------------------------------------------------------ *)
(* entries, logs, roles                                                                       *)

Definition absE (pk : N) (e : entry) : M.entry := M.mkE (n2 (eidx e)) (n2 (eterm e)) (enc pk (ecmd e)).
Definition absL (pk : N) (l : list entry) : list M.entry := map (absE pk) l.

Definition absR (r : N) : M.role :=
  if r =? LEADER then M.Leader else if r =? CANDIDATE then M.Candidate else M.Follower.

Definition esim (a b : entry) : Prop := eidx a = eidx b /\ eterm a = eterm b /\ csim (ecmd a) (ecmd b).

Lemma absE_sim pk a b : absE pk a = absE pk b -> esim a b.
Proof.
  unfold absE. intros H. injection H as H1 H2 H3. apply enc_sim in H3.
  unfold esim. repeat split; auto; lia.
Qed.

Lemma esim_eq a b : esim a b -> membership_of (ecmd a) = None -> a = b.
Proof.
  intros (A & B & [C|[C D]]) H; [|congruence]. destruct a, b; cbn in *. congruence.
Qed.

Lemma absL_length pk l : length (absL pk l) = length l.
Proof. apply map_length. Qed.

Lemma absL_nth pk l p : nth_error (absL pk l) p = option_map (absE pk) (nth_error l p).
Proof. unfold absL. revert p. induction l as [|a l IH]; intros [|p]; cbn; auto. Qed.

Lemma absL_app pk a b : absL pk (a ++ b) = absL pk a ++ absL pk b.
Proof. apply map_app. Qed.

Lemma absL_firstn pk k l : absL pk (firstn k l) = firstn k (absL pk l).
Proof. unfold absL. symmetry. apply firstn_map. Qed.

Lemma absL_skipn pk k l : absL pk (skipn k l) = skipn k (absL pk l).
Proof. unfold absL. symmetry. apply skipn_map. Qed.

Lemma absR_F : absR FOLLOWER = M.Follower. Proof. reflexivity. Qed.
Lemma absR_C : absR CANDIDATE = M.Candidate. Proof. reflexivity. Qed.
Lemma absR_L : absR LEADER = M.Leader. Proof. reflexivity. Qed.

Lemma absR_leader r : absR r = M.Leader <-> r = LEADER.
Proof.
  unfold absR. destruct (r =? LEADER) eqn:E.
  - apply N.eqb_eq in E. tauto.
  - apply N.eqb_neq in E. destruct (r =? CANDIDATE); split; intros; try discriminate; contradiction.
Qed.

Lemma absR_cand r : absR r = M.Candidate <-> r = CANDIDATE.
Proof.
  unfold absR. destruct (r =? LEADER) eqn:E.
  - apply N.eqb_eq in E. subst. split; discriminate.
  - destruct (r =? CANDIDATE) eqn:E2.
    + apply N.eqb_eq in E2. tauto.
    + apply N.eqb_neq in E2. split; intros; try discriminate; contradiction.
Qed.

(* ------------------------------------------------------------------------------------------ *)
(* well-formed L1 logs (no compaction): position p holds index p+1                            *)

Definition wf1 (l : list entry) : Prop :=
  l <> [] /\ forall p e, nth_error l p = Some e -> eidx e = N.of_nat p + 1.

Lemma last_entry_last (l : list entry) d : l <> [] -> last_entry l = Some (last l d).
Proof.
  induction l as [|a l IH]; intros H; [contradiction|].
  destruct l as [|b l]; [reflexivity|].
  change (last_entry (a :: b :: l)) with (last_entry (b :: l)).
  change (last (a :: b :: l) d) with (last (b :: l) d). apply IH. discriminate.
Qed.

Lemma nth_error_last_some {A} (l : list A) d : l <> [] -> nth_error l (length l - 1) = Some (last l d).
Proof. apply ML.nth_error_last. Qed.

Lemma wf1_last_idx l : wf1 l -> last_idx l = N.of_nat (length l).
Proof.
  intros [Hne H]. unfold last_idx. rewrite (last_entry_last l (mkEntry (noop_cmd 0) 0 0) Hne).
  pose proof (nth_error_last_some l (mkEntry (noop_cmd 0) 0 0) Hne) as Hn.
  rewrite (H _ _ Hn). destruct l; [contradiction|]. cbn [length]. lia.
Qed.

Lemma wf1_first_idx l : wf1 l -> first_idx l = 1.
Proof.
  intros [Hne H]. destruct l as [|a l]; [contradiction|]. cbn. apply (H 0%nat a). reflexivity.
Qed.

Lemma wf1_length_pos l : wf1 l -> (0 < length l)%nat.
Proof. intros [Hne _]. destruct l; [contradiction|cbn; lia]. Qed.

Lemma absL_lastTerm pk l : M.lastTerm (absL pk l) = n2 (last_term l).
Proof.
  unfold M.lastTerm, last_term. destruct l as [|a l]; [reflexivity|].
  assert (Hne : a :: l <> []) by discriminate.
  rewrite (last_entry_last (a :: l) a Hne).
  unfold absL. change M.e0 with (M.e0).
  assert (E : last (map (absE pk) (a :: l)) M.e0 = absE pk (last (a :: l) a)).
  { clear Hne. revert a. induction l as [|b l IH]; intros a; [reflexivity|].
    change (last (map (absE pk) (a :: b :: l)) M.e0) with (last (map (absE pk) (b :: l)) M.e0).
    change (last (a :: b :: l) a) with (last (b :: l) a).
    rewrite IH. f_equal. clear IH. revert b. induction l as [|c l IH]; intros b; [reflexivity|].
    change (last (b :: c :: l) b) with (last (c :: l) b).
    change (last (b :: c :: l) a) with (last (c :: l) a).
    destruct l as [|d l]; [reflexivity|].
    change (last (c :: d :: l) b) with (last (d :: l) b). change (last (c :: d :: l) a) with (last (d :: l) a).
    clear IH. revert d. induction l as [|x l IH]; intros d; [reflexivity|].
    change (last (d :: x :: l) b) with (last (x :: l) b). change (last (d :: x :: l) a) with (last (x :: l) a).
    apply IH. }
  rewrite E. reflexivity.
Qed.

(* get_entries on a well-formed log *)
Lemma ge_from l f : wf1 l -> 1 <= f -> get_entries l (Some f) None None = skipn (n2 f - 1) l.
Proof.
  intros W Hf. unfold get_entries. rewrite (wf1_first_idx l W).
  destruct (f <? 1) eqn:E; [lia|]. f_equal. lia.
Qed.

Lemma ge_zero l c m : wf1 l -> get_entries l (Some 0) c m = [].
Proof. intros W. unfold get_entries. rewrite (wf1_first_idx l W). reflexivity. Qed.

Lemma ge_count l f k : wf1 l -> 1 <= f ->
  get_entries l (Some f) (Some k) None = firstn (n2 k) (skipn (n2 f - 1) l).
Proof.
  intros W Hf. unfold get_entries. rewrite (wf1_first_idx l W).
  destruct (f <? 1) eqn:E; [lia|]. do 2 f_equal. lia.
Qed.

Lemma ge_one l f : wf1 l -> 1 <= f ->
  get_entries l (Some f) (Some 1) None =
  match nth_error l (n2 f - 1) with Some e => [e] | None => [] end.
Proof.
  intros W Hf. rewrite ge_count by auto. change (n2 1) with 1%nat.
  generalize (n2 f - 1)%nat. intros k. revert l W. clear. intros l _. revert l.
  induction k as [|k IH]; intros [|a l]; cbn [skipn nth_error]; try reflexivity. apply IH.
Qed.

Lemma take_size_firstn m tot r : take_size m tot r = firstn (length (take_size m tot r)) r.
Proof.
  revert tot. induction r as [|e r IH]; intros tot; cbn [take_size]; [reflexivity|].
  destruct (m <=? tot + csz (ecmd e)); [reflexivity|]. cbn [length]. cbn [firstn]. f_equal. apply IH.
Qed.

Lemma take_size_nonempty m tot e r : take_size m tot (e :: r) <> [].
Proof. cbn [take_size]. destruct (m <=? _); discriminate. Qed.

Lemma ge_batch l f m : wf1 l -> 1 <= f ->
  get_entries l (Some f) None (Some m) = take_size m 0 (skipn (n2 f - 1) l).
Proof.
  intros W Hf. unfold get_entries. rewrite (wf1_first_idx l W).
  destruct (f <? 1) eqn:E; [lia|]. do 2 f_equal. lia.
Qed.

Lemma nth_error_skipn_hd {A} (l : list A) k a r : skipn k l = a :: r -> nth_error l k = Some a.
Proof.
  revert l. induction k as [|k IH]; intros [|b l] H; cbn in *; try discriminate.
  - injection H as -> _. reflexivity.
  - apply IH. exact H.
Qed.

Lemma skipn_nth_cons {A} (l : list A) k a : nth_error l k = Some a -> skipn k l = a :: skipn (Sn k) l.
Proof.
  revert l. induction k as [|k IH]; intros [|b l] H; cbn in *; try discriminate.
  - injection H as ->. reflexivity.
  - apply IH. exact H.
Qed.

(* wf1 transported from the abstract invariant I1_log *)
Lemma wf1_of_abs pk l t :
  absL pk l <> [] ->
  (forall p e, nth_error (absL pk l) p = Some e -> M.eidx e = Sn p /\ (M.eterm e <= t)%nat) -> wf1 l.
Proof.
  intros Hne H. split.
  - intros ->. apply Hne. reflexivity.
  - intros p e Hp. specialize (H p (absE pk e)). rewrite absL_nth, Hp in H. cbn in H.
    destruct (H eq_refl) as [H1 _]. lia.
Qed.

Lemma wf1_app l e : wf1 l -> eidx e = last_idx l + 1 -> wf1 (l ++ [e]).
Proof.
  intros W He. pose proof (wf1_last_idx l W) as HL. destruct W as [Hne H]. split.
  - destruct l; discriminate.
  - intros p x Hp. apply ML.nth_error_snoc_cases in Hp as [[Lp Hp]|[-> ->]]; [apply H; auto|]. lia.
Qed.

(* ------------------------------------------------------------------------------------------ *)
(* the voter set seen from L0                                                                 *)

Definition absV (V : list nid) : list nat := map n2 V.

Lemma absV_In V v : In (n2 v) (absV V) <-> In v V.
Proof.
  unfold absV. rewrite in_map_iff. split.
  - intros (x & E & H). assert (x = v) by lia. subst. auto.
  - intros H. exists v. auto.
Qed.

Lemma absV_NoDup V : NoDup V -> NoDup (absV V).
Proof.
  unfold absV. induction 1 as [|a l Hn ND IH]; cbn; constructor; auto.
  intros H. apply in_map_iff in H as (x & E & H). assert (x = a) by lia. subst. auto.
Qed.

Lemma absV_length V : length (absV V) = length V.
Proof. apply map_length. Qed.

(* ------------------------------------------------------------------------------------------ *)
(* the node relation                                                                          *)

(* the switches of AbstractM under which its safety chain is proved ([disciplined]); the transport
   filter [links] is not needed by the chain and is left off *)
Definition F0 : M.flags := M.mkF true true true false false.

Definition is_rv (T : N) (m : msg) : bool := match m with ResponseVote t => t =? T | _ => false end.

Section Rel.
Variable c : conf.
Variable V : list nid.

Definition pk := noop_pk c.
(* commands of the fragment: smaller than a batch; a membership command names a voter id *)
Definition small_cmd (x : cmd) : Prop := csz x < batch c /\ (ck x = 2 -> cb x < RO_BASE).
Definition small (e : entry) : Prop := small_cmd (ecmd e).

Record Rn (n : nid) (x : node) (s : M.state) : Prop := {
  Rn_up : M.lf (M.nodes s (n2 n)) = M.Up;
  Rn_term : M.term (M.nodes s (n2 n)) = n2 (term x);
  Rn_voted : M.voted (M.nodes s (n2 n)) = option_map n2 (voted x);
  Rn_role : M.rl (M.nodes s (n2 n)) = absR (role x);
  Rn_log : M.log (M.nodes s (n2 n)) = absL pk (log x);
  Rn_commit : M.commit (M.nodes s (n2 n)) = n2 (commit x);
  Rn_votes : role x = CANDIDATE ->
               length (M.votesFrom (M.nodes s (n2 n))) = n2 (votes x) /\ In (n2 n) (M.votesFrom (M.nodes s (n2 n)));
  Rn_match : forall f m, In f (others x) -> f <> n -> aget f (match_idx x) = Some m ->
               (n2 m <= M.matchIdx (M.nodes s (n2 n)) (n2 f))%nat;
  Rn_self : voted x = Some n -> In (n2 (term x), n2 n, n2 n) (M.grants s);
  Rn_noop : role x = LEADER -> noop_idx x = Some (N.of_nat (M.noopi (M.nodes s (n2 n))) + 1)
}.

(* a voter that has not been started yet *)
Definition pristine (y : M.node) : Prop :=
  M.term y = 0%nat /\ M.voted y = None /\ M.rl y = M.Follower /\ M.log y = [M.e0] /\ M.commit y = 1%nat /\
  M.lf y = M.Up.

(* the image of a message queued on channel a -> b *)
Definition some_ae (t a b : N) (s : M.state) : Prop :=
  exists pi pt es lc, In (M.AppendEntries (n2 t) (n2 a) (n2 b) pi pt es lc) (M.net s).

(* while cd is the candidate of term t, the node d is in its member table (requests go to members
   only, votes come back from them: the model's form of the transport's member filter) *)
Definition cand_knows (s : M.state) (cd t d : nid) : Prop :=
  (n2 t <= M.term (M.nodes s (n2 cd)))%nat /\
  (M.term (M.nodes s (n2 cd)) = n2 t -> M.rl (M.nodes s (n2 cd)) = M.Candidate ->
   In (n2 d) (M.cfg (n2 cd) (M.nodes s (n2 cd)))).

Definition Rmsg (a b : nid) (m : msg) (s : M.state) : Prop :=
  match m with
  | RequestVote t li lt =>
      a < RO_BASE /\ a <> b /\ In (M.RequestVote (n2 t) (n2 a) (n2 li) (n2 lt)) (M.net s) /\ cand_knows s a t b
  | ResponseVote t =>
      a < RO_BASE /\ a <> b /\ In (M.Vote (n2 t) (n2 a) (n2 b)) (M.net s) /\ cand_knows s b t a
  | AE t cm (Some (pi, pt)) es =>
      a < RO_BASE /\ a <> b /\ Forall small es /\
      (b < RO_BASE -> In (M.AppendEntries (n2 t) (n2 a) (n2 b) (n2 pi) (n2 pt) (absL pk es) (n2 cm)) (M.net s))
  | AE t cm None es => a < RO_BASE /\ a <> b /\ (b < RO_BASE -> some_ae t a b s)
  | AEPiece _ _ _ _ _ _ _ => False
  | AESnap t cm p => p = SNone /\ a < RO_BASE /\ a <> b /\ (b < RO_BASE -> some_ae t a b s)
  | ApplyCmd x _ => small_cmd x
  | ApplyResp _ _ _ _ => True
  | NextIdx t nx _ su =>
      su = true -> a < RO_BASE -> In (M.AppendReply (n2 t) (n2 a) true (n2 nx - 1)) (M.net s)
  end.

Definition Ro (a : nid) (os : list out) (s : M.state) : Prop :=
  forall d m, In (Send d m) os -> Rmsg a d m s.

(* L1-only hygiene of a voter n of the fragment *)
Record Hn (n : nid) (x : node) : Prop := {
  H_pid : pid (sr x) = 0;
  H_stored : stored (sr x) = None;
  H_trans : trans (sr x) = [];
  H_small : Forall small (log x);
  H_queue : Forall (fun q => small_cmd (fst q)) (queue x);
  H_rinv : replay_idx x <= applied x;
  H_ro : Forall (fun y => RO_BASE <= y) (readonly x);
  H_ac : applied x <= commit x;
  H_oth : others x = fold_members (vminus n V) (log x) (Some n);
  H_pend : pend x
}.

(* L1-only hygiene of a read-only node (outside the abstract cluster) *)
Record Hr (x : node) : Prop := {
  Hr_pid : pid (sr x) = 0;
  Hr_stored : stored (sr x) = None;
  Hr_trans : trans (sr x) = [];
  Hr_small : Forall small (log x);
  Hr_queue : Forall (fun q => small_cmd (fst q)) (queue x);
  Hr_rinv : replay_idx x <= applied x;
  Hr_ro : Forall (fun y => RO_BASE <= y) (readonly x);
  Hr_ac : applied x <= commit x
}.

(* the election bookkeeping for a candidate b: a vote of its term is in flight or counted, never
   both, never twice *)
Definition El (g : gstate) (s : M.state) : Prop :=
  forall a b x, aget b (nodes g) = Some x -> b < RO_BASE -> role x = CANDIDATE -> a <> b ->
    (cnt (is_rv (term x)) (chan_get a b g) +
     (if M.mem (n2 a) (M.votesFrom (M.nodes s (n2 b))) then 1 else 0) <= 1)%nat.

Record R (g : gstate) (st : list nid) (s : M.state) : Prop := {
  R_node : forall v x, aget v (nodes g) = Some x -> v < RO_BASE -> Rn v x s;
  R_init : forall v, In v V -> ~ In v st -> pristine (M.nodes s (n2 v));
  R_fresh : forall y, ~ In y V -> ~ In y st -> M.lf (M.nodes s (n2 y)) = M.Fresh;
  R_msg : forall a b m, In m (chan_get a b g) -> Rmsg a b m s;
  R_el : El g s;
  R_hyg : forall v x, aget v (nodes g) = Some x -> v < RO_BASE -> Hn v x /\ self x = Some v;
  R_ro : forall v x, aget v (nodes g) = Some x -> RO_BASE <= v -> Hr x /\ self x = None /\ role x = FOLLOWER
}.

(* ------------------------------------------------------------------------------------------ *)
(* what a sequence of L0 steps of node j leaves alone                                         *)

(* node j's candidacy of a term is one stretch: the term never decreases, and while j stays the
   candidate of one term its log (hence its member table) is frozen and its counted votes only grow *)
Definition cand_stable (x y : M.node) : Prop :=
  (M.term x <= M.term y)%nat /\
  (M.rl y = M.Candidate -> M.term y = M.term x ->
   M.rl x = M.Candidate /\ M.log y = M.log x /\ M.base y = M.base x /\ incl (M.votesFrom x) (M.votesFrom y)).

Lemma cand_stable_refl x : cand_stable x x.
Proof. split; [lia|]. intros; repeat split; auto using incl_refl. Qed.

Lemma cand_stable_trans x y z : cand_stable x y -> cand_stable y z -> cand_stable x z.
Proof.
  intros [A1 A2] [B1 B2]. split; [lia|]. intros Hr Ht.
  assert (Ht2 : M.term z = M.term y) by lia.
  destruct (B2 Hr Ht2) as (C1 & C2 & C3 & C4).
  assert (Ht1 : M.term y = M.term x) by lia.
  destruct (A2 C1 Ht1) as (D1 & D2 & D3 & D4).
  repeat split; try congruence. eapply incl_tran; eauto.
Qed.

Record ext (j : nat) (s s' : M.state) : Prop := {
  ext_nodes : forall i, i <> j -> M.nodes s' i = M.nodes s i;
  ext_net : incl (M.net s) (M.net s');
  ext_grants : incl (M.grants s) (M.grants s');
  ext_cand : cand_stable (M.nodes s j) (M.nodes s' j)
}.

Lemma ext_refl j s : ext j s s.
Proof. constructor; auto using incl_refl, cand_stable_refl. Qed.

Lemma ext_trans j s1 s2 s3 : ext j s1 s2 -> ext j s2 s3 -> ext j s1 s3.
Proof.
  intros [A1 B1 C1 D1] [A2 B2 C2 D2]. constructor.
  - intros i Hi. rewrite A2, A1; auto.
  - eapply incl_tran; eauto.
  - eapply incl_tran; eauto.
  - eapply cand_stable_trans; eauto.
Qed.

Lemma cand_knows_ext j s s' cd t d : ext j s s' -> cand_knows s cd t d -> cand_knows s' cd t d.
Proof.
  intros E [Hb H]. unfold cand_knows in *. destruct (Nat.eq_dec (n2 cd) j) as [<-|Ne].
  - destruct (ext_cand _ _ _ E) as [Hle Hst]. split; [lia|]. intros Ht Hr.
    assert (Et : M.term (M.nodes s' (n2 cd)) = M.term (M.nodes s (n2 cd))) by lia.
    destruct (Hst Hr Et) as (C1 & C2 & C3 & _). unfold M.cfg. rewrite C2, C3. apply H; congruence.
  - rewrite (ext_nodes _ _ _ E _ Ne). split; assumption.
Qed.

Inductive ksn (j : nat) (s : M.state) : M.state -> Prop :=
| ksn_refl : ksn j s s
| ksn_step s1 s2 : ksn j s s1 -> KS.kstep (absV V) F0 s1 s2 -> ext j s1 s2 -> ksn j s s2.

Lemma ksn_trans j s1 s2 s3 : ksn j s1 s2 -> ksn j s2 s3 -> ksn j s1 s3.
Proof. intros A B. induction B; auto. eapply ksn_step; eauto. Qed.

Lemma ksn_one j s s' : KS.kstep (absV V) F0 s s' -> ext j s s' -> ksn j s s'.
Proof. intros. eapply ksn_step; eauto. constructor. Qed.

Lemma ksn_ext j s s' : ksn j s s' -> ext j s s'.
Proof. induction 1; [apply ext_refl|]. eapply ext_trans; eauto. Qed.

Lemma ksn_kreachable j s s' : ksn j s s' -> KS.kreachable (absV V) F0 s -> KS.kreachable (absV V) F0 s'.
Proof.
  induction 1 as [|s1 s2 A IH K E]; auto. intros HR0. apply (KS.kreach_step _ _ s1 s2); auto.
Qed.

(* any number of L0 steps (of any node) *)
Inductive kstar (s : M.state) : M.state -> Prop :=
| kstar_refl : kstar s s
| kstar_step s1 s2 : kstar s s1 -> KS.kstep (absV V) F0 s1 s2 -> kstar s s2.

Lemma ksn_kstar j s s' : ksn j s s' -> kstar s s'.
Proof. induction 1; [constructor|]. eapply kstar_step; eauto. Qed.

Lemma kstar_trans s1 s2 s3 : kstar s1 s2 -> kstar s2 s3 -> kstar s1 s3.
Proof. intros A B. induction B; auto. eapply kstar_step; eauto. Qed.

Lemma kstar_kreachable s s' : kstar s s' -> KS.kreachable (absV V) F0 s -> KS.kreachable (absV V) F0 s'.
Proof.
  induction 1 as [|s1 s2 A IH K]; auto. intros HR0. apply (KS.kreach_step _ _ s1 s2); auto.
Qed.

(* the relations are monotone along ext *)
Lemma Rmsg_ext j a b m s s' : ext j s s' -> Rmsg a b m s -> Rmsg a b m s'.
Proof.
  intros E. pose proof (ext_net _ _ _ E) as Hn. unfold incl in Hn. unfold Rmsg, some_ae.
  destruct m as [t li lt|t|t cm [[pi pt]|] es|t cm prev lab off len en|t cm p|x req|req okr a0 b0|t nx r su];
    try solve [firstorder].
  - intros (A & B & C & D). split; [auto|split; [auto|split; [auto|eapply cand_knows_ext; eauto]]].
  - intros (A & B & C & D). split; [auto|split; [auto|split; [auto|eapply cand_knows_ext; eauto]]].
  - intros (A & B & D). repeat split; auto. intros Hb. destruct (D Hb) as (pi & pt & es' & lc & D').
    exists pi, pt, es', lc. auto.
  - intros (A & B & B' & D). repeat split; auto. intros Hb. destruct (D Hb) as (pi & pt & es' & lc & D').
    exists pi, pt, es', lc. auto.
Qed.

Lemma Ro_ext j a os s s' : ext j s s' -> Ro a os s -> Ro a os s'.
Proof. intros E H d m Hin. eapply Rmsg_ext; eauto. Qed.

Lemma Ro_app a os1 os2 s : Ro a os1 s -> Ro a os2 s -> Ro a (os1 ++ os2) s.
Proof. intros A B d m Hin. apply in_app_or in Hin as [H|H]; auto. Qed.

Lemma Ro_nil a s : Ro a [] s.
Proof. intros d m []. Qed.

Lemma Rn_ext j n x s s' : ext j s s' -> n2 n <> j -> Rn n x s -> Rn n x s'.
Proof.
  intros E Hne [A0 A1 A2 A3 A4 A5 A6 A7 A8 A9].
  pose proof (ext_nodes _ _ _ E (n2 n) Hne) as En.
  constructor; rewrite ?En; auto. intros Hv. apply (ext_grants _ _ _ E). auto.
Qed.

End Rel.
