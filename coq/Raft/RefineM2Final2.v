(* Tier CM2, part 11b: the remaining corollaries of the refinement (RefineM2Final.v) on the fragment
   core_fragM2: log matching, leader completeness, committed entries never change, committed entries are
   held, applied entries agree, the applied history is a function of the common committed sequence.
   Logs are suffixes of ghost full logs, so entries are named by their INDEX (the wording of Props/TierC2.v);
   the abstraction is injective on the entries of the fragment, so agreement is EQUALITY (not [esim]). *)
From Coq Require Import ZArith NArith List Bool Lia ZifyBool Arith PeanoNat.
From RecordUpdate Require Import RecordSet.
From PSO Require Import Raft.Types Raft.Node Raft.Net Raft.Obs Raft.ProofsCommitBase.
From PSO Require Import Raft.ProofsElectionBase Raft.ProofsElectionGhost Raft.ProofsMembership.
From PSO Require Import Raft.RefineMAbs Raft.RefineMEff Raft.RefineMCfg Raft.RefineMK Raft.RefineMSpecA Raft.RefineMMain.
From PSO Require Import Raft.RefineM2Abs Raft.RefineM2SpecA Raft.RefineM2Sim Raft.RefineM2Global Raft.RefineM2Ghost
  Raft.RefineM2Main Raft.RefineM2Final.
From PSO Require AbstractM.Model AbstractM.Lib AbstractM.Kstep AbstractM.Cfg AbstractM.Theorems.
Import ListNotations.
Import RecordSetNotations.
Open Scope N_scope.
#[local] Arguments firstn : simpl nomatch.
#[local] Arguments skipn : simpl nomatch.

Section Run2.
Variable c : conf.
Variable mf : N -> N -> N * N.
Variable V : list nid.
Hypothesis NDV : NoDup V.
Hypothesis SV : ssorted V.
Hypothesis VNE : V <> [].
Hypothesis VRO : forall v, In v V -> v < RO_BASE.
Hypothesis Hb1 : 1 < batch c.
Set Default Proof Using "All".

Notation V' := (absV V).
Notation GI := (GI c mf V).
Notation kstar := (kstar V).
Notation pk := (pk c).
Notation kall := (kall V NDV VNE).
Notation Rn := (Rn c mf V).
Notation small := (small c mf).
Notation Rn_full := (Rn_full c mf V NDV SV VNE VRO Hb1).

Lemma nth_abs_inj la lb p :
  Forall small la -> Forall small lb ->
  nth_error (absL pk la) p = nth_error (absL pk lb) p -> nth_error la p = nth_error lb p.
Proof.
  intros Sa Sb. rewrite !absL_nth.
  destruct (nth_error la p) as [a|] eqn:Ea, (nth_error lb p) as [b|] eqn:Eb; cbn [option_map]; intros H;
    try discriminate; auto.
  f_equal. apply (absE_inj_small c mf); [congruence| |].
  - rewrite Forall_forall in Sa. apply Sa. eapply nth_error_In; eauto.
  - rewrite Forall_forall in Sb. apply Sb. eapply nth_error_In; eauto.
Qed.

Lemma In_full_nth full l e : wf1 full -> suffix_of l full -> In e l ->
  nth_error full (n2 (eidx e) - 1) = Some e /\ 1 <= eidx e.
Proof.
  intros W Sx Hin. apply (suffix_In _ _ Sx) in Hin. apply In_nth_error in Hin as (p & Hp).
  destruct W as [_ H]. rewrite (H p e Hp). split; [|lia]. replace (n2 (N.of_nat p + 1) - 1)%nat with p by lia. exact Hp.
Qed.

Section State.
Variables (g : gstate) (st : list nid) (gm : list (nid * bool)) (s : M.state).
Hypothesis G : GI g st gm s.

Lemma G_reach : KS.kreachable V' F0 s.
Proof. destruct G as [G0 _]. apply (GI_reach _ _ _ _ _ _ G0). Qed.

Lemma G_node a xa : aget a (nodes g) = Some xa -> a < RO_BASE -> Rn a xa s /\ Hn c mf xa.
Proof.
  intros Ha Hlt. destruct G as [[Gs Gr Gd HR RR] _].
  split; [apply (R_node _ _ _ _ _ _ RR a xa Ha Hlt)|apply (R_hyg _ _ _ _ _ _ RR a xa Ha Hlt)].
Qed.

Lemma G_full a xa : aget a (nodes g) = Some xa -> a < RO_BASE ->
  exists full, M.log (M.nodes s (n2 a)) = absL pk full /\ wf1 full /\ suffix_of (log xa) full /\ Forall small full.
Proof.
  intros Ha Hlt. destruct (G_node a xa Ha Hlt) as [Ra _].
  destruct (Rn_full a xa s G_reach Ra) as (full & A & B & C & D & _). eauto.
Qed.

(* LOG MATCHING: two voters that hold an entry with the same index and term hold the same entries at every
   index up to it that both still have *)
Lemma st_log_matching a b xa xb ea eb ea' eb' :
  aget a (nodes g) = Some xa -> aget b (nodes g) = Some xb -> a < RO_BASE -> b < RO_BASE ->
  In ea (log xa) -> In eb (log xb) -> eidx ea = eidx eb -> eterm ea = eterm eb ->
  In ea' (log xa) -> In eb' (log xb) -> eidx ea' = eidx eb' -> eidx ea' <= eidx ea -> ea' = eb'.
Proof.
  intros Ha Hb Hla Hlb Hea Heb Hi Ht Hea' Heb' Hi' Hle.
  destruct (G_full a xa Ha Hla) as (fa & Ea & Wa & Sa & Sma). destruct (G_full b xb Hb Hlb) as (fb & Eb & Wb & Sb & Smb).
  destruct (In_full_nth _ _ _ Wa Sa Hea) as [Na Pa]. destruct (In_full_nth _ _ _ Wb Sb Heb) as [Nb Pb].
  destruct (In_full_nth _ _ _ Wa Sa Hea') as [Na' Pa']. destruct (In_full_nth _ _ _ Wb Sb Heb') as [Nb' Pb'].
  pose proof (SA.A4 _ _ _ (kall s G_reach)) as I4.
  pose proof (S4.canon_lmatch (M.llog s) _ _ (S4.I4_canon _ I4 (n2 a)) (S4.I4_canon _ I4 (n2 b))
                (n2 (eidx ea) - 1)%nat (absE pk ea) (absE pk eb)) as H.
  rewrite Ea, Eb, !absL_nth, Na in H. rewrite Hi, Nb in H.
  specialize (H eq_refl eq_refl). cbn in H. rewrite Ht in H. specialize (H eq_refl).
  assert (X : nth_error fa (n2 (eidx ea') - 1) = nth_error fb (n2 (eidx ea') - 1)).
  { apply nth_abs_inj; auto. rewrite <- Hi in H. apply (ML.firstn_eq_nth _ _ _ _ H). lia. }
  rewrite Na' in X. rewrite Hi', Nb' in X. congruence.
Qed.

(* a voter holds every committed index from the start of its log *)
Lemma st_committed_held a xa i :
  aget a (nodes g) = Some xa -> a < RO_BASE -> first_idx (log xa) <= i -> i <= commit xa ->
  exists en, In en (log xa) /\ eidx en = i.
Proof.
  intros Ha Hla Hfi Hc0.
  destruct (G_node a xa Ha Hla) as [Ra _].
  destruct (G_full a xa Ha Hla) as (fa & Ea & Wa & Sa & _).
  pose proof (Rn_commit_le c mf V NDV SV VNE VRO Hb1 a xa s fa G_reach Ra Ea) as Hlen.
  pose proof (suffix_first_pos _ _ Wa Sa) as Hp.
  assert (Hn : nth_error (log xa) (n2 i - 1 + 1 - n2 (first_idx (log xa))) = nth_error fa (n2 i - 1)).
  { apply (suffix_nth _ _ Wa Sa). lia. }
  destruct (nth_error fa (n2 i - 1)) as [en|] eqn:En; [|apply nth_error_None in En; lia].
  exists en. split; [eapply nth_error_In; exact Hn|]. destruct Wa as [_ H]. rewrite (H _ _ En). lia.
Qed.

(* State Machine Safety (as RefineM2Final.st_state_machine_safety, without its section hypotheses) *)
Lemma st_sms a b xa xb ea eb :
  aget a (nodes g) = Some xa -> aget b (nodes g) = Some xb -> a < RO_BASE -> b < RO_BASE ->
  In ea (log xa) -> In eb (log xb) -> eidx ea = eidx eb -> eidx ea <= commit xa -> eidx ea <= commit xb ->
  ea = eb.
Proof.
  intros Ha Hb Hla Hlb Hea Heb Hi Hca Hcb.
  destruct (G_node a xa Ha Hla) as [Ra _]. destruct (G_node b xb Hb Hlb) as [Rb _].
  destruct (G_full a xa Ha Hla) as (fa & Ea & Wa & Sa & Sma). destruct (G_full b xb Hb Hlb) as (fb & Eb & Wb & Sb & Smb).
  destruct (In_full_nth _ _ _ Wa Sa Hea) as [Na Pa]. destruct (In_full_nth _ _ _ Wb Sb Heb) as [Nb Pb].
  destruct (TH.k_state_machine_safety V' F0 F0_disc (V'_nodup V NDV) (V'_ne V NDV VNE) s (n2 a) (n2 b)
              (n2 (eidx ea) - 1)%nat G_reach) as [E _].
  { rewrite (Rn_commit _ _ _ _ _ _ Ra). lia. }
  { rewrite (Rn_commit _ _ _ _ _ _ Rb). lia. }
  rewrite Ea, Eb in E. apply nth_abs_inj in E; auto. rewrite Na in E. rewrite Hi, Nb in E. congruence.
Qed.

(* what two voters have APPLIED to their state machines at a common index is the same entry *)
Lemma st_applied_agree a b xa xb ea eb :
  aget a (nodes g) = Some xa -> aget b (nodes g) = Some xb -> a < RO_BASE -> b < RO_BASE ->
  In ea (log xa) -> In eb (log xb) -> eidx ea = eidx eb -> eidx ea <= applied xa -> eidx ea <= applied xb ->
  ea = eb.
Proof.
  intros Ha Hb Hla Hlb Hea Heb Hi Hia Hib.
  destruct (G_node a xa Ha Hla) as [_ HHa]. destruct (G_node b xb Hb Hlb) as [_ HHb].
  pose proof (H_ac _ _ _ HHa). pose proof (H_ac _ _ _ HHb).
  apply (st_sms a b xa xb ea eb); auto; lia.
Qed.

End State.

(* ---- two moments of one run ---- *)
Notation stable_star := (stable_star c mf V NDV SV VNE VRO Hb1).

Lemma committed_star s1 s2 Tb l k :
  KS.kreachable V' F0 s1 -> kstar s1 s2 -> S7.committed_upto s1 Tb l k -> S7.committed_upto s2 Tb l k.
Proof.
  intros HR K H. induction K as [|sa sb K IH Ks]; auto.
  assert (HRa : KS.kreachable V' F0 sa) by (eapply kstar_kreachable; eauto).
  pose proof (kall sa HRa) as A.
  eapply (S7.committed_mono V' F0 sa sb Tb Tb); eauto.
  - apply (SA.A1 _ _ _ A).
  - apply (SA.A2 _ _ _ A).
  - apply (SA.A3 _ _ _ A).
  - apply (kLF V NDV VNE sa HRa).
Qed.

(* a voter running at two moments of a run: what it had committed stays what it was *)
Lemma st_committed_never_change g1 st1 gm1 s1 g2 st2 gm2 s2 a xa1 xa2 e1 e2 :
  GI g1 st1 gm1 s1 -> GI g2 st2 gm2 s2 -> kstar s1 s2 ->
  aget a (nodes g1) = Some xa1 -> aget a (nodes g2) = Some xa2 -> a < RO_BASE ->
  In e1 (log xa1) -> eidx e1 <= commit xa1 ->
  commit xa1 <= commit xa2 /\ (In e2 (log xa2) -> eidx e2 = eidx e1 -> e2 = e1).
Proof.
  intros G1 G2 K Ha1 Ha2 Hla He1 Hc1.
  destruct (G_node _ _ _ _ G1 a xa1 Ha1 Hla) as [R1 _]. destruct (G_node _ _ _ _ G2 a xa2 Ha2 Hla) as [R2 _].
  destruct (G_full _ _ _ _ G1 a xa1 Ha1 Hla) as (f1 & E1 & W1 & X1 & Sm1).
  destruct (G_full _ _ _ _ G2 a xa2 Ha2 Hla) as (f2 & E2 & W2 & X2 & Sm2).
  destruct (stable_star s1 s2 (n2 a) (G_reach _ _ _ _ G1) K) as [C F].
  rewrite (Rn_commit _ _ _ _ _ _ R1), (Rn_commit _ _ _ _ _ _ R2) in C.
  rewrite (Rn_commit _ _ _ _ _ _ R1), E1, E2 in F.
  split; [lia|]. intros He2 Hi.
  destruct (In_full_nth _ _ _ W1 X1 He1) as [N1 P1]. destruct (In_full_nth _ _ _ W2 X2 He2) as [N2 P2].
  assert (X : nth_error f2 (n2 (eidx e1) - 1) = nth_error f1 (n2 (eidx e1) - 1)).
  { apply nth_abs_inj; auto. apply (ML.firstn_eq_nth _ _ _ _ F). lia. }
  rewrite N1 in X. rewrite <- Hi, N2 in X. congruence.
Qed.

(* LEADER COMPLETENESS: an entry a voter had committed is in the log range of every later leader of a term
   >= and equal to what that leader holds at its index *)
Lemma st_leader_completeness g1 st1 gm1 s1 g2 st2 gm2 s2 a l xa xl ea el :
  GI g1 st1 gm1 s1 -> GI g2 st2 gm2 s2 -> kstar s1 s2 ->
  aget a (nodes g1) = Some xa -> aget l (nodes g2) = Some xl -> a < RO_BASE -> l < RO_BASE ->
  role xl = LEADER -> term xa <= term xl -> In ea (log xa) -> eidx ea <= commit xa ->
  eidx ea <= last_idx (log xl) /\ (In el (log xl) -> eidx el = eidx ea -> el = ea).
Proof.
  intros G1 G2 K Ha Hl Hla Hll Hrole Ht Hea Hc1.
  destruct (G_node _ _ _ _ G1 a xa Ha Hla) as [Ra _]. destruct (G_node _ _ _ _ G2 l xl Hl Hll) as [Rl _].
  destruct (G_full _ _ _ _ G1 a xa Ha Hla) as (fa & Ea & Wa & Xa & Sma).
  destruct (G_full _ _ _ _ G2 l xl Hl Hll) as (fl & El & Wl & Xl & Sml).
  pose proof (G_reach _ _ _ _ G1) as HR1. pose proof (G_reach _ _ _ _ G2) as HR2.
  pose proof (S7.I7_node _ (SA.A7 _ _ _ (kall s1 HR1)) (n2 a)) as C1.
  apply (committed_star s1 s2 _ _ _ HR1 K) in C1.
  assert (Hlead : M.rl (M.nodes s2 (n2 l)) = M.Leader).
  { rewrite (Rn_role _ _ _ _ _ _ Rl), Hrole. reflexivity. }
  pose proof (kall s2 HR2) as A2.
  destruct (S2.I2_leader _ (SA.A2 _ _ _ A2) _ Hlead) as (Q & Cw & HQ).
  pose proof (S7.committed_in_leader s2 _ _ _ _ _ Q Cw
                (SA.A4 _ _ _ A2) (SA.A6 _ _ _ A2) (kLC V NDV VNE s2 HR2) C1 HQ) as F.
  rewrite <- (S3.I3_wlog _ (SA.A3 _ _ _ A2) _ _ _ _ HQ eq_refl) in F.
  rewrite (Rn_term _ _ _ _ _ _ Ra), (Rn_term _ _ _ _ _ _ Rl) in F.
  assert (Hle : (n2 (term xa) <= n2 (term xl))%nat) by lia. specialize (F Hle).
  rewrite Ea, El, (Rn_commit _ _ _ _ _ _ Ra) in F.
  destruct (In_full_nth _ _ _ Wa Xa Hea) as [Na Pa].
  assert (X : nth_error fl (n2 (eidx ea) - 1) = nth_error fa (n2 (eidx ea) - 1)).
  { apply nth_abs_inj; auto. symmetry. apply (ML.firstn_eq_nth _ _ _ _ F). lia. }
  rewrite Na in X.
  split.
  - rewrite (suffix_last_idx _ _ Xl), (wf1_last_idx _ Wl).
    assert (n2 (eidx ea) - 1 < length fl)%nat by (apply nth_error_Some; congruence). lia.
  - intros Hel Hi. destruct (In_full_nth _ _ _ Wl Xl Hel) as [Nl Pl]. rewrite Hi, X in Nl. congruence.
Qed.

(* what voter a had committed at one moment and voter b has committed at a later (or the same) moment
   agree at every common index: all committed prefixes of a run are prefixes of ONE sequence *)
Lemma st_committed_agree_over_time g1 st1 gm1 s1 g2 st2 gm2 s2 a b xa xb ea eb :
  GI g1 st1 gm1 s1 -> GI g2 st2 gm2 s2 -> kstar s1 s2 ->
  aget a (nodes g1) = Some xa -> aget b (nodes g2) = Some xb -> a < RO_BASE -> b < RO_BASE ->
  In ea (log xa) -> In eb (log xb) -> eidx ea = eidx eb -> eidx ea <= commit xa -> eidx ea <= commit xb ->
  ea = eb.
Proof.
  intros G1 G2 K Ha Hb Hla Hlb Hea Heb Hi Hca Hcb.
  destruct (G_node _ _ _ _ G1 a xa Ha Hla) as [Ra _]. destruct (G_node _ _ _ _ G2 b xb Hb Hlb) as [Rb _].
  destruct (G_full _ _ _ _ G1 a xa Ha Hla) as (fa & Ea & Wa & Xa & Sma).
  destruct (G_full _ _ _ _ G2 b xb Hb Hlb) as (fb & Eb & Wb & Xb & Smb).
  pose proof (G_reach _ _ _ _ G1) as HR1. pose proof (G_reach _ _ _ _ G2) as HR2.
  pose proof (S7.I7_node _ (SA.A7 _ _ _ (kall s1 HR1)) (n2 a)) as C1.
  apply (committed_star s1 s2 _ _ _ HR1 K) in C1.
  pose proof (S7.I7_node _ (SA.A7 _ _ _ (kall s2 HR2)) (n2 b)) as C2.
  destruct C1 as (L1 & T1 & p1 & D1c & D1 & _ & P1 & F1). destruct C2 as (L2 & T2 & p2 & D2c & D2 & _ & P2 & F2).
  rewrite (Rn_commit _ _ _ _ _ _ Ra) in F1, P1. rewrite Ea in F1. rewrite (Rn_commit _ _ _ _ _ _ Rb) in F2, P2. rewrite Eb in F2.
  destruct (In_full_nth _ _ _ Wa Xa Hea) as [Na Pa]. destruct (In_full_nth _ _ _ Wb Xb Heb) as [Nb Pb].
  set (k := n2 (eidx ea)).
  assert (Q : firstn k (M.llog s2 T1) = firstn k (M.llog s2 T2)).
  { apply (direct_prefix c mf V NDV SV VNE VRO Hb1 s2 T1 p1 D1c T2 p2 D2c k HR2 D1 D2); unfold k; lia. }
  assert (X : nth_error fa (k - 1) = nth_error fb (k - 1)).
  { apply nth_abs_inj; auto.
    rewrite (ML.firstn_eq_nth _ _ (n2 (commit xa)) (k - 1) F1) by (unfold k; lia).
    rewrite (ML.firstn_eq_nth _ _ (n2 (commit xb)) (k - 1) F2) by (unfold k; lia).
    apply (ML.firstn_eq_nth _ _ k (k - 1) Q). unfold k. lia. }
  unfold k in X. rewrite Na in X. rewrite Hi, Nb in X. congruence.
Qed.

End Run2.

(* ------------------------------------------------------------------------------------------ *)
(* runs in two parts                                                                          *)

Lemma valid_fromM_app2 V st a b :
  valid_fromM V st (a ++ b) = valid_fromM V st a && valid_fromM V (sts_after st a) b.
Proof.
  revert st. induction a as [|ev a IH]; intros st; cbn; auto.
  rewrite IH, andb_assoc. reflexivity.
Qed.

Lemma run_okM2_app c mf V g gm a b g1 :
  run_trace c g a = Some g1 ->
  run_okM2 c mf V g gm (a ++ b) = run_okM2 c mf V g gm a && run_okM2 c mf V g1 (gms_after c V g gm a) b.
Proof.
  revert g gm. induction a as [|ev a IH]; intros g gm H; cbn in *.
  - injection H as <-. reflexivity.
  - destruct (gstep c g ev) as [[g' r]|]; [|discriminate].
    rewrite (IH g' _ H). rewrite !andb_assoc. reflexivity.
Qed.

Lemma frag_args c mf V evs :
  core_fragM2 c mf V evs ->
  NoDup V /\ ssorted V /\ V <> [] /\ (forall v, In v V -> v < RO_BASE) /\ 1 < batch c /\ dyn c = true /\
  file_dump c = false /\ valid_fromM V [] evs = true /\ run_okM2 c mf V ginit [] evs = true /\
  sim_on_tick_stmt c mf V /\ sim_msg_ae_stmt c mf V /\ sim_msg_aesnap_stmt c mf V.
Proof.
  intros F. destruct (core_fragM2_facts c mf V evs F) as (ND & SV & HNE & HV & Hb & Hd & Hf & Hv & Hok).
  repeat split; auto.
  - apply on_tick_holds; auto.
  - apply msg_ae_holds; auto.
  - apply msg_aesnap_holds; auto.
Qed.

Lemma run_GI1 c mf V evs g :
  core_fragM2 c mf V evs -> run_trace c ginit evs = Some g ->
  exists st gm s, GI c mf V g st gm s.
Proof.
  intros F Hr. destruct (frag_args c mf V evs F) as (ND & SV & HNE & HV & Hb & Hd & Hf & Hv & Hok & T1 & T2 & T3).
  destruct (run_sim c mf V ND SV HNE HV Hb Hd Hf T1 T2 T3 evs ginit [] [] (M.init (absV V)) g
              (GI_init c mf V ND SV HNE HV Hb Hd Hf T1 T2 T3) Hv Hok Hr) as (s & K & G).
  eauto.
Qed.

Lemma run_GI2 c mf V evs1 evs2 g1 g2 :
  core_fragM2 c mf V (evs1 ++ evs2) -> run_trace c ginit evs1 = Some g1 -> run_trace c g1 evs2 = Some g2 ->
  exists st1 gm1 s1 st2 gm2 s2, GI c mf V g1 st1 gm1 s1 /\ GI c mf V g2 st2 gm2 s2 /\ kstar V s1 s2.
Proof.
  intros F Hr1 Hr2.
  destruct (frag_args c mf V _ F) as (ND & SV & HNE & HV & Hb & Hd & Hf & Hv & Hok & T1 & T2 & T3).
  rewrite valid_fromM_app2 in Hv. apply andb_true_iff in Hv as [Hv1 Hv2].
  rewrite (run_okM2_app c mf V ginit [] evs1 evs2 g1 Hr1) in Hok. apply andb_true_iff in Hok as [Hok1 Hok2].
  destruct (run_sim c mf V ND SV HNE HV Hb Hd Hf T1 T2 T3 evs1 ginit [] [] _ g1
              (GI_init c mf V ND SV HNE HV Hb Hd Hf T1 T2 T3) Hv1 Hok1 Hr1) as (s1 & K1 & G1).
  destruct (run_sim c mf V ND SV HNE HV Hb Hd Hf T1 T2 T3 evs2 g1 _ _ s1 g2 G1 Hv2 Hok2 Hr2) as (s2 & K2 & G2).
  do 6 eexists. eauto.
Qed.

(* ------------------------------------------------------------------------------------------ *)
(* the theorems on L1 runs                                                                    *)

Lemma TierCM2_log_matching :
  forall (c : conf) (mf : N -> N -> N * N) (V : list nid) (evs : list event) (g : gstate) (a b : nid) (xa xb : node)
         (ea eb ea' eb' : entry),
    dyn c = true -> file_dump c = false -> 1 < batch c -> validM V evs = true ->
    run_okM2 c mf V ginit [] evs = true ->
    run_trace c ginit evs = Some g ->
    aget a (nodes g) = Some xa -> aget b (nodes g) = Some xb -> a < RO_BASE -> b < RO_BASE ->
    In ea (log xa) -> In eb (log xb) -> eidx ea = eidx eb -> eterm ea = eterm eb ->
    In ea' (log xa) -> In eb' (log xb) -> eidx ea' = eidx eb' -> eidx ea' <= eidx ea -> ea' = eb'.
Proof.
  intros c mf V evs g a b xa xb ea eb ea' eb' H1 H2 H3 H4 H6 Hr.
  pose proof (core_fragM2_intro c mf V evs H1 H2 H3 H4 H6) as F.
  destruct (core_fragM2_facts c mf V evs F) as (ND & SV & HNE & HV & Hb & _).
  destruct (run_GI1 c mf V evs g F Hr) as (st & gm & s & G).
  apply (st_log_matching c mf V ND SV HNE HV Hb g st gm s G).
Qed.

Lemma TierCM2_leader_completeness :
  forall (c : conf) (mf : N -> N -> N * N) (V : list nid) (evs1 evs2 : list event) (g1 g2 : gstate) (a l : nid)
         (xa xl : node) (ea el : entry),
    dyn c = true -> file_dump c = false -> 1 < batch c -> validM V (evs1 ++ evs2) = true ->
    run_okM2 c mf V ginit [] (evs1 ++ evs2) = true ->
    run_trace c ginit evs1 = Some g1 -> run_trace c g1 evs2 = Some g2 ->
    aget a (nodes g1) = Some xa -> aget l (nodes g2) = Some xl -> a < RO_BASE -> l < RO_BASE ->
    role xl = LEADER -> term xa <= term xl -> In ea (log xa) -> eidx ea <= commit xa ->
    eidx ea <= last_idx (log xl) /\ (In el (log xl) -> eidx el = eidx ea -> el = ea).
Proof.
  intros c mf V evs1 evs2 g1 g2 a l xa xl ea el H1 H2 H3 H4 H6 Hr1 Hr2.
  pose proof (core_fragM2_intro c mf V _ H1 H2 H3 H4 H6) as F.
  destruct (core_fragM2_facts c mf V _ F) as (ND & SV & HNE & HV & Hb & _).
  destruct (run_GI2 c mf V evs1 evs2 g1 g2 F Hr1 Hr2) as (st1 & gm1 & s1 & st2 & gm2 & s2 & G1 & G2 & K).
  apply (st_leader_completeness c mf V ND SV HNE HV Hb g1 st1 gm1 s1 g2 st2 gm2 s2 a l xa xl ea el G1 G2 K).
Qed.

Lemma TierCM2_committed_held :
  forall (c : conf) (mf : N -> N -> N * N) (V : list nid) (evs : list event) (g : gstate) (a : nid) (xa : node) (i : N),
    dyn c = true -> file_dump c = false -> 1 < batch c -> validM V evs = true ->
    run_okM2 c mf V ginit [] evs = true ->
    run_trace c ginit evs = Some g ->
    aget a (nodes g) = Some xa -> a < RO_BASE -> first_idx (log xa) <= i -> i <= commit xa ->
    exists en, In en (log xa) /\ eidx en = i.
Proof.
  intros c mf V evs g a xa i H1 H2 H3 H4 H6 Hr.
  pose proof (core_fragM2_intro c mf V evs H1 H2 H3 H4 H6) as F.
  destruct (core_fragM2_facts c mf V evs F) as (ND & SV & HNE & HV & Hb & _).
  destruct (run_GI1 c mf V evs g F Hr) as (st & gm & s & G).
  apply (st_committed_held c mf V ND SV HNE HV Hb g st gm s G).
Qed.

Lemma TierCM2_applied_entries_agree :
  forall (c : conf) (mf : N -> N -> N * N) (V : list nid) (evs : list event) (g : gstate) (a b : nid) (xa xb : node)
         (ea eb : entry),
    dyn c = true -> file_dump c = false -> 1 < batch c -> validM V evs = true ->
    run_okM2 c mf V ginit [] evs = true ->
    run_trace c ginit evs = Some g ->
    aget a (nodes g) = Some xa -> aget b (nodes g) = Some xb -> a < RO_BASE -> b < RO_BASE ->
    In ea (log xa) -> In eb (log xb) -> eidx ea = eidx eb -> eidx ea <= applied xa -> eidx ea <= applied xb ->
    ea = eb.
Proof.
  intros c mf V evs g a b xa xb ea eb H1 H2 H3 H4 H6 Hr.
  pose proof (core_fragM2_intro c mf V evs H1 H2 H3 H4 H6) as F.
  destruct (core_fragM2_facts c mf V evs F) as (ND & SV & HNE & HV & Hb & _).
  destruct (run_GI1 c mf V evs g F Hr) as (st & gm & s & G).
  apply (st_applied_agree c mf V ND SV HNE HV Hb g st gm s G).
Qed.

Lemma TierCM2_committed_never_change :
  forall (c : conf) (mf : N -> N -> N * N) (V : list nid) (evs1 evs2 : list event) (g1 g2 : gstate) (a : nid)
         (xa1 xa2 : node) (e1 e2 : entry),
    dyn c = true -> file_dump c = false -> 1 < batch c -> validM V (evs1 ++ evs2) = true ->
    run_okM2 c mf V ginit [] (evs1 ++ evs2) = true ->
    run_trace c ginit evs1 = Some g1 -> run_trace c g1 evs2 = Some g2 ->
    aget a (nodes g1) = Some xa1 -> aget a (nodes g2) = Some xa2 -> a < RO_BASE ->
    In e1 (log xa1) -> eidx e1 <= commit xa1 ->
    commit xa1 <= commit xa2 /\ (In e2 (log xa2) -> eidx e2 = eidx e1 -> e2 = e1).
Proof.
  intros c mf V evs1 evs2 g1 g2 a xa1 xa2 e1 e2 H1 H2 H3 H4 H6 Hr1 Hr2.
  pose proof (core_fragM2_intro c mf V _ H1 H2 H3 H4 H6) as F.
  destruct (core_fragM2_facts c mf V _ F) as (ND & SV & HNE & HV & Hb & _).
  destruct (run_GI2 c mf V evs1 evs2 g1 g2 F Hr1 Hr2) as (st1 & gm1 & s1 & st2 & gm2 & s2 & G1 & G2 & K).
  apply (st_committed_never_change c mf V ND SV HNE HV Hb g1 st1 gm1 s1 g2 st2 gm2 s2 a xa1 xa2 e1 e2 G1 G2 K).
Qed.

(* what any voter has applied at index i at any moment of a run is the same entry: every applied prefix is a
   prefix of one common committed sequence *)
Lemma TierCM2_applied_entries_agree_over_time :
  forall (c : conf) (mf : N -> N -> N * N) (V : list nid) (evs1 evs2 : list event) (g1 g2 : gstate) (a b : nid)
         (xa xb : node) (ea eb : entry),
    dyn c = true -> file_dump c = false -> 1 < batch c -> validM V (evs1 ++ evs2) = true ->
    run_okM2 c mf V ginit [] (evs1 ++ evs2) = true ->
    run_trace c ginit evs1 = Some g1 -> run_trace c g1 evs2 = Some g2 ->
    aget a (nodes g1) = Some xa -> aget b (nodes g2) = Some xb -> a < RO_BASE -> b < RO_BASE ->
    In ea (log xa) -> In eb (log xb) -> eidx ea = eidx eb -> eidx ea <= applied xa -> eidx ea <= applied xb ->
    ea = eb.
Proof.
  intros c mf V evs1 evs2 g1 g2 a b xa xb ea eb H1 H2 H3 H4 H6 Hr1 Hr2 Ha Hb Hla Hlb Iea Ieb Hi Hia Hib.
  pose proof (core_fragM2_intro c mf V _ H1 H2 H3 H4 H6) as F.
  destruct (core_fragM2_facts c mf V _ F) as (ND & SV & HNE & HV & Hb1 & _).
  destruct (run_GI2 c mf V evs1 evs2 g1 g2 F Hr1 Hr2) as (st1 & gm1 & s1 & st2 & gm2 & s2 & G1 & G2 & K).
  destruct (G_node c mf V ND SV HNE HV Hb1 g1 st1 gm1 s1 G1 a xa Ha Hla) as [_ HHa].
  destruct (G_node c mf V ND SV HNE HV Hb1 g2 st2 gm2 s2 G2 b xb Hb Hlb) as [_ HHb].
  pose proof (H_ac _ _ _ HHa). pose proof (H_ac _ _ _ HHb).
  apply (st_committed_agree_over_time c mf V ND SV HNE HV Hb1 g1 st1 gm1 s1 g2 st2 gm2 s2 a b xa xb ea eb G1 G2 K);
    auto; lia.
Qed.
