(* Tier C5, part 11: the refinement theorem with log compaction and snapshot install.  Every L1
   step of the fragment is simulated by finitely many L0 [kstep]s ([step_sim]).  The fragment:
   dyn = false, 1 < batch, voters start once, a node's first tick finds no dump stored. *)
From Coq Require Import ZArith NArith List Bool Lia ZifyBool Arith PeanoNat.
From RecordUpdate Require Import RecordSet.
From PSO Require Import Raft.Types Raft.Node Raft.Net Raft.Obs Raft.ProofsCommitBase.
From PSO Require Import Raft.ProofsElectionBase Raft.ProofsElectionFrame Raft.ProofsElectionStep
  Raft.ProofsElectionGhost Raft.ProofsElectionInv Raft.ProofsElectionMain.
From PSO Require Import Raft.RefineAbs Raft.RefineK Raft.RefineSpecA Raft.RefineTickA Raft.RefineGlobal.
From PSO Require Raft.RefineMain.
From PSO Require Import Raft.Refine5Abs Raft.Refine5SpecA Raft.Refine5Sim Raft.Refine5TickA Raft.Refine5TickB
  Raft.Refine5MsgA Raft.Refine5MsgB Raft.Refine5MsgC Raft.Refine5Global Raft.Refine5RO.
From PSO Require Abstract.Model Abstract.Lib Abstract.Kstep Abstract.Safety1_WF Abstract.Safety2_Election.
Import ListNotations.
Import RecordSetNotations.
Open Scope N_scope.

(* ------------------------------------------------------------------------------------------ *)
(* the fragment                                                                               *)


(* a tick that is to load the dump file (first tick of a node, file_dump = true) finds nothing stored:
   in the code the load precedes the first poll of the network *)
Definition tick_okb (c : conf) (g : gstate) (ev : event) : bool :=
  match ev with
  | ETick n _ _ _ _ _ =>
      match aget n (nodes g) with
      | Some x => negb (need_load x && file_dump c) ||
                  match stored (sr x) with None => true | Some _ => false end
      | None => true
      end
  | _ => true
  end.

Lemma tick_okb_ok c g ev : tick_okb c g ev = true -> tick_ok c g ev.
Proof.
  destruct ev; cbn; auto. intros H x Hx Hn. rewrite Hx, Hn in H. cbn in H.
  destruct (stored (sr x)); [discriminate|reflexivity].
Qed.

Fixpoint run_ok5 (c : conf) (g : gstate) (evs : list event) : bool :=
  match evs with
  | [] => true
  | ev :: r =>
    tick_okb c g ev &&
    match gstep c g ev with
    | Some (g', _) => run_ok5 c g' r
    | None => true
    end
  end.

Definition core_frag5 (c : conf) (V : list nid) (evs : list event) : Prop :=
  dyn c = false /\ 1 < batch c /\ valid V evs = true /\ run_ok5 c ginit evs = true.

(* the piece buffer of a node is touched by AEPiece messages only *)
Lemma recv_msg_frame e a m x :
  match m with AEPiece _ _ _ _ _ _ _ => False | _ => True end -> recv_t (nd (on_message e a m x)) = recv_t x.
Proof.
  destruct m as [t li lt|t|t cm prev es|t cm prev lab off len en|t cm p|cm req|req okr p q|t nx rs su];
    intros H; try contradiction.
  - apply (fr_msg_request_vote recv_t); intros; reflexivity.
  - apply (fr_msg_response_vote recv_t); intros; reflexivity.
  - unfold on_message. rewrite on_append_entries_eq. destruct (_ <? _); [reflexivity|]. cbn [ae_body_of].
    rewrite (fr_ae_regular recv_t) by (intros; reflexivity). apply (fr_ae_pre0 recv_t); intros; reflexivity.
  - unfold on_message. rewrite on_append_entries_eq. destruct (_ <? _); [reflexivity|]. cbn [ae_body_of].
    set (S1 := ae_pre e a t cm (start_S e x)).
    assert (E1 : recv_t (nd S1) = recv_t x) by (apply (fr_ae_pre0 recv_t); intros; reflexivity).
    pose proof (fr_set_transmission recv_t) as F. specialize (F ltac:(intros; reflexivity) p S1).
    destruct (set_transmission p S1) as [s1 done]. cbn [fst] in F.
    destruct (done && load_dump_ok s1); [|destruct done].
    + rewrite (fr_ae_commit recv_t) by (intros; reflexivity). rewrite nd_send_next_idx.
      rewrite (fr_load_dump recv_t) by (intros; reflexivity). congruence.
    + rewrite (fr_ae_commit recv_t) by (intros; reflexivity).
      rewrite (fr_load_dump recv_t) by (intros; reflexivity). congruence.
    + rewrite (fr_ae_commit recv_t) by (intros; reflexivity). congruence.
  - apply (fr_msg_apply_cmd recv_t); intros; reflexivity.
  - apply (fr_msg_apply_resp recv_t); intros; reflexivity.
  - apply (fr_msg_next_idx recv_t); intros; reflexivity.
Qed.

Section Main.
Variable c : conf.
Variable V : list nid.
Hypothesis NDV : NoDup V.
Hypothesis VRO : forall v, In v V -> v < RO_BASE.
Hypothesis VNE : V <> [].
Hypothesis Hb1 : 1 < batch c.
Hypothesis Hdyn : dyn c = false.

Notation V' := (absV V).
Notation Rn := (Rn c V).
Notation Rmsg := (Rmsg c).
Notation Hn := (Hn c).
Notation Hr := (Hr c).
Notation R := (R c V).
Notation ksn := (ksn V).
Notation kstar := (kstar V).
Notation LS := (LS c V).
Notation ROS := (ROS c).

Record GI (g : gstate) (gh : ghost) (st : list nid) (s : M.state) : Prop := {
  GI_inv : Inv V g gh st;
  GI_reach : KS.kreachable V' s;
  GI_R : R g gh st s
}.


(* ---- connection bookkeeping and api calls keep the node relation ---- *)
Lemma Rn_on_connected n b x s : Rn n x s -> Rn n (on_connected b x) s.
Proof.
  intros [A1 A2 A3 A4 A5 A6 A7 A8 A9 A10 A11 A12]. unfold on_connected.
  destruct (RO_BASE <=? b) eqn:E; constructor; cbn; auto.
  intros f m Hf Hne Hg. rewrite ProofsElectionBase.aget_aset in Hg.
  destruct (f =? b) eqn:Ef; [|eauto]. apply N.eqb_eq in Ef. subst. apply N.leb_le in E. specialize (VRO b Hf). lia.
Qed.

Lemma Hn_on_connected b x : Hn x -> Hn (on_connected b x).
Proof.
  intros [B1 B2 B3 B4 B6 B7 B8 B9]. unfold on_connected.
  destruct (RO_BASE <=? b) eqn:E; constructor; cbn; auto.
  apply N.leb_le in E. rewrite Forall_forall in *. intros y Hy. apply In_sadd in Hy as [->|Hy]; auto.
Qed.

Lemma Hr_on_connected b x : Hr x -> Hr (on_connected b x).
Proof. intros [B1 B2]. unfold on_connected. destruct (RO_BASE <=? b); constructor; cbn; auto. Qed.

Lemma In_adel {A} k (l : list (N * A)) p : In p (adel k l) -> In p l.
Proof. induction l as [|[k' v] l IH]; cbn; auto. destruct (k =? k'); cbn; auto. intros [H|H]; auto. Qed.

Lemma Rn_on_disconnected n b x s : Rn n x s -> Rn n (on_disconnected b x) s.
Proof.
  intros [A1 A2 A3 A4 A5 A6 A7 A8 A9 A10 A11 A12]. unfold on_disconnected.
  destruct (RO_BASE <=? b) eqn:E; constructor; cbn; auto.
  - intros f m Hf Hne Hg. apply N.leb_le in E.
    rewrite aget_adel_neq in Hg; [eauto|]. intros ->. specialize (VRO b Hf). lia.
  - intros d bl off Hi. apply In_adel in Hi. eapply (held_rv c V NDV VRO VNE Hb1); [|eapply A10; eauto]. reflexivity.
  - intros d bl off Hi. apply In_adel in Hi. eapply (held_rv c V NDV VRO VNE Hb1); [|eapply A10; eauto]. reflexivity.
Qed.

Lemma Hn_on_disconnected b x : Hn x -> Hn (on_disconnected b x).
Proof.
  intros [B1 B2 B3 B4 B6 B7 B8 B9]. unfold on_disconnected.
  destruct (RO_BASE <=? b) eqn:E; constructor; cbn; auto.
  rewrite Forall_forall in *. intros y Hy. apply RefineMain.In_sdel in Hy. auto.
Qed.

Lemma Hr_on_disconnected b x : Hr x -> Hr (on_disconnected b x).
Proof. intros [B1 B2]. unfold on_disconnected. destruct (RO_BASE <=? b); constructor; cbn; auto. Qed.

Lemma LS_idle n s e x y :
  LS n s (start_S e x) -> Rn n y s -> Hn y -> self y = self x -> others y = others x ->
  LS n s (idle_S y).
Proof.
  intros L RN HH Hs Ho.
  apply (LS_ksn c V NDV VRO VNE Hb1 n s s (start_S e x) (idle_S y)).
  - constructor.
  - exact L.
  - exact RN.
  - exact HH.
  - cbn [nd idle_S]. rewrite Hs. apply (LS_self _ _ _ _ _ L).
  - cbn [nd idle_S]. rewrite Ho. apply (LS_others _ _ _ _ _ L).
  - exists []. split; [reflexivity|]. apply Ro_nil.
Qed.

(* ---- the common ending of a step of a running voter ---- *)
Lemma GI_finish g g0 gh st s s' n x (S : Node.S) ev g' r :
  GI g gh st s -> tick_ok c g ev -> aget n (nodes g) = Some x -> n < RO_BASE -> In n st ->
  nodes g0 = nodes g -> (forall a b m, In m (chan_get a b g0) -> In m (chan_get a b g)) ->
  ksn (n2 n) s s' -> LS n s' S ->
  gstep c g ev = Some (g', r) -> ev_ok V st ev = true -> st_after st ev = st ->
  r = Some (n, S) -> (forall a b m, In m (chan_get a b g') -> In m (chan_get a b (finish n S g0))) ->
  nodes g' = nodes (finish n S g0) ->
  (self_grant ev g n S = [] \/
   (self_grant ev g n S = [(term (nd S), n, n)] /\ voted (nd S) = Some n)) ->
  (recv_t (nd S) = recv_t x \/ (forall en o l, In (en, o, l) (recv_t (nd S)) -> legit c s' en)) ->
  GI g' (ghost_step ev g r gh) st s'.
Proof.
  intros [I HR RR] Htk Hx Hlt Hst En Hch K L Hstep Hev Hsta Hr0 Hch' Hn' Hsg Hrecv.
  pose proof (inv_gstep_gen V c g gh st ev g' r Hdyn Htk NDV VRO I Hev Hstep) as I'. rewrite Hsta in I'.
  assert (HR' : KS.kreachable V' s') by (eapply ksn_kreachable; eauto).
  assert (RF : R (finish n S g0) (ghost_step ev g r gh) st s').
  { apply (R_finish c V NDV VRO VNE Hb1 g g0 gh _ st s s' n x S); auto.
    { destruct Hrecv as [E|H]; [|exact H]. intros en o l Hin. rewrite E in Hin.
      eapply legit_kstar; [exact HR|eapply ksn_kstar; exact K|]. eapply (R_recv _ _ _ _ _ _ RR n x); eauto. }
    intros t v cd Hin. subst r. cbn [ghost_step grants] in Hin.
    apply in_app_or in Hin as [Hin|Hin].
    - destruct Hsg as [Hsg|[Hsg Hv]]; rewrite Hsg in Hin; [destruct Hin|].
      destruct Hin as [Hin|[]]. injection Hin as <- <- <-. right. right. auto.
    - apply in_app_or in Hin as [Hin|Hin]; auto.
      apply RefineMain.rv_grants_In in Hin. right. left. exact Hin. }
  constructor; auto.
  destruct RF as [F1 F2 F3 F4 F5 F6 F7]. constructor; auto.
  - intros v y Hy. apply F1. rewrite <- Hn'. exact Hy.
  - intros v y Hy. apply (F5 v y). rewrite <- Hn'. exact Hy.
  - intros v y Hy. apply (F6 v y). rewrite <- Hn'. exact Hy.
  - intros v y en o l Hy. apply (F7 v y en o l). rewrite <- Hn'. exact Hy.
Qed.

(* ---- the same for a read-only node: no abstract step at all ---- *)
Lemma ro_out_Rmsg b d m s : RO_BASE <= b -> ro_msg c m -> Rmsg b d m s.
Proof.
  intros Hb Hm. destruct m; cbn in *; try contradiction; auto. intros _ Hlt. lia.
Qed.

Lemma rv_grants_ro b os : Forall (ro_out c) os -> rv_grants b os = [].
Proof.
  unfold rv_grants. induction os as [|o os IH]; intros H; [reflexivity|].
  inversion H as [|? ? Ho Hr0]; subst. cbn [flat_map]. rewrite (IH Hr0).
  destruct o as [d m| | | |]; auto. destruct m; auto. destruct Ho.
Qed.

Lemma Rmsg_ro_in a b m s : Rmsg a b m s -> ro_in c m.
Proof.
  destruct m as [t li lt|t|t cm [[pi pt]|] es|t cm prev lab off len en|t cm [|bl off len first last]|cm req|req okr p q|t nx rs su];
    cbn; auto.
Qed.

Lemma ROS_start g gh st s e b x :
  Inv V g gh st -> R g gh st s -> aget b (nodes g) = Some x -> RO_BASE <= b -> ROS (start_S e x).
Proof.
  intros I RR Hx Hge. destruct (I_node _ _ _ _ I b x Hx) as (_ & _ & Hro). destruct (Hro Hge) as [A B].
  constructor; [apply (R_ro _ _ _ _ _ _ RR b x Hx Hge)|exact A|exact B|constructor].
Qed.

Lemma ROS_idle e x y :
  ROS (start_S e x) -> Hr y -> self y = self x -> role y = role x -> ROS (idle_S y).
Proof.
  intros [A1 A2 A3 A4] HH Hs Hrl. constructor; cbn [nd outs idle_S].
  - exact HH.
  - rewrite Hs. exact A2.
  - rewrite Hrl. exact A3.
  - constructor.
Qed.

Lemma GI_ro_step g g0 gh st s b x (S : Node.S) ev g' r :
  GI g gh st s -> tick_ok c g ev -> aget b (nodes g) = Some x -> RO_BASE <= b -> ROS S ->
  nodes g0 = nodes g -> (forall a' b' m, In m (chan_get a' b' g0) -> In m (chan_get a' b' g)) ->
  gstep c g ev = Some (g', r) -> ev_ok V st ev = true -> st_after st ev = st ->
  r = Some (b, S) -> (forall a' b' m, In m (chan_get a' b' g') -> In m (chan_get a' b' (finish b S g0))) ->
  nodes g' = nodes (finish b S g0) -> self_grant ev g b S = [] ->
  exists s', kstar s s' /\ GI g' (ghost_step ev g r gh) st s'.
Proof.
  intros [I HR RR] Htk Hx Hge RS En Hch Hstep Hev Hsta Hr0 Hch' Hn' Hsg.
  pose proof (inv_gstep_gen V c g gh st ev g' r Hdyn Htk NDV VRO I Hev Hstep) as I'. rewrite Hsta in I'.
  exists s. split; [constructor|]. constructor; auto.
  assert (Nf : nodes g' = aset b (nd S) (nodes g)) by (rewrite Hn', nodes_finish, En; reflexivity).
  constructor.
  - intros v y Hy Hv. rewrite Nf, ProofsElectionBase.aget_aset in Hy.
    destruct (v =? b) eqn:Ev; [apply N.eqb_eq in Ev; lia|]. apply (R_node _ _ _ _ _ _ RR v y Hy Hv).
  - apply (R_init _ _ _ _ _ _ RR).
  - intros a' b' m Hm. apply Hch' in Hm. apply finish_chan in Hm as [Hm|[-> Hm]].
    + apply (R_msg _ _ _ _ _ _ RR a' b' m). auto.
    + apply ro_out_Rmsg; auto. pose proof (RO_o _ _ RS) as Ho. rewrite Forall_forall in Ho.
      apply (Ho _ Hm).
  - intros t v cd Hin. subst r. cbn [ghost_step grants] in Hin.
    rewrite Hsg, (rv_grants_ro b (outs S) (RO_o _ _ RS)) in Hin. cbn [app] in Hin.
    apply (R_gh _ _ _ _ _ _ RR t v cd Hin).
  - intros v y Hy Hv. rewrite Nf, ProofsElectionBase.aget_aset in Hy.
    destruct (v =? b) eqn:Ev; [apply N.eqb_eq in Ev; lia|]. apply (R_hyg _ _ _ _ _ _ RR v y Hy Hv).
  - intros v y Hy Hv. rewrite Nf, ProofsElectionBase.aget_aset in Hy.
    destruct (v =? b) eqn:Ev.
    + injection Hy as <-. apply (RO_h _ _ RS).
    + apply (R_ro _ _ _ _ _ _ RR v y Hy Hv).
  - intros v y en o l Hy Hv. rewrite Nf, ProofsElectionBase.aget_aset in Hy.
    destruct (v =? b) eqn:Ev; [apply N.eqb_eq in Ev; lia|]. apply (R_recv _ _ _ _ _ _ RR v y en o l Hy Hv).
Qed.


(* ---- one step ---- *)
Theorem step_sim g gh st s ev g' r :
  GI g gh st s -> ev_ok V st ev = true -> tick_okb c g ev = true ->
  gstep c g ev = Some (g', r) ->
  exists s', kstar s s' /\ GI g' (ghost_step ev g r gh) (st_after st ev) s'.
Proof.
  intros G Hev Htb Hstep.
  pose proof G as [I HR RR].
  assert (Htk : tick_ok c g ev) by (apply tick_okb_ok; exact Htb). clear Htb.
  destruct ev as [n now rnd bud ord sl | a b now rnd ord | a b | a b k | a b | n cm cb | n cm cb | n cm cb
                 | n | n | n oth now rnd sv]; pose proof Hstep as Hstep0; unfold gstep in Hstep; cbn [st_after].
  - (* ETick *)
    destruct (aget n (nodes g)) as [x|] eqn:Hx; [|discriminate].
    injection Hstep as <- <-.
    set (e := mk_env c now rnd bud ord sl) in *.
    destruct (N.ltb_spec n RO_BASE) as [Hlt|Hge].
    + destruct (LS_start c V NDV VRO VNE Hb1 g gh st s e n x I HR RR Hx Hlt) as [L0 Hst].
      destruct (sim_on_tick c V NDV VRO VNE Hb1 Hdyn e eq_refl n x s (Htk x Hx) L0) as (s' & K & L).
      exists s'. split; [eapply ksn_kstar; eauto|].
      eapply (GI_finish g g gh st s s' n x (on_tick e x)); eauto.
      unfold self_grant. rewrite Hx.
      destruct (term x <? term (nd (on_tick e x))) eqn:Et; [|left; reflexivity].
      right. split; [reflexivity|]. apply N.ltb_lt in Et.
      destruct (on_tick_spec e x) as [Cm|Cd].
      * destruct Cm as (_ & B & _). cbn in B. lia.
      * destruct Cd as (me & A & _ & _ & D & _). rewrite D. rewrite <- A.
        apply (LS_self _ _ _ _ _ L0).
      * left. apply (fr_on_tick recv_t); intros; reflexivity.
    + pose proof (ROS_start g gh st s e n x I RR Hx Hge) as R0.
      pose proof (ro_on_tick c Hdyn e x (Htk x Hx) R0) as RS.
      apply (GI_ro_step g g gh st s n x (on_tick e x) _ _ _ G Htk Hx Hge RS eq_refl (fun _ _ _ H => H)
               Hstep0 Hev eq_refl eq_refl); auto.
      unfold self_grant. rewrite Hx.
      destruct (term x <? term (nd (on_tick e x))) eqn:Et; [|reflexivity]. apply N.ltb_lt in Et.
      destruct (on_tick_spec e x) as [Cm|Cd].
      * destruct Cm as (_ & B & _). cbn in B. lia.
      * destruct Cd as (me & A & _). pose proof (RO_self _ _ R0) as Hs0. cbn in Hs0. congruence.
  - (* EDeliver *)
    destruct (aget b (nodes g)) as [x|] eqn:Hx; [|discriminate].
    destruct (chan_get a b g) as [|m rest] eqn:Hch; [discriminate|].
    injection Hstep as <- <-.
    set (e := mk_env c now rnd DEFAULT_BUDGET ord 0) in *.
    assert (Hm : Rmsg a b m s).
    { apply (R_msg _ _ _ _ _ _ RR a b m). rewrite Hch. left. reflexivity. }
    assert (Hc1 : forall a' b' m', In m' (chan_get a' b' (chan_set a b rest g)) -> In m' (chan_get a' b' g)).
    { intros a' b' m' Hin. rewrite chan_get_set in Hin.
      destruct ((a' =? a) && (b' =? b)) eqn:E; auto.
      apply andb_true_iff in E as [E1 E2]. apply N.eqb_eq in E1, E2. subst. rewrite Hch. right. exact Hin. }
    destruct (N.ltb_spec b RO_BASE) as [Hlt|Hge].
    + destruct (LS_start c V NDV VRO VNE Hb1 g gh st s e b x I HR RR Hx Hlt) as [L0 Hst].
      assert (Hsim : exists s', ksn (n2 b) s s' /\ LS b s' (on_message e a m x) /\
                (recv_t (nd (on_message e a m x)) = recv_t x \/
                 forall en o l, In (en, o, l) (recv_t (nd (on_message e a m x))) -> legit c s' en)).
      { assert (Hrest : match m with AEPiece _ _ _ _ _ _ _ => False | _ => True end ->
                  (exists s', ksn (n2 b) s s' /\ LS b s' (on_message e a m x)) ->
                  exists s', ksn (n2 b) s s' /\ LS b s' (on_message e a m x) /\
                    (recv_t (nd (on_message e a m x)) = recv_t x \/
                     forall en o l, In (en, o, l) (recv_t (nd (on_message e a m x))) -> legit c s' en)).
        { intros Hnp (s' & K & L). exists s'. split; auto. split; auto. left. apply recv_msg_frame. exact Hnp. }
        destruct m as [t li lt|t|t cm prev es|t cm prev lab off len en|t cm p|cm req|req okr p q|t nx rs su].
        - apply Hrest; [exact Logic.I|]. eapply sim_msg_rv; eauto.
        - apply Hrest; [exact Logic.I|]. eapply sim_msg_vote; eauto. intros Hr Ht.
          eapply (uncounted_granter c V NDV VRO VNE Hb1 g gh st s a b x t); eauto. rewrite Hch. left. reflexivity.
        - apply Hrest; [exact Logic.I|]. eapply sim_msg_ae; eauto.
        - destruct (sim_msg_aepiece c V NDV VRO VNE Hb1 Hdyn e eq_refl b a x s t cm prev lab off len en L0 Hm)
            as (s' & K & L & Hrv).
          { intros en0 o l Hin. eapply (R_recv _ _ _ _ _ _ RR b x); eauto. }
          exists s'. split; [exact K|]. split; [exact L|]. right. exact Hrv.
        - apply Hrest; [exact Logic.I|]. eapply sim_msg_aesnap; eauto.
        - apply Hrest; [exact Logic.I|]. eapply sim_msg_applycmd; eauto.
        - apply Hrest; [exact Logic.I|]. eapply sim_msg_applyresp; eauto.
        - apply Hrest; [exact Logic.I|]. eapply sim_msg_nextidx; eauto. }
      destruct Hsim as (s' & K & L & Hrv).
      exists s'. split; [eapply ksn_kstar; eauto|].
      eapply (GI_finish g (chan_set a b rest g) gh st s s' b x (on_message e a m x)); eauto.
    + pose proof (ROS_start g gh st s e b x I RR Hx Hge) as R0.
      pose proof (ro_on_message c Hdyn e eq_refl a m x R0 (Rmsg_ro_in a b m s Hm)) as RS.
      apply (GI_ro_step g (chan_set a b rest g) gh st s b x (on_message e a m x) _ _ _ G Htk Hx Hge RS eq_refl Hc1
               Hstep0 Hev eq_refl eq_refl); auto.
  - (* EDrop *)
    destruct (aget a (nodes g)) as [x|] eqn:Hx; [|discriminate].
    injection Hstep as <- <-.
    set (e := mk_env c 0 0 0 [] 0).
    assert (Hc2 : forall a' b' m', In m' (chan_get a' b' (chan_set b a [] (finish a (idle_S (on_disconnected b x)) g))) ->
                  In m' (chan_get a' b' (finish a (idle_S (on_disconnected b x)) g))).
    { intros a' b' m' Hin. rewrite chan_get_set in Hin. destruct (_ && _); [destruct Hin|exact Hin]. }
    assert (Hs : self (on_disconnected b x) = self x) by (unfold on_disconnected; destruct (_ <=? _); reflexivity).
    assert (Ho : others (on_disconnected b x) = others x) by (unfold on_disconnected; destruct (_ <=? _); reflexivity).
    assert (Hrl : role (on_disconnected b x) = role x) by (unfold on_disconnected; destruct (_ <=? _); reflexivity).
    destruct (N.ltb_spec a RO_BASE) as [Hlt|Hge].
    + destruct (LS_start c V NDV VRO VNE Hb1 g gh st s e a x I HR RR Hx Hlt) as [L0 Hst].
      assert (L : LS a s (idle_S (on_disconnected b x))).
      { apply (LS_idle a s e x); auto.
        - apply Rn_on_disconnected. apply (LS_n _ _ _ _ _ L0).
        - apply Hn_on_disconnected. apply (LS_h _ _ _ _ _ L0). }
      exists s. split; [constructor|].
      apply (GI_finish g g gh st s s a x (idle_S (on_disconnected b x)) (EDrop a b) _ _ G Htk Hx Hlt Hst eq_refl
               (fun _ _ _ H => H) (ksn_refl _ _ _) L Hstep0 Hev eq_refl eq_refl); auto.
      left. cbn [nd idle_S]. apply (fr_on_disconnected recv_t); intros; reflexivity.
    + pose proof (ROS_start g gh st s e a x I RR Hx Hge) as R0.
      assert (RS : ROS (idle_S (on_disconnected b x))).
      { apply (ROS_idle e x); auto. apply Hr_on_disconnected. apply (RO_h _ _ R0). }
      apply (GI_ro_step g g gh st s a x (idle_S (on_disconnected b x)) (EDrop a b) _ _ G Htk Hx Hge RS eq_refl
               (fun _ _ _ H => H) Hstep0 Hev eq_refl eq_refl); auto.
  - (* ELose *)
    injection Hstep as <- <-. exists s. split; [constructor|].
    pose proof (inv_gstep_gen V c g gh st _ _ _ Hdyn Htk NDV VRO I Hev Hstep0) as I'.
    constructor; auto.
    apply (R_shrink c V NDV VRO VNE Hb1 g _ gh st st s RR); auto.
    + intros v y Hy Hv. apply (R_node _ _ _ _ _ _ RR v y Hy Hv).
    + intros v y Hy Hv. apply (R_hyg _ _ _ _ _ _ RR v y Hy Hv).
    + intros v y Hy Hv. apply (R_ro _ _ _ _ _ _ RR v y Hy Hv).
    + intros v y en o l Hy Hv Hin. apply (R_recv _ _ _ _ _ _ RR v y en o l Hy Hv Hin).
    + intros a' b' m' Hin. rewrite chan_get_set in Hin. destruct (_ && _) eqn:E; auto.
      apply andb_true_iff in E as [E1 E2]. apply N.eqb_eq in E1, E2. subst.
      eapply In_firstn_in; eauto.
    + apply incl_refl.
  - (* EConnect *)
    destruct (aget a (nodes g)) as [x|] eqn:Hx; [|discriminate].
    injection Hstep as <- <-.
    set (e := mk_env c 0 0 0 [] 0).
    match goal with |- context [finish a _ ?G1] => set (g1 := G1) in * end.
    assert (En : nodes g1 = nodes g).
    { subst g1. destruct (match aget b (nodes g) with Some y => negb (smem a (tconn y)) | None => true end); reflexivity. }
    assert (Hc1 : forall a' b' m', In m' (chan_get a' b' g1) -> In m' (chan_get a' b' g)).
    { intros a' b' m' Hin. subst g1.
      destruct (match aget b (nodes g) with Some y => negb (smem a (tconn y)) | None => true end); auto.
      rewrite !chan_get_set in Hin. destruct (_ && _); [destruct Hin|]. destruct (_ && _); [destruct Hin|exact Hin]. }
    assert (Hs : self (on_connected b x) = self x) by (unfold on_connected; destruct (_ <=? _); reflexivity).
    assert (Ho : others (on_connected b x) = others x) by (unfold on_connected; destruct (_ <=? _); reflexivity).
    assert (Hrl : role (on_connected b x) = role x) by (unfold on_connected; destruct (_ <=? _); reflexivity).
    destruct (N.ltb_spec a RO_BASE) as [Hlt|Hge].
    + destruct (LS_start c V NDV VRO VNE Hb1 g gh st s e a x I HR RR Hx Hlt) as [L0 Hst].
      assert (L : LS a s (idle_S (on_connected b x))).
      { apply (LS_idle a s e x); auto.
        - apply Rn_on_connected. apply (LS_n _ _ _ _ _ L0).
        - apply Hn_on_connected. apply (LS_h _ _ _ _ _ L0). }
      exists s. split; [constructor|].
      apply (GI_finish g g1 gh st s s a x (idle_S (on_connected b x)) (EConnect a b) _ _ G Htk Hx Hlt Hst En Hc1
               (ksn_refl _ _ _) L Hstep0 Hev eq_refl eq_refl); auto.
      left. cbn [nd idle_S]. apply (fr_on_connected recv_t); intros; reflexivity.
    + pose proof (ROS_start g gh st s e a x I RR Hx Hge) as R0.
      assert (RS : ROS (idle_S (on_connected b x))).
      { apply (ROS_idle e x); auto. apply Hr_on_connected. apply (RO_h _ _ R0). }
      apply (GI_ro_step g g1 gh st s a x (idle_S (on_connected b x)) (EConnect a b) _ _ G Htk Hx Hge RS En Hc1
               Hstep0 Hev eq_refl eq_refl); auto.
  - (* ESubmit *)
    destruct (aget n (nodes g)) as [x|] eqn:Hx; [|discriminate].
    injection Hstep as <- <-.
    set (e := mk_env c 0 0 DEFAULT_BUDGET [] 0) in *.
    assert (Hcm : small_cmd c cm) by exact Logic.I.
    destruct (N.ltb_spec n RO_BASE) as [Hlt|Hge].
    + destruct (LS_start c V NDV VRO VNE Hb1 g gh st s e n x I HR RR Hx Hlt) as [L0 Hst].
      assert (L : LS n s (api_submit e cm (cb_of cb) x)) by (unfold api_submit; eapply sim_submit; eauto).
      exists s. split; [constructor|].
      apply (GI_finish g g gh st s s n x (api_submit e cm (cb_of cb) x) (ESubmit n cm cb) _ _ G Htk Hx Hlt Hst eq_refl
               (fun _ _ _ H => H) (ksn_refl _ _ _) L Hstep0 Hev eq_refl eq_refl); auto.
      left. unfold api_submit. apply (fr_submit recv_t); intros; reflexivity.
    + pose proof (ROS_start g gh st s e n x I RR Hx Hge) as R0.
      assert (RS : ROS (api_submit e cm (cb_of cb) x)) by (unfold api_submit; apply ro_submit; auto).
      apply (GI_ro_step g g gh st s n x _ (ESubmit n cm cb) _ _ G Htk Hx Hge RS eq_refl
               (fun _ _ _ H => H) Hstep0 Hev eq_refl eq_refl); auto.
  - (* EAdmin *)
    destruct (aget n (nodes g)) as [x|] eqn:Hx; [|discriminate].
    injection Hstep as <- <-.
    set (e := mk_env c 0 0 DEFAULT_BUDGET [] 0) in *.
    assert (Ea : api_admin e cm (cb_of cb) x = raise EXC_GENERIC (start_S e x)).
    { unfold api_admin. change (dyn (cf e)) with (dyn c). rewrite Hdyn. reflexivity. }
    destruct (N.ltb_spec n RO_BASE) as [Hlt|Hge].
    + destruct (LS_start c V NDV VRO VNE Hb1 g gh st s e n x I HR RR Hx Hlt) as [L0 Hst].
      assert (L : LS n s (api_admin e cm (cb_of cb) x)) by (rewrite Ea; eapply LS_same; eauto).
      exists s. split; [constructor|].
      apply (GI_finish g g gh st s s n x (api_admin e cm (cb_of cb) x) (EAdmin n cm cb) _ _ G Htk Hx Hlt Hst eq_refl
               (fun _ _ _ H => H) (ksn_refl _ _ _) L Hstep0 Hev eq_refl eq_refl); auto.
      left. rewrite Ea. reflexivity.
    + pose proof (ROS_start g gh st s e n x I RR Hx Hge) as R0.
      assert (RS : ROS (api_admin e cm (cb_of cb) x)) by (rewrite Ea; eapply ROS_same; eauto).
      apply (GI_ro_step g g gh st s n x _ (EAdmin n cm cb) _ _ G Htk Hx Hge RS eq_refl
               (fun _ _ _ H => H) Hstep0 Hev eq_refl eq_refl); auto.
  - (* ESetVer *)
    destruct (aget n (nodes g)) as [x|] eqn:Hx; [|discriminate].
    injection Hstep as <- <-.
    set (e := mk_env c 0 0 DEFAULT_BUDGET [] 0) in *.
    assert (Hcm : small_cmd c cm) by exact Logic.I.
    destruct (N.ltb_spec n RO_BASE) as [Hlt|Hge].
    + destruct (LS_start c V NDV VRO VNE Hb1 g gh st s e n x I HR RR Hx Hlt) as [L0 Hst].
      assert (L : LS n s (api_setver e cm (cb_of cb) x)).
      { unfold api_setver. destruct (_ || _); [eapply LS_same; eauto|eapply sim_submit; eauto]. }
      exists s. split; [constructor|].
      apply (GI_finish g g gh st s s n x (api_setver e cm (cb_of cb) x) (ESetVer n cm cb) _ _ G Htk Hx Hlt Hst eq_refl
               (fun _ _ _ H => H) (ksn_refl _ _ _) L Hstep0 Hev eq_refl eq_refl); auto.
      left. unfold api_setver. destruct (_ || _); [reflexivity|apply (fr_submit recv_t); intros; reflexivity].
    + pose proof (ROS_start g gh st s e n x I RR Hx Hge) as R0.
      assert (RS : ROS (api_setver e cm (cb_of cb) x)).
      { unfold api_setver. destruct (_ || _); [eapply ROS_same; eauto|apply ro_submit; auto]. }
      apply (GI_ro_step g g gh st s n x _ (ESetVer n cm cb) _ _ G Htk Hx Hge RS eq_refl
               (fun _ _ _ H => H) Hstep0 Hev eq_refl eq_refl); auto.
  - (* ECompact *)
    destruct (aget n (nodes g)) as [x|] eqn:Hx; [|discriminate].
    injection Hstep as <- <-.
    set (e := mk_env c 0 0 0 [] 0).
    destruct (N.ltb_spec n RO_BASE) as [Hlt|Hge].
    + destruct (LS_start c V NDV VRO VNE Hb1 g gh st s e n x I HR RR Hx Hlt) as [L0 Hst].
      assert (L : LS n s (idle_S (api_compact x))).
      { apply (LS_idle n s e x); auto.
        - eapply (Rn_rv c V NDV VRO VNE Hb1); [| | |apply (LS_n _ _ _ _ _ L0)]; [reflexivity|reflexivity|apply tr_ok_same; reflexivity].
        - eapply (Hn_hv c V NDV VRO VNE Hb1); [|apply (LS_h _ _ _ _ _ L0)]. reflexivity. }
      exists s. split; [constructor|].
      apply (GI_finish g g gh st s s n x (idle_S (api_compact x)) (ECompact n) _ _ G Htk Hx Hlt Hst eq_refl
               (fun _ _ _ H => H) (ksn_refl _ _ _) L Hstep0 Hev eq_refl eq_refl); auto.
    + pose proof (ROS_start g gh st s e n x I RR Hx Hge) as R0.
      assert (RS : ROS (idle_S (api_compact x))).
      { apply (ROS_idle e x); auto. destruct (RO_h _ _ R0) as [B1 B2]. constructor; cbn; auto. }
      apply (GI_ro_step g g gh st s n x _ (ECompact n) _ _ G Htk Hx Hge RS eq_refl
               (fun _ _ _ H => H) Hstep0 Hev eq_refl eq_refl); auto.
  - (* EKill *)
    injection Hstep as <- <-. exists s. split; [constructor|].
    pose proof (inv_gstep_gen V c g gh st _ _ _ Hdyn Htk NDV VRO I Hev Hstep0) as I'.
    cbn [st_after] in I'.
    set (g1 := match aget n (nodes g) with
               | Some x => match disk_of c x with
                           | Some d => g <| disks := aset n d (disks g) |>
                           | None => g <| disks := adel n (disks g) |> end
               | None => g end) in *.
    assert (N1 : nodes g1 = nodes g /\ chan g1 = chan g).
    { subst g1. destruct (aget n (nodes g)); [destruct (disk_of c n0)|]; auto. }
    destruct N1 as [N1 C1].
    assert (Hnodes : forall v y, aget v (nodes (g1 <| nodes := adel n (nodes g1) |>
                <| chan := filter (fun c0 => negb ((fst (fst c0) =? n) || (snd (fst c0) =? n))) (chan g1) |>)) = Some y ->
              aget v (nodes g) = Some y).
    { intros v y Hy. cbn in Hy. rewrite N1 in Hy.
      destruct (N.eq_dec v n) as [->|Hne].
      - rewrite aget_adel_same in Hy; [discriminate|]. apply (I_sorted _ _ _ _ I).
      - rewrite aget_adel_neq in Hy; auto. }
    constructor; auto.
    apply (R_shrink c V NDV VRO VNE Hb1 g _ gh st st s RR); auto.
    + intros v y Hy Hv. apply (R_node _ _ _ _ _ _ RR v y (Hnodes v y Hy) Hv).
    + intros v y Hy Hv. apply (R_hyg _ _ _ _ _ _ RR v y (Hnodes v y Hy) Hv).
    + intros v y Hy Hv. apply (R_ro _ _ _ _ _ _ RR v y (Hnodes v y Hy) Hv).
    + intros v y en o l Hy Hv Hin. apply (R_recv _ _ _ _ _ _ RR v y en o l (Hnodes v y Hy) Hv Hin).
    + intros a' b' m' Hin.
      assert (Hin2 : In m' (chan_get a' b' (g <| chan := filter (fun c0 => negb ((fst (fst c0) =? n) || (snd (fst c0) =? n))) (chan g) |>))).
      { unfold chan_get in *. cbn [chan set] in *. rewrite C1 in Hin. exact Hin. }
      apply chan_get_kill in Hin2. exact Hin2.
    + apply incl_refl.
  - (* ERestart *)
    injection Hstep as <- <-.
    pose proof (inv_gstep_gen V c g gh st _ _ _ Hdyn Htk NDV VRO I Hev Hstep0) as I'.
    cbn [st_after] in I'.
    set (e := mk_env c now rnd DEFAULT_BUDGET [] 0) in *.
    exists s. split; [constructor|].
    assert (Hnodes : forall x0 v y, aget v (nodes (put_node n x0
                (g <| chan := filter (fun c0 => negb ((fst (fst c0) =? n) || (snd (fst c0) =? n))) (chan g) |>))) = Some y ->
              (v = n /\ y = x0) \/ (v <> n /\ aget v (nodes g) = Some y)).
    { intros x0 v y Hy. unfold put_node in Hy. cbn in Hy. rewrite ProofsElectionBase.aget_aset in Hy.
      destruct (v =? n) eqn:Ev.
      - apply N.eqb_eq in Ev. injection Hy as <-. auto.
      - apply N.eqb_neq in Ev. auto. }
    assert (Hinit : forall me0 oth0, Hn (init_node e me0 oth0 sv)).
    { intros me0 oth0. constructor; unfold init_node; cbn; auto; try lia; try (intros; discriminate).
      all: try (constructor; [|constructor]; exact Logic.I). }
    assert (Hinitr : forall me0 oth0, Hr (init_node e me0 oth0 sv)).
    { intros me0 oth0. constructor; unfold init_node; cbn; auto; lia. }
    destruct (N.ltb_spec n RO_BASE) as [Hro|Hge].
    + (* a voter starts (for the first time) *)
      cbn [ev_ok] in Hev. assert (Hlt : n <? RO_BASE = true) by (apply N.ltb_lt; auto). try rewrite Hlt in *.
      apply andb_true_iff in Hev as [Hev H3]. apply andb_true_iff in Hev as [H1 H2].
      apply smem_In in H1. apply leqb_eq in H3. subst oth.
      assert (Hnst : ~ In n st).
      { intros Hin. apply smem_In in Hin. rewrite Hin in H2. discriminate. }
      assert (Hle : RO_BASE <=? n = false) by (apply N.leb_gt; exact Hro).
      rewrite Hle in *.
      assert (Hd : aget n (disks g) = None).
      { destruct (aget n (disks g)) as [d|] eqn:E; auto. exfalso. apply Hnst.
        apply ProofsElectionBase.aget_In in E. apply (I_disk _ _ _ _ I n d E Hro). }
      rewrite Hd in *.
      set (x0 := init_node e (Some n) (vminus n V) sv) in *.
      constructor; auto.
      constructor.
      * intros v y Hy Hv. apply Hnodes in Hy as [[-> ->]|[Hne Hy]]; [|apply (R_node _ _ _ _ _ _ RR v y Hy Hv)].
        destruct (R_init _ _ _ _ _ _ RR n H1 Hnst) as (P1 & P2 & P3 & P4 & P5).
        constructor; unfold x0, init_node; cbn [term voted role log commit votes match_idx sr stored trans incoming init_ser option_map].
        -- exact P1.
        -- exact P2.
        -- exact P3.
        -- exists [mkEntry (noop_cmd (noop_pk (cf e))) 1 0]. split.
           ++ rewrite P4. change (cf e) with c. unfold absL. cbn [map]. unfold absE. cbn [ecmd eidx eterm].
              unfold pk. rewrite enc_noop. reflexivity.
           ++ exists 0%nat. split; [reflexivity|cbn; lia].
        -- exact P5.
        -- intros Hx. compute in Hx. discriminate.
        -- intros f m _ _ Hx. discriminate.
        -- intros Hx. discriminate.
        -- intros bl Hx. discriminate.
        -- intros d bl off [].
        -- intros ps bl o l Hx. discriminate.
        -- pose proof (S7.I7_node _ (S7.inv7_kreachable V' (V'_nodup c V NDV VRO VNE Hb1) (V'_ne c V NDV VRO VNE Hb1) s HR)
                         (n2 n)) as C7.
           rewrite P1, P5 in C7. exact C7.
      * intros v Hv Hn0. apply (R_init _ _ _ _ _ _ RR v Hv). intros Hin. apply Hn0. right. exact Hin.
      * intros a' b' m' Hin. apply (R_msg _ _ _ _ _ _ RR a' b' m').
        unfold put_node in Hin. apply chan_get_kill in Hin. exact Hin.
      * apply (R_gh _ _ _ _ _ _ RR).
      * intros v y Hy Hv. apply Hnodes in Hy as [[-> ->]|[Hne Hy]]; [apply Hinit|apply (R_hyg _ _ _ _ _ _ RR v y Hy Hv)].
      * intros v y Hy Hv. apply Hnodes in Hy as [[-> ->]|[Hne Hy]]; [lia|apply (R_ro _ _ _ _ _ _ RR v y Hy Hv)].
      * intros v y en o l Hy Hv Hin. apply Hnodes in Hy as [[-> ->]|[Hne Hy]];
          [destruct Hin|apply (R_recv _ _ _ _ _ _ RR v y en o l Hy Hv Hin)].
    + (* a read-only node (re)starts *)
      assert (Hlt : n <? RO_BASE = false) by (apply N.ltb_ge; auto). try rewrite Hlt in *.
      assert (Hle : RO_BASE <=? n = true) by (apply N.leb_le; exact Hge).
      rewrite Hle in *.
      set (x0 := match aget n (disks g) with
                 | Some d => init_node e None oth sv
                 | None => init_node e None oth sv end) in *.
      assert (Ex0 : x0 = init_node e None oth sv) by (unfold x0; destruct (aget n (disks g)); reflexivity).
      constructor; auto.
      constructor.
      * intros v y Hy Hv. apply Hnodes in Hy as [[-> ->]|[Hne Hy]]; [lia|apply (R_node _ _ _ _ _ _ RR v y Hy Hv)].
      * apply (R_init _ _ _ _ _ _ RR).
      * intros a' b' m' Hin. apply (R_msg _ _ _ _ _ _ RR a' b' m').
        unfold put_node in Hin. apply chan_get_kill in Hin. exact Hin.
      * apply (R_gh _ _ _ _ _ _ RR).
      * intros v y Hy Hv. apply Hnodes in Hy as [[-> ->]|[Hne Hy]]; [lia|apply (R_hyg _ _ _ _ _ _ RR v y Hy Hv)].
      * intros v y Hy Hv. apply Hnodes in Hy as [[-> ->]|[Hne Hy]]; [rewrite Ex0; apply Hinitr|apply (R_ro _ _ _ _ _ _ RR v y Hy Hv)].
      * intros v y en o l Hy Hv Hin. apply Hnodes in Hy as [[-> ->]|[Hne Hy]];
          [lia|apply (R_recv _ _ _ _ _ _ RR v y en o l Hy Hv Hin)].
Qed.

End Main.
