(* C12: a replicated method that raises; exact characterisation of the apply loop.
   In the model a REGULAR command with cb = 1 raises: do_apply returns RaisedUser and
   apply_one hands the exception object (result code 1) to the callbacks and goes on. *)
From Coq Require Import ZArith NArith List Bool Lia.
From RecordUpdate Require Import RecordSet.
From PSO Require Import Raft.Types Raft.Node Raft.Net Raft.ProofsApplyBase.
Import ListNotations.
Import RecordSetNotations.
Open Scope N_scope.

(* ------------------------------------------------------------------ *)
(* do_apply                                                             *)
(* ------------------------------------------------------------------ *)

Definition res_code (ar : apply_res) : N := match ar with Applied r => r | _ => 1 end.

Lemma do_apply_blocked : forall c s,
  needs_ver (self_ver (nd s)) c = true -> do_apply c s = (s, WrongVer).
Proof.
  intros c s H. unfold needs_ver in H. apply andb_prop in H as [H1 H2].
  unfold do_apply. now rewrite H1, H2.
Qed.

(* every command that is not blocked is executed: raising or not *)
Lemma do_apply_ok : forall c s,
  needs_ver (self_ver (nd s)) c = false ->
  snd (do_apply c s) <> WrongVer /\
  res_code (snd (do_apply c s)) = result_of (hist (nd s)) c /\
  hist (nd (fst (do_apply c s))) = hist (nd s) ++ cmd_effect c /\
  enabled_ver (nd (fst (do_apply c s))) = (if ck c =? 3 then ca c else enabled_ver (nd s)) /\
  applied (nd (fst (do_apply c s))) = applied (nd s) /\
  self_ver (nd (fst (do_apply c s))) = self_ver (nd s) /\
  cview_of (fst (do_apply c s)) = cview_of s /\
  exc (fst (do_apply c s)) = exc s.
Proof.
  intros c s H. unfold needs_ver in H. unfold do_apply, result_of, cmd_effect.
  destruct (ck c =? 3) eqn:K3.
  - cbn in H. rewrite H. cbn.
    apply N.eqb_eq in K3. rewrite K3. cbn. rewrite app_nil_r. repeat split; auto; discriminate.
  - unfold membership_of. destruct (ck c =? 2) eqn:K2.
    + apply N.eqb_eq in K2. rewrite K2. cbn [N.eqb Pos.eqb andb].
      destruct (applied (nd s) <? replay_idx (nd s)); cbn [fst snd res_code].
      * pose proof (view_do_change_cluster (ca c =? 1) (cb c) false s) as V.
        pose proof (view_cview _ _ V) as CV. apply view_inv in V as (_ & _ & _ & V4 & V5 & V6 & V7 & _).
        rewrite V4, V5, V6, V7, exc_do_change_cluster, app_nil_r. repeat split; auto; discriminate.
      * rewrite app_nil_r. repeat split; auto; discriminate.
    + destruct (ck c =? 0) eqn:K0.
      * destruct (cb c =? 1) eqn:R; cbn.
        -- rewrite app_nil_r. repeat split; auto; discriminate.
        -- repeat split; auto; discriminate.
      * cbn. rewrite app_nil_r. repeat split; auto; discriminate.
Qed.

(* a raising command: result code 1, user state untouched *)
Lemma do_apply_raises : forall c s,
  raises c = true -> snd (do_apply c s) = RaisedUser /\ fst (do_apply c s) = s.
Proof.
  intros c s H. unfold raises in H. apply andb_prop in H as [H1 H2].
  apply N.eqb_eq in H1. unfold do_apply, membership_of. rewrite H1. cbn. now rewrite H2.
Qed.

(* ------------------------------------------------------------------ *)
(* apply_one                                                            *)
(* ------------------------------------------------------------------ *)

Definition sub_fired (en : entry) (r : N) (tc : N * cbref) : list (N * N * N) :=
  match snd tc with
  | CbLocal id => if fst tc =? eterm en then [(id, r, SUCCESS)] else [(id, 0, DISCARDED)]
  | _ => []
  end.

Lemma fired_sub_out : forall en r subs,
  fired (flat_map (sub_out en r) subs) = flat_map (sub_fired en r) subs.
Proof.
  induction subs as [|tc subs IH]; cbn; auto.
  rewrite fired_app, IH. f_equal.
  unfold sub_out, sub_fired, fire_out. destruct (snd tc), (fst tc =? eterm en); reflexivity.
Qed.

Definition pop_wc (i : N) (s : S) : S := upd (fun n => n <| wait_commit := adel i (wait_commit n) |>) s.

Lemma apply_one_blocked : forall en s,
  needs_ver (self_ver (nd s)) (ecmd en) = true ->
  apply_one en s = (pop_wc (eidx en) s, false).
Proof.
  intros en s H. unfold apply_one. fold (pop_wc (eidx en) s).
  rewrite do_apply_blocked; auto.
Qed.

Lemma apply_one_go : forall en s,
  snd (apply_one en s) = negb (needs_ver (self_ver (nd s)) (ecmd en)).
Proof.
  intros en s. destruct (needs_ver (self_ver (nd s)) (ecmd en)) eqn:B.
  - now rewrite apply_one_blocked.
  - unfold apply_one. fold (pop_wc (eidx en) s).
    destruct (do_apply_ok (ecmd en) (pop_wc (eidx en) s) B) as (H1 & _).
    destruct (do_apply (ecmd en) (pop_wc (eidx en) s)) as [s1 ar]. cbn in H1.
    destruct ar; cbn; auto; congruence.
Qed.

Lemma apply_one_unfold : forall en s,
  apply_one en s =
  let s0 := pop_wc (eidx en) s in
  match snd (do_apply (ecmd en) s0) with
  | WrongVer => (fst (do_apply (ecmd en) s0), false)
  | ar => (upd (fun n => n <| applied := applied n + 1 |>)
               (sub_loop en (res_code ar) (subs_of (eidx en) (wait_commit (nd s))) (fst (do_apply (ecmd en) s0))),
           true)
  end.
Proof.
  intros. unfold apply_one. fold (pop_wc (eidx en) s). cbn zeta.
  destruct (do_apply (ecmd en) (pop_wc (eidx en) s)) as [s1 [r| |]]; reflexivity.
Qed.

#[local] Arguments sub_loop : simpl never.
#[local] Arguments res_code : simpl never.

Lemma apply_one_ok : forall en s,
  needs_ver (self_ver (nd s)) (ecmd en) = false ->
  let s' := fst (apply_one en s) in
  snd (apply_one en s) = true /\
  hist (nd s') = hist (nd s) ++ cmd_effect (ecmd en) /\
  enabled_ver (nd s') = (if ck (ecmd en) =? 3 then ca (ecmd en) else enabled_ver (nd s)) /\
  applied (nd s') = applied (nd s) + 1 /\
  self_ver (nd s') = self_ver (nd s) /\
  wait_commit (nd s') = adel (eidx en) (wait_commit (nd s)) /\
  queue (nd s') = queue (nd s) /\ wait_reply (nd s') = wait_reply (nd s) /\
  local_ctr (nd s') = local_ctr (nd s) /\
  exc s' = exc s /\
  fired (outs s') = fired (outs s) ++
     flat_map (sub_fired en (result_of (hist (nd s)) (ecmd en))) (subs_of (eidx en) (wait_commit (nd s))).
Proof.
  intros en s B. cbn zeta. split. { rewrite apply_one_go, B. reflexivity. }
  rewrite apply_one_unfold. cbn zeta.
  destruct (do_apply_ok (ecmd en) (pop_wc (eidx en) s) B) as (H1 & H2 & H3 & H4 & H5 & H6 & H7 & H8).
  apply cview_inv in H7 as (C1 & C2 & C3 & C4 & C5 & C6).
  destruct (do_apply (ecmd en) (pop_wc (eidx en) s)) as [s1 ar]. cbn [fst snd] in *.
  destruct ar as [r| |]; [|congruence|]; cbn [fst];
  (match goal with |- context [sub_loop en ?r ?l s1] =>
    destruct (sub_loop_spec en r l s1) as (L1 & L2 & L3 & L4 & L5 & L6 & L7) end);
  cbn [nd upd exc outs]; cbn; rewrite L1, L2, L7, fired_app, fired_sub_out, H2, H3, H4, H5, H6, H8;
  rewrite C1, C2, C3, C4, C6; cbn; auto 12.
Qed.

(* ------------------------------------------------------------------ *)
(* apply_list                                                           *)
(* ------------------------------------------------------------------ *)

(* the Fired outputs of executing es from user state h with subscriber table wc *)
Fixpoint fired_list (h : list N) (wc : list (N * list (N * cbref))) (es : list entry) : list (N * N * N) :=
  match es with
  | [] => []
  | en :: r =>
    flat_map (sub_fired en (result_of h (ecmd en))) (subs_of (eidx en) wc)
    ++ fired_list (h ++ cmd_effect (ecmd en)) (adel (eidx en) wc) r
  end.

Definition pop_all (es : list entry) (wc : list (N * list (N * cbref))) :=
  fold_left (fun wc e => adel (eidx e) wc) es wc.

(* the entries whose subscriber lists the loop pops: the executed ones and the blocker *)
Definition touched (sv : N) (es : list entry) : list entry :=
  runnable sv es ++ match blocker sv es with Some b => [b] | None => [] end.

Lemma apply_list_cons : forall en r s,
  apply_list (en :: r) s =
  if snd (apply_one en s) then apply_list r (fst (apply_one en s)) else fst (apply_one en s).
Proof. intros. cbn [apply_list]. destruct (apply_one en s) as [s1 go]. reflexivity. Qed.

Theorem apply_list_spec : forall es s,
  let sv := self_ver (nd s) in
  let run := runnable sv es in
  let s' := apply_list es s in
  hist (nd s') = hist (nd s) ++ replay run /\
  enabled_ver (nd s') = ver_after (enabled_ver (nd s)) run /\
  applied (nd s') = applied (nd s) + N.of_nat (length run) /\
  self_ver (nd s') = sv /\
  wait_commit (nd s') = pop_all (touched sv es) (wait_commit (nd s)) /\
  queue (nd s') = queue (nd s) /\ wait_reply (nd s') = wait_reply (nd s) /\
  local_ctr (nd s') = local_ctr (nd s) /\
  exc s' = exc s /\
  fired (outs s') = fired (outs s) ++ fired_list (hist (nd s)) (wait_commit (nd s)) run.
Proof.
  induction es as [|en r IH]; intros s; cbn zeta.
  - cbn. rewrite !app_nil_r, N.add_0_r. auto 12.
  - rewrite apply_list_cons, apply_one_go. unfold touched. cbn [runnable blocker].
    destruct (needs_ver (self_ver (nd s)) (ecmd en)) eqn:B; cbn [negb].
    + rewrite apply_one_blocked by auto. cbn. rewrite !app_nil_r, N.add_0_r. auto 12.
    + destruct (apply_one_ok en s B) as (_ & A1 & A2 & A3 & A4 & A5 & A6 & A7 & A8 & A9 & A10).
      specialize (IH (fst (apply_one en s))). cbn zeta in IH.
      destruct IH as (I1 & I2 & I3 & I4 & I5 & I6 & I7 & I8 & I9 & I10).
      rewrite A4 in *. unfold touched in I5.
      rewrite I1, I2, I3, I4, I5, I6, I7, I8, I9, I10, A1, A2, A3, A5, A6, A7, A8, A9, A10.
      cbn [length replay flat_map fired_list app pop_all fold_left].
      fold (replay (runnable (self_ver (nd s)) r)).
      rewrite <- !app_assoc.
      repeat split; auto; lia.
Qed.

(* ------------------------------------------------------------------ *)
(* C12_moves_past                                                       *)
(* ------------------------------------------------------------------ *)

(* apply_list gets through every entry before the first one that needs a newer code
   version, raising or not, counts each of them, and no exception escapes *)
Theorem moves_past : forall (es : list entry) (s : S),
  let sv := self_ver (nd s) in
  let s' := apply_list es s in
  applied (nd s') = applied (nd s) + N.of_nat (length (runnable sv es)) /\
  hist (nd s') = hist (nd s) ++ replay (runnable sv es) /\
  enabled_ver (nd s') = ver_after (enabled_ver (nd s)) (runnable sv es) /\
  self_ver (nd s') = sv /\
  exc s' = exc s /\
  (exists tl, es = runnable sv es ++ tl /\
              match tl with [] => True | b :: _ => needs_ver sv (ecmd b) = true end) /\
  ((forall e, In e es -> needs_ver sv (ecmd e) = false) ->
     applied (nd s') = applied (nd s) + N.of_nat (length es)).
Proof.
  intros es s. cbn zeta.
  destruct (apply_list_spec es s) as (H1 & H2 & H3 & H4 & H5 & H6 & H7 & H8 & H9 & H10).
  repeat split; auto.
  - pose proof (runnable_blocker (self_ver (nd s)) es) as RB.
    destruct (blocker (self_ver (nd s)) es) as [b|].
    + destruct RB as [tl [E B]]. exists (b :: tl). auto.
    + exists []. rewrite app_nil_r. auto.
  - intros NB. rewrite H3, runnable_none; auto.
Qed.

(* the progress of the loop does not depend on which commands raise *)
Definition same_but_raising (e e' : entry) : Prop :=
  eidx e = eidx e' /\ eterm e = eterm e' /\ ck (ecmd e) = ck (ecmd e') /\ ca (ecmd e) = ca (ecmd e').

Lemma runnable_length_raising : forall sv es es',
  Forall2 same_but_raising es es' -> length (runnable sv es) = length (runnable sv es').
Proof.
  induction 1 as [|e e' es es' (H1 & H2 & H3 & H4) F IH]; cbn; auto.
  unfold needs_ver. rewrite H3, H4. destruct ((ck (ecmd e') =? 3) && (sv <? ca (ecmd e'))); cbn; auto.
Qed.

Theorem moves_past_any_raising : forall (es es' : list entry) (s : S),
  Forall2 same_but_raising es es' ->
  applied (nd (apply_list es s)) = applied (nd (apply_list es' s)) /\
  exc (apply_list es s) = exc (apply_list es' s).
Proof.
  intros es es' s F.
  destruct (apply_list_spec es s) as (_ & _ & H3 & _ & _ & _ & _ & _ & H9 & _).
  destruct (apply_list_spec es' s) as (_ & _ & H3' & _ & _ & _ & _ & _ & H9' & _).
  rewrite H3, H3', H9, H9', (runnable_length_raising _ _ _ F). auto.
Qed.

(* ------------------------------------------------------------------ *)
(* C12_callback_once                                                    *)
(* ------------------------------------------------------------------ *)

(* the local subscribers (term recorded at submission, callback id) of a list *)
Definition local_subs (l : list (N * cbref)) : list (N * N) :=
  flat_map (fun tc => match snd tc with CbLocal id => [(fst tc, id)] | _ => [] end) l.

(* what one subscriber is told *)
Definition outcome (en : entry) (r : N) (ti : N * N) : N * N * N :=
  if fst ti =? eterm en then (snd ti, r, SUCCESS) else (snd ti, 0, DISCARDED).

Lemma sub_fired_map : forall en r subs,
  flat_map (sub_fired en r) subs = map (outcome en r) (local_subs subs).
Proof.
  induction subs as [|tc subs IH]; cbn; auto.
  unfold local_subs in *. cbn [flat_map]. rewrite map_app, <- IH. f_equal.
  unfold sub_fired, outcome. destruct (snd tc); cbn; auto. destruct (fst tc =? eterm en); auto.
Qed.

(* one Fired per local subscriber of each executed entry, against the table as it was before the loop *)
Fixpoint fired_run (h : list N) (wc : list (N * list (N * cbref))) (es : list entry) : list (N * N * N) :=
  match es with
  | [] => []
  | en :: r =>
    map (outcome en (result_of h (ecmd en))) (local_subs (subs_of (eidx en) wc))
    ++ fired_run (h ++ cmd_effect (ecmd en)) wc r
  end.

Lemma fired_list_ext : forall es h wc wc',
  NoDup (map eidx es) ->
  (forall e, In e es -> aget (eidx e) wc = aget (eidx e) wc') ->
  fired_list h wc es = fired_run h wc' es.
Proof.
  induction es as [|en r IH]; intros h wc wc' ND H; cbn; auto.
  inversion ND as [|? ? NI ND']; subst.
  rewrite sub_fired_map. unfold subs_of at 1 2. rewrite (H en (or_introl eq_refl)). f_equal.
  apply IH; auto. intros e I. rewrite aget_adel_other.
  - apply H. now right.
  - intros E. apply NI. rewrite <- E. now apply in_map.
Qed.

Lemma pop_all_sorted : forall es wc lo, asorted lo wc -> asorted lo (pop_all es wc).
Proof.
  induction es as [|e r IH]; intros; cbn; auto. apply IH. now apply asorted_adel.
Qed.

Lemma pop_all_other : forall es wc i, ~ In i (map eidx es) -> aget i (pop_all es wc) = aget i wc.
Proof.
  induction es as [|e r IH]; intros wc i NI; cbn; auto.
  rewrite IH. - apply aget_adel_other. intros E. apply NI. left. auto.
  - intros I. apply NI. now right.
Qed.

Lemma pop_all_absent : forall es wc i, aget i wc = None -> aget i (pop_all es wc) = None.
Proof.
  induction es as [|e r IH]; intros wc i H; cbn; auto. apply IH.
  destruct (N.eq_dec i (eidx e)) as [->|NE].
  - now rewrite adel_absent.
  - now rewrite aget_adel_other.
Qed.

Lemma pop_all_gone : forall es wc i lo, asorted lo wc -> In i (map eidx es) -> aget i (pop_all es wc) = None.
Proof.
  induction es as [|e r IH]; intros wc i lo SO I; cbn in *; [tauto|].
  destruct (N.eq_dec (eidx e) i) as [<-|NE].
  - apply pop_all_absent. eapply aget_adel_same; eauto.
  - destruct I as [I|I]; [congruence|]. apply (IH _ _ lo); auto. now apply asorted_adel.
Qed.

Theorem callback_once : forall (es : list entry) (s : S),
  NoDup (map eidx es) ->
  asorted None (wait_commit (nd s)) ->
  let sv := self_ver (nd s) in
  let wc := wait_commit (nd s) in
  let s' := apply_list es s in
  (* exactly one Fired per local subscriber of each executed entry: SUCCESS with the result iff
     the recorded term is the entry's term, DISCARDED otherwise; nothing else is fired *)
  fired (outs s') = fired (outs s) ++ fired_run (hist (nd s)) wc (runnable sv es) /\
  (* their subscriptions are gone *)
  (forall en, In en (touched sv es) -> aget (eidx en) (wait_commit (nd s')) = None) /\
  (* every other index keeps its subscribers *)
  (forall i, ~ In i (map eidx (touched sv es)) -> aget i (wait_commit (nd s')) = aget i wc) /\
  asorted None (wait_commit (nd s')).
Proof.
  intros es s ND SO. cbn zeta.
  destruct (apply_list_spec es s) as (_ & _ & _ & _ & H5 & _ & _ & _ & _ & H10).
  rewrite H5, H10. repeat split.
  - f_equal. apply fired_list_ext; auto.
    destruct (runnable_prefix (self_ver (nd s)) es) as [tl E].
    rewrite E, map_app in ND. now apply NoDup_app_l in ND.
  - intros en I. eapply pop_all_gone; eauto. now apply in_map.
  - intros i NI. now apply pop_all_other.
  - now apply pop_all_sorted.
Qed.

(* the result handed to a SUCCESS callback of a raising command is the exception marker 1,
   of a normal REGULAR command its position in the user state (+1: 0 encodes None) *)
Lemma result_of_raises : forall h c, raises c = true -> result_of h c = 1.
Proof.
  unfold raises, result_of. intros h c H. apply andb_prop in H as [H1 H2]. now rewrite H1, H2.
Qed.

Lemma result_of_regular : forall h c, ck c = 0 -> cb c <> 1 ->
  result_of h c = N.of_nat (length h) + 2.
Proof.
  unfold result_of. intros h c H1 H2. rewrite H1. cbn.
  destruct (cb c =? 1) eqn:E. { apply N.eqb_eq in E. congruence. }
  rewrite app_length. cbn. lia.
Qed.

(* ------------------------------------------------------------------ *)
(* C12_replicas_equal                                                   *)
(* ------------------------------------------------------------------ *)

Theorem replicas_equal : forall (es : list entry) (s1 s2 : S),
  hist (nd s1) = hist (nd s2) ->
  enabled_ver (nd s1) = enabled_ver (nd s2) ->
  self_ver (nd s1) = self_ver (nd s2) ->
  let s1' := apply_list es s1 in
  let s2' := apply_list es s2 in
  hist (nd s1') = hist (nd s2') /\
  enabled_ver (nd s1') = enabled_ver (nd s2') /\
  self_ver (nd s1') = self_ver (nd s2') /\
  (exists k, applied (nd s1') = applied (nd s1) + k /\ applied (nd s2') = applied (nd s2) + k) /\
  exc s1' = exc s1 /\ exc s2' = exc s2 /\
  (* with the same subscribers both tell them the same results *)
  (wait_commit (nd s1) = wait_commit (nd s2) ->
   exists f, fired (outs s1') = fired (outs s1) ++ f /\ fired (outs s2') = fired (outs s2) ++ f).
Proof.
  intros es s1 s2 Hh Hv Hs. cbn zeta.
  destruct (apply_list_spec es s1) as (A1 & A2 & A3 & A4 & A5 & A6 & A7 & A8 & A9 & A10).
  destruct (apply_list_spec es s2) as (B1 & B2 & B3 & B4 & B5 & B6 & B7 & B8 & B9 & B10).
  rewrite A1, A2, A4, B1, B2, B4, Hh, Hv, Hs. repeat split; auto.
  - exists (N.of_nat (length (runnable (self_ver (nd s2)) es))). rewrite A3, B3, Hs. auto.
  - intros W. eexists. rewrite A10, B10, Hh, Hs, W. eauto.
Qed.

(* a list of raising commands leaves the user state as it was, on every replica *)
Theorem raising_leaves_state : forall (es : list entry) (s : S),
  (forall e, In e es -> raises (ecmd e) = true) ->
  hist (nd (apply_list es s)) = hist (nd s) /\
  enabled_ver (nd (apply_list es s)) = enabled_ver (nd s) /\
  applied (nd (apply_list es s)) = applied (nd s) + N.of_nat (length es) /\
  exc (apply_list es s) = exc s.
Proof.
  intros es s R.
  destruct (apply_list_spec es s) as (A1 & A2 & A3 & A4 & A5 & A6 & A7 & A8 & A9 & A10).
  assert (RN : runnable (self_ver (nd s)) es = es).
  { apply runnable_none. intros e I. specialize (R e I). unfold raises in R. unfold needs_ver.
    apply andb_prop in R as [R1 _]. apply N.eqb_eq in R1. now rewrite R1. }
  rewrite A1, A2, A3, A9, RN. repeat split; auto.
  - assert (E : replay es = []).
    { clear -R. induction es as [|e r IH]; cbn; auto.
      rewrite raises_effect by (apply R; now left). cbn. apply IH. intros; apply R; now right. }
    now rewrite E, app_nil_r.
  - clear -R. generalize (enabled_ver (nd s)). induction es as [|e r IH]; intros v; cbn; auto.
    assert (K : ck (ecmd e) =? 3 = false).
    { specialize (R e (or_introl eq_refl)). unfold raises in R. apply andb_prop in R as [R1 _].
      apply N.eqb_eq in R1. now rewrite R1. }
    unfold ver_after. cbn [fold_left]. rewrite K. apply IH. intros; apply R; now right.
Qed.

(* ------------------------------------------------------------------ *)
(* C12_replay_after_restart                                             *)
(* ------------------------------------------------------------------ *)

Lemma apply_list_app_full : forall a b s,
  runnable (self_ver (nd s)) a = a -> apply_list (a ++ b) s = apply_list b (apply_list a s).
Proof.
  induction a as [|en a IH]; intros b s R; auto.
  cbn [app]. rewrite !apply_list_cons, apply_one_go. cbn [runnable] in R.
  destruct (needs_ver (self_ver (nd s)) (ecmd en)) eqn:B; [discriminate|]. cbn [negb].
  injection R as R. apply IH.
  destruct (apply_one_ok en s B) as (_ & _ & _ & _ & A4 & _). now rewrite A4.
Qed.

Lemma apply_list_app_blocked : forall a b s,
  runnable (self_ver (nd s)) a <> a -> apply_list (a ++ b) s = apply_list a s.
Proof.
  induction a as [|en a IH]; intros b s R; [cbn in R; congruence|].
  cbn [app]. rewrite !apply_list_cons, apply_one_go. cbn [runnable] in R.
  destruct (needs_ver (self_ver (nd s)) (ecmd en)) eqn:B; cbn [negb]; auto.
  apply IH. destruct (apply_one_ok en s B) as (_ & _ & _ & _ & A4 & _). rewrite A4. congruence.
Qed.

(* applying a journal in one go or split at any point (ticks, restarts) gives the same state;
   what the user state becomes is a function of the entries alone *)
Theorem replay_after_restart : forall (es1 es2 : list entry) (s : S),
  (runnable (self_ver (nd s)) es1 = es1 -> apply_list (es1 ++ es2) s = apply_list es2 (apply_list es1 s)) /\
  (runnable (self_ver (nd s)) es1 <> es1 -> apply_list (es1 ++ es2) s = apply_list es1 s) /\
  (forall s2 : S,
     hist (nd s2) = hist (nd s) -> enabled_ver (nd s2) = enabled_ver (nd s) -> self_ver (nd s2) = self_ver (nd s) ->
     applied (nd s2) = applied (nd s) ->
     hist (nd (apply_list es1 s2)) = hist (nd (apply_list es1 s)) /\
     enabled_ver (nd (apply_list es1 s2)) = enabled_ver (nd (apply_list es1 s)) /\
     applied (nd (apply_list es1 s2)) = applied (nd (apply_list es1 s))).
Proof.
  intros es1 es2 s. split; [|split].
  - apply apply_list_app_full.
  - apply apply_list_app_blocked.
  - intros s2 Hh Hv Hs Ha.
    destruct (apply_list_spec es1 s) as (A1 & A2 & A3 & _).
    destruct (apply_list_spec es1 s2) as (B1 & B2 & B3 & _).
    rewrite A1, A2, A3, B1, B2, B3, Hh, Hv, Hs, Ha. auto.
Qed.
