(* C12: a replicated method that raises; exact characterisation of the apply loop.
   In the model a REGULAR command with cb = 1 raises: do_apply returns RaisedUser and
   apply_one hands the exception object (result code 1) to the callbacks and goes on. *)
From Coq Require Import ZArith NArith List Bool Lia.
From RecordUpdate Require Import RecordSet.
From PSO Require Import Raft.Types Raft.Node Raft.Net Raft.ProofsApplyBase.
Import ListNotations.
Import RecordSetNotations.
Open Scope N_scope.

(* ------------------------------------------------------------------ *)
(* do_apply                                                             *)
(* ------------------------------------------------------------------ *)

Definition res_code (ar : apply_res) : N := match ar with Applied r => r | _ => 1 end.

Lemma do_apply_blocked : forall c s,
  needs_ver (self_ver (nd s)) c = true -> do_apply c s = (s, WrongVer).
Proof.
  intros c s H. unfold needs_ver in H. apply andb_prop in H as [H1 H2].
  unfold do_apply. now rewrite H1, H2.
Qed.

(* every command that is not blocked is executed: raising or not *)
Lemma do_apply_ok : forall c s,
  needs_ver (self_ver (nd s)) c = false ->
  snd (do_apply c s) <> WrongVer /\
  res_code (snd (do_apply c s)) = result_of (hist (nd s)) c /\
  hist (nd (fst (do_apply c s))) = hist (nd s) ++ cmd_effect c /\
  enabled_ver (nd (fst (do_apply c s))) = (if ck c =? 3 then ca c else enabled_ver (nd s)) /\
  applied (nd (fst (do_apply c s))) = applied (nd s) /\
  self_ver (nd (fst (do_apply c s))) = self_ver (nd s) /\
  cview_of (fst (do_apply c s)) = cview_of s /\
  exc (fst (do_apply c s)) = exc s.
Proof.
  intros c s H. unfold needs_ver in H. unfold do_apply, result_of, cmd_effect.
  destruct (ck c =? 3) eqn:K3.
  - cbn in H. rewrite H. cbn.
    apply N.eqb_eq in K3. rewrite K3. cbn. rewrite app_nil_r. repeat split; auto; discriminate.
  - unfold membership_of. destruct (ck c =? 2) eqn:K2.
    + apply N.eqb_eq in K2. rewrite K2. cbn [N.eqb Pos.eqb andb].
      destruct (applied (nd s) <? replay_idx (nd s)); cbn [fst snd res_code].
      * pose proof (view_do_change_cluster (ca c =? 1) (cb c) false s) as V.
        pose proof (view_cview _ _ V) as CV. apply view_inv in V as (_ & _ & _ & V4 & V5 & V6 & V7 & _).
        rewrite V4, V5, V6, V7, exc_do_change_cluster, app_nil_r. repeat split; auto; discriminate.
      * rewrite app_nil_r. repeat split; auto; discriminate.
    + destruct (ck c =? 0) eqn:K0.
      * destruct (cb c =? 1) eqn:R; cbn.
        -- rewrite app_nil_r. repeat split; auto; discriminate.
        -- repeat split; auto; discriminate.
      * cbn. rewrite app_nil_r. repeat split; auto; discriminate.
Qed.

(* a raising command: result code 1, user state untouched *)
Lemma do_apply_raises : forall c s,
  raises c = true -> snd (do_apply c s) = RaisedUser /\ fst (do_apply c s) = s.
Proof.
  intros c s H. unfold raises in H. apply andb_prop in H as [H1 H2].
  apply N.eqb_eq in H1. unfold do_apply, membership_of. rewrite H1. cbn. now rewrite H2.
Qed.

(* ------------------------------------------------------------------ *)
(* apply_one                                                            *)
(* ------------------------------------------------------------------ *)

Definition sub_fired (en : entry) (r : N) (tc : N * cbref) : list (N * N * N) :=
  match snd tc with
  | CbLocal id => if fst tc =? eterm en then [(id, r, SUCCESS)] else [(id, 0, DISCARDED)]
  | _ => []
  end.

Lemma fired_sub_out : forall en r subs,
  fired (flat_map (sub_out en r) subs) = flat_map (sub_fired en r) subs.
Proof.
  induction subs as [|tc subs IH]; cbn; auto.
  rewrite fired_app, IH. f_equal.
  unfold sub_out, sub_fired, fire_out. destruct (snd tc), (fst tc =? eterm en); reflexivity.
Qed.

Definition pop_wc (i : N) (s : S) : S := upd (fun n => n <| wait_commit := adel i (wait_commit n) |>) s.

Lemma apply_one_blocked : forall en s,
  needs_ver (self_ver (nd s)) (ecmd en) = true ->
  apply_one en s = (pop_wc (eidx en) s, false).
Proof.
  intros en s H. unfold apply_one. fold (pop_wc (eidx en) s).
  rewrite do_apply_blocked; auto.
Qed.

Lemma apply_one_go : forall en s,
  snd (apply_one en s) = negb (needs_ver (self_ver (nd s)) (ecmd en)).
Proof.
  intros en s. destruct (needs_ver (self_ver (nd s)) (ecmd en)) eqn:B.
  - now rewrite apply_one_blocked.
  - unfold apply_one. fold (pop_wc (eidx en) s).
    destruct (do_apply_ok (ecmd en) (pop_wc (eidx en) s) B) as (H1 & _).
    destruct (do_apply (ecmd en) (pop_wc (eidx en) s)) as [s1 ar]. cbn in H1.
    destruct ar; cbn; auto; congruence.
Qed.

Lemma apply_one_unfold : forall en s,
  apply_one en s =
  let s0 := pop_wc (eidx en) s in
  match snd (do_apply (ecmd en) s0) with
  | WrongVer => (fst (do_apply (ecmd en) s0), false)
  | ar => (upd (fun n => n <| applied := applied n + 1 |>)
               (sub_loop en (res_code ar) (subs_of (eidx en) (wait_commit (nd s))) (fst (do_apply (ecmd en) s0))),
           true)
  end.
Proof.
  intros. unfold apply_one. fold (pop_wc (eidx en) s). cbn zeta.
  destruct (do_apply (ecmd en) (pop_wc (eidx en) s)) as [s1 [r| |]]; reflexivity.
Qed.

#[local] Arguments sub_loop : simpl never.
#[local] Arguments res_code : simpl never.

Lemma apply_one_ok : forall en s,
  needs_ver (self_ver (nd s)) (ecmd en) = false ->
  let s' := fst (apply_one en s) in
  snd (apply_one en s) = true /\
  hist (nd s') = hist (nd s) ++ cmd_effect (ecmd en) /\
  enabled_ver (nd s') = (if ck (ecmd en) =? 3 then ca (ecmd en) else enabled_ver (nd s)) /\
  applied (nd s') = applied (nd s) + 1 /\
  self_ver (nd s') = self_ver (nd s) /\
  wait_commit (nd s') = adel (eidx en) (wait_commit (nd s)) /\
  queue (nd s') = queue (nd s) /\ wait_reply (nd s') = wait_reply (nd s) /\
  local_ctr (nd s') = local_ctr (nd s) /\
  exc s' = exc s /\
  fired (outs s') = fired (outs s) ++
     flat_map (sub_fired en (result_of (hist (nd s)) (ecmd en))) (subs_of (eidx en) (wait_commit (nd s))).
Proof.
  intros en s B. cbn zeta. split. { rewrite apply_one_go, B. reflexivity. }
  rewrite apply_one_unfold. cbn zeta.
  destruct (do_apply_ok (ecmd en) (pop_wc (eidx en) s) B) as (H1 & H2 & H3 & H4 & H5 & H6 & H7 & H8).
  apply cview_inv in H7 as (C1 & C2 & C3 & C4 & C5 & C6).
  destruct (do_apply (ecmd en) (pop_wc (eidx en) s)) as [s1 ar]. cbn [fst snd] in *.
  destruct ar as [r| |]; [|congruence|]; cbn [fst];
  (match goal with |- context [sub_loop en ?r ?l s1] =>
    destruct (sub_loop_spec en r l s1) as (L1 & L2 & L3 & L4 & L5 & L6 & L7) end);
  cbn [nd upd exc outs]; cbn; rewrite L1, L2, L7, fired_app, fired_sub_out, H2, H3, H4, H5, H6, H8;
  rewrite C1, C2, C3, C4, C6; cbn; auto 12.
Qed.

(* ------------------------------------------------------------------ *)
(* apply_list                                                           *)
(* ------------------------------------------------------------------ *)

(* the Fired outputs of executing es from user state h with subscriber table wc *)
Fixpoint fired_list (h : list N) (wc : list (N * list (N * cbref))) (es : list entry) : list (N * N * N) :=
  match es with
  | [] => []
  | en :: r =>
    flat_map (sub_fired en (result_of h (ecmd en))) (subs_of (eidx en) wc)
    ++ fired_list (h ++ cmd_effect (ecmd en)) (adel (eidx en) wc) r
  end.

Definition pop_all (es : list entry) (wc : list (N * list (N * cbref))) :=
  fold_left (fun wc e => adel (eidx e) wc) es wc.

(* the entries whose subscriber lists the loop pops: the executed ones and the blocker *)
Definition touched (sv : N) (es : list entry) : list entry :=
  runnable sv es ++ match blocker sv es with Some b => [b] | None => [] end.

Lemma apply_list_cons : forall en r s,
  apply_list (en :: r) s =
  if snd (apply_one en s) then apply_list r (fst (apply_one en s)) else fst (apply_one en s).
Proof. intros. cbn [apply_list]. destruct (apply_one en s) as [s1 go]. reflexivity. Qed.

Theorem apply_list_spec : forall es s,
  let sv := self_ver (nd s) in
  let run := runnable sv es in
  let s' := apply_list es s in
  hist (nd s') = hist (nd s) ++ replay run /\
  enabled_ver (nd s') = ver_after (enabled_ver (nd s)) run /\
  applied (nd s') = applied (nd s) + N.of_nat (length run) /\
  self_ver (nd s') = sv /\
  wait_commit (nd s') = pop_all (touched sv es) (wait_commit (nd s)) /\
  queue (nd s') = queue (nd s) /\ wait_reply (nd s') = wait_reply (nd s) /\
  local_ctr (nd s') = local_ctr (nd s) /\
  exc s' = exc s /\
  fired (outs s') = fired (outs s) ++ fired_list (hist (nd s)) (wait_commit (nd s)) run.
Proof.
  induction es as [|en r IH]; intros s; cbn zeta.
  - cbn. rewrite !app_nil_r, N.add_0_r. auto 12.
  - rewrite apply_list_cons, apply_one_go. unfold touched. cbn [runnable blocker].
    destruct (needs_ver (self_ver (nd s)) (ecmd en)) eqn:B; cbn [negb].
    + rewrite apply_one_blocked by auto. cbn. rewrite !app_nil_r, N.add_0_r. auto 12.
    + destruct (apply_one_ok en s B) as (_ & A1 & A2 & A3 & A4 & A5 & A6 & A7 & A8 & A9 & A10).
      specialize (IH (fst (apply_one en s))). cbn zeta in IH.
      destruct IH as (I1 & I2 & I3 & I4 & I5 & I6 & I7 & I8 & I9 & I10).
      rewrite A4 in *. unfold touched in I5.
      rewrite I1, I2, I3, I4, I5, I6, I7, I8, I9, I10, A1, A2, A3, A5, A6, A7, A8, A9, A10.
      cbn [length replay flat_map fired_list app pop_all fold_left].
      fold (replay (runnable (self_ver (nd s)) r)).
      rewrite <- !app_assoc.
      repeat split; auto; lia.
Qed.
