(* Tier CM3, part 4 (copy of RefineMSim.v, target [kstep3]; originally copy-and-adapt of RefineSim.v): the local simulation framework for a voter of a
   cluster with dynamic membership.  [LS n s S]: the AbstractM state [s] is reachable and related to
   the L1 node [nd S] of voter [n] in the middle of a handler; the outputs so far have their images
   in [M.net s]; the L1 hygiene [Hn] holds (it contains: others = fold of the log over the start
   list, and the one-pending-change invariant [pend]). *)
From Coq Require Import ZArith NArith List Bool Lia ZifyBool Arith PeanoNat.
From RecordUpdate Require Import RecordSet.
From PSO Require Import Raft.Types Raft.Node Raft.Net Raft.ProofsCommitBase.
From PSO Require Import Raft.ProofsElectionBase Raft.ProofsMembership Raft.ProofsMembershipInv.
From PSO Require Import Raft.RefineMAbs Raft.RefineM3Abs Raft.RefineMEff Raft.RefineM3Eff Raft.RefineMCfg Raft.RefineM3K Raft.RefineMSpecA.
From PSO Require AbstractM.Model AbstractM.Lib AbstractM.Kstep AbstractM.Cfg AbstractM.Safety0_Base
  AbstractM.Safety1_WF AbstractM.Safety2_Election AbstractM.Safety10_NoTguardD.
Import ListNotations.
Import RecordSetNotations.
Open Scope N_scope.
#[local] Arguments firstn : simpl nomatch.
#[local] Arguments skipn : simpl nomatch.

Module S0 := PSO.AbstractM.Safety0_Base.
Module S1 := PSO.AbstractM.Safety1_WF.
Module S2 := PSO.AbstractM.Safety2_Election.
Module SA := PSO.AbstractM.Safety10_NoTguardD.
Module TH := PSO.AbstractM.Safety10_NoTguardD.

Lemma F3_disc : SA.disciplined3 F3.
Proof. repeat split. Qed.

(* the fields [Rn] reads / the fields [Hn] reads; [fvm]: what a stuttering phase must keep *)
Definition rv (x : node) := (role x, term x, voted x, votes x, log x, commit x, match_idx x, noop_idx x, others x).
Definition hv (x : node) :=
  (sr x, log x, queue x, replay_idx x, applied x, readonly x, commit x, others x, role x, noop_idx x, change_idx x).
Definition fvm (x : node) := (fv x, noop_idx x, change_idx x).

Lemma fvm_fv x y : fvm x = fvm y -> fv x = fv y.
Proof. intros H. exact (f_equal (fun p => fst (fst p)) H). Qed.
Lemma fvm_noop x y : fvm x = fvm y -> noop_idx x = noop_idx y.
Proof. intros H. exact (f_equal (fun p => snd (fst p)) H). Qed.
Lemma fvm_change x y : fvm x = fvm y -> change_idx x = change_idx y.
Proof. intros H. exact (f_equal (fun p => snd p) H). Qed.
Lemma fvm_intro x y : fv x = fv y -> noop_idx x = noop_idx y -> change_idx x = change_idx y -> fvm x = fvm y.
Proof. unfold fvm. congruence. Qed.

Lemma fvm_rv x y : fvm x = fvm y -> rv x = rv y.
Proof.
  intros H0. pose proof (fvm_fv _ _ H0) as H. pose proof (fvm_noop _ _ H0). fvinj H. unfold rv. congruence.
Qed.
Lemma fvm_hv x y : fvm x = fvm y -> hv x = hv y.
Proof.
  intros H0. pose proof (fvm_fv _ _ H0) as H. pose proof (fvm_noop _ _ H0). pose proof (fvm_change _ _ H0).
  fvinj H. unfold hv. congruence.
Qed.

Lemma rv_eq x y : rv x = rv y ->
  role x = role y /\ term x = term y /\ voted x = voted y /\ votes x = votes y /\ log x = log y /\
  commit x = commit y /\ match_idx x = match_idx y /\ noop_idx x = noop_idx y /\ others x = others y.
Proof. unfold rv. intros H. injection H; intros. repeat split; assumption. Qed.

Lemma hv_eq x y : hv x = hv y ->
  sr x = sr y /\ log x = log y /\ queue x = queue y /\ replay_idx x = replay_idx y /\
  applied x = applied y /\ readonly x = readonly y /\ commit x = commit y /\ others x = others y /\
  role x = role y /\ noop_idx x = noop_idx y /\ change_idx x = change_idx y.
Proof. unfold hv. intros H. injection H; intros. repeat split; assumption. Qed.

Lemma code_noop pk : code pk (noop_cmd pk) = 0%nat.
Proof. unfold code, is_noop, noop_cmd; cbn. rewrite N.eqb_refl. reflexivity. Qed.

Section Sim.
Variable c : conf.
Variable V : list nid.
Hypothesis NDV : NoDup V.
Hypothesis SV : ssorted V.
Hypothesis VNE : V <> [].
Hypothesis VRO : forall v, In v V -> v < RO_BASE.
Hypothesis Hb1 : 1 < batch c.
Set Default Proof Using "All".

Notation V' := (absV V).
Notation Rn := (Rn c).
Notation Rmsg := (Rmsg c).
Notation Ro := (Ro c).
Notation Hn := (Hn c V).
Notation ksn := (ksn V).
Notation pk := (pk c).

Lemma V'_nodup : NoDup V'.
Proof. apply absV_NoDup. exact NDV. Qed.
Lemma V'_ne : V' <> [].
Proof. destruct V; [contradiction|discriminate]. Qed.

Lemma kall s : K3.kreachable3 V' F3 s -> SA.AllInv V' F3 s.
Proof. apply (TH.k_all V' F3 F3_disc V'_nodup V'_ne). Qed.

Lemma Rn_rv n x y s : rv y = rv x -> Rn n x s -> Rn n y s.
Proof.
  intros H [A0 A1 A2 A3 A4 A5 A6 A7 A8 A9].
  destruct (rv_eq _ _ H) as (E1 & E2 & E3 & E4 & E5 & E6 & E7 & E8 & E9).
  constructor; rewrite ?E1, ?E2, ?E3, ?E4, ?E5, ?E6, ?E7, ?E8, ?E9; auto.
Qed.

Lemma Hn_hv n x y : hv y = hv x -> Hn n x -> Hn n y.
Proof.
  intros H [A1 A2 A3 A4 A5 A6 A7 A8 A9 A10].
  destruct (hv_eq _ _ H) as (E1 & E2 & E3 & E4 & E5 & E6 & E7 & E8 & E9 & E10 & E11).
  constructor; rewrite ?E1, ?E2, ?E3, ?E4, ?E5, ?E6, ?E7, ?E8; auto.
  eapply pend_p5; [|exact A10]. unfold p5. congruence.
Qed.

Lemma Hn_Hser n x : Hn n x -> Hser x.
Proof. intros [A1 A2 A3 _ _ _ _ _ _ _]. repeat split; auto. Qed.

Record LS (n : nid) (s : M.state) (S : Node.S) : Prop := {
  LS_reach : K3.kreachable3 V' F3 s;
  LS_n : Rn n (nd S) s;
  LS_o : Ro n (outs S) s;
  LS_h : Hn n (nd S);
  LS_self : self (nd S) = Some n;
  LS_lt : n < RO_BASE
}.

Lemma LS_wf n s S : LS n s S -> wf1 (log (nd S)).
Proof.
  intros L. pose proof (SA.A1 _ _ _ (kall s (LS_reach _ _ _ L))) as I1.
  pose proof (S1.I1_log _ I1 (n2 n)) as Hl. pose proof (S1.I1_ne _ I1 (n2 n)) as Hne.
  rewrite (Rn_log _ _ _ _ (LS_n _ _ _ L)) in Hl, Hne.
  eapply wf1_of_abs; eauto.
Qed.

Lemma LS_up n s S : LS n s S -> M.lf (M.nodes s (n2 n)) = M.Up.
Proof. intros L. apply (Rn_up _ _ _ _ (LS_n _ _ _ L)). Qed.

(* ---- the member table ---- *)
Lemma base_abs n s : K3.kreachable3 V' F3 s -> M.base (M.nodes s (n2 n)) = M.del (n2 n) V'.
Proof.
  intros HR. destruct (SA.AB _ _ _ (kall s HR) (n2 n)) as (_ & _ & E). apply E; reflexivity.
Qed.

Lemma Hn_sorted n x : Hn n x -> ssorted (others x).
Proof. intros H. rewrite (H_oth _ _ _ _ H). apply ssorted_fold_members. apply ssorted_vminus. exact SV. Qed.

Lemma LS_ms n s S : LS n s S -> ms (others (nd S)) (M.others (n2 n) (M.nodes s (n2 n))).
Proof.
  intros L. unfold M.others. rewrite (base_abs n s (LS_reach _ _ _ L)), (Rn_log _ _ _ _ (LS_n _ _ _ L)).
  rewrite (H_oth _ _ _ _ (LS_h _ _ _ L)). apply others_abs. apply ssorted_vminus. exact SV.
Qed.

Lemma LS_oth_nodup n s : K3.kreachable3 V' F3 s ->
  NoDup (M.others (n2 n) (M.nodes s (n2 n))) /\ ~ In (n2 n) (M.others (n2 n) (M.nodes s (n2 n))).
Proof.
  intros HR. destruct (SA.AB _ _ _ (kall s HR) (n2 n)) as (A & B & _). apply S0.others_of_ok; auto.
Qed.

Lemma LS_cfg_len n s S : LS n s S ->
  length (M.cfg (n2 n) (M.nodes s (n2 n))) = Sn (length (others (nd S))).
Proof.
  intros L. unfold M.cfg. cbn [length]. f_equal. symmetry. apply ms_length.
  - apply ssorted_NoDup. apply (Hn_sorted n). apply (LS_h _ _ _ L).
  - apply (LS_oth_nodup n s (LS_reach _ _ _ L)).
  - apply (LS_ms _ _ _ L).
Qed.

Lemma LS_not_self n s S : LS n s S -> ~ In n (others (nd S)).
Proof.
  intros L Hi. apply (LS_ms _ _ _ L) in Hi. apply (proj2 (LS_oth_nodup n s (LS_reach _ _ _ L))). exact Hi.
Qed.

Lemma LS_in_cfg n s S d : LS n s S -> In d (others (nd S)) -> In (n2 d) (M.cfg (n2 n) (M.nodes s (n2 n))).
Proof. intros L Hd. right. apply (LS_ms _ _ _ L). exact Hd. Qed.

Lemma majority_abs n s S k :
  LS n s S -> majority k (nd S) = true ->
  M.majority_of (M.cfg (n2 n) (M.nodes s (n2 n))) (n2 k) = true.
Proof.
  intros L Hm. unfold M.majority_of. rewrite (LS_cfg_len _ _ _ L). unfold majority in Hm.
  apply Nat.ltb_lt. apply N.ltb_lt in Hm. lia.
Qed.

(* a phase that changes nothing the relation looks at *)
Lemma LS_stutter n s S S' :
  LS n s S -> fvm (nd S') = fvm (nd S) ->
  (exists new, outs S' = outs S ++ new /\ Ro n new s) -> LS n s S'.
Proof.
  intros [A1 A2 A3 A4 A5 A6] F (new & O & Hnew). pose proof (fvm_fv _ _ F) as F1. fvinj F1.
  constructor; auto.
  - eapply Rn_rv; [|exact A2]. apply fvm_rv. auto.
  - rewrite O. apply Ro_app; auto.
  - eapply Hn_hv; [|exact A4]. apply fvm_hv. auto.
  - congruence.
Qed.

Lemma LS_same n s S S' : LS n s S -> nd S' = nd S -> outs S' = outs S -> LS n s S'.
Proof.
  intros L E1 E2. eapply LS_stutter; eauto; [rewrite E1; reflexivity|].
  exists []. rewrite app_nil_r. split; auto. apply Ro_nil.
Qed.

Lemma LS_ksn n s s' S S' :
  ksn (n2 n) s s' -> LS n s S ->
  Rn n (nd S') s' -> Hn n (nd S') -> self (nd S') = Some n ->
  (exists new, outs S' = outs S ++ new /\ Ro n new s') -> LS n s' S'.
Proof.
  intros K [A1 A2 A3 A4 A5 A6] R' H' Hs (new & O & Hnew).
  constructor; auto.
  - eapply ksn_kreachable; eauto.
  - rewrite O. apply Ro_app; auto. eapply Ro_ext; [eapply ksn_ext; eauto|]. exact A3.
Qed.

Definition simf (n : nid) (f : Node.S -> Node.S) : Prop :=
  forall S s, LS n s S -> exists s', ksn (n2 n) s s' /\ LS n s' (f S).

(* conditional on the serializer staying idle in the result *)
Definition simc (n : nid) (f : Node.S -> Node.S) : Prop :=
  forall S s, LS n s S -> pid (sr (nd (f S))) = 0 -> exists s', ksn (n2 n) s s' /\ LS n s' (f S).

Lemma simf_simc n f : simf n f -> simc n f.
Proof. intros H S s L _. auto. Qed.

Lemma simf_andthen n f g : simf n f -> simf n g -> simf n (f ;; g).
Proof.
  intros Hf Hg S s L. rewrite andthen_eq. destruct (Hf S s L) as (s1 & K1 & L1).
  destruct (ok (f S)); [|eauto].
  destruct (Hg (f S) s1 L1) as (s2 & K2 & L2). exists s2. split; auto. eapply ksn_trans; eauto.
Qed.

Lemma simc_andthen n f g : simf n f -> simc n g -> simc n (f ;; g).
Proof.
  intros Hf Hg S s L. rewrite andthen_eq. destruct (Hf S s L) as (s1 & K1 & L1).
  destruct (ok (f S)); [|eauto].
  intros P. destruct (Hg (f S) s1 L1 P) as (s2 & K2 & L2). exists s2. split; auto. eapply ksn_trans; eauto.
Qed.

Lemma simf_stutter n f :
  (forall S, fvm (nd (f S)) = fvm (nd S) /\
             exists new, outs (f S) = outs S ++ new /\ forall d m, ~ In (Send d m) new) ->
  simf n f.
Proof.
  intros H S s L. destruct (H S) as (F & new & O & Hnew). exists s. split; [constructor|].
  eapply LS_stutter; eauto. exists new. split; auto. intros d m Hin. destruct (Hnew d m Hin).
Qed.

(* ------------------------------------------------------------------------------------------ *)
(* the AppendEntries messages of a leader: one K_sendae per message to a member               *)

Lemma nth_abs l p pe : nth_error l p = Some pe -> nth p (absL pk l) M.e0 = absE pk pe.
Proof.
  intros H. apply nth_error_nth. rewrite absL_nth, H. reflexivity.
Qed.

Lemma Rn_same_nodes n x s s' :
  (forall i, M.nodes s' i = M.nodes s i) -> incl (M.grants s) (M.grants s') -> Rn n x s -> Rn n x s'.
Proof.
  intros E G [A0 A1 A2 A3 A4 A5 A6 A7 A8 A9]. constructor; rewrite ?E; auto.
Qed.

Lemma sim_ae_outs n x new : forall s,
  K3.kreachable3 V' F3 s -> Rn n x s -> n < RO_BASE -> role x = LEADER -> wf1 (log x) ->
  Forall (small c) (log x) ->
  (forall d, In d (others x) -> In (n2 d) (M.cfg (n2 n) (M.nodes s (n2 n))) /\ d <> n) ->
  Forall (fun y => RO_BASE <= y) (readonly x) ->
  Forall (ae_out x) new ->
  exists s', ksn (n2 n) s s' /\ (forall i, M.nodes s' i = M.nodes s i) /\ Ro n new s'.
Proof.
  induction new as [|o new IH]; intros s HR RN Hlt Hrole W Sm Hoth Hro Hall.
  - exists s. split; [constructor|]. split; auto. apply Ro_nil.
  - inversion Hall as [|? ? Ho Hall']; subst.
    assert (Hj : M.lf (M.nodes s (n2 n)) = M.Up) by apply (Rn_up _ _ _ _ RN).
    assert (Hl : M.rl (M.nodes s (n2 n)) = M.Leader).
    { rewrite (Rn_role _ _ _ _ RN), Hrole. reflexivity. }
    assert (Hlen : (0 < length (M.log (M.nodes s (n2 n))))%nat).
    { rewrite (Rn_log _ _ _ _ RN), absL_length. apply wf1_length_pos; auto. }
    (* one step for the head *)
    assert (Hhead : exists s1, ksn (n2 n) s s1 /\ (forall i, M.nodes s1 i = M.nodes s i) /\
                               Ro n [o] s1).
    { destruct o as [d m| | | |]; cbn in Ho; try contradiction.
      destruct Ho as [Hd Hm].
      destruct (smem d (others x)) eqn:Ed.
      - (* a member: the message gets its image *)
        apply smem_iff in Ed. destruct (Hoth d Ed) as [Hdc Hnd].
        assert (Hnd' : n2 d <> n2 n) by lia.
        assert (Hany : exists s1, ksn (n2 n) s s1 /\ (forall i, M.nodes s1 i = M.nodes s i) /\
                                  some_ae (term x) n d s1).
        { destruct (t_sendae_ok V' (n2 n) (n2 d) 0 0 s Hj Hl Hlen Hnd' Hdc) as [K E].
          exists (M.do_send_ae (n2 n) (n2 d) 0 0 s). split; [apply ksn_one; auto|]. split; [reflexivity|].
          unfold some_ae. do 4 eexists. cbn. left. rewrite (Rn_term _ _ _ _ RN). reflexivity. }
        destruct m as [| |t cm [[pi pt]|] es| |t cm p| | |]; cbn in Hm; try contradiction.
        + destruct Hm as (-> & -> & Hpi & (pe & Hpe & Hpt) & k & Hes).
          assert (Hp : (n2 pi - 1 < length (M.log (M.nodes s (n2 n))))%nat).
          { rewrite (Rn_log _ _ _ _ RN), absL_length. apply nth_error_Some. congruence. }
          destruct (t_sendae_ok V' (n2 n) (n2 d) (n2 pi - 1) k s Hj Hl Hp Hnd' Hdc) as [K E].
          exists (M.do_send_ae (n2 n) (n2 d) (n2 pi - 1) k s). split; [apply ksn_one; auto|].
          split; [reflexivity|].
          intros d' m' [H|[]]. injection H as <- <-. cbn.
          split; [exact Hlt|]. split; auto. split.
          { rewrite Hes. apply Forall_firstn, Forall_skipn. exact Sm. }
          intros _. left. rewrite (Rn_term _ _ _ _ RN), (Rn_log _ _ _ _ RN), (Rn_commit _ _ _ _ RN).
          rewrite (nth_abs _ _ _ Hpe). cbn [M.eterm absE]. rewrite Hpt.
          replace (Sn (n2 pi - 1)) with (n2 pi) by lia.
          rewrite Hes, absL_firstn, absL_skipn. reflexivity.
        + destruct Hm as (-> & -> & _). destruct Hany as (s1 & K1 & E1 & A1).
          exists s1. split; auto. split; auto.
          intros d' m' [H|[]]. injection H as <- <-. cbn. repeat split; auto.
        + destruct Hm as (-> & -> & ->). destruct Hany as (s1 & K1 & E1 & A1).
          exists s1. split; auto. split; auto.
          intros d' m' [H|[]]. injection H as <- <-. cbn. repeat split; auto.
      - (* a read-only node: outside the abstract cluster, no image needed *)
        assert (Hd' : RO_BASE <= d).
        { destruct Hd as [Hd|Hd]; [apply smem_iff in Hd; congruence|].
          rewrite Forall_forall in Hro. auto. }
        exists s. split; [constructor|]. split; [reflexivity|].
        intros d' m' [H|[]]. injection H as <- <-.
        destruct m as [| |t cm [[pi pt]|] es| |t cm p| | |]; cbn in Hm; try contradiction; cbn.
        + destruct Hm as (-> & -> & Hpi & _ & k & Hes).
          split; [exact Hlt|]. split; [lia|]. split; [|intros; lia].
          rewrite Hes. apply Forall_firstn, Forall_skipn. exact Sm.
        + split; [exact Hlt|]. split; [lia|]. intros; lia.
        + destruct Hm as (_ & _ & ->). split; auto. split; [exact Hlt|]. split; [lia|]. intros; lia. }
    destruct Hhead as (s1 & K1 & E1 & R1).
    destruct (IH s1) as (s2 & K2 & E2 & R2); auto.
    { eapply ksn_kreachable; eauto. }
    { eapply Rn_same_nodes; eauto. apply (ext_grants _ _ _ (ksn_ext _ _ _ _ K1)). }
    { intros d Hd. rewrite E1. auto. }
    exists s2. split; [eapply ksn_trans; eauto|]. split; [intros i; rewrite E2; auto|].
    change (o :: new) with ([o] ++ new). apply Ro_app; auto.
    eapply Ro_ext; [apply (ksn_ext _ _ _ _ K2)|]. exact R1.
Qed.

(* ------------------------------------------------------------------------------------------ *)
(* becoming leader                                                                            *)

Lemma wf1_consec l : wf1 l -> ProofsCommitLog.consec l.
Proof.
  intros [_ H]. assert (G : forall k, (forall p e, nth_error l p = Some e -> eidx e = N.of_nat (k + p) + 1) ->
                            ProofsCommitLog.consec l).
  { clear H. induction l as [|a l IH]; intros k H; [exact I|]. split.
    - destruct l as [|b l]; [exact I|]. rewrite (H 1%nat b eq_refl), (H 0%nat a eq_refl). lia.
    - apply (IH (Sn k)). intros p e Hp. rewrite (H (Sn p) e Hp). f_equal. lia. }
  apply (G 0%nat). exact H.
Qed.

Lemma sim_become_leader e n S s :
  cf e = c -> LS n s S -> role (nd S) = CANDIDATE -> majority (votes (nd S)) (nd S) = true ->
  exists s', ksn (n2 n) s s' /\ LS n s' (become_leader e S).
Proof.
  intros Hc L Hr Hm.
  pose proof (LS_wf _ _ _ L) as W. pose proof (LS_h _ _ _ L) as HH. pose proof (LS_n _ _ _ L) as RN.
  pose proof (LS_up _ _ _ L) as Hj.
  assert (Sm : Forall (small (cf e)) (log (nd S))) by (rewrite Hc; apply (H_small _ _ _ _ HH)).
  assert (Hb : 1 < batch (cf e)) by (rewrite Hc; exact Hb1).
  destruct (become_leader_spec e S (Hn_Hser _ _ HH) W Sm Hb) as (mi & r & new & F & Hmi & O & Hr0 & Hnew).
  destruct (become_leader_p5 e S) as (P1 & P2 & P3 & P4 & P5). cbv zeta in P1, P2, P3, P4, P5.
  pose proof (become_leader_pend e S (wf1_consec _ W)) as PP.
  set (S' := become_leader e S) in *. clearbody S'.
  set (x' := nd S') in *.
  fvinj_n F F.
  (* the L0 step *)
  assert (Hc0 : M.rl (M.nodes s (n2 n)) = M.Candidate).
  { rewrite (Rn_role _ _ _ _ RN), Hr. reflexivity. }
  assert (Hmaj : M.majority_of (M.cfg (n2 n) (M.nodes s (n2 n))) (length (M.votesFrom (M.nodes s (n2 n)))) = true).
  { rewrite (proj1 (Rn_votes _ _ _ _ RN Hr)). eapply majority_abs; eauto. }
  destruct (t_lead_ok V' (n2 n) s Hj Hc0 Hmaj) as [K E].
  set (s1 := M.do_lead (n2 n) s) in *.
  assert (K1 : ksn (n2 n) s s1) by (apply ksn_one; auto).
  assert (RN1 : Rn n x' s1).
  { destruct RN as [A0 A1 A2 A3 A4 A5 A6 A7 A8 A9].
    constructor; subst s1; unfold M.do_lead; cbn [M.nodes M.grants]; rewrite ?upd_eq;
      cbn [M.term M.voted M.rl M.log M.commit M.votesFrom M.matchIdx M.lf M.noopi].
    - exact A0.
    - congruence.
    - congruence.
    - rewrite Frole. reflexivity.
    - rewrite Flog.
      rewrite absL_app, A4. f_equal. cbn [absL map]. f_equal. unfold absE, noop_entry, M.noop. cbn.
      rewrite Hc. fold pk. rewrite code_noop, A1, A4, absL_length.
      rewrite (wf1_last_idx _ W). f_equal. lia.
    - congruence.
    - intros Hx. rewrite Frole in Hx. compute in Hx. discriminate.
    - intros f m Hf Hne Hg. rewrite Fmatch in Hg.
      assert (Hf0 : aget f mi = Some 0) by (apply Hmi; congruence).
      rewrite Hf0 in Hg. injection Hg as <-. cbn. lia.
    - intros Hv. rewrite Fterm. apply A8. congruence.
    - intros _. fold x' in P2. rewrite P2, A4, absL_length, (wf1_last_idx _ W). reflexivity. }
  assert (HH' : Hn n x').
  { destruct HH as [B1 B2 B3 B4 B5 B6 B7 B8 B9 B10]. constructor; try congruence.
    - rewrite Flog.
      apply Forall_app. split; [exact B4|]. constructor; [|constructor]. unfold small, small_cmd. cbn.
      split; [exact Hb1|discriminate].
    - rewrite Foth, Flog, B9. rewrite fold_members_snoc. reflexivity.
    - exact PP. }
  assert (W' : wf1 (log x')).
  { rewrite Flog. apply wf1_app; auto. }
  assert (Hoc : forall d, In d (others x') ->
             In (n2 d) (M.cfg (n2 n) (M.nodes s1 (n2 n))) /\ d <> n).
  { intros d Hd. rewrite Foth in Hd. split.
    - subst s1. unfold M.do_lead. cbn [M.nodes]. rewrite upd_eq. unfold M.cfg. cbn [M.base M.log].
      right. unfold M.others_of. rewrite fold_left_app. cbn [fold_left M.noop M.ecmd M.app1].
      apply (LS_ms _ _ _ L). exact Hd.
    - intros ->. apply (LS_not_self _ _ _ L). exact Hd. }
  destruct (sim_ae_outs n x' new s1) as (s2 & K2 & E2 & R2); auto.
  - eapply ksn_kreachable; eauto. apply (LS_reach _ _ _ L).
  - apply (LS_lt _ _ _ L).
  - apply (H_small _ _ _ _ HH').
  - apply (H_ro _ _ _ _ HH').
  - exists s2. split; [eapply ksn_trans; eauto|].
    apply (LS_ksn n s s2 S S').
    + eapply ksn_trans; eauto.
    + exact L.
    + eapply Rn_same_nodes; eauto. apply (ext_grants _ _ _ (ksn_ext _ _ _ _ K2)).
    + exact HH'.
    + fold x'. rewrite Fself. apply (LS_self _ _ _ L).
    + exists (r ++ new). split; auto. apply Ro_app; auto.
      intros d m Hin. destruct (Hr0 d m Hin).
Qed.

End Sim.
