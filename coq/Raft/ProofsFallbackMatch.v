(* C20: the two reachable-state facts behind "nothing submitted after the cut is acknowledged":
   commit <= last index, and a leader's matchIndex never exceeds its own last index.  Both are read off
   the Tier C3 refinement (the Refine3 files) and the L0 invariants (Abstract/Safety files): nothing there is edited. *)
From Coq Require Import ZArith NArith List Bool Lia ZifyBool Arith PeanoNat.
From RecordUpdate Require Import RecordSet.
From PSO Require Import Raft.Types Raft.Node Raft.Net Raft.Obs Raft.ProofsCommitBase.
From PSO Require Import Raft.ProofsElectionBase Raft.ProofsElectionFrame Raft.ProofsElectionStep
  Raft.ProofsElectionGhost Raft.ProofsElectionInv Raft.ProofsElectionMain.
From PSO Require Import Raft.RefineAbs Raft.RefineK Raft.RefineSpecA.
From PSO Require Raft.RefineFinal.
From PSO Require Import Raft.Refine3Abs Raft.Refine3SpecA Raft.Refine3Sim Raft.Refine3Global Raft.Refine3Main Raft.Refine3Final.
From PSO Require Abstract.Model Abstract.Lib Abstract.Kstep Abstract.Safety1_WF Abstract.Safety2_Election
  Abstract.Safety3_LeaderLog Abstract.Safety4_LogMatching Abstract.Safety5_Acks Abstract.Safety6_LeaderCompleteness
  Abstract.Safety7_StateMachine.
Import ListNotations.
Import RecordSetNotations.
Open Scope N_scope.

Section State.
Variable c : conf.
Variable V : list nid.
Hypothesis NDV : NoDup V.
Hypothesis VRO : forall v, In v V -> v < RO_BASE.
Hypothesis VNE : V <> [].
Hypothesis Hb1 : 1 < batch c.
Variables (g : gstate) (gh : ghost) (st : list nid) (s : M.state).
Hypothesis G : GI c V g gh st s.

Lemma st_last_idx_full (xa : node) full :
  wf1 full -> suffix_of (log xa) full -> last_idx (log xa) = N.of_nat (length full).
Proof. intros W Sx. rewrite (suffix_last_idx _ _ Sx). apply wf1_last_idx; exact W. Qed.

(* (a) a voter's commit index never exceeds the last index of its log *)
Lemma st_commit_le_last a xa :
  aget a (nodes g) = Some xa -> a < RO_BASE -> commit xa <= last_idx (log xa).
Proof.
  intros Ha Hla.
  destruct (GI_full c V NDV VRO VNE Hb1 g gh st s G a xa Ha Hla) as (fa & Ea & Wa & Sa).
  pose proof (Rn_commit_le c V NDV VRO VNE Hb1 a xa s fa (GI_reach _ _ _ _ _ _ G) (GI_node c V g gh st s G a xa Ha Hla) Ea) as Hc.
  rewrite (st_last_idx_full xa fa Wa Sa). lia.
Qed.

(* (b) a leader's matchIndex for a member never exceeds the leader's own last index *)
Lemma st_match_le_last L xL f m :
  aget L (nodes g) = Some xL -> L < RO_BASE -> role xL = LEADER ->
  In f V -> f <> L -> aget f (match_idx xL) = Some m -> m <= last_idx (log xL).
Proof.
  intros Ha Hla Hr Hf Hne Hm.
  pose proof (GI_node c V g gh st s G L xL Ha Hla) as RN.
  destruct (GI_full c V NDV VRO VNE Hb1 g gh st s G L xL Ha Hla) as (fa & Ea & Wa & Sa).
  pose proof (GI_reach _ _ _ _ _ _ G) as HR.
  pose proof (Rn_match _ _ _ _ _ RN f m Hf Hne Hm) as H1.
  assert (M.rl (M.nodes s (n2 L)) = M.Leader) as HL.
  { rewrite (Rn_role _ _ _ _ _ RN). unfold absR. rewrite Hr. reflexivity. }
  pose proof (Safety5_Acks.inv5_kreachable _ s HR) as I5.
  destruct (Safety2_Election.I2_leader _ _ (Safety2_Election.inv2_kreachable _ s HR) (n2 L) HL) as [Q W].
  pose proof (Safety3_LeaderLog.I3_wlog _ (Safety3_LeaderLog.inv3_kreachable _ s HR) _ _ _ W eq_refl) as EL.
  assert (M.matchIdx (M.nodes s (n2 L)) (n2 f) <= length fa)%nat as H2.
  { destruct (Safety5_Acks.I5_match _ _ I5 (n2 L) (n2 f) HL) as [Z | A]; [lia|].
    destruct (Safety5_Acks.I5_ack _ _ I5 _ _ _ A) as (_ & B & _).
    rewrite <- EL, Ea, absL_length in B. exact B. }
  rewrite (st_last_idx_full xL fa Wa Sa). lia.
Qed.

(* static membership: the members of a voter are the other voters; a leader is a voter *)
Lemma st_others a xa : aget a (nodes g) = Some xa -> a < RO_BASE -> others xa = vminus a V.
Proof.
  intros Ha Hla. destruct (I_node _ _ _ _ (GI_inv _ _ _ _ _ _ G) a xa Ha) as (_ & H & _).
  apply (H Hla).
Qed.

Lemma st_leader_voter a xa : aget a (nodes g) = Some xa -> role xa = LEADER -> a < RO_BASE.
Proof.
  intros Ha Hr. destruct (N.lt_ge_cases a RO_BASE) as [H|H]; [exact H|].
  destruct (I_node _ _ _ _ (GI_inv _ _ _ _ _ _ G) a xa Ha) as (_ & _ & H2).
  destruct (H2 H) as (_ & Hf). rewrite Hf in Hr. discriminate Hr.
Qed.

End State.

(* on runs of the Tier C3 fragment *)
Theorem leader_bounds_reachable :
  forall (c : conf) (V : list nid) (evs : list event) (g : gstate) (L : nid) (xL : node),
    dyn c = false -> file_dump c = false -> 1 < batch c -> valid V evs = true -> run_ok3 c ginit evs = true ->
    run_trace c ginit evs = Some g -> aget L (nodes g) = Some xL -> role xL = LEADER ->
    commit xL <= last_idx (log xL) /\
    forall x m, In x (others xL) -> aget x (match_idx xL) = Some m -> m <= last_idx (log xL).
Proof.
  intros c V evs g L xL H1 H2 H3 H4 H5 Hr Ha Hl.
  pose proof (core_frag_intro c V evs H1 H2 H3 H4 H5) as F.
  destruct (core_frag_facts c V evs F) as (ND & HV & HNE & Hb & _).
  destruct (run_GI c V evs g F Hr) as (gh & s & G).
  pose proof (st_leader_voter c V g gh _ s G L xL Ha Hl) as Hlt.
  split; [apply (st_commit_le_last c V ND HV HNE Hb g gh _ s G L xL Ha Hlt)|].
  intros x m Hx Hm. rewrite (st_others c V g gh _ s G L xL Ha Hlt) in Hx.
  unfold vminus in Hx. apply filter_In in Hx as (HxV & Hxne).
  apply negb_true_iff in Hxne. apply N.eqb_neq in Hxne.
  apply (st_match_le_last c V ND HV HNE Hb g gh _ s G L xL x m Ha Hlt Hl HxV Hxne Hm).
Qed.
