(* C06: the flushed commit index (.meta) is a past value of the commit index.
   Uses the frame / composition lemmas of ProofsCommitBase and the commit monotonicity lemmas of
   ProofsCommit (worker raft-members-commit). *)
From Coq Require Import ZArith NArith List Bool Lia ZifyBool ZifyN.
From RecordUpdate Require Import RecordSet.
From PSO Require Import Raft.Types Raft.Node Raft.Net Raft.Obs Raft.ProofsCommitBase Raft.ProofsCommit
  Raft.ProofsSnapshotBase Raft.ProofsDisk.
Import ListNotations.
Import RecordSetNotations.
Open Scope N_scope.

(* commit only grows; the flushed index is unchanged or was set to a value the commit index had
   in between *)
Definition meta_rel (a b : node) : Prop :=
  commit a <= commit b /\
  (meta_commit b = meta_commit a \/ (commit a <= meta_commit b /\ meta_commit b <= commit b)).

Lemma meta_rel_refl : forall a, meta_rel a a.
Proof. intros a. unfold meta_rel. split; [lia|auto]. Qed.

Lemma meta_rel_trans : forall a b c, meta_rel a b -> meta_rel b c -> meta_rel a c.
Proof. unfold meta_rel. intros a b c [H1 H2] [H3 H4]. split; [lia|]. destruct H2, H4; lia. Qed.

Lemma meta_rel_same : forall a b, commit b = commit a -> meta_commit b = meta_commit a -> meta_rel a b.
Proof. unfold meta_rel. intros a b H1 H2. split; [lia|auto]. Qed.

Lemma tick_timer_meta : forall e s,
  commit (nd (tick_timer e s)) = commit (nd s) /\
  (meta_commit (nd (tick_timer e s)) = meta_commit (nd s) \/
   meta_commit (nd (tick_timer e s)) = commit (nd s)).
Proof.
  intros e s. unfold tick_timer. destruct (_ <? _)%Z; [|auto].
  unfold upd. cbn. destruct (meta_dirty (nd s)); auto.
Qed.

Lemma meta_rel_tick : forall e n, meta_rel n (nd (on_tick e n)).
Proof.
  intros e. apply (on_tick_rel meta_rel); intros.
  - apply meta_rel_refl.
  - eapply meta_rel_trans; eauto.
  - apply meta_rel_same; [apply (fr_tick_load commit) | apply (fr_tick_load meta_commit)]; frs.
  - destruct (tick_timer_meta e s) as [H1 [H2|H2]]; unfold meta_rel; lia.
  - apply meta_rel_same; [apply (fr_tick_election commit) | apply (fr_tick_election meta_commit)]; frs.
  - unfold meta_rel. rewrite (fr_tick_leader meta_commit) by frs. split; [|auto].
    destruct (tick_leader_commit e s) as [H|[_ H]]; cbv zeta in H; rewrite H; [lia|].
    apply commit_loop_ge. lia.
  - apply meta_rel_same; [apply (fr_apply_entries commit) | apply (fr_apply_entries meta_commit)]; frs.
  - apply meta_rel_same; [apply (fr_tick_send commit) | apply (fr_tick_send meta_commit)]; frs.
  - apply meta_rel_same; [apply (fr_tick_ready commit) | apply (fr_tick_ready meta_commit)]; frs.
  - apply meta_rel_same; [apply (fr_check_commands commit) | apply (fr_check_commands meta_commit)]; frs.
  - apply meta_rel_same; [apply (fr_try_compact commit) | apply (fr_try_compact meta_commit)]; frs.
Qed.

Lemma meta_rel_nstep : forall c MP n n', nstep c MP n n' -> meta_rel n n'.
Proof.
  intros c MP n n' H. destruct H.
  - apply meta_rel_tick.
  - unfold meta_rel. rewrite (fr_on_message meta_commit) by frs. split; [apply commit_mono_msg|auto].
  - apply meta_rel_same; [apply (fr_on_connected commit) | apply (fr_on_connected meta_commit)]; frs.
  - apply meta_rel_same; [apply (fr_on_disconnected commit) | apply (fr_on_disconnected meta_commit)]; frs.
  - unfold api_submit. apply meta_rel_same;
      [rewrite (fr_submit commit) by frs | rewrite (fr_submit meta_commit) by frs]; reflexivity.
  - unfold api_admin. destruct (dyn (cf e)).
    + apply meta_rel_same; [rewrite (fr_submit commit) by frs | rewrite (fr_submit meta_commit) by frs]; reflexivity.
    + apply meta_rel_refl.
  - unfold api_setver. destruct (_ || _).
    + apply meta_rel_refl.
    + apply meta_rel_same; [rewrite (fr_submit commit) by frs | rewrite (fr_submit meta_commit) by frs]; reflexivity.
  - apply meta_rel_same; reflexivity.
Qed.

Definition meta_ok (n : node) : Prop := meta_commit n <= commit n.

Lemma meta_rel_ok : forall a b, meta_rel a b -> meta_ok a -> meta_ok b.
Proof. unfold meta_rel, meta_ok. intros a b [H1 [H2|H2]] H; lia. Qed.

Lemma fresh_meta_ok : forall e me oth sv, meta_ok (init_node e me oth sv).
Proof. intros. unfold meta_ok. cbn. lia. Qed.

Lemma from_disk_meta_ok : forall e me oth sv d, meta_ok (init_from_disk e me oth sv d).
Proof. intros. unfold meta_ok, init_from_disk. destruct (d_log d); cbn; lia. Qed.

Lemma gstep_nodes_shape : forall c g ev g' r,
  gstep c g ev = Some (g', r) ->
  nodes g' = nodes g \/ (exists k v, nodes g' = aset k v (nodes g)) \/ (exists k, nodes g' = adel k (nodes g)).
Proof.
  intros c g ev g' r Hs. destruct ev; unfold gstep in Hs; cbv zeta in Hs.
  - destruct (aget n (nodes g)); [|discriminate]. inversion Hs; subst.
    right. left. rewrite nodes_finish. eauto.
  - destruct (aget b (nodes g)); [|discriminate]. destruct (chan_get a b g); [discriminate|].
    inversion Hs; subst. right. left. rewrite nodes_finish, nodes_chan_set. eauto.
  - destruct (aget a (nodes g)); [|discriminate]. inversion Hs; subst.
    right. left. rewrite nodes_chan_set, nodes_finish. eauto.
  - inversion Hs; subst. left. apply nodes_chan_set.
  - destruct (aget a (nodes g)); [|discriminate]. inversion Hs; subst.
    right. left. rewrite nodes_finish.
    assert (Hg : forall fr : bool, nodes (if fr then chan_set a b [] (chan_set b a [] g) else g) = nodes g)
      by (intros []; reflexivity).
    rewrite Hg. eauto.
  - destruct (aget n (nodes g)); [|discriminate]. inversion Hs; subst.
    right. left. rewrite nodes_finish. eauto.
  - destruct (aget n (nodes g)); [|discriminate]. inversion Hs; subst.
    right. left. rewrite nodes_finish. eauto.
  - destruct (aget n (nodes g)); [|discriminate]. inversion Hs; subst.
    right. left. rewrite nodes_finish. eauto.
  - destruct (aget n (nodes g)); [|discriminate]. inversion Hs; subst.
    right. left. rewrite nodes_finish. eauto.
  - inversion Hs; subst. right. right. exists n. cbn.
    destruct (aget n (nodes g)) as [y|]; [destruct (disk_of c y)|]; reflexivity.
  - inversion Hs; subst. right. left. unfold put_node. cbn. eauto.
Qed.

Definition meta_inv (g : gstate) : Prop :=
  asorted (nodes g) /\ forall x n, aget x (nodes g) = Some n -> meta_ok n.

Lemma meta_inv_step : forall c g ev g' r,
  gstep c g ev = Some (g', r) -> meta_inv g -> meta_inv g'.
Proof.
  intros c g ev g' r Hs [Hsrt Hinv]. split.
  - destruct (gstep_nodes_shape c g ev g' r Hs) as [H|[(k & v & H)|(k & H)]]; rewrite H; auto.
    + apply asorted_aset; auto.
    + apply asorted_adel; auto.
  - intros x n' Hn'.
    destruct (is_restart x ev) eqn:Er.
    { destruct ev; cbn in Er; try discriminate. apply N.eqb_eq in Er. subst n.
      cbn in Hs. inversion Hs; subst; clear Hs. cbn in Hn'. rewrite aget_aset, N.eqb_refl in Hn'.
      inversion Hn'; subst. destruct (aget x (disks g)); [destruct (RO_BASE <=? x)|];
        try apply fresh_meta_ok; apply from_disk_meta_ok. }
    destruct (is_kill x ev) eqn:Ek.
    { destruct ev; cbn in Ek; try discriminate. apply N.eqb_eq in Ek. subst n.
      cbn in Hs. inversion Hs; subst; clear Hs. exfalso.
      assert (Hnone : aget x (adel x (nodes g)) = None) by (apply aget_adel_same; exact Hsrt).
      destruct (aget x (nodes g)) as [y|]; [destruct (disk_of c y)|]; cbn in Hn'; congruence. }
    destruct (aget x (nodes g)) as [n|] eqn:En.
    + destruct (gstep_nstep c (fun _ => True) g ev g' r x n Hs) as (n2 & Hn2 & Hrel); auto.
      { intros a b m _. exact I. }
      rewrite Hn' in Hn2. inversion Hn2; subst n2.
      destruct Hrel as [->|Hst]; [eapply Hinv; eauto|].
      eapply meta_rel_ok; [eapply meta_rel_nstep; eauto | eapply Hinv; eauto].
    + (* a node that did not exist and is not restarted does not appear *)
      exfalso. destruct (gstep_nodes_shape c g ev g' r Hs) as [H|[(k & v & H)|(k & H)]].
      * rewrite H in Hn'. congruence.
      * rewrite H, aget_aset in Hn'. destruct (x =? k) eqn:E; [|congruence].
        apply N.eqb_eq in E. subst k.
        (* the only events that set a key not present are restarts *)
        destruct ev; unfold gstep in Hs; cbv zeta in Hs; cbn in Er.
        -- destruct (aget n (nodes g)) eqn:E2; [|discriminate]. inversion Hs; subst.
           rewrite nodes_finish in H.
           assert (x = n).
           { destruct (N.eq_dec x n); auto. exfalso.
             assert (Hq : aget x (aset n (nd (on_tick (mk_env c now rnd budget order snaplen) n0)) (nodes g)) =
                          aget x (aset x v (nodes g))) by (rewrite H; reflexivity).
             rewrite !aget_aset, N.eqb_refl in Hq. destruct (x =? n) eqn:E3; [lia|]. congruence. }
           subst. congruence.
        -- destruct (aget b (nodes g)) eqn:E2; [|discriminate]. destruct (chan_get a b g); [discriminate|].
           inversion Hs; subst. rewrite nodes_finish, nodes_chan_set in H.
           assert (x = b).
           { destruct (N.eq_dec x b); auto. exfalso.
             match type of H with aset b ?w _ = _ =>
               assert (Hq : aget x (aset b w (nodes g)) = aget x (aset x v (nodes g))) by (rewrite H; reflexivity) end.
             rewrite !aget_aset, N.eqb_refl in Hq. destruct (x =? b) eqn:E3; [lia|]. congruence. }
           subst. congruence.
        -- destruct (aget a (nodes g)) eqn:E2; [|discriminate]. inversion Hs; subst.
           rewrite nodes_chan_set, nodes_finish in H.
           assert (x = a).
           { destruct (N.eq_dec x a); auto. exfalso.
             match type of H with aset a ?w _ = _ =>
               assert (Hq : aget x (aset a w (nodes g)) = aget x (aset x v (nodes g))) by (rewrite H; reflexivity) end.
             rewrite !aget_aset, N.eqb_refl in Hq. destruct (x =? a) eqn:E3; [lia|]. congruence. }
           subst. congruence.
        -- inversion Hs; subst. rewrite nodes_chan_set in H.
           assert (Hq : aget x (nodes g) = aget x (aset x v (nodes g))) by (rewrite <- H; reflexivity).
           rewrite aget_aset, N.eqb_refl in Hq. congruence.
        -- destruct (aget a (nodes g)) eqn:E2; [|discriminate]. inversion Hs; subst.
           rewrite nodes_finish in H.
           assert (Hg : forall fr : bool, nodes (if fr then chan_set a b [] (chan_set b a [] g) else g) = nodes g)
             by (intros []; reflexivity).
           rewrite Hg in H.
           assert (x = a).
           { destruct (N.eq_dec x a); auto. exfalso.
             match type of H with aset a ?w _ = _ =>
               assert (Hq : aget x (aset a w (nodes g)) = aget x (aset x v (nodes g))) by (rewrite H; reflexivity) end.
             rewrite !aget_aset, N.eqb_refl in Hq. destruct (x =? a) eqn:E3; [lia|]. congruence. }
           subst. congruence.
        -- destruct (aget n (nodes g)) eqn:E2; [|discriminate]. inversion Hs; subst.
           rewrite nodes_finish in H.
           assert (x = n).
           { destruct (N.eq_dec x n); auto. exfalso.
             match type of H with aset n ?w _ = _ =>
               assert (Hq : aget x (aset n w (nodes g)) = aget x (aset x v (nodes g))) by (rewrite H; reflexivity) end.
             rewrite !aget_aset, N.eqb_refl in Hq. destruct (x =? n) eqn:E3; [lia|]. congruence. }
           subst. congruence.
        -- destruct (aget n (nodes g)) eqn:E2; [|discriminate]. inversion Hs; subst.
           rewrite nodes_finish in H.
           assert (x = n).
           { destruct (N.eq_dec x n); auto. exfalso.
             match type of H with aset n ?w _ = _ =>
               assert (Hq : aget x (aset n w (nodes g)) = aget x (aset x v (nodes g))) by (rewrite H; reflexivity) end.
             rewrite !aget_aset, N.eqb_refl in Hq. destruct (x =? n) eqn:E3; [lia|]. congruence. }
           subst. congruence.
        -- destruct (aget n (nodes g)) eqn:E2; [|discriminate]. inversion Hs; subst.
           rewrite nodes_finish in H.
           assert (x = n).
           { destruct (N.eq_dec x n); auto. exfalso.
             match type of H with aset n ?w _ = _ =>
               assert (Hq : aget x (aset n w (nodes g)) = aget x (aset x v (nodes g))) by (rewrite H; reflexivity) end.
             rewrite !aget_aset, N.eqb_refl in Hq. destruct (x =? n) eqn:E3; [lia|]. congruence. }
           subst. congruence.
        -- destruct (aget n (nodes g)) eqn:E2; [|discriminate]. inversion Hs; subst.
           rewrite nodes_finish in H.
           assert (x = n).
           { destruct (N.eq_dec x n); auto. exfalso.
             match type of H with aset n ?w _ = _ =>
               assert (Hq : aget x (aset n w (nodes g)) = aget x (aset x v (nodes g))) by (rewrite H; reflexivity) end.
             rewrite !aget_aset, N.eqb_refl in Hq. destruct (x =? n) eqn:E3; [lia|]. congruence. }
           subst. congruence.
        -- inversion Hs; subst. cbn in H.
           assert (Hq : aget x (adel n (nodes g)) = aget x (aset x v (nodes g))).
           { rewrite <- H. destruct (aget n (nodes g)) as [y|]; [destruct (disk_of c y)|]; reflexivity. }
           rewrite aget_aset, N.eqb_refl in Hq.
           destruct (N.eq_dec n x) as [->|Hne].
           ++ rewrite aget_adel_same in Hq by exact Hsrt. discriminate.
           ++ rewrite aget_adel_ne in Hq by auto. congruence.
        -- inversion Hs; subst. unfold put_node in H. cbn in H.
           assert (x = n).
           { destruct (N.eq_dec x n); auto. exfalso.
             match type of H with aset n ?w _ = _ =>
               assert (Hq : aget x (aset n w (nodes g)) = aget x (aset x v (nodes g))) by (rewrite H; reflexivity) end.
             rewrite !aget_aset, N.eqb_refl in Hq. destruct (x =? n) eqn:E3; [lia|]. congruence. }
           subst. rewrite N.eqb_refl in Er. discriminate.
      * rewrite H in Hn'. destruct (N.eq_dec k x) as [->|Hne].
        -- rewrite aget_adel_same in Hn' by exact Hsrt. discriminate.
        -- rewrite aget_adel_ne in Hn' by auto. congruence.
Qed.

(* C06_meta_commit_is_a_past_commit, as an invariant of every reachable state *)
Lemma meta_inv_trace : forall c evs g g', run_trace c g evs = Some g' -> meta_inv g -> meta_inv g'.
Proof.
  intros c evs. induction evs as [|ev evs IH]; intros g g' H Hi; cbn in H.
  - inversion H; subst; auto.
  - destruct (gstep c g ev) as [[g1 r]|] eqn:E; [|discriminate].
    eapply IH; eauto. eapply meta_inv_step; eauto.
Qed.

Lemma meta_le_commit_reachable : forall c evs g x n,
  run_trace c ginit evs = Some g -> aget x (nodes g) = Some n -> meta_commit n <= commit n.
Proof.
  intros c evs g x n H Hn.
  assert (Hi : meta_inv ginit) by (split; [exact I | intros y m Hy; discriminate]).
  destruct (meta_inv_trace c evs ginit g H Hi) as [_ Hall]. exact (Hall x n Hn).
Qed.

(* per step of a node that keeps running: commit grows, and the flushed index either stays or
   is a value between the old and the new commit index *)
Lemma meta_rel_trace : forall c evs g g' x n n',
  run_trace c g evs = Some g' -> runs_through x evs ->
  aget x (nodes g) = Some n -> aget x (nodes g') = Some n' -> meta_rel n n'.
Proof.
  intros c evs g g' x n n' Hrun Hthru Hn Hn'.
  destruct (run_trace_rel meta_rel c meta_rel_refl meta_rel_trans) with (evs := evs) (g := g) (g' := g') (x := x) (n := n)
    as (n2 & Hn2 & Hrel); auto.
  - intros a b Hst. eapply meta_rel_nstep; eauto.
  - rewrite Hn' in Hn2. inversion Hn2; subst. exact Hrel.
Qed.

(* kill + restart of a journaled voter in a reachable state: the journal is the log, the commit
   index restarts at the flushed value, which is not above the commit index before the kill *)
Lemma restart_commit_not_ahead : forall c evs g x n g1 r1 oth now rn sv g2 r2,
  file_journal c = true -> x < RO_BASE ->
  run_trace c ginit evs = Some g -> aget x (nodes g) = Some n -> log n <> [] ->
  gstep c g (EKill x) = Some (g1, r1) ->
  gstep c g1 (ERestart x oth now rn sv) = Some (g2, r2) ->
  exists n2, aget x (nodes g2) = Some n2 /\ log n2 = log n /\
             commit n2 = meta_commit n /\ commit n2 <= commit n /\ applied n2 = 1.
Proof.
  intros c evs g x n g1 r1 oth now rn sv g2 r2 Hj Hx Hrun Hn Hne Hk Hr.
  pose proof (meta_le_commit_reachable c evs g x n Hrun Hn) as Hle.
  pose proof (kill_saves_disk c g x n g1 r1 Hj Hn Hk) as Hd.
  pose proof (restart_reads_disk c g1 x oth now rn sv _ g2 r2 Hx Hd Hr) as Hn2.
  eexists. split; [exact Hn2|].
  set (d := mkDisk (log n) (meta_commit n) (if file_dump c then stored (sr n) else None)).
  assert (Hdl : d_log d <> []) by exact Hne.
  destruct (restart_state (mk_env c now rn DEFAULT_BUDGET [] 0) (Some x) oth sv d Hdl) as (R1 & R2 & _ & R4 & _).
  fold d. rewrite R1, R2, R4. cbn. repeat split; auto.
Qed.
