(* The environment of the nodes: per-connection FIFO channels, per-endpoint connect/drop
   views (DESIGN 5.4), the event alphabet of harness/sim.py and the global step. *)
From Coq Require Import ZArith NArith List Bool.
From RecordUpdate Require Import RecordSet.
From PSO Require Import Raft.Types Raft.Node.
Import ListNotations.
Import RecordSetNotations.
Open Scope N_scope.

Inductive event :=
| ETick (n : nid) (now : Z) (rnd : Z) (budget : N) (order : list nid) (snaplen : N)
| EDeliver (a b : nid) (now : Z) (rnd : Z) (order : list nid)
| EDrop (a b : nid)                 (* a notices the loss of its connection to b *)
| ELose (a b : nid) (k : N)         (* the last k messages queued a->b are lost *)
| EConnect (a b : nid)              (* a notices a connection to b *)
| ESubmit (n : nid) (c : cmd) (cb : N)
| EAdmin (n : nid) (c : cmd) (cb : N)
| ESetVer (n : nid) (c : cmd) (cb : N)
| ECompact (n : nid)
| EKill (n : nid)
| ERestart (n : nid) (oth : list nid) (now : Z) (rnd : Z) (sv : N).

Record gstate := mkG {
  nodes : list (nid * node);
  chan : list (nid * nid * list msg);
  disks : list (nid * disk)          (* files of the nodes that are currently down *)
}.
#[export] Instance eta_G : Settable _ := settable! mkG <nodes; chan; disks>.

Definition chan_get (a b : nid) (g : gstate) : list msg :=
  match find (fun c => (fst (fst c) =? a) && (snd (fst c) =? b)) (chan g) with
  | Some c => snd c
  | None => []
  end.

Definition chan_set (a b : nid) (q : list msg) (g : gstate) : gstate :=
  g <| chan := (a, b, q) :: filter (fun c => negb ((fst (fst c) =? a) && (snd (fst c) =? b))) (chan g) |>.

Definition cb_of (cb : N) : cbref := if cb =? 0 then CbNone else CbLocal cb.

Definition DEFAULT_BUDGET := 30.

Definition mk_env (c : conf) (now rnd : Z) (bud : N) (ord : list nid) (sl : N) : env :=
  mkEnv c now bud rnd ord sl.

(* route the outputs of node `a`: sends are appended to the channels, a transport
   dropNode x discards what x had in flight towards a *)
Definition route (a : nid) (os : list out) (g : gstate) : gstate :=
  fold_left (fun g o =>
    match o with
    | Send d m => chan_set a d (chan_get a d g ++ [m]) g
    | TDrop x => chan_set x a [] g
    | _ => g
    end) os g.

Definition put_node (n : nid) (nd' : node) (g : gstate) : gstate :=
  g <| nodes := aset n nd' (nodes g) |>.

Definition finish (n : nid) (s : S) (g : gstate) : gstate :=
  route n (outs s) (put_node n (nd s) g).

Definition idle_S (n : node) : S := mkS n [] 0 0%Z 0 false 0.

(* result of a step: new global state, the node that ran (if any), its handler state *)
Definition gstep (c : conf) (g : gstate) (ev : event) : option (gstate * option (nid * S)) :=
  match ev with
  | ETick n now rnd bud ord sl =>
    match aget n (nodes g) with
    | None => None
    | Some x => let s := on_tick (mk_env c now rnd bud ord sl) x in Some (finish n s g, Some (n, s))
    end
  | EDeliver a b now rnd ord =>
    match aget b (nodes g), chan_get a b g with
    | Some x, m :: rest =>
      let g := chan_set a b rest g in
      let s := on_message (mk_env c now rnd DEFAULT_BUDGET ord 0) a m x in
      Some (finish b s g, Some (b, s))
    | _, _ => None
    end
  | EDrop a b =>
    match aget a (nodes g) with
    | None => None
    | Some x =>
      let s := idle_S (on_disconnected b x) in
      Some (chan_set b a [] (finish a s g), Some (a, s))
    end
  | ELose a b k =>
    let q := chan_get a b g in
    Some (chan_set a b (firstn (length q - N.to_nat k) q) g, None)
  | EConnect a b =>
    match aget a (nodes g) with
    | None => None
    | Some x =>
      let s := idle_S (on_connected b x) in
      let fresh := match aget b (nodes g) with Some y => negb (smem a (tconn y)) | None => true end in
      let g := if fresh then chan_set a b [] (chan_set b a [] g) else g in
      Some (finish a s g, Some (a, s))
    end
  | ESubmit n cm cb =>
    match aget n (nodes g) with
    | None => None
    | Some x => let s := api_submit (mk_env c 0 0 DEFAULT_BUDGET [] 0) cm (cb_of cb) x in
                Some (finish n s g, Some (n, s))
    end
  | EAdmin n cm cb =>
    match aget n (nodes g) with
    | None => None
    | Some x => let s := api_admin (mk_env c 0 0 DEFAULT_BUDGET [] 0) cm (cb_of cb) x in
                Some (finish n s g, Some (n, s))
    end
  | ESetVer n cm cb =>
    match aget n (nodes g) with
    | None => None
    | Some x => let s := api_setver (mk_env c 0 0 DEFAULT_BUDGET [] 0) cm (cb_of cb) x in
                Some (finish n s g, Some (n, s))
    end
  | ECompact n =>
    match aget n (nodes g) with
    | None => None
    | Some x => let s := idle_S (api_compact x) in Some (finish n s g, Some (n, s))
    end
  | EKill n =>
    let g := match aget n (nodes g) with
             | Some x => match disk_of c x with
                         | Some d => g <| disks := aset n d (disks g) |>
                         | None => g <| disks := adel n (disks g) |>
                         end
             | None => g
             end in
    Some (g <| nodes := adel n (nodes g) |>
            <| chan := filter (fun c => negb ((fst (fst c) =? n) || (snd (fst c) =? n))) (chan g) |>, None)
  | ERestart n oth now rnd sv =>
    (* a fresh object; a journaled node finds its files *)
    let e := mk_env c now rnd DEFAULT_BUDGET [] 0 in
    let me := if RO_BASE <=? n then None else Some n in
    let x := match aget n (disks g), me with
             | Some d, Some _ => init_from_disk e me oth sv d
             | _, _ => init_node e me oth sv
             end in
    let g := g <| chan := filter (fun c => negb ((fst (fst c) =? n) || (snd (fst c) =? n))) (chan g) |> in
    Some (put_node n x g, Some (n, idle_S x))
  end.

Definition ginit : gstate := mkG [] [] [].
