(* Tier C7, part 3: the tick of a read-only node keeps the learner relation [Lr].  Such a node never
   times out, never leads, never sends append_entries: the tick only applies committed entries,
   forwards queued commands and compacts its log (serialize at [applied], cut one tick later). *)
From Coq Require Import ZArith NArith List Bool Lia ZifyBool Arith PeanoNat.
From RecordUpdate Require Import RecordSet.
From PSO Require Import Raft.Types Raft.Node Raft.Net Raft.ProofsCommitBase.
From PSO Require Import Raft.ProofsApplyBase Raft.ProofsApplyLog.
From PSO Require Raft.ProofsApplyReplay Raft.ProofsCallbacks2 Raft.ProofsElectionFrame2.
From PSO Require Import Raft.ProofsElectionBase Raft.RefineAbs Raft.RefineK Raft.RefineSpecA Raft.RefineTickA
  Raft.RefineTickB.
From PSO Require Import Raft.Refine5Abs Raft.Refine5SpecA Raft.Refine5Sim Raft.Refine5TickA Raft.Refine5TickB.
From PSO Require Import Raft.Refine6Base Raft.Refine6Snaps Raft.Refine7ROBase.
From PSO Require Abstract.Model Abstract.Lib Abstract.Kstep.
Import ListNotations.
Import RecordSetNotations.
Open Scope N_scope.
#[local] Arguments firstn : simpl nomatch.
#[local] Arguments skipn : simpl nomatch.

(* everything the learner relation (and the guards of the tick of a read-only node) read *)
Definition tq (x : node) :=
  (self x, role x, log x, term x, applied x, commit x, replay_idx x, sr x, hist x, enabled_ver x).

Lemma tq_eq x y : tq x = tq y ->
  self x = self y /\ role x = role y /\ log x = log y /\ term x = term y /\ applied x = applied y /\
  commit x = commit y /\ replay_idx x = replay_idx y /\ sr x = sr y /\ hist x = hist y /\
  enabled_ver x = enabled_ver y.
Proof. unfold tq. intros H. repeat split; congruence. Qed.

(* the same without log and serializer *)
Definition uq (x : node) := (self x, role x, term x, applied x, commit x, replay_idx x, hist x).

Lemma uq_eq x y : uq x = uq y ->
  self x = self y /\ role x = role y /\ term x = term y /\ applied x = applied y /\
  commit x = commit y /\ replay_idx x = replay_idx y /\ hist x = hist y.
Proof. unfold uq. intros H. repeat split; congruence. Qed.

Section Phases.
Variable e : env.

Lemma tq_tick_load S : ProofsElectionFrame2.tickp e (nd S) -> tq (nd (tick_load e S)) = tq (nd S).
Proof.
  intros Tp. unfold tick_load.
  destruct (need_load (nd S) && file_dump (cf e)) eqn:E; [|reflexivity].
  unfold load_dump. rewrite (Tp E). reflexivity.
Qed.

Lemma tq_tick_timer S : tq (nd (tick_timer e S)) = tq (nd S).
Proof. unfold tick_timer. destruct (_ <? _)%Z; reflexivity. Qed.

Lemma tick_election_ro S : self (nd S) = None -> tick_election e S = S.
Proof. intros H. unfold tick_election. rewrite H. reflexivity. Qed.

Lemma tick_leader_ro S : role (nd S) = FOLLOWER -> tick_leader e S = S.
Proof. intros H. unfold tick_leader. rewrite H. reflexivity. Qed.

Lemma tick_send_ro need S : role (nd S) = FOLLOWER -> tick_send e need S = S.
Proof. intros H. unfold tick_send. rewrite H. reflexivity. Qed.

Lemma tq_tick_ready S : tq (nd (tick_ready S)) = tq (nd S).
Proof. unfold tick_ready. destruct (_ && _); reflexivity. Qed.

Lemma tq_tick_pre x :
  ProofsElectionFrame2.tickp e x -> self x = None -> role x = FOLLOWER ->
  tq (nd (ProofsCallbacks2.tick_pre e (start_S e x))) = tq x.
Proof.
  intros Tp Hs Hr. unfold ProofsCallbacks2.tick_pre.
  pose proof (tq_tick_load (start_S e x) Tp) as E1. cbn [nd start_S] in E1.
  rewrite andthen_eq. destruct (ok (tick_load e (start_S e x))); [|exact E1].
  set (S1 := tick_load e (start_S e x)) in *. clearbody S1.
  pose proof (tq_tick_timer S1) as E2.
  rewrite andthen_eq. destruct (ok (tick_timer e S1)); [|congruence].
  set (S2 := tick_timer e S1) in *. clearbody S2.
  assert (E3 : tq (nd S2) = tq x) by congruence.
  destruct (tq_eq _ _ E3) as (A1 & A2 & _).
  rewrite andthen_eq, tick_election_ro by congruence.
  destruct (ok S2); [|exact E3].
  rewrite tick_leader_ro by congruence. exact E3.
Qed.

Lemma tq_check_one cm cbk S : role (nd S) = FOLLOWER -> tq (nd (check_one e cm cbk S)) = tq (nd S).
Proof.
  intros Hr. unfold check_one. rewrite Hr. cbn [N.eqb FOLLOWER LEADER Pos.eqb].
  destruct (leader (nd S)) as [l|].
  - destruct cbk as [|id|rn rid]; rewrite ?nd_send, ?nd_upd; reflexivity.
  - rewrite nd_call_err. reflexivity.
Qed.

Lemma tq_check_loop fuel start : forall S,
  role (nd S) = FOLLOWER -> tq (nd (check_loop fuel e start S)) = tq (nd S).
Proof.
  induction fuel as [|f IH]; intros S Hr; cbn [check_loop]; [reflexivity|].
  destruct (_ <? _)%Z; [|reflexivity].
  assert (Hgo : tq (nd (match queue (nd S) with
                     | [] => S
                     | (cm, cbk) :: rest =>
                         let s0 := upd (fun n0 => n0 <| queue := rest |>) S in
                         let s0 := check_one e cm cbk s0 in
                         if ok s0 then check_loop f e start s0 else s0
                     end)) = tq (nd S)).
  { destruct (queue (nd S)) as [|[cm cbk] rest]; [reflexivity|]. cbv zeta.
    set (s0 := upd (fun n0 => n0 <| queue := rest |>) S).
    assert (E0 : tq (nd s0) = tq (nd S)) by reflexivity.
    assert (Hr0 : role (nd s0) = FOLLOWER) by exact Hr.
    clearbody s0.
    pose proof (tq_check_one cm cbk s0 Hr0) as E1.
    destruct (ok (check_one e cm cbk s0)); [|congruence].
    rewrite IH; [congruence|]. destruct (tq_eq _ _ E1) as (_ & A2 & _). congruence. }
  destruct (leader (nd S)); [exact Hgo|].
  destruct (wait_leader (cf e)); [reflexivity|exact Hgo].
Qed.

Lemma tq_check_commands S : role (nd S) = FOLLOWER -> tq (nd (check_commands e S)) = tq (nd S).
Proof. intros Hr. unfold check_commands. apply tq_check_loop. exact Hr. Qed.

(* what log compaction does, as equations *)
Lemma try_compact_cases S :
  let y := nd (try_compact e S) in
  uq y = uq (nd S) /\
  ((log y = log (nd S) /\ sr y = sr (nd S)) \/
   (log y = log (nd S) /\ exists e0 e1 r cl,
      get_entries (log (nd S)) (Some (applied (nd S) - 1)) (Some 2) None = e0 :: e1 :: r /\
      sr y = (sr (nd S)) <| cur_id := eidx e0 |>
               <| stored := Some (Good (mkSnap (hist (nd S)) (enabled_ver (nd S)) e1 e0 cl (snaplen e))) |>
               <| pid := 1 |>) \/
   (log y = log (nd S) /\ pid (sr (nd S)) <> 1 /\ sr y = (sr (nd S)) <| pid := 0 |> <| trans := [] |>) \/
   (pid (sr (nd S)) = 1 /\ log y = delete_to (log (nd S)) (cur_id (sr (nd S))) /\
    sr y = (sr (nd S)) <| pid := 0 |> <| trans := [] |>)).
Proof.
  cbv zeta. unfold try_compact. cbv zeta.
  destruct (pid (sr (nd S)) =? 0) eqn:Ep.
  - apply N.eqb_eq in Ep. rewrite Ep. cbn [N.eqb negb].
    destruct (_ && _); [split; [reflexivity|left; split; reflexivity]|].
    destruct (get_entries (log (nd S)) (Some (applied (nd S) - 1)) (Some 2) None) as [|e0 [|e1 r]] eqn:Ege;
      try (split; [reflexivity|left; split; reflexivity]).
    destruct (opt_eqb _ _); [split; [reflexivity|left; split; reflexivity]|].
    split; [reflexivity|]. right. left. split; [reflexivity|].
    do 4 eexists. split; [reflexivity|]. reflexivity.
  - cbn [negb]. destruct (pid (sr (nd S)) =? 1) eqn:E1.
    + apply N.eqb_eq in E1. split; [reflexivity|]. right. right. right. split; [exact E1|]. split; reflexivity.
    + apply N.eqb_neq in E1. split; [reflexivity|]. right. right. left. split; [reflexivity|]. split; [exact E1|reflexivity].
Qed.

End Phases.

Section Tick7.
Variable c : conf.
Variable V : list nid.
Hypothesis NDV : NoDup V.
Hypothesis VRO : forall v, In v V -> v < RO_BASE.
Hypothesis VNE : V <> [].
Hypothesis Hb1 : 1 < batch c.
Hypothesis Hdyn : dyn c = false.
Variable e : env.
Hypothesis Hc : cf e = c.
Set Default Proof Using "All".

Notation V' := (absV V).
Notation pk := (pk c).
Notation snap_valid := (snap_valid c).
Notation HI := (HI c).
Notation SH := (SH c).
Notation glog := (glog c).
Notation Lg := (Lg c).
Notation Lr := (Lr c).
Notation QS := (QS c).
Notation recv_ok := (recv_ok c).
Notation Lg_full := (Lg_full c V NDV VRO VNE Hb1).
Notation glog_wf1 := (glog_wf1 c V NDV VRO VNE Hb1).
Notation Lg_eq := (Lg_eq c V NDV VRO VNE Hb1).
Notation Lh_eq := (Lh_eq c V NDV VRO VNE Hb1).
Notation HI_eq := (HI_eq c V NDV VRO VNE Hb1).
Notation HI_apply_g := (HI_apply_g c V NDV VRO VNE Hb1).
Notation valid_at_g := (valid_at_g c V NDV VRO VNE Hb1).
Notation committed_le := (committed_le c V NDV VRO VNE Hb1).

(* the relation without the piece buffer (which the tick never touches) *)
Definition PT (s : M.state) (y : node) : Prop :=
  Lg y s /\ Lh y /\ nsn (QS s (n2 (term y))) y /\ HI s y /\ self y = None /\ role y = FOLLOWER.

Lemma PT_tq s x y : tq y = tq x -> PT s x -> PT s y.
Proof.
  intros E (A & B & C & D & F & G).
  destruct (tq_eq _ _ E) as (E1 & E2 & E3 & E4 & E5 & E6 & E7 & E8 & E9 & E10).
  split; [eapply Lg_eq; eauto|]. split; [eapply Lh_eq; eauto; rewrite E8; reflexivity|].
  split; [unfold nsn in *; rewrite E8, E4; exact C|]. split; [eapply HI_eq; eauto|]. split; congruence.
Qed.

(* the apply loop *)
Lemma PT_apply s S :
  KS.kreachable V' s -> PT s (nd S) -> PT s (nd (fst (apply_entries e S))).
Proof.
  intros HR (G & H & NS & Hh & Hs & Hr).
  destruct (Lg_full (nd S) s HR G) as (full & GL & W & Sx & CA & CC).
  pose proof (suffix_log_wf _ _ W Sx) as WF.
  destruct (apply_consecutive e S WF) as (C1 & (a & b & C2) & _ & C4 & _ & _ & _ & C8 & _ & _ & C11 & C12).
  pose proof (apply_entries_spec e S (Lh_rinv _ H)) as (A & B & _).
  destruct (fvA_eq _ _ A) as (E1 & E2 & E3 & E4 & E5 & E6 & E7 & E8).
  destruct (RefineSim.rv_eq _ _ E3) as (Er & Et & _ & _ & _ & Ec & _).
  assert (Bd : applied (nd (fst (apply_entries e S))) <= commit (nd S) \/
               applied (nd (fst (apply_entries e S))) = applied (nd S)).
  { pose proof (apply_entries_bound e S) as Bb. unfold apply_entries in *.
    destruct (applied (nd S) <? commit (nd S)) eqn:E; [left|right; reflexivity]. apply Bb. lia. }
  set (S1 := fst (apply_entries e S)) in *. clearbody S1.
  assert (CA' : S7.committed_upto s (n2 (term (nd S))) (absL pk full) (n2 (applied (nd S1)))).
  { destruct Bd as [Bd|Bd]; [|rewrite Bd; exact CA]. eapply committed_le; [|exact CC]. lia. }
  split; [|split; [|split; [|split; [|split]]]].
  - exists full. rewrite E5, Et, Ec. split; auto.
  - destruct H as [B1 B2 B3]. constructor; rewrite ?E5, ?E7, ?E4; lia.
  - unfold nsn in *. rewrite E4, Et. exact NS.
  - eapply (HI_apply_g s _ (nd S) (nd S1) (applied_now S) full HR W); eauto.
    + rewrite E5. exact Sx.
    + intros en Hen. rewrite E5, C2. apply in_or_app. right. apply in_or_app. left. exact Hen.
  - congruence.
  - congruence.
Qed.

(* log compaction *)
Lemma PT_try_compact s S :
  KS.kreachable V' s -> PT s (nd S) -> PT s (nd (try_compact e S)).
Proof.
  intros HR (G & H & NS & Hh & Hs & Hr).
  destruct (try_compact_cases e S) as [U Hcase]. cbv zeta in U, Hcase.
  set (y := nd (try_compact e S)) in *. clearbody y.
  destruct (uq_eq _ _ U) as (U1 & U2 & U3 & U4 & U5 & U6 & U7).
  destruct (Lg_full (nd S) s HR G) as (full & GL & W & Sx & CA & CC).
  pose proof H as [B1 B2 B3].
  assert (Hh' : HI s y) by (eapply HI_eq; eauto).
  destruct Hcase as [(El & Es)|[(El & e0 & e1 & r & cl & Ege & Es)|[(El & Hp & Es)|(Hp & El & Es)]]].
  - split; [eapply Lg_eq; eauto|]. split; [eapply Lh_eq; eauto; rewrite Es; reflexivity|].
    split; [unfold nsn in *; rewrite Es, U3; exact NS|]. split; [exact Hh'|]. split; congruence.
  - (* a snapshot at [applied]: entries applied-1 and applied of the ghost log *)
    assert (Hge : first_idx (log (nd S)) <= applied (nd S) - 1).
    { destruct (N.le_gt_cases (first_idx (log (nd S))) (applied (nd S) - 1)); auto.
      rewrite (suffix_lt (log (nd S)) (applied (nd S) - 1)) in Ege by lia. discriminate. }
    pose proof (suffix_first_pos _ _ W Sx) as Hfp.
    rewrite (suffix_ge _ _ W Sx) in Ege by exact Hge. rewrite ge_count in Ege by (auto; lia).
    change (n2 2) with 2%nat in Ege.
    set (q := (n2 (applied (nd S) - 1) - 1)%nat) in *.
    assert (N0 : nth_error full q = Some e0 /\ nth_error full (Sn q) = Some e1).
    { assert (H0 : nth_error (firstn 2 (skipn q full)) 0 = Some e0) by (rewrite Ege; reflexivity).
      assert (H1 : nth_error (firstn 2 (skipn q full)) 1 = Some e1) by (rewrite Ege; reflexivity).
      rewrite ML.nth_error_firstn_lt, Refine5Abs.nth_error_skipn in H0, H1 by lia.
      replace (q + 0)%nat with q in H0 by lia. replace (q + 1)%nat with (Sn q) in H1 by lia. auto. }
    destruct N0 as [N0 N1].
    assert (Ei1 : eidx e1 = applied (nd S)).
    { destruct W as [_ Hw]. rewrite (Hw _ _ N1). unfold q. lia. }
    assert (Ei0 : eidx e0 = applied (nd S) - 1).
    { destruct W as [_ Hw]. rewrite (Hw _ _ N0). unfold q. lia. }
    assert (Hv : forall h v cl0 ln, snap_valid s (n2 (term (nd S))) (mkSnap h v e1 e0 cl0 ln)).
    { apply (valid_at_g s (n2 (term (nd S))) (n2 (applied (nd S))) (absL pk full) e0 e1).
      - exact CA.
      - lia.
      - rewrite absL_nth. replace (n2 (applied (nd S)) - 1)%nat with (Sn q) by (unfold q; lia).
        rewrite N1. reflexivity.
      - rewrite absL_nth. replace (n2 (applied (nd S)) - 2)%nat with q by (unfold q; lia).
        rewrite N0. reflexivity.
      - rewrite Ei1. reflexivity. }
    split; [eapply Lg_eq; eauto|]. split.
    { constructor; rewrite ?El, ?U4, ?U6, ?Es; cbn; auto. intros _. lia. }
    split.
    { unfold nsn in *. rewrite Es, U3. destruct NS as (N1' & N2' & N3'). repeat split; cbn.
      - intros b0 Eb. injection Eb as <-. cbn [bq]. split; [apply Hv|].
        eapply (SH_of_HI c V NDV VRO VNE Hb1 s _ (nd S)); [reflexivity|exact Ei1|exact Hh].
      - exact N2'.
      - exact N3'. }
    split; [exact Hh'|]. split; congruence.
  - (* a failed serialization is forgotten *)
    split; [eapply Lg_eq; eauto|]. split.
    { constructor; rewrite ?El, ?U4, ?U6, ?Es; cbn; auto. intros Hx. discriminate. }
    split.
    { unfold nsn in *. rewrite Es, U3. destruct NS as (N1' & N2' & N3'). repeat split; cbn; auto.
      intros d b0 o []. }
    split; [exact Hh'|]. split; congruence.
  - (* the snapshot of the previous tick is complete: cut the log *)
    specialize (B3 Hp).
    destruct (suffix_base _ _ W Sx) as (b & Eb & Hb & Efi).
    assert (Hal : (n2 (applied (nd S)) <= length full)%nat).
    { destruct CA as [Hal _]. rewrite absL_length in Hal. exact Hal. }
    set (id := cur_id (sr (nd S))) in *.
    split.
    { exists full. split; [exact GL|]. rewrite U3, U4, U5. split; [|split; assumption].
      rewrite El. unfold delete_to.
      destruct (id <? first_idx (log (nd S))) eqn:E; [exact Sx|]. apply N.ltb_ge in E.
      exists (b + n2 (id - first_idx (log (nd S))))%nat. split.
      - rewrite <- skipn_skipn', <- Eb. reflexivity.
      - lia. }
    split.
    { constructor; rewrite ?U4, ?U6, ?Es; cbn; auto; try (intros Hx; discriminate).
      rewrite El.
      destruct (first_idx_delete_to (log (nd S)) id) as [Hx|[[_ Hx]|(H1 & en & H2 & H3)]].
      - rewrite Hx. exact B2.
      - rewrite Hx. lia.
      - rewrite H3. rewrite Efi in H1, H2. rewrite Eb in H2. rewrite Refine5Abs.nth_error_skipn in H2.
        destruct W as [_ Hw]. rewrite (Hw _ _ H2). lia. }
    split.
    { unfold nsn in *. rewrite Es, U3. destruct NS as (N1' & N2' & N3'). repeat split; cbn; auto.
      intros d b0 o []. }
    split; [exact Hh'|]. split; congruence.
Qed.

Theorem Lr_on_tick x s :
  KS.kreachable V' s -> self x = None -> role x = FOLLOWER -> ProofsElectionFrame2.tickp e x ->
  Lr x s -> Lr (nd (on_tick e x)) s.
Proof.
  intros HR Hs Hr Tp L.
  assert (P0 : PT s x).
  { destruct L as [A B C D E]. exact (conj A (conj C (conj D (conj E (conj Hs Hr))))). }
  assert (P : PT s (nd (on_tick e x))).
  { rewrite ProofsCallbacks2.on_tick_split. cbv zeta.
    pose proof (tq_tick_pre e x Tp Hs Hr) as E0.
    set (S0 := ProofsCallbacks2.tick_pre e (start_S e x)) in *. clearbody S0.
    assert (P1 : PT s (nd S0)) by (eapply PT_tq; eauto).
    destruct (ok S0); [|exact P1].
    pose proof (PT_apply s S0 HR P1) as P2.
    destruct (apply_entries e S0) as [S1 need]. cbn [fst snd] in *.
    destruct (ok S1); [|exact P2].
    unfold ProofsCallbacks2.tick_post.
    assert (Hr1 : role (nd S1) = FOLLOWER) by apply P2.
    rewrite andthen_eq, tick_send_ro by exact Hr1.
    destruct (ok S1); [|exact P2].
    pose proof (tq_tick_ready S1) as E2.
    rewrite andthen_eq. destruct (ok (tick_ready S1)); [|eapply PT_tq; eauto].
    set (S2 := tick_ready S1) in *. clearbody S2.
    assert (P3 : PT s (nd S2)) by (eapply PT_tq; eauto).
    assert (Hr2 : role (nd S2) = FOLLOWER) by apply P3.
    pose proof (tq_check_commands e S2 Hr2) as E3.
    rewrite andthen_eq. destruct (ok (check_commands e S2)); [|eapply PT_tq; eauto].
    apply PT_try_compact; [exact HR|]. eapply PT_tq; eauto. }
  destruct P as (A & B & C & D & _).
  constructor; auto.
  intros en o l Hin. rewrite (fr_on_tick recv_t) in Hin by (intros; reflexivity).
  eapply (Lr_recv _ _ _ L); eauto.
Qed.

End Tick7.
