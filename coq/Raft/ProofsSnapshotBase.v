(* Shared basic facts for the C09 / C06 / C05 proofs: association lists, consecutive logs,
   get_entries / delete_to / delete_from on consecutive logs, reflexivity of the model's
   equality tests, frame facts of the small helpers. *)
From Coq Require Import ZArith NArith List Bool Lia ZifyBool ZifyN.
From RecordUpdate Require Import RecordSet.
From PSO Require Import Raft.Types Raft.Node.
Import ListNotations.
Import RecordSetNotations.
Open Scope N_scope.

(* ---------- association lists with strictly increasing keys ---------- *)
Fixpoint akeys_lb {V} (k : N) (l : list (N * V)) : Prop :=
  match l with [] => True | (k', _) :: r => k < k' /\ akeys_lb k r end.

Fixpoint asorted {V} (l : list (N * V)) : Prop :=
  match l with [] => True | (k, _) :: r => akeys_lb k r /\ asorted r end.

Lemma akeys_lb_weaken : forall V (l : list (N * V)) a b, a <= b -> akeys_lb b l -> akeys_lb a l.
Proof.
  induction l as [|[k v] r IH]; cbn; intros a b Hab H; auto.
  destruct H as [H1 H2]. split; [lia|]. eapply IH; eauto.
Qed.

Lemma akeys_lb_sorted_tail : forall V (l : list (N * V)) k, asorted l -> akeys_lb k l ->
  forall x, x <= k -> aget x l = None.
Proof.
  induction l as [|[k' v] r IH]; cbn; intros k Hs Hlb x Hx; auto.
  destruct Hlb as [H1 H2]. destruct Hs as [H3 H4].
  destruct (x =? k') eqn:E; [lia|].
  eapply IH; eauto; lia.
Qed.

Lemma aget_adel_same : forall V (l : list (N * V)) x, asorted l -> aget x (adel x l) = None.
Proof.
  induction l as [|[k v] r IH]; cbn; intros x Hs; auto.
  destruct Hs as [H1 H2].
  destruct (x =? k) eqn:E.
  - apply N.eqb_eq in E. subst. eapply akeys_lb_sorted_tail; eauto. lia.
  - cbn. rewrite E. auto.
Qed.

Lemma aget_adel_other : forall V (l : list (N * V)) x y, x <> y -> aget y (adel x l) = aget y l.
Proof.
  induction l as [|[k v] r IH]; cbn; intros x y Hxy; auto.
  destruct (x =? k) eqn:E.
  - apply N.eqb_eq in E. subst. destruct (y =? k) eqn:E2; auto. lia.
  - cbn. destruct (y =? k); auto.
Qed.

Lemma aget_aset_same : forall V (l : list (N * V)) x v, aget x (aset x v l) = Some v.
Proof.
  induction l as [|[k w] r IH]; cbn; intros x v.
  - rewrite N.eqb_refl. auto.
  - destruct (x <? k) eqn:E1; cbn.
    + rewrite N.eqb_refl; auto.
    + destruct (x =? k) eqn:E2; cbn.
      * rewrite N.eqb_refl; auto.
      * rewrite E2. auto.
Qed.

Lemma aget_aset_other : forall V (l : list (N * V)) x y v, x <> y -> aget y (aset x v l) = aget y l.
Proof.
  induction l as [|[k w] r IH]; cbn; intros x y v Hxy.
  - destruct (y =? x) eqn:E; auto. lia.
  - destruct (x <? k) eqn:E1; cbn.
    + destruct (y =? x) eqn:E; auto. lia.
    + destruct (x =? k) eqn:E2; cbn.
      * apply N.eqb_eq in E2. subst. destruct (y =? k) eqn:E3; auto. lia.
      * destruct (y =? k); auto.
Qed.

Lemma akeys_lb_aset : forall V (l : list (N * V)) k x v, k < x -> akeys_lb k l -> akeys_lb k (aset x v l).
Proof.
  induction l as [|[k' w] r IH]; cbn; intros k x v Hk H.
  - auto.
  - destruct H as [H1 H2]. destruct (x <? k') eqn:E1; cbn; auto.
    destruct (x =? k') eqn:E2; cbn; auto.
Qed.

Lemma asorted_aset : forall V (l : list (N * V)) x v, asorted l -> asorted (aset x v l).
Proof.
  induction l as [|[k w] r IH]; cbn; intros x v Hs; auto.
  destruct Hs as [H1 H2].
  destruct (x <? k) eqn:E1; cbn.
  - repeat split; auto; try lia. eapply akeys_lb_weaken; [|eauto]. lia.
  - destruct (x =? k) eqn:E2; cbn.
    + apply N.eqb_eq in E2. subst. auto.
    + split; auto. apply akeys_lb_aset; auto. lia.
Qed.

Lemma akeys_lb_adel : forall V (l : list (N * V)) k x, akeys_lb k l -> akeys_lb k (adel x l).
Proof.
  induction l as [|[k' w] r IH]; cbn; intros k x H; auto.
  destruct H as [H1 H2]. destruct (x =? k'); cbn; auto.
Qed.

Lemma asorted_adel : forall V (l : list (N * V)) x, asorted l -> asorted (adel x l).
Proof.
  induction l as [|[k w] r IH]; cbn; intros x Hs; auto.
  destruct Hs as [H1 H2]. destruct (x =? k); cbn; auto.
  split; auto. apply akeys_lb_adel; auto.
Qed.

(* ---------- reflexivity of the model's equality tests ---------- *)
Lemma cmd_eqb_refl : forall c, cmd_eqb c c = true.
Proof. intros. unfold cmd_eqb. rewrite !N.eqb_refl. reflexivity. Qed.

Lemma entry_eqb_refl : forall e, entry_eqb e e = true.
Proof. intros. unfold entry_eqb. rewrite cmd_eqb_refl, !N.eqb_refl. reflexivity. Qed.

Lemma snap_eqb_refl : forall s, snap_eqb s s = true.
Proof. intros. unfold snap_eqb. rewrite !entry_eqb_refl, !N.eqb_refl. reflexivity. Qed.

(* what the tests decide *)
Lemma cmd_eqb_true : forall a b, cmd_eqb a b = true <->
  ck a = ck b /\ ca a = ca b /\ cb a = cb b /\ csz a = csz b.
Proof.
  intros. unfold cmd_eqb. rewrite !andb_true_iff, !N.eqb_eq. tauto.
Qed.

Lemma entry_eqb_true : forall a b, entry_eqb a b = true <->
  (ck (ecmd a) = ck (ecmd b) /\ ca (ecmd a) = ca (ecmd b) /\ cb (ecmd a) = cb (ecmd b) /\
   csz (ecmd a) = csz (ecmd b)) /\ eidx a = eidx b /\ eterm a = eterm b.
Proof.
  intros. unfold entry_eqb. rewrite !andb_true_iff, !N.eqb_eq, cmd_eqb_true. tauto.
Qed.

Lemma snap_eqb_true : forall a b, snap_eqb a b = true <->
  entry_eqb (s_e1 a) (s_e1 b) = true /\ entry_eqb (s_e0 a) (s_e0 b) = true /\
  s_len a = s_len b /\ length (s_hist a) = length (s_hist b).
Proof.
  intros. unfold snap_eqb. rewrite !andb_true_iff, !N.eqb_eq. split.
  - intros [[[H1 H2] H3] H4]. repeat split; auto. lia.
  - intros (H1 & H2 & H3 & H4). repeat split; auto; try lia.
Qed.

(* ---------- consecutive logs ---------- *)
Fixpoint consec (i : N) (l : list entry) : Prop :=
  match l with [] => True | e :: r => eidx e = i /\ consec (i + 1) r end.

Definition log_wf (l : list entry) : Prop := consec (first_idx l) l.

Lemma consec_app : forall a b i,
  consec i (a ++ b) <-> consec i a /\ consec (i + N.of_nat (length a)) b.
Proof.
  induction a as [|x a IH]; intros b i; cbn [app consec length].
  - replace (i + N.of_nat 0) with i by lia. tauto.
  - rewrite IH. replace (i + 1 + N.of_nat (length a)) with (i + N.of_nat (Datatypes.S (length a))) by lia.
    tauto.
Qed.

Lemma consec_skipn : forall k l i, consec i l -> consec (i + N.of_nat k) (skipn k l).
Proof.
  induction k as [|k IH]; intros l i H; cbn [skipn].
  - replace (i + N.of_nat 0) with i by lia. auto.
  - destruct l as [|x l]; [exact I|]. destruct H as [H1 H2].
    replace (i + N.of_nat (Datatypes.S k)) with (i + 1 + N.of_nat k) by lia.
    cbn [skipn]. apply IH. exact H2.
Qed.

Lemma consec_firstn : forall k l i, consec i l -> consec i (firstn k l).
Proof.
  induction k as [|k IH]; intros l i H; cbn [firstn]; cbn; auto.
  destruct l as [|x l]; cbn; auto. destruct H as [H1 H2]. split; auto.
Qed.

Lemma consec_nth : forall l i j e, consec i l -> nth_error l j = Some e -> eidx e = i + N.of_nat j.
Proof.
  induction l as [|x l IH]; intros i j e H Hn.
  - destruct j; discriminate.
  - destruct H as [H1 H2]. destruct j as [|j]; cbn in Hn.
    + inversion Hn; subst. lia.
    + rewrite (IH _ _ _ H2 Hn). lia.
Qed.

Lemma consec_first : forall l i, consec i l -> l <> [] -> first_idx l = i.
Proof. intros [|x l] i H Hne; [congruence|]. destruct H; auto. Qed.

Lemma consec_wf : forall l i, consec i l -> log_wf l.
Proof.
  intros [|x l] i H; unfold log_wf; cbn; auto. destruct H as [H1 H2]. rewrite H1. auto.
Qed.

Lemma consec_last_idx : forall l i, consec i l -> l <> [] ->
  last_idx l + 1 = i + N.of_nat (length l).
Proof.
  induction l as [|x l IH]; intros i H Hne; [congruence|].
  destruct H as [H1 H2]. destruct l as [|y l].
  - unfold last_idx. cbn. lia.
  - assert (Hl : last_idx (x :: y :: l) = last_idx (y :: l)) by reflexivity.
    rewrite Hl. rewrite (IH (i + 1) H2) by congruence. cbn [length]. lia.
Qed.

Lemma last_entry_app1 : forall l e, last_entry (l ++ [e]) = Some e.
Proof.
  induction l as [|x l IH]; intros e; cbn; auto.
  rewrite IH. destruct (l ++ [e]) eqn:E; auto. destruct l; discriminate.
Qed.

Lemma last_entry_app : forall a b, b <> [] -> last_entry (a ++ b) = last_entry b.
Proof.
  induction a as [|x a IH]; intros b Hb; cbn [app]; auto.
  specialize (IH b Hb). destruct (a ++ b) eqn:E.
  - destruct a; destruct b; try discriminate; congruence.
  - cbn [last_entry]. auto.
Qed.

Lemma last_idx_app : forall a b, b <> [] -> last_idx (a ++ b) = last_idx b.
Proof. intros. unfold last_idx. rewrite last_entry_app; auto. Qed.

Lemma wf_index_unique : forall l a b, log_wf l -> In a l -> In b l -> eidx a = eidx b -> a = b.
Proof.
  intros l a b Hwf Ha Hb Hab.
  apply In_nth_error in Ha. apply In_nth_error in Hb.
  destruct Ha as [i Hi]. destruct Hb as [j Hj].
  pose proof (consec_nth _ _ _ _ Hwf Hi). pose proof (consec_nth _ _ _ _ Hwf Hj).
  assert (i = j) by lia. subst. congruence.
Qed.

Lemma wf_app_first : forall pre rest, log_wf (pre ++ rest) -> rest <> [] ->
  first_idx rest = first_idx (pre ++ rest) + N.of_nat (length pre).
Proof.
  intros pre rest H Hne. unfold log_wf in H. apply consec_app in H. destruct H as [_ H].
  apply consec_first in H; auto.
Qed.

Lemma wf_app_r : forall pre rest, log_wf (pre ++ rest) -> log_wf rest.
Proof.
  intros pre rest H. unfold log_wf in H. apply consec_app in H. destruct H as [_ H].
  eapply consec_wf; eauto.
Qed.

Lemma skipn_app_exact : forall A (a b : list A), skipn (length a) (a ++ b) = b.
Proof. induction a; cbn; auto. Qed.

Lemma firstn_app_exact : forall A (a b : list A), firstn (length a) (a ++ b) = a.
Proof. induction a; cbn; intros; auto. f_equal; auto. Qed.

(* get_entries / delete_to / delete_from at a known split point *)
Lemma get_entries_split : forall pre rest cnt, log_wf (pre ++ rest) -> rest <> [] ->
  get_entries (pre ++ rest) (Some (first_idx rest)) cnt None =
  match cnt with None => rest | Some c => firstn (N.to_nat c) rest end.
Proof.
  intros pre rest cnt H Hne. pose proof (wf_app_first _ _ H Hne) as Hf.
  unfold get_entries. rewrite Hf.
  destruct (_ <? _) eqn:E; [lia|].
  replace (N.to_nat (first_idx (pre ++ rest) + N.of_nat (length pre) - first_idx (pre ++ rest)))
    with (length pre) by lia.
  rewrite skipn_app_exact. reflexivity.
Qed.

Lemma delete_to_split : forall pre rest, log_wf (pre ++ rest) -> rest <> [] ->
  delete_to (pre ++ rest) (first_idx rest) = rest.
Proof.
  intros pre rest H Hne. pose proof (wf_app_first _ _ H Hne) as Hf.
  unfold delete_to. rewrite Hf.
  destruct (_ <? _) eqn:E; [lia|].
  replace (N.to_nat (first_idx (pre ++ rest) + N.of_nat (length pre) - first_idx (pre ++ rest)))
    with (length pre) by lia.
  apply skipn_app_exact.
Qed.

Lemma delete_from_split : forall pre rest, log_wf (pre ++ rest) -> rest <> [] -> pre <> [] ->
  delete_from (pre ++ rest) (first_idx rest) = pre.
Proof.
  intros pre rest H Hne Hp. pose proof (wf_app_first _ _ H Hne) as Hf.
  unfold delete_from. rewrite Hf.
  destruct (_ <? _) eqn:E; [lia|].
  replace (N.to_nat (first_idx (pre ++ rest) + N.of_nat (length pre) - first_idx (pre ++ rest)))
    with (length pre) by lia.
  apply firstn_app_exact.
Qed.

Lemma get_entries_consec : forall l f cnt, log_wf l -> consec f (get_entries l (Some f) cnt None).
Proof.
  intros l f cnt H. unfold get_entries.
  destruct (f <? first_idx l) eqn:E; cbn; auto.
  assert (Hs : consec f (skipn (N.to_nat (f - first_idx l)) l)).
  { replace f with (first_idx l + N.of_nat (N.to_nat (f - first_idx l))) at 1 by lia.
    apply consec_skipn. exact H. }
  destruct cnt; auto. apply consec_firstn; auto.
Qed.

(* a get_entries result of two or more entries pins down a split of the log *)
Lemma get_entries_two_split : forall l f e0 e1 tl,
  get_entries l (Some f) (Some 2) None = e0 :: e1 :: tl ->
  tl = [] /\ exists pre post, l = pre ++ e0 :: e1 :: post /\
     N.of_nat (length pre) = f - first_idx l /\ first_idx l <= f.
Proof.
  intros l f e0 e1 tl H. unfold get_entries in H.
  destruct (f <? first_idx l) eqn:E; [discriminate|].
  remember (N.to_nat (f - first_idx l)) as k.
  change (N.to_nat 2) with 2%nat in H.
  destruct (skipn k l) as [|a [|b post]] eqn:Es; cbn in H; try discriminate.
  inversion H; subst a b tl. split; auto.
  exists (firstn k l), post. split; [|split].
  - rewrite <- Es. symmetry. apply firstn_skipn.
  - assert (k <= length l)%nat.
    { destruct (Nat.le_gt_cases k (length l)); auto.
      rewrite skipn_all2 in Es by lia. discriminate. }
    rewrite firstn_length_le by lia. lia.
  - lia.
Qed.

Lemma wf_two_indices : forall pre e0 e1 post, log_wf (pre ++ e0 :: e1 :: post) ->
  eidx e0 = first_idx (pre ++ e0 :: e1 :: post) + N.of_nat (length pre) /\ eidx e1 = eidx e0 + 1.
Proof.
  intros pre e0 e1 post H. unfold log_wf in H. apply consec_app in H. destruct H as [_ H].
  cbn in H. destruct H as (H0 & H1 & _). split; lia.
Qed.

(* ---------- folds that keep a projection ---------- *)
Lemma fold_left_keeps : forall A B (P : A -> Prop) (f : A -> B -> A) (l : list B) a,
  (forall a b, P a -> P (f a b)) -> P a -> P (fold_left f l a).
Proof. induction l; cbn; intros; auto. Qed.
