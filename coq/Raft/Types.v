(* Types of the faithful (L1) model of pysyncobj/syncobj.py + serializer.py.
   Numbers are N (indices, terms, sizes, node ids) and Z (virtual time). *)
From Coq Require Import ZArith NArith List Bool.
From RecordUpdate Require Import RecordSet.
Import ListNotations.
Import RecordSetNotations.
Open Scope N_scope.

Definition nid := N.
Definition time := Z.

(* ---- commands ----
   ck: 0 REGULAR (ca = command id, cb = 1 iff the method raises)
       1 NO_OP
       2 MEMBERSHIP (ca = 1 add | 2 rem, cb = node id)
       3 VERSION (ca = version)
   csz = len(command bytes); cpk = len(pickle.dumps((command, 1, 1))) (oracle, only used to cut big entries) *)
Record cmd := mkCmd { ck : N; ca : N; cb : N; csz : N; cpk : N }.

Record entry := mkEntry { ecmd : cmd; eidx : N; eterm : N }.

Definition noop_cmd (pk : N) : cmd := mkCmd 1 0 0 1 pk.

(* callbacks: none | local user callback id | forwarded request (requesting node, request id) *)
Inductive cbref := CbNone | CbLocal (id : N) | CbRemote (n : nid) (req : N).

(* ---- snapshots ---- *)
Record snapshot := mkSnap {
  s_hist : list N;        (* user state: applied command ids *)
  s_ver : N;              (* enabled code version stored with the user state *)
  s_e1 : entry;           (* entry at lastApplied *)
  s_e0 : entry;           (* entry at lastApplied - 1 *)
  s_cluster : list nid;   (* others + self at the capture point *)
  s_len : N               (* byte length of the gzip blob (oracle) *)
}.

(* what the receiver assembled: pieces (snapshot, offset, length) in arrival order *)
Inductive blob := Good (s : snapshot) | Corrupt (len : N).
Definition piece := (blob * N * N)%type.

Inductive snap_part :=
| SNone                                               (* 'serialized': None *)
| SData (b : blob) (off len : N) (first last : bool).

(* ---- messages ---- *)
Inductive msg :=
| RequestVote (t lli llt : N)
| ResponseVote (t : N)
| AE (t commit : N) (prev : option (N * N)) (es : list entry)
| AEPiece (t commit : N) (prev : option (N * N)) (lab : N) (off len : N) (e : entry)
    (* lab 1 start | 2 process | 3 finish; piece [off, off+len) of pickle.dumps(e) *)
| AESnap (t commit : N) (p : snap_part)
| ApplyCmd (c : cmd) (req : option N)
| ApplyResp (req : N) (ok : bool) (a b : N)           (* ok: (idx, term); else (error, 0) *)
| NextIdx (t : N) (next : N) (reset success : bool).

(* ---- outputs of a step ---- *)
Inductive out :=
| Send (dst : nid) (m : msg)
| Fired (cb : N) (res : N) (err : N)    (* res: 0 = None, r+1 = int r; err: FAIL_REASON *)
| Role (o n : N)
| TAdd (x : nid)
| TDrop (x : nid).

(* FAIL_REASON *)
Definition SUCCESS := 0.
Definition QUEUE_FULL := 1.
Definition MISSING_LEADER := 2.
Definition DISCARDED := 3.
Definition NOT_LEADER := 4.
Definition LEADER_CHANGED := 5.
Definition REQUEST_DENIED := 6.

(* roles *)
Definition FOLLOWER := 0.
Definition CANDIDATE := 1.
Definition LEADER := 2.

(* exception codes (harness/sim.py: exc_code) *)
Definition EXC_NONE := 0.
Definition EXC_USER := 1.        (* ValueError raised by the replicated method *)
Definition EXC_KEY := 2.
Definition EXC_INDEX := 3.
Definition EXC_ASSERT := 4.
Definition EXC_TYPE := 5.
Definition EXC_DECODE := 6.

Record conf := mkConf {
  period : Z; tmin : Z; tspan : Z; fallback : Z;
  batch : N; chunk : N;
  use_batch : bool; dyn : bool; wait_leader : bool;
  min_entries : N; min_time : Z; qsize : N;
  noop_pk : N;
  file_dump : bool;      (* fullDumpFile set (no fork) *)
  file_journal : bool
}.

(* ---- serializer state ---- *)
Record ser := mkSer {
  pid : N;                                   (* 0 idle | 1 = -1 finished ok | 2 = -2 failed *)
  cur_id : N;
  stored : option blob;                      (* in-memory data or dump file content *)
  trans : list (nid * (blob * N));           (* per destination: what is being sent, bytes sent *)
  incoming : option (list piece)
}.
#[export] Instance eta_ser : Settable _ := settable! mkSer <pid; cur_id; stored; trans; incoming>.

Definition init_ser : ser := mkSer 0 0 None [] None.

Record node := mkNode {
  self : option nid;
  others : list nid;           (* sorted sets *)
  readonly : list nid;
  connected : list nid;        (* SyncObj.__connectedNodes *)
  tconn : list nid;            (* the transport's own view (send succeeds iff member) *)
  role : N;
  term : N;
  voted : option nid;
  votes : N;
  leader : option nid;
  deadline : Z;
  log : list entry;
  commit : N;
  applied : N;
  next_idx : list (nid * N);
  match_idx : list (nid * N);
  last_resp : list (nid * Z);
  last_ser_time : Z;
  last_ser_entry : option N;
  force_compact : bool;
  leader_commit : option N;
  ready_called : bool;
  change_idx : option N;
  noop_idx : option N;
  recv_t : list (entry * N * N);       (* pieces of a big entry: (entry, off, len) *)
  start_time : Z;
  sec_dumps : Z;
  need_load : bool;
  new_ae_time : Z;
  wait_commit : list (N * list (N * cbref));
  local_ctr : N;
  wait_reply : list (N * cbref);
  queue : list (cmd * cbref);
  sr : ser;
  hist : list N;
  enabled_ver : N;
  self_ver : N;
  meta_commit : N;                     (* journal .meta on disk: last flushed commit index *)
  meta_dirty : bool;
  replay_idx : N                       (* membership entries up to here take effect when applied (journal replay) *)
}.
#[export] Instance eta_node : Settable _ := settable! mkNode
  <self; others; readonly; connected; tconn; role; term; voted; votes; leader; deadline; log; commit; applied;
   next_idx; match_idx; last_resp; last_ser_time; last_ser_entry; force_compact; leader_commit; ready_called;
   change_idx; noop_idx; recv_t; start_time; sec_dumps; need_load; new_ae_time; wait_commit; local_ctr;
   wait_reply; queue; sr; hist; enabled_ver; self_ver; meta_commit; meta_dirty; replay_idx>.

(* ---- sorted sets / association lists over N keys ---- *)
Fixpoint smem (x : N) (l : list N) : bool :=
  match l with [] => false | y :: r => (x =? y) || smem x r end.

Fixpoint sadd (x : N) (l : list N) : list N :=
  match l with
  | [] => [x]
  | y :: r => if x <? y then x :: l else if x =? y then l else y :: sadd x r
  end.

Fixpoint sdel (x : N) (l : list N) : list N :=
  match l with [] => [] | y :: r => if x =? y then r else y :: sdel x r end.

Definition sunion (a b : list N) : list N := fold_left (fun acc x => sadd x acc) b a.

Fixpoint aget {V} (k : N) (l : list (N * V)) : option V :=
  match l with [] => None | (k', v) :: r => if k =? k' then Some v else aget k r end.

Fixpoint aset {V} (k : N) (v : V) (l : list (N * V)) : list (N * V) :=
  match l with
  | [] => [(k, v)]
  | (k', v') :: r => if k <? k' then (k, v) :: l else if k =? k' then (k, v) :: r else (k', v') :: aset k v r
  end.

Fixpoint adel {V} (k : N) (l : list (N * V)) : list (N * V) :=
  match l with [] => [] | (k', v') :: r => if k =? k' then r else (k', v') :: adel k r end.

Definition opt_eqb (a b : option N) : bool :=
  match a, b with None, None => true | Some x, Some y => x =? y | _, _ => false end.

Definition cmd_eqb (a b : cmd) : bool :=
  (ck a =? ck b) && (ca a =? ca b) && (cb a =? cb b) && (csz a =? csz b).

Definition entry_eqb (a b : entry) : bool :=
  cmd_eqb (ecmd a) (ecmd b) && (eidx a =? eidx b) && (eterm a =? eterm b).

Fixpoint last_entry (l : list entry) : option entry :=
  match l with [] => None | [e] => Some e | _ :: r => last_entry r end.
Definition last_idx (l : list entry) : N := match last_entry l with Some e => eidx e | None => 0 end.
Definition last_term (l : list entry) : N := match last_entry l with Some e => eterm e | None => 0 end.
Definition first_idx (l : list entry) : N := match l with [] => 0 | e :: _ => eidx e end.
