(* Tier CM, part 12: non-vacuity.  A concrete run of the fragment with dyn = true: three voters,
   node 1 is elected (term 1) by {1,2,3}, its no-op is committed, the removal of node 3 is submitted
   (EAdmin), passes the gate, is replicated to node 2 and committed by the NEW member set {1,2};
   then node 2 runs into its election timeout and is elected (term 2) by the new member set {1,2};
   then a NEW voter 4 is started with the initial list [1;2;3], leader 2 adds it (EAdmin), node 4
   replays the whole log over the initial list (its table becomes {1,2}), the addition is committed
   by the member set {1,2,4}; finally node 4 times out and is elected (term 3) by {4,1}.
   Every hypothesis of the Tier CM theorems holds of the run (vm_compute), the theorems are instantiated. *)
From Coq Require Import ZArith NArith List Bool Lia.
From RecordUpdate Require Import RecordSet.
From PSO Require Import Raft.Types Raft.Node Raft.Net Raft.Obs.
From PSO Require Import Raft.ProofsElectionGhost Raft.RefineMAbs Raft.RefineMMain Raft.RefineMFinal.
Import ListNotations.
Import RecordSetNotations.
Open Scope N_scope.

(* period tmin tspan fallback batch chunk use_batch dyn wait_leader min_entries min_time qsize noop_pk
   file_dump file_journal: dynamic membership on, compaction thresholds far away, memory-only nodes *)
Definition tm_conf : conf := mkConf 10 40 20 100 1000 100 true true true 1000 100000 10 5 false false.
Definition tm_V : list nid := [1; 2; 3].
Definition tm_rem3 : cmd := mkCmd 2 2 3 1 10.          (* MEMBERSHIP, remove, node 3 *)

Definition tmT (z : Z) (n : N) : event := ETick n z 0 30 [] 9.
Definition tmD (z : Z) (a b : N) : event := EDeliver a b z 0 [].

(* election of node 1 by {1,2,3}; its no-op is committed and applied everywhere *)
Definition tm_trace1 : list event :=
  [ERestart 1 [2;3] 0 0 1; ERestart 2 [1;3] 0 0 1; ERestart 3 [1;2] 0 0 1;
   EConnect 1 2; EConnect 2 1; EConnect 1 3; EConnect 3 1; EConnect 2 3; EConnect 3 2;
   tmT 50 1; tmD 51 1 2; tmD 51 1 3; tmD 52 2 1; tmD 52 3 1;
   tmD 53 1 2; tmD 53 1 3; tmD 54 2 1; tmD 54 3 1;
   tmT 61 1; tmT 63 1; tmD 64 1 2; tmD 64 1 3; tmD 65 2 1; tmD 65 3 1; tmT 66 2; tmT 66 3].
(* the removal of node 3: gate open, entry 3 appended, replicated to node 2 only, committed by {1,2} *)
Definition tm_trace2 : list event :=
  [EAdmin 1 tm_rem3 20; tmT 67 1; tmT 74 1; tmD 75 1 2; tmD 76 2 1; tmT 77 1; tmT 85 1; tmD 86 1 2; tmD 87 2 1; tmT 88 2].
(* node 2 times out and wins term 2 with the votes of the new member set {1,2} *)
Definition tm_trace3 : list event := [tmT 140 2; tmD 141 2 1; tmD 142 1 2].
(* a new voter: started with the initial list, added by leader 2, brought up to date, committed *)
Definition tm_add4 : cmd := mkCmd 2 1 4 1 10.          (* MEMBERSHIP, add, node 4 *)
Definition tm_trace4 : list event :=
  [ERestart 4 [1;2;3] 150 0 1; EConnect 4 1; EConnect 1 4; EConnect 4 2; EConnect 2 4;
   tmT 151 2; tmD 152 2 1; tmD 153 1 2; tmT 154 2;
   EAdmin 2 tm_add4 21; tmT 155 2; tmT 166 2; tmD 167 2 1; tmD 167 2 4; tmD 168 1 2; tmD 168 4 2;
   tmT 177 2; tmD 178 2 1; tmD 178 2 4; tmD 179 1 2; tmD 179 4 2; tmT 188 2; tmD 189 2 1; tmD 189 2 4;
   tmT 190 4; tmT 190 1].
(* the new voter times out and wins term 3 with the votes of {4,1} out of {1,2,4} *)
Definition tm_trace5 : list event := [tmT 240 4; tmD 241 4 1; tmD 242 1 4].
Definition tm_trace : list event := tm_trace1 ++ tm_trace2 ++ tm_trace3.
(* a read-only node joins and is brought up to date by leader 4 (outside the abstract cluster) *)
Definition tm_trace6 : list event :=
  [ERestart 100 [] 250 0 1; EConnect 4 100; EConnect 100 4;
   tmT 253 4; tmD 254 4 100; tmD 255 100 4; tmT 264 4; tmD 265 4 100; tmD 266 100 4; tmT 267 100;
   tmT 275 4; tmD 276 4 100; tmT 277 100].
Definition tm_traceJ : list event := tm_trace ++ tm_trace4 ++ tm_trace5 ++ tm_trace6.

Example tm_in_fragment : core_fragM tm_conf tm_V tm_trace.
Proof. repeat split; vm_compute; reflexivity. Qed.

Example tm_runs :
  exists g1 g2 g3 m1 n1 n2 k1 k2 k3,
    run_trace tm_conf ginit tm_trace1 = Some g1 /\ run_trace tm_conf g1 tm_trace2 = Some g2 /\
    run_trace tm_conf g2 tm_trace3 = Some g3 /\ run_trace tm_conf ginit tm_trace = Some g3 /\
    (* after the first election: leader 1 of term 1, member set {2,3}, no-op committed *)
    aget 1 (nodes g1) = Some m1 /\ role m1 = LEADER /\ term m1 = 1 /\ others m1 = [2; 3] /\ commit m1 = 2 /\
    (* after the change: the removal is entry 3, committed by 1 and 2; their tables have lost node 3 *)
    aget 1 (nodes g2) = Some n1 /\ aget 2 (nodes g2) = Some n2 /\
    role n1 = LEADER /\ others n1 = [2] /\ others n2 = [1] /\ commit n1 = 3 /\ commit n2 = 3 /\
    map (fun e => (ck (ecmd e), cb (ecmd e), eidx e, eterm e)) (log n1) = [(1, 0, 1, 0); (1, 0, 2, 1); (2, 3, 3, 1)] /\
    log n2 = log n1 /\
    (* the later election: node 2 leads term 2, elected by {1,2}; node 1 stepped down; node 3 never
       learned of its removal *)
    aget 1 (nodes g3) = Some k1 /\ aget 2 (nodes g3) = Some k2 /\ aget 3 (nodes g3) = Some k3 /\
    role k2 = LEADER /\ term k2 = 2 /\ others k2 = [1] /\ votes k2 = 2 /\
    role k1 = FOLLOWER /\ term k1 = 2 /\ voted k1 = Some 2 /\
    others k3 = [1; 2] /\ N.of_nat (length (log k3)) = 2.
Proof.
  do 9 eexists.
  split; [vm_compute; reflexivity|]. split; [vm_compute; reflexivity|]. split; [vm_compute; reflexivity|].
  split; [vm_compute; reflexivity|]. split; [vm_compute; reflexivity|].
  split; [vm_compute; reflexivity|]. split; [vm_compute; reflexivity|]. split; [vm_compute; reflexivity|].
  split; [vm_compute; reflexivity|]. split; [vm_compute; reflexivity|]. split; [vm_compute; reflexivity|].
  vm_compute. repeat split; reflexivity.
Qed.

Example tmJ_in_fragment : core_fragM tm_conf tm_V tm_traceJ.
Proof. repeat split; vm_compute; reflexivity. Qed.

Example tmJ_runs :
  exists g4 g5 g6 j2 j4 l1 l4 r6,
    run_trace tm_conf ginit (tm_trace ++ tm_trace4) = Some g4 /\ run_trace tm_conf g4 tm_trace5 = Some g5 /\
    run_trace tm_conf g5 tm_trace6 = Some g6 /\ run_trace tm_conf ginit tm_traceJ = Some g6 /\
    (* the read-only node has the whole log *)
    aget 100 (nodes g6) = Some r6 /\ self r6 = None /\ N.of_nat (length (log r6)) = 6 /\ commit r6 = 5 /\
    (* the addition is entry 5, committed by leader 2 and the new voter 4; node 4 replayed the whole
       log over the initial list [1;2;3]: its table is {1,2} *)
    aget 2 (nodes g4) = Some j2 /\ aget 4 (nodes g4) = Some j4 /\
    role j2 = LEADER /\ term j2 = 2 /\ others j2 = [1; 4] /\ commit j2 = 5 /\
    others j4 = [1; 2] /\ commit j4 = 5 /\ log j4 = log j2 /\
    map (fun e => (ck (ecmd e), ca (ecmd e), cb (ecmd e), eidx e, eterm e)) (log j2) =
      [(1, 0, 0, 1, 0); (1, 0, 0, 2, 1); (2, 2, 3, 3, 1); (1, 0, 0, 4, 2); (2, 1, 4, 5, 2)] /\
    (* the new voter leads term 3, elected by {4,1} *)
    aget 1 (nodes g5) = Some l1 /\ aget 4 (nodes g5) = Some l4 /\
    role l4 = LEADER /\ term l4 = 3 /\ votes l4 = 2 /\ others l4 = [1; 2] /\ voted l1 = Some 4.
Proof.
  do 8 eexists.
  split; [vm_compute; reflexivity|]. split; [vm_compute; reflexivity|]. split; [vm_compute; reflexivity|].
  split; [vm_compute; reflexivity|]. split; [vm_compute; reflexivity|].
  split; [vm_compute; reflexivity|]. split; [vm_compute; reflexivity|]. split; [vm_compute; reflexivity|].
  split; [vm_compute; reflexivity|]. split; [vm_compute; reflexivity|].
  vm_compute. repeat split; reflexivity.
Qed.

(* the theorems apply to the run *)
Example tm_sms_instance :
  forall g n1 n2 i, run_trace tm_conf ginit tm_trace = Some g ->
    aget 1 (nodes g) = Some n1 -> aget 2 (nodes g) = Some n2 -> 1 <= i -> i <= commit n1 -> i <= commit n2 ->
    exists ea eb, nth_error (log n1) (N.to_nat i - 1) = Some ea /\ nth_error (log n2) (N.to_nat i - 1) = Some eb /\
                  esim ea eb /\ eidx ea = i.
Proof.
  intros g n1 n2 i Hr H1 H2.
  destruct tm_in_fragment as (A & B & C & D & F).
  apply (TierCM_state_machine_safety tm_conf tm_V tm_trace g 1 2 n1 n2 i A B C D F Hr H1 H2); reflexivity.
Qed.

Example tm_one_leader_instance :
  forall g a b xa xb, run_trace tm_conf ginit tm_traceJ = Some g ->
    aget a (nodes g) = Some xa -> aget b (nodes g) = Some xb -> a < RO_BASE -> b < RO_BASE ->
    role xa = LEADER -> role xb = LEADER -> term xa = term xb -> a = b.
Proof.
  intros g a b xa xb Hr. destruct tmJ_in_fragment as (A & B & C & D & F).
  apply (TierCM_one_leader_per_term tm_conf tm_V tm_traceJ g a b xa xb A B C D F Hr).
Qed.

(* the removed node 3 never receives its own removal (the leader stops sending to it), so it stays a
   member by its own log: when it later runs into its election timeout and disturbs the cluster,
   the run is still inside the fragment (the per-tick check [tg_ok] only excludes a timeout of a node
   whose OWN log says it is not a member) *)
Example tm_removed_node_may_time_out :
  core_fragM tm_conf tm_V (tm_trace ++ [tmT 200 3]).
Proof. repeat split; vm_compute; reflexivity. Qed.

(* what the fragment excludes (AbstractM's D4, "tguard"): a new voter that runs into its election
   timeout before its own addition is in its log - the per-tick check rejects the run *)
Example tm_early_timeout_of_a_joiner_not_in_fragment :
  run_okM tm_conf tm_V ginit (tm_trace ++ [ERestart 4 [1;2;3] 150 0 1; EConnect 4 1; tmT 200 4]) = false /\
  run_okM tm_conf tm_V ginit (tm_trace ++ [ERestart 4 [1;2;3] 150 0 1; EConnect 4 1]) = true.
Proof. split; vm_compute; reflexivity. Qed.
