(* C20, part C: global statements (steps of the network). *)
From Coq Require Import ZArith NArith List Bool Lia ZifyBool ZifyN.
From RecordUpdate Require Import RecordSet.
From PSO Require Import Raft.Types Raft.Node Raft.Net.
From PSO Require Import Raft.ProofsReadonlyFrames Raft.ProofsReadonlyA Raft.ProofsReadonlyB.
From PSO Require Import Raft.ProofsFallbackA Raft.ProofsFallbackB.
Import ListNotations.
Import RecordSetNotations.
Open Scope N_scope.

Definition ev_time (ev : event) : Z :=
  match ev with
  | ETick _ now _ _ _ _ => now
  | EDeliver _ _ now _ _ => now
  | _ => 0%Z
  end.

(* the three ways a last-response time can appear *)
Definition resp_source (g : gstate) (ev : event) (L : nid) (n : node) (s : S) (x : nid) (v : Z) : Prop :=
  ((ev_time ev <= v <= tnow s)%Z /\
   ((exists o, In (Role o LEADER) (outs s)) \/ In (TAdd x) (outs s))) \/
  (exists now rnd ord t nx r su rest,
     ev = EDeliver x L now rnd ord /\ chan_get x L g = NextIdx t nx r su :: rest /\
     role n = LEADER /\ t = term n /\ v = now).

Lemma lrs_start_source : forall g ev L e n s x v,
  lrs (start_S e n) s -> t0 e = ev_time ev -> aget x (last_resp (nd s)) = Some v ->
  aget x (last_resp n) = Some v \/ resp_source g ev L n s x v.
Proof.
  intros g ev L e n s x v (ex & O & T & Lr) Ht H. cbn in O, T. subst ex.
  destruct (Lr x v H) as [H1 | (H1 & H2)]; [left; exact H1|].
  right. left. cbn in H2. rewrite <- Ht. split; [exact H2|]. destruct H1; auto.
Qed.

Theorem C20_last_resp_sound_thm : forall c g ev g' L s n,
  (0 <= period c)%Z ->
  gstep c g ev = Some (g', Some (L, s)) -> aget L (nodes g) = Some n ->
  (forall oth now rnd sv, ev <> ERestart L oth now rnd sv) ->
  forall x v, aget x (last_resp (nd s)) = Some v ->
    aget x (last_resp n) = Some v \/ resp_source g ev L n s x v.
Proof.
  intros c g ev g' L s n Hp H Hx Hev x v Hv.
  destruct (gstep_inv _ _ _ _ _ H) as [[E _] | (x' & pre & s' & E & Hn & En)]; [discriminate|].
  inversion E; subst x' s'. destruct pre as [n'|].
  2:{ destruct (nstep_fresh _ _ _ _ _ Hn) as (oth & now & rnd & sv & Eev & _). exfalso; eapply Hev; eauto. }
  pose proof (nstep_pre _ _ _ _ _ _ Hn) as Hx'. rewrite Hx in Hx'. inversion Hx'; subst n'.
  inversion Hn; subst.
  - eapply lrs_start_source; [apply lrs_on_tick; exact Hp | reflexivity | exact Hv].
  - destruct (is_next_idx m) eqn:Em.
    + destruct m as [| | | | | | |t nx r su]; try discriminate Em.
      destruct (next_idx_last_resp (mk_env c now rnd DEFAULT_BUDGET ord 0) a t nx r su n) as (_ & _ & [A | (A1 & A2 & A3)]).
      * left. rewrite <- A. exact Hv.
      * rewrite A3 in Hv. destruct (N.eq_dec x a) as [->|Hne].
        -- rewrite aget_aset_same in Hv. cbn in Hv. inversion Hv; subst v. right. right.
           exists now, rnd, ord, t, nx, r, su, rest. repeat split; auto.
        -- rewrite aget_aset_other in Hv; auto.
    + eapply lrs_start_source; [apply lrs_on_message; [exact Hp | exact Em] | reflexivity | exact Hv].
  - left. cbn in Hv. unfold on_disconnected in Hv. destruct (RO_BASE <=? b); exact Hv.
  - left. cbn in Hv. unfold on_connected in Hv. destruct (RO_BASE <=? b); exact Hv.
  - eapply lrs_start_source; [apply (fr_lrs true); apply fr_api_submit | reflexivity | exact Hv].
  - eapply lrs_start_source; [apply (fr_lrs true); apply fr_api_admin | reflexivity | exact Hv].
  - eapply lrs_start_source; [apply (fr_lrs true); apply fr_api_setver | reflexivity | exact Hv].
  - left. exact Hv.
Qed.

(* ================= a leader cut off from every voter ================= *)
Definition cut_inv (n0 n : node) : Prop :=
  need_load n = false /\ others n = others n0 /\
  (role n = LEADER ->
   forall x, In x (others n0) ->
     aget x (match_idx n) = aget x (match_idx n0) /\ aget x (last_resp n) = aget x (last_resp n0)).

Lemma counts_pw : forall a b,
  others a = others b ->
  (forall x, In x (others b) -> aget x (match_idx a) = aget x (match_idx b) /\ aget x (last_resp a) = aget x (last_resp b)) ->
  match_missing a = match_missing b /\ resp_missing a = resp_missing b /\
  (forall k, match_count k a = match_count k b) /\ (forall dl, fresh_count dl a = fresh_count dl b) /\
  (forall k, majority k a = majority k b).
Proof.
  intros a b Ho Hp. unfold match_missing, resp_missing, match_count, fresh_count. rewrite Ho.
  split; [apply existsb_ext_in; intros x Hx; destruct (Hp x Hx) as (-> & _); reflexivity|].
  split; [apply existsb_ext_in; intros x Hx; destruct (Hp x Hx) as (_ & ->); reflexivity|].
  split; [intros k; f_equal; f_equal; apply filter_len_ext_in; intros x Hx; destruct (Hp x Hx) as (-> & _); reflexivity|].
  split; [intros k; f_equal; f_equal; apply filter_len_ext_in; intros x Hx; destruct (Hp x Hx) as (_ & ->); reflexivity|].
  intros k; apply majority_others; exact Ho.
Qed.

Lemma majority_one : forall n, others n <> [] -> majority 1 n = false.
Proof. intros n H; unfold majority. destruct (others n); [contradiction|]. cbn [length]. apply N.ltb_ge. lia. Qed.

Lemma fresh_count_stale : forall dl n,
  resp_missing n = false ->
  (forall x v, In x (others n) -> aget x (last_resp n) = Some v -> (v <= dl)%Z) ->
  fresh_count dl n = 1.
Proof.
  intros dl n _ H. unfold fresh_count.
  assert (filter (fun x => match aget x (last_resp n) with Some t => (dl <? t)%Z | None => false end) (others n) = []) as ->.
  { induction (others n) as [|a l IH]; cbn; [reflexivity|].
    destruct (aget a (last_resp n)) as [v|] eqn:E.
    - assert (v <= dl)%Z as Hv by (apply (H a v); [left; reflexivity | exact E]).
      destruct (dl <? v)%Z eqn:E2; [apply Z.ltb_lt in E2; lia|]. apply IH. intros x w Hx; apply H; right; exact Hx.
    - apply IH. intros x w Hx; apply H; right; exact Hx. }
  reflexivity.
Qed.

(* one step of L that is not a delivery and emits no TAdd/TDrop *)
Lemma cut_nstep : forall c g ev L n s n0,
  conf_period_ok c -> nstep c g ev L (Some n) s ->
  (forall a now rnd ord, ev <> EDeliver a L now rnd ord) -> Forall nomem (outs s) ->
  others n0 <> [] -> Forall (fun x => x < RO_BASE) (others n0) -> cut_inv n0 n ->
  cut_inv n0 (nd s) /\ (role n <> LEADER -> role (nd s) <> LEADER) /\
  (commit (nd s) = commit n \/
   (role n = LEADER /\ commit n < commit (nd s) /\ majority (match_count (commit (nd s)) n0) n0 = true)).
Proof.
  intros c g ev L n s n0 Hp Hn Hnd Hout Hne Hro (I1 & I2 & I3).
  assert (majority 1 n = false) as Hm1 by (apply majority_one; rewrite I2; exact Hne).
  assert (forall s', Forall nomem (outs s') -> fr true (start_S (mk_env c 0 0 DEFAULT_BUDGET [] 0) n) s' ->
            cut_inv n0 (nd s') /\ (role n <> LEADER -> role (nd s') <> LEADER) /\
            (commit (nd s') = commit n \/
             (role n = LEADER /\ commit n < commit (nd s') /\ majority (match_count (commit (nd s')) n0) n0 = true))) as HFR.
  { intros s' Ho F. pose proof F as (ex & O & _ & C & M & _ & _ & Nl & _).
    cbn in O. rewrite O in Ho. pose proof (M eq_refl Ho) as M'. cbn in M', C, Nl. unfold mem_part in M'. injection M' as M1 M2 M3 M4.
    destruct (core_fields _ _ C) as (_ & R & _).
    split; [|split; [rewrite R; auto | left; exact M4]].
    split; [auto|]. split; [congruence|]. rewrite R, M2, M3. exact I3. }
  inversion Hn; subst.
  - (* tick *)
    destruct (cut_tick (mk_env c now rnd bud ord sl) n Hp I1 Hm1 Hout) as (A1 & A2 & A3 & A4).
    unfold mem3 in A1. injection A1 as B1 B2 B3.
    split; [|split; [exact A3|]].
    + split; [exact A2|]. split; [congruence|]. intros Hl' x Hx.
      rewrite B2, B3.
      destruct (N.eq_dec (role n) LEADER) as [Hl | Hl]; [apply (I3 Hl x Hx)|].
      exfalso. apply (A3 Hl). exact Hl'.
    + destruct A4 as [A4 | (A4 & A5 & A6)]; [left; exact A4|]. right. split; [exact A4|]. split; [exact A5|].
      destruct (counts_pw n n0 I2 (I3 A4)) as (_ & _ & Q1 & _ & Q2). rewrite <- Q1, <- Q2. exact A6.
  - exfalso. eapply Hnd; reflexivity.
  - cbn. unfold on_disconnected. destruct (RO_BASE <=? b) eqn:Eb; cbn.
    + split; [|split; [auto | left; reflexivity]].
      split; [exact I1|]. split; [exact I2|]. intros Hl x Hx. destruct (I3 Hl x Hx) as (J1 & J2).
      split; [|exact J2]. change (aget x (adel b (match_idx n)) = aget x (match_idx n0)). rewrite aget_adel_other; [exact J1|].
      rewrite Forall_forall in Hro. specialize (Hro x Hx). apply N.leb_le in Eb. lia.
    + split; [|split; [auto | left; reflexivity]]. split; [exact I1|]. split; [exact I2 | exact I3].
  - cbn. unfold on_connected. destruct (RO_BASE <=? b) eqn:Eb; cbn.
    + split; [|split; [auto | left; reflexivity]].
      split; [exact I1|]. split; [exact I2|]. intros Hl x Hx. destruct (I3 Hl x Hx) as (J1 & J2).
      split; [|exact J2]. change (aget x (aset b 0 (match_idx n)) = aget x (match_idx n0)). rewrite aget_aset_other; [exact J1|].
      rewrite Forall_forall in Hro. specialize (Hro x Hx). apply N.leb_le in Eb. lia.
    + split; [|split; [auto | left; reflexivity]]. split; [exact I1|]. split; [exact I2 | exact I3].
  - apply HFR; [exact Hout | apply fr_api_submit].
  - apply HFR; [exact Hout | apply fr_api_admin].
  - apply HFR; [exact Hout | apply fr_api_setver].
  - cbn. split; [split; [exact I1 | split; [exact I2 | exact I3]]|]. split; [auto | left; reflexivity].
Qed.

(* ---- runs ---- *)
Fixpoint steps_sat (P : gstate -> event -> option (nid * S) -> Prop) (c : conf) (g : gstate) (evs : list event) : Prop :=
  match evs with
  | [] => True
  | ev :: r =>
    match gstep c g ev with
    | Some (g', res) => P g ev res /\ steps_sat P c g' r
    | None => True
    end
  end.

(* L keeps running, receives nothing, and its membership does not change *)
Definition cut_quiet (L : nid) (g : gstate) (ev : event) (r : option (nid * S)) : Prop :=
  ev <> EKill L /\
  forall s, r = Some (L, s) ->
    (forall a now rnd ord, ev <> EDeliver a L now rnd ord) /\
    (forall oth now rnd sv, ev <> ERestart L oth now rnd sv) /\
    Forall nomem (outs s).

Lemma run_app : forall c evs1 evs2 g g',
  run c g (evs1 ++ evs2) = Some g' <->
  exists g1, run c g evs1 = Some g1 /\ run c g1 evs2 = Some g'.
Proof.
  intros c evs1; induction evs1 as [|ev evs1 IH]; intros evs2 g g'; cbn.
  - split; [intros H; eauto | intros (g1 & H1 & H2); inversion H1; subst; exact H2].
  - destruct (gstep c g ev) as [[g1 r]|]; [apply IH|].
    split; [discriminate | intros (g1 & H1 & _); discriminate].
Qed.

Lemma steps_sat_app : forall P c evs1 evs2 g g1,
  run c g evs1 = Some g1 ->
  (steps_sat P c g (evs1 ++ evs2) <-> steps_sat P c g evs1 /\ steps_sat P c g1 evs2).
Proof.
  intros P c evs1; induction evs1 as [|ev evs1 IH]; intros evs2 g g1 H; cbn in *.
  - inversion H; subst. tauto.
  - destruct (gstep c g ev) as [[g2 r]|]; [|discriminate].
    rewrite (IH evs2 g2 g1 H). tauto.
Qed.

Definition commit_ok (bnd : option N) (n : node) : Prop :=
  match bnd with None => True | Some K => commit n <= K end.

Definition bound_ok (bnd : option N) (n0 : node) : Prop :=
  match bnd with None => True | Some K => forall j, K < j -> majority (match_count j n0) n0 = false end.

Lemma cut_gstep : forall c L n0 bnd g ev g' r n,
  conf_period_ok c -> others n0 <> [] -> Forall (fun x => x < RO_BASE) (others n0) -> bound_ok bnd n0 ->
  gstep c g ev = Some (g', r) -> cut_quiet L g ev r ->
  aget L (nodes g) = Some n -> cut_inv n0 n -> commit_ok bnd n ->
  exists n', aget L (nodes g') = Some n' /\ cut_inv n0 n' /\ commit_ok bnd n' /\
             (role n <> LEADER -> role n' <> LEADER) /\
             (forall now rnd bud ord sl, ev = ETick L now rnd bud ord sl ->
                n' = nd (on_tick (mk_env c now rnd bud ord sl) n)).
Proof.
  intros c L n0 bnd g ev g' r n Hp Hne Hro HK H (Q1 & Q2) Hx HI HC.
  destruct (gstep_inv _ _ _ _ _ H) as [[E [En | (k & Ek & En)]] | (x & pre & s & E & Hn & En)].
  - exists n. rewrite En. split; [exact Hx|]. split; [exact HI|]. split; [exact HC|]. split; [auto|].
    intros now rnd bud ord sl Eev. subst ev r. cbn in H. rewrite Hx in H. discriminate H.
  - exists n. rewrite En. assert (k <> L) as Hk by (intros ->; apply Q1; exact Ek).
    rewrite aget_adel_other by auto. split; [exact Hx|]. split; [exact HI|]. split; [exact HC|]. split; [auto|].
    intros; subst ev; discriminate.
  - destruct (N.eq_dec x L) as [->|Hxl].
    + destruct (Q2 s E) as (D1 & D2 & D3).
      destruct pre as [n'|].
      2:{ destruct (nstep_fresh _ _ _ _ _ Hn) as (oth & now & rnd & sv & Eev & _). exfalso; eapply D2; eauto. }
      pose proof (nstep_pre _ _ _ _ _ _ Hn) as Hx'. rewrite Hx in Hx'. inversion Hx'; subst n'.
      destruct (cut_nstep _ _ _ _ _ _ n0 Hp Hn D1 D3 Hne Hro HI) as (A1 & A2 & A3).
      exists (nd s). rewrite En, aget_aset_same. split; [reflexivity|]. split; [exact A1|].
      split.
      { destruct bnd as [K|]; [|exact I]. cbn in *. destruct A3 as [-> | (_ & B1 & B2)]; [exact HC|].
        destruct (N.le_gt_cases (commit (nd s)) K) as [Hle | Hgt]; [exact Hle|].
        rewrite (HK _ Hgt) in B2. discriminate B2. }
      split; [exact A2|].
      intros now rnd bud ord sl Eev. subst ev. inversion Hn; subst. reflexivity.
    + exists n. rewrite En, aget_aset_other by auto. split; [exact Hx|]. split; [exact HI|]. split; [exact HC|]. split; [auto|].
      intros now rnd bud ord sl Eev. subst ev. inversion Hn; subst. contradiction.
Qed.

Lemma cut_run : forall c L n0 bnd evs g g' n,
  conf_period_ok c -> others n0 <> [] -> Forall (fun x => x < RO_BASE) (others n0) -> bound_ok bnd n0 ->
  aget L (nodes g) = Some n -> cut_inv n0 n -> commit_ok bnd n ->
  steps_sat (cut_quiet L) c g evs -> run c g evs = Some g' ->
  exists n', aget L (nodes g') = Some n' /\ cut_inv n0 n' /\ commit_ok bnd n' /\
             (role n <> LEADER -> role n' <> LEADER).
Proof.
  intros c L n0 bnd evs; induction evs as [|ev evs IH]; intros g g' n Hp Hne Hro HK Hx HI HC HS HR; cbn in *.
  - inversion HR; subst. exists n; auto.
  - destruct (gstep c g ev) as [[g1 r]|] eqn:E; [|discriminate]. destruct HS as (HQ & HS).
    destruct (cut_gstep _ _ _ _ _ _ _ _ _ Hp Hne Hro HK E HQ Hx HI HC) as (n1 & X1 & I1 & C1 & R1 & _).
    destruct (IH g1 g' n1 Hp Hne Hro HK X1 I1 C1 HS HR) as (n' & X2 & I2 & C2 & R2).
    exists n'. split; [exact X2|]. split; [exact I2|]. split; [exact C2|]. auto.
Qed.

(* C20_bound *)
Theorem C20_bound_thm : forall c g0 L n0 t0 evs1 now rnd bud ord sl evs2 g,
  (0 <= period c)%Z ->
  aget L (nodes g0) = Some n0 -> role n0 = LEADER -> need_load n0 = false ->
  others n0 <> [] -> Forall (fun x => x < RO_BASE) (others n0) ->
  match_missing n0 = false -> resp_missing n0 = false ->
  (forall x v, In x (others n0) -> aget x (last_resp n0) = Some v -> (v <= t0)%Z) ->
  (t0 + fallback c < now)%Z ->
  steps_sat (cut_quiet L) c g0 (evs1 ++ ETick L now rnd bud ord sl :: evs2) ->
  run c g0 (evs1 ++ ETick L now rnd bud ord sl :: evs2) = Some g ->
  exists n, aget L (nodes g) = Some n /\ role n <> LEADER.
Proof.
  intros c g0 L n0 t0 evs1 now rnd bud ord sl evs2 g Hp Hx Hr Hn Hne Hro Hmm Hrm Hold Hnow HS HR.
  apply run_app in HR as (g1 & R1 & R2).
  destruct (proj1 (steps_sat_app (cut_quiet L) c evs1 (ETick L now rnd bud ord sl :: evs2) g0 g1 R1) HS) as (HS1 & HS2).
  assert (cut_inv n0 n0) as HI0 by (split; [exact Hn | split; [reflexivity | auto]]).
  destruct (cut_run c L n0 None evs1 g0 g1 n0 Hp Hne Hro I Hx HI0 I HS1 R1) as (n1 & X1 & I1 & _ & _).
  cbn [run steps_sat] in R2, HS2. destruct (gstep c g1 (ETick L now rnd bud ord sl)) as [[g2 r]|] eqn:E; [|discriminate].
  destruct HS2 as (Q2 & HS2).
  destruct (cut_gstep c L n0 None _ _ _ _ _ Hp Hne Hro I E Q2 X1 I1 I) as (n2 & X2 & I2 & _ & RR & ET).
  assert (role n2 <> LEADER) as Hn2.
  { destruct (N.eq_dec (role n1) LEADER) as [Hl | Hl]; [|auto].
    rewrite (ET _ _ _ _ _ eq_refl).
    destruct I1 as (J1 & J2 & J3).
    destruct (counts_pw n1 n0 J2 (J3 Hl)) as (P1 & P2 & _ & P4 & P5).
    destruct (C20_tick_steps_down_thm (mk_env c now rnd bud ord sl) n1 Hp Hl J1) as (A & _).
    - rewrite P1; exact Hmm.
    - rewrite P2; exact Hrm.
    - rewrite P4, P5, (fresh_count_stale _ n0 Hrm); [apply majority_one; exact Hne|].
      intros x v Hin Hv. specialize (Hold x v Hin Hv). cbn. lia.
    - rewrite A; discriminate. }
  destruct (cut_run c L n0 None evs2 g2 g n2 Hp Hne Hro I X2 I2 I HS2 R2) as (n3 & X3 & _ & _ & R3).
  exists n3. auto.
Qed.

(* C20_no_commit_when_cut: the commit index of the cut-off leader stays below any K beyond which its
   (frozen) matchIndex has no majority *)
Theorem C20_no_commit_when_cut_thm : forall c g0 L n0 K evs g,
  (0 <= period c)%Z ->
  aget L (nodes g0) = Some n0 -> role n0 = LEADER -> need_load n0 = false ->
  others n0 <> [] -> Forall (fun x => x < RO_BASE) (others n0) ->
  commit n0 <= K -> (forall j, K < j -> majority (match_count j n0) n0 = false) ->
  steps_sat (cut_quiet L) c g0 evs -> run c g0 evs = Some g ->
  exists n, aget L (nodes g) = Some n /\ commit n <= K /\
            (role n = LEADER -> forall x, In x (others n0) -> aget x (match_idx n) = aget x (match_idx n0)).
Proof.
  intros c g0 L n0 K evs g Hp Hx Hr Hn Hne Hro HC HK HS HR.
  assert (cut_inv n0 n0) as HI0 by (split; [exact Hn | split; [reflexivity | auto]]).
  destruct (cut_run c L n0 (Some K) evs g0 g n0 Hp Hne Hro HK Hx HI0 HC HS HR) as (n1 & X1 & (_ & _ & I1) & C1 & _).
  exists n1. split; [exact X1|]. split; [exact C1|]. intros Hl x Hin. apply (I1 Hl x Hin).
Qed.
