(* C20: final statements over Obs.run_trace, and examples. *)
From Coq Require Import ZArith NArith List Bool Lia ZifyBool ZifyN.
From RecordUpdate Require Import RecordSet.
From PSO Require Import Raft.Types Raft.Node Raft.Net Raft.Obs.
From PSO Require Import Raft.ProofsReadonlyFrames Raft.ProofsReadonlyA Raft.ProofsReadonlyB.
From PSO Require Import Raft.ProofsReadonlyD Raft.ProofsReadonlyE Raft.ProofsReadonlyFinal.
From PSO Require Import Raft.ProofsFallbackA Raft.ProofsFallbackB Raft.ProofsFallbackC Raft.ProofsFallbackInv.
Import ListNotations.
Import RecordSetNotations.
Open Scope N_scope.


(* C20_bound: L is leader in g0 when its clock shows at most t0 (all its last-response times are
   <= t0); afterwards it runs (ticks, connects, disconnects, API calls) but no message is delivered to
   it and its membership does not change; then after the first tick with now > t0 + fallback — and
   for the rest of the run — it is not leader.  All cluster sizes >= 2, every fallback value. *)
Theorem C20_bound_final : forall c g0 L n0 t0 evs1 now rnd bud ord sl evs2 g,
  (0 <= period c)%Z ->
  aget L (nodes g0) = Some n0 -> role n0 = LEADER -> need_load n0 = false ->
  others n0 <> [] -> Forall (fun x => x < RO_BASE) (others n0) ->
  match_missing n0 = false -> resp_missing n0 = false ->
  (forall x v, In x (others n0) -> aget x (last_resp n0) = Some v -> (v <= t0)%Z) ->
  (t0 + fallback c < now)%Z ->
  steps_sat (cut_quiet L) c g0 (evs1 ++ ETick L now rnd bud ord sl :: evs2) ->
  run_trace c g0 (evs1 ++ ETick L now rnd bud ord sl :: evs2) = Some g ->
  exists n, aget L (nodes g) = Some n /\ role n <> LEADER.
Proof. intros until g. rewrite run_trace_is_run. apply C20_bound_thm. Qed.

(* full statement of "never acknowledges a command while cut off" *)
Definition C20_no_commit_when_cut_full : Prop :=
  forall c g0 L n0 evs g,
  (0 <= period c)%Z ->
  aget L (nodes g0) = Some n0 -> role n0 = LEADER -> need_load n0 = false ->
  others n0 <> [] -> Forall (fun x => x < RO_BASE) (others n0) ->
  (forall x m, In x (others n0) -> aget x (match_idx n0) = Some m -> m <= last_idx (log n0)) ->
  majority 1 n0 = false ->
  steps_sat (cut_quiet L) c g0 evs -> run_trace c g0 evs = Some g ->
  (* no step of L in the run fires SUCCESS for a callback of a command whose entry index is beyond
     the last index of L's log in g0 *)
  steps_sat (fun g ev r => forall s, r = Some (L, s) ->
               forall cb res, In (Fired cb res SUCCESS) (outs s) ->
               exists n k, aget L (nodes g) = Some n /\ In k (map fst (wait_commit n)) /\ k <= last_idx (log n0))
            c g0 evs.

(* proved part: the commit index of L never passes an index K beyond which the frozen matchIndex
   has no majority (self included), and matchIndex stays frozen on the members while L leads *)
Theorem C20_no_commit_when_cut_partial_final : forall c g0 L n0 K evs g,
  (0 <= period c)%Z ->
  aget L (nodes g0) = Some n0 -> role n0 = LEADER -> need_load n0 = false ->
  others n0 <> [] -> Forall (fun x => x < RO_BASE) (others n0) ->
  commit n0 <= K -> (forall j, K < j -> majority (match_count j n0) n0 = false) ->
  steps_sat (cut_quiet L) c g0 evs -> run_trace c g0 evs = Some g ->
  exists n, aget L (nodes g) = Some n /\ commit n <= K /\
            (role n = LEADER -> forall x, In x (others n0) -> aget x (match_idx n) = aget x (match_idx n0)).
Proof. intros until g. rewrite run_trace_is_run. apply C20_no_commit_when_cut_thm. Qed.

(* one leader phase: the new commit index is the old one or an index matched by a majority *)
Theorem C20_commit_needs_majority : forall e s,
  commit (nd (tick_leader e s)) = commit (nd s) \/
  (role (nd s) = LEADER /\ commit (nd s) < commit (nd (tick_leader e s)) /\
   majority (match_count (commit (nd (tick_leader e s))) (nd s)) (nd s) = true).
Proof. intros e s. destruct (tick_leader_mem e s) as (_ & _ & _ & _ & H). exact H. Qed.

(* ---- the same bound from a reachable state: two state hypotheses are invariants ---- *)
Lemma reachable_by_weaken : forall (V W : event -> Prop) c g,
  (forall ev, V ev -> W ev) -> reachable_by V c g -> reachable_by W c g.
Proof.
  intros V W c g H (evs & HV & HR). exists evs. split; [|exact HR].
  rewrite Forall_forall in *. auto.
Qed.

Theorem C20_bound_reachable_final : forall c g0 L n0 t0 evs1 now rnd bud ord sl evs2 g,
  (0 <= period c)%Z -> reach voters_named_below_RO_BASE c g0 ->
  aget L (nodes g0) = Some n0 -> role n0 = LEADER ->
  others n0 <> [] -> match_missing n0 = false -> resp_missing n0 = false ->
  (forall x v, In x (others n0) -> aget x (last_resp n0) = Some v -> (v <= t0)%Z) ->
  (t0 + fallback c < now)%Z ->
  steps_sat (cut_quiet L) c g0 (evs1 ++ ETick L now rnd bud ord sl :: evs2) ->
  run_trace c g0 (evs1 ++ ETick L now rnd bud ord sl :: evs2) = Some g ->
  exists n, aget L (nodes g) = Some n /\ role n <> LEADER.
Proof.
  intros c g0 L n0 t0 evs1 now rnd bud ord sl evs2 g Hp Hr Hx Hl Hne Hmm Hrm Hold Hnow HS HR.
  apply reach_reachable_by in Hr.
  assert (reachable c g0) as Hr' by (eapply reachable_by_weaken; [|exact Hr]; intros; exact I).
  assert (need_load n0 = false) as Hn by (eapply leader_has_ticked; eauto; rewrite Hl; discriminate).
  assert (Forall (fun x => x < RO_BASE) (others n0)) as Hro.
  { pose proof (g_ok_node _ _ _ (g_ok_reachable _ _ Hr) Hx) as (Ho & _). exact Ho. }
  eapply C20_bound_final; eauto.
Qed.

(* ---- a decidable check of the run hypothesis, for examples ---- *)
Definition quiet_ev_b (L : nid) (ev : event) : bool :=
  match ev with
  | EKill n => negb (n =? L)
  | EDeliver _ b _ _ _ => negb (b =? L)
  | ERestart n _ _ _ _ => negb (n =? L)
  | _ => true
  end.

Definition nomem_b (o : out) : bool := match o with TAdd _ | TDrop _ => false | _ => true end.

Fixpoint quiet_run_b (L : nid) (c : conf) (g : gstate) (evs : list event) : bool :=
  match evs with
  | [] => true
  | ev :: r =>
    match gstep c g ev with
    | Some (g', res) =>
      quiet_ev_b L ev &&
      match res with Some (x, s) => if x =? L then forallb nomem_b (outs s) else true | None => true end &&
      quiet_run_b L c g' r
    | None => true
    end
  end.

Lemma quiet_run_b_sound : forall L c evs g, quiet_run_b L c g evs = true -> steps_sat (cut_quiet L) c g evs.
Proof.
  intros L c evs; induction evs as [|ev evs IH]; intros g H; cbn [steps_sat quiet_run_b] in *; [exact I|].
  destruct (gstep c g ev) as [[g' res]|] eqn:E; [|exact I].
  apply andb_true_iff in H as (H & H3). apply andb_true_iff in H as (H1 & H2).
  split; [|apply IH; exact H3].
  split.
  - intros ->. cbn in H1. rewrite N.eqb_refl in H1. discriminate H1.
  - intros s ->. rewrite N.eqb_refl in H2.
    split; [intros a now rnd ord ->; cbn in H1; rewrite N.eqb_refl in H1; discriminate H1|].
    split; [intros oth now rnd sv ->; cbn in H1; rewrite N.eqb_refl in H1; discriminate H1|].
    rewrite forallb_forall in H2. apply Forall_forall. intros o Ho. specialize (H2 o Ho).
    destruct o; try exact I; discriminate H2.
Qed.

(* ================= Examples ================= *)
Definition xc : conf := mkConf 50 400 1000 1500 100 1000 true false true 5 1000 100 40 false false.

(* three voters; 0 is elected at clock 520 *)
Definition ex_boot : list event :=
  [ERestart 0 [1;2] 0 0 0; ERestart 1 [0;2] 0 500 0; ERestart 2 [0;1] 0 900 0;
   EConnect 0 1; EConnect 1 0; EConnect 0 2; EConnect 2 0; EConnect 1 2; EConnect 2 1;
   ETick 0 500 0 30 [] 0;
   EDeliver 0 1 510 100 []; EDeliver 0 2 510 100 [];
   EDeliver 1 0 520 0 []; EDeliver 2 0 525 0 []].

(* 0 is partitioned: it only ticks and takes a client command *)
Definition ex_cut1 : list event :=
  [ETick 0 600 0 30 [] 0; ETick 0 1000 0 30 [] 0; ESubmit 0 (mkCmd 0 7 0 10 30) 5;
   ETick 0 1500 0 30 [] 0; ETick 0 2000 0 30 [] 0].
Definition ex_cut2 : list event := [ETick 0 2100 0 30 [] 0].

Definition ex_g0 : gstate := match run_trace xc ginit ex_boot with Some g => g | None => ginit end.
Definition ex_n0 : node :=
  match aget 0 (nodes ex_g0) with Some n => n | None => init_node (mk_env xc 0 0 0 [] 0) None [] 0 end.

Example ex_boot_valid : Forall voters_named_below_RO_BASE ex_boot /\ run_trace xc ginit ex_boot = Some ex_g0.
Proof.
  split; [|vm_compute; reflexivity].
  repeat constructor; cbn; unfold vid; try exact I; try (repeat constructor; vm_compute; reflexivity).
Qed.

Example ex_state_hyps :
  aget 0 (nodes ex_g0) = Some ex_n0 /\ role ex_n0 = LEADER /\ need_load ex_n0 = false /\
  others ex_n0 = [1; 2] /\ match_missing ex_n0 = false /\ resp_missing ex_n0 = false /\
  last_resp ex_n0 = [(1, 520%Z); (2, 520%Z)] /\ match_idx ex_n0 = [(1, 0); (2, 0)] /\ commit ex_n0 = 1 /\
  last_idx (log ex_n0) = 2.
Proof. vm_compute. repeat split. Qed.

(* the hypotheses of C20_bound / C20_bound_reachable hold on this trace, and the conclusion is
   the (computed) fact that node 0 ends as CANDIDATE of term 2, not as LEADER *)
Example C20_bound_example :
  exists g n,
    run_trace xc ex_g0 (ex_cut1 ++ ETick 0 2030 0 30 [] 0 :: ex_cut2) = Some g /\
    steps_sat (cut_quiet 0) xc ex_g0 (ex_cut1 ++ ETick 0 2030 0 30 [] 0 :: ex_cut2) /\
    (520 + fallback xc < 2030)%Z /\
    (forall x v, In x (others ex_n0) -> aget x (last_resp ex_n0) = Some v -> (v <= 520)%Z) /\
    reach voters_named_below_RO_BASE xc ex_g0 /\
    aget 0 (nodes g) = Some n /\ role n = CANDIDATE /\ term n = 2 /\ commit n = 1 /\ last_idx (log n) = 3.
Proof.
  destruct (run_trace xc ex_g0 (ex_cut1 ++ ETick 0 2030 0 30 [] 0 :: ex_cut2)) as [g|] eqn:E; [|vm_compute in E; discriminate E].
  destruct (aget 0 (nodes g)) as [n|] eqn:En; [|vm_compute in E; inversion E; subst g; vm_compute in En; discriminate En].
  exists g, n. split; [reflexivity|].
  split; [apply quiet_run_b_sound; vm_compute; reflexivity|].
  split; [vm_compute; reflexivity|].
  split.
  { destruct ex_state_hyps as (_ & _ & _ & Ho & _ & _ & Hl & _). rewrite Ho, Hl.
    intros x v [<- | [<- | []]] Hv; vm_compute in Hv; inversion Hv; lia. }
  split; [exists ex_boot; apply ex_boot_valid|].
  split; [exact En|].
  vm_compute in E. inversion E; subst g. vm_compute in En. inversion En; subst n. vm_compute. repeat split.
Qed.

(* the local theorems on the same leader: at clock 2030 nobody answered within the last 1500 *)
Example C20_tick_steps_down_example :
  let e := mk_env xc 2030 0 30 [] 0 in
  period_ok e /\ role ex_n0 = LEADER /\ need_load ex_n0 = false /\ match_missing ex_n0 = false /\
  resp_missing ex_n0 = false /\ majority (fresh_count (t0 e - fallback (cf e))%Z ex_n0) ex_n0 = false /\
  role (nd (on_tick e ex_n0)) = FOLLOWER /\
  (* while at clock 2000 it still leads *)
  majority (fresh_count (2000 - fallback xc)%Z ex_n0) ex_n0 = true /\
  role (nd (on_tick (mk_env xc 2000 0 30 [] 0) ex_n0)) = LEADER.
Proof. vm_compute. repeat split; discriminate. Qed.

(* K = 1 for the commit bound: matchIndex of both peers is 0 *)
Example C20_no_commit_example :
  commit ex_n0 <= 1 /\ (forall j, 1 < j -> majority (match_count j ex_n0) ex_n0 = false).
Proof.
  split; [vm_compute; discriminate|].
  intros j Hj. unfold match_count, majority.
  destruct ex_state_hyps as (_ & _ & _ & Ho & _ & _ & _ & Hm & _). rewrite Ho, Hm. cbn.
  assert (j <=? 0 = false) as -> by (apply N.leb_gt; lia). cbn. reflexivity.
Qed.

(* the step in which 0 became leader: both last-response times are that step's clock *)
Example C20_last_resp_example :
  exists g g' s n,
    run_trace xc ginit (firstn 12 ex_boot) = Some g /\
    gstep xc g (EDeliver 1 0 520 0 []) = Some (g', Some (0, s)) /\ aget 0 (nodes g) = Some n /\
    last_resp n = [] /\ last_resp (nd s) = [(1, 520%Z); (2, 520%Z)] /\
    In (Role CANDIDATE LEADER) (outs s) /\ tnow s = 520%Z.
Proof.
  destruct (run_trace xc ginit (firstn 12 ex_boot)) as [g|] eqn:E; [|vm_compute in E; discriminate E].
  vm_compute in E. inversion E; subst g. clear E.
  eexists _, _, _, _. split; [reflexivity|].
  split; [vm_compute; reflexivity|]. split; [vm_compute; reflexivity|]. vm_compute. repeat split. left; reflexivity.
Qed.

(* hasQuorum on the example leader: connected to both peers *)
Example C20_hasQuorum_example : has_quorum ex_n0 = true /\ has_quorum (on_disconnected 1 (on_disconnected 2 ex_n0)) = false.
Proof. vm_compute. split; reflexivity. Qed.
