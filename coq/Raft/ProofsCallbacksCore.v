(* C02 x Tier C: in the core fragment (static membership, no dump file, no chunked entries, every
   voter started once, no compaction) a SUCCESS callback comes from an entry at an index <= commit of
   the firing voter, and that (index, entry) pair is what every voter holds at that index whenever
   its commit index has reached it, at every later moment of the run. *)
From Coq Require Import ZArith NArith List Bool Lia ZifyBool Arith PeanoNat.
From RecordUpdate Require Import RecordSet.
From PSO Require Import Raft.Types Raft.Node Raft.Net Raft.Obs Raft.ProofsCommitBase.
From PSO Require Import Raft.ProofsApplyBase Raft.ProofsApply Raft.ProofsApplyLog Raft.ProofsCallbacks Raft.ProofsCallbacks2.
From PSO Require Import Raft.ProofsElectionGhost.
From PSO Require Import Raft.RefineAbs Raft.RefineSim Raft.RefineMain Raft.RefineFinal.
From PSO Require Raft.ProofsCommitLog Raft.ProofsMembershipInv.
Import ListNotations.
Import RecordSetNotations.
Open Scope N_scope.

Ltac frs := intros; reflexivity.

(* ------------------------------------------------------------------------------------------ *)
(* logs of the core fragment                                                                  *)

Lemma wf1_prefix l a : wf1 (l ++ a) -> l <> [] -> wf1 l.
Proof.
  intros [_ H] Hne. split; [exact Hne|]. intros p e Hp. apply H.
  rewrite nth_error_app1; [exact Hp|]. apply nth_error_Some. congruence.
Qed.

Lemma consec_of_nth l k :
  (forall p e, nth_error l p = Some e -> eidx e = N.of_nat p + k) -> ProofsApplyLog.consec k l.
Proof.
  revert k. induction l as [|e l IH]; intros k H; cbn; [exact I|]. split.
  - specialize (H 0%nat e eq_refl). cbn in H. lia.
  - apply IH. intros p e' Hp. specialize (H (Datatypes.S p) e' Hp). lia.
Qed.

Lemma wf1_log_wf l : wf1 l -> ProofsApplyLog.log_wf l.
Proof.
  intros W. pose proof (wf1_first_idx l W) as F. destruct W as [Hne H]. split; [exact Hne|].
  rewrite F. apply consec_of_nth. exact H.
Qed.

Lemma wf1_nth l en : wf1 l -> In en l -> 1 <= eidx en /\ nth_error l (N.to_nat (eidx en) - 1) = Some en.
Proof.
  intros [_ H] Hin. apply In_nth_error in Hin. destruct Hin as [p Hp].
  pose proof (H p en Hp) as E. split; [lia|]. replace (N.to_nat (eidx en) - 1)%nat with p by lia. exact Hp.
Qed.

Section Core.
Variables (c : conf) (V : list nid).

Lemma core_node_wf1 evs1 evs2 g1 g2 a xa :
  core_frag c V (evs1 ++ evs2) -> run_trace c ginit evs1 = Some g1 -> run_trace c g1 evs2 = Some g2 ->
  aget a (nodes g1) = Some xa -> a < RO_BASE -> wf1 (log xa).
Proof.
  intros F R1 R2 Ha Hlt.
  destruct (run_GI2 c V evs1 evs2 g1 g2 F R1 R2) as (gh1 & st1 & s1 & _ & _ & _ & G1 & _ & _).
  pose proof (GI_node c V g1 gh1 st1 s1 G1 a xa Ha Hlt) as Ra.
  pose proof (GI_reach c V g1 gh1 st1 s1 G1) as HR.
  pose proof (S1.inv1_kreachable (absV V) s1 HR) as I1.
  pose proof (S1.I1_log _ I1 (n2 a)) as Hl. pose proof (S1.I1_ne _ I1 (n2 a)) as Hne.
  rewrite (Rn_log _ _ _ _ _ Ra) in Hl, Hne.
  eapply wf1_of_abs; eauto.
Qed.

(* a committed (index, entry) pair is what every voter holds there, from then on *)
Lemma committed_everywhere evsA evsB gA gB x xA i en :
  core_frag c V (evsA ++ evsB) -> run_trace c ginit evsA = Some gA -> run_trace c gA evsB = Some gB ->
  aget x (nodes gA) = Some xA -> x < RO_BASE -> 1 <= i -> i <= commit xA ->
  nth_error (log xA) (N.to_nat i - 1) = Some en ->
  forall b xb, aget b (nodes gB) = Some xb -> b < RO_BASE -> i <= commit xb ->
               nth_error (log xb) (N.to_nat i - 1) = Some en.
Proof.
  intros F RA RB Hx Hlt Hi1 Hi2 Hen b xb Hb Hbl Hcb.
  destruct (core_frag_facts c V _ F) as (ND & HV & HNE & _).
  destruct (run_GI2 c V evsA evsB gA gB F RA RB) as (ghA & stA & sA & ghB & stB & sB & GA & GB & K).
  pose proof (GI_node c V gA ghA stA sA GA x xA Hx Hlt) as RxA.
  pose proof (GI_node c V gB ghB stB sB GB b xb Hb Hbl) as Rb.
  pose proof (GI_reach c V gA ghA stA sA GA) as HRA. pose proof (GI_reach c V gB ghB stB sB GB) as HRB.
  destruct (stable_star V ND HV HNE sA sB (n2 x) HRA K) as [C Fx].
  rewrite (Rn_commit _ _ _ _ _ RxA) in C, Fx. rewrite (Rn_log _ _ _ _ _ RxA) in Fx.
  assert (Hnd : NoDup (absV V)) by (apply V'_nodup; auto).
  assert (Hne' : absV V <> nil) by (apply V'_ne; auto).
  destruct (S7.k_state_machine_safety (absV V) Hnd Hne' sB (n2 x) (n2 b) (N.to_nat i - 1)%nat HRB) as [E _].
  { assert (N.to_nat i <= N.to_nat (commit xA))%nat by lia. assert (1 <= N.to_nat i)%nat by lia. lia. }
  { rewrite (Rn_commit _ _ _ _ _ Rb). assert (N.to_nat i <= N.to_nat (commit xb))%nat by lia. assert (1 <= N.to_nat i)%nat by lia. lia. }
  rewrite (Rn_log _ _ _ _ _ Rb) in E.
  assert (E2 : nth_error (M.log (M.nodes sB (n2 x))) (N.to_nat i - 1) = nth_error (absL (pk c) (log xA)) (N.to_nat i - 1)).
  { apply (ML.firstn_eq_nth _ _ _ _ Fx). assert (N.to_nat i <= N.to_nat (commit xA))%nat by lia. assert (1 <= N.to_nat i)%nat by lia. lia. }
  rewrite E2 in E. apply nth_abs_inj in E. rewrite <- E. exact Hen.
Qed.

End Core.

(* ------------------------------------------------------------------------------------------ *)
(* a tick without compaction only appends to the log                                          *)

Definition grows (a b : node) : Prop :=
  pid (sr b) = pid (sr a) /\ exists added, log b = log a ++ added.

Lemma grows_refl a : grows a a.
Proof. split; [reflexivity|exists []; now rewrite app_nil_r]. Qed.
Lemma grows_trans a b d : grows a b -> grows b d -> grows a d.
Proof.
  intros [P1 [x1 L1]] [P2 [x2 L2]]. split; [congruence|]. exists (x1 ++ x2). now rewrite L2, L1, app_assoc.
Qed.
Lemma grows_same a b : sr b = sr a -> log b = log a -> grows a b.
Proof. intros H1 H2. split; [now rewrite H1|exists []; now rewrite H2, app_nil_r]. Qed.

Lemma pid_of_nkeeps a b : ProofsCommitLog.nkeeps a b -> pid (sr b) = pid (sr a).
Proof. intros (_ & H & _). exact H. Qed.

Lemma grows_tick_election e s : grows (nd s) (nd (tick_election e s)).
Proof.
  split; [apply pid_of_nkeeps, ProofsCommitLog.nkeeps_tick_election|].
  unfold tick_election. destruct (self (nd s)) as [me|]; [|exists []; now rewrite app_nil_r].
  destruct (_ && _); [|exists []; now rewrite app_nil_r].
  match goal with |- context [if majority _ (nd ?s1) then _ else _] => set (s2 := s1) end.
  assert (E : log (nd s2) = log (nd s)).
  { subst s2. rewrite (fr_on_leader_changed log) by frs.
    rewrite (fr_fold log) by (intros; now rewrite nd_send).
    rewrite nd_upd. cbn [log set]. rewrite (fr_set_role log) by frs. reflexivity. }
  clearbody s2. destruct (majority _ _).
  - destruct (ProofsMembershipInv.become_leader_p5 e s2) as (_ & _ & H & _). cbv zeta in H.
    eexists. rewrite H, E. reflexivity.
  - exists []. now rewrite E, app_nil_r.
Qed.

Lemma grows_check_loop f e st s : grows (nd s) (nd (check_loop f e st s)).
Proof.
  split; [apply pid_of_nkeeps, ProofsCommitLog.nkeeps_check_loop|].
  revert s. induction f as [|f IH]; intros s; cbn [check_loop]; [exists []; now rewrite app_nil_r|].
  destruct (_ <? _)%Z; [|exists []; now rewrite app_nil_r].
  assert (K : exists added, log (nd (match queue (nd s) with
            | [] => s
            | (c0, cbk) :: rest =>
              let s := upd (fun n => n <| queue := rest |>) s in
              let s := check_one e c0 cbk s in
              if ok s then check_loop f e st s else s end)) = log (nd s) ++ added).
  { destruct (queue (nd s)) as [|[c0 cbk] rest]; [exists []; now rewrite app_nil_r|]. cbv zeta.
    set (s1 := upd (fun n => n <| queue := rest |>) s).
    assert (K1 : exists added, log (nd (check_one e c0 cbk s1)) = log (nd s) ++ added).
    { destruct (ProofsCallbacks2.check_one_spec e c0 cbk s1) as (_ & _ & F & R & _ & _ & H). cbn zeta in H.
      destruct H as [(_ & H & _)|(H & _)]; rewrite H; [eexists; reflexivity|exists []; now rewrite app_nil_r]. }
    destruct (ok _); [|exact K1].
    destruct K1 as [a1 K1]. destruct (IH (check_one e c0 cbk s1)) as [a2 K2].
    exists (a1 ++ a2). now rewrite K2, K1, app_assoc. }
  destruct (leader (nd s)); [exact K|]. destruct (wait_leader (cf e)); [exists []; now rewrite app_nil_r|exact K].
Qed.

Lemma try_compact_idle e s : pid (sr (nd s)) = 0 -> log (nd (try_compact e s)) = log (nd s).
Proof.
  intros H. unfold try_compact. rewrite H. cbn [N.eqb negb].
  repeat (match goal with |- context [match ?x with _ => _ end] => destruct x end; cbn [nd upd log set]);
    reflexivity.
Qed.

Lemma grows_tick_pre e x0 :
  file_dump (cf e) = false -> grows x0 (nd (tick_pre e (start_S e x0))).
Proof.
  intros Hf. unfold tick_pre. change x0 with (nd (start_S e x0)) at 1.
  apply (andthen_rel grows); [apply grows_trans| |intros].
  { unfold tick_load. rewrite Hf, andb_false_r. apply grows_same; reflexivity. }
  apply (andthen_rel grows); [apply grows_trans| |intros].
  { apply grows_same; [apply (fr_tick_timer sr)|apply (fr_tick_timer log)]; frs. }
  apply (andthen_rel grows); [apply grows_trans|apply grows_tick_election|intros].
  apply grows_same; [apply (fr_tick_leader sr)|apply (fr_tick_leader log)]; frs.
Qed.

(* the whole tick, seen from the state in which the apply phase starts *)
Lemma tick_after_pre e x0 :
  file_dump (cf e) = false -> pid (sr x0) = 0 ->
  let s0 := tick_pre e (start_S e x0) in
  let s := on_tick e x0 in
  (exists a0, log (nd s0) = log x0 ++ a0) /\
  (exists a1, log (nd s) = log (nd s0) ++ a1) /\
  commit (nd s) = commit (nd s0).
Proof.
  intros Hf Hp. cbv zeta. destruct (grows_tick_pre e x0 Hf) as [P0 L0].
  split; [exact L0|]. rewrite Hp in P0.
  rewrite on_tick_split. cbv zeta.
  set (s0 := tick_pre e (start_S e x0)) in *.
  destruct (ok s0); [|split; [exists []; now rewrite app_nil_r|reflexivity]].
  assert (G1 : grows (nd s0) (nd (fst (apply_entries e s0))) /\
               commit (nd (fst (apply_entries e s0))) = commit (nd s0)).
  { split; [split|].
    - apply pid_of_nkeeps, ProofsCommitLog.nkeeps_apply_entries.
    - exists []. rewrite app_nil_r. apply (fr_apply_entries log); frs.
    - apply (fr_apply_entries commit); frs. }
  destruct G1 as [G1 C1]. set (s1 := fst (apply_entries e s0)) in *.
  destruct (ok s1); [|split; [apply G1|exact C1]].
  unfold tick_post. set (need := snd (apply_entries e s0)).
  assert (G3 : grows (nd s1) (nd ((tick_send e need ;; tick_ready ;; check_commands e) s1)) /\
               commit (nd ((tick_send e need ;; tick_ready ;; check_commands e) s1)) = commit (nd s1)).
  { split.
    - apply (andthen_rel grows); [apply grows_trans| |intros].
      { split; [apply pid_of_nkeeps, ProofsCommitLog.nkeeps_tick_send|].
        exists []. rewrite app_nil_r. apply (fr_tick_send log); frs. }
      apply (andthen_rel grows); [apply grows_trans| |intros].
      { apply grows_same; [apply (fr_tick_ready sr)|apply (fr_tick_ready log)]; frs. }
      unfold check_commands. apply grows_check_loop.
    - apply (andthen_rel (fun a b => commit b = commit a)); [congruence|apply (fr_tick_send commit); frs|intros].
      apply (andthen_rel (fun a b => commit b = commit a)); [congruence|apply (fr_tick_ready commit); frs|intros].
      apply (fr_check_commands commit); frs. }
  destruct G3 as [G3 C3].
  assert (Hshape : (tick_send e need ;; tick_ready ;; check_commands e ;; try_compact e) s1 =
                   ((tick_send e need ;; tick_ready ;; check_commands e) ;; try_compact e) s1).
  { rewrite !andthen_eq.
    destruct (ok (tick_send e need s1)) eqn:E1; [|now rewrite ?E1].
    destruct (ok (tick_ready _)) eqn:E2; [|now rewrite ?E2].
    destruct (ok (check_commands e _)) eqn:E3; now rewrite ?E3. }
  rewrite Hshape. rewrite andthen_eq.
  set (s3 := (tick_send e need ;; tick_ready ;; check_commands e) s1) in *.
  pose proof (grows_trans _ _ _ G1 G3) as G13.
  destruct (ok s3); [|split; [apply G13|congruence]].
  assert (P3 : pid (sr (nd s3)) = 0) by (destruct G13 as [P _]; congruence).
  split.
  - rewrite (try_compact_idle e s3 P3). apply G13.
  - rewrite (fr_try_compact commit) by frs. congruence.
Qed.

(* ------------------------------------------------------------------------------------------ *)
(* C02_success_is_committed_core                                                              *)

Lemma run_trace_snoc c g evs g1 ev g2 o :
  run_trace c g evs = Some g1 -> gstep c g1 ev = Some (g2, o) -> run_trace c g (evs ++ [ev]) = Some g2.
Proof.
  revert g. induction evs as [|e0 evs IH]; intros g H1 H2; cbn in *.
  - injection H1 as <-. now rewrite H2.
  - destruct (gstep c g e0) as [[g' r]|]; [|discriminate]. now apply IH.
Qed.

Lemma idle_run c g evs g' :
  run_ok c g evs = true -> nodes_idle g = true -> run_trace c g evs = Some g' -> nodes_idle g' = true.
Proof.
  revert g. induction evs as [|ev evs IH]; intros g Hok Hi Hr; cbn in *.
  - injection Hr as <-. exact Hi.
  - destruct (gstep c g ev) as [[g1 r]|]; [|discriminate].
    apply andb_true_iff in Hok as [_ Hok]. apply andb_true_iff in Hok as [Hi1 Hok]. eauto.
Qed.

Lemma not_final_success id r : ~ not_final (id, r, SUCCESS).
Proof. intros [H _]. apply H. reflexivity. Qed.

(* what is proved (the `_partial` form): the entry whose application fired the callback sits at an
   index <= commit of the firing voter, its subscription was recorded under the entry's own term, and
   that (index, entry) pair is what every voter holds there once its commit index has reached it, at
   every later state of the run *)
Theorem success_is_committed_core_partial :
  forall (c : conf) (V : list nid) (evs1 : list event) (ev : event) (evs2 : list event)
         (g1 g2 g3 : gstate) (x : nid) (s : S) (id r : N),
  dyn c = false -> file_dump c = false -> 1 < batch c ->
  valid V (evs1 ++ ev :: evs2) = true -> run_ok c ginit (evs1 ++ ev :: evs2) = true ->
  run_trace c ginit evs1 = Some g1 -> gstep c g1 ev = Some (g2, Some (x, s)) -> x < RO_BASE ->
  In (id, r, SUCCESS) (fired (outs s)) ->
  run_trace c g2 evs2 = Some g3 ->
  exists en x0 now rnd bud ord sl,
    ev = ETick x now rnd bud ord sl /\ aget x (nodes g1) = Some x0 /\
    aget x (nodes g2) = Some (nd s) /\
    1 <= eidx en /\ eidx en <= commit (nd s) /\
    nth_error (log (nd s)) (N.to_nat (eidx en) - 1) = Some en /\
    In (eterm en, id)
       (local_subs (subs_of (eidx en)
          (wait_commit (nd (tick_pre (mk_env c now rnd bud ord sl) (start_S (mk_env c now rnd bud ord sl) x0)))))) /\
    forall b xb, aget b (nodes g3) = Some xb -> b < RO_BASE -> eidx en <= commit xb ->
                 nth_error (log xb) (N.to_nat (eidx en) - 1) = Some en.
Proof.
  intros c V evs1 ev evs2 g1 g2 g3 x s id r Hd Hf Hb Hv Hok R1 ST Hx Hin R3.
  assert (F : core_frag c V (evs1 ++ ev :: evs2)) by (apply core_frag_intro; assumption).
  pose proof (success_local c evs1 g1 ev g2 (Some (x, s)) R1 ST) as SO.
  assert (Rrest : run_trace c g1 (ev :: evs2) = Some g3) by (cbn; now rewrite ST).
  destruct ev as [n now rnd bud ord sl|a b now rnd ord|a b|a b k|a b|n cm cb|n cm cb|n cm cb|n|n|n oth now rnd sv];
    cbn [step_outcomes_ok] in SO;
    try (exfalso; rewrite Forall_forall in SO; exact (not_final_success id r (SO _ Hin))).
  destruct SO as (x0 & Hx0 & SO). cbv zeta in SO.
  unfold gstep in ST. rewrite Hx0 in ST. injection ST as Hg2 Hn Hs. subst n.
  set (e := mk_env c now rnd bud ord sl) in *.
  assert (Hs' : s = on_tick e x0) by (symmetry; exact Hs). clear Hs.
  destruct SO as (F0 & F2 & Hfired & NF0 & NF2).
  set (s0 := tick_pre e (start_S e x0)) in *.
  (* the outcome belongs to the apply phase *)
  assert (Hmid : ok s0 = true /\ In (id, r, SUCCESS) (fired_list (hist (nd s0)) (wait_commit (nd s0)) (applied_in_tick s0))).
  { rewrite Hfired in Hin. apply in_app_or in Hin. destruct Hin as [Hin|Hin].
    - exfalso. rewrite Forall_forall in NF0. exact (not_final_success id r (NF0 _ Hin)).
    - apply in_app_or in Hin. destruct Hin as [Hin|Hin].
      + destruct (ok s0); [auto|contradiction].
      + exfalso. rewrite Forall_forall in NF2. exact (not_final_success id r (NF2 _ Hin)). }
  destruct Hmid as [Hok0 Hmid].
  (* the node before the step: idle serializer, well-formed log *)
  assert (Hidle : pid (sr x0) = 0).
  { apply (node_idle g1 x x0); [|exact Hx0].
    rewrite (run_ok_app c ginit evs1 (ETick x now rnd bud ord sl :: evs2) g1 R1) in Hok.
    apply andb_true_iff in Hok as [Hok1 _]. apply (idle_run c ginit evs1 g1 Hok1); [reflexivity|exact R1]. }
  assert (W0 : wf1 (log x0)) by (apply (core_node_wf1 c V evs1 _ g1 g3 x x0 F R1 Rrest Hx0 Hx)).
  destruct (tick_after_pre e x0 Hf Hidle) as ([a0 L0] & [a1 L1] & C1). fold s0 in L0, L1, C1. rewrite <- Hs' in L1, C1.
  (* the node after the step *)
  assert (Hx2 : aget x (nodes g2) = Some (nd s)).
  { rewrite <- Hg2, nodes_finish, aget_aset, N.eqb_refl. now rewrite Hs'. }
  assert (RA : run_trace c ginit (evs1 ++ [ETick x now rnd bud ord sl]) = Some g2).
  { apply (run_trace_snoc c ginit evs1 g1 _ g2 (Some (x, on_tick e x0)) R1).
    unfold gstep. rewrite Hx0. subst s. rewrite <- Hg2. reflexivity. }
  assert (F' : core_frag c V ((evs1 ++ [ETick x now rnd bud ord sl]) ++ evs2)) by (rewrite <- app_assoc; exact F).
  assert (W2 : wf1 (log (nd s))) by (apply (core_node_wf1 c V _ evs2 g2 g3 x (nd s) F' RA R3 Hx2 Hx)).
  assert (W1 : wf1 (log (nd s0))).
  { rewrite L1 in W2. apply (wf1_prefix _ a1 W2). rewrite L0. destruct W0 as [Hne _].
    destruct (log x0); [contradiction|discriminate]. }
  (* the executed entries *)
  destruct (apply_consecutive e s0 (wf1_log_wf _ W1)) as (AC1 & (pa & pb & AC2) & AC3 & AC4 & _ & AC6 & _).
  change (applied_now s0) with (applied_in_tick s0) in *.
  destruct (apply_outcome_origin s0 id r SUCCESS AC3 Hmid) as (pre & en & post & t & Hsplit & Hsub & Hcase).
  destruct Hcase as [(_ & Ht & _)|(Hbad & _)]; [|discriminate]. subst t.
  assert (Hin_es : In en (applied_in_tick s0)) by (rewrite Hsplit; apply in_or_app; right; now left).
  assert (Hin_log : In en (log (nd s0))).
  { rewrite AC2. apply in_or_app. right. apply in_or_app. now left. }
  destruct (wf1_nth _ en W1 Hin_log) as [Hi1 Hnth].
  assert (Hnth2 : nth_error (log (nd s)) (N.to_nat (eidx en) - 1) = Some en).
  { rewrite L1, nth_error_app1; [exact Hnth|]. apply nth_error_Some. congruence. }
  assert (Hic : eidx en <= commit (nd s)).
  { rewrite C1. pose proof (consec_in _ _ _ AC1 Hin_es) as Hr.
    assert (Hlen : (0 < length (applied_in_tick s0))%nat) by (rewrite Hsplit, app_length; cbn; lia).
    lia. }
  exists en, x0, now, rnd, bud, ord, sl.
  split; [reflexivity|]. split; [exact Hx0|]. split; [exact Hx2|]. split; [exact Hi1|]. split; [exact Hic|].
  split; [exact Hnth2|]. split; [exact Hsub|].
  apply (committed_everywhere c V _ evs2 g2 g3 x (nd s) (eidx en) en F' RA R3 Hx2 Hx Hi1 Hic Hnth2).
Qed.

(* the full statement also links the id to the command registered under it *)
Definition C02_success_is_committed_core_full : Prop :=
  forall (c : conf) (V : list nid) (evs1 : list event) (ev : event) (evs2 : list event)
         (g1 g2 g3 : gstate) (x : nid) (s : S) (id r : N),
  dyn c = false -> file_dump c = false -> 1 < batch c ->
  valid V (evs1 ++ ev :: evs2) = true -> run_ok c ginit (evs1 ++ ev :: evs2) = true ->
  NoDup (flat_map ev_ids (evs1 ++ ev :: evs2)) ->
  run_trace c ginit evs1 = Some g1 -> gstep c g1 ev = Some (g2, Some (x, s)) -> x < RO_BASE ->
  In (id, r, SUCCESS) (fired (outs s)) ->
  run_trace c g2 evs2 = Some g3 ->
  exists en cm,
    (In (ESubmit x cm id) evs1 \/ In (EAdmin x cm id) evs1 \/ In (ESetVer x cm id) evs1) /\
    cmd_eqb (ecmd en) cm = true /\
    1 <= eidx en /\ eidx en <= commit (nd s) /\
    nth_error (log (nd s)) (N.to_nat (eidx en) - 1) = Some en /\
    forall b xb, aget b (nodes g3) = Some xb -> b < RO_BASE -> eidx en <= commit xb ->
                 nth_error (log xb) (N.to_nat (eidx en) - 1) = Some en.

(* ------------------------------------------------------------------------------------------ *)
(* the hypotheses are met on the Tier C example run: callback 11 (submitted at the leader, node 1)
   fires SUCCESS in step 23, callbacks 12 and 13 (submitted at the follower, node 2, and forwarded)
   fire SUCCESS at node 2 in step 25 *)
From PSO Require Import Raft.RefineExample.

Definition ex_state (k : nat) : gstate :=
  match run_trace tc_conf ginit (firstn k tc_trace) with Some g => g | None => ginit end.
Definition ex_event (k : nat) : event := nth k tc_trace (EKill 0).
Definition ex_step (k : nat) : option (gstate * option (nid * S)) := gstep tc_conf (ex_state k) (ex_event k).

Example success_is_committed_example :
  tc_trace = firstn 23 tc_trace ++ ex_event 23 :: skipn 24 tc_trace /\
  tc_trace = firstn 25 tc_trace ++ ex_event 25 :: skipn 26 tc_trace /\
  dyn tc_conf = false /\ file_dump tc_conf = false /\ 1 < batch tc_conf /\
  valid tc_V tc_trace = true /\ run_ok tc_conf ginit tc_trace = true /\
  run_trace tc_conf ginit (firstn 23 tc_trace) = Some (ex_state 23) /\
  run_trace tc_conf ginit (firstn 25 tc_trace) = Some (ex_state 25) /\
  (exists g2 s, ex_step 23 = Some (g2, Some (1, s)) /\ In (11, 2, SUCCESS) (fired (outs s)) /\
                exists g3, run_trace tc_conf g2 (skipn 24 tc_trace) = Some g3) /\
  (exists g2 s, ex_step 25 = Some (g2, Some (2, s)) /\ In (12, 3, SUCCESS) (fired (outs s)) /\
                In (13, 4, SUCCESS) (fired (outs s)) /\
                exists g3, run_trace tc_conf g2 (skipn 26 tc_trace) = Some g3).
Proof.
  split; [vm_compute; reflexivity|]. split; [vm_compute; reflexivity|].
  split; [reflexivity|]. split; [reflexivity|]. split; [vm_compute; reflexivity|].
  destruct tc_in_fragment as (_ & _ & _ & Hv & Hok). split; [exact Hv|]. split; [exact Hok|].
  split; [vm_compute; reflexivity|]. split; [vm_compute; reflexivity|]. split.
  - do 2 eexists. split; [vm_compute; reflexivity|]. split; [vm_compute; auto|].
    eexists. vm_compute. reflexivity.
  - do 2 eexists. split; [vm_compute; reflexivity|]. split; [vm_compute; auto|]. split; [vm_compute; auto|].
    eexists. vm_compute. reflexivity.
Qed.
