(* C10 invariants over all states a node can reach through its handlers (well-formed deliveries):
   at most one membership entry of the leader's own term is unapplied (C10_one_pending_change); a node
   started fresh never re-applies a membership entry at commit time (C10_apply_does_not_reapply). *)
From Coq Require Import ZArith NArith List Bool Lia.
From RecordUpdate Require Import RecordSet.
From PSO Require Import Raft.Types Raft.Node Raft.Net Raft.Obs Raft.ProofsCommitBase Raft.ProofsCommit
  Raft.ProofsMembership Raft.ProofsCommitLog.
Import ListNotations.
Import RecordSetNotations.
Open Scope N_scope.

Definition is_mem (en : entry) : bool :=
  match membership_of (ecmd en) with Some _ => true | None => false end.

(* every membership entry the leader appended in its current term (index > noop_idx) that is not yet
   applied is the one change_idx points to *)
Definition pend (n : node) : Prop :=
  role n = LEADER ->
  exists i, noop_idx n = Some i /\
    forall en, In en (log n) -> is_mem en = true -> i < eidx en -> applied n < eidx en ->
               change_idx n = Some (eidx en).

(* a node that has not run its first tick is a follower *)
Definition nl (n : node) : Prop := need_load n = true -> role n = FOLLOWER.

Definition p5 (n : node) := (role n, noop_idx n, log n, applied n, change_idx n).

Lemma pend_weaken a b :
  (role b = LEADER -> role a = LEADER) -> noop_idx b = noop_idx a ->
  (forall en, In en (log b) -> In en (log a)) -> applied a <= applied b -> change_idx b = change_idx a ->
  pend a -> pend b.
Proof.
  intros Hr Hn Hl Ha Hc P Hb. destruct (P (Hr Hb)) as (i & Hi & H). exists i. rewrite Hn, Hc.
  split; [exact Hi|]. intros en Hin Hm Hlt Hap. apply H; auto. lia.
Qed.

Lemma pend_p5 a b : p5 b = p5 a -> pend a -> pend b.
Proof.
  unfold p5. intros H. injection H as E1 E2 E3 E4 E5. apply pend_weaken.
  - congruence.
  - congruence.
  - intros en Hin. replace (log a) with (log b) by congruence. exact Hin.
  - assert (applied a = applied b) by congruence. lia.
  - congruence.
Qed.

Lemma pend_not_leader n : role n <> LEADER -> pend n.
Proof. intros H Hr. contradiction. Qed.

(* the combined per-phase relation *)
Definition ikeeps (a b : node) : Prop :=
  node_wf a -> pend a -> node_wf b /\ pend b.

Lemma ikeeps_refl a : ikeeps a a.
Proof. intros H1 H2. auto. Qed.
Lemma ikeeps_trans a b c : ikeeps a b -> ikeeps b c -> ikeeps a c.
Proof. intros H1 H2 W P. destruct (H1 W P) as [W' P']. auto. Qed.

Lemma ikeeps_of a b : nkeeps a b -> (pend a -> pend b) -> ikeeps a b.
Proof. intros ((K & _) & _) H W P. auto. Qed.

Lemma ikeeps_frame a b : nkeeps a b -> p5 b = p5 a -> ikeeps a b.
Proof. intros K H. apply ikeeps_of; [exact K|now apply pend_p5]. Qed.

(* becoming leader establishes the invariant *)
Lemma become_leader_p5 e s :
  let n' := nd (become_leader e s) in
  role n' = LEADER /\ noop_idx n' = Some (last_idx (log (nd s)) + 1) /\
  log n' = log (nd s) ++ [mkEntry (noop_cmd (noop_pk (cf e))) (last_idx (log (nd s)) + 1) (term (nd s))] /\
  applied n' = applied (nd s) /\ change_idx n' = change_idx (nd s).
Proof.
  cbv zeta. unfold become_leader. rewrite andthen_eq.
  match goal with |- context [if ok (?f ?s1) then _ else _] => set (s2 := s1) end.
  assert (E : role (nd s2) = LEADER /\ noop_idx (nd s2) = Some (last_idx (log (nd s)) + 1) /\
              log (nd s2) = log (nd s) ++ [mkEntry (noop_cmd (noop_pk (cf e))) (last_idx (log (nd s)) + 1) (term (nd s))] /\
              applied (nd s2) = applied (nd s) /\ change_idx (nd s2) = change_idx (nd s)).
  { subst s2. rewrite nd_upd.
    match goal with |- context [nd (upd ?g ?s3)] => set (s4 := upd g s3) end.
    assert (E4 : role (nd s4) = LEADER /\ log (nd s4) = log (nd s) /\ term (nd s4) = term (nd s) /\
                 applied (nd s4) = applied (nd s) /\ change_idx (nd s4) = change_idx (nd s)).
    { subst s4. rewrite nd_upd.
      rewrite (fr_fold_node role), (fr_fold_node log), (fr_fold_node term), (fr_fold_node applied),
        (fr_fold_node change_idx) by reflexivity.
      rewrite nd_upd. cbn [role log term applied change_idx set].
      rewrite (fr_set_role log), (fr_set_role term), (fr_set_role applied), (fr_set_role change_idx) by frs.
      split; [|auto]. unfold set_role. destruct (_ =? _); reflexivity. }
    clearbody s4. destruct E4 as (R4 & L4 & T4 & A4 & C4).
    cbv beta zeta. unfold log_add. cbn [role noop_idx log applied change_idx set].
    rewrite L4, T4. auto. }
  clearbody s2. destruct E as (E1 & E2 & E3 & E4 & E5).
  assert (F : forall s0, role (nd (send_ae e s0)) = role (nd s0) /\ noop_idx (nd (send_ae e s0)) = noop_idx (nd s0) /\
                         log (nd (send_ae e s0)) = log (nd s0) /\ applied (nd (send_ae e s0)) = applied (nd s0) /\
                         change_idx (nd (send_ae e s0)) = change_idx (nd s0)).
  { intros s0. repeat split; [apply (fr_send_ae role)|apply (fr_send_ae noop_idx)|apply (fr_send_ae log)|
                              apply (fr_send_ae applied)|apply (fr_send_ae change_idx)]; frs. }
  destruct (use_batch (cf e)); cbv beta.
  - destruct (ok s2); [|auto]. destruct (F s2) as (-> & -> & -> & -> & ->). auto.
  - destruct (ok (send_ae e s2)).
    + destruct (F (send_ae e s2)) as (-> & -> & -> & -> & ->). destruct (F s2) as (-> & -> & -> & -> & ->). auto.
    + destruct (F s2) as (-> & -> & -> & -> & ->). auto.
Qed.

Lemma become_leader_pend e s : consec (log (nd s)) -> pend (nd (become_leader e s)).
Proof.
  intros Hc. destruct (become_leader_p5 e s) as (H1 & H2 & H3 & H4 & H5). cbv zeta in *.
  intros _. exists (last_idx (log (nd s)) + 1). split; [exact H2|].
  intros en Hin Hm Hlt _. rewrite H3 in Hin. apply in_app_or in Hin. destruct Hin as [Hin|[<-|[]]].
  - pose proof (consec_bounds _ _ Hc Hin). lia.
  - cbn in Hlt. lia.
Qed.

Lemma role_set_role r s : role (nd (set_role r s)) = r.
Proof. unfold set_role. destruct (role (nd s) =? r); reflexivity. Qed.

(* on_tick with a separate relation for the dump-load phase *)
Lemma on_tick_rel2 (R1 R : node -> node -> Prop) e :
  (forall a, R a a) -> (forall a b c, R a b -> R b c -> R a c) ->
  (forall a b c, R1 a b -> R b c -> R1 a c) ->
  (forall s, R1 (nd s) (nd (tick_load e s))) ->
  (forall s, R (nd s) (nd (tick_timer e s))) ->
  (forall s, R (nd s) (nd (tick_election e s))) ->
  (forall s, R (nd s) (nd (tick_leader e s))) ->
  (forall s, R (nd s) (nd (fst (apply_entries e s)))) ->
  (forall need s, R (nd s) (nd (tick_send e need s))) ->
  (forall s, R (nd s) (nd (tick_ready s))) ->
  (forall s, R (nd s) (nd (check_commands e s))) ->
  (forall s, R (nd s) (nd (try_compact e s))) ->
  forall n, R1 n (nd (on_tick e n)).
Proof.
  intros Rf Tr Tr1 H1 H2 H3 H4 H5 H6 H7 H8 H9 n. unfold on_tick.
  rewrite andthen_eq. pose proof (H1 (start_S e n)) as G1. cbn [nd start_S] in G1.
  destruct (ok _); [|exact G1]. eapply Tr1; [exact G1|].
  generalize (tick_load e (start_S e n)). intros s.
  apply andthen_rel; [exact Tr|apply H2|intros].
  apply andthen_rel; [exact Tr|apply H3|intros].
  apply andthen_rel; [exact Tr|apply H4|intros].
  pose proof (H5 s'1) as G. destruct (apply_entries e s'1) as [s1 need]. cbn [fst] in G.
  destruct (ok s1); [|exact G]. eapply Tr; [exact G|].
  apply andthen_rel; [exact Tr|apply H6|intros].
  apply andthen_rel; [exact Tr|apply H7|intros].
  apply andthen_rel; [exact Tr|apply H8|intros].
  apply H9.
Qed.

(* ------------------------------------------------------------------------------------------ *)
(* the leader's command loop                                                                  *)

Lemma check_one_regular e c cbk s :
  role (nd s) = LEADER -> (if dyn (cf e) then membership_of c else None) = None ->
  log (nd (check_one e c cbk s)) = log (nd s) ++ [mkEntry c (last_idx (log (nd s)) + 1) (term (nd s))] /\
  change_idx (nd (check_one e c cbk s)) = change_idx (nd s).
Proof.
  intros Hr Hq. unfold check_one. rewrite Hr, Hq. cbn [N.eqb Pos.eqb LEADER].
  set (s2 := upd (log_add _) s).
  set (s4 := match cbk with CbNone => s2 | _ => _ end).
  assert (E4 : log (nd s4) = log (nd s) ++ [mkEntry c (last_idx (log (nd s)) + 1) (term (nd s))] /\
               change_idx (nd s4) = change_idx (nd s)).
  { subst s4 s2. destruct cbk; cbn; rewrite ?nd_send; auto. }
  clearbody s4. destruct E4 as [E4a E4b].
  destruct (use_batch (cf e)); [auto|].
  rewrite (fr_send_ae log), (fr_send_ae change_idx) by frs. auto.
Qed.

Lemma pend_clear n j :
  change_idx n = Some j -> j <= applied n -> pend n -> pend (n <| change_idx := None |>).
Proof.
  intros Hc Hj P Hr. destruct (P Hr) as (i & Hi & H). exists i. split; [exact Hi|].
  intros en Hin Hm Hlt Hap. cbn in *. specialize (H en Hin Hm Hlt Hap). rewrite Hc in H. inversion H. lia.
Qed.

Lemma check_one_pend e c cbk s :
  dyn (cf e) = true -> pend (nd s) -> pend (nd (check_one e c cbk s)).
Proof.
  intros Hd P.
  assert (Fr : role (nd (check_one e c cbk s)) = role (nd s) /\
               noop_idx (nd (check_one e c cbk s)) = noop_idx (nd s) /\
               applied (nd (check_one e c cbk s)) = applied (nd s)).
  { repeat split; [apply (fr_check_one role)|apply (fr_check_one noop_idx)|apply (fr_check_one applied)]; frs. }
  destruct Fr as (Fr & Fn & Fa).
  destruct (N.eq_dec (role (nd s)) LEADER) as [Hr|Hr]; [|apply pend_not_leader; now rewrite Fr].
  destruct (membership_of c) as [[a x]|] eqn:Em.
  - destruct (gate e c cbk s a x Hd Hr Em) as [(Hg & _ & Hl & Hc & _)|(_ & s0 & Hgs & Hs')]; cbv zeta in *.
    + intros _. destruct (P Hr) as (i & Hi & H). exists i. rewrite Fn, Fa, Hl, Hc. split; [exact Hi|].
      intros en Hin Hm Hlt Hap. apply in_app_or in Hin. destruct Hin as [Hin|[<-|[]]]; [|reflexivity].
      exfalso. specialize (H en Hin Hm Hlt Hap).
      destruct Hg as [_ [Hn|(j & Hj & Hle)]]; [congruence|]. rewrite Hj in H. inversion H. lia.
    + rewrite Hs', nd_denied_out. destruct Hgs as [[->|[-> (j & Hj & Hle)]] _]; [exact P|].
      now apply (pend_clear _ j).
  - assert (Hq : (if dyn (cf e) then membership_of c else None) = None) by now rewrite Hd.
    destruct (check_one_regular e c cbk s Hr Hq) as [Hl Hc].
    intros _. destruct (P Hr) as (i & Hi & H). exists i. rewrite Fn, Fa, Hl, Hc. split; [exact Hi|].
    intros en Hin Hm Hlt Hap. apply in_app_or in Hin. destruct Hin as [Hin|[<-|[]]]; [now apply H|].
    unfold is_mem in Hm. cbn in Hm. rewrite Em in Hm. discriminate.
Qed.

Lemma check_loop_pend f e st s :
  dyn (cf e) = true -> pend (nd s) -> pend (nd (check_loop f e st s)).
Proof.
  intros Hd. revert s. induction f as [|f IH]; intros s P; cbn [check_loop]; [exact P|].
  destruct (_ <? _)%Z; [|exact P].
  assert (K : pend (nd (match queue (nd s) with
            | [] => s
            | (c, cbk) :: rest =>
              let s := upd (fun n => n <| queue := rest |>) s in
              let s := check_one e c cbk s in
              if ok s then check_loop f e st s else s end))).
  { destruct (queue (nd s)) as [|[c cbk] rest]; [exact P|]. cbv zeta.
    assert (K1 : pend (nd (check_one e c cbk (upd (fun n => n <| queue := rest |>) s)))).
    { apply check_one_pend; [exact Hd|]. apply (pend_p5 (nd s)); [reflexivity|exact P]. }
    destruct (ok _); [apply IH; exact K1|exact K1]. }
  destruct (leader (nd s)); [exact K|]. destruct (wait_leader (cf e)); [exact P|exact K].
Qed.

(* ------------------------------------------------------------------------------------------ *)
(* ticks and messages                                                                         *)

(* the relation for the phases after the dump load: the node has had its first tick *)
Definition ikeeps2 (a b : node) : Prop :=
  node_wf a -> pend a -> need_load a = false -> node_wf b /\ pend b /\ need_load b = false.

Lemma ikeeps2_refl a : ikeeps2 a a.
Proof. intros H1 H2 H3. auto. Qed.
Lemma ikeeps2_trans a b c : ikeeps2 a b -> ikeeps2 b c -> ikeeps2 a c.
Proof. intros H1 H2 W P N. destruct (H1 W P N) as (W' & P' & N'). auto. Qed.

Lemma ikeeps2_of a b : nkeeps a b -> (pend a -> pend b) -> need_load b = need_load a -> ikeeps2 a b.
Proof. intros ((K & _) & _) H Hn W P N. rewrite Hn. auto. Qed.

Lemma In_delete_to l id en : In en (delete_to l id) -> In en l.
Proof.
  unfold delete_to. destruct (_ <? _); [auto|]. generalize (N.to_nat (id - first_idx l)). intros k.
  revert l. induction k as [|k IH]; intros l H; [exact H|].
  destruct l; [exact H|]. right. apply IH. exact H.
Qed.

Theorem on_tick_inv e n :
  dyn (cf e) = true -> node_wf n -> pend n -> nl n ->
  node_wf (nd (on_tick e n)) /\ pend (nd (on_tick e n)) /\ need_load (nd (on_tick e n)) = false.
Proof.
  intros Hd.
  apply (on_tick_rel2 (fun a b => node_wf a -> pend a -> nl a -> node_wf b /\ pend b /\ need_load b = false) ikeeps2).
  - apply ikeeps2_refl.
  - apply ikeeps2_trans.
  - intros a b c H1 H2 W P N. destruct (H1 W P N) as (W' & P' & N'). auto.
  - (* tick_load *)
    intros s W P N. split; [now apply tick_load_keeps|]. split; [|reflexivity].
    unfold tick_load. rewrite nd_upd.
    destruct (need_load (nd s) && file_dump (cf e)) eqn:En.
    + apply andb_prop in En. destruct En as [En _]. apply pend_not_leader. cbn [role set].
      rewrite (fr_load_dump role) by frs. rewrite (N En). discriminate.
    + apply (pend_p5 (nd s)); [reflexivity|exact P].
  - intros s. apply ikeeps2_of; [by_frame @fr_tick_timer| |apply (fr_tick_timer need_load); frs].
    apply pend_p5. apply (fr_tick_timer p5); reflexivity.
  - (* tick_election *)
    intros s W P N. split; [now apply nkeeps_tick_election|]. split; [|rewrite (fr_tick_election need_load) by frs; exact N].
    unfold tick_election. destruct (self (nd s)) as [me|]; [|exact P].
    destruct (_ && _) eqn:Ec; [|exact P].
    match goal with |- pend (nd (if majority _ (nd ?s1) then _ else _)) => set (s2 := s1) end.
    assert (E : log (nd s2) = log (nd s) /\ role (nd s2) = CANDIDATE).
    { subst s2. rewrite (fr_on_leader_changed log), (fr_on_leader_changed role) by frs.
      rewrite (fr_fold log), (fr_fold role) by (intros; now rewrite nd_send).
      rewrite nd_upd. cbn [log role set]. rewrite (fr_set_role log) by frs. split; [reflexivity|].
      apply role_set_role. }
    clearbody s2. destruct E as [El Er].
    destruct (majority _ _).
    + apply become_leader_pend. rewrite El. apply W.
    + apply pend_not_leader. rewrite Er. discriminate.
  - (* tick_leader *)
    intros s. apply ikeeps2_of; [by_frame @fr_tick_leader| |apply (fr_tick_leader need_load); frs].
    apply pend_weaken.
    + unfold tick_leader. destruct (role (nd s) =? LEADER) eqn:Er; [intros _; now apply N.eqb_eq in Er|auto].
    + apply (fr_tick_leader noop_idx); frs.
    + intros en. rewrite (fr_tick_leader log) by frs. auto.
    + rewrite (fr_tick_leader applied) by frs. lia.
    + apply (fr_tick_leader change_idx); frs.
  - (* apply_entries *)
    intros s. apply ikeeps2_of; [apply nkeeps_apply_entries| |apply (fr_apply_entries need_load); frs].
    apply pend_weaken.
    + rewrite (fr_apply_entries role) by frs. auto.
    + apply (fr_apply_entries noop_idx); frs.
    + intros en. rewrite (fr_apply_entries log) by frs. auto.
    + apply applied_apply_entries.
    + apply (fr_apply_entries change_idx); frs.
  - intros need s. apply ikeeps2_of; [apply nkeeps_tick_send| |apply (fr_tick_send need_load); frs].
    apply pend_p5. apply (fr_tick_send p5); reflexivity.
  - intros s. apply ikeeps2_of; [by_frame @fr_tick_ready| |apply (fr_tick_ready need_load); frs].
    apply pend_p5. apply (fr_tick_ready p5); reflexivity.
  - intros s. apply ikeeps2_of; [apply nkeeps_check_commands| |apply (fr_check_commands need_load); frs].
    unfold check_commands. apply check_loop_pend. exact Hd.
  - (* try_compact *)
    intros s W P N. split; [now apply try_compact_wf|]. split; [|rewrite (fr_try_compact need_load) by frs; exact N].
    revert P. apply pend_weaken.
    + rewrite (fr_try_compact role) by frs. auto.
    + apply (fr_try_compact noop_idx); frs.
    + intros en. unfold try_compact.
      set (s1 := if pid (sr (nd s)) =? 0 then s else _).
      assert (E1 : log (nd s1) = log (nd s)) by (subst s1; destruct (_ =? 0); reflexivity).
      clearbody s1.
      set (s2 := if pid (sr (nd s)) =? 1 then _ else s1).
      assert (E2 : forall en, In en (log (nd s2)) -> In en (log (nd s))).
      { subst s2. intros en0. destruct (_ =? 1); [|now rewrite E1]. cbn. rewrite E1. apply In_delete_to. }
      clearbody s2. intros Hin. apply E2. revert Hin.
      destruct (negb _); [auto|]. destruct (_ && _); [auto|].
      destruct (get_entries _ _ _ _) as [|e0 [|e1 r]]; auto.
      destruct (opt_eqb _ _); auto.
    + rewrite (fr_try_compact applied) by frs. lia.
    + apply (fr_try_compact change_idx); frs.
Qed.

Lemma request_vote_role e from t lli llt n :
  let n' := nd (on_message e from (RequestVote t lli llt) n) in
  role n' = role n \/ role n' = FOLLOWER.
Proof.
  cbv zeta. unfold on_message. cbn [nd start_S]. destruct (self n); [|now left].
  set (s1 := if term n <? t then _ else start_S e n).
  assert (E : role (nd s1) = role n \/ role (nd s1) = FOLLOWER).
  { subst s1. destruct (_ <? _); [right|now left]. rewrite nd_upd. cbn [role set]. apply role_set_role. }
  clearbody s1.
  assert (F : role (nd (if (role (nd s1) =? FOLLOWER) || (role (nd s1) =? CANDIDATE)
        then if term (nd s1) <=? t
          then if llt <? last_term (log (nd s1)) then s1
            else if (llt =? last_term (log (nd s1))) && (lli <? last_idx (log (nd s1))) then s1
              else match voted (nd s1) with
                   | Some _ => s1
                   | None => send from (ResponseVote t)
                       (upd (fun n0 => n0 <| voted := Some from |> <| deadline := (tnow s1 + gen_timeout e)%Z |>) s1)
                   end
          else s1
        else s1)) = role (nd s1)).
  { repeat (match goal with |- context [if ?b then _ else _] => destruct b end;
            try reflexivity; try (rewrite nd_send; reflexivity)). }
  rewrite F. exact E.
Qed.

Theorem on_message_inv e from m n :
  msg_wf m -> node_wf n -> pend n -> nl n ->
  let n' := nd (on_message e from m n) in node_wf n' /\ pend n' /\ nl n'.
Proof.
  intros Hm W P N. cbv zeta. split; [now apply on_message_keeps|].
  assert (Hfr : forall n', p5 n' = p5 n -> need_load n' = need_load n -> pend n' /\ nl n').
  { intros n' H5 Hn. split; [now apply (pend_p5 n)|]. unfold nl. rewrite Hn. intros H.
    unfold p5 in H5. injection H5 as E1 _ _ _ _. rewrite E1. now apply N. }
  destruct m as [t lli llt|t|t c prev es|t c prev lab off len en|t c p|cm req|req okr a b|t nx r su].
  - destruct (request_vote_role e from t lli llt n) as [Hr|Hr]; cbv zeta in Hr.
    + split.
      * revert P. apply pend_weaken; [now rewrite Hr| | | |].
        -- apply (fr_msg_request_vote noop_idx); frs.
        -- intros en. rewrite (fr_msg_request_vote log) by frs. auto.
        -- rewrite (fr_msg_request_vote applied) by frs. lia.
        -- apply (fr_msg_request_vote change_idx); frs.
      * unfold nl. rewrite (fr_msg_request_vote need_load) by frs. rewrite Hr. exact N.
    + split; [apply pend_not_leader; rewrite Hr; discriminate|intros _; exact Hr].
  - unfold on_message. cbn [nd start_S]. destruct ((role n =? CANDIDATE) && (t =? term n)) eqn:Ec;
      [|split; assumption].
    apply andb_prop in Ec. destruct Ec as [Ec _]. apply N.eqb_eq in Ec.
    assert (Hnl : need_load n = false).
    { destruct (need_load n) eqn:E; [|reflexivity]. rewrite (N E) in Ec. discriminate. }
    destruct (majority _ _).
    + split; [apply become_leader_pend; apply W|].
      unfold nl. rewrite (fr_become_leader need_load) by frs. cbn. rewrite Hnl. discriminate.
    + apply Hfr; [|reflexivity]. unfold p5. cbn. reflexivity.
  - unfold on_message. rewrite on_append_entries_eq. cbn [nd start_S].
    destruct (t <? term n); [split; assumption|].
    assert (Hr : role (nd (ae_body_of e from (AE t c prev es) c (ae_pre e from t c (start_S e n)))) = FOLLOWER)
      by (rewrite (fr_ae_body_of role) by frs; apply role_ae_pre).
    split; [apply pend_not_leader; rewrite Hr; discriminate|intros _; exact Hr].
  - unfold on_message. rewrite on_append_entries_eq. cbn [nd start_S].
    destruct (t <? term n); [split; assumption|].
    assert (Hr : role (nd (ae_body_of e from (AEPiece t c prev lab off len en) c (ae_pre e from t c (start_S e n)))) = FOLLOWER)
      by (rewrite (fr_ae_body_of role) by frs; apply role_ae_pre).
    split; [apply pend_not_leader; rewrite Hr; discriminate|intros _; exact Hr].
  - unfold on_message. rewrite on_append_entries_eq. cbn [nd start_S].
    destruct (t <? term n); [split; assumption|].
    assert (Hr : role (nd (ae_body_of e from (AESnap t c p) c (ae_pre e from t c (start_S e n)))) = FOLLOWER)
      by (rewrite (fr_ae_body_of role) by frs; apply role_ae_pre).
    split; [apply pend_not_leader; rewrite Hr; discriminate|intros _; exact Hr].
  - apply Hfr; [apply (fr_msg_apply_cmd p5); reflexivity|apply (fr_msg_apply_cmd need_load); frs].
  - apply Hfr; [apply (fr_msg_apply_resp p5); reflexivity|apply (fr_msg_apply_resp need_load); frs].
  - apply Hfr; [apply (fr_msg_next_idx p5); reflexivity|apply (fr_msg_next_idx need_load); frs].
Qed.

Definition ninv (n : node) : Prop := node_wf n /\ pend n /\ nl n.

Theorem nstep_inv c n n' : dyn c = true -> nstep c msg_wf n n' -> ninv n -> ninv n'.
Proof.
  intros Hd H (W & P & N).
  assert (Hfr : forall n2, nkeeps n n2 -> p5 n2 = p5 n -> need_load n2 = need_load n -> ninv n2).
  { intros n2 K H5 Hn. split; [now apply K|]. split; [now apply (pend_p5 n)|]. unfold nl. rewrite Hn. intros Hl.
    unfold p5 in H5. injection H5 as E1 _ _ _ _. rewrite E1. now apply N. }
  destruct H.
  - subst c. destruct (on_tick_inv e n Hd W P N) as (W' & P' & N'). split; [exact W'|]. split; [exact P'|].
    unfold nl. rewrite N'. discriminate.
  - now apply on_message_inv.
  - apply Hfr; [apply on_connected_keeps|apply (fr_on_connected p5); reflexivity|apply (fr_on_connected need_load); frs].
  - apply Hfr; [apply on_disconnected_keeps|apply (fr_on_disconnected p5); reflexivity|apply (fr_on_disconnected need_load); frs].
  - unfold api_submit. apply Hfr; [apply nkeeps_los; apply (fr_submit los); reflexivity|
      apply (fr_submit p5); reflexivity|apply (fr_submit need_load); frs].
  - unfold api_admin. destruct (dyn (cf e)); [|apply Hfr; [apply nkeeps_refl|reflexivity|reflexivity]].
    apply Hfr; [apply nkeeps_los; apply (fr_submit los); reflexivity|
      apply (fr_submit p5); reflexivity|apply (fr_submit need_load); frs].
  - unfold api_setver. destruct (_ || _); [apply Hfr; [apply nkeeps_refl|reflexivity|reflexivity]|].
    apply Hfr; [apply nkeeps_los; apply (fr_submit los); reflexivity|
      apply (fr_submit p5); reflexivity|apply (fr_submit need_load); frs].
  - apply Hfr; [apply nkeeps_los; reflexivity|reflexivity|reflexivity].
Qed.

(* the states a node object can reach: constructed fresh or from its files, then any sequence of
   handler invocations with well-formed deliveries *)
Definition disk_wf (d : disk) : Prop :=
  consec (d_log d) /\ match d_dump d with Some b => blob_wf b | None => True end.

Inductive nreach (c : conf) : node -> Prop :=
| nr_init e me oth sv : cf e = c -> ssorted oth -> nreach c (init_node e me oth sv)
| nr_disk e me oth sv d : cf e = c -> ssorted oth -> disk_wf d -> nreach c (init_from_disk e me oth sv d)
| nr_step n n' : nreach c n -> nstep c msg_wf n n' -> nreach c n'.

Lemma init_from_disk_inv e me oth sv d : ssorted oth -> disk_wf d -> ninv (init_from_disk e me oth sv d).
Proof.
  intros Ho [Hl Hb]. unfold init_from_disk.
  destruct (init_node_wf e me oth sv Ho) as [(W1 & W2 & W3) _].
  assert (Hsr : sr_wf ((sr (init_node e me oth sv)) <| stored := d_dump d |>)).
  { cbn. repeat split; intros; try discriminate; try contradiction.
    destruct (d_dump d); [|discriminate]. inversion H; subst. exact Hb. }
  destruct (d_log d) as [|e0 l] eqn:El.
  - split; [split; [exact W1|split; [exact W2|exact Hsr]]|]. split; [apply pend_not_leader; discriminate|intros _; reflexivity].
  - split; [split; [exact Hl|split; [exact W2|exact Hsr]]|]. split; [apply pend_not_leader; discriminate|intros _; reflexivity].
Qed.

Theorem nreach_inv c n : dyn c = true -> nreach c n -> ninv n.
Proof.
  intros Hd H. induction H.
  - split; [now apply init_node_wf|]. split; [apply pend_not_leader; discriminate|intros _; reflexivity].
  - now apply init_from_disk_inv.
  - eapply nstep_inv; eauto.
Qed.

(* C10_one_pending_change *)
Theorem one_pending_change c n :
  dyn c = true -> nreach c n -> role n = LEADER ->
  exists i, noop_idx n = Some i /\
    forall e1 e2, In e1 (log n) -> In e2 (log n) -> is_mem e1 = true -> is_mem e2 = true ->
                  i < eidx e1 -> i < eidx e2 -> applied n < eidx e1 -> applied n < eidx e2 -> e1 = e2.
Proof.
  intros Hd Hr Hl. destruct (nreach_inv c n Hd Hr) as ((Hc & _) & P & _).
  destruct (P Hl) as (i & Hi & H). exists i. split; [exact Hi|].
  intros e1 e2 H1 H2 M1 M2 I1 I2 A1 A2.
  pose proof (H e1 H1 M1 I1 A1) as C1. pose proof (H e2 H2 M2 I2 A2) as C2.
  apply (consec_inj (log n)); auto. congruence.
Qed.

(* when the gate lets a change through, no membership entry at all is pending *)
Theorem gate_open_no_pending c n :
  dyn c = true -> nreach c n -> role n = LEADER -> gate_open n ->
  forall en, In en (log n) -> is_mem en = true ->
    eidx en <= applied n \/ (exists i, noop_idx n = Some i /\ eidx en <= i /\ i <= applied n).
Proof.
  intros Hd Hr Hl [(i & Hi & Hle) Hg] en Hin Hm.
  destruct (nreach_inv c n Hd Hr) as (_ & P & _). destruct (P Hl) as (i' & Hi' & H).
  rewrite Hi in Hi'. inversion Hi'; subst i'.
  destruct (N.le_gt_cases (eidx en) (applied n)) as [Ha|Ha]; [now left|].
  destruct (N.le_gt_cases (eidx en) i) as [Hb|Hb]; [right; exists i; auto|].
  specialize (H en Hin Hm Hb Ha). destruct Hg as [Hn|(j & Hj & Hjle)]; [congruence|].
  rewrite Hj in H. inversion H. lia.
Qed.

(* ------------------------------------------------------------------------------------------ *)
(* C10_apply_does_not_reapply for a node started fresh                                        *)

Definition fresh (n : node) : Prop := replay_idx n <= 1 /\ 1 <= applied n.

Definition p2 (n : node) := (replay_idx n, applied n).

Lemma fresh_p2 a b : p2 b = p2 a -> fresh a -> fresh b.
Proof. unfold p2, fresh. intros H. injection H as -> ->. auto. Qed.

Definition fkeeps (a b : node) : Prop := node_wf a -> fresh a -> node_wf b /\ fresh b.

Lemma fkeeps_refl a : fkeeps a a.
Proof. intros H1 H2. auto. Qed.
Lemma fkeeps_trans a b c : fkeeps a b -> fkeeps b c -> fkeeps a c.
Proof. intros H1 H2 W F. destruct (H1 W F). auto. Qed.
Lemma fkeeps_frame a b : nkeeps0 a b -> p2 b = p2 a -> fkeeps a b.
Proof. intros [K _] H W F. split; [auto|now apply (fresh_p2 a)]. Qed.

Lemma replay_load_dump e cl s : replay_idx (nd (load_dump e cl s)) <= replay_idx (nd s).
Proof.
  unfold load_dump. destruct (stored (sr (nd s))) as [[sn|]|]; try lia.
  destruct (cl && _); [cbn; lia|].
  destruct (_ <? _); [lia|].
  cbv zeta.
  match goal with |- context [update_cluster ?l ?s4] => set (s5 := s4) end.
  assert (E : replay_idx (nd s5) <= replay_idx (nd s)).
  { subst s5. rewrite nd_upd. cbn [replay_idx set].
    match goal with |- replay_idx (nd (if ?b then _ else ?s2)) <= _ =>
      assert (E2 : replay_idx (nd s2) = replay_idx (nd s)); [|destruct b] end.
    - match goal with |- context [if ?b then _ else _] => destruct b end; reflexivity.
    - rewrite nd_upd. cbn [replay_idx set]. rewrite E2. lia.
    - rewrite E2. lia. }
  clearbody s5.
  destruct (dyn (cf e)); [|exact E].
  match goal with |- context [if ?b then apply_membership _ _ _ else _] => destruct b end;
    rewrite ?(fr_apply_membership replay_idx) by frs; rewrite (fr_update_cluster replay_idx) by frs; exact E.
Qed.

Lemma load_dump_fkeeps e cl s : fkeeps (nd s) (nd (load_dump e cl s)).
Proof.
  intros W [F1 F2]. split; [now apply load_dump_keeps|]. split.
  - pose proof (replay_load_dump e cl s). lia.
  - destruct (applied_load_dump e cl s) as [->|(sn & Hs & _ & -> & _)]; [exact F2|].
    destruct W as (_ & _ & (S1 & _)). destruct (S1 _ Hs) as [Hi _]. lia.
Qed.

Lemma ae_regular_p2 e from c prev new s :
  replay_idx (nd (ae_regular e from c prev new s)) <= replay_idx (nd s) /\
  applied (nd (ae_regular e from c prev new s)) = applied (nd s).
Proof.
  split; [|apply (fr_ae_regular applied); frs].
  unfold ae_regular.
  destruct (get_entries _ _ _ _) as [|p0 ptail]; [rewrite nd_send_next_idx; lia|].
  destruct prev as [[pidx pterm]|]; [|rewrite nd_send_next_idx; lia].
  destruct (negb _); [rewrite nd_send_next_idx; lia|].
  rewrite (fr_ae_commit replay_idx), nd_send_next_idx by frs.
  match goal with |- context [upd (fun n => n <| log := log n ++ _ |>) ?s1] => set (s2 := s1) end.
  assert (E : replay_idx (nd s2) <= replay_idx (nd s)).
  { subst s2. destruct (skipn _ ptail); [lia|]. destruct (skipn _ new); [lia|].
    rewrite nd_upd. cbn [replay_idx set].
    destruct (dyn (cf e)); rewrite ?(fr_apply_membership replay_idx) by frs; lia. }
  clearbody s2.
  destruct (dyn (cf e)); rewrite ?(fr_apply_membership replay_idx) by frs; rewrite nd_upd; exact E.
Qed.

Lemma ae_body_of_fkeeps e from m c s : msg_wf m -> fkeeps (nd s) (nd (ae_body_of e from m c s)).
Proof.
  intros Hm W [F1 F2]. split; [now apply ae_body_of_keeps|].
  unfold ae_body_of. destruct m as [| |t c0 prev es|t c0 prev lab off len en|t c0 p| | |]; try (split; assumption).
  - destruct (ae_regular_p2 e from c prev es s) as [R1 R2]. split; [lia|rewrite R2; exact F2].
  - destruct (lab =? 1); [rewrite nd_send_next_idx; split; assumption|].
    destruct (recv_t (nd s)); [split; assumption|].
    destruct (lab =? 2); [rewrite nd_send_next_idx; split; assumption|].
    cbn [nd upd]. destruct (assemble_entry _); [|split; assumption].
    match goal with |- fresh (nd (ae_regular e from c prev ?l ?s1)) =>
      destruct (ae_regular_p2 e from c prev l s1) as [R1 R2] end.
    split; [cbn in R1; lia|rewrite R2; exact F2].
  - assert (Hp : match p with SData b _ _ _ _ => blob_wf b | SNone => True end) by (destruct p; exact Hm).
    pose proof (set_transmission_keeps p s Hp) as [G _].
    pose proof (fr_set_transmission p2) as G2. specialize (G2 ltac:(reflexivity) p s).
    destruct (set_transmission p s) as [s2 dn]. cbn [fst] in *.
    assert (F' : fresh (nd s2)) by (apply (fresh_p2 (nd s)); auto; split; assumption).
    destruct (dn && _); [|destruct dn].
    + apply (fresh_p2 (nd (load_dump e true s2))).
      * rewrite (fr_ae_commit p2) by reflexivity. now rewrite nd_send_next_idx.
      * apply load_dump_fkeeps; auto.
    + apply (fresh_p2 (nd (load_dump e true s2))).
      * apply (fr_ae_commit p2); reflexivity.
      * apply load_dump_fkeeps; auto.
    + apply (fresh_p2 (nd s2)); [apply (fr_ae_commit p2); reflexivity|exact F'].
Qed.

Theorem nstep_fresh c n n' : nstep c msg_wf n n' -> node_wf n -> fresh n -> fresh n'.
Proof.
  intros H W F. destruct H.
  - revert W F.
    enough (G : fkeeps n (nd (on_tick e n))) by (intros W F; now apply G).
    apply (on_tick_rel fkeeps); [apply fkeeps_refl|apply fkeeps_trans| | | | | | | | |].
    + intros s. unfold tick_load.
      set (s1 := if need_load (nd s) && file_dump (cf e) then load_dump e false s else s).
      assert (E1 : fkeeps (nd s) (nd s1)).
      { subst s1. destruct (_ && _); [apply load_dump_fkeeps|apply fkeeps_refl]. }
      eapply fkeeps_trans; [exact E1|apply fkeeps_frame; [apply nkeeps_0, nkeeps_los|]; reflexivity].
    + intros s. apply fkeeps_frame; [apply nkeeps_0; by_frame @fr_tick_timer|apply (fr_tick_timer p2); reflexivity].
    + intros s. apply fkeeps_frame; [apply nkeeps_0, nkeeps_tick_election|apply (fr_tick_election p2); reflexivity].
    + intros s. apply fkeeps_frame; [apply nkeeps_0; by_frame @fr_tick_leader|apply (fr_tick_leader p2); reflexivity].
    + intros s W' [F1 F2]. split; [now apply nkeeps_apply_entries|]. split.
      * rewrite (fr_apply_entries replay_idx) by frs. exact F1.
      * pose proof (applied_apply_entries e s). lia.
    + intros need s. apply fkeeps_frame; [apply nkeeps_0, nkeeps_tick_send|apply (fr_tick_send p2); reflexivity].
    + intros s. apply fkeeps_frame; [apply nkeeps_0; by_frame @fr_tick_ready|apply (fr_tick_ready p2); reflexivity].
    + intros s. apply fkeeps_frame; [apply nkeeps_0, nkeeps_check_commands|apply (fr_check_commands p2); reflexivity].
    + intros s W' F'. split; [now apply try_compact_wf|].
      apply (fresh_p2 (nd s)); [apply (fr_try_compact p2); reflexivity|exact F'].
  - destruct m as [t lli llt|t|t c0 prev es|t c0 prev lab off len en|t c0 p|cm req|req okr a b|t nx r su].
    + apply (fresh_p2 n); [apply (fr_msg_request_vote p2); reflexivity|exact F].
    + apply (fresh_p2 n); [apply (fr_msg_response_vote p2); reflexivity|exact F].
    + unfold on_message. rewrite on_append_entries_eq. cbn [nd start_S]. destruct (_ <? _); [exact F|].
      apply (ae_body_of_fkeeps e from _ c0 (ae_pre e from t c0 (start_S e n))); auto.
      * apply (nkeeps_los n); [apply (fr_ae_pre los); reflexivity|exact W].
      * apply (fresh_p2 n); [apply (fr_ae_pre p2); reflexivity|exact F].
    + unfold on_message. rewrite on_append_entries_eq. cbn [nd start_S]. destruct (_ <? _); [exact F|].
      apply (ae_body_of_fkeeps e from _ c0 (ae_pre e from t c0 (start_S e n))); auto.
      * apply (nkeeps_los n); [apply (fr_ae_pre los); reflexivity|exact W].
      * apply (fresh_p2 n); [apply (fr_ae_pre p2); reflexivity|exact F].
    + unfold on_message. rewrite on_append_entries_eq. cbn [nd start_S]. destruct (_ <? _); [exact F|].
      apply (ae_body_of_fkeeps e from _ c0 (ae_pre e from t c0 (start_S e n))); auto.
      * apply (nkeeps_los n); [apply (fr_ae_pre los); reflexivity|exact W].
      * apply (fresh_p2 n); [apply (fr_ae_pre p2); reflexivity|exact F].
    + apply (fresh_p2 n); [apply (fr_msg_apply_cmd p2); reflexivity|exact F].
    + apply (fresh_p2 n); [apply (fr_msg_apply_resp p2); reflexivity|exact F].
    + apply (fresh_p2 n); [apply (fr_msg_next_idx p2); reflexivity|exact F].
  - apply (fresh_p2 n); [apply (fr_on_connected p2); reflexivity|exact F].
  - apply (fresh_p2 n); [apply (fr_on_disconnected p2); reflexivity|exact F].
  - apply (fresh_p2 n); [apply (fr_submit p2); reflexivity|exact F].
  - unfold api_admin. destruct (dyn (cf e)); [|exact F]. apply (fresh_p2 n); [apply (fr_submit p2); reflexivity|exact F].
  - unfold api_setver. destruct (_ || _); [exact F|]. apply (fresh_p2 n); [apply (fr_submit p2); reflexivity|exact F].
  - exact F.
Qed.

(* states reachable from a fresh construction (no journal to replay) *)
Inductive freach (c : conf) : node -> Prop :=
| fr_init e me oth sv : cf e = c -> ssorted oth -> freach c (init_node e me oth sv)
| fr_step n n' : freach c n -> nstep c msg_wf n n' -> freach c n'.

Lemma freach_inv c n : freach c n -> node_wf n /\ fresh n.
Proof.
  intros H. induction H as [e me oth sv Hc Ho|n n' H [W F] Hs].
  - split; [now apply init_node_wf|]. split; cbn; lia.
  - split; [eapply nstep_wf; eauto|eapply nstep_fresh; eauto].
Qed.

(* C10_apply_does_not_reapply *)
Theorem apply_does_not_reapply_fresh c n e s :
  freach c n -> nd s = n -> others (nd (fst (apply_entries e s))) = others n.
Proof.
  intros H <-. destruct (freach_inv c _ H) as [_ [F1 F2]].
  apply apply_does_not_reapply. lia.
Qed.
